From Coq Require Import List ZArith QArith Bool Lia Lqa Permutation.
From KaiV Require Import Model.Reclaim Model.ReclaimSpec.
Import ListNotations.
Set Default Timeout 60.
Open Scope Q_scope.

(** * Comparisons *)

Lemma Qgtb_true a b : Qgtb a b = true <-> b < a.
Proof.
  unfold Qgtb. rewrite negb_true_iff. split.
  - intros H. apply Qnot_le_lt. intros L. apply Qle_bool_iff in L. congruence.
  - intros H. destruct (Qle_bool a b) eqn:E; [|reflexivity].
    apply Qle_bool_iff in E. exfalso. apply (Qlt_not_le _ _ H E).
Qed.

Lemma Qgtb_false a b : Qgtb a b = false <-> a <= b.
Proof.
  unfold Qgtb. rewrite negb_false_iff. apply Qle_bool_iff.
Qed.

Lemma is_unl_true x : is_unl x = true <-> x == unlimited.
Proof. unfold is_unl. apply Qeq_bool_iff. Qed.

Lemma is_unl_false x : is_unl x = false <-> ~ x == unlimited.
Proof.
  unfold is_unl. split.
  - intros H E. apply Qeq_bool_iff in E. congruence.
  - intros H. destruct (Qeq_bool x unlimited) eqn:E; [|reflexivity].
    apply Qeq_bool_iff in E. contradiction.
Qed.

Lemma cmp_gt_false a b : cmp_gt a b = false -> ~ exceeds a b.
Proof.
  unfold cmp_gt, exceeds. intros H [Hb Hlt].
  destruct (is_unl a) eqn:Ea.
  - apply negb_false_iff, is_unl_true in H. contradiction.
  - destruct (is_unl b) eqn:Eb.
    + apply is_unl_true in Eb. contradiction.
    + apply Qgtb_false in H. apply (Qlt_not_le _ _ Hlt H).
Qed.

Lemma cmp_gt_true a b : cmp_gt a b = true -> ~ a == unlimited -> exceeds a b.
Proof.
  unfold cmp_gt, exceeds. intros H Ha.
  apply is_unl_false in Ha. rewrite Ha in H.
  destruct (is_unl b) eqn:Eb; [discriminate|].
  apply is_unl_false in Eb. apply Qgtb_true in H. auto.
Qed.

Lemma forall_res (P : rname -> Prop) : P Cpu -> P Mem -> P Gpu -> forall r, P r.
Proof. intros; destruct r; assumption. Qed.

Lemma forallb_res (f : rname -> bool) :
  forallb f all_res = true <-> forall r, f r = true.
Proof.
  unfold all_res. cbn [forallb]. split.
  - intros H. apply andb_true_iff in H as [H1 H]. apply andb_true_iff in H as [H2 H].
    apply andb_true_iff in H as [H3 _]. apply forall_res; assumption.
  - intros H. rewrite (H Cpu), (H Mem), (H Gpu). reflexivity.
Qed.

Lemma forallb_res_false (f : rname -> bool) :
  forallb f all_res = false -> exists r, f r = false.
Proof.
  unfold all_res. cbn [forallb]. intros H.
  destruct (f Cpu) eqn:E1; [|exists Cpu; assumption].
  destruct (f Mem) eqn:E2; [|exists Mem; assumption].
  destruct (f Gpu) eqn:E3; [|exists Gpu; assumption].
  discriminate.
Qed.

(** LessEqual, read as a statement about real quantities and bounds *)
Lemma less_equal_within a b : less_equal a b = true -> within_all a b.
Proof.
  unfold less_equal, within_all. intros H r.
  rewrite forallb_res in H. specialize (H r). apply negb_true_iff in H.
  apply cmp_gt_false. assumption.
Qed.

Lemma less_equal_false_above a b :
  less_equal a b = false -> no_sentinel a -> above_some a b.
Proof.
  unfold less_equal, above_some, no_sentinel. intros H Hs.
  apply forallb_res_false in H as [r H]. apply negb_false_iff in H.
  exists r. apply cmp_gt_true; auto.
Qed.

(** * Association lists *)

Lemma aget_aset_same {A} (m : list (qid * A)) k v : aget (aset m k v) k = Some v.
Proof.
  induction m as [|[k' v'] m IH]; cbn [aset aget].
  - now rewrite Pos.eqb_refl.
  - destruct (Pos.eqb k' k) eqn:E; cbn [aget].
    + now rewrite Pos.eqb_refl.
    + now rewrite E.
Qed.

Lemma aget_aset_other {A} (m : list (qid * A)) k k' v : k <> k' -> aget (aset m k v) k' = aget m k'.
Proof.
  intros N. induction m as [|[k0 v0] m IH]; cbn [aset aget].
  - destruct (Pos.eqb_spec k k'); [contradiction|reflexivity].
  - destruct (Pos.eqb_spec k0 k) as [->|N0]; cbn [aget].
    + destruct (Pos.eqb_spec k k'); [contradiction|reflexivity].
    + now rewrite IH.
Qed.

Lemma aset_keys {A} (m : list (qid * A)) k v x :
  In x (map fst (aset m k v)) <-> x = k \/ In x (map fst m).
Proof.
  induction m as [|[k0 v0] m IH]; cbn [aset map fst In].
  - intuition.
  - destruct (Pos.eqb_spec k0 k) as [->|N0]; cbn [map fst In].
    + intuition.
    + rewrite IH. intuition.
Qed.

Lemma aget_in_keys {A} (m : list (qid * A)) k : aget m k <> None <-> In k (map fst m).
Proof.
  induction m as [|[k0 v0] m IH]; cbn [aget map fst In].
  - split; [congruence|contradiction].
  - destruct (Pos.eqb_spec k0 k) as [->|N0].
    + split; [auto|congruence].
    + rewrite IH. split; [auto|]. intros [H|H]; [contradiction|assumption].
Qed.

(** * Parent chains *)

Lemma lookup_id qs id q : lookup qs id = Some q -> q_id q = id.
Proof.
  induction qs as [|x qs IH]; cbn [lookup]; [discriminate|].
  destruct (Pos.eqb_spec (q_id x) id) as [E|N]; [|exact IH].
  intros H. injection H as <-. exact E.
Qed.

Lemma lookup_in qs id q : lookup qs id = Some q -> In q qs.
Proof.
  induction qs as [|x qs IH]; cbn [lookup]; [discriminate|].
  destruct (Pos.eqb (q_id x) id); [|intros H; right; auto].
  intros H. injection H as <-. now left.
Qed.

Lemma chain_mono f qs id l : chain f qs id = Some l -> forall f', (f <= f')%nat -> chain f' qs id = Some l.
Proof.
  revert id l. induction f as [|f IH]; intros id l H f' L; [discriminate|].
  destruct f' as [|f']; [lia|]. cbn [chain] in *.
  destruct (lookup qs id) as [q|]; [|assumption].
  destruct (q_parent q) as [p|]; [|assumption].
  destruct (chain f qs p) as [l'|] eqn:E; [|discriminate].
  rewrite (IH _ _ E f') by lia. assumption.
Qed.

(** every element of a chain is a queue of the map, stored under its own id *)
Lemma chain_lookup f qs id l : chain f qs id = Some l -> forall q, In q l -> lookup qs (q_id q) = Some q.
Proof.
  revert id l. induction f as [|f IH]; intros id l H q Hin; [discriminate|].
  cbn [chain] in H. destruct (lookup qs id) as [q0|] eqn:E0.
  2:{ injection H as <-. contradiction. }
  pose proof (lookup_id _ _ _ E0) as Eid.
  destruct (q_parent q0) as [p|].
  - destruct (chain f qs p) as [l'|] eqn:E; [|discriminate]. injection H as <-.
    destruct Hin as [<-|Hin]; [now rewrite Eid|]. eapply IH; eauto.
  - injection H as <-. destruct Hin as [<-|[]]. now rewrite Eid.
Qed.

(** the tail of a chain starting at any of its elements is that element's own chain *)
Lemma chain_suffix f qs id l :
  chain f qs id = Some l ->
  forall l1 q l2, l = l1 ++ q :: l2 -> chain f qs (q_id q) = Some (q :: l2).
Proof.
  revert id l. induction f as [|f IH]; intros id l H l1 q l2 El; [discriminate|].
  pose proof H as H0.
  cbn [chain] in H. destruct (lookup qs id) as [q0|] eqn:E0.
  2:{ injection H as <-. destruct l1; discriminate. }
  pose proof (lookup_id _ _ _ E0) as Eid.
  destruct l1 as [|x l1].
  - (* q is the head *)
    assert (q = q0).
    { destruct (q_parent q0) as [p|].
      - destruct (chain f qs p); [|discriminate]. injection H as <-. now injection El.
      - injection H as <-. now injection El. }
    subst q0. rewrite Eid. rewrite H0. now rewrite El.
  - destruct (q_parent q0) as [p|].
    + destruct (chain f qs p) as [l'|] eqn:E; [|discriminate]. injection H as <-.
      injection El as _ El.
      apply (chain_mono f); [|lia]. eapply IH; eauto.
    + injection H as <-. injection El as _ El. destruct l1; discriminate.
Qed.

Lemma chain_nodup f qs id l : chain f qs id = Some l -> NoDup (map q_id l).
Proof.
  revert id l. induction f as [|f IH]; intros id l H; [discriminate|].
  pose proof H as H0.
  cbn [chain] in H. destruct (lookup qs id) as [q0|] eqn:E0.
  2:{ injection H as <-. constructor. }
  pose proof (lookup_id _ _ _ E0) as Eid.
  destruct (q_parent q0) as [p|].
  - destruct (chain f qs p) as [l'|] eqn:E; [|discriminate]. injection H as <-.
    cbn [map]. constructor; [|eapply IH; eauto].
    intros Hin. apply in_map_iff in Hin as [q [Eq Hin]].
    apply in_split in Hin as [l1 [l2 El]].
    pose proof (chain_suffix _ _ _ _ E _ _ _ El) as Hs.
    rewrite Eq, Eid in Hs.
    pose proof (chain_mono _ _ _ _ Hs (S f) ltac:(lia)) as Hm. rewrite H0 in Hm.
    injection Hm as _ Hm2.
    apply (f_equal (@length _)) in Hm2. rewrite El, app_length in Hm2. cbn [length] in Hm2. lia.
  - injection H as <-. cbn [map]. constructor; [intros []|constructor].
Qed.

(** consecutive elements are child and parent; the last element has no parent in the map *)
Lemma chain_head f qs id q l : chain f qs id = Some (q :: l) -> lookup qs id = Some q.
Proof.
  destruct f as [|f]; [discriminate|]. cbn [chain].
  destruct (lookup qs id) as [q0|]; [|discriminate].
  destruct (q_parent q0) as [p|].
  - destruct (chain f qs p); [|discriminate]. intros H. now injection H as <- _.
  - intros H. now injection H as <- _.
Qed.

Lemma chain_link f qs id l :
  chain f qs id = Some l ->
  forall l1 a b l2, l = l1 ++ a :: b :: l2 -> q_parent a = Some (q_id b).
Proof.
  intros H l1 a b l2 El.
  pose proof (chain_suffix _ _ _ _ H _ _ _ El) as Hs.
  destruct f as [|f]; [discriminate|]. cbn [chain] in Hs.
  destruct (lookup qs (q_id a)) as [q0|] eqn:E0; [|discriminate].
  destruct (q_parent q0) as [p|] eqn:Ep.
  - destruct (chain f qs p) as [l'|] eqn:E; [|discriminate].
    injection Hs as -> ->.
    apply chain_head in E. apply lookup_id in E. now rewrite E.
  - discriminate.
Qed.

Lemma chain_last f qs id l :
  chain f qs id = Some l ->
  forall l1 a, l = l1 ++ [a] ->
  match q_parent a with None => True | Some p => lookup qs p = None end.
Proof.
  intros H l1 a El.
  pose proof (chain_suffix _ _ _ _ H _ _ _ El) as Hs.
  destruct f as [|f]; [discriminate|]. cbn [chain] in Hs.
  destruct (lookup qs (q_id a)) as [q0|] eqn:E0; [|discriminate].
  destruct (q_parent q0) as [p|] eqn:Ep.
  - destruct (chain f qs p) as [l'|] eqn:E; [|discriminate].
    injection Hs as -> ->. rewrite Ep.
    destruct f as [|f]; [discriminate|]. cbn [chain] in E.
    destruct (lookup qs p) as [q1|]; [|reflexivity].
    destruct (q_parent q1); [destruct (chain f qs _)|]; discriminate.
  - injection Hs as ->. now rewrite Ep.
Qed.

(** * Fuel |qs|+1 suffices on acyclic forests *)

Lemma chain_min_fuel f qs id l : chain f qs id = Some l -> chain (S (length l)) qs id = Some l.
Proof.
  revert id l. induction f as [|f IH]; intros id l H; [discriminate|].
  cbn [chain] in H. cbn [chain].
  destruct (lookup qs id) as [q0|]; [|assumption].
  destruct (q_parent q0) as [p|]; [|assumption].
  destruct (chain f qs p) as [l'|] eqn:E; [|discriminate]. injection H as <-.
  cbn [length]. now rewrite (IH _ _ E).
Qed.

Lemma chain_ids_incl f qs id l : chain f qs id = Some l -> incl (map q_id l) (map q_id qs).
Proof.
  intros H x Hin. apply in_map_iff in Hin as [q [<- Hin]].
  apply in_map. eapply lookup_in. eapply chain_lookup; eauto.
Qed.

Lemma chain_length f qs id l : chain f qs id = Some l -> (length l <= length qs)%nat.
Proof.
  intros H. rewrite <- (map_length q_id l), <- (map_length q_id qs).
  apply NoDup_incl_length; [eapply chain_nodup|eapply chain_ids_incl]; eauto.
Qed.

(** whenever some amount of fuel is enough, the model's fuel gives the same chain *)
Lemma chain_of_complete f qs id l : chain f qs id = Some l -> chain_of qs id = Some l.
Proof.
  intros H. unfold chain_of. apply (chain_mono (S (length l))).
  - eapply chain_min_fuel; eauto.
  - apply chain_length in H. lia.
Qed.

Fixpoint is_path (qs : list queue) (a : qid) (l : list qid) : Prop :=
  match l with
  | [] => True
  | b :: r => parent_of qs a b /\ is_path qs b r
  end.

Lemma chain_none_path qs f : forall id,
  chain (S f) qs id = None ->
  lookup qs id <> None /\ exists l, length l = f /\ is_path qs id l.
Proof.
  induction f as [|f IH]; intros id H.
  - cbn [chain] in H. destruct (lookup qs id) as [q|]; [|discriminate].
    split; [discriminate|]. exists []. split; [reflexivity|exact I].
  - remember (S f) as f1. cbn [chain] in H.
    destruct (lookup qs id) as [q|] eqn:E0; [|discriminate].
    split; [discriminate|].
    destruct (q_parent q) as [p|] eqn:Ep; [|discriminate].
    destruct (chain f1 qs p) as [l'|] eqn:E; [discriminate|]. subst f1.
    apply IH in E as [Hp [l [Hl Hpath]]].
    exists (p :: l). split; [cbn [length]; now rewrite Hl|].
    cbn [is_path]. split; [|assumption]. exists q. auto.
Qed.

Lemma path_reaches qs : forall l a b, is_path qs a (l ++ [b]) -> reaches qs a b.
Proof.
  induction l as [|x l IH]; intros a b H; cbn [app is_path] in H.
  - apply reach_step. tauto.
  - destruct H as [H1 H2]. eapply reach_trans; eauto.
Qed.

Lemma path_app qs : forall l1 a x l2, is_path qs a (l1 ++ x :: l2) -> is_path qs a (l1 ++ [x]) /\ is_path qs x l2.
Proof.
  induction l1 as [|y l1 IH]; intros a x l2 H; cbn [app is_path] in *.
  - tauto.
  - destruct H as [H1 H2]. apply IH in H2. tauto.
Qed.

Lemma path_nodes_exist qs : forall l a, lookup qs a <> None -> is_path qs a l ->
  forall x, In x (a :: l) -> In x (map q_id qs).
Proof.
  induction l as [|b l IH]; intros a Ha H x Hin.
  - destruct Hin as [<-|[]]. destruct (lookup qs a) as [q|] eqn:E; [|congruence].
    rewrite <- (lookup_id _ _ _ E). apply in_map. eapply lookup_in; eauto.
  - destruct Hin as [<-|Hin].
    + destruct (lookup qs a) as [q|] eqn:E; [|congruence].
      rewrite <- (lookup_id _ _ _ E). apply in_map. eapply lookup_in; eauto.
    + cbn [is_path] in H. destruct H as [[q [_ [_ Hb]]] H]. eapply IH; eauto.
Qed.

Lemma dup_split (l : list qid) : ~ NoDup l -> exists x l1 l2 l3, l = l1 ++ x :: l2 ++ x :: l3.
Proof.
  induction l as [|x l IH]; intros H.
  - exfalso. apply H. constructor.
  - destruct (in_dec Pos.eq_dec x l) as [Hin|Hnin].
    + apply in_split in Hin as [l2 [l3 ->]]. exists x, [], l2, l3. reflexivity.
    + destruct IH as [y [l1 [l2 [l3 ->]]]].
      { intros N. apply H. constructor; assumption. }
      exists y, (x :: l1), l2, l3. reflexivity.
Qed.

Lemma acyclic_chain_ok qs : Acyclic qs -> forall id, chain_of qs id <> None.
Proof.
  intros Hac id Hn. unfold chain_of in Hn.
  apply chain_none_path in Hn as [Hid [l [Hl Hpath]]].
  assert (Hdup : ~ NoDup (id :: l)).
  { intros Hnd. apply NoDup_incl_length with (l' := map q_id qs) in Hnd.
    - cbn [length] in Hnd. rewrite map_length in Hnd. lia.
    - intros x Hx. eapply path_nodes_exist; eauto. }
  apply dup_split in Hdup as [x [l1 [l2 [l3 El]]]].
  apply (Hac x).
  destruct l1 as [|y l1]; cbn [app] in El; injection El as -> ->.
  - apply path_app in Hpath as [Hp _]. apply path_reaches in Hp. assumption.
  - apply path_app in Hpath as [_ Hp]. apply path_app in Hp as [Hp _].
    apply path_reaches in Hp. assumption.
Qed.

Lemma acyclic_acyclicb qs : Acyclic qs -> acyclicb qs = true.
Proof.
  intros H. unfold acyclicb. apply forallb_forall. intros q _.
  pose proof (acyclic_chain_ok _ H (q_id q)) as Hc.
  destruct (chain_of qs (q_id q)); [reflexivity|congruence].
Qed.

Lemma chain_reaches_in_tail qs a c : reaches qs a c ->
  forall f q l, chain f qs a = Some (q :: l) -> In c (map q_id l).
Proof.
  induction 1 as [a b Hp|a b c Hp Hr IH]; intros f q l Hc.
  - destruct Hp as [qa [Ea [Epar Hb]]].
    destruct f as [|f]; [discriminate|]. cbn [chain] in Hc. rewrite Ea, Epar in Hc.
    destruct (chain f qs b) as [l'|] eqn:E; [|discriminate]. injection Hc as _ <-.
    destruct l' as [|qb l'].
    + destruct f as [|f]; [discriminate|]. cbn [chain] in E.
      destruct (lookup qs b) as [qb|]; [|congruence].
      destruct (q_parent qb); [destruct (chain f qs _)|]; discriminate.
    + apply chain_head in E. apply lookup_id in E. cbn [map]. now left.
  - destruct Hp as [qa [Ea [Epar Hb]]].
    destruct f as [|f]; [discriminate|]. cbn [chain] in Hc. rewrite Ea, Epar in Hc.
    destruct (chain f qs b) as [l'|] eqn:E; [|discriminate]. injection Hc as _ <-.
    destruct l' as [|qb l'].
    + destruct f as [|f]; [discriminate|]. cbn [chain] in E.
      destruct (lookup qs b) as [qb|]; [|congruence].
      destruct (q_parent qb); [destruct (chain f qs _)|]; discriminate.
    + cbn [map]. right. eapply IH; eauto.
Qed.

Lemma acyclicb_acyclic qs : acyclicb qs = true -> Acyclic qs.
Proof.
  intros H a Hr.
  assert (Ha : exists q, lookup qs a = Some q).
  { inversion Hr as [x y [q [E _]]|x y z [q [E _]] _]; subst; eauto. }
  destruct Ha as [q Ea].
  unfold acyclicb in H. rewrite forallb_forall in H.
  specialize (H q (lookup_in _ _ _ Ea)). rewrite (lookup_id _ _ _ Ea) in H.
  destruct (chain_of qs a) as [l|] eqn:E; [|discriminate].
  unfold chain_of in E.
  destruct l as [|q0 l].
  { cbn [chain] in E. rewrite Ea in E.
    destruct (q_parent q); [destruct (chain _ qs _)|]; discriminate. }
  pose proof (chain_reaches_in_tail _ _ _ Hr _ _ _ E) as Hin.
  pose proof (chain_nodup _ _ _ _ E) as Hnd.
  pose proof (chain_head _ _ _ _ _ E) as Hh. apply lookup_id in Hh.
  cbn [map] in Hnd. apply NoDup_cons_iff in Hnd as [Hnin _]. rewrite Hh in Hnin. contradiction.
Qed.

(** fuel suffices: on an acyclic forest no parent walk runs out of the model's fuel, and
    more fuel never changes the result *)
Theorem fuel_suffices qs :
  Acyclic qs ->
  forall id, exists l, chain_of qs id = Some l /\
                       forall f, (S (length qs) <= f)%nat -> chain f qs id = Some l.
Proof.
  intros H id. pose proof (acyclic_chain_ok _ H id) as Hc.
  destruct (chain_of qs id) as [l|] eqn:E; [|congruence].
  exists l. split; [reflexivity|]. intros f Hf. eapply chain_mono; eauto.
Qed.

(** * C07.2: CanReclaimResources *)

Theorem reclaimer_within_fair_share qs rc :
  can_reclaim qs rc = Ok true ->
  exists q, lookup qs (rc_queue rc) = Some q /\
    within_all (vadd (alloc_vec q) (quantify (rc_res rc))) (fair_vec q) /\
    (rc_preemptible rc = false ->
     within_all (vadd (allocnp_vec q) (quantify (rc_res rc))) (deserved_vec q)).
Proof.
  unfold can_reclaim. destruct (lookup qs (rc_queue rc)) as [q|]; [|discriminate].
  destruct (less_equal (vadd (alloc_vec q) (quantify (rc_res rc))) (fair_vec q)) eqn:E1;
    cbn [negb]; [|discriminate].
  intros H. exists q. split; [reflexivity|]. split; [apply less_equal_within; assumption|].
  intros Hp. rewrite Hp in H. injection H as H. apply less_equal_within; assumption.
Qed.

(** * The running remainder equals the declarative one *)

Definition stored (qs : list queue) (q : queue) : Prop := lookup qs (q_id q) = Some q.

Lemma stored_eq qs a b : stored qs a -> stored qs b -> q_id a = q_id b -> a = b.
Proof. unfold stored. intros Ha Hb E. rewrite E in Ha. congruence. Qed.

Definition consistent (qs : list queue) (s : st) (done : list (qid * res)) : Prop :=
  forall q, stored qs q -> cur_rem s q = rem_before qs done q.

Lemma cur_rem_sub_one qs kinv amt s x q :
  stored qs x -> stored qs q ->
  cur_rem (sub_one kinv amt s x) q =
  if Pos.eqb (q_id x) (q_id q) then vsub (cur_rem s q) amt else cur_rem s q.
Proof.
  intros Hx Hq. unfold cur_rem at 1. unfold sub_one. cbn [rem].
  destruct (Pos.eqb_spec (q_id x) (q_id q)) as [E|N].
  - rewrite E, aget_aset_same. now rewrite (stored_eq _ _ _ Hx Hq E).
  - rewrite aget_aset_other by assumption. reflexivity.
Qed.

Lemma cur_rem_subtract qs kinv amt : forall ch s q,
  (forall x, In x ch -> stored qs x) -> NoDup (map q_id ch) -> stored qs q ->
  cur_rem (subtract ch kinv amt s) q =
  if existsb (fun x => Pos.eqb (q_id x) (q_id q)) ch then vsub (cur_rem s q) amt else cur_rem s q.
Proof.
  unfold subtract. induction ch as [|x ch IH]; intros s q Hst Hnd Hq; cbn [fold_left existsb]; [reflexivity|].
  cbn [map] in Hnd. apply NoDup_cons_iff in Hnd as [Hnin Hnd].
  rewrite IH by (auto; intros; apply Hst; now right).
  rewrite (cur_rem_sub_one qs) by (auto; apply Hst; now left).
  destruct (Pos.eqb_spec (q_id x) (q_id q)) as [E|N]; cbn [orb]; [|reflexivity].
  destruct (existsb (fun x0 => Pos.eqb (q_id x0) (q_id q)) ch) eqn:Ex; [|reflexivity].
  exfalso. apply existsb_exists in Ex as [y [Hy Ey]]. apply Pos.eqb_eq in Ey.
  apply Hnin. rewrite E, <- Ey. now apply in_map.
Qed.

Lemma rem_before_snoc qs done k v q :
  rem_before qs (done ++ [(k, v)]) q =
  if on_chain qs k (q_id q) then vsub (rem_before qs done q) (quantify v) else rem_before qs done q.
Proof. unfold rem_before. rewrite fold_left_app. reflexivity. Qed.


Lemma cur_rem_inv_irrelevant s i q : cur_rem {| rem := rem s; inv := i |} q = cur_rem s q.
Proof. reflexivity. Qed.

Lemma consistent_subtract qs s done k ch kinv v :
  chain_of qs k = Some ch -> consistent qs s done ->
  consistent qs (subtract ch kinv (quantify v) s) (done ++ [(k, v)]).
Proof.
  intros Hc Hs q Hq. unfold chain_of in Hc.
  rewrite (cur_rem_subtract qs); auto.
  - rewrite rem_before_snoc. unfold on_chain, chain_of. rewrite Hc. rewrite (Hs q Hq). reflexivity.
  - intros x Hx. eapply chain_lookup; eauto.
  - eapply chain_nodup; eauto.
Qed.

Lemma consistent_touch qs s done q0 :
  stored qs q0 -> consistent qs s done -> consistent qs (touch s q0) done.
Proof.
  intros H0 Hs q Hq. rewrite <- (Hs q Hq). unfold touch.
  destruct (aget (rem s) (q_id q0)) eqn:E; [reflexivity|].
  unfold cur_rem. cbn [rem].
  destruct (Pos.eq_dec (q_id q0) (q_id q)) as [Eid|N].
  - rewrite Eid, aget_aset_same. rewrite Eid in E. rewrite E.
    now rewrite (stored_eq _ _ _ H0 Hq Eid).
  - now rewrite aget_aset_other.
Qed.

(** every victim, when examined, passed FitsReclaimStrategy on the declarative remainder *)
Fixpoint all_fit (qs : list queue) (rc : reclaimer) (done todo : list (qid * res)) : Prop :=
  match todo with
  | [] => True
  | (k, v) :: r =>
      (exists rq eq, leveled qs (rc_queue rc) k = Ok (Some (rq, eq)) /\ stored qs eq /\
                     fits_strategy (rc_res rc) rq eq (rem_before qs done eq) = true)
      /\ all_fit qs rc (done ++ [(k, v)]) r
  end.

Lemma all_fit_app qs rc : forall a done b,
  all_fit qs rc done a -> all_fit qs rc (done ++ a) b -> all_fit qs rc done (a ++ b).
Proof.
  induction a as [|[k v] a IH]; intros done b Ha Hb; cbn [app all_fit] in *.
  - now rewrite app_nil_r in Hb.
  - destruct Ha as [H1 H2]. split; [assumption|]. apply IH; [assumption|].
    now rewrite <- app_assoc.
Qed.

Lemma all_fit_split qs rc : forall todo done pre k v post,
  all_fit qs rc done todo -> todo = pre ++ (k, v) :: post ->
  exists rq eq, leveled qs (rc_queue rc) k = Ok (Some (rq, eq)) /\ stored qs eq /\
                fits_strategy (rc_res rc) rq eq (rem_before qs (done ++ pre) eq) = true.
Proof.
  induction todo as [|[k0 v0] todo IH]; intros done pre k v post H E.
  - destruct pre; discriminate.
  - cbn [all_fit] in H. destruct H as [H1 H2]. destruct pre as [|p pre]; cbn [app] in E.
    + injection E as -> -> ->. now rewrite app_nil_r.
    + injection E as <- E. destruct (IH _ _ _ _ _ H2 E) as [rq [eq Hx]].
      exists rq, eq. now rewrite <- app_assoc in Hx.
Qed.

Lemma level_walk_in : forall pa pb cur a b,
  level_walk pa pb cur = Some (a, b) -> cur = Some (a, b) \/ (In a pa /\ In b pb).
Proof.
  induction pa as [|x pa IH]; intros pb cur a b H; cbn [level_walk] in H; [now left|].
  destruct pb as [|y pb]; [now left|].
  destruct (Pos.eqb (q_id x) (q_id y)).
  - apply IH in H as [H|[H1 H2]]; [injection H as <- <-|]; right; split; cbn [In]; auto.
  - injection H as <- <-. right. split; now left.
Qed.

Lemma leveled_stored qs a b rq eq :
  leveled qs a b = Ok (Some (rq, eq)) ->
  exists ca cb, chain_of qs a = Some ca /\ chain_of qs b = Some cb /\ In rq ca /\ In eq cb.
Proof.
  unfold leveled. destruct (chain_of qs a) as [ca|] eqn:Ea; [|discriminate].
  destruct (chain_of qs b) as [cb|] eqn:Eb; [|discriminate].
  intros H. injection H as H. apply level_walk_in in H as [H|[H1 H2]]; [discriminate|].
  exists ca, cb. rewrite <- !in_rev in *. auto.
Qed.

Lemma victims_loop_inv qs rc rq eq k ch kinv : forall vs s done s',
  leveled qs (rc_queue rc) k = Ok (Some (rq, eq)) -> stored qs eq ->
  chain_of qs k = Some ch -> consistent qs s done ->
  victims_loop (rc_res rc) rq eq ch kinv vs s = (true, s') ->
  consistent qs s' (done ++ map (fun v => (k, v)) vs) /\
  all_fit qs rc done (map (fun v => (k, v)) vs).
Proof.
  induction vs as [|v vs IH]; intros s done s' Hl Heq Hc Hs H; cbn [victims_loop map] in *.
  - injection H as <-. rewrite app_nil_r. split; [assumption|exact I].
  - destruct (fits_strategy (rc_res rc) rq eq (cur_rem s eq)) eqn:Ef; [|discriminate].
    pose proof (consistent_subtract qs s done k ch kinv v Hc Hs) as Hs2.
    destruct (IH _ _ _ Hl Heq Hc Hs2 H) as [Hcons Hfit].
    split.
    + now rewrite <- app_assoc in Hcons.
    + cbn [all_fit]. split; [|assumption].
      exists rq, eq. rewrite <- (Hs eq Heq). auto.
Qed.

Lemma step_key_inv qs rc k vs s done s' :
  consistent qs s done ->
  step_key qs rc (k, vs) s = Ok (true, s') ->
  consistent qs s' (done ++ map (fun v => (k, v)) vs) /\
  all_fit qs rc done (map (fun v => (k, v)) vs).
Proof.
  intros Hs H. unfold step_key in H.
  destruct (leveled qs (rc_queue rc) k) as [[[rq eq]|]| |] eqn:El; try discriminate.
  destruct (chain_of qs k) as [ch|] eqn:Ec; [|discriminate].
  injection H as H.
  destruct (leveled_stored _ _ _ _ _ El) as [ca [cb [_ [Ecb [_ Hin]]]]].
  assert (Heq : stored qs eq) by (unfold chain_of in Ecb; eapply chain_lookup; eauto).
  refine (victims_loop_inv qs rc rq eq k ch _ vs _ done s' El Heq Ec _ H).
  apply consistent_touch; [assumption|]. intros q Hq. rewrite <- (Hs q Hq). reflexivity.
Qed.

Lemma reclaim_from_inv qs rc : forall victims s done s',
  consistent qs s done ->
  reclaim_from qs rc victims s = Ok (true, s') ->
  consistent qs s' (done ++ flatten victims) /\ all_fit qs rc done (flatten victims).
Proof.
  induction victims as [|[k vs] victims IH]; intros s done s' Hs H; cbn [reclaim_from] in H.
  - injection H as <-. unfold flatten. cbn [flat_map]. rewrite app_nil_r. split; [assumption|exact I].
  - destruct (step_key qs rc (k, vs) s) as [[[|] s1]| |] eqn:Es; try discriminate.
    destruct (step_key_inv _ _ _ _ _ _ _ Hs Es) as [Hs1 Hf1].
    destruct (IH _ _ _ Hs1 H) as [Hs2 Hf2].
    unfold flatten in *. cbn [flat_map fst snd]. split.
    + now rewrite app_assoc.
    + apply all_fit_app; assumption.
Qed.

Lemma consistent_st0 qs : consistent qs st0 [].
Proof. intros q _. reflexivity. Qed.

(** fits_strategy read declaratively *)
Lemma fits_unprotected rr rq eq h :
  fits_strategy rr rq eq h = true -> no_sentinel h -> ~ protected eq h.
Proof.
  unfold fits_strategy, maintain_fair_share, guarantee_deserved, protected.
  intros H Hs [Hd Ha].
  destruct (less_equal h (allocatable_vec eq)) eqn:E1; cbn [negb] in H.
  - destruct (reclaimer_over_quota rr rq); [discriminate|].
    destruct (less_equal h (deserved_vec eq)) eqn:E2; [discriminate|].
    destruct (less_equal_false_above _ _ E2 Hs) as [r Hr]. exact (Hd r Hr).
  - destruct (less_equal_false_above _ _ E1 Hs) as [r Hr]. exact (Ha r Hr).
Qed.

(** C07.1 *)
Theorem protected_queue_untouched m qs rc victims :
  reclaimable m qs rc victims = Ok true ->
  forall pre k v post, flatten victims = pre ++ (k, v) :: post ->
  exists rq eq, leveled qs (rc_queue rc) k = Ok (Some (rq, eq)) /\
    (no_sentinel (rem_before qs pre eq) -> ~ protected eq (rem_before qs pre eq)).
Proof.
  unfold reclaimable. intros H pre k v post E.
  destruct (reclaim_from qs rc victims st0) as [[[|] s]| |] eqn:Er; try discriminate.
  destruct (reclaim_from_inv _ _ _ _ _ _ (consistent_st0 qs) Er) as [_ Hfit].
  destruct (all_fit_split _ _ _ _ _ _ _ _ Hfit E) as [rq [eq [Hl [_ Hf]]]].
  exists rq, eq. split; [assumption|]. cbn [app] in Hf. eapply fits_unprotected; eauto.
Qed.

(** * C07.3: a non-preemptible reclaimer stays within deserved quota at every ancestor *)

Lemma boundaries_np m qs rc : forall ch s,
  boundaries m qs rc ch s = Ok true -> rc_preemptible rc = false ->
  forall a, In a ch ->
  less_equal (vadd (allocnp_vec a) (quantify (rc_res rc))) (deserved_vec a) = true.
Proof.
  induction ch as [|rq ch IH]; intros s H Hp a Hin; [contradiction|].
  cbn [boundaries] in H.
  destruct (siblings_ok _ _ _ _ _ _ _) as [[|]| |]; try discriminate.
  rewrite Hp in H.
  destruct (less_equal (vadd (allocnp_vec rq) (quantify (rc_res rc))) (deserved_vec rq)) eqn:E;
    [|discriminate].
  destruct Hin as [<-|Hin]; [assumption|]. eapply IH; eauto.
Qed.

Theorem nonpreemptible_reclaimer_within_quota m qs rc victims :
  reclaimable m qs rc victims = Ok true -> rc_preemptible rc = false ->
  exists ch, chain_of qs (rc_queue rc) = Some ch /\
    forall a, In a ch ->
      within_all (vadd (allocnp_vec a) (quantify (rc_res rc))) (deserved_vec a).
Proof.
  unfold reclaimable. intros H Hp.
  destruct (reclaim_from qs rc victims st0) as [[[|] s]| |]; try discriminate.
  destruct (chain_of qs (rc_queue rc)) as [ch|]; [|discriminate].
  exists ch. split; [reflexivity|]. intros a Hin.
  apply less_equal_within. eapply boundaries_np; eauto.
Qed.

(** * C07.4: saturation order *)

(** ** what the sibling loop guarantees *)
Lemma siblings_ok_sound m qs rinv rq cur s : forall keys,
  siblings_ok m qs rinv rq cur s keys = Ok true ->
  forall k sib i, In k keys -> lookup qs k = Some sib -> aget (inv s) k = Some i ->
    same_parent sib rq = true -> q_id sib <> q_id rq ->
    saturation_lower m (iunion i rinv) cur (fair_vec rq) (cur_rem s sib) (fair_vec sib) = true.
Proof.
  induction keys as [|k0 keys IH]; intros H k sib i Hin Hl Hi Hsp Hne; [contradiction|].
  cbn [siblings_ok] in H.
  destruct (lookup qs k0) as [sib0|] eqn:E0; [|discriminate].
  destruct Hin as [->|Hin].
  - rewrite Hl in E0. injection E0 as <-.
    change (match q_parent sib with
            | Some a => match q_parent rq with Some b => Pos.eqb a b | None => false end
            | None => match q_parent rq with Some _ => false | None => true end
            end) with (same_parent sib rq) in H.
    rewrite Hsp in H. apply Pos.eqb_neq in Hne. rewrite Hne in H. cbn [negb orb] in H.
    rewrite Hi in H.
    destruct (saturation_lower _ _ _ _ _ _); [reflexivity|discriminate].
  - apply (IH) with (k := k); auto.
    destruct (negb _ || _); [assumption|].
    destruct (aget (inv s) k0).
    + destruct (saturation_lower _ _ _ _ _ _); [assumption|discriminate].
    + destruct (isempty rinv); [assumption|discriminate].
Qed.

Lemma nodup_two {A B} (f : A -> B) X n Y b Z :
  NoDup (map f (X ++ n :: Y ++ b :: Z)) -> f n <> f b.
Proof.
  rewrite map_app. cbn [map]. intros H. apply NoDup_remove_2 in H. intros E. apply H. rewrite E.
  apply in_or_app. right. rewrite map_app. apply in_or_app. right. now left.
Qed.

(** a queue with the same parent as [a] is never a strict descendant of [a] on a chain *)
Lemma chain_sibling_not_earlier f qs id l1 a l2 s :
  chain f qs id = Some (l1 ++ a :: l2) -> In s l1 -> same_parent s a = true -> False.
Proof.
  intros Hc Hin Hsp. apply in_split in Hin as [la [lb ->]].
  pose proof (chain_nodup _ _ _ _ Hc) as Hnd.
  rewrite <- app_assoc in Hc, Hnd. cbn [app] in Hc, Hnd.
  (* the element after s *)
  assert (Hn : exists n rest, lb ++ a :: l2 = n :: rest /\ (n = a \/ exists lb', lb = n :: lb')).
  { destruct lb as [|n lb']; cbn [app].
    - exists a, l2. split; [reflexivity|now left].
    - exists n, (lb' ++ a :: l2). split; [reflexivity|right; now exists lb']. }
  destruct Hn as [n [rest [En Hn]]].
  assert (Hps : q_parent s = Some (q_id n)).
  { eapply (chain_link _ _ _ _ Hc la s n rest). now rewrite En. }
  assert (Hstn : lookup qs (q_id n) = Some n).
  { eapply chain_lookup; eauto. apply in_or_app. right. right. rewrite En. now left. }
  unfold same_parent in Hsp. rewrite Hps in Hsp.
  destruct (q_parent a) as [pa|] eqn:Epa; [|discriminate]. apply Pos.eqb_eq in Hsp. subst pa.
  destruct l2 as [|b l2'].
  - assert (El : la ++ s :: lb ++ [a] = (la ++ s :: lb) ++ [a]) by now rewrite <- app_assoc.
    pose proof (chain_last _ _ _ _ Hc _ _ El) as Hlast. rewrite Epa, Hstn in Hlast. discriminate.
  - assert (El : la ++ s :: lb ++ a :: b :: l2' = (la ++ s :: lb) ++ a :: b :: l2')
      by now rewrite <- app_assoc.
    pose proof (chain_link _ _ _ _ Hc _ _ _ _ El) as Hpa. rewrite Epa in Hpa. injection Hpa as Hpa.
    destruct Hn as [->|[lb' ->]].
    + (* n = a: a and b share an id *)
      assert (E2 : la ++ s :: lb ++ a :: b :: l2' = (la ++ s :: lb) ++ a :: [] ++ b :: l2')
        by now rewrite <- app_assoc.
      rewrite E2 in Hnd. apply nodup_two in Hnd. contradiction.
    + assert (E2 : la ++ s :: (n :: lb') ++ a :: b :: l2' = (la ++ [s]) ++ n :: (lb' ++ [a]) ++ b :: l2').
      { rewrite <- !app_assoc. cbn [app]. reflexivity. }
      rewrite E2 in Hnd. apply nodup_two in Hnd. contradiction.
Qed.

(** ** the state while walking up the reclaimer's chain *)
Definition agree_off (qs : list queue) (ids : list qid) (s sf : st) : Prop :=
  (forall q, stored qs q -> ~ In (q_id q) ids -> cur_rem s q = cur_rem sf q) /\
  inv s = inv sf /\
  (forall k, In k (map fst (rem s)) <-> In k (map fst (rem sf))).

Definition bump (s : st) (rq : queue) (cur : vec) : st :=
  match aget (rem s) (q_id rq) with
  | Some _ => {| rem := aset (rem s) (q_id rq) cur; inv := inv s |}
  | None => s
  end.

Lemma bump_inv s rq cur : inv (bump s rq cur) = inv s.
Proof. unfold bump. destruct (aget (rem s) (q_id rq)); reflexivity. Qed.

Lemma bump_keys s rq cur k : In k (map fst (rem (bump s rq cur))) <-> In k (map fst (rem s)).
Proof.
  unfold bump. destruct (aget (rem s) (q_id rq)) eqn:E; [|reflexivity].
  cbn [rem]. rewrite aset_keys. split; [|auto].
  intros [->|H]; [|assumption]. apply aget_in_keys. congruence.
Qed.

Lemma bump_cur_rem s rq cur q : q_id q <> q_id rq -> cur_rem (bump s rq cur) q = cur_rem s q.
Proof.
  intros N. unfold bump. destruct (aget (rem s) (q_id rq)); [|reflexivity].
  unfold cur_rem. cbn [rem]. rewrite aget_aset_other by congruence. reflexivity.
Qed.

Definition good_level (m : Q) (qs : list queue) (rc : reclaimer) (sf : st) (a : queue) : Prop :=
  forall k sib i, In k (map fst (rem sf)) -> lookup qs k = Some sib -> aget (inv sf) k = Some i ->
    same_parent sib a = true -> q_id sib <> q_id a ->
    saturation_lower m
      (iunion i (involved_names [rc_res rc]))
      (vadd (cur_rem sf a) (quantify (rc_res rc))) (fair_vec a) (cur_rem sf sib) (fair_vec sib) = true.

Lemma boundaries_sat m qs rc f full sf :
  chain f qs (rc_queue rc) = Some full ->
  forall rest pre s, full = pre ++ rest -> agree_off qs (map q_id pre) s sf ->
    boundaries m qs rc rest s = Ok true ->
    forall a, In a rest -> good_level m qs rc sf a.
Proof.
  intros Hc. induction rest as [|a rest IH]; intros pre s Hfull [Hrem [Hinv Hkeys]] H x Hin; [contradiction|].
  cbn [boundaries] in H.
  fold (bump s a (vadd (cur_rem s a) (quantify (rc_res rc)))) in H.
  set (cur := vadd (cur_rem s a) (quantify (rc_res rc))) in *.
  set (s' := bump s a cur) in *.
  destruct (siblings_ok m qs (involved_names [rc_res rc]) a cur s' (map fst (rem s'))) as [[|]| |] eqn:Es;
    try discriminate.
  assert (Hsta : stored qs a).
  { eapply chain_lookup; eauto. rewrite Hfull. apply in_or_app. right. now left. }
  pose proof (chain_nodup _ _ _ _ Hc) as Hnd. rewrite Hfull, map_app in Hnd. cbn [map] in Hnd.
  assert (Hanp : ~ In (q_id a) (map q_id pre)).
  { intros Hi. apply NoDup_remove_2 in Hnd. apply Hnd. apply in_or_app. now left. }
  assert (Hcur : cur_rem s a = cur_rem sf a) by (apply Hrem; assumption).
  destruct Hin as [<-|Hin].
  - (* this level *)
    intros k sib i Hk Hl Hik Hsp Hne.
    assert (Hstsib : stored qs sib).
    { unfold stored. now rewrite (lookup_id _ _ _ Hl). }
    pose proof (siblings_ok_sound _ _ _ _ _ _ _ Es k sib i) as Hs.
    unfold s' in Hs at 2. rewrite bump_inv, Hinv in Hs.
    assert (Hrs : cur_rem s' sib = cur_rem sf sib).
    { unfold s'. rewrite bump_cur_rem by assumption. apply Hrem; [assumption|].
      intros Hi. apply in_map_iff in Hi as [y [Ey Hy]].
      assert (Hsty : stored qs y).
      { eapply chain_lookup; eauto. rewrite Hfull. apply in_or_app. now left. }
      rewrite (stored_eq _ _ _ Hsty Hstsib Ey) in Hy.
      rewrite Hfull in Hc. eapply chain_sibling_not_earlier; eauto. }
    rewrite Hrs in Hs. unfold cur in Hs. rewrite Hcur in Hs.
    apply Hs; auto. unfold s'. apply bump_keys. apply Hkeys. assumption.
  - (* levels above *)
    assert (Hb : boundaries m qs rc rest s' = Ok true).
    { destruct (rc_preemptible rc); [assumption|].
      destruct (less_equal _ _); [assumption|discriminate]. }
    apply (IH (pre ++ [a]) s'); auto.
    + rewrite Hfull, <- app_assoc. reflexivity.
    + split; [|split].
      * intros q Hq Hni. rewrite map_app in Hni. cbn [map] in Hni.
        unfold s'. rewrite bump_cur_rem.
        -- apply Hrem; [assumption|]. intros Hi. apply Hni. apply in_or_app. now left.
        -- intros E. apply Hni. apply in_or_app. right. left. now rewrite E.
      * unfold s'. now rewrite bump_inv.
      * intros k. unfold s'. rewrite bump_keys. apply Hkeys.
Qed.

(** ** which queues end up in the remaining-map, with which involved resources *)
Definition has_inv (s : st) (id : qid) (r : rname) : Prop :=
  exists i, aget (inv s) id = Some i /\ imem i r = true.
Definition has_entry (s : st) (id : qid) : Prop := exists i, aget (inv s) id = Some i.

(** nothing is lost going from [s] to [s'] *)
Definition keeps (s s' : st) : Prop :=
  (forall id, In id (map fst (rem s)) -> In id (map fst (rem s'))) /\
  (forall id, has_entry s id -> has_entry s' id) /\
  (forall id r, has_inv s id r -> has_inv s' id r).

(** queue [id] is in the remaining-map of [s] with at least the resources of [kinv] *)
Definition marked (s : st) (kinv : iset) (id : qid) : Prop :=
  In id (map fst (rem s)) /\ has_entry s id /\ (forall r, imem kinv r = true -> has_inv s id r).

Lemma keeps_refl s : keeps s s.
Proof. repeat split; auto. Qed.

Lemma keeps_trans a b c : keeps a b -> keeps b c -> keeps a c.
Proof. intros [A1 [A2 A3]] [B1 [B2 B3]]. repeat split; auto. Qed.

Lemma keeps_marked s s' kinv id : keeps s s' -> marked s kinv id -> marked s' kinv id.
Proof. intros [A1 [A2 A3]] [B1 [B2 B3]]. repeat split; auto. Qed.

Lemma imem_iunion a b r : imem (iunion a b) r = imem a r || imem b r.
Proof. destruct r; reflexivity. Qed.

Lemma imem_fold r : forall vs acc,
  imem (fold_left (fun acc v => iunion acc (involved_one v)) vs acc) r =
  imem acc r || existsb (fun v => imem (involved_one v) r) vs.
Proof.
  induction vs as [|v vs IH]; intros acc; cbn [fold_left existsb].
  - now rewrite orb_false_r.
  - rewrite IH, imem_iunion. now rewrite orb_assoc.
Qed.

Lemma imem_involved_names vs r :
  imem (involved_names vs) r = existsb (fun v => imem (involved_one v) r) vs.
Proof. unfold involved_names. rewrite imem_fold. destruct r; reflexivity. Qed.

Lemma sub_one_keeps kinv amt s x : keeps s (sub_one kinv amt s x).
Proof.
  split; [|split].
  - intros id H. unfold sub_one. cbn [rem]. apply aset_keys. now right.
  - intros id [i Hi]. unfold has_entry, sub_one. cbn [inv].
    destruct (Pos.eq_dec (q_id x) id) as [E|N].
    + rewrite E, aget_aset_same. eauto.
    + rewrite aget_aset_other by assumption. eauto.
  - intros id r [i [Hi Hr]]. unfold has_inv, sub_one. cbn [inv].
    destruct (Pos.eq_dec (q_id x) id) as [E|N].
    + rewrite E, aget_aset_same, Hi. eexists. split; [reflexivity|]. now rewrite imem_iunion, Hr.
    + rewrite aget_aset_other by assumption. eauto.
Qed.

Lemma sub_one_marked kinv amt s x : marked (sub_one kinv amt s x) kinv (q_id x).
Proof.
  split; [|split].
  - unfold sub_one. cbn [rem]. apply aset_keys. now left.
  - unfold has_entry, sub_one. cbn [inv]. rewrite aget_aset_same. eauto.
  - intros r H. unfold has_inv, sub_one. cbn [inv]. rewrite aget_aset_same.
    eexists. split; [reflexivity|].
    destruct (aget (inv s) (q_id x)); [rewrite imem_iunion, H; apply orb_true_r|assumption].
Qed.

Lemma subtract_keeps kinv amt : forall ch s, keeps s (subtract ch kinv amt s).
Proof.
  unfold subtract. induction ch as [|x ch IH]; intros s; cbn [fold_left]; [apply keeps_refl|].
  eapply keeps_trans; [apply sub_one_keeps|apply IH].
Qed.

Lemma subtract_marked kinv amt : forall ch s x, In x ch ->
  marked (subtract ch kinv amt s) kinv (q_id x).
Proof.
  induction ch as [|y ch IH]; intros s x Hin; [contradiction|].
  change (subtract (y :: ch) kinv amt s) with (subtract ch kinv amt (sub_one kinv amt s y)).
  destruct Hin as [->|Hin]; [|apply IH; assumption].
  eapply keeps_marked; [apply subtract_keeps|apply sub_one_marked].
Qed.

Lemma victims_loop_keeps rr rq eq ch kinv : forall vs s s',
  victims_loop rr rq eq ch kinv vs s = (true, s') -> keeps s s'.
Proof.
  induction vs as [|v vs IH]; intros s s' H; cbn [victims_loop] in H.
  - injection H as <-. apply keeps_refl.
  - destruct (fits_strategy _ _ _ _); [|discriminate].
    eapply keeps_trans; [apply subtract_keeps|eapply IH; eauto].
Qed.

Lemma victims_loop_marked rr rq eq ch kinv vs s s' :
  victims_loop rr rq eq ch kinv vs s = (true, s') -> vs <> [] ->
  forall x, In x ch -> marked s' kinv (q_id x).
Proof.
  destruct vs as [|v vs]; [congruence|]. intros H _ x Hin. cbn [victims_loop] in H.
  destruct (fits_strategy _ _ _ _); [|discriminate].
  eapply keeps_marked; [eapply victims_loop_keeps; eauto|apply subtract_marked; assumption].
Qed.

Lemma touch_keys s q id : In id (map fst (rem s)) -> In id (map fst (rem (touch s q))).
Proof.
  intros H. unfold touch. destruct (aget (rem s) (q_id q)); [assumption|].
  cbn [rem]. apply aset_keys. now right.
Qed.

Lemma touch_inv s q : inv (touch s q) = inv s.
Proof. unfold touch. destruct (aget (rem s) (q_id q)); reflexivity. Qed.

Lemma step_key_track qs rc k vs s s' :
  step_key qs rc (k, vs) s = Ok (true, s') ->
  exists ch, chain_of qs k = Some ch /\
  (forall id, In id (map fst (rem s)) -> In id (map fst (rem s'))) /\
  (forall id, has_entry s id -> has_entry s' id) /\
  (forall id r, id <> k -> has_inv s id r -> has_inv s' id r) /\
  (vs <> [] -> forall x, In x ch -> marked s' (involved_names vs) (q_id x)).
Proof.
  unfold step_key. intros H.
  destruct (leveled qs (rc_queue rc) k) as [[[rq eq]|]| |]; try discriminate.
  destruct (chain_of qs k) as [ch|]; [|discriminate]. injection H as H.
  exists ch. split; [reflexivity|].
  destruct (victims_loop_keeps _ _ _ _ _ _ _ _ H) as [K1 [K2 K3]].
  split; [|split; [|split]].
  - intros id Hid. apply K1. apply touch_keys. assumption.
  - intros id [i Hi]. apply K2. unfold has_entry. rewrite touch_inv. cbn [inv].
    destruct (Pos.eq_dec k id) as [E|N].
    + rewrite E, aget_aset_same. eauto.
    + rewrite aget_aset_other by assumption. eauto.
  - intros id r Hne [i [Hi Hr]]. apply K3. exists i. rewrite touch_inv. cbn [inv].
    rewrite aget_aset_other by congruence. auto.
  - intros Hvs x Hx. eapply victims_loop_marked; eauto.
Qed.

Lemma on_chain_in qs k ch sid :
  chain_of qs k = Some ch -> on_chain qs k sid = true -> exists x, In x ch /\ q_id x = sid.
Proof.
  unfold on_chain. intros ->. intros H. apply existsb_exists in H as [x [Hx E]].
  apply Pos.eqb_eq in E. eauto.
Qed.

Definition tracked (qs : list queue) (s : st) (dv : list (qid * list res)) : Prop :=
  (forall sid, touched qs dv sid = true -> In sid (map fst (rem s)) /\ has_entry s sid) /\
  (forall sid r, spec_involved qs dv sid r = true -> has_inv s sid r).

Lemma touched_snoc qs dv k vs sid :
  touched qs (dv ++ [(k, vs)]) sid =
  touched qs dv sid || (on_chain qs k sid && negb (match vs with [] => true | _ => false end)).
Proof. unfold touched. rewrite existsb_app. cbn [existsb fst snd]. now rewrite orb_false_r. Qed.

Lemma spec_involved_snoc qs dv k vs sid r :
  spec_involved qs (dv ++ [(k, vs)]) sid r =
  spec_involved qs dv sid r || (on_chain qs k sid && existsb (fun v => imem (involved_one v) r) vs).
Proof. unfold spec_involved. rewrite existsb_app. cbn [existsb fst snd]. now rewrite orb_false_r. Qed.

Lemma spec_involved_on_chain qs dv sid r :
  spec_involved qs dv sid r = true -> exists kv, In kv dv /\ on_chain qs (fst kv) sid = true.
Proof.
  unfold spec_involved. intros H. apply existsb_exists in H as [kv [Hin H]].
  apply andb_true_iff in H as [H _]. eauto.
Qed.

Lemma reclaim_from_track qs rc : forall victims s dv s',
  (forall kv kv', In kv victims -> In kv' dv -> on_chain qs (fst kv') (fst kv) = false) ->
  antichain_keys qs (map fst victims) = true ->
  tracked qs s dv ->
  reclaim_from qs rc victims s = Ok (true, s') ->
  tracked qs s' (dv ++ victims).
Proof.
  induction victims as [|[k vs] victims IH]; intros s dv s' Hsep Hanti [HK HP] H;
    cbn [reclaim_from] in H.
  - injection H as <-. rewrite app_nil_r. split; assumption.
  - destruct (step_key qs rc (k, vs) s) as [[[|] s1]| |] eqn:Es; try discriminate.
    destruct (step_key_track _ _ _ _ _ _ Es) as [ch [Hch [T1 [T1' [T2 T3]]]]].
    cbn [map fst antichain_keys] in Hanti. apply andb_true_iff in Hanti as [Hhead Hanti].
    rewrite forallb_forall in Hhead.
    replace (dv ++ (k, vs) :: victims) with ((dv ++ [(k, vs)]) ++ victims)
      by (rewrite <- app_assoc; reflexivity).
    apply (IH s1); auto.
    + intros kv kv' Hkv Hkv'. apply in_app_or in Hkv' as [Hkv'|[<-|[]]].
      * apply Hsep; [now right|assumption].
      * cbn [fst]. specialize (Hhead (fst kv) (in_map fst _ _ Hkv)).
        apply andb_true_iff in Hhead as [Hh _]. now apply negb_true_iff in Hh.
    + split.
      * intros sid Ht. rewrite touched_snoc in Ht. apply orb_true_iff in Ht as [Ht|Ht].
        -- destruct (HK _ Ht) as [A B]. split; [apply T1, A|apply T1', B].
        -- apply andb_true_iff in Ht as [Hoc Hne].
           destruct (on_chain_in _ _ _ _ Hch Hoc) as [x [Hx <-]].
           assert (Hvs : vs <> []) by (destruct vs; [discriminate|congruence]).
           destruct (T3 Hvs x Hx) as [A [B _]]. auto.
      * intros sid r Hi. rewrite spec_involved_snoc in Hi. apply orb_true_iff in Hi as [Hi|Hi].
        -- apply T2; [|apply HP, Hi].
           intros ->. destruct (spec_involved_on_chain _ _ _ _ Hi) as [kv' [Hin Hoc]].
           pose proof (Hsep (k, vs) kv' (or_introl eq_refl) Hin) as Hf. cbn [fst] in Hf.
           rewrite Hf in Hoc. discriminate.
        -- apply andb_true_iff in Hi as [Hoc Hex].
           destruct (on_chain_in _ _ _ _ Hch Hoc) as [x [Hx <-]].
           assert (Hvs : vs <> []) by (destruct vs; [discriminate|congruence]).
           destruct (T3 Hvs x Hx) as [_ [_ C]]. apply C. now rewrite imem_involved_names.
Qed.

Lemma tracked_st0 qs : tracked qs st0 [].
Proof. split; intros; discriminate. Qed.

(** ** the per-resource test catches every declarative violation *)
Lemma Qeq_bool_false x y : ~ x == y -> Qeq_bool x y = false.
Proof.
  intros H. destruct (Qeq_bool x y) eqn:E; [|reflexivity]. apply Qeq_bool_iff in E. contradiction.
Qed.

Lemma sat_violation_caught m ar fr sa sf :
  0 < m -> sat_violation m ar fr sa sf -> saturation_ok1 m ar fr sa sf = false.
Proof.
  intros Hm [Hsf Hv]. unfold saturation_ok1. cbv zeta.
  assert (Usf : is_unl sf = false) by (apply is_unl_false; unfold unlimited; intros E; lra).
  assert (Zsf : Qeq_bool sf 0 = false) by (apply Qeq_bool_false; intros E; lra).
  assert (Gsf : Qgtb sf 0 = true) by (apply Qgtb_true; assumption).
  assert (Gm : Qgtb m 0 = true) by (apply Qgtb_true; assumption).
  assert (Rs : ratio sa sf = Fin (sa / sf)) by (unfold ratio; now rewrite Zsf, Usf).
  rewrite Usf, andb_false_r, Rs.
  destruct Hv as [[Hfr Har]|[Hfr [Har Hle]]].
  - unfold ratio. rewrite (proj2 (Qeq_bool_iff fr 0) Hfr).
    rewrite (proj2 (Qgtb_true ar 0) Har). cbn [ext_gt1 ext_mul]. rewrite Gm, Gsf. reflexivity.
  - unfold ratio.
    rewrite (Qeq_bool_false fr 0) by (intros E; lra).
    assert (Ufr : is_unl fr = false) by (apply is_unl_false; unfold unlimited; intros E; lra).
    rewrite Ufr. cbn [ext_gt1 ext_mul ext_ge]. rewrite Gsf.
    assert (G1 : Qgtb (ar / fr) 1 = true).
    { apply Qgtb_true. apply Qlt_shift_div_l; [assumption|lra]. }
    rewrite G1. cbn [andb].
    assert (L : Qle_bool (sa / sf) (ar / fr * m) = true).
    { apply Qle_bool_iff. apply Qle_shift_div_r; [assumption|].
      assert (E : ar / fr * m * sf == (m * ar * sf) / fr) by (field; intros E0; lra).
      rewrite E. apply Qle_shift_div_l; assumption. }
    rewrite L. reflexivity.
Qed.

Lemma saturation_lower_sound m inv0 ra rf sa sf r :
  saturation_lower m inv0 ra rf sa sf = true -> imem inv0 r = true ->
  saturation_ok1 m (vget ra r) (vget rf r) (vget sa r) (vget sf r) = true.
Proof.
  unfold saturation_lower. intros H Hi. rewrite forallb_res in H. specialize (H r).
  now rewrite Hi in H.
Qed.

(** C07.4 *)
Theorem saturation_order m qs rc victims :
  reclaimable m qs rc victims = Ok true -> 0 < m ->
  antichain_keys qs (map fst victims) = true ->
  exists ch, chain_of qs (rc_queue rc) = Some ch /\
  forall a, In a ch ->
  forall s, lookup qs (q_id s) = Some s ->
    touched qs victims (q_id s) = true -> same_parent s a = true -> q_id s <> q_id a ->
  forall r, spec_involved qs victims (q_id s) r = true \/ imem (involved_one (rc_res rc)) r = true ->
    ~ sat_violation m
        (vget (vadd (rem_before qs (flatten victims) a) (quantify (rc_res rc))) r)
        (vget (fair_vec a) r)
        (vget (rem_before qs (flatten victims) s) r)
        (vget (fair_vec s) r).
Proof.
  unfold reclaimable. intros H Hm Hanti.
  destruct (reclaim_from qs rc victims st0) as [[[|] sf]| |] eqn:Er; try discriminate.
  destruct (chain_of qs (rc_queue rc)) as [ch|] eqn:Ec; [|discriminate].
  exists ch. split; [reflexivity|]. intros a Ha s Hs Ht Hsp Hne r Hr Hviol.
  destruct (reclaim_from_inv _ _ _ _ _ _ (consistent_st0 qs) Er) as [Hcons _].
  cbn [app] in Hcons.
  assert (Htr : tracked qs sf ([] ++ victims)).
  { eapply reclaim_from_track; eauto using tracked_st0. intros kv kv' _ []. }
  cbn [app] in Htr. destruct Htr as [HK HP].
  unfold chain_of in Ec.
  assert (Hgood : good_level m qs rc sf a).
  { eapply (boundaries_sat m qs rc _ ch sf Ec ch [] sf); eauto.
    split; [|split]; [reflexivity| |reflexivity]. auto. }
  assert (Hsta : stored qs a) by (eapply chain_lookup; eauto).
  destruct (HK _ Ht) as [Hkey [i Hi]].
  specialize (Hgood (q_id s) s i Hkey Hs Hi Hsp Hne).
  rewrite (Hcons a Hsta), (Hcons s Hs) in Hgood.
  apply (saturation_lower_sound _ _ _ _ _ _ r) in Hgood.
  - rewrite (sat_violation_caught _ _ _ _ _ Hm Hviol) in Hgood. discriminate.
  - rewrite imem_iunion. destruct Hr as [Hr|Hr].
    + destruct (HP _ _ Hr) as [i' [Hi' Hir]]. rewrite Hi in Hi'. injection Hi' as <-.
      now rewrite Hir.
    + rewrite imem_involved_names. cbn [existsb]. rewrite Hr. cbn. apply orb_true_r.
Qed.

(** * Boolean forms used by the monitor agree with the Prop forms *)

Lemma exceedsb_spec v b : exceedsb v b = true <-> exceeds v b.
Proof.
  unfold exceedsb, exceeds. rewrite andb_true_iff, !negb_true_iff. split.
  - intros [H1 H2]. split.
    + intros E. apply Qeq_bool_iff in E. fold unlimited in E. congruence.
    + apply Qgtb_true. unfold Qgtb. now rewrite H2.
  - intros [H1 H2]. split.
    + now apply Qeq_bool_false.
    + apply Qgtb_true in H2. unfold Qgtb in H2. now apply negb_true_iff in H2.
Qed.

Lemma within_allb_spec v b : within_allb v b = true <-> within_all v b.
Proof.
  unfold within_allb, within_all. rewrite forallb_res. split; intros H r; specialize (H r).
  - apply negb_true_iff in H. intros E. apply exceedsb_spec in E. congruence.
  - apply negb_true_iff. destruct (exceedsb (vget v r) (vget b r)) eqn:E; [|reflexivity].
    apply exceedsb_spec in E. contradiction.
Qed.

Lemma protectedb_spec q h : protectedb q h = true <-> protected q h.
Proof. unfold protectedb, protected. now rewrite andb_true_iff, !within_allb_spec. Qed.

Lemma nonneg_no_sentinel v : (forall r, 0 <= vget v r) -> no_sentinel v.
Proof. intros H r E. specialize (H r). unfold unlimited in E. lra. Qed.

(** * Order of examination *)

(** the statement one would like: the verdict does not depend on the order in which
    the reclaimee map is iterated *)
Definition order_independent : Prop :=
  forall m qs rc v1 v2, Permutation v1 v2 -> reclaimable m qs rc v1 = reclaimable m qs rc v2.

(** and not on the order of a queue's victims either *)
Definition victim_order_independent : Prop :=
  forall m qs rc k vs1 vs2, Permutation vs1 vs2 ->
    reclaimable m qs rc [(k, vs1)] = reclaimable m qs rc [(k, vs2)].

Definition shr (d f mx a np : Q) : rshare :=
  {| s_deserved := d; s_fair := f; s_max := mx; s_alloc := a; s_allocnp := np |}.
Definition zshare : rshare := shr 0 0 unlimited 0 0.
Definition gq (id : qid) (par : option qid) (g : rshare) : queue :=
  {| q_id := id; q_parent := par; q_cpu := zshare; q_mem := zshare; q_gpu := g |}.
Definition gres (x : Q) : res := {| r_cpu := 0; r_mem := 0; r_gpus := x; r_mig := 0 |}.

(** witness: departments A(1) and B(2); B's leaves b1(3), b2(4); reclaimer in A's leaf a1(5).
    B holds 5 GPUs with a deserved quota of 4; the victims are 2 GPUs in b1 and 0.5 in b2. *)
Definition w_qs : list queue :=
  [ gq 1%positive None (shr 4 4 unlimited 0 0);
    gq 2%positive None (shr 4 4 unlimited 5 0);
    gq 3%positive (Some 2%positive) (shr 2 2 unlimited 3 0);
    gq 4%positive (Some 2%positive) (shr 2 2 unlimited 2 0);
    gq 5%positive (Some 1%positive) (shr 4 4 unlimited 0 0) ].
Definition w_rc : reclaimer := {| rc_queue := 5%positive; rc_res := gres 1; rc_preemptible := true |}.
Definition w_v1 : list (qid * list res) := [(3%positive, [gres 2]); (4%positive, [gres (1 # 2)])].
Definition w_v2 : list (qid * list res) := [(4%positive, [gres (1 # 2)]); (3%positive, [gres 2])].

Theorem order_independent_refuted :
  exists m qs rc v1 v2,
    acyclicb qs = true /\ antichain_keys qs (map fst v1) = true /\ Permutation v1 v2 /\
    reclaimable m qs rc v1 = Ok false /\ reclaimable m qs rc v2 = Ok true.
Proof.
  exists 1, w_qs, w_rc, w_v1, w_v2. repeat split; try (vm_compute; reflexivity).
  unfold w_v1, w_v2. apply perm_swap.
Qed.

Theorem victim_order_independent_refuted :
  exists m qs rc k vs1 vs2,
    acyclicb qs = true /\ Permutation vs1 vs2 /\
    reclaimable m qs rc [(k, vs1)] = Ok false /\ reclaimable m qs rc [(k, vs2)] = Ok true.
Proof.
  exists 1, w_qs, w_rc, 3%positive, [gres 2; gres (1 # 2)], [gres (1 # 2); gres 2].
  repeat split; try (vm_compute; reflexivity). apply perm_swap.
Qed.

(** what *is* independent of the order: what every queue is left holding *)
Definition veq (a b : vec) : Prop := forall r, vget a r == vget b r.

Lemma veq_refl a : veq a a.
Proof. intros r. reflexivity. Qed.

Lemma veq_trans a b c : veq a b -> veq b c -> veq a c.
Proof. intros H1 H2 r. now rewrite (H1 r), (H2 r). Qed.

Lemma vsub_veq a b c : veq a b -> veq (vsub a c) (vsub b c).
Proof.
  intros H r. pose proof (H Cpu) as H1. pose proof (H Mem) as H2. pose proof (H Gpu) as H3.
  destruct r; cbn [vget vsub v_cpu v_mem v_gpu] in *; lra.
Qed.

Lemma vsub_swap a b c : veq (vsub (vsub a b) c) (vsub (vsub a c) b).
Proof. intros r. destruct r; cbn [vget vsub v_cpu v_mem v_gpu]; lra. Qed.

Definition charge (qs : list queue) (q : queue) (acc : vec) (kv : qid * res) : vec :=
  if on_chain qs (fst kv) (q_id q) then vsub acc (quantify (snd kv)) else acc.

Lemma charge_veq qs q a b kv : veq a b -> veq (charge qs q a kv) (charge qs q b kv).
Proof. intros H. unfold charge. destruct (on_chain _ _ _); [now apply vsub_veq|assumption]. Qed.

Lemma fold_charge_veq qs q : forall l a b, veq a b ->
  veq (fold_left (charge qs q) l a) (fold_left (charge qs q) l b).
Proof.
  induction l as [|kv l IH]; intros a b H; cbn [fold_left]; [assumption|].
  apply IH. now apply charge_veq.
Qed.

Lemma fold_charge_perm qs q d1 d2 :
  Permutation d1 d2 -> forall a, veq (fold_left (charge qs q) d1 a) (fold_left (charge qs q) d2 a).
Proof.
  induction 1 as [|x l l' _ IH|x y l|l l' l'' _ IH1 _ IH2]; intros a; cbn [fold_left].
  - apply veq_refl.
  - apply IH.
  - apply fold_charge_veq. unfold charge.
    destruct (on_chain qs (fst x) (q_id q)), (on_chain qs (fst y) (q_id q));
      try apply veq_refl. apply vsub_swap.
  - eapply veq_trans; eauto.
Qed.

Lemma rem_before_perm qs q d1 d2 :
  Permutation d1 d2 -> veq (rem_before qs d1 q) (rem_before qs d2 q).
Proof. intros H. apply (fold_charge_perm qs q d1 d2 H). Qed.

Theorem final_holdings_order_independent qs v1 v2 q :
  Permutation v1 v2 -> veq (rem_before qs (flatten v1) q) (rem_before qs (flatten v2) q).
Proof.
  intros H. apply rem_before_perm. unfold flatten. now apply Permutation_flat_map.
Qed.

(** * The sentinel collision *)

(** the unconditional form of C07.1 *)
Definition protected_untouched_unconditional : Prop :=
  forall m qs rc victims, reclaimable m qs rc victims = Ok true ->
  forall pre k v post, flatten victims = pre ++ (k, v) :: post ->
  exists rq eq, leveled qs (rc_queue rc) k = Ok (Some (rq, eq)) /\
                ~ protected eq (rem_before qs pre eq).

(** witness: queue 2 holds 10 CPU (deserved 5) and 1 GPU (deserved 4).  A first victim of
    6 CPU + 2 GPU (more GPUs than the queue holds) leaves "-1 GPU", which the code reads as
    "unlimited"; the second victim is then taken although the queue is within quota. *)
Definition s_qs : list queue :=
  [ {| q_id := 1%positive; q_parent := None; q_cpu := shr 20 20 unlimited 0 0; q_mem := zshare;
       q_gpu := shr 4 4 unlimited 0 0 |};
    {| q_id := 2%positive; q_parent := None; q_cpu := shr 5 5 unlimited 10 0; q_mem := zshare;
       q_gpu := shr 4 4 unlimited 1 0 |} ].
Definition s_rc : reclaimer :=
  {| rc_queue := 1%positive; rc_res := {| r_cpu := 1; r_mem := 0; r_gpus := 0; r_mig := 0 |};
     rc_preemptible := true |}.
Definition s_v1 : res := {| r_cpu := 6; r_mem := 0; r_gpus := 2; r_mig := 0 |}.
Definition s_v2 : res := {| r_cpu := 1; r_mem := 0; r_gpus := 0; r_mig := 0 |}.

Theorem protected_untouched_unconditional_refuted :
  exists m qs rc victims pre k v post,
    reclaimable m qs rc victims = Ok true /\ flatten victims = pre ++ (k, v) :: post /\
    forall rq eq, leveled qs (rc_queue rc) k = Ok (Some (rq, eq)) ->
                  protected eq (rem_before qs pre eq).
Proof.
  exists 1, s_qs, s_rc, [(2%positive, [s_v1; s_v2])], [(2%positive, s_v1)], 2%positive, s_v2, [].
  split; [vm_compute; reflexivity|]. split; [reflexivity|].
  intros rq eq H. vm_compute in H. injection H as _ <-.
  apply protectedb_spec. vm_compute. reflexivity.
Qed.

(** * Non-vacuity: a scenario that is accepted, with every hypothesis of the theorems met *)
Definition ex_victims : list (qid * list res) := w_v2.

Theorem ex_accepted :
  Acyclic w_qs /\ antichain_keys w_qs (map fst ex_victims) = true /\
  can_reclaim w_qs w_rc = Ok true /\ reclaimable 1 w_qs w_rc ex_victims = Ok true /\
  touched w_qs ex_victims 2%positive = true /\
  (forall pre q, lookup w_qs (q_id q) = Some q -> no_sentinel (rem_before w_qs (firstn pre (flatten ex_victims)) q)).
Proof.
  split; [apply acyclicb_acyclic; vm_compute; reflexivity|].
  repeat split; try (vm_compute; reflexivity).
  intros pre q Hq.
  assert (Hb : forallb (fun q => forallb (fun n => no_sentinelb (rem_before w_qs (firstn n (flatten ex_victims)) q))
                                  [0;1;2]%nat) w_qs = true) by (vm_compute; reflexivity).
  rewrite forallb_forall in Hb. specialize (Hb q (lookup_in _ _ _ Hq)). rewrite forallb_forall in Hb.
  assert (Hn : exists n, In n [0;1;2]%nat /\ firstn pre (flatten ex_victims) = firstn n (flatten ex_victims)).
  { destruct pre as [|[|[|pre]]]; [exists 0%nat|exists 1%nat|exists 2%nat|exists 2%nat]; cbn; auto. }
  destruct Hn as [n [Hin ->]]. specialize (Hb n Hin).
  unfold no_sentinelb in Hb. rewrite forallb_res in Hb. intros r E. specialize (Hb r).
  apply negb_true_iff in Hb. apply Qeq_bool_iff in E. congruence.
Qed.
