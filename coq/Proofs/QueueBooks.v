(** Proofs for C14, queue books over a whole cycle: the usage counters of every
    queue equal what the pods currently holding resources in its subtree add up
    to -- after session open ([queue_books_open_exact]), after every list of
    placement / un-placement / status-move events
    ([queue_books_events_exact]), hence over the whole cycle
    ([queue_books_cycle_exact]); Request stays what session open seeded.  The
    GPU share of a pending gpu-memory pod is finite for every positive divisor
    and +Inf for the divisor 0 ([requested_gpu_unset_divisor_infinite],
    [readme_world_refuted]). *)
Set Default Timeout 60.
From Coq Require Import List ZArith QArith Qround Qreduction Bool Lia Lqa.
From KaiV Require Import Model.Status Model.Capacity Model.CapacitySpec Model.QueueBooks
  Proofs.Capacity Proofs.CapacitySnapshot.
Import ListNotations.
Open Scope Q_scope.

(** * [recomputed] *)

Definition rex (qs : list queue) (ps : list spod) : Prop :=
  forall q, In q qs -> forall k r, rget (cnt k q) r == recomputed k qs ps (q_id q) r.

Lemma bexact_iff s : bexact s <-> rex (b_queues s) (b_pods s).
Proof.
  unfold bexact, rex. split.
  - intros H q I k r. destruct (H q I r) as [A B]. destruct k; assumption.
  - intros H q I r. split; [apply (H q I false r) | apply (H q I true r)].
Qed.

Lemma recomputed_cons k qs p ps a r :
  recomputed k qs (p :: ps) a r = pod_part k qs a r p + recomputed k qs ps a r.
Proof. reflexivity. Qed.

Lemma pod_part_skel k qs qs' a r p :
  map skel qs = map skel qs' -> pod_part k qs a r p = pod_part k qs' a r p.
Proof. intro H. unfold pod_part. rewrite (in_subtree_skel _ _ _ _ H). reflexivity. Qed.

Lemma recomputed_skel k qs qs' ps a r :
  map skel qs = map skel qs' -> recomputed k qs ps a r = recomputed k qs' ps a r.
Proof.
  intro H. induction ps as [|p ps IH]; [reflexivity|].
  rewrite !recomputed_cons, IH, (pod_part_skel _ _ _ _ _ _ H). reflexivity.
Qed.

Lemma set_pod_cons tid f p ps :
  set_pod tid f (p :: ps) = (if Pos.eqb (sp_task p) tid then f p else p) :: set_pod tid f ps.
Proof. reflexivity. Qed.

Lemma set_pod_notin tid f ps : ~ In tid (map sp_task ps) -> set_pod tid f ps = ps.
Proof.
  induction ps as [|p ps IH]; intro N; [reflexivity|].
  rewrite set_pod_cons. cbn [map In] in N.
  destruct (Pos.eqb (sp_task p) tid) eqn:E.
  - apply Pos.eqb_eq in E. exfalso. apply N. left. exact E.
  - f_equal. apply IH. intro I. apply N. right. exact I.
Qed.

Lemma set_pod_tasks tid f ps :
  (forall p, sp_task (f p) = sp_task p) -> map sp_task (set_pod tid f ps) = map sp_task ps.
Proof.
  intro F. unfold set_pod. rewrite map_map. apply map_ext. intro p.
  destruct (Pos.eqb (sp_task p) tid); [apply F | reflexivity].
Qed.

(** replacing in place the unique pod [tid] moves the sum by its part *)
Lemma recomputed_set k qs a r tid f : forall ps p,
  NoDup (map sp_task ps) -> find_pod tid ps = Some p ->
  recomputed k qs (set_pod tid f ps) a r ==
  recomputed k qs ps a r - pod_part k qs a r p + pod_part k qs a r (f p).
Proof.
  induction ps as [|x ps IH]; intros p ND F; [discriminate|].
  unfold find_pod in F. cbn [find] in F. rewrite set_pod_cons.
  cbn [map] in ND. inversion ND as [|? ? NI ND']; subst.
  destruct (Pos.eqb (sp_task x) tid) eqn:E.
  - injection F as <-. apply Pos.eqb_eq in E.
    rewrite set_pod_notin by (rewrite <- E; exact NI).
    rewrite !recomputed_cons. lra.
  - rewrite !recomputed_cons, (IH p ND' F). lra.
Qed.

Lemma rex_bump add qs ps ps' fuel jq pre c l :
  wf_forest qs = true -> rex qs ps -> chain fuel qs jq = Done l ->
  (forall k a r, recomputed k qs ps' a r ==
                 recomputed k qs ps a r + (if mem a l && active k pre then signed add (rget c r) else 0)) ->
  rex (map (sel l (bump add (negb pre) c)) qs) ps'.
Proof.
  intros W E C L q' I' k r. apply in_map_iff in I'. destruct I' as (q0 & <- & I0).
  assert (same_shape (sel l (bump add (negb pre) c))) as SS by (apply sel_shape, bump_shape).
  rewrite (shape_id _ _ SS).
  rewrite (recomputed_skel k _ qs ps' _ r (skel_map _ _ SS)).
  rewrite L, <- (E q0 I0 k r). unfold sel.
  destruct (mem (q_id q0) l); cbn [andb].
  - apply cnt_bump.
  - lra.
Qed.

Lemma pod_part_chain k qs fuel a r p l :
  wf_forest qs = true -> chain fuel qs (sp_queue p) = Done l ->
  pod_part k qs a r p =
  if holds (sp_status p) && (mem a l && active k (sp_preempt p)) then rget (sp_accepted p) r else 0.
Proof.
  intros W C. unfold pod_part, active. rewrite (in_subtree_chain _ _ _ _ _ W C), andb_assoc. reflexivity.
Qed.

Lemma pod_part_status k qs a r st p :
  holds (sp_status p) = holds st -> pod_part k qs a r (with_status st p) = pod_part k qs a r p.
Proof. intro H. unfold pod_part. cbn [with_status sp_status sp_queue sp_preempt sp_accepted]. rewrite H. reflexivity. Qed.

(** * Events *)

Lemma bstep_inv fuel s e s' :
  wf_forest (b_queues s) = true -> NoDup (map sp_task (b_pods s)) -> rex (b_queues s) (b_pods s) ->
  do_bevent fuel s e = Done s' ->
  rex (b_queues s') (b_pods s') /\ b_req s' = b_req s /\ wf_forest (b_queues s') = true /\
  map sp_task (b_pods s') = map sp_task (b_pods s).
Proof.
  intros W ND E H.
  assert (rex (b_queues s) (b_pods s) /\ b_req s = b_req s /\ wf_forest (b_queues s) = true /\
          map sp_task (b_pods s) = map sp_task (b_pods s)) as Same by auto.
  destruct e as [tid pl c | tid st | tid st]; cbn [do_bevent] in H;
    (destruct (find_pod tid (b_pods s)) as [p|] eqn:F; [|injection H as <-; exact Same]).
  - (* BPlace *)
    destruct (holds (sp_status p)) eqn:Hp; [injection H as <-; exact Same|].
    destruct (alloc_handler fuel (b_queues s) (sp_queue p) (sp_preempt p) c) as [qs'| |] eqn:A; try discriminate.
    injection H as <-. cbn [b_queues b_req b_pods].
    destruct (handler_spec _ _ _ _ _ _ _ A) as (l & C & ->).
    split; [|split; [reflexivity | split; [rewrite wf_sel by apply bump_shape; exact W
                                          | apply set_pod_tasks; reflexivity]]].
    eapply (rex_bump true); eauto. intros k a r.
    rewrite (recomputed_set k _ a r tid _ _ p ND F).
    rewrite (pod_part_chain k _ fuel a r p l W C).
    rewrite (pod_part_chain k _ fuel a r (with_placed (placed_status pl) c p) l W C).
    cbn [with_placed sp_status sp_accepted sp_preempt]. rewrite Hp.
    assert (holds (placed_status pl) = true) as -> by (destruct pl; reflexivity).
    unfold signed. cbn [andb]. destruct (mem a l && active k (sp_preempt p)); lra.
  - (* BUnplace *)
    destruct (holds (sp_status p) && negb (holds st)) eqn:G; [|injection H as <-; exact Same].
    apply andb_prop in G. destruct G as [Hp Hs]. apply negb_true_iff in Hs.
    destruct (dealloc_handler fuel (b_queues s) (sp_queue p) (sp_preempt p) (sp_accepted p)) as [qs'| |] eqn:A;
      try discriminate.
    injection H as <-. cbn [b_queues b_req b_pods].
    destruct (handler_spec _ _ _ _ _ _ _ A) as (l & C & ->).
    split; [|split; [reflexivity | split; [rewrite wf_sel by apply bump_shape; exact W
                                          | apply set_pod_tasks; reflexivity]]].
    eapply (rex_bump false); eauto. intros k a r.
    rewrite (recomputed_set k _ a r tid _ _ p ND F).
    rewrite (pod_part_chain k _ fuel a r p l W C).
    rewrite (pod_part_chain k _ fuel a r (with_status st p) l W C).
    cbn [with_status sp_status sp_accepted sp_preempt]. rewrite Hp, Hs.
    unfold signed. cbn [andb]. destruct (mem a l && active k (sp_preempt p)); lra.
  - (* BMove *)
    destruct (Bool.eqb (holds (sp_status p)) (holds st)) eqn:G; [|injection H as <-; exact Same].
    apply eqb_prop in G. injection H as <-. cbn [b_queues b_req b_pods].
    split; [|split; [reflexivity | split; [exact W | apply set_pod_tasks; reflexivity]]].
    intros q I k r. rewrite (recomputed_set k _ (q_id q) r tid _ _ p ND F), (pod_part_status _ _ _ _ _ _ G).
    rewrite (E q I k r). lra.
Qed.

Lemma brun_inv fuel : forall es s s',
  wf_forest (b_queues s) = true -> NoDup (map sp_task (b_pods s)) -> rex (b_queues s) (b_pods s) ->
  brun fuel s es = Done s' ->
  rex (b_queues s') (b_pods s') /\ b_req s' = b_req s /\ wf_forest (b_queues s') = true /\
  map sp_task (b_pods s') = map sp_task (b_pods s).
Proof.
  induction es as [|e es IH]; intros s s' W ND E H; cbn [brun] in H.
  - injection H as <-. auto.
  - destruct (do_bevent fuel s e) as [s1| |] eqn:D; try discriminate.
    destruct (bstep_inv _ _ _ _ W ND E D) as (E1 & R1 & W1 & T1).
    assert (NoDup (map sp_task (b_pods s1))) as ND1 by (rewrite T1; exact ND).
    destruct (IH _ _ W1 ND1 E1 H) as (E2 & R2 & W2 & T2).
    split; [exact E2|]. split; [congruence|]. split; [exact W2 | congruence].
Qed.

(** every list of events keeps the books exact; Request is not touched *)
Theorem queue_books_events_exact :
  forall (fuel : nat) (s0 : bstate) (es : list bevent) (s : bstate),
    wf_forest (b_queues s0) = true -> NoDup (map sp_task (b_pods s0)) -> bexact s0 ->
    brun fuel s0 es = Done s ->
    bexact s /\ b_req s = b_req s0 /\ wf_forest (b_queues s) = true /\
    map sp_task (b_pods s) = map sp_task (b_pods s0).
Proof.
  intros fuel s0 es s W ND E H. apply bexact_iff in E.
  destruct (brun_inv _ _ _ _ W ND E H) as (E1 & R1 & W1 & T1).
  split; [apply bexact_iff; exact E1 | auto].
Qed.

(** * Session open *)

Lemma charged_nil k qs a r : charged k qs [] a r = 0.
Proof. reflexivity. Qed.

Lemma charged_app k qs l1 l2 a r :
  charged k qs (l1 ++ l2) a r == charged k qs l1 a r + charged k qs l2 a r.
Proof.
  induction l1 as [|e l1 IH]; cbn [app].
  - rewrite charged_nil. lra.
  - rewrite !charged_cons, IH. lra.
Qed.

Lemma charged_pod_entries k qs a r p :
  status_eqb (sp_status p) Pipelined = false ->
  charged k qs (pod_entries p) a r == pod_part k qs a r p.
Proof.
  intro NP. unfold pod_entries, pod_part, holds. rewrite NP, orb_false_r.
  destruct (allocated_status (sp_status p)); cbn [andb].
  - rewrite charged_cons, charged_nil. unfold contrib. cbn [entry_of e_queue e_preempt e_charge].
    destruct (in_subtree qs a (sp_queue p) && (negb k || negb (sp_preempt p))); lra.
  - rewrite charged_nil. lra.
Qed.

Lemma charged_allocated_entries k qs a r : forall ps,
  no_pipelined ps = true -> charged k qs (allocated_entries ps) a r == recomputed k qs ps a r.
Proof.
  induction ps as [|p ps IH]; intro N.
  - reflexivity.
  - unfold no_pipelined in N. cbn [forallb] in N. apply andb_prop in N. destruct N as [N1 N2].
    apply negb_true_iff in N1.
    rewrite allocated_entries_cons, charged_app, (IH N2), (charged_pod_entries _ _ _ _ _ N1), recomputed_cons. lra.
Qed.

(** ** Request *)

Lemma find_filter_ne (m : reqmap) a id : a <> id ->
  find (fun x => Pos.eqb (fst x) a) (filter (fun x => negb (Pos.eqb (fst x) id)) m)
  = find (fun x => Pos.eqb (fst x) a) m.
Proof.
  intro N. induction m as [|x m IH]; [reflexivity|]. cbn [filter find].
  destruct (Pos.eqb (fst x) id) eqn:E; cbn [negb].
  - apply Pos.eqb_eq in E. destruct (Pos.eqb (fst x) a) eqn:E2.
    + apply Pos.eqb_eq in E2. congruence.
    + exact IH.
  - cbn [find]. destruct (Pos.eqb (fst x) a); [reflexivity | exact IH].
Qed.

Lemma req_get_cons_filter (m : reqmap) id v a :
  req_get ((id, v) :: filter (fun x => negb (Pos.eqb (fst x) id)) m) a
  = if Pos.eqb a id then v else req_get m a.
Proof.
  unfold req_get. cbn [find fst snd]. rewrite (Pos.eqb_sym id a).
  destruct (Pos.eqb a id) eqn:E; [reflexivity|]. apply Pos.eqb_neq in E.
  rewrite (find_filter_ne _ _ _ E). reflexivity.
Qed.

Lemma req_get_add m id c a :
  req_get (req_add m id c) a = if Pos.eqb a id then rq_add (req_get m id) c else req_get m a.
Proof. unfold req_add. apply req_get_cons_filter. Qed.

Lemma rget_zero r : rget rq_zero r == 0.
Proof. destruct r; reflexivity. Qed.

(** the walk adds [c] once to the entry of every queue of the parent chain *)
Lemma walk_request_spec qs c : forall f id m m',
  walk_request f qs id c m = Done m' ->
  exists l, chain f qs id = Done l /\
            forall a r, rget (req_get m' a) r == rget (req_get m a) r + (if mem a l then rget c r else 0).
Proof.
  induction f as [|n IH]; intros id m m' H; [discriminate|].
  cbn [walk_request] in H. destruct (find_queue qs id) as [q|] eqn:F.
  - destruct (IH _ _ _ H) as (l0 & C & Sp).
    assert (chain (S n) qs id = Done (id :: l0)) as C0 by (rewrite chain_unfold, F, C; reflexivity).
    exists (id :: l0). split; [exact C0|]. intros a r. rewrite Sp, req_get_add.
    pose proof (chain_nodup _ _ _ _ C0) as ND. inversion ND as [|? ? NI _]; subst.
    apply mem_false in NI.
    change (mem a (id :: l0)) with (Pos.eqb a id || mem a l0)%bool.
    destruct (Pos.eqb a id) eqn:E; cbn [orb].
    + apply Pos.eqb_eq in E. subst a. rewrite NI, rget_add. lra.
    + destruct (mem a l0); lra.
  - injection H as <-. exists []. split; [rewrite chain_unfold, F; reflexivity|].
    intros a r. cbn [mem existsb]. lra.
Qed.

Lemma snapshot_request_spec fuel qs m p m' :
  wf_forest qs = true -> snapshot_request fuel qs m p = Done m' ->
  forall a r, rget (req_get m' a) r == rget (req_get m a) r + req_part qs a r p.
Proof.
  intros W H a r. unfold snapshot_request in H. unfold req_part.
  destruct (snapshot_class (sp_status p)).
  - destruct (walk_request_spec _ _ _ _ _ _ H) as (l & C & Sp).
    rewrite Sp, (in_subtree_chain _ _ _ _ _ W C). reflexivity.
  - destruct (walk_request_spec _ _ _ _ _ _ H) as (l & C & Sp).
    rewrite Sp, (in_subtree_chain _ _ _ _ _ W C). reflexivity.
  - injection H as <-. destruct (in_subtree qs a (sp_queue p)); lra.
Qed.

Lemma load_requests_spec fuel qs : wf_forest qs = true -> forall ps m m',
  load_requests fuel qs m ps = Done m' ->
  forall a r, rget (req_get m' a) r == rget (req_get m a) r + recomputed_request qs ps a r.
Proof.
  intro W. induction ps as [|p ps IH]; intros m m' H a r; cbn [load_requests] in H.
  - injection H as <-. unfold recomputed_request. cbn [fold_right]. lra.
  - destruct (snapshot_request fuel qs m p) as [m1| |] eqn:R; try discriminate.
    rewrite (IH _ _ H a r), (snapshot_request_spec _ _ _ _ _ W R a r).
    unfold recomputed_request. cbn [fold_right]. lra.
Qed.

(** session open seeds exact books, and Request is the sum over the snapshot's
    allocated-class and Pending pods of the subtree (any fuel that the pass
    completes with; [snapshot_seeding_total]: [default_fuel qs] is enough) *)
Theorem queue_books_open_exact :
  forall (fuel : nat) (qs : list queue) (ps : list spod) (s : bstate),
    wf_forest qs = true -> fresh qs -> no_pipelined ps = true ->
    b_open fuel qs ps = Done s ->
    bexact s /\
    (forall a r, rget (req_get (b_req s) a) r == recomputed_request qs ps a r) /\
    wf_forest (b_queues s) = true /\ b_pods s = ps /\ map shape (b_queues s) = map shape qs.
Proof.
  intros fuel qs ps s W Fr NP H. unfold b_open in H.
  destruct (load_init fuel {| s_queues := qs; s_ledger := [] |} ps) as [s1| |] eqn:L; try discriminate.
  destruct (load_requests fuel qs [] ps) as [m| |] eqn:R; try discriminate.
  injection H as <-. cbn [b_queues b_req b_pods].
  destruct (snapshot_seeding_exact _ _ _ _ W Fr L) as (Led & CE & W1 & Sh & _).
  split; [|split; [|auto]].
  - apply bexact_iff. cbn [b_queues b_pods]. apply counters_exact_iff in CE.
    intros q I k r. rewrite (CE q I k r), Led. apply charged_allocated_entries. exact NP.
  - intros a r. rewrite (load_requests_spec _ _ W _ _ _ R a r).
    change (req_get [] a) with rq_zero. rewrite rget_zero. lra.
Qed.

(** * The whole cycle *)

Theorem queue_books_cycle_exact :
  forall (fuel fuel' : nat) (qs : list queue) (ps : list spod) (s0 : bstate) (es : list bevent) (s : bstate),
    wf_forest qs = true -> fresh qs -> no_pipelined ps = true -> NoDup (map sp_task ps) ->
    b_open fuel qs ps = Done s0 -> brun fuel' s0 es = Done s ->
    bexact s /\
    (forall a r, rget (req_get (b_req s) a) r == recomputed_request qs ps a r) /\
    wf_forest (b_queues s) = true /\ map sp_task (b_pods s) = map sp_task ps.
Proof.
  intros fuel fuel' qs ps s0 es s W Fr NP ND O H.
  destruct (queue_books_open_exact _ _ _ _ W Fr NP O) as (E0 & R0 & W0 & P0 & _).
  assert (NoDup (map sp_task (b_pods s0))) as ND0 by (rewrite P0; exact ND).
  destruct (queue_books_events_exact _ _ _ _ W0 ND0 E0 H) as (E1 & R1 & W1 & T1).
  split; [exact E1|]. split; [intros a r; rewrite R1; apply R0|]. split; [exact W1|].
  rewrite T1, P0. reflexivity.
Qed.

(** * The divisor of the gpu-memory share *)

(** with a positive divisor the extended computation is the one of
    [pending_request]: finite, and the same number *)
Theorem pending_gpu_finite :
  forall (d : Z) (t : task), (0 < d)%Z ->
    pending_gpu_x d t = XFin (r_gpu (pending_request (Z.to_pos d) t)).
Proof.
  intros d t D. destruct d as [|p|p]; try lia.
  unfold pending_gpu_x, pending_request. destruct (t_type t); reflexivity.
Qed.

Lemma requested_gpu_x_cons qs d tq pend a :
  requested_gpu_x qs d (tq :: pend) a =
  if in_subtree qs a (snd tq) then xadd (pending_gpu_x d (fst tq)) (requested_gpu_x qs d pend a)
  else requested_gpu_x qs d pend a.
Proof. reflexivity. Qed.

Theorem requested_gpu_finite :
  forall (qs : list queue) (d : Z) (pend : list (task * positive)) (a : positive), (0 < d)%Z ->
    exists q, requested_gpu_x qs d pend a = XFin q.
Proof.
  intros qs d pend a D. induction pend as [|tq pend (q & IH)].
  - exists 0. reflexivity.
  - rewrite requested_gpu_x_cons, IH, (pending_gpu_finite _ _ D).
    destruct (in_subtree qs a (snd tq)); eexists; reflexivity.
Qed.

Lemma pending_gpu_x0_inf t :
  t_type t = GpuMemory -> (0 < g_memory (t_gpu t))%Z -> (0 < g_count (t_gpu t))%Z ->
  pending_gpu_x 0 t = XInf.
Proof.
  intros T M C. unfold pending_gpu_x. rewrite T. unfold xdiv_pos. cbn [Z.eqb].
  destruct (Qeq_bool (inject_Z (g_memory (t_gpu t))) 0) eqn:E.
  - apply Qeq_bool_iff in E. unfold Qeq, inject_Z in E. cbn in E. lia.
  - unfold xmul_z. destruct (g_count (t_gpu t) =? 0)%Z eqn:Z0; [apply Z.eqb_eq in Z0; lia | reflexivity].
Qed.

Lemma pending_gpu_x0_cases tq :
  gpu_memory_sane tq = true ->
  pending_gpu_x 0 (fst tq) = XInf \/ exists q, pending_gpu_x 0 (fst tq) = XFin q.
Proof.
  unfold gpu_memory_sane. intro S0. destruct (t_type (fst tq)) eqn:T;
    try (right; unfold pending_gpu_x; rewrite T; eexists; reflexivity).
  apply andb_prop in S0. destruct S0 as [M C]. apply Z.ltb_lt in M. apply Z.ltb_lt in C.
  left. apply pending_gpu_x0_inf; assumption.
Qed.

Lemma requested_gpu_x0_cases qs a : forall pend,
  forallb gpu_memory_sane pend = true ->
  requested_gpu_x qs 0 pend a = XInf \/ exists q, requested_gpu_x qs 0 pend a = XFin q.
Proof.
  induction pend as [|tq pend IH]; intro S0.
  - right. exists 0. reflexivity.
  - cbn [forallb] in S0. apply andb_prop in S0. destruct S0 as [S1 S2].
    rewrite requested_gpu_x_cons. destruct (in_subtree qs a (snd tq)); [|apply IH; exact S2].
    destruct (pending_gpu_x0_cases _ S1) as [-> | (x & ->)]; destruct (IH S2) as [-> | (y & ->)];
      try (left; reflexivity).
    right. eexists. reflexivity.
Qed.

(** with the divisor still 0, one pending gpu-memory pod in the subtree makes
    the queue's requested GPU +Inf ([forallb gpu_memory_sane]: no 0 * Inf or
    0 / 0 among the other pods, i.e. no NaN) *)
Theorem requested_gpu_unset_divisor_infinite :
  forall (qs : list queue) (pend : list (task * positive)) (a : positive) (t : task) (jq : positive),
    In (t, jq) pend -> in_subtree qs a jq = true -> t_type t = GpuMemory ->
    (0 < g_memory (t_gpu t))%Z -> (0 < g_count (t_gpu t))%Z ->
    forallb gpu_memory_sane pend = true ->
    requested_gpu_x qs 0 pend a = XInf.
Proof.
  intros qs pend a t jq I Sub T M C. induction pend as [|tq pend IH]; intro S0; [destruct I|].
  cbn [forallb] in S0. apply andb_prop in S0. destruct S0 as [S1 S2].
  rewrite requested_gpu_x_cons. destruct I as [-> | I].
  - cbn [fst snd]. rewrite Sub, (pending_gpu_x0_inf _ T M C).
    destruct (requested_gpu_x0_cases qs a _ S2) as [-> | (y & ->)]; reflexivity.
  - rewrite (IH I S2). destruct (in_subtree qs a (snd tq)); [|reflexivity].
    destruct (pending_gpu_x0_cases _ S1) as [-> | (x & ->)]; reflexivity.
Qed.

(** * Witness: the README world

    dept (1; its parent 9 is not a queue) with leaves team-a (2) and team-b (3),
    nothing limited.  Pending: a whole-GPU pod in team-a, and in team-b a pod
    asking for 4000 MiB of GPU memory on one device.  With the divisor
    MinNodeGPUMemory = 16000 the gpu-memory pod asks for a quarter GPU; with
    the divisor 0 the requested GPU of team-b and of dept is +Inf. *)
Definition rw_unl : rq := {| r_cpu := -1; r_mem := -1; r_gpu := -1 |}.
Definition rw_q (id parent : positive) : queue :=
  {| q_id := id; q_parent := parent; q_limit := rw_unl; q_deserved := rw_unl; q_alloc := rq_zero; q_np := rq_zero |}.
Definition rw_queues : list queue := [rw_q 1 9; rw_q 2 1; rw_q 3 1].
Definition rw_whole : task :=
  {| t_id := 11; t_type := Regular; t_cpu := 0; t_memory := 0;
     t_gpu := {| g_count := 1; g_portion := 1; g_memory := 0; g_dra := 0; g_mig := [] |} |}.
Definition rw_mem : task :=
  {| t_id := 12; t_type := GpuMemory; t_cpu := 0; t_memory := 0;
     t_gpu := {| g_count := 1; g_portion := 0; g_memory := 4000; g_dra := 0; g_mig := [] |} |}.
Definition rw_pend : list (task * positive) := [(rw_whole, 2%positive); (rw_mem, 3%positive)].

Theorem readme_world_refuted :
  wf_forest rw_queues = true /\ forallb gpu_memory_sane rw_pend = true /\
  r_gpu (job_task_request rw_whole) = 1 /\ r_gpu (job_task_request rw_mem) = 0 /\
  r_gpu (pending_request 16000 rw_mem) = 1 # 4 /\
  requested_gpu_x rw_queues 16000 rw_pend 2 = XFin 1 /\
  requested_gpu_x rw_queues 16000 rw_pend 3 = XFin (1 # 4) /\
  requested_gpu_x rw_queues 16000 rw_pend 1 = XFin (5 # 4) /\
  requested_gpu_x rw_queues 0 rw_pend 2 = XFin 1 /\
  requested_gpu_x rw_queues 0 rw_pend 3 = XInf /\
  requested_gpu_x rw_queues 0 rw_pend 1 = XInf.
Proof. repeat (split; [vm_compute; reflexivity|]). vm_compute. reflexivity. Qed.

(** * Non-vacuity *)

Lemma walk_request_total qs c : forall f id l m,
  chain f qs id = Done l -> exists m', walk_request f qs id c m = Done m'.
Proof.
  induction f as [|n IH]; intros id l m C; [discriminate|].
  rewrite chain_unfold in C. cbn [walk_request]. destruct (find_queue qs id) as [q|] eqn:F.
  - destruct (chain n qs (q_parent q)) as [l0| |] eqn:C0; try discriminate.
    apply (IH _ l0). exact C0.
  - exists m. reflexivity.
Qed.

Lemma load_requests_total qs : wf_forest qs = true -> forall ps m,
  exists m', load_requests (default_fuel qs) qs m ps = Done m'.
Proof.
  intro W. induction ps as [|p ps IH]; intro m.
  - exists m. reflexivity.
  - cbn [load_requests]. destruct (wf_chain _ W (sp_queue p)) as (l & C).
    assert (exists m1, snapshot_request (default_fuel qs) qs m p = Done m1) as (m1 & R).
    { unfold snapshot_request. destruct (snapshot_class (sp_status p));
        [eapply walk_request_total; exact C | eapply walk_request_total; exact C | exists m; reflexivity]. }
    rewrite R. apply IH.
Qed.

(** session open completes on every forest with the default fuel *)
Theorem queue_books_open_total :
  forall (qs : list queue) (ps : list spod),
    wf_forest qs = true -> fresh qs -> exists s, b_open (default_fuel qs) qs ps = Done s.
Proof.
  intros qs ps W Fr. unfold b_open.
  destruct (snapshot_seeding_total qs ps W Fr) as (s1 & ->).
  destruct (load_requests_total qs W ps []) as (m & ->). eexists. reflexivity.
Qed.

(** The README world with pods: 21 Running in team-a (one GPU), 22 Pending in
    team-b (asks for a quarter GPU), 23 Bound in team-b (half a GPU,
    non-preemptible).  The cycle places 22 (pipelined), commits nothing for it,
    moves 23 to Running, evicts 21, then undoes the placement of 22.  The
    counters move at every handler event and Request never does.  The last
    clause: a snapshot that did contain a Pipelined pod would open with books
    that are NOT exact (the pass does not charge it), which is why
    [no_pipelined] is a hypothesis of [queue_books_open_exact]. *)
Definition rw_g (g : Q) : rq := {| r_cpu := 0; r_mem := 0; r_gpu := g |}.
Definition rw_pod (id jq : positive) (pre : bool) (st : status) (acc req : Q) : spod :=
  {| sp_task := id; sp_queue := jq; sp_preempt := pre; sp_status := st; sp_accepted := rw_g acc; sp_request := rw_g req |}.
Definition rw_pods : list spod :=
  [rw_pod 21 2 true Running 1 1; rw_pod 22 3 true Pending 0 (1 # 4); rw_pod 23 3 false Bound (1 # 2) (1 # 2)].
Definition rw_events : list bevent :=
  [BPlace 22 true (rw_g (1 # 4)); BMove 23 Running; BUnplace 21 Releasing; BUnplace 22 Pending].
Definition gpu_books (s : bstate) : list (positive * Q * Q * Q) :=
  map (fun q => (q_id q, r_gpu (q_alloc q), r_gpu (q_np q), r_gpu (req_get (b_req s) (q_id q)))) (b_queues s).
Definition books_after (es : list bevent) : list (positive * Q * Q * Q) :=
  match b_open 4 rw_queues rw_pods with
  | Done s0 => match brun 4 s0 es with Done s => gpu_books s | _ => [] end
  | _ => []
  end.

Theorem queue_books_nonvacuous :
  fresh rw_queues /\ no_pipelined rw_pods = true /\ NoDup (map sp_task rw_pods) /\
  books_after [] = [(1%positive, 3 # 2, 1 # 2, 7 # 4); (2%positive, 1, 0, 1); (3%positive, 1 # 2, 1 # 2, 3 # 4)] /\
  books_after (firstn 1 rw_events)
    = [(1%positive, 7 # 4, 1 # 2, 7 # 4); (2%positive, 1, 0, 1); (3%positive, 3 # 4, 1 # 2, 3 # 4)] /\
  books_after (firstn 2 rw_events) = books_after (firstn 1 rw_events) /\
  books_after (firstn 3 rw_events)
    = [(1%positive, 3 # 4, 1 # 2, 7 # 4); (2%positive, 0, 0, 1); (3%positive, 3 # 4, 1 # 2, 3 # 4)] /\
  books_after rw_events
    = [(1%positive, 1 # 2, 1 # 2, 7 # 4); (2%positive, 0, 0, 1); (3%positive, 1 # 2, 1 # 2, 3 # 4)] /\
  (exists s, b_open 4 rw_queues (rw_pod 24 3 true Pipelined 1 1 :: rw_pods) = Done s /\
             recomputed false (b_queues s) (b_pods s) 3 GPU == 3 # 2 /\
             (forall q, In q (b_queues s) -> q_id q = 3%positive -> rget (q_alloc q) GPU == 1 # 2) /\
             ~ bexact s).
Proof.
  split; [intros q [<- | [<- | [<- | []]]] r; destruct r; split; vm_compute; reflexivity|].
  split; [vm_compute; reflexivity|].
  split; [repeat constructor; cbn; intuition discriminate|].
  repeat (split; [vm_compute; reflexivity|]).
  destruct (b_open 4 rw_queues (rw_pod 24 3 true Pipelined 1 1 :: rw_pods)) as [s| |] eqn:O;
    try (vm_compute in O; discriminate).
  exists s. split; [reflexivity|].
  vm_compute in O. injection O as <-.
  split; [vm_compute; reflexivity|]. split.
  - intros q [<- | [<- | [<- | []]]] Q3; try discriminate Q3. vm_compute. reflexivity.
  - intro B. unfold bexact in B. cbn [b_queues] in B.
    match type of B with
    | (forall q, In q [_; _; ?q3] -> _) =>
        destruct (B q3 (or_intror (or_intror (or_introl eq_refl))) GPU) as [A _]
    end.
    vm_compute in A. discriminate A.
Qed.
