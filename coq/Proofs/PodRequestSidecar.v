(** The Kubernetes request rule with restartable init containers (sidecars) covers every stage of the pod's life.
    Stages: while init container i starts it runs next to the sidecars started before it (a sidecar: next to the
    earlier sidecars, and it stays); once the init phase is over the regular containers run next to all sidecars;
    the sandbox overhead is held throughout. *)
From Coq Require Import List ZArith Bool Lia.
From KaiV Require Import Model.Res Model.Node Model.NodeSpec Model.PodRequest Proofs.PodRequest.
Import ListNotations.
Open Scope Z_scope.

(** what is held while each init container starts, given the sidecars already running *)
Fixpoint init_stages (sc : res) (l : list (bool * res)) : list res :=
  match l with
  | [] => []
  | c :: t => let use := radd (snd c) sc in use :: init_stages (if fst c then use else sc) t
  end.
(** the sidecars running after the init phase *)
Fixpoint sidecars_after (sc : res) (l : list (bool * res)) : res :=
  match l with
  | [] => sc
  | c :: t => sidecars_after (if fst c then radd (snd c) sc else sc) t
  end.
Definition run_stage (conts : list res) (inits : list (bool * res)) : res :=
  radd (rsum conts) (sidecars_after rzero inits).
(** every stage of the pod's life, overhead included *)
Definition sidecar_stages (conts : list res) (inits : list (bool * res)) (oh : res) : list res :=
  map (fun d => radd d oh) (run_stage conts inits :: init_stages rzero inits).

Lemma k8s_step_eq sc mx c :
  k8s_step (sc, mx) c = (if fst c then radd (snd c) sc else sc, rmax mx (radd (snd c) sc)).
Proof. unfold k8s_step. cbn [fst snd]. destruct (fst c); reflexivity. Qed.

Lemma k8s_fold_spec k l : forall sc mx,
  fst (fold_left k8s_step l (sc, mx)) = sidecars_after sc l
  /\ proj k mx <= proj k (snd (fold_left k8s_step l (sc, mx)))
  /\ (forall d, In d (init_stages sc l) -> proj k d <= proj k (snd (fold_left k8s_step l (sc, mx)))).
Proof.
  induction l as [|c t IH]; intros sc mx; cbn [fold_left init_stages sidecars_after].
  - cbn [fst snd]. split; [reflexivity|]. split; [apply Z.le_refl|]. intros d [].
  - rewrite k8s_step_eq. destruct (fst c) eqn:Ec.
    + destruct (IH (radd (snd c) sc) (rmax mx (radd (snd c) sc))) as (A & B & C).
      split; [exact A|]. rewrite proj_rmax in B. split; [lia|].
      intros d [<-|I]; [lia|]. apply C; exact I.
    + destruct (IH sc (rmax mx (radd (snd c) sc))) as (A & B & C).
      split; [exact A|]. rewrite proj_rmax in B. split; [lia|].
      intros d [<-|I]; [lia|]. apply C; exact I.
Qed.

(** the rule covers every stage, for every resource, whatever the containers are *)
Lemma k8s_request_covers_every_stage conts inits oh k d :
  In d (sidecar_stages conts inits oh) -> proj k d <= proj k (k8s_request conts inits oh).
Proof.
  unfold sidecar_stages, k8s_request. intros I. apply in_map_iff in I as (d0 & <- & I).
  destruct (k8s_fold_spec k inits rzero rzero) as (A & B & C).
  rewrite !proj_radd, proj_rmax, proj_radd. rewrite A.
  destruct I as [<-|I].
  - unfold run_stage. rewrite proj_radd. lia.
  - specialize (C _ I). lia.
Qed.

(** ... and it is the least booking that does: some stage needs exactly that much *)
Lemma k8s_fold_attained k l : forall sc mx,
  proj k (snd (fold_left k8s_step l (sc, mx))) = proj k mx
  \/ exists d, In d (init_stages sc l) /\ proj k d = proj k (snd (fold_left k8s_step l (sc, mx))).
Proof.
  induction l as [|c t IH]; intros sc mx; cbn [fold_left init_stages].
  - left; reflexivity.
  - rewrite k8s_step_eq.
    set (use := radd (snd c) sc).
    assert (H : forall sc', proj k (snd (fold_left k8s_step t (sc', rmax mx use))) = proj k mx
            \/ exists d, In d (use :: init_stages sc' t) /\ proj k d = proj k (snd (fold_left k8s_step t (sc', rmax mx use)))).
    { intros sc'. destruct (IH sc' (rmax mx use)) as [E|(d & I & E)].
      - rewrite proj_rmax in E. destruct (Z.max_spec (proj k mx) (proj k use)) as [(L & M)|(L & M)]; rewrite M in E.
        + right. exists use. split; [now left|]. lia.
        + left. exact E.
      - right. exists d. split; [now right|exact E]. }
    destruct (fst c); apply H.
Qed.

Lemma k8s_request_is_attained conts inits oh k :
  0 <= proj k (run_stage conts inits) ->
  exists d, In d (sidecar_stages conts inits oh) /\ proj k d = proj k (k8s_request conts inits oh).
Proof.
  intros Hr. unfold sidecar_stages, k8s_request.
  destruct (k8s_fold_spec k inits rzero rzero) as (A & _ & _).
  rewrite proj_radd, proj_rmax, proj_radd, A.
  fold (run_stage conts inits) in *.
  assert (R : proj k (rsum conts) + proj k (sidecars_after rzero inits) = proj k (run_stage conts inits))
    by (unfold run_stage; now rewrite proj_radd).
  rewrite R.
  destruct (Z.max_spec (proj k (run_stage conts inits)) (proj k (snd (fold_left k8s_step inits (rzero, rzero)))))
    as [(L & M)|(L & M)]; rewrite M.
  - destruct (k8s_fold_attained k inits rzero rzero) as [E|(d & I & E)].
    + rewrite proj_rzero in E. exists (radd (run_stage conts inits) oh). split; [cbn; now left|].
      rewrite proj_radd. lia.
    + exists (radd d oh). split; [cbn [map]; right; apply in_map_iff; exists d; split; [reflexivity|exact I]|]. rewrite proj_radd. lia.
  - exists (radd (run_stage conts inits) oh). split; [cbn; now left|]. rewrite proj_radd. lia.
Qed.

(** the pod of the finding repaired by 21eb608: container 1000m / 1Gi and a sidecar 1000m / 1Gi run together *)
Definition sidecar_pod_conts : list res := [mkRes 1000 1073741824 0 0 0 0].
Definition sidecar_pod_inits : list (bool * res) := [(true, mkRes 1000 1073741824 0 0 0 0)].
Lemma sidecar_pod_witness :
  cpu (k8s_request sidecar_pod_conts sidecar_pod_inits rzero) = 2000
  /\ cpu (pod_request (mkPS sidecar_pod_conts (map snd sidecar_pod_inits) rzero)) = 1000
  /\ In (mkRes 2000 2147483648 0 0 0 0) (sidecar_stages sidecar_pod_conts sidecar_pod_inits rzero).
Proof. vm_compute. repeat split. left. reflexivity. Qed.
