(** C02: a rolled-back / discarded what-if leaves the per-device books of every
    node as they were (from C13's statement theorems, Proofs/Session.v), so the
    guards of later binds see the true devices; and the variant whose undo entry
    of a same-node GPU-group move restores the NEW group does not
    (Model/SessionMove.v, the world of seeded/C02-4). *)
From Coq Require Import List ZArith PArith Bool Lia.
From KaiV Require Import Model.Res Model.Status Model.AMap Model.Node Model.NodeSpec Model.Session Model.SessionMove.
From KaiV Require Import Proofs.Node Proofs.Session Proofs.NodeFull.
From KaiV Require Run.Cycle.
Import ListNotations.
Open Scope Z_scope.

(** what a later placement reads of a node's devices *)
Definition device_books_kept (a b : node) : Prop :=
  n_pods a = n_pods b /\ n_ngpu a = n_ngpu b /\ n_gpumem a = n_gpumem b /\ n_alloc a = n_alloc b
  /\ (forall g, zget g (g_used a) = zget g (g_used b) /\ zget g (g_alloc a) = zget g (g_alloc b)
                /\ zget g (g_rel a) = zget g (g_rel b))
  /\ (forall g, spec_galloc g (tasks_of a) = spec_galloc g (tasks_of b))
  /\ devices_in_use (tasks_of a) = devices_in_use (tasks_of b)
  /\ (forall m g, zget g (g_alloc a) <> 0 -> enough_idle_on_gpu a m g = enough_idle_on_gpu b m g)
  /\ (forall m g, fits_gpu_group a m g = fits_gpu_group b m g)
  /\ (gpu (n_idle a) = gpu (n_idle b) ->
      forall t gs, Run.Cycle.bind_guard a t gs = Run.Cycle.bind_guard b t gs).
Definition sessions_device_books_kept (x y : sess) : Prop :=
  forall nid, match alookup nid (s_nodes x), alookup nid (s_nodes y) with
              | Some a, Some b => device_books_kept a b
              | None, None => True
              | _, _ => False
              end.

Lemma zget_nonzero_amem g (m : amap Z) : zget g m <> 0 -> amem g m = true.
Proof. unfold zget, amem. destruct (alookup g m); [reflexivity|congruence]. Qed.

Lemma forallb_ext_in {A} (f g : A -> bool) l : (forall x, In x l -> f x = g x) -> forallb f l = forallb g l.
Proof.
  induction l as [|x r IH]; intros H; [reflexivity|]. cbn. rewrite (H x (or_introl eq_refl)).
  rewrite IH; [reflexivity|]. intros y Hy. apply H. right. exact Hy.
Qed.

Lemma res_eq_of a b : eq_nogpu a b -> gpu a = gpu b -> a = b.
Proof. destruct a, b. unfold eq_nogpu. cbn. intros (?&?&?&?&?) ?. subst. reflexivity. Qed.

Lemma neq_device_books a b : neq a b -> device_books_kept a b.
Proof.
  intros ((Ea & Eu & Ep & Ei & Er & G) & En & Em).
  assert (Et : tasks_of a = tasks_of b) by (unfold tasks_of; rewrite Ep; reflexivity).
  split; [exact Ep|]. split; [exact En|]. split; [exact Em|]. split; [exact Ea|]. split; [exact G|].
  split; [intros g; rewrite Et; reflexivity|]. split; [rewrite Et; reflexivity|].
  assert (EI : forall m g, zget g (g_alloc a) <> 0 -> enough_idle_on_gpu a m g = enough_idle_on_gpu b m g).
  { intros m g Hz. unfold enough_idle_on_gpu. destruct (G g) as (_ & Ga & _).
    rewrite (zget_nonzero_amem g (g_alloc a) Hz). rewrite Ga in Hz. rewrite (zget_nonzero_amem g (g_alloc b) Hz).
    rewrite Ga, Em. reflexivity. }
  split; [exact EI|].
  split.
  { intros m g. unfold fits_gpu_group, enough_on_gpu. destruct (G g) as (Gu & Ga & Gr). rewrite Gu, Ga, Gr, Em. reflexivity. }
  intros Eg t gs. pose proof (res_eq_of _ _ Ei Eg) as EI'.
  unfold Run.Cycle.bind_guard. destruct (is_shared t) eqn:Sh.
  - assert (F1 : filter (fun g => zget g (g_alloc a) =? 0) gs = filter (fun g => zget g (g_alloc b) =? 0) gs).
    { apply filter_ext. intros g. destruct (G g) as (_ & Ga & _). rewrite Ga. reflexivity. }
    assert (F2 : filter (fun g => negb (zget g (g_alloc a) =? 0)) gs = filter (fun g => negb (zget g (g_alloc b) =? 0)) gs).
    { apply filter_ext. intros g. destruct (G g) as (_ & Ga & _). rewrite Ga. reflexivity. }
    rewrite F1, <- F2, EI'.
    rewrite (forallb_ext_in (enough_idle_on_gpu a (t_gmem t)) (enough_idle_on_gpu b (t_gmem t))); [reflexivity|].
    intros g Hg. apply filter_In in Hg. destruct Hg as [_ Hg]. apply EI.
    intros Z0. rewrite Z0 in Hg. discriminate.
  - unfold is_task_allocatable, allocatable_on. rewrite EI'.
    destruct (t_besteffort t); [reflexivity|].
    unfold is_shared in Sh. destruct (t_kind t); try discriminate Sh; reflexivity.
Qed.

Lemma srel_device_books x y : srel neq x y -> sessions_device_books_kept x y.
Proof.
  intros R nid. pose proof (srel_nodes neq x y nid R) as L.
  destruct (alookup nid (s_nodes x)) as [a|], (alookup nid (s_nodes y)) as [b|]; try exact L.
  apply neq_device_books. exact L.
Qed.

(** A discarded what-if - any well-formed open statement: evictions, nominations, same-node GPU-group moves,
    un-evictions, nested checkpoints and rollbacks - leaves the device books of every node as they were. *)
Theorem discarded_whatif_keeps_device_books :
  forall (fails : nat -> bool) (S : sess) (prog : list cmd),
    s_log S = [] -> s_stuck S = false -> forallb open_cmd prog = true ->
    wf_from any_task fails [] false S (prog ++ [Discard]) = true ->
    sessions_device_books_kept S (Session.run fails S (prog ++ [Discard])).
Proof.
  intros fails S prog H1 H2 H3 H4. apply srel_device_books.
  exact (proj1 (discard_restores_partial_log fails S prog H1 H2 H3 H4)).
Qed.

(** The same for a rollback to a checkpoint: the device books are those of the session at the checkpoint. *)
Theorem rolled_back_whatif_keeps_device_books :
  forall (fails : nat -> bool) (S : sess) (prog : list cmd) (cp : nat),
    s_log S = [] -> s_stuck S = false -> forallb open_cmd prog = true ->
    wf_from any_task fails [] false S (prog ++ [Rollback cp]) = true ->
    exists x, state_at fails S prog cp = Some x
              /\ sessions_device_books_kept x (Session.run fails S (prog ++ [Rollback cp])).
Proof.
  intros fails S prog cp H1 H2 H3 H4.
  destruct (rollback_restores_partial fails S prog cp H1 H2 H3 H4) as (x & Ex & R).
  exists x. split; [exact Ex|]. apply srel_device_books. exact R.
Qed.

Theorem device_books_kept_meaning : forall a b : node,
  device_books_kept a b <->
  (n_pods a = n_pods b /\ n_ngpu a = n_ngpu b /\ n_gpumem a = n_gpumem b /\ n_alloc a = n_alloc b
   /\ (forall g, zget g (g_used a) = zget g (g_used b) /\ zget g (g_alloc a) = zget g (g_alloc b)
                 /\ zget g (g_rel a) = zget g (g_rel b))
   /\ (forall g, spec_galloc g (tasks_of a) = spec_galloc g (tasks_of b))
   /\ devices_in_use (tasks_of a) = devices_in_use (tasks_of b)
   /\ (forall m g, zget g (g_alloc a) <> 0 -> enough_idle_on_gpu a m g = enough_idle_on_gpu b m g)
   /\ (forall m g, fits_gpu_group a m g = fits_gpu_group b m g)
   /\ (gpu (n_idle a) = gpu (n_idle b) ->
       forall t gs, Run.Cycle.bind_guard a t gs = Run.Cycle.bind_guard b t gs)).
Proof. intros a b. unfold device_books_kept. tauto. Qed.

(** The world of seeded/C02-4 (2-GPU node, frac_t on device 14, frac_s on device 13, whole_w pending): the what-if
    [evict frac_s; nominate it onto device 14 of the same node; discard] is a well-formed statement containing a
    same-node GPU-group move; afterwards the node is the node it was - no idle GPU, both devices hold 50 MiB of a
    running sharer - and the replay guard refuses to bind the whole-GPU pod. *)
Theorem readme_whatif_restores_node :
  wf_from any_task nofaults [] false rw_init (whatif_prog 5 1 [14%positive]) = true
  /\ (exists o, nth_error (s_log (fst (pipeline (fst (evict rw_init 5)) 5 1 (Some [14%positive]) false))) 1 = Some o
                /\ o = OPipe 5 Releasing (Some 1%positive) [13%positive] true 1 true)
  /\ sessions_device_books_kept rw_init (whatif rw_init 5 1 [14%positive])
  /\ (let n := rw_node (whatif rw_init 5 1 [14%positive]) in
      gpu (n_idle n) = 0 /\ n_idle n = n_idle (rw_node rw_init)
      /\ zget 13 (g_alloc n) = 50 /\ zget 14 (g_alloc n) = 50
      /\ devices_in_use (tasks_of n) = 2 /\ n_ngpu n = 2
      /\ Run.Cycle.bind_guard n rw_whole [] = false).
Proof.
  split; [vm_compute; reflexivity|].
  split; [eexists; split; vm_compute; reflexivity|].
  split.
  { apply (discarded_whatif_keeps_device_books nofaults rw_init [Evict 5; Pipeline 5 1 (Some [14%positive]) false]);
      vm_compute; reflexivity. }
  cbv zeta. repeat split; vm_compute; reflexivity.
Qed.

(** NOT the code (seeded/C02-4): the undo entry of the move keeps the pod's own groups - the new group.  The same
    what-if then leaves frac_t's device 14 recorded with no memory although frac_t runs on it, and an idle GPU that
    does not exist; the guard admits the whole-GPU pod, and after that bind 3 devices are in use on a 2-GPU node: a
    device is given both to a whole-GPU pod and to a fractional pod. *)
Theorem undo_restoring_new_group_refuted :
  (exists o, nth_error (s_log (fst (pipeline_undo_new_group (fst (evict rw_init 5)) 5 1 (Some [14%positive]) false))) 1 = Some o
             /\ o = OPipe 5 Releasing (Some 1%positive) [14%positive] true 1 true)
  /\ ~ sessions_device_books_kept rw_init (whatif_undo_new_group rw_init 5 1 [14%positive])
  /\ (let n := rw_node (whatif_undo_new_group rw_init 5 1 [14%positive]) in
      n_pods n = n_pods (rw_node rw_init)
      /\ gpu (n_idle n) = 1 /\ zget 14 (g_alloc n) = 0 /\ spec_galloc 14 (tasks_of n) = 50
      /\ devices_in_use (tasks_of n) = 2 /\ n_ngpu n = 2
      /\ Run.Cycle.bind_guard n rw_whole [] = true
      /\ exists n', add_task n rw_whole = Ok n' /\ devices_in_use (tasks_of n') = 3 /\ n_ngpu n' = 2).
Proof.
  split; [eexists; split; vm_compute; reflexivity|].
  split.
  { intros H. unfold sessions_device_books_kept in H. specialize (H 1%positive).
    assert (E1 : alookup 1%positive (s_nodes rw_init) = Some (rw_node rw_init)) by (vm_compute; reflexivity).
    assert (E2 : alookup 1%positive (s_nodes (whatif_undo_new_group rw_init 5 1 [14%positive]))
                 = Some (rw_node (whatif_undo_new_group rw_init 5 1 [14%positive]))) by (vm_compute; reflexivity).
    rewrite E1, E2 in H. destruct H as (_ & _ & _ & _ & G & _). specialize (G 14%positive). destruct G as (_ & G & _).
    vm_compute in G. discriminate G. }
  cbv zeta. repeat split; try (vm_compute; reflexivity).
  eexists. split; [vm_compute; reflexivity|]. split; vm_compute; reflexivity.
Qed.
