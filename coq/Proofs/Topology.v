(** Proofs for Model/Topology.v: whatever the fit/ordering oracle and the
    task-placement oracle do, the pods a successful nested allocation places
    for a (sub-)group with a required topology level lie, together with an
    already active pod of the group, in one domain of that level - for every
    group of the tree at once - provided the "."-joined domain ids are
    injective on the label vectors of the session's nodes.  Without that
    proviso the statement is false (Properties/C04.v carries the witness). *)
From Coq Require Import List String ZArith Bool Lia PeanoNat.
From KaiV Require Import Model.Placement Model.Topology Proofs.Placement.
Import ListNotations.
Open Scope string_scope.
Open Scope list_scope.
Set Default Timeout 60.

(** * Lists *)

Lemma first_ok_some : forall {A} (f : list string -> option A) sets a,
  first_ok f sets = Some a -> exists s, In s sets /\ f s = Some a.
Proof.
  intros A f sets a. induction sets as [|s r IH]; cbn; intro H; [discriminate |].
  destruct (f s) as [a'|] eqn:Hf.
  - inversion H. subst a'. exists s. split; [left; reflexivity | exact Hf].
  - destruct (IH H) as [s' [Hin Hs]]. exists s'. split; [right; exact Hin | exact Hs].
Qed.

Lemma subselect_in : forall orc cands s, In s (subselect orc cands) -> exists c, In c cands /\ incl s c.
Proof.
  intros orc cands s H. unfold subselect in H. apply in_flat_map in H. destruct H as [[i keep] [_ H]]. cbn [fst snd] in H.
  destruct (nth_error cands i) as [c|] eqn:Hn; [| contradiction].
  destruct H as [H | []]. subst s. exists c. split; [eapply nth_error_In; exact Hn |].
  intros x Hx. apply filter_In in Hx. exact (proj1 Hx).
Qed.

Lemma nodup_app_disj : forall {A} (a b : list A) x, NoDup (a ++ b) -> In x a -> In x b -> False.
Proof.
  intros A a. induction a as [|y r IH]; intros b x Hnd Ha Hb; [contradiction |].
  cbn in Hnd. inversion Hnd as [|? ? Hnotin Hnd']. subst. destruct Ha as [Heq | Ha].
  - subst y. apply Hnotin. apply in_or_app. right. exact Hb.
  - eapply IH; eassumption.
Qed.

Lemma nodup_app_l : forall {A} (a b : list A), NoDup (a ++ b) -> NoDup a.
Proof.
  intros A a. induction a as [|y r IH]; intros b H; [constructor |].
  cbn in H. inversion H as [|? ? Hnotin Hnd]. subst. constructor.
  - intro Hin. apply Hnotin. apply in_or_app. left. exact Hin.
  - eapply IH. exact Hnd.
Qed.

Lemma nodup_app_r : forall {A} (a b : list A), NoDup (a ++ b) -> NoDup b.
Proof.
  intros A a. induction a as [|y r IH]; intros b H; [exact H |].
  cbn in H. inversion H. subst. eapply IH. eassumption.
Qed.

Lemma entries_app : forall ms a b, entries ms (a ++ b) = entries ms a ++ entries ms b.
Proof. intros. unfold entries. apply filter_app. Qed.

Lemma entries_none : forall ms l, (forall e, In e l -> ~ In (fst e) ms) -> entries ms l = [].
Proof.
  intros ms l H. unfold entries. induction l as [|e r IH]; [reflexivity |]. cbn.
  destruct (mem_pos (fst e) ms) eqn:Hm.
  - exfalso. apply (H e); [left; reflexivity | apply mem_pos_In; exact Hm].
  - apply IH. intros e' Hin. apply H. right. exact Hin.
Qed.

Lemma entries_in : forall ms l e, In e (entries ms l) -> In e l /\ In (fst e) ms.
Proof.
  intros ms l e H. unfold entries in H. apply filter_In in H. destruct H as [H1 H2]. split; [exact H1 | apply mem_pos_In; exact H2].
Qed.

(** * Vectors, ids, levels *)

Lemma firstn_shrink : forall (l j : nat) (v w : list string),
  l <= j -> firstn (S j) v = firstn (S j) w -> firstn (S l) v = firstn (S l) w.
Proof.
  intros l j v w Hle H.
  assert (Hv : firstn (S l) v = firstn (S l) (firstn (S j) v)) by (rewrite firstn_firstn; f_equal; lia).
  assert (Hw : firstn (S l) w = firstn (S l) (firstn (S j) w)) by (rewrite firstn_firstn; f_equal; lia).
  rewrite Hv, Hw, H. reflexivity.
Qed.

Lemma idx_of_lt : forall name levels i, idx_of name levels = Some i -> i < List.length levels /\ In name levels.
Proof.
  intros name levels. induction levels as [|l r IH]; intros i H; cbn in H; [discriminate |].
  destruct (String.eqb l name) eqn:He.
  - inversion H. subst. apply String.eqb_eq in He. subst. cbn. split; [lia | left; reflexivity].
  - destruct (idx_of name r) as [k|]; [| discriminate]. inversion H. subst. destruct (IH k eq_refl) as [H1 H2].
    cbn. split; [lia | right; exact H2].
Qed.

Lemma in_down_from : forall hi lo rf, In rf (down_from hi lo) -> exists j, rf = Some j /\ lo <= j /\ j <= hi.
Proof.
  intros hi lo rf H. unfold down_from in H. apply in_map_iff in H. destruct H as [j [Heq Hin]].
  apply in_rev in Hin. apply in_seq in Hin. exists j. split; [symmetry; exact Heq | lia].
Qed.

(** with a required level of index [l], every scanned level is at least as fine *)
Lemma rel_levels_ge : forall levels req pref l lv,
  ~ In "root" levels -> req <> "" -> idx_of req levels = Some l ->
  rel_levels levels req pref = Some lv ->
  forall rf, In rf lv -> exists j, rf = Some j /\ l <= j /\ j < List.length levels.
Proof.
  intros levels req pref l lv Hroot Hreq Hidx H rf Hin.
  destruct (idx_of_lt _ _ _ Hidx) as [Hlt Hinl].
  assert (Hnr : String.eqb req "root" = false).
  { apply String.eqb_neq. intro Heq. subst req. contradiction. }
  unfold rel_levels in H. apply String.eqb_neq in Hreq. rewrite Hreq in H.
  unfold ref_of in H. rewrite Hnr, Hidx in H. cbn [option_map] in H.
  destruct (String.eqb pref "") eqn:Hp.
  - inversion H. subst lv. destruct Hin as [Heq | []]. subst rf. exists l. split; [reflexivity | lia].
  - destruct (String.eqb pref "root"); [discriminate |].
    destruct (idx_of pref levels) as [p|] eqn:Hpi; cbn [option_map] in H; [| discriminate].
    destruct (Nat.leb l p) eqn:Hle; [| discriminate]. inversion H. subst lv.
    apply in_down_from in Hin. destruct Hin as [j [Heq [H1 H2]]]. exists j. split; [exact Heq |].
    destruct (idx_of_lt _ _ _ Hpi) as [Hplt _]. lia.
Qed.

Lemma rel_levels_req_found : forall levels req pref lv,
  req <> "" -> rel_levels levels req pref = Some lv -> ref_of levels req <> None.
Proof.
  intros levels req pref lv Hreq H Hnone. unfold rel_levels in H. apply String.eqb_neq in Hreq. rewrite Hreq, Hnone in H.
  destruct (String.eqb pref ""); discriminate.
Qed.

Lemma vecs_of_in : forall levels nodes nm v,
  In (nm, v) (vecs_of levels nodes) <-> exists n, In n nodes /\ nd_name n = nm /\ node_vec levels (nd_labels n) = Some v.
Proof.
  intros levels nodes nm v. unfold vecs_of. rewrite in_flat_map. split.
  - intros [n [Hin H]]. destruct (node_vec levels (nd_labels n)) as [v'|] eqn:Hv; [| contradiction].
    destruct H as [H | []]. inversion H. subst. exists n. repeat split; assumption.
  - intros [n [Hin [Hn Hv]]]. exists n. split; [exact Hin |]. rewrite Hv. left. subst nm. reflexivity.
Qed.

Lemma find_by_name : forall nodes n,
  NoDup (map nd_name nodes) -> In n nodes -> find (fun x => String.eqb (nd_name x) (nd_name n)) nodes = Some n.
Proof.
  induction nodes as [|m r IH]; intros n Hnd Hin; [contradiction |].
  cbn in Hnd. inversion Hnd as [|? ? Hnotin Hnd']. subst. cbn.
  destruct (String.eqb (nd_name m) (nd_name n)) eqn:He.
  - destruct Hin as [Heq | Hin]; [subst; reflexivity |].
    apply String.eqb_eq in He. exfalso. apply Hnotin. rewrite He. apply in_map. exact Hin.
  - destruct Hin as [Heq | Hin]; [subst; rewrite String.eqb_refl in He; discriminate |].
    apply IH; assumption.
Qed.

Lemma nodes_of_in : forall vecs j id nm,
  In nm (nodes_of vecs (Some j) id) -> exists v, In (nm, v) vecs /\ dom_id j v = id.
Proof.
  intros vecs j id nm H. cbn in H. apply in_map_iff in H. destruct H as [[nm' v] [Heq Hin]]. cbn in Heq. subst nm'.
  apply filter_In in Hin. destruct Hin as [Hin He]. cbn in He. apply String.eqb_eq in He. exists v. split; assumption.
Qed.

Lemma dom_id_firstn : forall i v w, firstn (S i) v = firstn (S i) w -> dom_id i v = dom_id i w.
Proof. intros i v w H. unfold dom_id. rewrite H. reflexivity. Qed.

Section Sound.
  Variable topos : list topo.
  Variable nodes : list pnode.
  Hypothesis Hwf : forall T, In T topos -> topo_wf T.
  Hypothesis Hinj : IdsInjective topos nodes.
  Hypothesis Hnames : NoDup (map nd_name nodes).

  Lemma vec_of_node_vecs : forall T nm v, In (nm, v) (vecs_of (tp_levels T) nodes) -> vec_of_node T nodes nm = Some v.
  Proof.
    intros T nm v H. apply vecs_of_in in H. destruct H as [n [Hin [Hn Hv]]]. unfold vec_of_node.
    subst nm. rewrite (find_by_name _ _ Hnames Hin). exact Hv.
  Qed.

  Lemma inj_vecs : forall T i nm v nm' w, In T topos -> i < List.length (tp_levels T) ->
    In (nm, v) (vecs_of (tp_levels T) nodes) -> In (nm', w) (vecs_of (tp_levels T) nodes) ->
    dom_id i v = dom_id i w -> firstn (S i) v = firstn (S i) w.
  Proof.
    intros T i nm v nm' w HT Hi Hv Hw Heq. apply vecs_of_in in Hv. apply vecs_of_in in Hw.
    destruct Hv as [n [Hn [_ Hnv]]]. destruct Hw as [m [Hm [_ Hmw]]].
    exact (Hinj T n m v w i HT Hn Hm Hi Hnv Hmw Heq).
  Qed.

  (** everything in the sub-tree of a level-[l] domain still has that domain's id at level [l] *)
  Lemma reach_sound : forall T l idr g id', In T topos -> l + g < List.length (tp_levels T) ->
    In id' (reach (vecs_of (tp_levels T) nodes) l idr g) ->
    forall nm w, In (nm, w) (vecs_of (tp_levels T) nodes) -> dom_id (l + g) w = id' -> dom_id l w = idr.
  Proof.
    intros T l idr g. induction g as [|g IH]; intros id' HT Hlt Hin nm w Hw Hid; cbn in Hin.
    - destruct Hin as [Heq | []]. subst id'. rewrite Nat.add_0_r in Hid. exact Hid.
    - apply in_flat_map in Hin. destruct Hin as [id1 [Hr Hc]].
      unfold children in Hc. apply in_map_iff in Hc. destruct Hc as [[nm0 v] [Heq Hf]]. cbn [snd] in Heq.
      apply filter_In in Hf. destruct Hf as [Hv He]. cbn [snd] in He. apply String.eqb_eq in He.
      assert (Hsame : firstn (S (S (l + g))) w = firstn (S (S (l + g))) v).
      { eapply inj_vecs with (i := S (l + g)); [exact HT | lia | exact Hw | exact Hv |].
        rewrite <- Heq in Hid. replace (l + S g) with (S (l + g)) in Hid by lia. exact Hid. }
      assert (Hprev : dom_id (l + g) w = id1).
      { rewrite <- He. apply dom_id_firstn. eapply firstn_shrink; [| exact Hsame]. lia. }
      eapply IH; [exact HT | lia | exact Hr | exact Hw | exact Hprev].
  Qed.

  (** the candidate node sets of a constraint with required level [l] *)
  Lemma cands_sound : forall T c l lv allowed an rf id,
    In T topos -> tc_req c <> "" -> idx_of (tc_req c) (tp_levels T) = Some l ->
    rel_levels (tp_levels T) (tc_req c) (tc_pref c) = Some lv ->
    In rf lv ->
    In id (relevant_ids (vecs_of (tp_levels T) nodes) (tp_levels T) (tc_req c) an rf) ->
    let vecs := vecs_of (tp_levels T) nodes in
    let valid := filter (fun nm => mem_str nm (map fst vecs)) allowed in
    let CS := filter (fun nm => mem_str nm valid) (nodes_of vecs rf id) in
    incl CS allowed
    /\ InOneDomain T nodes l CS
    /\ (an <> [] -> exists a, In a an /\ InOneDomain T nodes l (a :: CS)).
  Proof.
    intros T c l lv allowed an rf id HT Hreq Hidx Hrel Hrf Hid vecs valid CS.
    destruct (Hwf T HT) as [Hnd Hroot].
    destruct (rel_levels_ge _ _ _ _ _ Hroot Hreq Hidx Hrel rf Hrf) as [j [Hj [Hlj Hjlt]]]. subst rf.
    assert (Hincl : incl CS allowed).
    { intros x Hx. apply filter_In in Hx. destruct Hx as [_ Hx]. apply mem_str_In in Hx.
      apply filter_In in Hx. exact (proj1 Hx). }
    split; [exact Hincl |].
    assert (Hnr : String.eqb (tc_req c) "root" = false).
    { apply String.eqb_neq. intro Heq. destruct (idx_of_lt _ _ _ Hidx) as [_ Hin]. rewrite Heq in Hin. contradiction. }
    assert (Href : ref_of (tp_levels T) (tc_req c) = Some (Some l)).
    { unfold ref_of. rewrite Hnr, Hidx. reflexivity. }
    assert (HS : forall nm, In nm CS -> exists w, In (nm, w) vecs /\ dom_id j w = id).
    { intros nm Hnm. apply filter_In in Hnm. destruct Hnm as [Hnm _]. apply nodes_of_in in Hnm. exact Hnm. }
    unfold relevant_ids in Hid. apply String.eqb_neq in Hreq.
    destruct an as [|a0 ar].
    - (* no active pod: every domain of the level *)
      split; [| intro H; contradiction].
      cbv beta iota in Hid. unfold ids_at in Hid. apply in_map_iff in Hid. destruct Hid as [[nm0 v0] [Heq Hv0]]. cbn [snd] in Heq.
      exists (firstn (S l) v0). intros nm Hnm. destruct (HS nm Hnm) as [w [Hw Hdw]].
      exists w. split; [apply vec_of_node_vecs; exact Hw |].
      eapply firstn_shrink; [exact Hlj |]. eapply inj_vecs; [exact HT | exact Hjlt | exact Hw | exact Hv0 |].
      rewrite Hdw, Heq. reflexivity.
    - (* pinned by the active pods *)
      rewrite Hreq, Href in Hid. fold vecs in Hid.
      assert (Hle : Nat.leb l j = true) by (apply Nat.leb_le; exact Hlj). rewrite Hle in Hid.
      apply in_flat_map in Hid. destruct Hid as [idr [Hidr Hid]].
      destruct (existsb (fun a => mem_str a (nodes_of vecs (Some l) idr)) (a0 :: ar)) eqn:Hex; [| contradiction].
      apply existsb_exists in Hex. destruct Hex as [a [Ha Hain]]. apply mem_str_In in Hain.
      apply nodes_of_in in Hain. destruct Hain as [va [Hva Hda]].
      assert (Hall : forall nm, In nm CS -> exists w, vec_of_node T nodes nm = Some w /\ firstn (S l) w = firstn (S l) va).
      { intros nm Hnm. destruct (HS nm Hnm) as [w [Hw Hdw]]. exists w. split; [apply vec_of_node_vecs; exact Hw |].
        destruct (idx_of_lt _ _ _ Hidx) as [Hllt _].
        eapply inj_vecs; [exact HT | exact Hllt | exact Hw | exact Hva |]. rewrite Hda.
        eapply reach_sound with (g := j - l); [exact HT | lia | exact Hid | exact Hw |].
        replace (l + (j - l)) with j by lia. exact Hdw. }
      split.
      + exists (firstn (S l) va). exact Hall.
      + intros _. exists a. split; [exact Ha |]. exists (firstn (S l) va). intros nm [Heq | Hnm].
        * subst nm. exists va. split; [apply vec_of_node_vecs; exact Hva | reflexivity].
        * apply Hall. exact Hnm.
  Qed.

  Lemma in_one_domain_incl : forall T l a b, incl a b -> InOneDomain T nodes l b -> InOneDomain T nodes l a.
  Proof. intros T l a b Hincl [pre H]. exists pre. intros nm Hin. apply H. apply Hincl. exact Hin. Qed.

  Section Oracles.
    Variable sel : option tcons -> list positive -> list string -> active_t -> list (nat * (string -> bool)).
    Variable place : list string -> positive -> active_t -> option string.
    Variable tasks : list positive.

    (** what one call of SubsetNodesFn guarantees for whatever is then placed inside the chosen set *)
    Lemma subset_nodes_ok : forall tc ms ts allowed act ns,
      In ns (subset_nodes topos nodes sel tc ms ts allowed act) ->
      incl ns allowed
      /\ forall newn, incl newn ns -> (ts = [] -> newn = []) ->
           GroupOK topos nodes tc (map snd (entries ms act)) newn.
    Proof.
      intros tc ms ts allowed act ns Hin. unfold subset_nodes, subset_cands in Hin. unfold GroupOK.
      destruct tc as [c|].
      2:{ destruct Hin as [Heq | []]. subst ns. split; [apply incl_refl | intros; exact I]. }
      destruct (String.eqb (tc_topo c) "") eqn:Htn.
      { destruct Hin as [Heq | []]. subst ns. split; [apply incl_refl | intros; exact I]. }
      destruct (find_topo topos (tc_topo c)) as [T|] eqn:HfT.
      2:{ unfold subselect in Hin. apply in_flat_map in Hin. destruct Hin as [[i k] [_ Hin]]. cbn [fst] in Hin.
          destruct i; cbn in Hin; contradiction. }
      assert (HT : In T topos). { unfold find_topo in HfT. apply find_some in HfT. exact (proj1 HfT). }
      destruct (List.length ts) eqn:Hlen.
      { (* nothing to allocate *)
        destruct Hin as [Heq | []]. subst ns. split; [apply incl_refl |].
        intros newn _ Hnil. assert (Hts : ts = []) by (destruct ts; [reflexivity | discriminate]).
        rewrite (Hnil Hts).
        destruct (String.eqb (tc_req c) ""); [exact I |].
        destruct (idx_of (tc_req c) (tp_levels T)).
        - split; [exists []; intros nm []| intros _ H; contradiction].
        - destruct (String.eqb (tc_req c) "root"); [exact I | reflexivity]. }
      destruct (rel_levels (tp_levels T) (tc_req c) (tc_pref c)) as [lv|] eqn:Hrel.
      2:{ unfold subselect in Hin. apply in_flat_map in Hin. destruct Hin as [[i k] [_ Hin]]. cbn [fst] in Hin.
          destruct i; cbn in Hin; contradiction. }
      apply subselect_in in Hin. destruct Hin as [cand [Hc Hsub]].
      apply in_flat_map in Hc. destruct Hc as [rf [Hrf Hc]]. apply in_map_iff in Hc. destruct Hc as [id [Heq Hid]].
      destruct (String.eqb (tc_req c) "") eqn:Hreq.
      { split; [| intros; exact I]. subst cand. intros x Hx. apply Hsub in Hx.
        apply filter_In in Hx. destruct Hx as [_ Hx]. apply mem_str_In in Hx. apply filter_In in Hx. exact (proj1 Hx). }
      apply String.eqb_neq in Hreq.
      destruct (idx_of (tc_req c) (tp_levels T)) as [l|] eqn:Hidx.
      - destruct (cands_sound T c l lv allowed (map snd (entries ms act)) rf id HT Hreq Hidx Hrel Hrf Hid) as [H1 [H2 H3]].
        rewrite Heq in H1, H2, H3. split; [eapply incl_tran; eassumption |].
        intros newn Hnew _. assert (Hnc : incl newn cand) by (eapply incl_tran; eassumption). split.
        + eapply in_one_domain_incl; eassumption.
        + intros Hact _. destruct (H3 Hact) as [a [Ha Hd]]. exists a. split; [exact Ha |].
          eapply in_one_domain_incl; [| exact Hd]. intros x [Hx | Hx]; [left; exact Hx | right; apply Hnc; exact Hx].
      - assert (Hinc : incl ns allowed).
        { subst cand. intros x Hx. apply Hsub in Hx.
          apply filter_In in Hx. destruct Hx as [_ Hx]. apply mem_str_In in Hx. apply filter_In in Hx. exact (proj1 Hx). }
        split; [exact Hinc |]. intros newn _ _.
        destruct (String.eqb (tc_req c) "root") eqn:Hr; [exact I |].
        exfalso. apply (rel_levels_req_found _ _ _ _ Hreq Hrel). unfold ref_of. rewrite Hr, Hidx. reflexivity.
    Qed.

    Lemma alloc_tasks_spec : forall allowed ts act act',
      alloc_tasks place allowed ts act = Some act' ->
      exists new, act' = new ++ act /\ Forall (fun e => In (snd e) allowed /\ In (fst e) ts) new.
    Proof.
      intros allowed ts. induction ts as [|t r IH]; intros act act' H; cbn in H.
      - inversion H. exists []. split; [reflexivity | constructor].
      - destruct (place allowed t act) as [n|]; [| discriminate].
        destruct (mem_str n allowed) eqn:Hm; [| discriminate]. apply mem_str_In in Hm.
        destruct (IH _ _ H) as [new [Heq Hall]]. exists (new ++ [(t, n)]). split.
        + rewrite Heq. rewrite <- app_assoc. reflexivity.
        + apply Forall_app. split.
          * eapply Forall_impl; [| exact Hall]. intros e [H1 H2]. split; [exact H1 | right; exact H2].
          * constructor; [| constructor]. cbn. split; [exact Hm | left; reflexivity].
    Qed.

    Definition new_ok (g : sgt) (allowed : list string) (new : active_t) : Prop :=
      Forall (fun e => In (snd e) allowed /\ In (fst e) (members g) /\ In (fst e) tasks) new.

    Definition groups_ok (g : sgt) (act new : active_t) : Prop :=
      forall g', In g' (subgroups g) ->
        GroupOK topos nodes (tc_of g') (map snd (entries (members g') act)) (map snd (entries (members g') new)).

    Definition sg_spec (g : sgt) : Prop :=
      forall allowed act act', NoDup (members g) ->
        alloc_sg topos nodes sel place tasks g allowed act = Some act' ->
        exists new, act' = new ++ act /\ new_ok g allowed new /\ groups_ok g act new.

    Lemma subgroups_members : forall g g', In g' (subgroups g) -> incl (members g') (members g).
    Proof.
      fix IH 1. intros g g' Hin. destruct g as [tc kids | tc ms]; cbn [subgroups] in Hin.
      - destruct Hin as [Heq | Hin]; [subst; apply incl_refl |].
        cbn [members]. induction kids as [|k r IHk]; cbn in Hin; [contradiction |].
        apply in_app_or in Hin. destruct Hin as [Hin | Hin].
        + intros x Hx. cbn. apply in_or_app. left. exact (IH k g' Hin x Hx).
        + intros x Hx. cbn. apply in_or_app. right. exact (IHk Hin x Hx).
      - destruct Hin as [Heq | []]. subst. apply incl_refl.
    Qed.

    Lemma map_snd_entries_incl : forall ms new ns, Forall (fun e => In (snd e) ns) new -> incl (map snd (entries ms new)) ns.
    Proof.
      intros ms new ns H x Hx. apply in_map_iff in Hx. destruct Hx as [e [Heq Hin]]. subst x.
      apply entries_in in Hin. rewrite Forall_forall in H. apply H. exact (proj1 Hin).
    Qed.

    (** the children of a set, one after the other *)
    Lemma seq_alloc_spec : forall kids ns a a',
      Forall sg_spec kids -> NoDup (flat_map members kids) ->
      seq_alloc (alloc_sg topos nodes sel place tasks) kids ns a = Some a' ->
      exists new, a' = new ++ a
        /\ Forall (fun e => In (snd e) ns /\ In (fst e) (flat_map members kids) /\ In (fst e) tasks) new
        /\ forall k, In k kids -> groups_ok k a new.
    Proof.
      induction kids as [|k r IH]; intros ns a a' Hspec Hnd H; cbn in H.
      - inversion H. exists []. split; [reflexivity | split; [constructor | intros k []]].
      - inversion Hspec as [|? ? Hk Hr]. subst. cbn in Hnd.
        destruct (alloc_sg topos nodes sel place tasks k ns a) as [a1|] eqn:Hk1; [| discriminate].
        destruct (Hk ns a a1 (nodup_app_l _ _ Hnd) Hk1) as [new1 [Ha1 [Hn1 Hg1]]].
        destruct (IH ns a1 a' Hr (nodup_app_r _ _ Hnd) H) as [new2 [Ha' [Hn2 Hg2]]].
        exists (new2 ++ new1). split; [rewrite Ha', Ha1; apply app_assoc | split].
        + apply Forall_app. split.
          * eapply Forall_impl; [| exact Hn2]. intros e [H1 [H2 H3]]. cbn. repeat split; try assumption. apply in_or_app. right. exact H2.
          * eapply Forall_impl; [| exact Hn1]. intros e [H1 [H2 H3]]. cbn. repeat split; try assumption. apply in_or_app. left. exact H2.
        + unfold new_ok in Hn1. rewrite Forall_forall in Hn1, Hn2.
          intros k' [Heq | Hin] g' Hg'.
          * (* a group under the first child: the later children place none of its pods *)
            subst k'. pose proof (subgroups_members _ _ Hg') as Hsub.
            rewrite entries_app.
            rewrite (entries_none (members g') new2); [cbn [app]; apply Hg1; exact Hg' |].
            intros e He Hm. destruct (Hn2 e He) as [_ [Hr2 _]].
            eapply nodup_app_disj; [exact Hnd | apply Hsub; exact Hm | exact Hr2].
          * (* a group under a later child: the first child places none of its pods *)
            pose proof (subgroups_members _ _ Hg') as Hsub.
            assert (Hmk : incl (members g') (flat_map members r)).
            { intros x Hx. apply in_flat_map. exists k'. split; [exact Hin | apply Hsub; exact Hx]. }
            specialize (Hg2 k' Hin g' Hg'). rewrite Ha1, entries_app in Hg2.
            rewrite (entries_none (members g') new1) in Hg2.
            2:{ intros e He Hm. destruct (Hn1 e He) as [_ [Hk2 _]].
                eapply nodup_app_disj; [exact Hnd | exact Hk2 | apply Hmk; exact Hm]. }
            rewrite entries_app. rewrite (entries_none (members g') new1).
            2:{ intros e He Hm. destruct (Hn1 e He) as [_ [Hk2 _]].
                eapply nodup_app_disj; [exact Hnd | exact Hk2 | apply Hmk; exact Hm]. }
            rewrite app_nil_r. exact Hg2.
    Qed.

    Lemma filter_tasks_nil : forall ms (new : active_t),
      filter (fun t => mem_pos t ms) tasks = [] ->
      Forall (fun e => In (fst e) ms /\ In (fst e) tasks) new -> new = [].
    Proof.
      intros ms new Hnil H. destruct new as [|e r]; [reflexivity |]. inversion H as [|? ? [H1 H2] _]. subst.
      assert (Hin : In (fst e) (filter (fun t => mem_pos t ms) tasks)).
      { apply filter_In. split; [exact H2 | apply mem_pos_In; exact H1]. }
      rewrite Hnil in Hin. contradiction.
    Qed.

    Lemma alloc_sg_spec : forall g, sg_spec g.
    Proof.
      fix IH 1. intros g. destruct g as [tc kids | tc ms]; unfold sg_spec; intros allowed act act' Hnd H; cbn [alloc_sg] in H.
      - (* a sub-group set *)
        apply first_ok_some in H. destruct H as [ns [Hns H]].
        assert (Hkids : Forall sg_spec kids).
        { clear - IH. induction kids as [|k r IHk]; constructor; [apply IH | exact IHk]. }
        cbn [members] in Hnd.
        destruct (seq_alloc_spec kids ns act act' Hkids Hnd H) as [new [Hact [Hnew Hgs]]].
        destruct (subset_nodes_ok _ _ _ _ _ _ Hns) as [Hincl Hgrp].
        exists new. split; [exact Hact | split].
        + unfold new_ok. cbn [members]. eapply Forall_impl; [| exact Hnew].
          intros e [H1 [H2 H3]]. repeat split; try assumption. apply Hincl. exact H1.
        + intros g' Hg'. cbn [subgroups] in Hg'. destruct Hg' as [Heq | Hg'].
          * subst g'. cbn [tc_of members]. apply Hgrp.
            -- apply map_snd_entries_incl. eapply Forall_impl; [| exact Hnew]. intros e [H1 _]. exact H1.
            -- intro Hts. rewrite (filter_tasks_nil (flat_map members kids) new Hts); [reflexivity |].
               eapply Forall_impl; [| exact Hnew]. intros e [_ [H2 H3]]. split; assumption.
          * apply in_flat_map in Hg'. destruct Hg' as [k [Hk Hg']]. apply (Hgs k Hk g' Hg').
      - (* a pod set *)
        apply first_ok_some in H. destruct H as [ns [Hns H]].
        destruct (alloc_tasks_spec _ _ _ _ H) as [new [Hact Hnew]].
        destruct (subset_nodes_ok _ _ _ _ _ _ Hns) as [Hincl Hgrp].
        assert (Hnew' : Forall (fun e => In (snd e) ns /\ In (fst e) ms /\ In (fst e) tasks) new).
        { eapply Forall_impl; [| exact Hnew]. intros e [H1 H2]. apply filter_In in H2. destruct H2 as [H2 H3].
          repeat split; [exact H1 | apply mem_pos_In; exact H3 | exact H2]. }
        exists new. split; [exact Hact | split].
        + unfold new_ok. cbn [members]. eapply Forall_impl; [| exact Hnew'].
          intros e [H1 [H2 H3]]. repeat split; try assumption. apply Hincl. exact H1.
        + intros g' Hg'. cbn [subgroups] in Hg'. destruct Hg' as [Heq | []]. subst g'. cbn [tc_of members]. apply Hgrp.
          * apply map_snd_entries_incl. eapply Forall_impl; [| exact Hnew']. intros e [H1 _]. exact H1.
          * intro Hts. rewrite (filter_tasks_nil ms new Hts); [reflexivity |].
            eapply Forall_impl; [| exact Hnew']. intros e [_ [H2 H3]]. split; assumption.
    Qed.
  End Oracles.
End Sound.

(** the statement of C04_topology_required, with and without the injectivity proviso *)
Definition topology_required_conclusion (topos : list topo) (nodes : list pnode) (tasks : list positive)
           (g : sgt) (allowed : list string) (act act' : active_t) : Prop :=
  exists new, act' = new ++ act
    /\ Forall (fun e => In (snd e) allowed /\ In (fst e) (members g) /\ In (fst e) tasks) new
    /\ forall g', In g' (subgroups g) ->
         GroupOK topos nodes (tc_of g') (map snd (entries (members g') act)) (map snd (entries (members g') new)).

Theorem topology_required_partial : forall topos nodes sel place tasks g allowed act act',
  (forall T, In T topos -> topo_wf T) -> NoDup (map nd_name nodes) -> NoDup (members g) ->
  IdsInjective topos nodes ->
  alloc_sg topos nodes sel place tasks g allowed act = Some act' ->
  topology_required_conclusion topos nodes tasks g allowed act act'.
Proof.
  intros topos nodes sel place tasks g allowed act act' Hwf Hnames Hnd Hinj H.
  exact (alloc_sg_spec topos nodes Hwf Hinj Hnames sel place tasks g allowed act act' Hnd H).
Qed.

(** the full-strength statement (no proviso on the domain ids) *)
Definition topology_required_statement : Prop :=
  forall topos nodes sel place tasks g allowed act act',
    (forall T, In T topos -> topo_wf T) -> NoDup (map nd_name nodes) -> NoDup (members g) ->
    alloc_sg topos nodes sel place tasks g allowed act = Some act' ->
    topology_required_conclusion topos nodes tasks g allowed act act'.

(** * The decidable form of the proviso *)

Lemma list_str_eqb_eq : forall a b, list_str_eqb a b = true -> a = b.
Proof.
  induction a as [|x r IH]; intros [|y s] H; cbn in H; try discriminate; [reflexivity |].
  apply andb_true_iff in H. destruct H as [H1 H2]. apply String.eqb_eq in H1. subst y. f_equal. apply IH. exact H2.
Qed.

Lemma ids_injective_b_sound : forall topos nodes, ids_injective_b topos nodes = true -> IdsInjective topos nodes.
Proof.
  intros topos nodes H T n m v w i HT Hn Hm Hi Hv Hw Heq.
  unfold ids_injective_b in H. rewrite forallb_forall in H. specialize (H T HT). cbv zeta in H.
  rewrite forallb_forall in H.
  assert (Hnv : In (nd_name n, v) (vecs_of (tp_levels T) nodes)) by (apply vecs_of_in; exists n; repeat split; assumption).
  assert (Hmw : In (nd_name m, w) (vecs_of (tp_levels T) nodes)) by (apply vecs_of_in; exists m; repeat split; assumption).
  specialize (H _ Hnv). rewrite forallb_forall in H. specialize (H _ Hmw). rewrite forallb_forall in H.
  assert (Hi' : In i (seq 0 (List.length (tp_levels T)))) by (apply in_seq; lia).
  specialize (H i Hi'). cbn [snd] in H. rewrite Heq, String.eqb_refl in H. cbn in H.
  apply list_str_eqb_eq. exact H.
Qed.

(** * Examples *)

(** at most two pods per node: the first allowed node with room *)
Definition ex_place (allowed : list string) (_ : positive) (act : active_t) : option string :=
  find (fun n => Nat.ltb (List.length (filter (String.eqb n) (map snd act))) 2) allowed.
Definition ex_sel_all (_ : option tcons) (_ : list positive) (_ : list string) (_ : active_t) : list (nat * (string -> bool)) :=
  map (fun i => (i, fun _ : string => true)) (seq 0 8).

Definition mk_tn (name zone rack : string) : pnode := mkPNode name [("zone", zone); ("rack", rack)] [] false [].
Definition ex_T := mkTopo "T" ["zone"; "rack"].

(** two zones, racks r1 {n1,n2}, r2 {n3} in zone z1, r3 {n4,n5} in zone z2; n6 lacks the rack label *)
Definition ex_tnodes : list pnode :=
  [mk_tn "n1" "z1" "r1"; mk_tn "n2" "z1" "r1"; mk_tn "n3" "z1" "r2"; mk_tn "n4" "z2" "r3"; mk_tn "n5" "z2" "r3";
   mkPNode "n6" [("zone", "z1")] [] false []].
(** job: required zone; sub-group A (pods 1,2) required rack; sub-group B (pod 3) free; pod 9 of A already runs on n4 *)
Definition ex_tree : sgt :=
  SG (Some (mkTC "T" "zone" "")) [PSet (Some (mkTC "T" "rack" "")) [1; 2; 9]%positive; PSet None [3%positive]].
Definition ex_names := map nd_name ex_tnodes.

Lemma ex_topology_run :
  (forall T, In T [ex_T] -> topo_wf T) /\ NoDup (map nd_name ex_tnodes) /\ NoDup (members ex_tree)
  /\ IdsInjective [ex_T] ex_tnodes
  /\ alloc_sg [ex_T] ex_tnodes ex_sel_all ex_place [1; 2; 3]%positive ex_tree ex_names []
     = Some [(3%positive, "n2"); (2%positive, "n1"); (1%positive, "n1")]
  (* pod 9 of sub-group A already runs on n4: everything is pinned to zone z2 / rack r3 *)
  /\ alloc_sg [ex_T] ex_tnodes ex_sel_all ex_place [1; 2; 3]%positive ex_tree ex_names [(9%positive, "n4")]
     = Some [(3%positive, "n5"); (2%positive, "n5"); (1%positive, "n4"); (9%positive, "n4")]
  (* pod 9 runs on a node outside the topology: nothing can be placed *)
  /\ alloc_sg [ex_T] ex_tnodes ex_sel_all ex_place [1; 2; 3]%positive ex_tree ex_names [(9%positive, "n6")] = None
  (* a topology that does not exist: no candidate at all *)
  /\ subset_cands [ex_T] ex_tnodes (Some (mkTC "U" "rack" "")) [1%positive] 1 ex_names [] = SNSets [].
Proof.
  split; [| split; [| split; [| split; [| split; [| split; [| split]]]]]].
  - intros T [Heq | []]. subst T. split.
    + repeat constructor; cbn; intuition discriminate.
    + cbn. intuition discriminate.
  - cbn. repeat constructor; cbn; intuition discriminate.
  - cbn. repeat constructor; cbn; intuition discriminate.
  - apply ids_injective_b_sound. vm_compute. reflexivity.
  - vm_compute. reflexivity.
  - vm_compute. reflexivity.
  - vm_compute. reflexivity.
  - vm_compute. reflexivity.
Qed.

(** the witness against the full-strength statement: label values with dots *)
Definition dot_nodes : list pnode := [mk_tn "n1" "a.b" "c"; mk_tn "n2" "a" "b.c"].
Definition dot_tree : sgt := PSet (Some (mkTC "T" "rack" "")) [1; 2]%positive.
Definition one_per_node (allowed : list string) (_ : positive) (act : active_t) : option string :=
  find (fun n => negb (mem_str n (map snd act))) allowed.

Lemma dot_run :
  alloc_sg [ex_T] dot_nodes ex_sel_all one_per_node [1; 2]%positive dot_tree ["n1"; "n2"] []
  = Some [(2%positive, "n2"); (1%positive, "n1")].
Proof. vm_compute. reflexivity. Qed.

Theorem topology_required_refuted : ~ topology_required_statement.
Proof.
  intro H.
  assert (Hwf : forall T, In T [ex_T] -> topo_wf T).
  { intros T [Heq | []]. subst T. split; [repeat constructor; cbn; intuition discriminate | cbn; intuition discriminate]. }
  assert (Hn : NoDup (map nd_name dot_nodes)) by (cbn; repeat constructor; cbn; intuition discriminate).
  assert (Hm : NoDup (members dot_tree)) by (cbn; repeat constructor; cbn; intuition discriminate).
  destruct (H [ex_T] dot_nodes ex_sel_all one_per_node [1; 2]%positive dot_tree ["n1"; "n2"] [] _ Hwf Hn Hm dot_run)
    as [new [Heq [_ Hg]]].
  rewrite app_nil_r in Heq. subst new.
  specialize (Hg dot_tree (or_introl eq_refl)).
  unfold GroupOK, tc_of, dot_tree in Hg. cbn in Hg. destruct Hg as [[pre Hpre] _].
  destruct (Hpre "n2" (or_introl eq_refl)) as [v2 [Hv2 Hp2]].
  destruct (Hpre "n1" (or_intror (or_introl eq_refl))) as [v1 [Hv1 Hp1]].
  vm_compute in Hv1. vm_compute in Hv2. inversion Hv1. inversion Hv2. subst v1 v2.
  rewrite <- Hp1 in Hp2. vm_compute in Hp2. discriminate.
Qed.
