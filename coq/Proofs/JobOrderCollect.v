(** Proofs about the job collection of a cycle (Model/JobOrder.v [initialize],
    Model/JobOrderSpec.v [eligible] / [eligible_of]): jobs of a missing queue, of a
    queue whose parent is missing, or of a non-leaf queue ("ghosts") are skipped one
    by one and leave no trace; what a leaf queue holds after the collection is a
    function of the set of eligible jobs of that leaf alone (not of the iteration
    order, not of the other jobs); a collection that stops at the first ghost is
    refuted on [low; ghost; high]. *)
From Coq Require Import List ZArith Bool Lia Permutation Sorted.
From KaiV Require Import Model.JobOrder Model.JobOrderSpec Proofs.JobOrder.
Import ListNotations.
Set Default Timeout 60.
Open Scope Z_scope.

(** * List facts *)
Lemma filter_perm : forall {A} (f : A -> bool) l l', Permutation l l' -> Permutation (filter f l) (filter f l').
Proof.
  intros A f l l' P. induction P as [|x l l' _ IH|x y l|l l' l'' _ IH1 _ IH2]; cbn [filter].
  - constructor.
  - destruct (f x); [now constructor|exact IH].
  - destruct (f x), (f y); try reflexivity. apply perm_swap.
  - eapply Permutation_trans; eauto.
Qed.

Lemma nodup_map_filter : forall {A B} (g : A -> B) (f : A -> bool) l,
    NoDup (map g l) -> NoDup (map g (filter f l)).
Proof.
  intros A B g f l. induction l as [|x r IH]; intros H; cbn [filter map] in *; [exact H|].
  inversion H as [|? ? Hnin Hr]; subst. destruct (f x); [|auto].
  cbn [map]. constructor; [|auto].
  intros Hin. apply Hnin. apply in_map_iff in Hin. destruct Hin as (y & Hy & Hin).
  apply in_map_iff. exists y. split; [exact Hy|]. apply filter_In in Hin. tauto.
Qed.

(** a sorted list is determined by its elements when no two of them tie *)
Section SortedUnique.
  Context {A : Type}.
  Variable less : A -> A -> bool.

  Lemma sorted_perm_eq : forall l1 l2,
      StronglySorted (not_after less) l1 -> StronglySorted (not_after less) l2 ->
      Permutation l1 l2 -> total_on less l1 -> (forall a, less a a = false) -> l1 = l2.
  Proof.
    induction l1 as [|x r IH]; intros l2 S1 S2 P Htot Hirr.
    - apply Permutation_nil in P. now subst.
    - destruct l2 as [|y s]; [apply Permutation_sym, Permutation_nil in P; discriminate|].
      inversion S1 as [|? ? Sr Fx]; subst. inversion S2 as [|? ? Ss Fy]; subst.
      assert (Hxy : x = y).
      { assert (Hx : In x (y :: s)) by (eapply Permutation_in; [exact P|now left]).
        assert (Hy : In y (x :: r)) by (eapply Permutation_in; [apply Permutation_sym; exact P|now left]).
        destruct Hx as [Hx|Hx]; [now symmetry|]. destruct Hy as [Hy|Hy]; [exact Hy|].
        rewrite Forall_forall in Fx, Fy. pose proof (Fx y Hy) as H1. pose proof (Fy x Hx) as H2.
        unfold not_after in H1, H2.
        destruct (Htot x y) as [E|[E|E]]; [now left|now right|exact E| |]; congruence. }
      subst y. f_equal. apply IH; auto.
      + eapply Permutation_cons_inv; exact P.
      + intros a b Ha Hb. apply Htot; now right.
  Qed.
End SortedUnique.

(** the [d] best of a set of jobs with distinct UIDs do not depend on the order in
    which the set is listed *)
Lemma d_best_perm : forall d xs ys,
    NoDup (map j_uid xs) -> Permutation xs ys -> d_best job_less d xs = d_best job_less d ys.
Proof.
  intros d xs ys Hnd P.
  destruct (sort_by_spec job_less job_less_strict_weak xs) as [Sx Px].
  destruct (sort_by_spec job_less job_less_strict_weak ys) as [Sy Py].
  assert (E : sort_by job_less xs = sort_by job_less ys).
  { apply (sorted_perm_eq job_less); auto.
    - eapply Permutation_trans; [apply Permutation_sym; exact Px|].
      eapply Permutation_trans; [exact P|exact Py].
    - apply job_less_total_on. eapply Permutation_NoDup; [|exact Hnd]. now apply Permutation_map.
    - exact job_less_irrefl. }
  unfold d_best. now rewrite E.
Qed.

Lemma leaf_items_empty : forall q, leaf_items jo_empty q = [].
Proof. reflexivity. Qed.

Section Collect.
  Variable qs : list qinfo.
  Variable qord : Z -> Z -> option job -> option job -> bool.
  Variable depth : Z.

  (** ** ghosts are skipped one by one *)
  Lemma initialize_ghost_free : forall jobs st,
      initialize qs qord depth st jobs = initialize qs qord depth st (ghost_free qs jobs).
  Proof.
    induction jobs as [|j r IH]; intros st; cbn [initialize ghost_free filter]; [reflexivity|].
    unfold eligible at 1. destruct (queue_ok qs (j_queue j)) eqn:E.
    - cbn [initialize]. rewrite E.
      destruct (push_job qs qord depth st j); cbn [bind]; [apply IH|reflexivity|reflexivity].
    - apply IH.
  Qed.

  Lemma initialize_same_eligible : forall l1 l2 st,
      ghost_free qs l1 = ghost_free qs l2 ->
      initialize qs qord depth st l1 = initialize qs qord depth st l2.
  Proof. intros l1 l2 st H. rewrite (initialize_ghost_free l1), (initialize_ghost_free l2). now rewrite H. Qed.

  Lemma ghost_free_insert : forall l1 g l2,
      eligible qs g = false -> ghost_free qs (l1 ++ g :: l2) = ghost_free qs (l1 ++ l2).
  Proof.
    intros l1 g l2 Hg. unfold ghost_free. rewrite !filter_app. cbn [filter]. now rewrite Hg.
  Qed.

  Section Run.
    Context {C : Type}.
    Variable attempt : job -> C -> option (C * option job).

    (** the whole action - every pop, every attempt, every decision, in order - is
        the action on the ghost-free input *)
    Theorem allocate_ghost_free : forall fuel jobs c,
        allocate qs qord depth attempt fuel jobs c = allocate qs qord depth attempt fuel (ghost_free qs jobs) c.
    Proof. intros. unfold allocate. now rewrite initialize_ghost_free. Qed.

    Theorem allocate_same_eligible : forall fuel l1 l2 c,
        ghost_free qs l1 = ghost_free qs l2 ->
        allocate qs qord depth attempt fuel l1 c = allocate qs qord depth attempt fuel l2 c.
    Proof. intros fuel l1 l2 c H. rewrite (allocate_ghost_free fuel l1), (allocate_ghost_free fuel l2). now rewrite H. Qed.

    Theorem allocate_ghost_anywhere : forall fuel l1 g l2 c,
        eligible qs g = false ->
        allocate qs qord depth attempt fuel (l1 ++ g :: l2) c = allocate qs qord depth attempt fuel (l1 ++ l2) c.
    Proof. intros. apply allocate_same_eligible. now apply ghost_free_insert. Qed.
  End Run.

  (** ** what a leaf queue holds after the collection *)
  (** the heap of leaf [q] is the bounded PriorityQueue after pushing the eligible
      jobs of [q], in the order in which they are met *)
  Lemma initialize_leaf : forall jobs st st',
      initialize qs qord depth st jobs = Ok st' ->
      forall q, pq_push_all job_less depth (leaf_items st q) (eligible_of qs q jobs) = Ok (leaf_items st' q).
  Proof.
    induction jobs as [|j r IH]; intros st st' H q; cbn [initialize] in H.
    - inversion H; subst. reflexivity.
    - unfold eligible_of. cbn [filter]. fold (eligible_of qs q r). unfold eligible at 1.
      destruct (queue_ok qs (j_queue j)) eqn:Eok.
      + destruct (push_job qs qord depth st j) as [st1| |] eqn:Ep; cbn [bind] in H; try discriminate.
        destruct (push_job_leaf qs qord depth _ _ _ Ep) as [[_ (qi & Hl & Hnl)]|[Hp Hother]].
        { exfalso. unfold queue_ok in Eok. rewrite Hl, Hnl in Eok.
          destruct (qi_parent qi) as [p|]; [destruct (lookup_q qs p)|]; discriminate. }
        cbn [andb]. destruct (Z.eqb_spec (j_queue j) q) as [Eq|Ne].
        * subst q. cbn [pq_push_all]. rewrite Hp. cbn [bind]. now apply IH.
        * rewrite <- (Hother q) by congruence. now apply IH.
      + cbn [andb]. now apply IH.
  Qed.

  Hypothesis depth_ok : -1 <= depth.

  (** collected set = eligible set: leaf [q] holds exactly (as a multiset, kept as
      a heap) the [depth] best eligible jobs of [q]; with unlimited depth, all of them *)
  Theorem collected_is_eligible : forall jobs st,
      NoDup (map j_uid jobs) ->
      initialize qs qord depth jo_empty jobs = Ok st ->
      forall q, heap_ok job_less (leaf_items st q)
                /\ Permutation (leaf_items st q) (d_best job_less depth (eligible_of qs q jobs)).
  Proof.
    intros jobs st Hnd H q.
    pose proof (initialize_leaf _ _ _ H q) as Hq. rewrite leaf_items_empty in Hq.
    destruct (leaf_queue_keeps_d_best_proof depth (eligible_of qs q jobs) depth_ok) as (l & Hl & Hh & P & _).
    { unfold eligible_of. now apply nodup_map_filter. }
    rewrite Hq in Hl. inversion Hl; subst l. split; assumption.
  Qed.

  (** ... independent of the iteration order: for any two orders of the same set of
      jobs (ghosts included, anywhere), every leaf ends up holding the same jobs,
      and they are the same sorted list of jobs it will hand out *)
  Theorem collected_order_independent : forall jobs jobs' st st',
      NoDup (map j_uid jobs) -> Permutation jobs jobs' ->
      initialize qs qord depth jo_empty jobs = Ok st ->
      initialize qs qord depth jo_empty jobs' = Ok st' ->
      forall q, Permutation (leaf_items st q) (leaf_items st' q)
                /\ d_best job_less depth (eligible_of qs q jobs) = d_best job_less depth (eligible_of qs q jobs').
  Proof.
    intros jobs jobs' st st' Hnd P H H' q.
    assert (Hnd' : NoDup (map j_uid jobs')).
    { eapply Permutation_NoDup; [|exact Hnd]. now apply Permutation_map. }
    destruct (collected_is_eligible _ _ Hnd H q) as [_ P1].
    destruct (collected_is_eligible _ _ Hnd' H' q) as [_ P2].
    assert (E : d_best job_less depth (eligible_of qs q jobs) = d_best job_less depth (eligible_of qs q jobs')).
    { apply d_best_perm.
      - unfold eligible_of. now apply nodup_map_filter.
      - unfold eligible_of. now apply filter_perm. }
    split; [|exact E].
    eapply Permutation_trans; [exact P1|]. rewrite E. now apply Permutation_sym.
  Qed.
End Collect.

Theorem ghosts_never_disturb_proof :
  forall (qs : list qinfo) (qord : Z -> Z -> option job -> option job -> bool) depth
         (C : Type) (attempt : job -> C -> option (C * option job)) fuel (c : C),
    (forall jobs, allocate qs qord depth attempt fuel jobs c
                  = allocate qs qord depth attempt fuel (ghost_free qs jobs) c)
    /\ (forall l1 l2, ghost_free qs l1 = ghost_free qs l2 ->
                      allocate qs qord depth attempt fuel l1 c = allocate qs qord depth attempt fuel l2 c)
    /\ (forall l1 g l2, eligible qs g = false ->
                        allocate qs qord depth attempt fuel (l1 ++ g :: l2) c
                        = allocate qs qord depth attempt fuel (l1 ++ l2) c).
Proof.
  intros qs qord depth C attempt fuel c. split; [|split].
  - intros jobs. apply allocate_ghost_free.
  - intros l1 l2. apply allocate_same_eligible.
  - intros l1 g l2. apply allocate_ghost_anywhere.
Qed.

(** with unlimited depth: a job is collected iff it is eligible *)
Theorem collected_iff_eligible_unlimited : forall qs qord jobs st,
    NoDup (map j_uid jobs) ->
    initialize qs qord (-1) jo_empty jobs = Ok st ->
    forall j q, In j (leaf_items st q) <-> (In j jobs /\ eligible qs j = true /\ j_queue j = q).
Proof.
  intros qs qord jobs st Hnd H j q.
  destruct (collected_is_eligible qs qord (-1) ltac:(lia) jobs st Hnd H q) as [_ P].
  unfold d_best in P. cbn [Z.eqb] in P.
  destruct (sort_by_spec job_less job_less_strict_weak (eligible_of qs q jobs)) as [_ Ps].
  assert (Hiff : In j (leaf_items st q) <-> In j (eligible_of qs q jobs)).
  { split; intros Hin.
    - eapply Permutation_in; [apply Permutation_sym; exact Ps|]. eapply Permutation_in; [exact P|exact Hin].
    - eapply Permutation_in; [apply Permutation_sym; exact P|]. eapply Permutation_in; [exact Ps|exact Hin]. }
  rewrite Hiff. unfold eligible_of. rewrite filter_In, andb_true_iff, Z.eqb_eq. tauto.
Qed.

(** * The witness: a collection that stops at the first ghost *)
(** a department with one leaf queue (README world of seeded/C16-4: node with one
    GPU, queue0 with [low] / [high], resp. [young] / [old], and a ghost) *)
Definition g_qs : list qinfo :=
  [ {| qi_id := 1; qi_parent := None; qi_leaf := false |};
    {| qi_id := 2; qi_parent := Some 1; qi_leaf := true |} ].
Definition g_qord (l r : Z) (lj rj : option job) : bool := l <? r.
Definition g_low : job := mkjob 1 2 50 1.     (* priority 50, created first *)
Definition g_high : job := mkjob 2 2 60 6.    (* priority 60, created last *)
Definition g_ghost : job := mkjob 3 9 50 3.   (* its queue 9 does not exist *)
Definition g_old : job := mkjob 4 2 50 1.
Definition g_young : job := mkjob 5 2 50 6.
(** one GPU: the first job attempted takes it *)
Definition g_attempt (j : job) (c : Z) : option (Z * option job) :=
  if 1 <=? c then Some (c - 1, None) else None.

Definition all_orders3 (a b c : job) : list (list job) :=
  [[a; b; c]; [a; c; b]; [b; a; c]; [b; c; a]; [c; a; b]; [c; b; a]].

Lemma stop_at_first_ghost_refuted_proof :
  eligible g_qs g_low = true /\ eligible g_qs g_high = true /\ eligible g_qs g_ghost = false
  /\ j_queue g_low = j_queue g_high /\ j_shape g_low = j_shape g_high
  /\ job_less g_high g_low = true /\ job_less g_old g_young = true
  (* the code, every iteration order: [high] (resp. [old]) gets the GPU *)
  /\ forallb (fun l => match allocate g_qs g_qord (-1) g_attempt 10 l 1 with
                       | Ok [(a, true); (b, false)] => (j_uid a =? 2) && (j_uid b =? 1)
                       | _ => false
                       end) (all_orders3 g_low g_ghost g_high) = true
  /\ forallb (fun l => match allocate g_qs g_qord (-1) g_attempt 10 l 1 with
                       | Ok [(a, true); (b, false)] => (j_uid a =? 4) && (j_uid b =? 5)
                       | _ => false
                       end) (all_orders3 g_young g_ghost g_old) = true
  (* stopping at the first ghost, order [low; ghost; high]: [high] is never
     collected, [low] is placed *)
  /\ (exists st, initialize_stop_at_missing_queue g_qs g_qord (-1) jo_empty [g_low; g_ghost; g_high] = Ok st
                 /\ leaf_items st 2 = [g_low])
  /\ allocate_stop_at_missing_queue g_qs g_qord (-1) g_attempt 10 [g_low; g_ghost; g_high] 1 = Ok [(g_low, true)]
  /\ allocate_stop_at_missing_queue g_qs g_qord (-1) g_attempt 10 [g_young; g_ghost; g_old] 1 = Ok [(g_young, true)]
  (* so it is not the collection of the ghost-free input *)
  /\ initialize_stop_at_missing_queue g_qs g_qord (-1) jo_empty [g_low; g_ghost; g_high]
     <> initialize_stop_at_missing_queue g_qs g_qord (-1) jo_empty (ghost_free g_qs [g_low; g_ghost; g_high]).
Proof.
  repeat match goal with |- _ /\ _ => split end; try (vm_compute; reflexivity).
  - eexists. split; vm_compute; reflexivity.
  - vm_compute. discriminate.
Qed.
