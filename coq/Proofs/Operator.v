(** Proofs for C20 clause 4: when is the operator's second Deploy silent? *)
From Coq Require Import List PArith Bool Lia.
From KaiV Require Import Model.Operator.
Import ListNotations.
Set Default Timeout 60.

Section OperatorProofs.
  Variable obj : Type.
  Variable obj_eqb : obj -> obj -> bool.
  Variable own : obj -> obj.
  Variable norm : obj -> obj.
  Variable inherit : obj -> obj -> obj.
  Variable collected : positive -> obj -> bool.
  Variable unmanaged : positive -> bool.

  Notation lookup := (lookup obj).
  Notation set := (set obj).
  Notation remove := (remove obj).
  Notation has_key := (has_key obj).
  Notation cur_lookup := (cur_lookup obj collected).
  Notation rendered := (rendered obj inherit collected).
  Notation to_create := (to_create obj collected).
  Notation to_update := (to_update obj obj_eqb inherit collected).
  Notation to_delete := (to_delete obj collected unmanaged).
  Notation create_calls := (create_calls obj).
  Notation written_create := (written_create obj own norm).
  Notation written_update := (written_update obj own norm unmanaged).
  Notation apply_creates := (apply_creates obj own norm).
  Notation apply_deletes := (apply_deletes obj).
  Notation apply_updates := (apply_updates obj own norm unmanaged).
  Notation deploy_with := (deploy_with obj obj_eqb own norm inherit collected unmanaged).
  Notation deploy := (deploy obj obj_eqb own norm inherit collected unmanaged).

  (** ** association-list facts *)

  Lemma lookup_set_same : forall k v s, lookup k (set k v s) = Some v.
  Proof.
    intros k v. induction s as [|[k' v'] r IH]; cbn [Operator.set Operator.lookup].
    - rewrite Pos.eqb_refl. reflexivity.
    - destruct (Pos.eqb k' k) eqn:E; cbn [Operator.lookup].
      + rewrite Pos.eqb_refl. reflexivity.
      + rewrite E. exact IH.
  Qed.

  Lemma lookup_set_other : forall k k' v s, k' <> k -> lookup k (set k' v s) = lookup k s.
  Proof.
    intros k k' v s Hne. induction s as [|[k2 v2] r IH]; cbn [Operator.set Operator.lookup].
    - destruct (Pos.eqb k' k) eqn:E; [apply Pos.eqb_eq in E; congruence|reflexivity].
    - destruct (Pos.eqb k2 k') eqn:E2; cbn [Operator.lookup].
      + apply Pos.eqb_eq in E2. subst k2.
        destruct (Pos.eqb k' k) eqn:E; [apply Pos.eqb_eq in E; congruence|reflexivity].
      + destruct (Pos.eqb k2 k); [reflexivity|exact IH].
  Qed.

  Lemma lookup_remove_same : forall k s, lookup k (remove k s) = None.
  Proof.
    intros k. induction s as [|[k' v'] r IH]; cbn [Operator.remove Operator.lookup]; [reflexivity|].
    destruct (Pos.eqb k' k) eqn:E; [exact IH|]. cbn [Operator.lookup]. rewrite E. exact IH.
  Qed.

  Lemma lookup_remove_other : forall k k' s, k' <> k -> lookup k (remove k' s) = lookup k s.
  Proof.
    intros k k' s Hne. induction s as [|[k2 v2] r IH]; cbn [Operator.remove Operator.lookup]; [reflexivity|].
    destruct (Pos.eqb k2 k') eqn:E2.
    - apply Pos.eqb_eq in E2. subst k2.
      destruct (Pos.eqb k' k) eqn:E; [apply Pos.eqb_eq in E; congruence|exact IH].
    - cbn [Operator.lookup]. destruct (Pos.eqb k2 k); [reflexivity|exact IH].
  Qed.

  Lemma has_key_In : forall k l, has_key k l = true <-> In k (map fst l).
  Proof.
    intros k l. unfold Operator.has_key. rewrite existsb_exists. split.
    - intros ((k', v) & Hin & E). apply Pos.eqb_eq in E. cbn in E. subst k'.
      apply in_map_iff. exists (k, v). auto.
    - intro H. apply in_map_iff in H. destruct H as ((k', v) & E & Hin). cbn in E. subst k'.
      exists (k, v). split; [exact Hin|apply Pos.eqb_refl].
  Qed.

  Section Folds.
    Variable wr : positive -> obj -> obj.

    Lemma fold_set_notin : forall (l : list (positive * obj)) s k,
      ~ In k (map fst l) ->
      lookup k (fold_left (fun s kv => set (fst kv) (wr (fst kv) (snd kv)) s) l s) = lookup k s.
    Proof.
      induction l as [|[k' v'] l IH]; intros s k Hnotin; [reflexivity|].
      cbn [fold_left fst snd]. rewrite IH.
      - apply lookup_set_other. intro E. apply Hnotin. left. exact E.
      - intro Hin. apply Hnotin. right. exact Hin.
    Qed.

    Lemma fold_set_in : forall (l : list (positive * obj)) s k v,
      NoDup (map fst l) -> In (k, v) l ->
      lookup k (fold_left (fun s kv => set (fst kv) (wr (fst kv) (snd kv)) s) l s) = Some (wr k v).
    Proof.
      induction l as [|[k' v'] l IH]; intros s k v Hnd Hin; [destruct Hin|].
      cbn [map fst] in Hnd. inversion Hnd as [|x r Hnotin Hnd']; subst.
      cbn [fold_left fst snd]. destruct Hin as [E|Hin].
      - inversion E; subst. rewrite fold_set_notin; [|exact Hnotin]. apply lookup_set_same.
      - apply IH; assumption.
    Qed.
  End Folds.

  Lemma fold_remove_notin : forall (l : list positive) s k,
    ~ In k l -> lookup k (fold_left (fun s k => remove k s) l s) = lookup k s.
  Proof.
    induction l as [|k' l IH]; intros s k Hnotin; [reflexivity|].
    cbn [fold_left]. rewrite IH.
    - apply lookup_remove_other. intro E. apply Hnotin. left. exact E.
    - intro Hin. apply Hnotin. right. exact Hin.
  Qed.

  Lemma fold_remove_in : forall (l : list positive) s k,
    In k l -> lookup k (fold_left (fun s k => remove k s) l s) = None.
  Proof.
    induction l as [|k' l IH]; intros s k Hin; [destruct Hin|].
    cbn [fold_left]. destruct (in_dec Pos.eq_dec k l) as [Hl|Hl].
    - apply IH. exact Hl.
    - destruct Hin as [E|Hin]; [|contradiction]. subst k'.
      rewrite fold_remove_notin; [|exact Hl]. apply lookup_remove_same.
  Qed.

  (** ** when does a Deploy issue no call? *)

  Lemma flat_map_nil : forall {A B} (f : A -> list B) l,
    flat_map f l = [] <-> forall x, In x l -> f x = [].
  Proof.
    intros A B f. induction l as [|x l IH]; cbn [flat_map]; split; intro H.
    - intros y Hy. destruct Hy.
    - reflexivity.
    - apply app_eq_nil in H. destruct H as [H1 H2]. intros y [E|Hy]; [subst; exact H1|].
      apply IH; assumption.
    - rewrite (H x (or_introl eq_refl)). cbn [app]. apply IH. intros y Hy. apply H. right. exact Hy.
  Qed.

  Definition in_sync (d : list (positive * obj)) (s : store obj) : Prop :=
    (forall k o, In (k, o) d -> exists c, cur_lookup k s = Some c /\ obj_eqb c (inherit c o) = true)
    /\ (forall k c, In (k, c) s -> collected k c = true -> has_key k d = true \/ unmanaged k = true).

  (** general characterisation, for any desired state (also one computed from the store) *)
  Lemma quiet_iff : forall d s, fst (deploy_with d s) = [] <-> in_sync d s.
  Proof.
    intros d s. unfold Operator.deploy_with. cbn [fst]. split.
    - intro H. apply app_eq_nil in H. destruct H as [Hc H]. apply app_eq_nil in H. destruct H as [Hd Hu].
      split.
      + intros k o Hin.
        destruct (cur_lookup k s) as [c|] eqn:Hcur.
        * exists c. split; [reflexivity|].
          destruct (obj_eqb c (inherit c o)) eqn:E; [reflexivity|]. exfalso.
          apply map_eq_nil in Hu. unfold Operator.to_update in Hu.
          rewrite flat_map_nil in Hu. specialize (Hu (k, o) Hin). cbn [fst snd] in Hu.
          rewrite Hcur, E in Hu. discriminate.
        * exfalso. rewrite flat_map_nil in Hc.
          assert (Hin' : In (k, o) (to_create d s)).
          { unfold Operator.to_create. apply filter_In. split; [exact Hin|]. cbn [fst]. rewrite Hcur. reflexivity. }
          specialize (Hc (k, o) Hin'). unfold Operator.create_calls in Hc.
          destruct (lookup (fst (k, o)) s); discriminate.
      + intros k c Hin Hcol. apply map_eq_nil in Hd. unfold Operator.to_delete in Hd.
        apply map_eq_nil in Hd.
        destruct (has_key k d) eqn:Hk; [left; reflexivity|].
        destruct (unmanaged k) eqn:Hun; [right; reflexivity|]. exfalso.
        assert (Hin' : In (k, c) (filter (fun kv => collected (fst kv) (snd kv) && negb (has_key (fst kv) d)
                                                   && negb (unmanaged (fst kv))) s)).
        { apply filter_In. split; [exact Hin|]. cbn [fst snd]. rewrite Hcol, Hk, Hun. reflexivity. }
        rewrite Hd in Hin'. destruct Hin'.
    - intros [H1 H2].
      assert (Hc : to_create d s = []).
      { unfold Operator.to_create.
        destruct (filter _ d) as [|[k o] r] eqn:E; [reflexivity|]. exfalso.
        assert (Hin : In (k, o) (filter (fun kv => match cur_lookup (fst kv) s with None => true | Some _ => false end) d))
          by (rewrite E; left; reflexivity).
        apply filter_In in Hin. destruct Hin as [Hin Hf]. cbn [fst] in Hf.
        destruct (H1 k o Hin) as (c & Hcur & _). rewrite Hcur in Hf. discriminate. }
      assert (Hu : to_update d s = []).
      { unfold Operator.to_update. apply flat_map_nil. intros [k o] Hin. cbn [fst snd].
        destruct (H1 k o Hin) as (c & Hcur & Heq). rewrite Hcur, Heq. reflexivity. }
      assert (Hd : to_delete d s = []).
      { unfold Operator.to_delete.
        destruct (filter _ s) as [|[k c] r] eqn:E; [reflexivity|]. exfalso.
        assert (Hin : In (k, c) (filter (fun kv => collected (fst kv) (snd kv) && negb (has_key (fst kv) d)
                                                  && negb (unmanaged (fst kv))) s))
          by (rewrite E; left; reflexivity).
        apply filter_In in Hin. destruct Hin as [Hin Hf]. cbn [fst snd] in Hf.
        apply andb_true_iff in Hf. destruct Hf as [Hf Hun]. apply andb_true_iff in Hf. destruct Hf as [Hcol Hk].
        destruct (H2 k c Hin Hcol) as [Hk'|Hun'].
        - rewrite Hk' in Hk. discriminate.
        - rewrite Hun' in Hun. discriminate. }
      rewrite Hc, Hu, Hd. reflexivity.
  Qed.

  (** ** the store after a Deploy *)

  Hypothesis obj_eqb_spec : forall a b, obj_eqb a b = true <-> a = b.

  Lemma to_create_keys : forall d s k, In k (map fst (to_create d s)) -> In k (map fst d) /\ cur_lookup k s = None.
  Proof.
    intros d s k H. apply in_map_iff in H. destruct H as ((k', o) & E & Hin). cbn in E. subst k'.
    unfold Operator.to_create in Hin. apply filter_In in Hin. destruct Hin as [Hin Hf]. cbn [fst] in Hf.
    split; [apply in_map_iff; exists (k, o); auto|]. destruct (cur_lookup k s); [discriminate|reflexivity].
  Qed.

  Lemma to_update_In : forall d s k x, In (k, x) (to_update d s) ->
    exists o c, In (k, o) d /\ cur_lookup k s = Some c /\ x = inherit c o /\ obj_eqb c x = false.
  Proof.
    intros d s k x H. unfold Operator.to_update in H. apply in_flat_map in H.
    destruct H as ((k', o) & Hin & Hx). cbn [fst snd] in Hx.
    destruct (cur_lookup k' s) as [c|] eqn:Hcur; [|destruct Hx].
    destruct (obj_eqb c (inherit c o)) eqn:E; [destruct Hx|].
    destruct Hx as [Hx|[]]. inversion Hx; subst. exists o, c. auto.
  Qed.

  Lemma NoDup_map_fst_filter : forall (P : positive * obj -> bool) l,
    NoDup (map fst l) -> NoDup (map fst (filter P l)).
  Proof.
    intros P. induction l as [|x l IH]; intro H; [constructor|].
    cbn [map] in H. inversion H as [|y r Hnotin Hnd]; subst. cbn [filter].
    destruct (P x); [|apply IH; exact Hnd].
    cbn [map]. constructor; [|apply IH; exact Hnd].
    intro Hin. apply Hnotin. apply in_map_iff in Hin. destruct Hin as (z & Hz & Hin).
    apply filter_In in Hin. apply in_map_iff. exists z. tauto.
  Qed.

  Lemma to_update_nodup : forall d s, NoDup (map fst d) -> NoDup (map fst (to_update d s)).
  Proof.
    intros d s. induction d as [|[k o] d IH]; intro H; [constructor|].
    cbn [map fst] in H. inversion H as [|y r Hnotin Hnd]; subst.
    unfold Operator.to_update. cbn [flat_map fst snd]. fold (to_update d s).
    destruct (cur_lookup k s) as [c|]; [|apply IH; exact Hnd].
    destruct (obj_eqb c (inherit c o)); [apply IH; exact Hnd|].
    cbn [app map fst]. constructor; [|apply IH; exact Hnd].
    intro Hin. apply Hnotin. apply in_map_iff in Hin. destruct Hin as ((k', x) & E & Hin). cbn in E. subst k'.
    destruct (to_update_In d s k x Hin) as (o' & c' & Hin' & _). apply in_map_iff. exists (k, o'). auto.
  Qed.

  Lemma to_delete_In : forall d s k, In k (to_delete d s) -> has_key k d = false.
  Proof.
    intros d s k H. unfold Operator.to_delete in H. apply in_map_iff in H.
    destruct H as ((k', c) & E & Hin). cbn in E. subst k'. apply filter_In in Hin.
    destruct Hin as [_ Hf]. cbn [fst snd] in Hf.
    apply andb_true_iff in Hf. destruct Hf as [Hf _]. apply andb_true_iff in Hf. destruct Hf as [_ Hk].
    apply negb_true_iff in Hk. exact Hk.
  Qed.

  Lemma not_in_keys : forall k (d : list (positive * obj)), has_key k d = false -> ~ In k (map fst d).
  Proof. intros k d H Hin. apply has_key_In in Hin. congruence. Qed.

  (** the stored object at a desired key after Deploy *)
  Lemma lookup_after_deploy : forall d s k o, NoDup (map fst d) -> In (k, o) d ->
    lookup k (snd (deploy_with d s))
    = match cur_lookup k s with
      | None => Some (written_create o)
      | Some c => if obj_eqb c (inherit c o) then lookup k s else Some (written_update k (inherit c o))
      end.
  Proof.
    intros d s k o Hnd Hin. unfold Operator.deploy_with. cbn [snd].
    assert (Hkd : In k (map fst d)) by (apply in_map_iff; exists (k, o); auto).
    assert (Hndel : ~ In k (to_delete d s)).
    { intro H. apply to_delete_In in H. apply (not_in_keys k d H Hkd). }
    unfold Operator.apply_updates, Operator.apply_deletes, Operator.apply_creates.
    destruct (cur_lookup k s) as [c|] eqn:Hcur.
    - assert (Hncr : ~ In k (map fst (to_create d s))).
      { intro H. apply to_create_keys in H. destruct H as [_ H]. congruence. }
      destruct (obj_eqb c (inherit c o)) eqn:E.
      + rewrite (fold_set_notin (written_update)).
        2:{ intro H. apply in_map_iff in H. destruct H as ((k', x) & Ek & Hx). cbn in Ek. subst k'.
            destruct (to_update_In d s k x Hx) as (o' & c' & Hin' & Hc' & Hx' & Hne).
            assert (o' = o).
            { clear - Hnd Hin Hin'. induction d as [|[k2 o2] d IH]; [destruct Hin|].
              cbn [map fst] in Hnd. inversion Hnd as [|y r Hnotin Hnd']; subst.
              destruct Hin as [E1|Hin]; destruct Hin' as [E2|Hin'].
              - congruence.
              - inversion E1; subst. exfalso. apply Hnotin. apply in_map_iff. exists (k, o'). auto.
              - inversion E2; subst. exfalso. apply Hnotin. apply in_map_iff. exists (k, o). auto.
              - apply IH; assumption. }
            subst o'. rewrite Hcur in Hc'. inversion Hc'; subst c'. subst x. congruence. }
        rewrite fold_remove_notin; [|exact Hndel].
        rewrite (fold_set_notin (fun _ v => written_create v)); [reflexivity|exact Hncr].
      + assert (Hup : In (k, inherit c o) (to_update d s)).
        { unfold Operator.to_update. apply in_flat_map. exists (k, o). split; [exact Hin|].
          cbn [fst snd]. rewrite Hcur, E. left. reflexivity. }
        apply (fold_set_in written_update); [apply to_update_nodup; exact Hnd|exact Hup].
    - assert (Hcr : In (k, o) (to_create d s)).
      { unfold Operator.to_create. apply filter_In. split; [exact Hin|]. cbn [fst]. rewrite Hcur. reflexivity. }
      rewrite (fold_set_notin written_update).
      2:{ intro H. apply in_map_iff in H. destruct H as ((k', x) & Ek & Hx). cbn in Ek. subst k'.
          destruct (to_update_In d s k x Hx) as (o' & c' & Hin' & Hc' & _).
          assert (o' = o).
          { clear - Hnd Hin Hin'. induction d as [|[k2 o2] d IH]; [destruct Hin|].
            cbn [map fst] in Hnd. inversion Hnd as [|y r Hnotin Hnd']; subst.
            destruct Hin as [E1|Hin]; destruct Hin' as [E2|Hin'].
            - congruence.
            - inversion E1; subst. exfalso. apply Hnotin. apply in_map_iff. exists (k, o'). auto.
            - inversion E2; subst. exfalso. apply Hnotin. apply in_map_iff. exists (k, o). auto.
            - apply IH; assumption. }
          subst o'. congruence. }
      rewrite fold_remove_notin; [|exact Hndel].
      apply (fold_set_in (fun _ v => written_create v)); [|exact Hcr].
      apply NoDup_map_fst_filter. exact Hnd.
  Qed.

  (** an object that is not at a desired key: untouched, or deleted *)
  Lemma lookup_after_deploy_other : forall d s k, ~ In k (map fst d) ->
    lookup k (snd (deploy_with d s)) = if in_dec Pos.eq_dec k (to_delete d s) then None else lookup k s.
  Proof.
    intros d s k Hk. unfold Operator.deploy_with. cbn [snd].
    unfold Operator.apply_updates, Operator.apply_deletes, Operator.apply_creates.
    rewrite (fold_set_notin written_update).
    2:{ intro H. apply in_map_iff in H. destruct H as ((k', x) & Ek & Hx). cbn in Ek. subst k'.
        destruct (to_update_In d s k x Hx) as (o' & c' & Hin' & _). apply Hk. apply in_map_iff. exists (k, o'). auto. }
    destruct (in_dec Pos.eq_dec k (to_delete d s)) as [Hd|Hd].
    - apply fold_remove_in. exact Hd.
    - rewrite fold_remove_notin; [|exact Hd].
      apply (fold_set_notin (fun _ v => written_create v)).
      intro H. apply to_create_keys in H. tauto.
  Qed.

  (** ** the fixpoint theorem *)

  Lemma in_lookup : forall (s : store obj) k c, In (k, c) s -> exists c', lookup k s = Some c'.
  Proof.
    induction s as [|[k' v'] r IH]; intros k c Hin; [destruct Hin|].
    cbn [Operator.lookup]. destruct (Pos.eqb k' k) eqn:E; [eexists; reflexivity|].
    destruct Hin as [E'|Hin]; [inversion E'; subst; rewrite Pos.eqb_refl in E; discriminate|].
    apply (IH k c Hin).
  Qed.

  Lemma lookup_first : forall (s : store obj) k c, NoDup (map fst s) -> In (k, c) s -> lookup k s = Some c.
  Proof.
    induction s as [|[k' v'] r IH]; intros k c Hnd Hin; [destruct Hin|].
    cbn [map fst] in Hnd. inversion Hnd as [|y l Hnotin Hnd']; subst.
    cbn [Operator.lookup]. destruct Hin as [E|Hin].
    - inversion E; subst. rewrite Pos.eqb_refl. reflexivity.
    - destruct (Pos.eqb k' k) eqn:E.
      + apply Pos.eqb_eq in E. subst k'. exfalso. apply Hnotin. apply in_map_iff. exists (k, c). auto.
      + apply IH; assumption.
  Qed.

  Lemma set_keys_nodup : forall k v (s : store obj), NoDup (map fst s) -> NoDup (map fst (set k v s)).
  Proof.
    intros k v. induction s as [|[k' v'] r IH]; intro H; cbn [Operator.set].
    - cbn. constructor; [intros []|constructor].
    - cbn [map fst] in H. inversion H as [|y l Hnotin Hnd]; subst.
      destruct (Pos.eqb k' k) eqn:E.
      + apply Pos.eqb_eq in E. subst k'. cbn [map fst]. constructor; assumption.
      + cbn [map fst]. constructor; [|apply IH; exact Hnd].
        intro Hin. apply Hnotin. clear - Hin E.
        induction r as [|[k2 v2] r IH]; cbn [Operator.set map fst] in *.
        * destruct Hin as [E'|[]]. subst k'. rewrite Pos.eqb_refl in E. discriminate.
        * destruct (Pos.eqb k2 k) eqn:E2; cbn [map fst] in Hin.
          -- destruct Hin as [E'|Hin]; [subst k'; rewrite Pos.eqb_refl in E; discriminate|right; exact Hin].
          -- destruct Hin as [E'|Hin]; [left; exact E'|right; apply IH; exact Hin].
  Qed.

  Lemma remove_keys_nodup : forall k (s : store obj), NoDup (map fst s) -> NoDup (map fst (remove k s)).
  Proof.
    intros k. induction s as [|[k' v'] r IH]; intro H; cbn [Operator.remove]; [constructor|].
    cbn [map fst] in H. inversion H as [|y l Hnotin Hnd]; subst.
    destruct (Pos.eqb k' k); [apply IH; exact Hnd|].
    cbn [map fst]. constructor; [|apply IH; exact Hnd].
    intro Hin. apply Hnotin. clear - Hin.
    induction r as [|[k2 v2] r IH]; cbn [Operator.remove map fst] in *; [exact Hin|].
    destruct (Pos.eqb k2 k); cbn [map fst] in *; [right; apply IH; exact Hin|].
    destruct Hin as [E|Hin]; [left; exact E|right; apply IH; exact Hin].
  Qed.

  Lemma deploy_keys_nodup : forall d s, NoDup (map fst s) -> NoDup (map fst (snd (deploy_with d s))).
  Proof.
    intros d s H. unfold Operator.deploy_with. cbn [snd].
    unfold Operator.apply_updates, Operator.apply_deletes, Operator.apply_creates.
    assert (H1 : NoDup (map fst (fold_left (fun s0 kv => set (fst kv) (written_create (snd kv)) s0) (to_create d s) s))).
    { generalize (to_create d s). intro l. revert s H. induction l as [|x l IH]; intros s H; [exact H|].
      cbn [fold_left]. apply IH. apply set_keys_nodup. exact H. }
    revert H1. generalize (fold_left (fun s0 kv => set (fst kv) (written_create (snd kv)) s0) (to_create d s) s).
    intros s1 H1.
    assert (H2 : NoDup (map fst (fold_left (fun s0 k => remove k s0) (to_delete d s) s1))).
    { generalize (to_delete d s). intro l. revert s1 H1. induction l as [|x l IH]; intros s1 H1; [exact H1|].
      cbn [fold_left]. apply IH. apply remove_keys_nodup. exact H1. }
    revert H2. generalize (fold_left (fun s0 k => remove k s0) (to_delete d s) s1). intros s2 H2.
    generalize (to_update d s). intro l. revert s2 H2. induction l as [|x l IH]; intros s2 H2; [exact H2|].
    cbn [fold_left]. apply IH. apply set_keys_nodup. exact H2.
  Qed.

  Lemma in_store_lookup : forall (s : store obj) k c, lookup k s = Some c -> In (k, c) s.
  Proof.
    induction s as [|[k' v'] r IH]; intros k c H; [discriminate|].
    cbn [Operator.lookup] in H. destruct (Pos.eqb k' k) eqn:E.
    - apply Pos.eqb_eq in E. inversion H; subst. left. reflexivity.
    - right. apply IH. exact H.
  Qed.

  (** Hypotheses of the fixpoint theorem: one deterministic renderer per key
      (unique keys, none unmanaged) that may read the object stored under its
      key; what Deploy writes is collected by the next Deploy. *)
  Variable rs : list (positive * renderer obj).
  Variable s0 : store obj.
  Notation desired_of := (desired_of obj).
  Notation render_at := (render_at obj inherit collected).
  Notation deploy_rendered := (deploy_rendered obj obj_eqb own norm inherit collected unmanaged).
  Hypothesis rs_nodup : NoDup (map fst rs).
  Hypothesis s0_nodup : NoDup (map fst s0).
  Hypothesis rs_managed : forall k r, In (k, r) rs -> unmanaged k = false.
  Hypothesis written_collected : forall k x, collected k (norm (own x)) = true.

  Let s1 := snd (deploy_rendered rs s0).

  Lemma desired_keys : forall s, map fst (desired_of rs s) = map fst rs.
  Proof. intro s. unfold Operator.desired_of. rewrite map_map. reflexivity. Qed.

  Lemma desired_In : forall s k o, In (k, o) (desired_of rs s) <-> exists r, In (k, r) rs /\ o = r (lookup k s).
  Proof.
    intros s k o. unfold Operator.desired_of. rewrite in_map_iff. split.
    - intros ((k', r) & E & Hin). cbn [fst snd] in E. inversion E; subst. exists r. auto.
    - intros (r & Hin & E). exists (k, r). cbn [fst snd]. subst o. auto.
  Qed.

  Lemma rendered_render_at : forall s k r,
    rendered s k (r (lookup k s)) = render_at k r (lookup k s).
  Proof.
    intros s k r. unfold Operator.rendered, Operator.render_at, Operator.cur_lookup.
    destruct (lookup k s) as [c|]; [|reflexivity]. destruct (collected k c); reflexivity.
  Qed.

  Lemma has_key_desired : forall s s' k, has_key k (desired_of rs s) = has_key k (desired_of rs s').
  Proof.
    intros s s' k.
    destruct (has_key k (desired_of rs s)) eqn:E1; destruct (has_key k (desired_of rs s')) eqn:E2; try reflexivity.
    - apply has_key_In in E1. rewrite desired_keys in E1. rewrite <- (desired_keys s') in E1.
      apply has_key_In in E1. congruence.
    - apply has_key_In in E2. rewrite desired_keys in E2. rewrite <- (desired_keys s) in E2.
      apply has_key_In in E2. congruence.
  Qed.

  Lemma second_deploy_no_deletes : forall k c, In (k, c) s1 -> collected k c = true ->
    has_key k (desired_of rs s1) = true \/ unmanaged k = true.
  Proof.
    intros k c Hin Hcol. rewrite (has_key_desired s1 s0).
    destruct (has_key k (desired_of rs s0)) eqn:Hk; [left; reflexivity|]. right.
    assert (Hnk : ~ In k (map fst (desired_of rs s0))) by (apply not_in_keys; exact Hk).
    assert (Hl : lookup k s1 = Some c).
    { apply lookup_first; [apply deploy_keys_nodup; exact s0_nodup|exact Hin]. }
    unfold s1, Operator.deploy_rendered, Operator.deploy in Hl.
    rewrite (lookup_after_deploy_other (desired_of rs s0) s0 k Hnk) in Hl.
    destruct (in_dec Pos.eq_dec k (to_delete (desired_of rs s0) s0)) as [Hd|Hd]; [discriminate|].
    destruct (unmanaged k) eqn:Hun; [reflexivity|]. exfalso. apply Hd.
    unfold Operator.to_delete. apply in_map_iff. exists (k, c). split; [reflexivity|].
    apply filter_In. split; [apply in_store_lookup; exact Hl|].
    cbn [fst snd]. rewrite Hcol, Hk, Hun. reflexivity.
  Qed.

  (** the stored object under a rendered key after the first Deploy: left
      alone when the collected object equals the rendering, else the read-back
      of the written rendering *)
  Lemma lookup_s1 : forall k r, In (k, r) rs ->
    lookup k s1 = match cur_lookup k s0 with
                  | Some c => if obj_eqb c (render_at k r (lookup k s0)) then Some c
                              else Some (norm (own (render_at k r (lookup k s0))))
                  | None => Some (norm (own (render_at k r (lookup k s0))))
                  end.
  Proof.
    intros k r Hin. unfold s1, Operator.deploy_rendered, Operator.deploy.
    assert (Hd : In (k, r (lookup k s0)) (desired_of rs s0)) by (apply desired_In; exists r; auto).
    rewrite (lookup_after_deploy (desired_of rs s0) s0 k (r (lookup k s0))); [|rewrite desired_keys; exact rs_nodup|exact Hd].
    unfold Operator.written_create, Operator.written_update. rewrite (rs_managed k r Hin).
    rewrite <- rendered_render_at. unfold Operator.rendered.
    destruct (cur_lookup k s0) as [c|] eqn:Hcur; [|reflexivity].
    destruct (obj_eqb c (inherit c (r (lookup k s0)))); [|reflexivity].
    unfold Operator.cur_lookup in Hcur. destruct (lookup k s0) as [c'|]; [|discriminate].
    destruct (collected k c'); [|discriminate]. inversion Hcur; subst. reflexivity.
  Qed.

  (** after one Deploy the owned objects are exactly the rendered ones: every
      rendered key is present, every collected object is rendered or unmanaged
      (nothing of an earlier configuration survives) *)
  Lemma deploy_converges :
    (forall k r, In (k, r) rs -> exists c, lookup k s1 = Some c)
    /\ (forall k c, In (k, c) s1 -> collected k c = true -> In k (map fst rs) \/ unmanaged k = true).
  Proof.
    split.
    - intros k r Hin. rewrite (lookup_s1 k r Hin).
      destruct (cur_lookup k s0) as [c|]; [destruct (obj_eqb c _)|]; eexists; reflexivity.
    - intros k c Hin Hcol. destruct (second_deploy_no_deletes k c Hin Hcol) as [H|H]; [left|right; exact H].
      apply has_key_In in H. rewrite desired_keys in H. exact H.
  Qed.

  Lemma cur_lookup_inv : forall k s c, cur_lookup k s = Some c -> lookup k s = Some c /\ collected k c = true.
  Proof.
    intros k s c H. unfold Operator.cur_lookup in H. destruct (lookup k s) as [c'|]; [|discriminate].
    destruct (collected k c') eqn:Hc; [|discriminate]. inversion H; subst. auto.
  Qed.

  (** Clause 4: the second Deploy issues no call iff, for every key, the
      object was already in place, or re-rendering on top of the read-back of
      what the first Deploy wrote reproduces that read-back. *)
  Theorem operator_fixpoint :
    fst (deploy_rendered rs s1) = []
    <-> (forall k r, In (k, r) rs ->
           cur_lookup k s0 = Some (render_at k r (lookup k s0))
           \/ render_at k r (Some (norm (own (render_at k r (lookup k s0)))))
              = norm (own (render_at k r (lookup k s0)))).
  Proof.
    unfold Operator.deploy_rendered at 1. unfold Operator.deploy. rewrite quiet_iff. unfold in_sync. split.
    - intros [H1 _] k r Hin. set (x := render_at k r (lookup k s0)).
      assert (Hd : In (k, r (lookup k s1)) (desired_of rs s1)) by (apply desired_In; exists r; auto).
      destruct (H1 k _ Hd) as (c1 & Hcur1 & Heq). apply obj_eqb_spec in Heq.
      destruct (cur_lookup_inv _ _ _ Hcur1) as [Hl1 Hcol1].
      assert (Hr : render_at k r (Some c1) = c1).
      { unfold Operator.render_at. rewrite Hcol1. rewrite <- Hl1. symmetry. exact Heq. }
      pose proof (lookup_s1 k r Hin) as Hs1. fold x in Hs1. rewrite Hl1 in Hs1.
      destruct (cur_lookup k s0) as [c|] eqn:Hcur0.
      + destruct (obj_eqb c x) eqn:E.
        * apply obj_eqb_spec in E. left. rewrite E. reflexivity.
        * inversion Hs1; subst c1. right. exact Hr.
      + inversion Hs1; subst c1. right. exact Hr.
    - intro H. split; [|exact second_deploy_no_deletes].
      intros k o Hd. apply desired_In in Hd. destruct Hd as (r & Hin & Ho). subst o.
      specialize (H k r Hin).
      pose proof (lookup_s1 k r Hin) as Hs1.
      set (x := render_at k r (lookup k s0)) in *.
      assert (Hgoal : forall c1, lookup k s1 = Some c1 -> collected k c1 = true -> render_at k r (Some c1) = c1 ->
                exists c, cur_lookup k s1 = Some c /\ obj_eqb c (inherit c (r (lookup k s1))) = true).
      { intros c1 Hl Hc Hr. exists c1. unfold Operator.cur_lookup. rewrite Hl, Hc. split; [reflexivity|].
        apply obj_eqb_spec. unfold Operator.render_at in Hr. rewrite Hc in Hr. symmetry. exact Hr. }
      destruct (cur_lookup k s0) as [c|] eqn:Hcur0.
      + destruct (cur_lookup_inv _ _ _ Hcur0) as [Hl0 Hc0].
        destruct (obj_eqb c x) eqn:E.
        * apply obj_eqb_spec in E.
          apply (Hgoal c Hs1 Hc0). rewrite <- Hl0. fold x. symmetry. exact E.
        * destruct H as [H|H].
          -- inversion H as [Hcx]. rewrite Hcx in E. rewrite (proj2 (obj_eqb_spec x x) eq_refl) in E. discriminate.
          -- apply (Hgoal _ Hs1 (written_collected k x)). exact H.
      + destruct H as [H|H]; [discriminate|].
        apply (Hgoal _ Hs1 (written_collected k x)). exact H.
  Qed.
End OperatorProofs.

(** Store-independent renderers and no field inheritance: the condition reads
    "norm (own desired) = desired" for every desired object that is not
    already in place. *)
Definition const_renderers {obj} (d : list (positive * obj)) : list (positive * renderer obj) :=
  map (fun kx => (fst kx, fun _ : option obj => snd kx)) d.

Corollary operator_fixpoint_pure :
  forall (obj : Type) (obj_eqb : obj -> obj -> bool) (own norm : obj -> obj)
         (collected : positive -> obj -> bool) (unmanaged : positive -> bool),
    (forall a b, obj_eqb a b = true <-> a = b) ->
    forall (d : list (positive * obj)) (s0 : store obj),
    NoDup (map fst d) -> NoDup (map fst s0) ->
    (forall k x, In (k, x) d -> unmanaged k = false) ->
    (forall k x, collected k (norm (own x)) = true) ->
    fst (deploy_rendered obj obj_eqb own norm (fun _ o => o) collected unmanaged (const_renderers d)
           (snd (deploy_rendered obj obj_eqb own norm (fun _ o => o) collected unmanaged (const_renderers d) s0))) = []
    <-> (forall k x, In (k, x) d -> cur_lookup obj collected k s0 = Some x \/ norm (own x) = x).
Proof.
  intros obj obj_eqb own norm collected unmanaged Hspec d s0 Hnd Hs0 Hman Hcol.
  assert (Hra : forall k x b, render_at obj (fun _ o => o) collected k (fun _ : option obj => x) b = x).
  { intros k x b. unfold render_at. destruct b as [c|]; [destruct (collected k c)|]; reflexivity. }
  rewrite (operator_fixpoint obj obj_eqb own norm (fun _ o => o) collected unmanaged Hspec (const_renderers d) s0).
  - split.
    + intros H k x Hin.
      specialize (H k (fun _ => x)). rewrite !Hra in H.
      destruct H as [H|H]; [|left; exact H|right; symmetry; exact H].
      unfold const_renderers. apply in_map_iff. exists (k, x). auto.
    + intros H k r Hin. unfold const_renderers in Hin. apply in_map_iff in Hin.
      destruct Hin as ((k', x) & E & Hin). cbn [fst snd] in E. inversion E; subst. rewrite !Hra.
      destruct (H _ x Hin) as [H'|H']; [left; exact H'|right; symmetry; exact H'].
  - unfold const_renderers. rewrite map_map. exact Hnd.
  - exact Hs0.
  - intros k r Hin. unfold const_renderers in Hin. apply in_map_iff in Hin.
    destruct Hin as ((k', x) & E & Hin). cbn [fst snd] in E. inversion E; subst. apply (Hman _ x Hin).
  - exact Hcol.
Qed.

(** ** A concrete instance (non-vacuity, and the shape of the usual defect)

    Objects are integers; object 1 stands for a rendering with an empty,
    non-nil slice, which reads back as object 0 (nil slice); every other
    object reads back as itself. *)
From Coq Require Import ZArith.

Definition ex_norm (o : Z) : Z := if Z.eqb o 1 then 0%Z else o.
Definition ex_deploy (rs : list (positive * renderer Z)) (s : store Z) : list call * store Z :=
  deploy_rendered Z Z.eqb (fun o => o) ex_norm (fun _ o => o) (fun _ _ => true) (fun _ => false) rs s.

(** renderers that ignore the stored object *)
Definition ex_good : list (positive * renderer Z) := [(1%positive, fun _ => 0%Z); (2%positive, fun _ => 7%Z)].
Definition ex_bad : list (positive * renderer Z) := [(1%positive, fun _ => 1%Z); (2%positive, fun _ => 7%Z)].

Lemma ex_operator_hyps : forall (rs : list (positive * renderer Z)),
  (forall a b, Z.eqb a b = true <-> a = b)
  /\ (forall k (r : renderer Z), In (k, r) rs -> (fun _ : positive => false) k = false)
  /\ (forall (k : positive) x, (fun (_ : positive) (_ : Z) => true) k (ex_norm x) = true).
Proof.
  intro rs. repeat split; try reflexivity; apply Z.eqb_eq.
Qed.

(** the right-hand side of the fixpoint theorem on the two instances *)
Lemma ex_operator_rhs :
  (forall k r, In (k, r) ex_good ->
     cur_lookup Z (fun _ _ => true) k [] = Some (render_at Z (fun _ o => o) (fun _ _ => true) k r (lookup Z k []))
     \/ render_at Z (fun _ o => o) (fun _ _ => true) k r (Some (ex_norm (render_at Z (fun _ o => o) (fun _ _ => true) k r (lookup Z k []))))
        = ex_norm (render_at Z (fun _ o => o) (fun _ _ => true) k r (lookup Z k [])))
  /\ ~ (forall k r, In (k, r) ex_bad ->
     cur_lookup Z (fun _ _ => true) k [] = Some (render_at Z (fun _ o => o) (fun _ _ => true) k r (lookup Z k []))
     \/ render_at Z (fun _ o => o) (fun _ _ => true) k r (Some (ex_norm (render_at Z (fun _ o => o) (fun _ _ => true) k r (lookup Z k []))))
        = ex_norm (render_at Z (fun _ o => o) (fun _ _ => true) k r (lookup Z k []))).
Proof.
  split.
  - intros k r [E|[E|[]]]; inversion E; subst; right; reflexivity.
  - intro H. destruct (H 1%positive (fun _ => 1%Z) (or_introl eq_refl)) as [E|E]; vm_compute in E; discriminate.
Qed.

Lemma ex_operator_runs :
  (* a normal-form rendering: second Deploy is silent *)
  fst (ex_deploy ex_good (snd (ex_deploy ex_good []))) = []
  (* a rendering that is not a normal form: an Update on every Deploy *)
  /\ fst (ex_deploy ex_bad (snd (ex_deploy ex_bad []))) = [CUpdate 1%positive]
  /\ fst (ex_deploy ex_bad (snd (ex_deploy ex_bad (snd (ex_deploy ex_bad []))))) = [CUpdate 1%positive]
  (* an owned object that is no longer desired is deleted *)
  /\ fst (ex_deploy [(2%positive, fun _ => 7%Z)] [(1%positive, 5%Z); (2%positive, 7%Z)]) = [CDelete 1%positive].
Proof. vm_compute. repeat split. Qed.
