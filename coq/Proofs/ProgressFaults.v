(** C05 — the allocate loop under Bind failures (Model/ProgressFaults.v).

    Contents
      1. one Commit under a failure oracle: what it can do
      2. a faulty commit only refuses: its calls are a prefix of the fault-free commit's
      3. the faulty loop coincides with the fault-free loop until the first refused Bind
      4. a refused Bind gives back exactly what the pod took: the cluster still shrinks
      5. work conservation under all failure oracles
      6. witnesses: the stop-at-the-first-failed-commit variant; accepted binds are
         not monotone in the oracle; dropped operations hold capacity *)
Set Default Timeout 60.
From Coq Require Import List ZArith PArith Bool Lia ZifyBool Permutation.
From KaiV Require Import Model.Res Model.Status Model.AMap Model.Node Model.NodeSpec Proofs.Node.
From KaiV Require Import Model.Progress Model.ProgressFaults Proofs.Progress.
Import ListNotations.
Open Scope Z_scope.

(** * 1. One commit *)

Lemma hit_jobs_app a b : hit_jobs (a ++ b) = hit_jobs a ++ hit_jobs b.
Proof. unfold hit_jobs. apply flat_map_app. Qed.

Lemma commit_f_cases f jid : forall ops kb ns,
  let r := commit_f f jid kb ns ops in
  (cr_refused r = false /\ cr_nodes r = ns /\ cr_kept r = ops /\ hit_jobs (cr_calls r) = [])
  \/ (cr_refused r = true
      /\ exists a pl b, ops = a ++ pl :: b /\ pl_piped pl = false /\ cr_nodes r = unallocate ns pl
                        /\ cr_kept r = a ++ b /\ hit_jobs (cr_calls r) = [jid]).
Proof.
  induction ops as [|pl r IH]; intros kb ns; cbv zeta; cbn [commit_f].
  - left. repeat split.
  - destruct (pl_piped pl) eqn:Pp.
    + specialize (IH kb ns). cbv zeta in IH. cbn [cr_refused cr_nodes cr_kept cr_calls].
      destruct IH as [(R & N & K & H)|(R & a & p & b & E & Pf & N & K & H)].
      * left. rewrite R, N, K. repeat split. exact H.
      * right. split; [exact R|]. exists (pl :: a), p, b. rewrite N, K. split; [rewrite E; reflexivity|]. split; [exact Pf|]. split; [reflexivity|]. split; [reflexivity|exact H].
    + destruct (f kb).
      * right. cbn [cr_refused cr_nodes cr_kept cr_calls]. split; [reflexivity|].
        exists [], pl, r. repeat split; auto.
      * specialize (IH (S kb) ns). cbv zeta in IH. cbn [cr_refused cr_nodes cr_kept cr_calls].
        destruct IH as [(R & N & K & H)|(R & a & p & b & E & Pf & N & K & H)].
        -- left. rewrite R, N, K. repeat split. exact H.
        -- right. split; [exact R|]. exists (pl :: a), p, b. rewrite N, K. split; [rewrite E; reflexivity|]. split; [exact Pf|]. split; [reflexivity|]. split; [reflexivity|exact H].
Qed.

Lemma commit_f_no_faults jid : forall ops kb ns,
  let r := commit_f no_bind_faults jid kb ns ops in
  cr_refused r = false /\ cr_nodes r = ns /\ cr_kept r = ops /\ hit_jobs (cr_calls r) = [].
Proof.
  induction ops as [|pl r IH]; intros kb ns; cbv zeta; cbn [commit_f]; [repeat split|].
  destruct (pl_piped pl).
  - destruct (IH kb ns) as (R & N & K & H). cbn [cr_refused cr_nodes cr_kept cr_calls].
    rewrite R, N, K. repeat split. exact H.
  - unfold no_bind_faults at 1. destruct (IH (S kb) ns) as (R & N & K & H).
    cbn [cr_refused cr_nodes cr_kept cr_calls]. rewrite R, N, K. repeat split. exact H.
Qed.

(** * 2. A faulty commit only refuses *)

(** the calls of a commit under any oracle, the refused call counted as made,
    are a prefix of the calls of the fault-free commit of the same operations *)
Lemma commit_faults_only_refuse f jid : forall ops kb kb' ns ns',
  exists rest, cr_calls (commit_f no_bind_faults jid kb' ns' ops)
               = map as_accepted (cr_calls (commit_f f jid kb ns ops)) ++ rest.
Proof.
  induction ops as [|pl r IH]; intros kb kb' ns ns'; cbn [commit_f].
  - exists []. reflexivity.
  - destruct (pl_piped pl).
    + destruct (IH kb kb' ns ns') as (rest & E). exists rest. cbn [cr_calls map app as_accepted]. rewrite E. reflexivity.
    + unfold no_bind_faults at 1. destruct (f kb).
      * eexists. cbn [cr_calls map app as_accepted]. reflexivity.
      * destruct (IH (S kb) (S kb') ns ns') as (rest & E). exists rest. cbn [cr_calls map app as_accepted]. rewrite E. reflexivity.
Qed.

(** * 3. Until the first refused Bind *)

Section Faulty.
  Variable pred : task -> positive -> bool.
  Variable tgate : hist -> positive -> task -> positive -> bool.
  Variable gate : hist -> positive -> list task -> bool.
  Variable nord : hist -> task -> list positive.
  Variable gsel : hist -> positive -> node -> task -> option (list positive * bool).
  Variable shouldpipe : positive -> hist -> bool.
  Variable carry_on : bool.
  Variable f : boracle.

  Notation attempt := (attempt pred tgate gate nord gsel shouldpipe).
  Notation attempt_ops := (attempt_ops pred tgate gate nord gsel shouldpipe).
  Notation step := (step pred tgate gate nord gsel shouldpipe).
  Notation step_f := (step_f pred tgate gate nord gsel shouldpipe carry_on f).
  Notation allocate_action := (allocate_action pred tgate gate nord gsel shouldpipe).

  Lemma attempt_ops_spec ns h jid ts :
    attempt ns h jid ts = match attempt_ops ns h jid ts with
                          | Some (ns', cp) => Some (ns', cp ++ h)
                          | None => None
                          end.
  Proof.
    unfold Progress.attempt, ProgressFaults.attempt_ops.
    destruct (gate h jid ts); [|reflexivity].
    destruct (place_chunk pred tgate nord gsel ns h jid ts []) as [[ns1 cp]|]; [|reflexivity].
    destruct (shouldpipe jid cp); [|reflexivity].
    destruct (convert_all ns1 (rev cp)); reflexivity.
  Qed.

  Lemma step_f_calls fs jid : exists x, fs_calls (step_f fs jid) = fs_calls fs ++ x.
  Proof.
    unfold ProgressFaults.step_f.
    destruct (fs_stopped fs); [exists []; rewrite app_nil_r; reflexivity|].
    destruct (find_job jid (ls_jobs (fs_ls fs))) as [j|]; [|exists []; rewrite app_nil_r; reflexivity].
    destruct (js_failed j); [exists []; rewrite app_nil_r; reflexivity|].
    destruct (js_todo j) as [|c rest]; [exists []; rewrite app_nil_r; reflexivity|].
    destruct (attempt_ops (ls_nodes (fs_ls fs)) (ls_hist (fs_ls fs)) jid c) as [[ns1 cp]|];
      [|exists []; rewrite app_nil_r; reflexivity].
    destruct (cr_refused _); eexists; reflexivity.
  Qed.

  Lemma fold_f_calls order : forall fs, exists x, fs_calls (fold_left step_f order fs) = fs_calls fs ++ x.
  Proof.
    induction order as [|jid r IH]; intros fs; cbn [fold_left]; [exists []; rewrite app_nil_r; reflexivity|].
    destruct (IH (step_f fs jid)) as (x & E). destruct (step_f_calls fs jid) as (y & E2).
    exists (y ++ x). rewrite E, E2, app_assoc. reflexivity.
  Qed.

  (** a step that refuses nothing is the step of the fault-free loop *)
  Lemma step_f_agrees fs jid :
    fs_stopped fs = false -> hit_jobs (fs_calls (step_f fs jid)) = hit_jobs (fs_calls fs) ->
    fs_ls (step_f fs jid) = step (fs_ls fs) jid /\ fs_stopped (step_f fs jid) = false.
  Proof.
    intros St. unfold ProgressFaults.step_f, Progress.step. rewrite St.
    destruct (find_job jid (ls_jobs (fs_ls fs))) as [j|]; [|intros _; split; [reflexivity|exact St]].
    destruct (js_failed j); [intros _; split; [reflexivity|exact St]|].
    destruct (js_todo j) as [|c rest]; [intros _; split; [reflexivity|exact St]|].
    rewrite attempt_ops_spec.
    destruct (attempt_ops (ls_nodes (fs_ls fs)) (ls_hist (fs_ls fs)) jid c) as [[ns1 cp]|];
      [|intros _; split; reflexivity].
    pose proof (commit_f_cases f jid (rev cp) (fs_kb fs) ns1) as Hc. cbv zeta in Hc.
    destruct Hc as [(R & N & K & H)|(R & a & p & b & E & Pf & N & K & H)]; rewrite R; cbn [fs_calls fs_ls fs_stopped].
    - intros _. rewrite N, K, rev_involutive. split; reflexivity.
    - rewrite hit_jobs_app, H. intros E2. exfalso.
      rewrite <- (app_nil_r (hit_jobs (fs_calls fs))) in E2 at 2. apply app_inv_head in E2. discriminate.
  Qed.

  Lemma fold_f_agrees order : forall fs,
    fs_stopped fs = false -> hit_jobs (fs_calls (fold_left step_f order fs)) = hit_jobs (fs_calls fs) ->
    fs_ls (fold_left step_f order fs) = fold_left step order (fs_ls fs).
  Proof.
    induction order as [|jid r IH]; intros fs St H; cbn [fold_left]; [reflexivity|].
    cbn [fold_left] in H.
    destruct (step_f_calls fs jid) as (y & E1). destruct (fold_f_calls r (step_f fs jid)) as (x & E2).
    assert (Hy : hit_jobs (fs_calls (step_f fs jid)) = hit_jobs (fs_calls fs)).
    { rewrite E2, E1, !hit_jobs_app in H. rewrite E1, hit_jobs_app.
      rewrite <- app_assoc in H. rewrite <- (app_nil_r (hit_jobs (fs_calls fs))) in H at 2.
      apply app_inv_head in H. apply app_eq_nil in H as [-> _]. rewrite app_nil_r. reflexivity. }
    destruct (step_f_agrees fs jid St Hy) as [El Es].
    rewrite IH; [rewrite El; reflexivity|exact Es|rewrite H; symmetry; exact Hy].
  Qed.

  (** * 4. A refused Bind gives back what the pod took *)

  (** what the loop knows about an operation of the running attempt, relative to
      the cluster [ns0] in which the attempt started *)
  Definition slack (ns0 ns : cluster) (pl : placement) : Prop :=
    exists n0 n, alookup (pl_node pl) ns0 = Some n0 /\ alookup (pl_node pl) ns = Some n
      /\ ple (tsum n) (rsub (tsum n0) (charge (pl_task pl)))
      /\ alookup (t_id (pl_task pl)) (n_pods n) = Some (pl_task pl)
      /\ amem (t_id (pl_task pl)) (n_pods n0) = false
      /\ task_ok (pl_task pl)
      /\ (pl_piped pl = false -> t_status (pl_task pl) = Allocated).

  Lemma allocate_nonshared_status h n t nid n' pl :
    is_shared t = false -> allocate_to_node gsel h n t nid = Some (n', pl) ->
    pl_piped pl = false -> t_status (pl_task pl) = Allocated.
  Proof.
    intros Hs. unfold allocate_to_node. rewrite Hs.
    destruct (add_task n _) as [n2|]; [|discriminate].
    intros E. injection E as <- <-. cbn [pl_piped pl_task].
    destruct (negb (is_task_allocatable n t)); [discriminate|reflexivity].
  Qed.

  Lemma place_on_slack ns0 ns h j t order ns' pl cp :
    wf_task t -> all_pods_ok ns -> shrinks ns0 ns -> Forall (slack ns0 ns) cp ->
    place_on pred tgate gsel ns h j t order = Some (ns', pl) ->
    Forall (slack ns0 ns') (pl :: cp).
  Proof.
    intros Wt Ok S Fs H.
    destruct (place_on_some _ _ _ _ _ _ _ _ _ _ H) as (nid & n & n' & A & _ & Al & ->).
    destruct Wt as [Hs Hn].
    destruct (allocate_nonshared _ _ _ _ _ _ _ Hs Al) as (t' & Ad & Epl & Hs' & Hc & Hid & Hst & s & gs & Et).
    pose proof (allocate_nonshared_status _ _ _ _ _ _ Hs Al) as Hal.
    destruct (add_task_inv _ _ _ Ad) as [Anone _].
    pose proof (add_task_pods _ _ _ Ad) as Pods.
    pose proof (add_task_tsum n t' n' Hs' Hst Ad) as T.
    assert (Tok : task_ok t') by (rewrite Et; apply wf_task_ok; split; assumption).
    assert (Cn : nonneg (charge t')) by (destruct Tok; assumption).
    destruct (shrinks_lookup_back _ _ _ _ S A) as (n0 & A0 & (_ & P0 & I0)). cbn [fst snd] in P0, I0.
    constructor.
    - exists n0, n'. rewrite Epl. cbn [pl_node pl_task].
      split; [exact A0|]. split; [eapply alookup_upd_same, A|].
      split; [rewrite T; apply ple_rsub, P0|].
      split; [rewrite Pods; apply alookup_aset_same|].
      split; [|split; [exact Tok|intros Pf; rewrite Epl in Hal; apply Hal; exact Pf]].
      destruct (amem (t_id t') (n_pods n0)) eqn:M; [|reflexivity].
      apply I0 in M. unfold amem in M. rewrite Anone in M. discriminate.
    - apply Forall_forall. intros p Ip.
      destruct (proj1 (Forall_forall _ _) Fs p Ip) as (m0 & m & B0 & B & Pm & Lm & Fm & Om & Sm).
      destruct (Pos.eq_dec (pl_node p) nid) as [En|Nn].
      + rewrite En in *. rewrite A in B. injection B as <-.
        exists m0, n'. rewrite En. split; [exact B0|]. split; [eapply alookup_upd_same, A|].
        split; [eapply ple_trans; [|exact Pm]; rewrite T; apply ple_rsub_nonneg, Cn|].
        split; [|split; [exact Fm|split; [exact Om|exact Sm]]].
        rewrite Pods. rewrite alookup_aset_other; [exact Lm|].
        intros E. rewrite E, Anone in Lm. discriminate.
      + exists m0, m. split; [exact B0|]. split; [rewrite alookup_upd_other by exact Nn; exact B|].
        split; [exact Pm|]. split; [exact Lm|]. split; [exact Fm|]. split; [exact Om|exact Sm].
  Qed.

  Lemma chunk_slack ns0 : forall ts ns h j cp ns' cp',
    Forall wf_task ts -> all_pods_ok ns -> shrinks ns0 ns -> Forall (slack ns0 ns) cp ->
    place_chunk pred tgate nord gsel ns h j ts cp = Some (ns', cp') ->
    shrinks ns0 ns' /\ all_pods_ok ns' /\ Forall (slack ns0 ns') cp'.
  Proof.
    induction ts as [|t tr IH]; intros ns h j cp ns' cp' W Ok S Fs H; cbn [place_chunk] in H.
    - injection H as <- <-. repeat split; assumption.
    - inversion W as [|x l Wt Wr]; subst.
      destruct (place_on pred tgate gsel ns (cp ++ h) j t (nord (cp ++ h) t)) as [[ns1 pl]|] eqn:P; [|discriminate].
      destruct (place_on_shrinks _ _ _ _ _ _ _ _ _ _ Wt Ok P) as [S1 Ok1].
      pose proof (place_on_slack _ _ _ _ _ _ _ _ _ Wt Ok S Fs P) as Fs1.
      eapply IH; [exact Wr|exact Ok1|eapply shrinks_trans; eassumption|exact Fs1|exact H].
  Qed.

  Lemma shrinks_upd_right (ns0 ns : cluster) nid n0 n1 :
    shrinks ns0 ns -> alookup nid ns0 = Some n0 -> node_le (nid, n0) (nid, n1) -> shrinks ns0 (upd nid n1 ns).
  Proof.
    intros S. induction S as [|[k0 m0] [k m] l l' L Sl IH]; cbn [alookup upd]; [discriminate|].
    destruct L as (E & P & I). cbn [fst snd] in *. subst k.
    destruct (Pos.eqb nid k0) eqn:Ek; intros A Le.
    - injection A as ->. apply Pos.eqb_eq in Ek. subst k0. constructor; [exact Le|exact Sl].
    - constructor; [split; [reflexivity|split; assumption]|apply IH; assumption].
  Qed.

  Lemma unallocate_shrinks ns0 ns pl :
    shrinks ns0 ns -> all_pods_ok ns -> slack ns0 ns pl -> pl_piped pl = false ->
    shrinks ns0 (unallocate ns pl) /\ all_pods_ok (unallocate ns pl).
  Proof.
    intros S Ok (n0 & n & A0 & A & P & L & Fr & [Hs Hn] & St) Pf. specialize (St Pf).
    unfold unallocate. rewrite A. unfold remove_task. rewrite L.
    set (t := pl_task pl) in *.
    set (n1 := remove_resources (set_pods n (adel (t_id t) (n_pods n))) t).
    assert (P1 : n_pods n1 = adel (t_id t) (n_pods n)) by (unfold n1; rewrite n_pods_remove_resources; reflexivity).
    assert (T1 : tsum n1 = radd (tsum n) (charge t)).
    { unfold n1. rewrite remove_resources_eq, Hs. unfold tsum, remove_core, u_idle, u_rel.
      cbn [n_idle n_rel set_core set_pods]. rewrite St. res_lia. }
    destruct (all_pods_ok_lookup _ _ _ Ok A) as [[Sk Fk] Fo].
    destruct (shrinks_lookup _ _ _ _ S A0) as (n' & A' & (_ & _ & I0)). rewrite A in A'. injection A' as <-. cbn [snd] in I0.
    split.
    - eapply shrinks_upd_right; [exact S|exact A0|]. split; [reflexivity|]. cbn [snd]. split.
      + rewrite T1. unfold ple in *. unfold nonneg, ple in Hn.
        cbn [radd rsub rzero cpu mem gpu pods mig ext] in *. lia.
      + intros k Mk. rewrite P1. unfold amem.
        assert (Nk : k <> t_id t) by (intros ->; rewrite Fr in Mk; discriminate).
        rewrite alookup_adel_other by exact Nk. apply I0, Mk.
    - apply all_pods_ok_upd; [exact Ok|]. unfold pods_ok. rewrite P1. split; [split|].
      + apply sorted_adel, Sk.
      + apply Forall_adel, Fk.
      + apply Forall_adel, Fo.
  Qed.

  (** an attempt followed by its commit, under any oracle: the cluster shrinks *)
  Lemma attempt_commit_shrinks ns h jid c ns1 cp kb :
    Forall wf_task c -> all_pods_ok ns -> attempt_ops ns h jid c = Some (ns1, cp) ->
    let r := commit_f f jid kb ns1 (rev cp) in
    shrinks ns (cr_nodes r) /\ all_pods_ok (cr_nodes r).
  Proof.
    intros W Ok H r.
    pose proof (attempt_cases pred tgate gate nord gsel shouldpipe ns h jid c W Ok) as Hc.
    rewrite attempt_ops_spec, H in Hc. destruct Hc as (S1 & Ok1 & _).
    pose proof (commit_f_cases f jid (rev cp) kb ns1) as Hr. cbv zeta in Hr. fold r in Hr.
    destruct Hr as [(_ & N & _)|(_ & a & pl & b & E & Pf & N & _)]; rewrite N; [split; assumption|].
    assert (Ipl : In pl cp) by (apply in_rev; rewrite E; apply in_or_app; right; left; reflexivity).
    unfold ProgressFaults.attempt_ops in H.
    destruct (gate h jid c); [|discriminate].
    destruct (place_chunk pred tgate nord gsel ns h jid c []) as [[ns2 cp2]|] eqn:Pc; [|discriminate].
    destruct (shouldpipe jid cp2).
    - (* every operation was converted to a nomination: no Bind, nothing to refuse *)
      destruct (convert_all ns2 (rev cp2)); [|discriminate]. injection H as _ <-.
      apply in_map_iff in Ipl as (p0 & <- & _). discriminate.
    - injection H as <- <-.
      destruct (chunk_slack ns c ns h jid [] ns2 cp2 W Ok (shrinks_refl _) (Forall_nil _) Pc) as (S2 & Ok2 & Fs).
      apply unallocate_shrinks; [exact S2|exact Ok2| |exact Pf].
      exact (proj1 (Forall_forall _ _) Fs pl Ipl).
  Qed.

  (** * 5. Work conservation under all failure oracles *)

  Definition refused_at (st : lstate) (j : jobst) : Prop :=
    exists c rest ns_t h_t x,
      js_todo j = c :: rest /\ attempt ns_t h_t (js_id j) c = None /\ all_pods_ok ns_t
      /\ shrinks ns_t (ls_nodes st) /\ ls_hist st = x ++ h_t.

  Definition InvF (fs : fstate) : Prop :=
    all_pods_ok (ls_nodes (fs_ls fs)) /\ wf_jobs (ls_jobs (fs_ls fs))
    /\ Forall (fun j => js_failed j = true ->
                        was_hit (fs_calls fs) (js_id j) = true \/ refused_at (fs_ls fs) j) (ls_jobs (fs_ls fs)).

  Lemma was_hit_app_l cs x j : was_hit cs j = true -> was_hit (cs ++ x) j = true.
  Proof.
    unfold was_hit. rewrite hit_jobs_app, existsb_app. intros ->. reflexivity.
  Qed.

  Lemma refused_at_later st st' j :
    shrinks (ls_nodes st) (ls_nodes st') -> (exists x, ls_hist st' = x ++ ls_hist st) ->
    refused_at st j -> refused_at st' j.
  Proof.
    intros S (x & Eh) (c0 & r0 & ns_t & h_t & x0 & E1 & E2 & E3 & E4 & E5).
    exists c0, r0, ns_t, h_t, (x ++ x0). split; [exact E1|]. split; [exact E2|]. split; [exact E3|].
    split; [eapply shrinks_trans; eassumption|]. rewrite Eh, E5, app_assoc. reflexivity.
  Qed.

  Lemma InvF_step fs jid :
    InvF fs -> shrinks (ls_nodes (fs_ls fs)) (ls_nodes (fs_ls (step_f fs jid))) /\ InvF (step_f fs jid).
  Proof.
    intros (Ok & W & R). unfold ProgressFaults.step_f.
    destruct (fs_stopped fs); [split; [apply shrinks_refl|repeat split; assumption]|].
    destruct (find_job jid (ls_jobs (fs_ls fs))) as [j|] eqn:F; [|split; [apply shrinks_refl|repeat split; assumption]].
    destruct (find_job_in _ _ _ F) as [Ij Eid].
    destruct (js_failed j) eqn:Fl; [split; [apply shrinks_refl|repeat split; assumption]|].
    destruct (js_todo j) as [|c rest] eqn:Td; [split; [apply shrinks_refl|repeat split; assumption]|].
    assert (Wj : Forall (Forall wf_task) (c :: rest)).
    { rewrite <- Td. exact (proj1 (Forall_forall _ _) W j Ij). }
    inversion Wj as [|x l Wc Wrest]; subst x l.
    destruct (attempt_ops (ls_nodes (fs_ls fs)) (ls_hist (fs_ls fs)) jid c) as [[ns1 cp]|] eqn:At.
    - destruct (attempt_commit_shrinks _ _ _ _ _ _ (fs_kb fs) Wc Ok At) as [S1 Ok1].
      set (r := commit_f f jid (fs_kb fs) ns1 (rev cp)) in *.
      assert (Later : forall y, refused_at (fs_ls fs) y ->
                refused_at (mkLS (cr_nodes r) (rev (cr_kept r) ++ ls_hist (fs_ls fs)) (ls_jobs (fs_ls fs))) y).
      { intros y. apply refused_at_later; [exact S1|]. eexists. reflexivity. }
      assert (Same : forall js y, refused_at (mkLS (cr_nodes r) (rev (cr_kept r) ++ ls_hist (fs_ls fs)) (ls_jobs (fs_ls fs))) y ->
                refused_at (mkLS (cr_nodes r) (rev (cr_kept r) ++ ls_hist (fs_ls fs)) js) y).
      { intros js y H. exact H. }
      pose proof (commit_f_cases f jid (rev cp) (fs_kb fs) ns1) as Hr. cbv zeta in Hr. fold r in Hr.
      destruct (cr_refused r) eqn:Rf; unfold InvF; cbn [fs_ls fs_calls ls_nodes ls_jobs ls_hist]; (split; [exact S1|]); (split; [exact Ok1|]).
      + split; [apply wf_jobs_set; [exact W|exact Wj]|].
        apply Forall_forall. intros y Iy. destruct (in_set_job _ _ _ Iy) as [->|Iy'].
        * intros _. left. cbn [js_id].
          destruct Hr as [(Rn & _)|(_ & a & pl & b & _ & _ & _ & _ & Hh)]; [congruence|].
          unfold was_hit. rewrite hit_jobs_app, Hh, existsb_app. cbn [existsb]. rewrite Pos.eqb_refl, orb_true_r. reflexivity.
        * intros Hf. destruct (proj1 (Forall_forall _ _) R y Iy' Hf) as [Hh|Hr'].
          -- left. apply was_hit_app_l, Hh.
          -- right. apply Same, Later, Hr'.
      + split; [apply wf_jobs_set; [exact W|exact Wrest]|].
        apply Forall_forall. intros y Iy. destruct (in_set_job _ _ _ Iy) as [->|Iy'].
        * intros Hf. discriminate.
        * intros Hf. destruct (proj1 (Forall_forall _ _) R y Iy' Hf) as [Hh|Hr'].
          -- left. apply was_hit_app_l, Hh.
          -- right. apply Same, Later, Hr'.
    - unfold InvF. cbn [fs_ls fs_calls ls_nodes ls_jobs ls_hist]. split; [apply shrinks_refl|]. split; [exact Ok|].
      split; [apply wf_jobs_set; [exact W|exact Wj]|].
      apply Forall_forall. intros y Iy. destruct (in_set_job _ _ _ Iy) as [->|Iy'].
      + intros _. right. exists c, rest, (ls_nodes (fs_ls fs)), (ls_hist (fs_ls fs)), [].
        cbn [js_todo js_id ls_nodes ls_hist].
        split; [reflexivity|]. split; [rewrite attempt_ops_spec, At; reflexivity|]. split; [exact Ok|].
        split; [apply shrinks_refl|reflexivity].
      + intros Hf. destruct (proj1 (Forall_forall _ _) R y Iy' Hf) as [Hh|Hr']; [left; exact Hh|right; exact Hr'].
  Qed.

  Lemma InvF_fold order : forall fs,
    InvF fs -> shrinks (ls_nodes (fs_ls fs)) (ls_nodes (fs_ls (fold_left step_f order fs))) /\ InvF (fold_left step_f order fs).
  Proof.
    induction order as [|jid r IH]; intros fs I; cbn [fold_left]; [split; [apply shrinks_refl|exact I]|].
    destruct (InvF_step fs jid I) as [S1 I1]. destruct (IH _ I1) as [S2 I2].
    split; [eapply shrinks_trans; eassumption|exact I2].
  Qed.

  Lemma InvF_init st : wf_state st -> InvF (fs_init st).
  Proof.
    intros (Ok & _ & W & Nf). split; [exact Ok|]. split; [exact W|].
    eapply Forall_impl; [|exact Nf]. intros j Hj Hf. cbn [fs_init fs_ls] in *. congruence.
  Qed.

  (** Work conservation under Bind failures, homogeneous allocation units: after
      the allocate action, whatever Bind calls were refused, a job that is out
      of the loop with pods left to allocate either had one of its own Bind
      calls refused in this run or was refused, and then its unit cannot be
      bound as a whole on what is left while its queues would let it through. *)
  Theorem work_conservation_faults st0 order :
    gate_antitone gate -> gate_implies_tgate tgate gate -> covers nord (map fst (ls_nodes st0)) -> wf_state st0 ->
    let fs := fold_left step_f order (fs_init st0) in
    let st := fs_ls fs in
    forall j c rest, In j (ls_jobs st) -> js_failed j = true -> js_todo j = c :: rest ->
      homogeneous pred c -> NoDup (map t_id c) ->
      (forall t, In t c -> forall nid n, alookup nid (ls_nodes st) = Some n -> amem (t_id t) (n_pods n) = false) ->
      was_hit (fs_calls fs) (js_id j) = true
      \/ ~ (gate (ls_hist st) (js_id j) c = true /\ fits_all pred (ls_nodes st) c).
  Proof.
    intros GA GT Cov Wf fs st j c rest Ij Hf Td Hom NDc Fresh.
    pose proof (InvF_init _ Wf) as I0.
    destruct (InvF_fold order _ I0) as [S0 (Ok & W & R)]. fold fs in S0, Ok, W, R. fold st in S0, Ok, W, R.
    cbn [fs_init fs_ls] in S0.
    destruct (proj1 (Forall_forall _ _) R j Ij Hf) as [Hh|Rj]; [left; exact Hh|right].
    intros [G (asg & Fit)].
    destruct Rj as (c0 & r0 & ns_t & h_t & x & E1 & At & Okt & St & Eh). fold st in St, Eh.
    rewrite Td in E1. injection E1 as <- <-.
    assert (Wc : Forall wf_task c).
    { assert (Wj : Forall (Forall wf_task) (js_todo j)) by (exact (proj1 (Forall_forall _ _) W j Ij)).
      rewrite Td in Wj. inversion Wj; assumption. }
    pose proof (attempt_cases pred tgate gate nord gsel shouldpipe ns_t h_t (js_id j) c Wc Okt) as Hc.
    rewrite At in Hc. destruct Hc as [Gf|Pf].
    - rewrite Eh in G. apply GA in G. congruence.
    - destruct c as [|t0 tr]; [cbn in Pf; discriminate|].
      cbn [homogeneous] in Hom.
      assert (Gt : gate h_t (js_id j) (t0 :: tr) = true) by (rewrite Eh in G; eapply GA, G).
      set (r := t_req t0).
      assert (Nr : nonneg r) by (inversion Wc as [|? ? [_ Hn] _]; exact Hn).
      assert (Kt : map fst ns_t = map fst (ls_nodes st0)).
      { rewrite (shrinks_keys _ _ St). symmetry. apply shrinks_keys, S0. }
      pose proof (chunk_failure pred tgate nord gsel (List.length (t0 :: tr)) r t0 (t0 :: tr) ns_t h_t (js_id j) []
                    Pf Okt) as Hlt.
      assert (Hlt' : (potential (pred t0) (List.length (t0 :: tr)) r ns_t < List.length (t0 :: tr))%nat).
      { apply Hlt; try assumption.
        - rewrite Kt. destruct Wf as (_ & ND & _). exact ND.
        - rewrite Kt. exact Cov.
        - reflexivity.
        - intros t It nid n A.
          destruct (shrinks_lookup _ _ _ _ St A) as (n' & A' & (_ & _ & Ids)).
          specialize (Fresh t It nid n' A'). cbn [snd] in Ids.
          destruct (amem (t_id t) (n_pods n)) eqn:M; [|reflexivity].
          rewrite (Ids _ M) in Fresh. discriminate.
        - cbn [app]. apply GT, Gt. }
      pose proof (potential_shrinks (pred t0) (List.length (t0 :: tr)) r _ _ St) as Hs.
      pose proof (fits_seq_potential pred r t0 (t0 :: tr) (ls_nodes st) asg (List.length (t0 :: tr))
                    Nr eq_refl Hom Fit (le_n _)) as Hge.
      lia.
  Qed.
End Faulty.

(** * The statements *)

(** [carry_on = true] is the loop as it is; the statement about refused jobs
    holds for either variant (a loop that stops early refuses nobody) *)
Definition work_conservation_faults_statement (carry_on : bool) : Prop :=
  forall pred tgate gate nord gsel shouldpipe f st0 order,
    gate_antitone gate -> gate_implies_tgate tgate gate -> covers nord (map fst (ls_nodes st0)) -> wf_state st0 ->
    let fs := allocate_action_f pred tgate gate nord gsel shouldpipe carry_on f st0 order in
    let st := fs_ls fs in
    forall j c rest, In j (ls_jobs st) -> js_failed j = true -> js_todo j = c :: rest ->
      homogeneous pred c -> NoDup (map t_id c) ->
      (forall t, In t c -> forall nid n, alookup nid (ls_nodes st) = Some n -> amem (t_id t) (n_pods n) = false) ->
      was_hit (fs_calls fs) (js_id j) = true
      \/ ~ (gate (ls_hist st) (js_id j) c = true /\ fits_all pred (ls_nodes st) c).

Lemma work_conservation_faults_proof : forall carry_on, work_conservation_faults_statement carry_on.
Proof.
  unfold work_conservation_faults_statement, allocate_action_f. intros.
  eapply work_conservation_faults; eassumption.
Qed.

(** EVERY job that still has pods to allocate after the action, for a pop order
    that empties the queue of the loop as it is ([carry_on = true]: the real loop
    runs until JobsOrderByQueues is empty) *)
Definition every_pending_accounted (carry_on : bool) : Prop :=
  forall pred tgate gate nord gsel shouldpipe f st0 order,
    gate_antitone gate -> gate_implies_tgate tgate gate -> covers nord (map fst (ls_nodes st0)) -> wf_state st0 ->
    exhausted (fs_ls (allocate_action_f pred tgate gate nord gsel shouldpipe true f st0 order)) = true ->
    let fs := allocate_action_f pred tgate gate nord gsel shouldpipe carry_on f st0 order in
    let st := fs_ls fs in
    forall j c rest, In j (ls_jobs st) -> js_todo j = c :: rest ->
      homogeneous pred c -> NoDup (map t_id c) ->
      (forall t, In t c -> forall nid n, alookup nid (ls_nodes st) = Some n -> amem (t_id t) (n_pods n) = false) ->
      was_hit (fs_calls fs) (js_id j) = true
      \/ ~ (gate (ls_hist st) (js_id j) c = true /\ fits_all pred (ls_nodes st) c).

Lemma every_pending_accounted_proof : every_pending_accounted true.
Proof.
  unfold every_pending_accounted. intros pred tgate gate nord gsel shouldpipe f st0 order GA GT Cov Wf Ex. cbv zeta.
  intros j c rest Ij Td Hom ND Fr.
  assert (Hf : js_failed j = true) by (eapply exhausted_failed; eassumption).
  eapply (work_conservation_faults_proof true); eassumption.
Qed.

(** with no refused call the faulty loop is the loop of Model/Progress.v *)
Lemma no_faults_is_fault_free pred tgate gate nord gsel shouldpipe carry_on f st0 order :
  hit_jobs (fs_calls (allocate_action_f pred tgate gate nord gsel shouldpipe carry_on f st0 order)) = [] ->
  fs_ls (allocate_action_f pred tgate gate nord gsel shouldpipe carry_on f st0 order)
  = allocate_action pred tgate gate nord gsel shouldpipe st0 order.
Proof.
  intros H. unfold allocate_action_f, allocate_action.
  apply (fold_f_agrees pred tgate gate nord gsel shouldpipe carry_on f order (fs_init st0)); [reflexivity|exact H].
Qed.

Lemma no_bind_faults_never_hit pred tgate gate nord gsel shouldpipe carry_on : forall order fs,
  hit_jobs (fs_calls (fold_left (step_f pred tgate gate nord gsel shouldpipe carry_on no_bind_faults) order fs))
  = hit_jobs (fs_calls fs).
Proof.
  induction order as [|jid r IH]; intros fs; cbn [fold_left]; [reflexivity|].
  rewrite IH. unfold step_f.
  destruct (fs_stopped fs); [reflexivity|].
  destruct (find_job jid (ls_jobs (fs_ls fs))) as [j|]; [|reflexivity].
  destruct (js_failed j); [reflexivity|].
  destruct (js_todo j) as [|c rest]; [reflexivity|].
  destruct (attempt_ops pred tgate gate nord gsel shouldpipe (ls_nodes (fs_ls fs)) (ls_hist (fs_ls fs)) jid c) as [[ns1 cp]|];
    [|reflexivity].
  destruct (commit_f_no_faults jid (rev cp) (fs_kb fs) ns1) as (R & _ & _ & H).
  rewrite R. cbn [fs_calls]. rewrite hit_jobs_app, H, app_nil_r. reflexivity.
Qed.

Lemma no_bind_faults_fault_free pred tgate gate nord gsel shouldpipe carry_on st0 order :
  fs_ls (allocate_action_f pred tgate gate nord gsel shouldpipe carry_on no_bind_faults st0 order)
  = allocate_action pred tgate gate nord gsel shouldpipe st0 order.
Proof.
  apply no_faults_is_fault_free. unfold allocate_action_f. rewrite no_bind_faults_never_hit. reflexivity.
Qed.

(** * 6. Witnesses *)

(** the world of seeded/C05-4's README: one node with 3 GPUs, three queues, one
    1-GPU job each; the first Bind of the action is refused *)
Definition g_res (g : Z) : res := mkRes 500 1 g 1 0 0.
Definition g_node (g : Z) : node :=
  mkNode (mkRes 8000 16 g 110 0 0) (mkRes 8000 16 g 110 0 0) rzero rzero g 100 [] [] [] [] [].
Definition g_task (id job : positive) (g : Z) : task :=
  mkTask id job Pending KRegular (g_res g) 0 0 [] false false.
Definition g_nord (_ : hist) (_ : task) : list positive := [1%positive].
Definition r_unit (i : positive) : list task := [g_task i i 1].
Definition r_st0 : lstate :=
  mkLS [(1%positive, g_node 3)] [] [mkJS 1 [r_unit 1] false; mkJS 2 [r_unit 2] false; mkJS 3 [r_unit 3] false].
Definition r_order : list positive := [1; 2; 3]%positive.
Definition first_refused : boracle := fun k => Nat.eqb k 0.
Local Notation r_run carry_on :=
  (allocate_action_f x_pred x_tgate x_gate g_nord x_gsel x_shouldpipe carry_on first_refused r_st0 r_order).

Lemma g_wf_node g : pods_ok (g_node g).
Proof. split; [split; [exact I|constructor]|constructor]. Qed.

Lemma r_wf_state : wf_state r_st0.
Proof.
  split; [|split; [|split]].
  - repeat constructor; apply g_wf_node.
  - cbn. repeat constructor; cbn; intuition discriminate.
  - repeat constructor; cbn; unfold nonneg, ple; cbn; lia.
  - repeat constructor.
Qed.

(** the loop as it is: the refused pod is pending again, the other two are bound *)
Lemma r_carry_on :
  fs_calls (r_run true) = [ABindRefused 1 1 1; ABind 2 2 1; ABind 3 3 1]
  /\ exhausted (fs_ls (r_run true)) = true
  /\ ls_jobs (fs_ls (r_run true)) = [mkJS 1 [r_unit 1] true; mkJS 2 [] false; mkJS 3 [] false]
  /\ was_hit (fs_calls (r_run true)) 1 = true
  /\ fits_seq x_pred (ls_nodes (fs_ls (r_run true))) (r_unit 1) [1%positive] = true.
Proof. vm_compute. repeat split; reflexivity. Qed.

(** the variant that leaves Execute at the first failed commit: jobs 2 and 3 are
    never attempted, no Bind of theirs was refused, 3 GPUs are idle *)
Lemma r_stop :
  fs_calls (r_run false) = [ABindRefused 1 1 1]
  /\ ls_jobs (fs_ls (r_run false)) = [mkJS 1 [r_unit 1] true; mkJS 2 [r_unit 2] false; mkJS 3 [r_unit 3] false]
  /\ was_hit (fs_calls (r_run false)) 2 = false
  /\ fits_seq x_pred (ls_nodes (fs_ls (r_run false))) (r_unit 2) [1%positive] = true.
Proof. vm_compute. repeat split; reflexivity. Qed.

Lemma stop_at_first_failed_commit_refuted_proof : ~ every_pending_accounted false.
Proof.
  intros H.
  specialize (H x_pred x_tgate x_gate g_nord x_gsel x_shouldpipe first_refused r_st0 r_order).
  assert (GA : gate_antitone x_gate) by (intros ? ? ? ? _; reflexivity).
  assert (GT : gate_implies_tgate x_tgate x_gate) by (intros ? ? ? _; apply x_tgate_ok).
  assert (Cov : covers g_nord (map fst (ls_nodes r_st0))) by (intros h t k I; exact I).
  destruct r_stop as (_ & Ej & Nh & Fit).
  assert (Ex : exhausted (fs_ls (allocate_action_f x_pred x_tgate x_gate g_nord x_gsel x_shouldpipe true first_refused r_st0 r_order)) = true)
    by (vm_compute; reflexivity).
  specialize (H GA GT Cov r_wf_state Ex). cbv zeta in H.
  destruct (H (mkJS 2 [r_unit 2] false) (r_unit 2) []) as [Hh|Hn].
  - rewrite Ej. right. left. reflexivity.
  - reflexivity.
  - cbn. repeat constructor.
  - cbn. repeat constructor. intros [].
  - intros t _ nid n A. revert A. vm_compute. destruct nid; try discriminate. intros A. injection A as <-. reflexivity.
  - cbn [js_id] in Hh. rewrite Nh in Hh. discriminate.
  - apply Hn. split; [reflexivity|]. exists [1%positive]. exact Fit.
Qed.

(** accepted binds are NOT monotone in the oracle: a refused Bind gives the
    pod's capacity (and quota) back, and a job ordered later takes it.  One node
    with 1 GPU, jobs 1 and 2 with one 1-GPU pod each: fault-free, job 1 is bound
    and job 2 refused; with the first Bind refused job 2 is bound - a Bind that
    the fault-free run never makes, for a job no Bind of which was refused. *)
Definition m_st0 : lstate := mkLS [(1%positive, g_node 1)] [] [mkJS 1 [r_unit 1] false; mkJS 2 [r_unit 2] false].
Local Notation m_run f :=
  (allocate_action_f x_pred x_tgate x_gate g_nord x_gsel x_shouldpipe true f m_st0 [1; 2]%positive).

Definition accepted_binds_monotone : Prop :=
  forall pred tgate gate nord gsel shouldpipe f st0 order t n,
    In (t, n) (accepted_binds (fs_calls (allocate_action_f pred tgate gate nord gsel shouldpipe true f st0 order))) ->
    In (t, n) (accepted_binds (fs_calls (allocate_action_f pred tgate gate nord gsel shouldpipe true no_bind_faults st0 order))).

Lemma accepted_binds_monotone_refuted_proof : ~ accepted_binds_monotone.
Proof.
  intros H.
  specialize (H x_pred x_tgate x_gate g_nord x_gsel x_shouldpipe first_refused m_st0 [1; 2]%positive 2%positive 1%positive).
  assert (I : In (2%positive, 1%positive) (accepted_binds (fs_calls (m_run first_refused)))) by (vm_compute; left; reflexivity).
  specialize (H I). vm_compute in H. destruct H as [E|[]]. discriminate.
Qed.

(** dropped operations hold capacity.  One node with 2 GPUs; gang a (two 1-GPU
    pods, queue order first), gang b (two 1-GPU pods).  The Bind of a's first pod
    is refused: that pod is released, the operation for a's second pod is dropped
    - the pod stays Allocated on the node in the session, no Bind is issued for it.
    In the session one GPU is idle and b is refused; at the API server no pod of
    this cycle was bound: both GPUs are idle and b would fit. *)
Definition d_unit (j a b : positive) : list task := [g_task a j 1; g_task b j 1].
Definition d_st0 : lstate := mkLS [(1%positive, g_node 2)] [] [mkJS 1 [d_unit 1 1 2] false; mkJS 2 [d_unit 2 3 4] false].
Local Notation d_run :=
  (allocate_action_f x_pred x_tgate x_gate g_nord x_gsel x_shouldpipe true first_refused d_st0 [1; 2]%positive).

Lemma d_dropped :
  fs_calls d_run = [ABindRefused 1 1 1]
  /\ map (fun pl => t_id (pl_task pl)) (dropped_ops d_run) = [2%positive]
  /\ ls_jobs (fs_ls d_run) = [mkJS 1 [d_unit 1 1 2] true; mkJS 2 [d_unit 2 3 4] true]
  /\ was_hit (fs_calls d_run) 2 = false
  /\ exhausted (fs_ls d_run) = true
  /\ (forall asg, fits_seq x_pred (ls_nodes (fs_ls d_run)) (d_unit 2 3 4) asg = false)
  /\ fits_seq x_pred (ground_truth d_run) (d_unit 2 3 4) [1%positive; 1%positive] = true.
Proof.
  split; [vm_compute; reflexivity|]. split; [vm_compute; reflexivity|]. split; [vm_compute; reflexivity|].
  split; [vm_compute; reflexivity|]. split; [vm_compute; reflexivity|]. split; [|vm_compute; reflexivity].
  intros asg. destruct asg as [|a1 asg]; [reflexivity|].
  destruct a1; try reflexivity.
  destruct asg as [|a2 asg]; [reflexivity|].
  destruct a2; reflexivity.
Qed.

(** the statement against the cluster as the API server knows it *)
Definition every_pending_accounted_at_api_server : Prop :=
  forall pred tgate gate nord gsel shouldpipe f st0 order,
    gate_antitone gate -> gate_implies_tgate tgate gate -> covers nord (map fst (ls_nodes st0)) -> wf_state st0 ->
    let fs := allocate_action_f pred tgate gate nord gsel shouldpipe true f st0 order in
    let st := fs_ls fs in
    exhausted st = true ->
    forall j c rest, In j (ls_jobs st) -> js_todo j = c :: rest ->
      homogeneous pred c -> NoDup (map t_id c) ->
      (forall t, In t c -> forall nid n, alookup nid (ls_nodes st) = Some n -> amem (t_id t) (n_pods n) = false) ->
      was_hit (fs_calls fs) (js_id j) = true
      \/ ~ (gate (ls_hist st) (js_id j) c = true /\ fits_all pred (ground_truth fs) c).

Lemma dropped_operations_hold_capacity_proof : ~ every_pending_accounted_at_api_server.
Proof.
  intros H.
  specialize (H x_pred x_tgate x_gate g_nord x_gsel x_shouldpipe first_refused d_st0 [1; 2]%positive).
  assert (GA : gate_antitone x_gate) by (intros ? ? ? ? _; reflexivity).
  assert (GT : gate_implies_tgate x_tgate x_gate) by (intros ? ? ? _; apply x_tgate_ok).
  assert (Cov : covers g_nord (map fst (ls_nodes d_st0))) by (intros h t k I; exact I).
  assert (Wf : wf_state d_st0).
  { split; [|split; [|split]].
    - repeat constructor; apply g_wf_node.
    - cbn. repeat constructor; cbn; intuition discriminate.
    - repeat constructor; cbn; unfold nonneg, ple; cbn; lia.
    - repeat constructor. }
  destruct d_dropped as (_ & _ & Ej & Nh & Ex & _ & Fit).
  specialize (H GA GT Cov Wf). cbv zeta in H. specialize (H Ex).
  destruct (H (mkJS 2 [d_unit 2 3 4] true) (d_unit 2 3 4) []) as [Hh|Hn].
  - rewrite Ej. right. left. reflexivity.
  - reflexivity.
  - cbn. repeat constructor.
  - cbn. repeat constructor; cbn; intuition discriminate.
  - intros t It nid n A. revert A. vm_compute. destruct nid; try discriminate. intros A. injection A as <-.
    destruct It as [<-|[<-|[]]]; reflexivity.
  - cbn [js_id] in Hh. rewrite Nh in Hh. discriminate.
  - apply Hn. split; [reflexivity|]. exists [1%positive; 1%positive]. exact Fit.
Qed.
