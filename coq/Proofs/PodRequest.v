(** Proofs about the pod request rule (Model/PodRequest.v). *)
From Coq Require Import List ZArith Bool Lia.
From KaiV Require Import Model.Res Model.Node Model.NodeSpec Model.PodRequest.
Import ListNotations.
Open Scope Z_scope.

Lemma proj_radd k a b : proj k (radd a b) = proj k a + proj k b.
Proof. destruct k; reflexivity. Qed.
Lemma proj_rmax k a b : proj k (rmax a b) = Z.max (proj k a) (proj k b).
Proof. destruct k; reflexivity. Qed.
Lemma proj_rzero k : proj k rzero = 0.
Proof. destruct k; reflexivity. Qed.
Lemma proj_ext a b : (forall k, proj k a = proj k b) -> a = b.
Proof.
  intros H. destruct a, b.
  pose proof (H KCpu); pose proof (H KMem); pose proof (H KGpu); pose proof (H KPods); pose proof (H KMig); pose proof (H KExt).
  cbn in *. congruence.
Qed.

Lemma proj_rsum k l : proj k (rsum l) = fold_right Z.add 0 (map (proj k) l).
Proof.
  induction l as [|x l IH]; [apply proj_rzero|].
  unfold rsum in *. cbn [fold_right map]. rewrite proj_radd, IH. reflexivity.
Qed.
Lemma proj_rmaxl k l : forall a, proj k (rmaxl a l) = zmaxl (proj k a) (map (proj k) l).
Proof.
  induction l as [|x l IH]; intros a; [reflexivity|].
  unfold rmaxl, zmaxl in *. cbn [fold_left map]. rewrite IH, proj_rmax. reflexivity.
Qed.

Lemma zmaxl_ge_acc l : forall a, a <= zmaxl a l.
Proof.
  induction l as [|x l IH]; intros a; unfold zmaxl in *; cbn [fold_left]; [lia|].
  specialize (IH (Z.max a x)). lia.
Qed.
Lemma zmaxl_ge_in l : forall a x, In x l -> x <= zmaxl a l.
Proof.
  induction l as [|y l IH]; intros a x H; [destruct H|]. destruct H as [E|I]; unfold zmaxl in *; cbn [fold_left].
  - subst. pose proof (zmaxl_ge_acc l (Z.max a x)). unfold zmaxl in *. lia.
  - apply IH, I.
Qed.
Lemma zmaxl_least l : forall a r, a <= r -> (forall x, In x l -> x <= r) -> zmaxl a l <= r.
Proof.
  induction l as [|y l IH]; intros a r Ha Hl; unfold zmaxl in *; cbn [fold_left]; [exact Ha|].
  apply IH; [|intros x I; apply Hl; right; exact I].
  pose proof (Hl y (or_introl eq_refl)). lia.
Qed.
Lemma zmaxl_max l : forall a b, zmaxl (Z.max a b) l = Z.max a (zmaxl b l).
Proof.
  induction l as [|y l IH]; intros a b; unfold zmaxl in *; cbn [fold_left]; [reflexivity|].
  rewrite <- IH. f_equal. lia.
Qed.
Lemma zmaxl_split l a : 0 <= a -> zmaxl a l = Z.max a (zmaxl 0 l).
Proof. intros H. rewrite <- zmaxl_max. f_equal. lia. Qed.

Lemma sum_nonneg k l : Forall res_nonneg l -> 0 <= proj k (rsum l).
Proof.
  intros F. rewrite proj_rsum. induction F as [|x l Hx F IH]; cbn [map fold_right]; [lia|].
  specialize (Hx k). lia.
Qed.

(** ** booking [pod_request] covers every stage of the pod's life *)
Lemma request_covers_run p k :
  proj k (rsum (ps_conts p)) + proj k (ps_overhead p) <= proj k (pod_request p).
Proof.
  unfold pod_request. rewrite proj_radd, proj_rmaxl.
  pose proof (zmaxl_ge_acc (map (proj k) (ps_inits p)) (proj k (rsum (ps_conts p)))). lia.
Qed.
Lemma request_covers_init p k c :
  In c (ps_inits p) -> proj k c + proj k (ps_overhead p) <= proj k (pod_request p).
Proof.
  intros I. unfold pod_request. rewrite proj_radd, proj_rmaxl.
  pose proof (zmaxl_ge_in (map (proj k) (ps_inits p)) (proj k (rsum (ps_conts p))) (proj k c) (in_map _ _ _ I)). lia.
Qed.
Lemma request_covers_every_stage p s k : proj k (demand_at p s) <= proj k (pod_request p).
Proof.
  destruct s as [i|]; cbn [demand_at].
  - destruct (nth_error (ps_inits p) i) as [c|] eqn:E; rewrite proj_radd.
    + apply request_covers_init. eapply nth_error_In, E.
    + apply request_covers_run.
  - rewrite proj_radd. apply request_covers_run.
Qed.
(** ... and it is the least booking that does *)
Lemma request_is_least p r k :
  proj k (rsum (ps_conts p)) + proj k (ps_overhead p) <= proj k r ->
  (forall c, In c (ps_inits p) -> proj k c + proj k (ps_overhead p) <= proj k r) ->
  proj k (pod_request p) <= proj k r.
Proof.
  intros Hr Hi. unfold pod_request. rewrite proj_radd, proj_rmaxl.
  assert (zmaxl (proj k (rsum (ps_conts p))) (map (proj k) (ps_inits p)) <= proj k r - proj k (ps_overhead p)); [|lia].
  apply zmaxl_least; [lia|]. intros x I. apply in_map_iff in I. destruct I as [c [E I]]. subst x.
  specialize (Hi c I). lia.
Qed.
Lemma request_is_least_over_stages p r k :
  (forall s, proj k (demand_at p s) <= proj k r) -> proj k (pod_request p) <= proj k r.
Proof.
  intros H. apply request_is_least.
  - specialize (H StRun). cbn [demand_at] in H. rewrite proj_radd in H. exact H.
  - intros c I. apply In_nth_error in I. destruct I as [i E].
    specialize (H (StInit i)). cbn [demand_at] in H. rewrite E, proj_radd in H. exact H.
Qed.

(** ** adding the overhead before the maximum *)
Lemma request_formulas p k :
  spec_nonneg p ->
  proj k (pod_request p) = Z.max (proj k (rsum (ps_conts p))) (max_init k p) + proj k (ps_overhead p)
  /\ proj k (early_overhead_request p) = Z.max (proj k (rsum (ps_conts p)) + proj k (ps_overhead p)) (max_init k p).
Proof.
  intros [Hc [_ Ho]]. pose proof (sum_nonneg k _ Hc) as Hs. specialize (Ho k).
  unfold pod_request, early_overhead_request, max_init.
  rewrite !proj_radd, !proj_rmaxl, proj_radd.
  rewrite (zmaxl_split _ (proj k (rsum (ps_conts p)))) by lia.
  rewrite (zmaxl_split _ (proj k (rsum (ps_conts p)) + proj k (ps_overhead p))) by lia.
  split; reflexivity.
Qed.
Lemma early_overhead_deficit p k :
  spec_nonneg p ->
  proj k (pod_request p) - proj k (early_overhead_request p)
  = Z.max 0 (Z.min (proj k (ps_overhead p)) (max_init k p - proj k (rsum (ps_conts p)))).
Proof.
  intros W. destruct (request_formulas p k W) as [E1 E2]. rewrite E1, E2.
  destruct W as [_ [_ Ho]]. specialize (Ho k). lia.
Qed.
Lemma early_overhead_never_above p k :
  spec_nonneg p -> proj k (early_overhead_request p) <= proj k (pod_request p).
Proof. intros W. pose proof (early_overhead_deficit p k W). lia. Qed.
Lemma early_overhead_under_reads_iff p k :
  spec_nonneg p ->
  (proj k (early_overhead_request p) < proj k (pod_request p)
   <-> 0 < proj k (ps_overhead p) /\ proj k (rsum (ps_conts p)) < max_init k p).
Proof. intros W. pose proof (early_overhead_deficit p k W). lia. Qed.

(** the README pod: read as 1500m / 1.5Gi instead of 2000m / 2Gi; four such pods pass a guard kept in the smaller
    units on a 6-core / 6Gi node (3 already booked, the 4th still "fits") and then request 8 cores / 8Gi of it *)
Lemma readme_witness :
  pod_request readme_pod = mkRes 2000 2147483648 0 0 0 0
  /\ early_overhead_request readme_pod = mkRes 1500 1610612736 0 0 0 0
  /\ (let node := mkRes 6000 6442450944 0 110 0 0 in
      let idle3 := rsub node (rsum (repeat (radd (early_overhead_request readme_pod) one_pod_slot) 3)) in
      rle (radd (early_overhead_request readme_pod) one_pod_slot) idle3 = true
      /\ cpu node < cpu (rsum (repeat (booked readme_pod) 4))
      /\ mem node < mem (rsum (repeat (booked readme_pod) 4))
      /\ rle (booked readme_pod) (rsub node (rsum (repeat (booked readme_pod) 3))) = false).
Proof. vm_compute. repeat split; reflexivity. Qed.

(** ** sidecars: without restartable init containers the upstream aggregation is [pod_request] *)
Lemma radd_rzero_r c : radd c rzero = c.
Proof. apply proj_ext. intros k. rewrite proj_radd, proj_rzero. lia. Qed.
Lemma k8s_fold_no_sidecar l : forall sc im,
  fold_left k8s_step (map (pair false) l) (sc, im) = (sc, rmaxl im (map (fun c => radd c sc) l)).
Proof.
  induction l as [|c l IH]; intros sc im; [reflexivity|].
  cbn [map fold_left]. unfold k8s_step at 2. cbn [fst snd]. rewrite IH. reflexivity.
Qed.
Lemma k8s_request_no_sidecar p :
  Forall res_nonneg (ps_conts p) ->
  k8s_request (ps_conts p) (map (pair false) (ps_inits p)) (ps_overhead p) = pod_request p.
Proof.
  intros Hc. unfold k8s_request, pod_request. rewrite k8s_fold_no_sidecar. cbn [fst snd].
  rewrite (map_ext _ (fun c => c)) by apply radd_rzero_r. rewrite map_id, radd_rzero_r.
  f_equal. apply proj_ext. intros k. rewrite proj_rmax, !proj_rmaxl, proj_rzero.
  rewrite (zmaxl_split _ (proj k (rsum (ps_conts p)))); [reflexivity|]. apply sum_nonneg, Hc.
Qed.

(** ** sums over the pods of a node *)
Lemma rsum_map_le {A} (f g : A -> res) k (l : list A) :
  (forall x, In x l -> proj k (f x) <= proj k (g x)) -> proj k (rsum (map f l)) <= proj k (rsum (map g l)).
Proof.
  induction l as [|x l IH]; intros H; [cbn; lia|].
  unfold rsum in *. cbn [map fold_right]. rewrite !proj_radd.
  pose proof (H x (or_introl eq_refl)). specialize (IH (fun y I => H y (or_intror I))). lia.
Qed.
Lemma rsum_map_eq {A} (f g : A -> res) k (l : list A) :
  (forall x, In x l -> proj k (f x) = proj k (g x)) -> proj k (rsum (map f l)) = proj k (rsum (map g l)).
Proof.
  induction l as [|x l IH]; intros H; [reflexivity|].
  unfold rsum in *. cbn [map fold_right]. rewrite !proj_radd.
  rewrite (H x (or_introl eq_refl)), (IH (fun y I => H y (or_intror I))). reflexivity.
Qed.

(** Books kept in [booked] units: whatever stage each pod is in, what the pods hold together is at most the sum of
    their charges. *)
Lemma held_within_charges (ts : list task) (spec : task -> podspec) (st : task -> pstage) k :
  k <> KGpu -> k <> KPods ->
  (forall x, In x ts -> proj k (charge x) = proj k (booked (spec x))) ->
  proj k (rsum (map (fun x => demand_at (spec x) (st x)) ts)) <= proj k (rsum (map charge ts)).
Proof.
  intros G P H. rewrite (rsum_map_eq charge (fun x => booked (spec x)) k ts H).
  apply rsum_map_le. intros x _. unfold booked. rewrite proj_radd.
  pose proof (request_covers_every_stage (spec x) (st x) k). destruct k; cbn [proj one_pod_slot cpu mem gpu pods mig ext] in *; try lia; congruence.
Qed.
