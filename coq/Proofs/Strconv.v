From Coq Require Import List ZArith NArith String Ascii Bool Lia ZifyBool ZifyN.
Set Default Timeout 20.
From KaiV Require Import Model.Strconv.
Import ListNotations.
Ltac Zify.zify_post_hook ::= Z.div_mod_to_equations.

Open Scope N_scope.

Lemma f_abs_mod b : f_abs b = b mod 2^63.
Proof. unfold f_abs. change 9223372036854775807 with (N.ones 63). apply N.land_ones. Qed.

Lemma f_exp_div b : f_exp b = (b mod 2^63) / 2^52.
Proof.
  unfold f_exp. change 2047 with (N.ones 11). rewrite N.land_ones, N.shiftr_div_pow2.
  change (2^63) with (2^52 * 2^11).
  rewrite N.mod_mul_r by (vm_compute; discriminate).
  rewrite (N.mul_comm (2^52)), N.div_add by (vm_compute; discriminate).
  rewrite (N.div_small (b mod 2^52)); [reflexivity|].
  apply N.mod_lt. vm_compute; discriminate.
Qed.

(** A positive double below 1.0 (by bit pattern) has a finite exponent. *)
Lemma lt_one_finite b : f_abs b <? one_bits = true -> f_is_finite b = true.
Proof.
  unfold f_is_finite. rewrite f_exp_div, f_abs_mod. unfold one_bits.
  intros H. apply N.ltb_lt in H.
  apply negb_true_iff, N.eqb_neq. intros E.
  assert (Hd : (b mod 2^63) / 2^52 <= 4607182418800017408 / 2^52).
  { apply N.div_le_mono; [vm_compute; discriminate|lia]. }
  rewrite E in Hd. vm_compute in Hd. apply Hd. reflexivity.
Qed.

Lemma gt0_lt1_finite b : f_gt0 b = true -> f_lt1 b = true -> f_is_finite b = true.
Proof.
  unfold f_gt0, f_lt1. intros H0 H1.
  apply andb_true_iff in H0 as [H0 Hz]. apply andb_true_iff in H0 as [Hn Hs].
  apply andb_true_iff in H1 as [_ H1].
  apply negb_true_iff in Hs. rewrite Hs in H1. cbn [orb] in H1.
  now apply lt_one_finite.
Qed.

Lemma gt0_lt1_not_ge1 b : f_lt1 b = true -> f_gt0 b = true -> f_ge1 b = false.
Proof.
  unfold f_gt0, f_lt1, f_ge1. intros H1 H0.
  apply andb_true_iff in H0 as [H0 Hz]. apply andb_true_iff in H0 as [Hn Hs].
  apply andb_true_iff in H1 as [_ H1].
  apply negb_true_iff in Hs. rewrite Hs in *. cbn [orb negb andb] in *.
  rewrite Hn. cbn [orb negb andb]. apply N.ltb_lt in H1. apply N.leb_gt. exact H1.
Qed.

Lemma gt0_not_le0 b : f_gt0 b = true -> f_le0 b = false.
Proof.
  unfold f_gt0, f_le0. intros H0.
  apply andb_true_iff in H0 as [H0 Hz]. apply andb_true_iff in H0 as [Hn Hs].
  apply negb_true_iff in Hs, Hz. rewrite Hs, Hz. cbn [orb]. now rewrite andb_false_r.
Qed.

Lemma lt1_not_gt1 b : f_lt1 b = true -> f_gt0 b = true -> f_gt1 b = false.
Proof.
  unfold f_gt0, f_lt1, f_gt1. intros H1 H0.
  apply andb_true_iff in H0 as [H0 Hz]. apply andb_true_iff in H0 as [Hn Hs].
  apply andb_true_iff in H1 as [_ H1].
  apply negb_true_iff in Hs. rewrite Hs in *. cbn [orb negb andb] in *.
  rewrite Hn. cbn [orb negb andb]. apply N.ltb_lt in H1. apply N.ltb_ge. lia.
Qed.

Open Scope Z_scope.

Lemma parse_int_range s n : parse_int s = Some n ->
  (-9223372036854775808 <= n < 9223372036854775808)%Z.
Proof.
  unfold parse_int. destruct s as [|a r]; [discriminate|].
  destruct (if (N_of_ascii a =? 43)%N then (false, r)
            else if (N_of_ascii a =? 45)%N then (true, r) else (false, String a r)) as [neg body].
  destruct body as [|c body']; [discriminate|].
  destruct (digits (String c body') 0) as [m|]; [|discriminate].
  unfold two63. destruct neg.
  - destruct (N.leb_spec m 9223372036854775808); [|discriminate]. intros E; inversion E; subst. lia.
  - destruct (N.ltb_spec m 9223372036854775808); [|discriminate]. intros E; inversion E; subst. lia.
Qed.

Lemma parse_int_empty : parse_int EmptyString = None.
Proof. reflexivity. Qed.
