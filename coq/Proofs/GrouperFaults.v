(** Proofs for C18 under API faults on the owner GETs (Model/GrouperFaults.v). *)
From Coq Require Import List String Ascii ZArith Bool Arith Lia.
From KaiV Require Import Model.Grouper Model.GrouperSpec Model.GrouperFaults Proofs.Grouper.
Import ListNotations.
Set Default Timeout 60.
Open Scope string_scope.

(** * Namespaces *)
Lemma get_ns_aset : forall (ws : wstate) n n' s,
    get_ns n' (aset n s ws) = if String.eqb n' n then s else get_ns n' ws.
Proof. intros ws n n' s. unfold get_ns. rewrite lookup_aset. now destruct (String.eqb n' n). Qed.

Lemma get_ns_nil : forall n, get_ns n [] = empty_state.
Proof. reflexivity. Qed.

(** the grouper-owned comparison does not read the answers *)
Lemma agrees_with_fresh_answers : forall cfg fb t s,
    agrees_with_fresh (with_forbidden cfg fb) t s <-> agrees_with_fresh cfg t s.
Proof. intros cfg fb t s. unfold agrees_with_fresh, owned_agree. cbn [with_forbidden c_queue_key c_nodepool_key]. tauto. Qed.

(** * History independence with faults *)

(** the statement for a reconciler [rc] with instance state [I], [init] being the state of a pod-grouper that
    just started: ANY history [hs] from ANY start (owner objects of every namespace, rule, stores, instance
    state) - reconciles under whatever transient faults, grants, revokes, any other change of the rule, foreign
    updates, edited owner objects, overwritten and deleted PodGroups -, then the reconciles [ps] (pods with an
    owner reference, of any namespaces, in any order, with any repetitions, each under its own transient
    faults) under the final owner objects and the final rule: in every namespace, every PodGroup that the SAME
    reconciles build on a new pod-grouper instance from empty stores exists and agrees with it on the
    grouper-owned part, and every pod assigned there is assigned to the same PodGroup *)
Definition fault_history_independent_statement {I : Type} (init : I)
           (rc : config -> list obj -> pod -> state * I -> (state * Z) * I) : Prop :=
  forall cfg (fs0 : fstate I) (hs : list fevent) (ps : list (string * pod * transient)),
    (forall x, In x ps -> p_owners (snd (fst x)) <> []) ->
    let fs := frun rc cfg hs fs0 in
    let hist := frecs rc cfg (fs_objs fs) (fs_rbac fs) ps (fs_ws fs, fs_inst fs) in
    let fresh := frecs rc cfg (fs_objs fs) (fs_rbac fs) ps ([], init) in
    forall n, agrees_with_fresh cfg (get_ns n (fst fresh)) (get_ns n (fst hist)).

Lemma frec_code : forall cfg objs rb n p tr ws i,
    frec code_rc cfg objs rb n p tr (ws, i)
    = ((aset n (rec_step annot_fix patch_fix true pg_equal_v1 (eff_cfg cfg rb n tr)
                         (visible (tr_failing tr) (cluster_of objs n)) p (get_ns n ws)) ws,
        snd (reconcile (eff_cfg cfg rb n tr) (visible (tr_failing tr) (cluster_of objs n)) p (get_ns n ws))), tt).
Proof. reflexivity. Qed.

Lemma frecs_agree : forall cfg objs rb ps wf wh i j,
    (forall x, In x ps -> p_owners (snd (fst x)) <> []) ->
    (forall n, agrees_with_fresh cfg (get_ns n wf) (get_ns n wh)) ->
    forall n, agrees_with_fresh cfg (get_ns n (fst (frecs code_rc cfg objs rb ps (wf, i))))
                                (get_ns n (fst (frecs code_rc cfg objs rb ps (wh, j)))).
Proof.
  intros cfg objs rb ps. induction ps as [|[[n0 p] tr] ps IH]; intros wf wh i j Hown H; [exact H|].
  unfold frecs. cbn [fold_left fst snd]. rewrite !frec_code. cbn [fst snd].
  apply (IH _ _ tt tt); [intros x Hx; apply Hown; now right|].
  intros n. rewrite !get_ns_aset. destruct (String.eqb n n0); [|apply H].
  apply (proj1 (agrees_with_fresh_answers cfg (eff_forbidden cfg rb n0 tr) _ _)).
  apply agrees_with_fresh_step.
  - apply (Hown (n0, p, tr)). now left.
  - apply (proj2 (agrees_with_fresh_answers cfg (eff_forbidden cfg rb n0 tr) _ _)). apply H.
Qed.

(** the code as it is: the history does not matter *)
Theorem fault_history_independent : fault_history_independent_statement tt code_rc.
Proof.
  intros cfg fs0 hs ps Hown fs hist fresh n. subst hist fresh.
  destruct (fs_inst fs). apply frecs_agree; [exact Hown|].
  intros n'. rewrite get_ns_nil. apply agrees_with_fresh_empty.
Qed.

(** * One reconcile is a function of the pod, the objects of its namespace and the answers of the moment *)
Theorem assignment_function_of_answers : forall cfg objs rb n p tr ws,
    p_owners p <> [] ->
    let r := freconcile cfg objs rb n p tr ws in
    (forall n', n' <> n -> get_ns n' (fst r) = get_ns n' ws)
    /\ match fmd cfg objs rb n p tr None with
       | None => get_ns n (fst r) = get_ns n ws /\ snd r = 0%Z
       | Some m => get_asg (p_name p) (get_ns n (fst r)) = Some (m_name m)
                   /\ (exists g, get_pg (m_name m) (get_ns n (fst r)) = Some g
                                 /\ owned_agree cfg (norm (create_pg m)) g)
                   /\ (get_pg (m_name m) (get_ns n ws) = None ->
                       get_pg (m_name m) (get_ns n (fst r)) = Some (norm (create_pg m)))
       end.
Proof.
  intros cfg objs rb n p tr ws Hown r. subst r. unfold freconcile. rewrite frec_code. cbn [fst snd]. split.
  - intros n' Hn. rewrite get_ns_aset. destruct (String.eqb_spec n' n); [contradiction|reflexivity].
  - rewrite get_ns_aset, String.eqb_refl. unfold fmd.
    set (c := eff_cfg cfg rb n tr). set (cl := visible (tr_failing tr) (cluster_of objs n)). set (s := get_ns n ws).
    rewrite (full_md_indep_all c cl p None (get_asg (p_name p) s) Hown).
    destruct (full_md c cl p (get_asg (p_name p) s)) as [m|] eqn:E.
    + destruct (rec_step_some annot_fix patch_fix true pg_equal_v1 c cl p s m E) as [P [A _]].
      split; [now rewrite A, String.eqb_refl|].
      split; [|intros Hnone; fold s in Hnone; rewrite P, String.eqb_refl, Hnone; reflexivity].
      eexists. split; [rewrite P, String.eqb_refl; reflexivity|].
      destruct (apply_slot_owned c m (get_pg (m_name m) s)) as [V [L N]].
      split; [exact V|]. split.
      * intros k v Hq Hnp Hk. apply L; [exact Hq|exact Hnp|].
        cbn [norm create_pg pg_labels] in Hk. now rewrite mget_norm_map in Hk.
      * intros k v Hk. apply N. cbn [norm create_pg pg_annots] in Hk. now rewrite mget_norm_map in Hk.
    + unfold rec_step, reconcile. unfold full_md in E. rewrite (rec_step_none _ _ true pg_equal_v1 _ _ _ _ E), (rec_step_none _ _ ignore_sg pg_equal _ _ _ _ E). now split.
Qed.

(** ... so after ANY history the reconcile of a pod assigns it to the PodGroup computed from the final answers
    alone ([fmd] takes no store and no history) *)
Theorem assignment_after_any_history : forall cfg (fs0 : fstate unit) hs n p tr m,
    p_owners p <> [] ->
    let fs := frun code_rc cfg hs fs0 in
    fmd cfg (fs_objs fs) (fs_rbac fs) n p tr None = Some m ->
    let ws' := fst (freconcile cfg (fs_objs fs) (fs_rbac fs) n p tr (fs_ws fs)) in
    get_asg (p_name p) (get_ns n ws') = Some (m_name m)
    /\ exists g, get_pg (m_name m) (get_ns n ws') = Some g /\ owned_agree cfg (norm (create_pg m)) g.
Proof.
  intros cfg fs0 hs n p tr m Hown fs Hm ws'. subst ws'.
  destruct (assignment_function_of_answers cfg (fs_objs fs) (fs_rbac fs) n p tr (fs_ws fs) Hown) as [_ H].
  rewrite Hm in H. destruct H as [H1 [H2 _]]. now split.
Qed.

(** * Equal answers: the lists of refused kinds are read as sets *)
Lemma existsb_eqb_In : forall k l, existsb (String.eqb k) l = true <-> In k l.
Proof.
  intros k l. rewrite existsb_exists. split.
  - intros [x [Hx E]]. apply String.eqb_eq in E. now subst.
  - intros H. exists k. split; [exact H|apply String.eqb_refl].
Qed.

Lemma existsb_eqb_ext : forall k l l', (forall x, In x l <-> In x l') ->
    existsb (String.eqb k) l = existsb (String.eqb k) l'.
Proof.
  intros k l l' H. destruct (existsb (String.eqb k) l) eqn:E; symmetry.
  - apply existsb_eqb_In, H, existsb_eqb_In, E.
  - destruct (existsb (String.eqb k) l') eqn:E'; [|reflexivity].
    apply existsb_eqb_In, H, existsb_eqb_In in E'. congruence.
Qed.

Lemma visible_ext : forall f f' cl, (forall x, In x f <-> In x f') -> visible f cl = visible f' cl.
Proof.
  intros f f' cl H. unfold visible. apply filter_ext. intros o. now rewrite (existsb_eqb_ext _ f f' H).
Qed.

(** two configurations that differ in the list of refused kinds only, and refuse the same kinds *)
Definition cfg_equiv (c c' : config) : Prop :=
  c_queue_key c = c_queue_key c' /\ c_nodepool_key c = c_nodepool_key c' /\ c_prio_classes c = c_prio_classes c'
  /\ c_defaults c = c_defaults c' /\ (forall k, In k (c_forbidden c) <-> In k (c_forbidden c')).

Section CfgEquiv.
  Variables c c' : config.
  Hypothesis E : cfg_equiv c c'.

  Lemma get_owner_equiv : forall cl r, get_owner c cl r = get_owner c' cl r.
  Proof.
    intros cl r. unfold get_owner. destruct E as (_ & _ & _ & _ & H). now rewrite (existsb_eqb_ext _ _ _ H).
  Qed.

  Lemma walk_equiv : forall fuel cl podo r last acc, walk fuel c cl podo r last acc = walk fuel c' cl podo r last acc.
  Proof.
    induction fuel as [|f IH]; intros cl podo r last acc; [reflexivity|]. cbn. rewrite get_owner_equiv.
    destruct (get_owner c' cl r) as [o| |]; try reflexivity.
    destruct (o_owners o) as [|r' [|r'' rs]]; try reflexivity. apply IH.
  Qed.

  Lemma grouping_equiv : forall cl p a, grouping c cl p a = grouping c' cl p a.
  Proof.
    intros cl p a. unfold grouping, get_pod_owners. destruct (p_owners p) as [|r rs]; [reflexivity|].
    now rewrite walk_equiv.
  Qed.

  Lemma prio_exists_equiv : forall n, prio_exists c n = prio_exists c' n.
  Proof. intros n. unfold prio_exists. destruct E as (_ & _ & -> & _). reflexivity. Qed.

  Lemma first_valid_prio_equiv : forall os p, first_valid_prio c os p = first_valid_prio c' os p.
  Proof. induction os as [|o os IH]; intros p; [reflexivity|]. cbn. now rewrite prio_exists_equiv, IH. Qed.

  Lemma first_default_prio_equiv : forall d os, first_default_prio c d os = first_default_prio c' d os.
  Proof. intros d. induction os as [|o os IH]; [reflexivity|]. cbn. now rewrite prio_exists_equiv, IH. Qed.

  Lemma calc_prio_equiv : forall os p fb, calc_prio c os p fb = calc_prio c' os p fb.
  Proof.
    intros os p fb. unfold calc_prio. rewrite first_valid_prio_equiv.
    destruct E as (_ & _ & _ & -> & _). destruct (c_defaults c') as [| |l]; try reflexivity.
    now rewrite first_default_prio_equiv.
  Qed.

  Lemma calc_preempt_equiv : forall os p, calc_preempt c os p = calc_preempt c' os p.
  Proof. intros os p. unfold calc_preempt. destruct E as (_ & _ & _ & -> & _). reflexivity. Qed.

  Lemma calc_queue_equiv : forall top p, calc_queue c top p = calc_queue c' top p.
  Proof. intros top p. unfold calc_queue. destruct E as (-> & -> & _). reflexivity. Qed.

  Lemma default_md_equiv : forall af top p os, default_md_with af c top p os = default_md_with af c' top p os.
  Proof. intros af top p os. unfold default_md_with. now rewrite calc_prio_equiv, calc_preempt_equiv, calc_queue_equiv. Qed.

  Lemma leaf_md_equiv : forall af pl g p os, leaf_md_with af c pl g p os = leaf_md_with af c' pl g p os.
  Proof.
    intros af pl g p os. destruct pl; cbn [leaf_md_with]; try reflexivity.
    - now rewrite default_md_equiv.
    - unfold deployment_md_with. now rewrite default_md_equiv, calc_prio_equiv.
    - unfold job_md_with. now rewrite default_md_equiv.
    - destruct (is_spark_pod p); [reflexivity|]. now rewrite default_md_equiv.
  Qed.

  Lemma full_md_equiv : forall cl p a, full_md c cl p a = full_md c' cl p a.
  Proof.
    intros cl p a. unfold full_md, full_md_with, reconcile_md_with. rewrite grouping_equiv.
    destruct (is_orphan p a); [reflexivity|].
    destruct (grouping c' cl p a) as [pl g os u| | |]; try reflexivity. rewrite leaf_md_equiv.
    destruct (leaf_md_with annot_fix c' pl g p os) as [m| | | |]; try reflexivity.
    unfold add_node_pool_label. destruct E as (_ & -> & _). reflexivity.
  Qed.
End CfgEquiv.

(** the API server gives a pod of namespace [n] the same answers at two moments *)
Definition same_answers (cfg : config) (n : string) (rb : rbac) (tr : transient) (rb' : rbac) (tr' : transient) : Prop :=
  (forall k, In k (eff_forbidden cfg rb n tr) <-> In k (eff_forbidden cfg rb' n tr'))
  /\ (forall k, In k (tr_failing tr) <-> In k (tr_failing tr')).

Lemma fmd_same_answers : forall cfg objs n rb tr rb' tr' p a,
    same_answers cfg n rb tr rb' tr' -> fmd cfg objs rb n p tr a = fmd cfg objs rb' n p tr' a.
Proof.
  intros cfg objs n rb tr rb' tr' p a [Hf He]. unfold fmd. rewrite (visible_ext _ _ _ He).
  apply full_md_equiv. unfold eff_cfg, with_forbidden, cfg_equiv. cbn. repeat split; try reflexivity; apply Hf.
Qed.

(** siblings - same namespace, same owner reference, same template-derived fields - reconciled under the same
    answers land in the same PodGroup, whatever happened before either reconcile (the two stores [ws], [ws'],
    the two rules and the two transient faults are arbitrary but for the answers they give) *)
Theorem siblings_under_equal_answers : forall cfg objs n rb tr rb' tr' p q a g os ws ws',
    same_answers cfg n rb tr rb' tr' ->
    same_template cfg p q ->
    grouping (eff_cfg cfg rb n tr) (visible (tr_failing tr) (cluster_of objs n)) p a = GOk PDefault g os false ->
    exists m, m_name m = pg_name (o_name g) (o_uid g)
              /\ get_asg (p_name p) (get_ns n (fst (freconcile cfg objs rb n p tr ws))) = Some (m_name m)
              /\ get_asg (p_name q) (get_ns n (fst (freconcile cfg objs rb' n q tr' ws'))) = Some (m_name m).
Proof.
  intros cfg objs n rb tr rb' tr' p q a g os ws ws' HA HT HG.
  pose proof (grouping_false_has_owners _ _ _ _ _ _ _ HG) as Hp.
  assert (p_owners q <> []) as Hq by (destruct HT as [<- _]; exact Hp).
  destruct (siblings_same_group (eff_cfg cfg rb n tr) _ p q a None g os HT HG) as [Hqp [m [Hm [Hname _]]]].
  exists m. split; [exact Hname|]. split.
  - destruct (assignment_function_of_answers cfg objs rb n p tr ws Hp) as [_ H].
    unfold fmd in H. rewrite (full_md_indep_all _ _ p None a Hp), Hm in H. apply H.
  - destruct (assignment_function_of_answers cfg objs rb' n q tr' ws' Hq) as [_ H].
    rewrite <- (fmd_same_answers cfg objs n rb tr rb' tr' q None HA) in H.
    unfold fmd in H. rewrite Hqp, Hm in H. apply H.
Qed.

(** * What asking again is for: the memo of forbidden kinds (NOT the code, seeded change C18-4)

    The world of the scenario: kind Foo (example.com/v1) is handled by the default grouper. Namespace team-b:
    Foo train owns the pods train-0 and train-1; namespace team-a: Foo other owns the pod other-0. The
    pod-grouper may read Foos in team-b but not in team-a. *)
Definition ex_fcfg : config :=
  {| c_queue_key := "kai.scheduler/queue"; c_nodepool_key := "kai.scheduler/node-pool";
     c_prio_classes := ["train"]; c_defaults := CmNone; c_forbidden := [] |}.
Definition foo_gvk : gvk := mk_gvk "example.com" "v1" "Foo".
Definition ex_foo (name uid queue : string) : obj :=
  {| o_gvk := foo_gvk; o_name := name; o_uid := uid; o_labels := [("kai.scheduler/queue", queue)]; o_annots := [];
     o_owners := []; o_tom := "tom-" ++ name |}.
Definition ex_fpod (name uid owner owner_uid : string) : pod :=
  {| p_name := name; p_uid := uid; p_labels := []; p_annots := []; p_prio := "";
     p_owners := [{| r_gvk := foo_gvk; r_name := owner; r_uid := owner_uid |}]; p_tom := "tom-" ++ name |}.
Definition ex_train0 := ex_fpod "train-0" "uid-train-0" "train" "uid-train".
Definition ex_train1 := ex_fpod "train-1" "uid-train-1" "train" "uid-train".
Definition ex_other0 := ex_fpod "other-0" "uid-other-0" "other" "uid-other".
Definition ex_fobjs : nsmap (list obj) :=
  [("team-b", [ex_foo "train" "uid-train" "research"]); ("team-a", [ex_foo "other" "uid-other" "dev"])].
Definition ex_rule : rbac := [("team-a", "Foo")].
Definition ex_start {I : Type} (init : I) : fstate I :=
  {| fs_rbac := ex_rule; fs_objs := ex_fobjs; fs_ws := []; fs_inst := init |}.

Definition rec_t0 := FRec "team-b" ex_train0 no_fault.
Definition rec_t1 := FRec "team-b" ex_train1 no_fault.
Definition rec_o0 := FRec "team-a" ex_other0 no_fault.

(** the PodGroups train-0 and train-1 are assigned to at the end of a history, and the number of PodGroups of team-b *)
Definition ex_outcome {I : Type} (init : I) (rc : config -> list obj -> pod -> state * I -> (state * Z) * I)
           (hs : list fevent) : option string * option string * nat :=
  let s := get_ns "team-b" (fs_ws (frun rc ex_fcfg hs (ex_start init))) in
  (get_asg "train-0" s, get_asg "train-1" s, List.length (st_pgs s)).

Definition ex_shared : option string := Some "pg-train-uid-train".

(** the five reconcile orders of seeded/C18-4/README.md: the code as it is puts the siblings into
    pg-train-uid-train in all of them; with the memo the result depends on whether the pod of the OTHER
    namespace was reconciled before, and the repeated reconcile of unchanged pods moves both out of their group *)
Lemma forbidden_memo_depends_on_history :
  ex_outcome tt code_rc [rec_t0; rec_t1] = (ex_shared, ex_shared, 1%nat)
  /\ ex_outcome tt code_rc [rec_t0; rec_t1; rec_o0] = (ex_shared, ex_shared, 1%nat)
  /\ ex_outcome tt code_rc [rec_t0; rec_o0; rec_t1] = (ex_shared, ex_shared, 1%nat)
  /\ ex_outcome tt code_rc [rec_o0; rec_t0; rec_t1] = (ex_shared, ex_shared, 1%nat)
  /\ ex_outcome tt code_rc [rec_t0; rec_t1; rec_o0; rec_t0; rec_t1] = (ex_shared, ex_shared, 1%nat)
  /\ ex_outcome [] memo_rc [rec_t0; rec_t1] = (ex_shared, ex_shared, 1%nat)
  /\ ex_outcome [] memo_rc [rec_t0; rec_t1; rec_o0] = (ex_shared, ex_shared, 1%nat)
  /\ ex_outcome [] memo_rc [rec_t0; rec_o0; rec_t1] = (ex_shared, Some "pg-train-1-uid-train-1", 2%nat)
  /\ ex_outcome [] memo_rc [rec_o0; rec_t0; rec_t1] = (Some "pg-train-0-uid-train-0", Some "pg-train-1-uid-train-1", 2%nat)
  /\ ex_outcome [] memo_rc [rec_t0; rec_t1; rec_o0; rec_t0; rec_t1]
     = (Some "pg-train-0-uid-train-0", Some "pg-train-1-uid-train-1", 3%nat)
  (* a transient 403 (the rule is applied a moment after the pod-grouper started) has the same effect for ever *)
  /\ ex_outcome [] memo_rc [FRec "team-b" ex_train0 {| tr_forbidden := ["Foo"]; tr_failing := [] |}; FGrant "team-a" "Foo";
                            rec_t1; rec_t0]
     = (Some "pg-train-0-uid-train-0", Some "pg-train-1-uid-train-1", 2%nat)
  /\ ex_outcome tt code_rc [FRec "team-b" ex_train0 {| tr_forbidden := ["Foo"]; tr_failing := [] |}; FGrant "team-a" "Foo";
                            rec_t1; rec_t0]
     = (ex_shared, ex_shared, 2%nat).
Proof. repeat split; vm_compute; reflexivity. Qed.

(** the memo violates history independence with faults: after the pod of team-a was reconciled, the siblings of
    team-b are not where a pod-grouper that just started puts them *)
Theorem forbidden_memo_refuted : ~ fault_history_independent_statement [] memo_rc.
Proof.
  intros H.
  specialize (H ex_fcfg (ex_start []) [rec_o0] [("team-b", ex_train0, no_fault); ("team-b", ex_train1, no_fault)]).
  assert (forall x, In x [("team-b", ex_train0, no_fault); ("team-b", ex_train1, no_fault)] -> p_owners (snd (fst x)) <> []) as Hown.
  { intros x Hx. cbn in Hx. destruct Hx as [<-|[<-|[]]]; discriminate. }
  destruct (H Hown "team-b") as [_ Ha].
  specialize (Ha "train-1" "pg-train-uid-train"). revert Ha. vm_compute. intros Ha.
  specialize (Ha eq_refl). discriminate Ha.
Qed.

(** ... and it breaks the sibling clause on the history [train-0; other-0; train-1]: same namespace, same owner,
    same answers, two PodGroups *)
Lemma forbidden_memo_splits_siblings :
  same_answers ex_fcfg "team-b" ex_rule no_fault ex_rule no_fault
  /\ same_template ex_fcfg ex_train0 ex_train1
  /\ (let s := get_ns "team-b" (fs_ws (frun memo_rc ex_fcfg [rec_t0; rec_o0; rec_t1] (ex_start []))) in
      get_asg "train-0" s <> get_asg "train-1" s)
  /\ (let s := get_ns "team-b" (fs_ws (frun code_rc ex_fcfg [rec_t0; rec_o0; rec_t1] (ex_start tt))) in
      get_asg "train-0" s = get_asg "train-1" s).
Proof.
  split; [split; intros k; tauto|]. split; [repeat split; reflexivity|].
  split; vm_compute; [discriminate|reflexivity].
Qed.
