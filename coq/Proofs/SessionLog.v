(** C13 — the model of framework.Statement (Model/Session.v) satisfies the
    log-level specification of Model/SessionSpec.v.

    Contents
      1. [aitems]: the still-valid primitive entries of an operation log, read
         declaratively (an entry is valid when no undo entry of the log targets
         it); how it changes when an entry is appended; popping the earliest
         valid eviction of a pod is what an undo entry of the first valid evict
         entry does
      2. what each primitive appends to the log ([evict_log], [allocate_log],
         [pipeline_body_log], [exec_undo_log]) and, for well-formed commands,
         that the specification's step computes the valid entries of the new
         log ([cmd_hstep])
      3. [HInv]: the specification's history holds, for every prefix of the log,
         the valid entries of that prefix; preserved along well-formed open
         statements ([run_hist])
      4. Commit: the calls, with their kind, form a subsequence of the valid
         steps of the history ([commit_log_sound]); when no Bind fails and the
         snapshot is consistent where Commit reads it they are exactly the valid
         steps ([commit_log_exact])
      5. an Unevict that undoes the eviction made on a state gives back that
         state ([unevict_back], [unevict_restores]) *)
Set Default Timeout 60.
From Coq Require Import List ZArith PArith Bool Arith Lia ZifyBool.
From KaiV Require Import Model.Res Model.Status Model.AMap Model.Node Model.NodeSpec Model.Session Model.SessionSpec
  Proofs.Node Proofs.Session.
Import ListNotations.

(* ------------------------------------------------------------------ 1. valid entries of a log *)

Definition item_of (o : op) (k : nat) : list vitem :=
  match o with
  | OEvict p _ _ pg _ => [VEv p pg k]
  | OPipe p _ _ _ _ nx _ => [VPl false p nx k]
  | OAlloc c nx _ => [VPl true (p_id c) nx k]
  | OUndo _ => []
  end.
Fixpoint aitems_from (all ops : list op) (pos : nat) : vset :=
  match ops with
  | [] => []
  | o :: r => (if undone_in all pos then [] else item_of o pos) ++ aitems_from all r (S pos)
  end.
Definition aitems (L : list op) : vset := aitems_from L L 0.

Definition drop_pos (i : nat) (V : vset) : vset := filter (fun it => negb (Nat.eqb (vpos it) i)) V.

Lemma item_of_pos o k it : In it (item_of o k) -> vpos it = k.
Proof. destruct o; cbn; intros H; try destruct H as [<-|[]]; try reflexivity; destruct H. Qed.

Lemma aitems_from_ge all : forall ops pos it, In it (aitems_from all ops pos) -> (pos <= vpos it)%nat.
Proof.
  induction ops as [|o r IH]; intros pos it H; cbn [aitems_from] in H; [destruct H|].
  apply in_app_or in H. destruct H as [H|H].
  - destruct (undone_in all pos); [destruct H|]. apply item_of_pos in H. lia.
  - apply IH in H. lia.
Qed.

Lemma aitems_from_app all a b pos :
  aitems_from all (a ++ b) pos = aitems_from all a pos ++ aitems_from all b (pos + length a).
Proof.
  revert pos. induction a as [|o r IH]; intros pos; cbn [app aitems_from length].
  - rewrite Nat.add_0_r. reflexivity.
  - rewrite IH, <- app_assoc. replace (S pos + length r)%nat with (pos + S (length r))%nat by lia. reflexivity.
Qed.

(** appending a primitive entry leaves the validity of the others alone *)
Lemma aitems_from_snoc_prim all e : (match e with OUndo _ => False | _ => True end) ->
  forall ops pos, aitems_from (all ++ [e]) ops pos = aitems_from all ops pos.
Proof.
  intros He. induction ops as [|o r IH]; intros pos; cbn [aitems_from]; [reflexivity|].
  rewrite IH, undone_in_snoc. destruct e; try contradiction; rewrite orb_false_r; reflexivity.
Qed.

Lemma drop_pos_id i V : (forall it, In it V -> vpos it <> i) -> drop_pos i V = V.
Proof.
  induction V as [|x r IH]; intros H; cbn [drop_pos filter]; [reflexivity|].
  assert (E : Nat.eqb (vpos x) i = false) by (apply Nat.eqb_neq; apply H; left; reflexivity).
  rewrite E. cbn [negb]. f_equal. apply IH. intros it Hi. apply H. right. exact Hi.
Qed.

Lemma drop_pos_app i a b : drop_pos i (a ++ b) = drop_pos i a ++ drop_pos i b.
Proof. apply filter_app. Qed.

(** appending [OUndo i] invalidates the entry at position [i] *)
Lemma aitems_from_snoc_undo all i : forall ops pos,
  aitems_from (all ++ [OUndo i]) ops pos = drop_pos i (aitems_from all ops pos).
Proof.
  induction ops as [|o r IH]; intros pos; cbn [aitems_from]; [reflexivity|].
  rewrite IH, drop_pos_app, undone_in_snoc. f_equal.
  destruct (undone_in all pos); cbn [orb]; [reflexivity|].
  destruct (Nat.eqb i pos) eqn:E.
  - apply Nat.eqb_eq in E. subst i. symmetry.
    destruct o; cbn [item_of drop_pos filter vpos]; rewrite ?Nat.eqb_refl; reflexivity.
  - symmetry. apply drop_pos_id. intros it Hi. apply item_of_pos in Hi. apply Nat.eqb_neq in E. lia.
Qed.

Lemma LogOK_not_undone_end L : LogOK L -> undone_in L (length L) = false.
Proof.
  intros OK. destruct (undone_in L (length L)) eqn:E; [|reflexivity]. exfalso.
  apply la_undone_true in E. destruct E as (m & Hm). destruct (OK _ _ Hm) as (Lt & _).
  pose proof (la_nth_lt _ _ _ Hm). lia.
Qed.

Lemma aitems_snoc_prim L e : LogOK L -> (match e with OUndo _ => False | _ => True end) ->
  aitems (L ++ [e]) = aitems L ++ item_of e (length L).
Proof.
  intros OK He. unfold aitems. rewrite aitems_from_app, (aitems_from_snoc_prim L e He). cbn [aitems_from Nat.add].
  rewrite undone_in_snoc, (LogOK_not_undone_end L OK), app_nil_r.
  destruct e; try contradiction; reflexivity.
Qed.

Lemma aitems_snoc_undo L i : aitems (L ++ [OUndo i]) = drop_pos i (aitems L).
Proof.
  unfold aitems. rewrite aitems_from_app, aitems_from_snoc_undo. cbn [aitems_from item_of].
  destruct (undone_in _ _); rewrite !app_nil_r; reflexivity.
Qed.

Lemma pop_ev_skip p it r x r' : is_ev_of p it = false -> pop_ev p r = Some (x, r') -> pop_ev p (it :: r) = Some (x, it :: r').
Proof. intros E H. cbn [pop_ev]. rewrite E, H. reflexivity. Qed.

(** the earliest valid eviction of the specification is the first valid evict entry of the log *)
Lemma pop_ev_fve all pid : LogOK all -> forall ops pos i,
  (pos + length ops <= length all)%nat ->
  first_valid_evict ops all pid pos = Some (Some i) ->
  exists prev nid pg pv, nth_error ops (i - pos) = Some (OEvict pid prev nid pg pv)
    /\ pop_ev pid (aitems_from all ops pos) = Some (VEv pid pg i, drop_pos i (aitems_from all ops pos)).
Proof.
  intros OK. induction ops as [|o r IH]; intros pos i Len H; cbn [first_valid_evict] in H; [discriminate|].
  cbn [length] in Len.
  assert (V : op_valid all pos = Some (negb (undone_in all pos))) by (apply valid_persistent; [exact OK|lia]).
  rewrite V in H. cbn [aitems_from].
  assert (Rec : first_valid_evict r all pid (S pos) = Some (Some i) ->
                forall hd, (forall it, In it hd -> vpos it = pos /\ is_ev_of pid it = false) ->
                exists prev nid pg pv, nth_error (o :: r) (i - pos) = Some (OEvict pid prev nid pg pv)
                  /\ pop_ev pid (hd ++ aitems_from all r (S pos)) = Some (VEv pid pg i, drop_pos i (hd ++ aitems_from all r (S pos)))).
  { intros H' hd Hhd. destruct (fve_some _ _ _ _ _ H') as (Le & _).
    destruct (IH (S pos) i ltac:(lia) H') as (prev & nid & pg & pv & En & Ep).
    exists prev, nid, pg, pv. split; [replace (i - pos)%nat with (S (i - S pos)) by lia; exact En|].
    rewrite drop_pos_app, (drop_pos_id i hd) by (intros it Hi; destruct (Hhd it Hi); lia).
    clear -Hhd Ep. induction hd as [|x hd IHh]; cbn [app]; [exact Ep|].
    apply pop_ev_skip; [apply (Hhd x); left; reflexivity|]. apply IHh. intros it Hi. apply Hhd. right. exact Hi. }
  destruct (undone_in all pos) eqn:U; cbn [negb] in H.
  - apply (Rec H []). intros it [].
  - destruct o as [p a b c d|p a b c d e f|c nx pv|k]; cbn [item_of].
    + destruct (Pos.eqb p pid) eqn:Ep.
      * injection H as <-. apply Pos.eqb_eq in Ep. subst p. exists a, b, c, d. rewrite Nat.sub_diag. split; [reflexivity|].
        cbn [app pop_ev is_ev_of]. rewrite Pos.eqb_refl. cbn [drop_pos filter vpos]. rewrite Nat.eqb_refl. cbn [negb].
        f_equal. f_equal. symmetry. apply drop_pos_id. intros it Hi. apply aitems_from_ge in Hi. lia.
      * apply (Rec H). intros it [<-|[]]. split; [reflexivity|exact Ep].
    + apply (Rec H). intros it [<-|[]]. split; reflexivity.
    + apply (Rec H). intros it [<-|[]]. split; reflexivity.
    + apply (Rec H []). intros it [].
Qed.

Lemma pop_ev_first L pid i : LogOK L -> first_valid_evict L L pid 0 = Some (Some i) ->
  exists prev nid pg pv, nth_error L i = Some (OEvict pid prev nid pg pv)
    /\ pop_ev pid (aitems L) = Some (VEv pid pg i, aitems (L ++ [OUndo i])).
Proof.
  intros OK H. destruct (pop_ev_fve L pid OK L 0%nat i ltac:(lia) H) as (prev & nid & pg & pv & En & Ep).
  rewrite Nat.sub_0_r in En. exists prev, nid, pg, pv. split; [exact En|]. rewrite aitems_snoc_undo. exact Ep.
Qed.

(* ------------------------------------------------------------------ 2. what the primitives append *)

Ltac log_cbn :=
  cbn [s_nodes s_pods s_jobs s_queues s_log s_ncalls s_stuck put_pod put_node push set_nodes set_podsm set_jobs
       set_queues set_log set_ncalls set_stuck] in *.

Lemma evict_log s pid s' : releasing_in s pid = false -> evict s pid = (s', true) ->
  exists p nid, get_pod s pid = Some p /\ p_node p = Some nid
    /\ s_log s' = s_log s ++ [OEvict pid (p_status p) nid (p_groups p) (p_virt p)].
Proof.
  intros Nr. rewrite (evict_unrepaired _ _ Nr).
  unfold evict_before_repair. destruct (get_pod s pid) as [p|]; [|discriminate].
  destruct (alookup (t_job (p_task p)) (s_jobs s)); [|discriminate].
  destruct (p_node p) as [nid|] eqn:Epn; [|discriminate].
  destruct (alookup nid (s_nodes s)) as [n|]; [|discriminate].
  unfold evict_on.
  pose proof (update_status_frame s p Releasing) as (Fl & _).
  destruct (update_status s p Releasing) as [s1 ok]. cbn [fst] in Fl.
  destruct ok; cbn [negb]; [|discriminate].
  destruct (update_task n _) as [n'|]; [|discriminate].
  intros H. injection H as <-. exists p, nid. split; [reflexivity|]. split; [exact Epn|].
  log_cbn. unfold ev_dealloc. rewrite cq_log. log_cbn. rewrite Fl. reflexivity.
Qed.

Lemma allocate_log s pid nid gs s' : allocate s pid nid gs = (s', true) ->
  exists c pv, s_log s' = s_log s ++ [OAlloc c nid pv].
Proof.
  unfold allocate. destruct (get_pod s pid) as [p0|]; [|discriminate].
  set (p := match gs with Some g => set_gs p0 g | None => p0 end).
  pose proof (update_status_frame (put_pod s p) p Allocated) as (Fl & _).
  destruct (update_status (put_pod s p) p Allocated) as [s1 ok]. cbn [fst] in Fl.
  destruct ok; cbn [negb]; [|discriminate].
  match goal with |- context [alookup nid ?m] => destruct (alookup nid m) as [n|] end; [|discriminate].
  destruct (add_task n _) as [n'|]; [|discriminate].
  intros H. injection H as <-. do 2 eexists.
  log_cbn. unfold ev_alloc. rewrite cq_log. log_cbn. rewrite Fl. reflexivity.
Qed.

Lemma pipeline_body_log s0 p nid n on move s' : pipeline_body s0 p nid n on move = (s', true) ->
  exists a b c d, s_log s' = s_log s0 ++ [OPipe (p_id p) a b c d nid move].
Proof.
  unfold pipeline_body.
  pose proof (update_status_frame s0 p Pipelined) as (Fl & _).
  destruct (update_status s0 p Pipelined) as [s1 ok]. cbn [fst] in Fl.
  match goal with |- context [match ?r with Err => _ | Ok n' => _ end] => destruct r as [n'|] end; [|discriminate].
  intros H. injection H as <-. do 4 eexists.
  log_cbn. unfold ev_alloc. rewrite cq_log. log_cbn. rewrite Fl. reflexivity.
Qed.

Lemma exec_undo_log f s i s' : exec (S f) s (QUndo i) = (s', true) -> op_valid (s_log s) i = Some true ->
  exists s1, s_log s' = s_log s1 ++ [OUndo i].
Proof.
  intros H V. cbn [exec] in H. rewrite V in H.
  destruct (nth_error (s_log s) i) as [o|]; [|discriminate].
  match type of H with (let '(s1, ok) := ?x in _) = _ => destruct x as [s1 ok] end.
  destruct ok; [|discriminate]. injection H as <-. exists s1. reflexivity.
Qed.

Definition move_of (p : pod) (c : task) : bool :=
  negb (Nat.eqb (length (p_groups p)) 0) && is_shared (p_task p) && negb (list_pos_eqb (p_groups p) (t_groups c)).

Lemma pipeline_log s pid nid gs upd s' : pipeline s pid nid gs upd = (s', true) ->
  exists p0 n, get_pod s pid = Some p0 /\ alookup nid (s_nodes s) = Some n /\
    let p := match gs with Some g => set_gs p0 g | None => p0 end in
    match alookup pid (n_pods n) with
    | Some c =>
        if negb upd && negb (move_of p c)
        then exists i s1, first_valid_evict (s_log s) (s_log s) pid 0 = Some (Some i) /\ s_log s' = s_log s1 ++ [OUndo i]
        else exists a b c0 d, s_log s' = s_log s ++ [OPipe (p_id p) a b c0 d nid (move_of p c)]
    | None => exists a b c0 d, s_log s' = s_log s ++ [OPipe (p_id p) a b c0 d nid false]
    end.
Proof.
  unfold pipeline. rewrite fuel_of_S. cbn [exec].
  destruct (get_pod s pid) as [p0|]; [|discriminate].
  set (p := match gs with Some g => set_gs p0 g | None => p0 end).
  destruct (alookup (t_job (p_task p)) (s_jobs (put_pod s p))); [|discriminate].
  change (s_nodes (put_pod s p)) with (s_nodes s).
  destruct (alookup nid (s_nodes s)) as [n|]; [|discriminate].
  intros H. exists p0, n. split; [reflexivity|]. split; [reflexivity|]. cbv zeta. fold p.
  destruct (alookup pid (n_pods n)) as [c|].
  - fold (move_of p c) in H. destruct (negb upd && negb (move_of p c)).
    + set (s1 := put_pod (put_pod s p) (set_gs p (t_groups c))) in *.
      change (s_log s1) with (s_log s) in H.
      destruct (first_valid_evict (s_log s) (s_log s) pid 0) as [[i|]|] eqn:Ef; try discriminate.
      destruct (fve_top _ _ _ Ef) as (V & _).
      destruct (exec_undo_log _ s1 i s' H V) as (s2 & E2). exists i, s2. split; [reflexivity|exact E2].
    + apply pipeline_body_log in H. exact H.
  - apply pipeline_body_log in H. exact H.
Qed.

Lemma step_evict fails s pid s' cs : s_stuck s = false -> step_full fails s (Evict pid) = (s', cs, true) -> evict s pid = (s', true).
Proof. intros K H. unfold step_full in H. rewrite K in H. destruct (evict s pid) as [s1 ok]. injection H as -> _ ->. reflexivity. Qed.
Lemma step_allocate fails s pid nid gs s' cs : s_stuck s = false ->
  step_full fails s (Allocate pid nid gs) = (s', cs, true) -> allocate s pid nid gs = (s', true).
Proof. intros K H. unfold step_full in H. rewrite K in H. destruct (allocate s pid nid gs) as [s1 ok]. injection H as -> _ ->. reflexivity. Qed.
Lemma step_pipeline fails s pid nid gs upd s' cs : s_stuck s = false ->
  step_full fails s (Pipeline pid nid gs upd) = (s', cs, true) -> pipeline s pid nid gs upd = (s', true).
Proof. intros K H. unfold step_full in H. rewrite K in H. destruct (pipeline s pid nid gs upd) as [s1 ok]. injection H as -> _ ->. reflexivity. Qed.
Lemma step_unevict fails s pid s' cs : s_stuck s = false ->
  step_full fails s (Unevict pid) = (s', cs, true) -> unevict_cmd s pid = (s', true).
Proof. intros K H. unfold step_full in H. rewrite K in H. destruct (unevict_cmd s pid) as [s1 ok]. injection H as -> _ ->. reflexivity. Qed.

Lemma snoc_inj {A} (a b : list A) x y : a ++ [x] = b ++ [y] -> a = b /\ x = y.
Proof. apply app_inj_tail. Qed.

Lemma is_shared_set_gs p g : is_shared (p_task (set_gs p g)) = is_shared (p_task p).
Proof. reflexivity. Qed.

(** for a well-formed command the specification's step appends the valid entries of the new log *)
Lemma cmd_hstep fails stk s c hs :
  log_cmd c = true -> noop_cmd s c = false -> wf_cmd any_task stk false s c = true -> LogOK (s_log s) -> s_stuck s = false ->
  hcur hs = aitems (s_log s) -> hlen hs = length (s_log s) ->
  exists s' e, step_full fails s c = (s', [], true) /\ s_log s' = s_log s ++ [e] /\ s_stuck s' = false
    /\ LogOK (s_log s')
    /\ hstep no_job hs c (loc_of s c) = hs ++ [aitems (s_log s')].
Proof.
  intros Lc Nc W OK Ks Hc Hl.
  destruct (cmd_link_n fails stk s c Lc Nc W OK Ks) as (s' & e & Es & Ks' & Ls & Ef & OK' & _).
  exists s', e. split; [exact Es|]. split; [exact Ls|]. split; [exact Ks'|]. split; [exact OK'|].
  destruct c as [pid|pid nid gs upd|pid nid gs|pid| | | | |]; try discriminate.
  - (* Evict *)
    cbn [noop_cmd] in Nc.
    apply step_evict in Es; [|exact Ks]. destruct (evict_log _ _ _ Nc Es) as (p & nd & Gp & Epn & Ls2).
    rewrite Ls in Ls2. apply snoc_inj in Ls2. destruct Ls2 as [_ ->].
    rewrite (releasing_in_eq _ _ _ Gp) in Nc.
    unfold hstep, loc_of. cbn [cmd_pod]. rewrite Gp. cbn [pl_releasing pl_groups]. rewrite Nc, Hc, Hl, Ls.
    rewrite aitems_snoc_prim by (exact OK || exact I). reflexivity.
  - (* Pipeline *)
    apply step_pipeline in Es; [|exact Ks].
    destruct (pipeline_log _ _ _ _ _ _ Es) as (p0 & n & Gp & En & Sh). cbv zeta in Sh.
    unfold wf_cmd in W. cbn [negb andb] in W. rewrite Gp, En in W.
    apply andb_true_iff in W. destruct W as [W Wst].
    apply andb_true_iff in W. destruct W as [W _].
    apply andb_true_iff in W. destruct W as [W _].
    apply andb_true_iff in W. destruct W as [W Wgs].
    apply andb_true_iff in W. destruct W as [Wid _]. apply Pos.eqb_eq in Wid.
    set (p := match gs with Some g => set_gs p0 g | None => p0 end) in *.
    assert (Pid : p_id p = pid) by (unfold p; destruct gs; exact Wid).
    assert (Nom : forall a b c0 d m, s_log s' = s_log s ++ [OPipe (p_id p) a b c0 d nid m] ->
                  hs ++ [hcur hs ++ [VPl false pid nid (hlen hs)]] = hs ++ [aitems (s_log s')]).
    { intros a b c0 d m E. rewrite E, Hc, Hl, Pid. rewrite aitems_snoc_prim by (exact OK || exact I). reflexivity. }
    unfold hstep, loc_of. cbn [cmd_pod]. rewrite Gp. cbn [pl_node pl_groups].
    destruct (status_eqb (p_status p0) Pending) eqn:Est.
    + (* a Pending pod sits nowhere *)
      apply andb_true_iff in Wst. destruct Wst as [Wst Wnd].
      apply andb_true_iff in Wst. destruct Wst as [_ Wam]. apply negb_true_iff in Wam.
      destruct (p_node p0); [discriminate|]. cbn [sits_on]. rewrite andb_false_r.
      rewrite (amem_false_alookup _ _ Wam) in Sh. destruct Sh as (a & b & c0 & d & E). exact (Nom _ _ _ _ _ E).
    + (* a pod evicted by this statement *)
      apply andb_true_iff in Wst. destruct Wst as [Wst Wcp].
      apply andb_true_iff in Wst. destruct Wst as [Wev Wup]. apply negb_true_iff in Wup. subst upd.
      destruct (evicted_facts _ _ Wev) as (_ & _ & _ & _ & i & prev & nid0 & pg & pv & n0 & Efv & Ent & _ & _ & Epn & _ & En0 & _ & Cp0).
      rewrite Wid in *. rewrite Epn. cbn [sits_on negb andb].
      destruct (pop_ev_first _ _ _ OK Efv) as (prev' & nid' & pg' & pv' & Ent' & Pop).
      rewrite Ent in Ent'. injection Ent' as <- <- <- <-.
      destruct (Pos.eqb nid0 nid) eqn:Enn.
      * apply Pos.eqb_eq in Enn. subst nid0. rewrite En in En0. injection En0 as <-.
        rewrite Cp0 in Sh. rewrite Hc, Pop.
        set (cc := task_with (p_task (at_node_raw p0 nid)) Releasing pg) in *.
        assert (Mv : move_of p cc = negb (same_devices gs pg)).
        { unfold move_of, same_devices, shared_gs in *. change (t_groups cc) with pg. unfold p. destruct gs as [g|].
          - apply andb_true_iff in Wgs. destruct Wgs as [Wsh Wl].
            change (p_groups (set_gs p0 g)) with g. rewrite is_shared_set_gs, Wsh, Wl. reflexivity.
          - apply andb_true_iff in Wgs. destruct Wgs as [_ Wl]. rewrite Wl. reflexivity. }
        rewrite Mv in Sh. cbn [negb andb] in Sh. rewrite negb_involutive in Sh.
        destruct (same_devices gs pg).
        -- destruct Sh as (i' & s1 & Ei & E). rewrite Efv in Ei. injection Ei as <-.
           rewrite Ls in E. apply snoc_inj in E. destruct E as [_ ->]. rewrite Ls. reflexivity.
        -- destruct Sh as (a & b & c0 & d & E). rewrite <- Hc. exact (Nom _ _ _ _ _ E).
      * destruct (alookup pid (n_pods n)) as [c|] eqn:Ec.
        -- rewrite Epn, Enn in Wcp. discriminate.
        -- destruct Sh as (a & b & c0 & d & E). exact (Nom _ _ _ _ _ E).
  - (* Allocate *)
    apply step_allocate in Es; [|exact Ks]. destruct (allocate_log _ _ _ _ _ Es) as (cl & pv & Ls2).
    rewrite Ls in Ls2. apply snoc_inj in Ls2. destruct Ls2 as [_ ->]. cbn [entry_for] in Ef.
    unfold hstep. rewrite Hc, Hl, Ls. rewrite aitems_snoc_prim by (exact OK || exact I). cbn [item_of]. rewrite Ef. reflexivity.
  - (* Unevict *)
    apply step_unevict in Es; [|exact Ks]. unfold unevict_cmd in Es.
    destruct (first_valid_evict (s_log s) (s_log s) pid 0) as [[i|]|] eqn:Efv; try discriminate.
    destruct (fve_top _ _ _ Efv) as (V & _).
    unfold undo_operation in Es. rewrite fuel_of_S in Es.
    destruct (exec_undo_log _ _ _ _ Es V) as (s1 & E). rewrite Ls in E. apply snoc_inj in E. destruct E as [_ ->].
    destruct (pop_ev_first _ _ _ OK Efv) as (prev' & nid' & pg' & pv' & _ & Pop).
    unfold hstep. rewrite Hc, Pop, Ls. reflexivity.
Qed.

(* ------------------------------------------------------------------ 3. the history along a run *)

(** for every prefix of the log, the history holds the valid entries of that prefix *)
Definition HInv (L : list op) (hs : hstate) : Prop :=
  length hs = S (length L) /\ forall k, (k <= length L)%nat -> nth_error hs k = Some (aitems (firstn k L)).

Lemma last_nth {A} (d : A) : forall l n x, length l = S n -> nth_error l n = Some x -> last l d = x.
Proof.
  induction l as [|a l IH]; intros n x Hl Hn; [discriminate|].
  destruct n as [|n].
  - destruct l; [|discriminate]. cbn in Hn. injection Hn as <-. reflexivity.
  - destruct l as [|b l]; [discriminate|]. cbn [nth_error] in Hn. cbn [last].
    change (last (b :: l) d = x). apply (IH n); [cbn in *; lia|exact Hn].
Qed.

Lemma HInv_cur L hs : HInv L hs -> hcur hs = aitems L /\ hlen hs = length L.
Proof.
  intros (Hl & Hn). split; [|unfold hlen; rewrite Hl; reflexivity].
  unfold hcur. apply (last_nth [] hs (length L)); [exact Hl|]. rewrite <- (firstn_all L) at 2. apply Hn. lia.
Qed.

Lemma HInv_nil : HInv [] [[]].
Proof. split; [reflexivity|]. intros k Hk. cbn in Hk. assert (k = 0%nat) by lia. subst k. reflexivity. Qed.

Lemma HInv_snoc L hs e : HInv L hs -> HInv (L ++ [e]) (hs ++ [aitems (L ++ [e])]).
Proof.
  intros (Hl & Hn). split; [rewrite !app_length; cbn; lia|].
  intros k Hk. rewrite app_length in Hk. cbn [length] in Hk.
  destruct (Nat.eq_dec k (S (length L))) as [->|Ne].
  - rewrite nth_error_app2 by lia. rewrite Hl, Nat.sub_diag. cbn [nth_error].
    rewrite <- (firstn_all (L ++ [e])) at 1. rewrite app_length. cbn [length]. rewrite Nat.add_1_r. reflexivity.
  - rewrite nth_error_app1 by lia. rewrite Hn by lia. rewrite firstn_app.
    replace (k - length L)%nat with 0%nat by lia. cbn [firstn]. rewrite app_nil_r. reflexivity.
Qed.

Lemma HInv_firstn L hs cp : HInv L hs -> (cp <= length L)%nat -> HInv (firstn cp L) (firstn (S cp) hs).
Proof.
  intros (Hl & Hn) Le. unfold HInv. rewrite !firstn_length. split; [lia|].
  intros k Hk. rewrite la_nth_firstn. destruct (Nat.ltb k (S cp)) eqn:E; [|apply Nat.ltb_ge in E; lia].
  rewrite Hn by lia. rewrite firstn_firstn. replace (Nat.min k cp) with k by lia. reflexivity.
Qed.

Lemma hist_step fails s stk sn hist hs c :
  open_cmd c = true -> wf_cmd any_task stk false s c = true -> Hist neq s hist -> SnOK neq s hist stk sn ->
  HInv (s_log s) hs -> HInv (s_log (fst (step fails s c))) (hstep no_job hs c (loc_of s c)).
Proof.
  intros Oc W H Sn Hi. pose proof H as (Hl & OK & Ks & _). destruct Sn as (Sm & Se).
  destruct (HInv_cur _ _ Hi) as (Hc & Hn).
  destruct (noop_cmd s c) eqn:Nc.
  { (* Evict of a Releasing pod: no step in the history, nothing in the log *)
    rewrite (noop_step fails s c Nc). cbn [fst]. destruct c as [pid| | | | | | | |]; try discriminate.
    cbn [noop_cmd] in Nc. unfold hstep, loc_of. cbn [cmd_pod]. unfold releasing_in in Nc.
    destruct (get_pod s pid) as [p|]; [|discriminate]. cbn [pl_releasing]. rewrite Nc. exact Hi. }
  destruct (log_cmd c) eqn:Lc.
  - destruct (cmd_hstep fails stk s c hs Lc Nc W OK Ks Hc Hn) as (s' & e & Es & Ls & _ & _ & Eh).
    unfold step. rewrite Es. cbn [fst]. rewrite Eh, Ls. apply HInv_snoc. exact Hi.
  - destruct c as [| | | | |cp| | |]; try discriminate.
    + unfold step, step_full. rewrite Ks. exact Hi.
    + assert (Wc : existsb (Nat.eqb cp) stk = true) by exact W.
      apply existsb_exists in Wc. destruct Wc as (x & Hx & Ex). apply Nat.eqb_eq in Ex. subst x.
      rewrite <- Sm in Hx. apply in_map_iff in Hx. destruct Hx as ([cp' x0] & Ecp & Hin). cbn [fst] in Ecp. subst cp'.
      destruct (Se cp x0 Hin) as (Le & _).
      destruct (Hist_rollback_n s hist cp H Le) as (s' & h0 & Er & _ & _ & _ & Lg).
      unfold step, step_full. rewrite Ks, Er. cbn [fst]. rewrite Lg.
      unfold hstep. destruct Hi as (Hil & Hin'). assert (E : Nat.ltb cp (length hs) = true) by (apply Nat.ltb_lt; lia).
      rewrite E. apply HInv_firstn; [split; assumption|exact Le].
    + unfold step, step_full. rewrite Ks. cbn [fst]. unfold discard. cbn [s_log set_log hstep]. apply HInv_nil.
Qed.

Lemma run_hist fails : forall prog s stk sn hist hs,
  forallb open_cmd prog = true -> Hist neq s hist -> SnOK neq s hist stk sn -> HInv (s_log s) hs ->
  forall c, wf_from any_task fails stk false s (prog ++ [c]) = true ->
  HInv (s_log (Session.run fails s prog)) (hist_from fails s hs prog)
  /\ LogOK (s_log (Session.run fails s prog)) /\ s_stuck (Session.run fails s prog) = false
  /\ exists hist' stk' sn', Hist neq (Session.run fails s prog) hist' /\ SnOK neq (Session.run fails s prog) hist' stk' sn'
       /\ wf_cmd any_task stk' false (Session.run fails s prog) c = true.
Proof.
  induction prog as [|c0 r IH]; intros s stk sn hist hs Op H Sn Hi c W.
  - pose proof H as (_ & OK & Ks & _). split; [exact Hi|]. split; [exact OK|]. split; [exact Ks|].
    exists hist, stk, sn. cbn [app wf_from] in W. apply andb_true_iff in W. destruct W as [W _].
    split; [exact H|]. split; [exact Sn|exact W].
  - cbn [forallb] in Op. apply andb_true_iff in Op. destruct Op as [Oc Or].
    cbn [app wf_from] in W. apply andb_true_iff in W. destruct W as [Wc Wr].
    destruct (inv_step_n fails s stk sn hist c0 Oc Wc H Sn) as (hist1 & H1 & Sn1 & _).
    pose proof (hist_step fails s stk sn hist hs c0 Oc Wc H Sn Hi) as Hi1.
    assert (Ec : conv_after false c0 = false) by (destruct c0; try discriminate; reflexivity).
    rewrite Ec in Wr. rewrite run_cons. cbn [hist_from]. apply (IH _ _ _ _ _ Or H1 Sn1 Hi1 c Wr).
Qed.

Lemma SnOK_nil s : SnOK neq s [s] [] [].
Proof. split; [reflexivity|intros c x []]. Qed.

(** after a well-formed open statement the still-valid steps of the command history are the valid
    entries of the model's log *)
Theorem valid_steps_log fails S prog c :
  s_log S = [] -> s_stuck S = false -> forallb open_cmd prog = true ->
  wf_from any_task fails [] false S (prog ++ [c]) = true ->
  valid_steps fails S prog = aitems (s_log (Session.run fails S prog))
  /\ LogOK (s_log (Session.run fails S prog)) /\ s_stuck (Session.run fails S prog) = false.
Proof.
  intros L K Op W.
  destruct (run_hist fails prog S [] [] [S] [[]] Op (Hist_init neq neq_refl S L K) (SnOK_nil S)) with (c := c) as (Hi & OK & Ks & _).
  - rewrite L. apply HInv_nil.
  - exact W.
  - split; [|split; assumption]. unfold valid_steps. apply (HInv_cur _ _ Hi).
Qed.

(* ------------------------------------------------------------------ 4. Commit *)

Definition okey3 (o : op) : list (ckind * positive) := map item_key (item_of o 0).
Fixpoint vkeys3 (all ops : list op) (pos : nat) : list (ckind * positive) :=
  match ops with
  | [] => []
  | o :: r => (match op_valid all pos with Some true => okey3 o | _ => [] end) ++ vkeys3 all r (S pos)
  end.

(** the calls of the commit loop, with their kinds, are a subsequence of the valid entries *)
Lemma commit_loop_sub3 fails all : forall ops s pos,
  subseq (map call_key (snd (fst (commit_loop fails s all ops pos)))) (vkeys3 all ops pos).
Proof.
  induction ops as [|o r IH]; intros s pos; cbn [commit_loop vkeys3]; [constructor|].
  destruct (op_valid all pos) as [[|]|]; cbn [app]; try apply IH; [|constructor].
  destruct o as [pid a b c d|pid a b c d e f|c nx pv|k]; cbn [okey3 item_of map item_key app].
  - destruct (get_pod s pid) as [p|]; [|apply sub_skip, IH].
    destruct (alookup (t_job (p_task p)) (s_jobs s)); [|apply sub_skip, IH].
    destruct (next_call fails s) as [s1 failed].
    match goal with |- context [commit_loop fails ?x all r (S pos)] => specialize (IH x (S pos)); destruct (commit_loop fails x all r (S pos)) as [[s3 cs] ok] end.
    cbn [fst snd map call_key] in *. apply sub_take. exact IH.
  - destruct (get_pod s pid) as [p|]; [|apply sub_skip, IH].
    destruct (next_call (fun _ => false) s) as [s1 f0].
    specialize (IH s1 (S pos)). destruct (commit_loop fails s1 all r (S pos)) as [[s3 cs] ok].
    cbn [fst snd map call_key] in *. apply sub_take. exact IH.
  - destruct (p_node c) as [h|]; [|constructor].
    destruct (alookup h (s_nodes s)) as [n|]; [|constructor].
    match goal with |- context [next_call fails ?x] => destruct (next_call fails x) as [s1 failed] end.
    destruct failed.
    + cbn [fst snd map call_key]. apply sub_take. constructor.
    + destruct (update_status s1 c Binding) as [s2 ok2]. destruct ok2.
      * specialize (IH s2 (S pos)). destruct (commit_loop fails s2 all r (S pos)) as [[s3 cs] ok].
        cbn [fst snd map call_key] in *. apply sub_take. exact IH.
      * cbn [fst snd map call_key]. apply sub_take. constructor.
  - apply IH.
Qed.

Lemma okey3_pos o k : map item_key (item_of o k) = okey3 o.
Proof. destruct o; reflexivity. Qed.

Lemma vkeys3_aitems all : LogOK all -> forall ops pos, (pos + length ops <= length all)%nat ->
  vkeys3 all ops pos = map item_key (aitems_from all ops pos).
Proof.
  intros OK. induction ops as [|o r IH]; intros pos Len; cbn [vkeys3 aitems_from]; [reflexivity|].
  cbn [length] in Len. rewrite map_app, IH by lia.
  rewrite (valid_persistent all pos OK) by lia.
  destruct (undone_in all pos); cbn [negb]; [reflexivity|]. rewrite okey3_pos. reflexivity.
Qed.

Lemma commit_sub3 fails s : LogOK (s_log s) ->
  subseq (map call_key (snd (commit fails s))) (expect_calls (aitems (s_log s))).
Proof.
  intros OK. unfold commit, expect_calls, aitems. rewrite <- (vkeys3_aitems _ OK) by lia.
  pose proof (commit_loop_sub3 fails (s_log s) (s_log s) s 0%nat) as H.
  destruct (commit_loop fails s (s_log s) (s_log s) 0) as [[s1 cs] ok]. exact H.
Qed.

(** Commit after a well-formed open statement, for every failure oracle: the calls, each with its
    kind (eviction / nomination / bind) and pod, are a subsequence of the steps that the command
    history says are still valid: nothing is emitted for an undone step (in particular nothing for a
    pod whose evictions were all undone), nothing twice, nothing of another kind, in the order of
    the steps *)
Theorem commit_log_sound fails S prog :
  s_log S = [] -> s_stuck S = false -> forallb open_cmd prog = true ->
  wf_from any_task fails [] false S (prog ++ [Commit]) = true ->
  subseq (map call_key (snd (step fails (Session.run fails S prog) Commit)))
         (expect_calls (valid_steps fails S prog)).
Proof.
  intros L K Op W. destruct (valid_steps_log fails S prog Commit L K Op W) as (Ev & OK & Ks).
  rewrite Ev. unfold step, step_full. rewrite Ks.
  destruct (commit fails (Session.run fails S prog)) as [s1 cs] eqn:Ec. cbn [fst snd].
  change cs with (snd (s1, cs)). rewrite <- Ec. apply commit_sub3. exact OK.
Qed.

(** the still-valid steps of a well-formed open statement never hold two steps of the same kind
    for one pod - in particular at most one eviction per pod, however often Evict was applied to it *)
Definition coarse (k : ckind * positive) : bool * positive :=
  (match fst k with KEvict => false | _ => true end, snd k).

Lemma vkeys_coarse all : forall ops pos, vkeys all ops pos = map coarse (vkeys3 all ops pos).
Proof.
  induction ops as [|o r IH]; intros pos; cbn [vkeys vkeys3 map]; [reflexivity|].
  rewrite map_app, IH. f_equal. destruct (op_valid all pos) as [[|]|]; try reflexivity. destruct o; reflexivity.
Qed.

Theorem valid_steps_once fails S prog c :
  s_log S = [] -> s_stuck S = false -> forallb open_cmd prog = true ->
  wf_from any_task fails [] false S (prog ++ [c]) = true ->
  NoDup (expect_calls (valid_steps fails S prog)).
Proof.
  intros L K Op W. destruct (valid_steps_log fails S prog c L K Op W) as (Ev & OK & _).
  destruct (run_once_init fails S prog c L K Op W) as (_ & On & _ & _).
  rewrite Ev. unfold expect_calls, aitems. rewrite <- (vkeys3_aitems _ OK) by lia.
  apply (NoDup_map_inv coarse). rewrite <- vkeys_coarse.
  apply vkeys_nodup; [exact OK|exact On|intros q; reflexivity].
Qed.

(* ------------------------------------------------------------------ 5. un-eviction is a rollback of the eviction *)

Lemma op_valid_snoc_prim L e q : LogOK L -> LogOK (L ++ [e]) -> (match e with OUndo _ => False | _ => True end) ->
  (q < length L)%nat -> op_valid (L ++ [e]) q = op_valid L q.
Proof.
  intros OK OK' He Lt. rewrite (valid_persistent _ q OK') by (rewrite app_length; cbn; lia).
  rewrite (valid_persistent _ q OK Lt), undone_in_snoc. destruct e; try contradiction; rewrite orb_false_r; reflexivity.
Qed.

(** [s'] is [s] after a well-formed Evict of [pid], a pod that is not Releasing in [s] (the Evict is
    not ignored) and therefore has no valid evict entry; on any related state whose log is that of
    [s'], a well-formed Unevict of [pid] undoes exactly that eviction and gives a state related to [s] *)
Lemma unevict_back fails stk stk' s pid a :
  wf_cmd any_task stk false s (Evict pid) = true -> releasing_in s pid = false ->
  no_valid_evict (s_log s) pid = true -> LogOK (s_log s) -> s_stuck s = false ->
  let s' := fst (step fails s (Evict pid)) in
  srel neq s' a -> s_log a = s_log s' -> s_stuck a = false ->
  wf_cmd any_task stk' false a (Unevict pid) = true ->
  srel neq s (fst (step fails a (Unevict pid))).
Proof.
  intros W Nr Nv OK Ks s' Sr La Ka Wu.
  destruct (link_evict neq any_task neq_sym neq_trans neq_pods neq_set_pods
              (fun a b t _ => neq_add a b t) (fun a b t _ => neq_remove a b t) (fun a t _ => neq_rem_add a t)
              (fun a t _ => neq_add_rem a t) (fun t s g => eq_refl) stk s pid W Nr)
    as (s1 & p & nid & Ev & Gp & Ls & Ks1 & Back).
  assert (Es' : s' = s1).
  { unfold s', step, step_full. rewrite Ks, Ev. reflexivity. }
  rewrite Es' in *. clear Es' s'.
  set (e := OEvict pid (p_status p) nid (p_groups p) (p_virt p)) in *.
  assert (OK1 : LogOK (s_log s ++ [e])) by (apply LogOK_app_prim; [exact OK|exact I]).
  (* the eviction that Unevict finds *)
  unfold wf_cmd in Wu. cbn [negb andb] in Wu.
  destruct (get_pod a pid) as [pa|] eqn:Ga; [|discriminate].
  apply andb_true_iff in Wu. destruct Wu as [Wu Wev].
  apply andb_true_iff in Wu. destruct Wu as [Wid _]. apply Pos.eqb_eq in Wid.
  destruct (evicted_facts _ _ Wev) as (_ & _ & _ & _ & i & prev & nid0 & pg & pv & n0 & Ef & Ent & V & _).
  assert (La' : s_log a = s_log s ++ [e]) by (rewrite La; exact Ls).
  rewrite Wid in *. rewrite La' in Ef, Ent, V.
  assert (Ei : i = length (s_log s)).
  { destruct (Nat.lt_ge_cases i (length (s_log s))) as [Lt|Ge].
    - exfalso. rewrite nth_error_app1 in Ent by exact Lt.
      rewrite (op_valid_snoc_prim _ e i OK OK1 I Lt) in V.
      unfold no_valid_evict in Nv. destruct (first_valid_evict (s_log s) (s_log s) pid 0) as [[|]|] eqn:Efs; try discriminate.
      pose proof (fve_none _ _ _ _ Efs i _ _ _ _ Ent) as V'. cbn [Nat.add] in V'. congruence.
    - pose proof (la_nth_lt _ _ _ Ent) as Lt. rewrite app_length in Lt. cbn in Lt. lia. }
  subst i. rewrite nth_snoc in Ent. injection Ent as <- <- <- <-.
  unfold step, step_full. rewrite Ka. unfold unevict_cmd. rewrite La', Ef.
  rewrite (undo_op_evict a (length (s_log s)) pid (p_status p) nid (p_groups p) (p_virt p)).
  - cbn [fst]. apply Back. exact Sr.
  - rewrite La'. exact V.
  - rewrite La'. apply nth_snoc.
Qed.

Lemma wf_from_app tok fails : forall a b stk conv s,
  wf_from tok fails stk conv s (a ++ b) = true -> wf_from tok fails stk conv s a = true.
Proof.
  induction a as [|c r IH]; intros b stk conv s W; [reflexivity|].
  cbn [app wf_from] in *. apply andb_true_iff in W. destruct W as [Wc Wr]. rewrite Wc. cbn [andb]. eapply IH. exact Wr.
Qed.

(** Evict p ... Unevict p, where p is not Releasing when it is evicted (the Evict is not ignored)
    and what happened in between left nothing behind (the log is again the one the eviction
    produced and the session is related to the one it produced: nothing, only checkpoints, or
    steps that were rolled back): the session is related to the one before the eviction *)
Theorem unevict_restores fails S prog mid pid :
  s_log S = [] -> s_stuck S = false -> forallb open_cmd (prog ++ Evict pid :: mid) = true ->
  wf_from any_task fails [] false S ((prog ++ Evict pid :: mid) ++ [Unevict pid]) = true ->
  releasing_in (Session.run fails S prog) pid = false ->
  s_log (Session.run fails S (prog ++ Evict pid :: mid)) = s_log (Session.run fails S (prog ++ [Evict pid])) ->
  srel neq (Session.run fails S (prog ++ [Evict pid])) (Session.run fails S (prog ++ Evict pid :: mid)) ->
  srel neq (Session.run fails S prog) (Session.run fails S ((prog ++ Evict pid :: mid) ++ [Unevict pid])).
Proof.
  intros L K Op W Nr La Sr.
  assert (Op1 : forallb open_cmd prog = true).
  { rewrite forallb_app in Op. apply andb_true_iff in Op. apply Op. }
  assert (W1 : wf_from any_task fails [] false S (prog ++ [Evict pid]) = true).
  { apply (wf_from_app _ _ _ (mid ++ [Unevict pid])). rewrite <- app_assoc. cbn [app].
    rewrite <- app_assoc in W. cbn [app] in W. exact W. }
  destruct (run_hist fails prog S [] [] [S] [[]] Op1 (Hist_init neq neq_refl S L K) (SnOK_nil S)) with (c := Evict pid)
    as (_ & OK & Ks & hist1 & stk1 & sn1 & _ & _ & Wc1); [rewrite L; apply HInv_nil|exact W1|].
  destruct (run_hist fails (prog ++ Evict pid :: mid) S [] [] [S] [[]] Op (Hist_init neq neq_refl S L K) (SnOK_nil S)) with (c := Unevict pid)
    as (_ & _ & Ka & hist2 & stk2 & sn2 & _ & _ & Wc2); [rewrite L; apply HInv_nil|exact W|].
  rewrite (run_app fails S (prog ++ Evict pid :: mid) [Unevict pid]). cbn [Session.run fold_left].
  rewrite (run_app fails S prog [Evict pid]) in La, Sr. cbn [Session.run fold_left] in La, Sr.
  assert (Nv : no_valid_evict (s_log (Session.run fails S prog)) pid = true).
  { apply (run_no_valid_evict fails S prog pid L K Op1 W1 Nr).
    destruct (wf_evict_facts any_task stk1 _ pid Wc1 Nr) as (p0 & j0 & nid1 & n1 & _ & _ & _ & _ & _ & Hp & _). exact Hp. }
  exact (unevict_back fails stk1 stk2 _ pid _ Wc1 Nr Nv OK Ks Sr La Ka Wc2).
Qed.

Theorem unevict_restores_adjacent fails S prog pid :
  s_log S = [] -> s_stuck S = false -> forallb open_cmd prog = true ->
  wf_from any_task fails [] false S (prog ++ [Evict pid; Unevict pid]) = true ->
  releasing_in (Session.run fails S prog) pid = false ->
  srel neq (Session.run fails S prog) (Session.run fails S (prog ++ [Evict pid; Unevict pid])).
Proof.
  intros L K Op W Nr.
  replace (prog ++ [Evict pid; Unevict pid]) with ((prog ++ Evict pid :: []) ++ [Unevict pid]) in * by (rewrite <- app_assoc; reflexivity).
  apply unevict_restores; try assumption.
  - rewrite forallb_app, Op. reflexivity.
  - reflexivity.
  - apply srel_refl. exact neq_refl.
Qed.

(* ------------------------------------------------------------------ 6. the keys of the session never change *)

(** what Commit needs to find: node keys; for every pod key the pod's id, job and pod set; for every
    job key the keys of its pod sets.  No command changes any of it. *)
Definition pshape (p : pod) : positive * positive * positive := (p_id p, t_job (p_task p), p_pset p).
Definition kn (s : sess) : list positive := map fst (s_nodes s).
Definition kp (s : sess) : amap (positive * positive * positive) := amapv pshape (s_pods s).
Definition kj (s : sess) : amap (list positive) := amapv (fun j => map fst (j_psets j)) (s_jobs s).
Definition SS (a b : sess) : Prop := kn a = kn b /\ kp a = kp b /\ kj a = kj b.

Lemma SS_refl s : SS s s. Proof. repeat split. Qed.
Lemma SS_trans a b c : SS a b -> SS b c -> SS a c.
Proof. intros (A & B & C) (A' & B' & C'). repeat split; congruence. Qed.
Lemma SS_sym a b : SS a b -> SS b a.
Proof. intros (A & B & C). repeat split; congruence. Qed.

Lemma alookup_amapv {V W} (f : V -> W) k m : alookup k (amapv f m) = option_map f (alookup k m).
Proof.
  induction m as [|[k' v] r IH]; cbn [amapv map alookup fst snd]; [reflexivity|].
  destruct (Pos.eqb k k'); [reflexivity|exact IH].
Qed.

Lemma amapv_aupd_same {V W} (f : V -> W) k g m :
  (forall v, alookup k m = Some v -> f (g v) = f v) -> amapv f (aupd k g m) = amapv f m.
Proof.
  induction m as [|[k' v] r IH]; intros H; cbn [aupd]; [reflexivity|].
  cbn [alookup] in H. destruct (Pos.eqb k k') eqn:E; cbn [amapv map fst snd].
  - rewrite (H v eq_refl). reflexivity.
  - f_equal. apply IH. exact H.
Qed.

Definition keyed (s : sess) : Prop := forall k p, alookup k (s_pods s) = Some p -> p_id p = k.

Lemma keyed_SS a b : SS a b -> keyed b -> keyed a.
Proof.
  intros (_ & P & _) Kb k p G.
  assert (X : alookup k (kp a) = Some (pshape p)) by (unfold kp; rewrite alookup_amapv, G; reflexivity).
  rewrite P in X. unfold kp in X. rewrite alookup_amapv in X.
  destruct (alookup k (s_pods b)) as [q|] eqn:Gq; [|discriminate]. cbn in X. injection X as X _ _.
  rewrite <- X. apply Kb. exact Gq.
Qed.

Lemma SS_pod a b k p : SS a b -> alookup k (s_pods a) = Some p -> exists q, alookup k (s_pods b) = Some q /\ pshape q = pshape p.
Proof.
  intros (_ & P & _) G.
  assert (X : alookup k (kp a) = Some (pshape p)) by (unfold kp; rewrite alookup_amapv, G; reflexivity).
  rewrite P in X. unfold kp in X. rewrite alookup_amapv in X.
  destruct (alookup k (s_pods b)) as [q|]; [|discriminate]. cbn [option_map] in X. exists q. split; [reflexivity|congruence].
Qed.

Lemma SS_job a b k j : SS a b -> alookup k (s_jobs a) = Some j ->
  exists j', alookup k (s_jobs b) = Some j' /\ map fst (j_psets j') = map fst (j_psets j).
Proof.
  intros (_ & _ & J) G.
  assert (X : alookup k (kj a) = Some (map fst (j_psets j))) by (unfold kj; rewrite alookup_amapv, G; reflexivity).
  rewrite J in X. unfold kj in X. rewrite alookup_amapv in X.
  destruct (alookup k (s_jobs b)) as [q|]; [|discriminate]. cbn in X. injection X as X. exists q. split; [reflexivity|exact X].
Qed.

Lemma alookup_keys_some {V} k (m : amap V) : In k (map fst m) <-> exists v, alookup k m = Some v.
Proof.
  induction m as [|[k' v] r IH]; cbn [map fst In alookup].
  - split; [intros []|intros (v & H); discriminate].
  - destruct (Pos.eqb k k') eqn:E.
    + apply Pos.eqb_eq in E. subst k'. split; [intros _; exists v; reflexivity|intros _; left; reflexivity].
    + apply Pos.eqb_neq in E. rewrite <- IH. split; [intros [H|H]; [congruence|exact H]|intros H; right; exact H].
Qed.

Lemma SS_node a b k n : SS a b -> alookup k (s_nodes a) = Some n -> exists n', alookup k (s_nodes b) = Some n'.
Proof.
  intros (N & _) G. apply alookup_keys_some. unfold kn in N. rewrite <- N. apply alookup_keys_some. exists n. exact G.
Qed.

Lemma amem_keys {V W} k (a : amap V) (b : amap W) : map fst a = map fst b -> amem k a = amem k b.
Proof.
  intros E. unfold amem.
  destruct (alookup k a) as [v|] eqn:A; destruct (alookup k b) as [w|] eqn:B; try reflexivity; exfalso.
  - assert (X : In k (map fst a)) by (apply alookup_keys_some; exists v; exact A).
    rewrite E in X. apply alookup_keys_some in X. destruct X as (w & X). congruence.
  - assert (X : In k (map fst b)) by (apply alookup_keys_some; exists w; exact B).
    rewrite <- E in X. apply alookup_keys_some in X. destruct X as (v & X). congruence.
Qed.

(** ** the primitives *)
Lemma ss_put_pod s x : (forall q, alookup (p_id x) (s_pods s) = Some q -> pshape x = pshape q) -> SS (put_pod s x) s.
Proof.
  intros H. split; [reflexivity|]. split; [|reflexivity].
  unfold kp, put_pod, aput. cbn [s_pods set_podsm]. apply amapv_aupd_same. exact H.
Qed.
Lemma ss_put_node s nid n : SS (put_node s nid n) s.
Proof. split; [|split; reflexivity]. unfold kn, put_node, aput. cbn [s_nodes set_nodes]. apply ab_aupd_keys. Qed.
Lemma ss_cq s p sign : SS (charge_queues s p sign) s.
Proof. destruct (cq_frame s p sign) as (N & P & J & _). unfold SS, kn, kp, kj. rewrite N, P, J. repeat split. Qed.
Lemma ss_push s o : SS (push s o) s. Proof. repeat split. Qed.
Lemma ss_set_log s l : SS (set_log s l) s. Proof. repeat split. Qed.
Lemma ss_set_stuck s : SS (set_stuck s) s. Proof. repeat split. Qed.
Lemma ss_set_ncalls s n : SS (set_ncalls s n) s. Proof. repeat split. Qed.

Lemma job_update_psets j ps jreq passed cur new j' :
  job_update j ps jreq passed cur new = Some j' -> map fst (j_psets j') = map fst (j_psets j).
Proof.
  unfold job_update. destruct (alookup ps (j_psets j)); [|discriminate].
  destruct (idx_dec passed (j_idx j) (j_active j)) as [i1 c1]. destruct (idx_inc new i1 c1) as [i2 c2].
  intros H. injection H as <-. cbn [j_psets]. apply ab_aupd_keys.
Qed.

Lemma ss_update_status s obj new :
  (forall q, alookup (p_id obj) (s_pods s) = Some q -> pshape obj = pshape q) -> SS (fst (update_status s obj new)) s.
Proof.
  intros H. unfold update_status.
  destruct (alookup (t_job (p_task obj)) (s_jobs s)) as [j|] eqn:Ej; [|apply SS_refl].
  destruct (alookup (p_id obj) (s_pods s)) as [cur|] eqn:Ec; [|apply SS_refl].
  destruct (job_update j (p_pset cur) (p_jreq cur) (p_status obj) (p_status cur) new) as [j'|] eqn:Eu; [|apply SS_refl].
  cbn [fst]. eapply SS_trans; [apply ss_put_pod|].
  - cbn [s_pods set_jobs]. change (p_id (set_st obj new)) with (p_id obj). intros q Hq. rewrite Ec in Hq. rewrite <- (H q Hq). reflexivity.
  - split; [reflexivity|]. split; [reflexivity|]. unfold kj, aput. cbn [s_jobs set_jobs]. apply amapv_aupd_same.
    intros v Hv. rewrite Ej in Hv. injection Hv as <-. apply (job_update_psets _ _ _ _ _ _ _ Eu).
Qed.

Lemma pshape_at_node p n : pshape (at_node p n) = pshape p.
Proof. unfold at_node. destruct (active_used _); reflexivity. Qed.

Lemma keyed_get s pid p : keyed s -> get_pod s pid = Some p -> p_id p = pid.
Proof. intros K G. exact (K pid p G). Qed.

(** a pod with the shape of the pod stored under [pid] may replace it in any state of the same shape *)
Lemma ss_put_pod' s s1 pid p x :
  SS s1 s -> keyed s -> get_pod s pid = Some p -> pshape x = pshape p -> SS (put_pod s1 x) s.
Proof.
  intros S K G E. eapply SS_trans; [apply ss_put_pod|exact S].
  intros q Hq. assert (Ix : p_id x = pid) by (pose proof (keyed_get _ _ _ K G); unfold pshape in E; congruence).
  rewrite Ix in Hq. destruct (SS_pod _ _ _ _ S Hq) as (q' & Gq & Eq). unfold get_pod in G. rewrite G in Gq. injection Gq as <-. congruence.
Qed.

Lemma ss_update_status' s s1 pid p x new :
  SS s1 s -> keyed s -> get_pod s pid = Some p -> pshape x = pshape p -> SS (fst (update_status s1 x new)) s.
Proof.
  intros S K G E. eapply SS_trans; [apply ss_update_status|exact S].
  intros q Hq. assert (Ix : p_id x = pid) by (pose proof (keyed_get _ _ _ K G); unfold pshape in E; congruence).
  rewrite Ix in Hq. destruct (SS_pod _ _ _ _ S Hq) as (q' & Gq & Eq). unfold get_pod in G. rewrite G in Gq. injection Gq as <-. congruence.
Qed.

Ltac ss_shape := cbv zeta; try reflexivity; rewrite ?pshape_at_node; reflexivity.
Ltac ss K G :=
  unfold ev_alloc, ev_dealloc;
  repeat first
    [ assumption
    | apply SS_refl
    | (eapply (ss_put_pod' _ _ _ _ _); [ |exact K|exact G|ss_shape])
    | (eapply SS_trans; [first [apply ss_push|apply ss_cq|apply ss_put_node|apply ss_set_log|apply ss_set_stuck|apply ss_set_ncalls]|]) ].

Lemma ss_evict s pid : keyed s -> SS (fst (evict s pid)) s.
Proof.
  intros K. unfold evict. destruct (get_pod s pid) as [p|] eqn:G; [|apply SS_refl].
  destruct (alookup (t_job (p_task p)) (s_jobs s)); [|apply SS_refl].
  destruct (p_node p) as [nid|]; [|apply SS_refl].
  destruct (alookup nid (s_nodes s)) as [n|]; [|apply SS_refl].
  destruct (status_eqb (p_status p) Releasing); [apply SS_refl|]. unfold evict_on.
  pose proof (ss_update_status' s s pid p p Releasing (SS_refl s) K G eq_refl) as U.
  destruct (update_status s p Releasing) as [s1 ok]. cbn [fst] in U.
  destruct ok; cbn [negb fst]; [|apply SS_refl].
  destruct (update_task n _) as [n'|]; cbn [fst]; [|exact U].
  ss K G.
Qed.

Lemma ss_unevict s pid prev nid pg pv : keyed s -> SS (unevict s pid prev nid pg pv) s.
Proof.
  intros K. unfold unevict. destruct (get_pod s pid) as [p|] eqn:G; [|apply SS_refl].
  pose proof (ss_update_status' s s pid p p prev (SS_refl s) K G eq_refl) as U.
  destruct (update_status s p prev) as [s1 ok]. cbn [fst] in U.
  destruct (alookup nid (s_nodes s1)) as [n|].
  - cbv zeta. match goal with |- context [match ?r with Ok n' => _ | Err => _ end] => destruct r as [n'|] end; destruct ok; ss K G.
  - destruct ok; ss K G.
Qed.

Lemma ss_unpipeline s pid prev pn pg pv moved : keyed s -> SS (fst (unpipeline s pid prev pn pg pv moved)) s.
Proof.
  intros K. unfold unpipeline. destruct (get_pod s pid) as [p|] eqn:G; [|apply SS_refl].
  pose proof (ss_update_status' s s pid p p prev (SS_refl s) K G eq_refl) as U.
  destruct (update_status s p prev) as [s1 ok]. cbn [fst] in U. cbv zeta.
  destruct (p_node p) as [h|]; cbn [fst]; [|destruct ok; ss K G].
  match goal with |- context [alookup h ?m] => destruct (alookup h m) as [n|] end; cbn [fst]; destruct ok; ss K G.
Qed.

Lemma ss_unallocate s pid obj pv : keyed s -> get_pod s pid = Some obj -> SS (fst (unallocate s obj pv)) s.
Proof.
  intros K G. unfold unallocate.
  pose proof (ss_update_status' s s pid obj obj Pending (SS_refl s) K G eq_refl) as U.
  destruct (update_status s obj Pending) as [s1 ok]. cbn [fst] in U.
  destruct (p_node obj) as [h|]; cbn [fst]; [|exact U].
  destruct (alookup h (s_nodes s1)) as [n|]; cbn [fst]; [|exact U].
  destruct (remove_task n (p_id obj)) as [n'|]; destruct ok; ss K G.
Qed.

Lemma ss_allocate s pid nid gs : keyed s -> SS (fst (allocate s pid nid gs)) s.
Proof.
  intros K. unfold allocate. destruct (get_pod s pid) as [p0|] eqn:G; [|apply SS_refl].
  set (p := match gs with Some g => set_gs p0 g | None => p0 end).
  assert (Ep : pshape p = pshape p0) by (unfold p; destruct gs; reflexivity).
  assert (S0 : SS (put_pod s p) s) by (eapply ss_put_pod'; [apply SS_refl|exact K|exact G|exact Ep]).
  pose proof (ss_update_status' s (put_pod s p) pid p0 p Allocated S0 K G Ep) as U.
  destruct (update_status (put_pod s p) p Allocated) as [s1 ok]. cbn [fst] in U.
  destruct ok; cbn [negb fst]; [|exact S0].
  match goal with |- context [alookup nid ?m] => destruct (alookup nid m) as [n|] end; cbn [fst].
  2:{ eapply ss_put_pod'; [exact U|exact K|exact G|]. rewrite pshape_at_node. exact Ep. }
  destruct (add_task n _) as [n'|]; cbn [fst].
  2:{ eapply ss_put_pod'; [exact U|exact K|exact G|]. rewrite pshape_at_node. exact Ep. }
  assert (E1 : pshape (at_node (set_nd (set_st p Allocated) (Some nid)) nid) = pshape p0) by (rewrite pshape_at_node; exact Ep).
  unfold ev_alloc.
  eapply ss_put_pod'; [|exact K|exact G|exact E1].
  eapply SS_trans; [apply ss_push|]. eapply SS_trans; [apply ss_cq|]. eapply SS_trans; [apply ss_put_node|].
  eapply ss_put_pod'; [exact U|exact K|exact G|exact E1].
Qed.

Lemma ss_pipeline_body s s0 pid p0 p nid n on move :
  keyed s -> get_pod s pid = Some p0 -> pshape p = pshape p0 -> SS s0 s -> SS (fst (pipeline_body s0 p nid n on move)) s.
Proof.
  intros K G Ep S0. unfold pipeline_body.
  pose proof (ss_update_status' s s0 pid p0 p Pipelined S0 K G Ep) as U.
  destruct (update_status s0 p Pipelined) as [s1 ok]. cbn [fst] in U.
  set (p1 := at_node (set_nd (if ok then set_st p Pipelined else p) (Some nid)) nid).
  assert (E1 : pshape p1 = pshape p0) by (unfold p1; rewrite pshape_at_node; destruct ok; exact Ep).
  assert (S2 : SS (put_pod s1 p1) s) by (eapply ss_put_pod'; [exact U|exact K|exact G|exact E1]).
  match goal with |- context [match ?r with Err => _ | Ok n' => _ end] => destruct r as [n'|] end; cbn [fst]; [|exact S2].
  unfold ev_alloc.
  eapply ss_put_pod'; [|exact K|exact G|exact E1].
  eapply SS_trans; [apply ss_push|]. eapply SS_trans; [apply ss_cq|]. eapply SS_trans; [apply ss_put_node|]. exact S2.
Qed.

Lemma ss_exec : forall f s q, keyed s -> SS (fst (exec f s q)) s.
Proof.
  induction f as [|f IH]; intros s q K; cbn [exec]; [apply ss_set_stuck|].
  destruct q as [pid nid gs upd|i].
  - destruct (get_pod s pid) as [p0|] eqn:G; [|apply SS_refl].
    set (p := match gs with Some g => set_gs p0 g | None => p0 end).
    assert (Ep : pshape p = pshape p0) by (unfold p; destruct gs; reflexivity).
    assert (S0 : SS (put_pod s p) s) by (eapply ss_put_pod'; [apply SS_refl|exact K|exact G|exact Ep]).
    destruct (alookup (t_job (p_task p)) (s_jobs (put_pod s p))); [|exact S0].
    destruct (alookup nid (s_nodes (put_pod s p))) as [n|]; [|exact S0].
    destruct (alookup pid (n_pods n)) as [c|]; [|eapply ss_pipeline_body; eassumption].
    match goal with |- context [if ?b then _ else _] => destruct b end; [|eapply ss_pipeline_body; eassumption].
    set (s1 := put_pod (put_pod s p) (set_gs p (t_groups c))).
    assert (S1 : SS s1 s) by (unfold s1; eapply ss_put_pod'; [exact S0|exact K|exact G|exact Ep]).
    destruct (first_valid_evict (s_log s1) (s_log s1) pid 0) as [[i|]|]; cbn [fst]; [|exact S1|eapply SS_trans; [apply ss_set_stuck|exact S1]].
    eapply SS_trans; [apply IH; eapply keyed_SS; eassumption|exact S1].
  - destruct (op_valid (s_log s) i) as [[|]|]; [|apply SS_refl|apply ss_set_stuck].
    destruct (nth_error (s_log s) i) as [o|]; [|apply ss_set_stuck].
    match goal with |- SS (fst (let '(s1, ok) := ?r in _)) s => assert (R : SS (fst r) s); [|destruct r as [s1 ok]; cbn [fst] in R; destruct ok; cbn [fst]; [eapply SS_trans; [apply ss_push|exact R]|exact R]] end.
    destruct o as [p prev nd pg pv|p prev pn pg pv nx moved|c nx pv|k]; cbn [fst].
    + apply ss_unevict. exact K.
    + apply ss_unpipeline. exact K.
    + destruct (get_pod s (p_id c)) as [cur|] eqn:G; [|apply SS_refl]. eapply ss_unallocate; eassumption.
    + destruct (nth_error (s_log s) k) as [[p ? ? ? ?|p ? ? ? ? nx ?|c nx ?|k']|]; [apply ss_evict; exact K|apply IH; exact K|apply ss_allocate; exact K|apply IH; exact K|apply ss_set_stuck].
Qed.

Lemma ss_undo_operation s i : keyed s -> SS (fst (undo_operation s i)) s.
Proof. intros K. apply ss_exec. exact K. Qed.

Lemma ss_undo_down cp : forall k s, keyed s -> SS (fst (undo_down s cp k)) s.
Proof.
  induction k as [|k IH]; intros s K; cbn [undo_down]; [apply SS_refl|].
  pose proof (ss_undo_operation s (cp + k) K) as U. destruct (undo_operation s (cp + k)) as [s1 ok]. cbn [fst] in U.
  destruct ok; [|exact U]. eapply SS_trans; [apply IH; eapply keyed_SS; eassumption|exact U].
Qed.

Lemma ss_discard_down : forall k s, keyed s -> SS (discard_down s k) s.
Proof.
  induction k as [|k IH]; intros s K; cbn [discard_down]; [apply SS_refl|].
  pose proof (ss_undo_operation s k K) as U. eapply SS_trans; [apply IH; eapply keyed_SS; eassumption|exact U].
Qed.

(** no open command changes the keys *)
Lemma ss_step fails s c : keyed s -> open_cmd c = true -> SS (fst (step fails s c)) s.
Proof.
  intros K Oc. unfold step, step_full. destruct (s_stuck s); [apply SS_refl|].
  destruct c as [pid|pid nid gs upd|pid nid gs|pid| |cp| | |j]; try discriminate.
  - pose proof (ss_evict s pid K) as U. destruct (evict s pid). exact U.
  - pose proof (ss_exec (fuel_of s) s (QPipeline pid nid gs upd) K) as U. unfold pipeline. destruct (exec _ _ _). exact U.
  - pose proof (ss_allocate s pid nid gs K) as U. destruct (allocate s pid nid gs). exact U.
  - unfold unevict_cmd. destruct (first_valid_evict _ _ _ _) as [[i|]|]; cbn [fst]; [|apply SS_refl|apply ss_set_stuck].
    pose proof (ss_undo_operation s i K) as U. destruct (undo_operation s i). exact U.
  - apply SS_refl.
  - unfold rollback. destruct (Nat.ltb _ _); [apply SS_refl|].
    pose proof (ss_undo_down cp (length (s_log s) - cp) s K) as U. destruct (undo_down _ _ _) as [s1 ok]. cbn [fst] in U.
    destruct ok; cbn [fst]; [eapply SS_trans; [apply ss_set_log|exact U]|exact U].
  - cbn [fst]. unfold discard. eapply SS_trans; [apply ss_set_log|apply ss_discard_down; exact K].
Qed.

Lemma ss_run fails : forall prog s, keyed s -> forallb open_cmd prog = true -> SS (Session.run fails s prog) s.
Proof.
  induction prog as [|c r IH]; intros s K Op; [apply SS_refl|].
  cbn [forallb] in Op. apply andb_true_iff in Op. destruct Op as [Oc Or]. rewrite run_cons.
  pose proof (ss_step fails s c K Oc) as U. eapply SS_trans; [apply IH; [eapply keyed_SS; eassumption|exact Or]|exact U].
Qed.

(* ------------------------------------------------------------------ 7. Commit finds what it looks up *)

(** what the commit loop looks up for a log entry is there *)
Definition Ready (s : sess) (o : op) : Prop :=
  match o with
  | OEvict pid _ _ _ _ => exists p j, get_pod s pid = Some p /\ alookup (t_job (p_task p)) (s_jobs s) = Some j
  | OPipe pid _ _ _ _ _ _ => exists p, get_pod s pid = Some p
  | OAlloc c _ _ =>
      exists h n cur j, p_node c = Some h /\ alookup h (s_nodes s) = Some n
        /\ alookup (p_id c) (s_pods s) = Some cur /\ pshape cur = pshape c
        /\ alookup (t_job (p_task c)) (s_jobs s) = Some j /\ amem (p_pset c) (j_psets j) = true
  | OUndo _ => True
  end.

Lemma Ready_SS a b o : SS a b -> Ready b o -> Ready a o.
Proof.
  intros S R. pose proof (SS_sym _ _ S) as S'. destruct o as [pid ? ? ? ?|pid ? ? ? ? ? ?|c ? ?|k]; cbn [Ready] in *.
  - destruct R as (p & j & G & J). destruct (SS_pod _ _ _ _ S' G) as (q & Gq & Eq).
    assert (Ej : t_job (p_task q) = t_job (p_task p)) by (unfold pshape in Eq; congruence).
    destruct (SS_job _ _ _ _ S' J) as (j' & Gj & _). exists q, j'. split; [exact Gq|]. rewrite Ej. exact Gj.
  - destruct R as (p & G). destruct (SS_pod _ _ _ _ S' G) as (q & Gq & _). exists q. exact Gq.
  - destruct R as (h & n & cur & j & Pn & Nn & G & Eq & J & M).
    destruct (SS_node _ _ _ _ S' Nn) as (n' & Nn'). destruct (SS_pod _ _ _ _ S' G) as (q & Gq & Eq').
    destruct (SS_job _ _ _ _ S' J) as (j' & Gj & Kj).
    exists h, n', q, j'. split; [exact Pn|]. split; [exact Nn'|]. split; [exact Gq|]. split; [congruence|]. split; [exact Gj|].
    rewrite (amem_keys _ _ _ Kj). exact M.
  - exact I.
Qed.

Lemma update_status_ok s obj new s1 : update_status s obj new = (s1, true) ->
  exists j cur, alookup (t_job (p_task obj)) (s_jobs s) = Some j /\ alookup (p_id obj) (s_pods s) = Some cur
    /\ amem (p_pset cur) (j_psets j) = true.
Proof.
  unfold update_status. destruct (alookup (t_job (p_task obj)) (s_jobs s)) as [j|]; [|discriminate].
  destruct (alookup (p_id obj) (s_pods s)) as [cur|]; [|discriminate].
  destruct (job_update j (p_pset cur) (p_jreq cur) (p_status obj) (p_status cur) new) as [j'|] eqn:Eu; [|discriminate].
  intros _. exists j, cur. split; [reflexivity|]. split; [reflexivity|].
  unfold job_update in Eu. unfold amem. destruct (alookup (p_pset cur) (j_psets j)); [reflexivity|discriminate].
Qed.

Lemma evict_ready s pid s' a b c d : evict s pid = (s', true) -> Ready s (OEvict pid a b c d).
Proof.
  unfold evict. cbn [Ready]. destruct (get_pod s pid) as [p|]; [|discriminate].
  destruct (alookup (t_job (p_task p)) (s_jobs s)) as [j|] eqn:Ej; [|discriminate].
  intros _. exists p, j. split; [reflexivity|exact Ej].
Qed.

Lemma p_node_at_node p n : p_node (at_node p n) = p_node p.
Proof. unfold at_node. destruct (active_used _); reflexivity. Qed.
Lemma p_id_at_node p n : p_id (at_node p n) = p_id p.
Proof. unfold at_node. destruct (active_used _); reflexivity. Qed.

Lemma allocate_ready s pid nid gs s' e : keyed s -> allocate s pid nid gs = (s', true) -> s_log s' = s_log s ++ [e] -> Ready s e.
Proof.
  intros K. unfold allocate. destruct (get_pod s pid) as [p0|] eqn:G; [|discriminate].
  set (p := match gs with Some g => set_gs p0 g | None => p0 end).
  assert (Ep : pshape p = pshape p0) by (unfold p; destruct gs; reflexivity).
  assert (Ip : p_id p = pid) by (pose proof (keyed_get _ _ _ K G); unfold pshape in Ep; congruence).
  pose proof (update_status_frame (put_pod s p) p Allocated) as (Fl & _ & Fn & _).
  destruct (update_status (put_pod s p) p Allocated) as [s1 ok] eqn:Eu. cbn [fst] in Fl, Fn.
  destruct ok; cbn [negb]; [|discriminate].
  destruct (update_status_ok _ _ _ _ Eu) as (j & cur & Ej & Ec & Mj).
  set (p1 := at_node (set_nd (set_st p Allocated) (Some nid)) nid).
  change (s_nodes (put_pod s1 p1)) with (s_nodes s1). rewrite Fn. change (s_nodes (put_pod s p)) with (s_nodes s).
  destruct (alookup nid (s_nodes s)) as [n|] eqn:En; [|discriminate].
  destruct (add_task n _) as [n'|]; [|discriminate].
  intros H Ls. injection H as <-. log_cbn. unfold ev_alloc in Ls. rewrite cq_log in Ls. log_cbn. rewrite Fl in Ls.
  apply snoc_inj in Ls. destruct Ls as [_ <-]. cbn [Ready].
  (* the pod found by update_status under p's id is p itself *)
  assert (Ecur : cur = p).
  { change (s_pods (put_pod s p)) with (aput (p_id p) p (s_pods s)) in Ec. rewrite Ip in Ec.
    unfold get_pod in G. rewrite (alookup_aput_same' _ _ _ _ G) in Ec. congruence. }
  subst cur. change (s_jobs (put_pod s p)) with (s_jobs s) in Ej.
  exists nid, n, p0, j. split; [unfold p1; rewrite p_node_at_node; reflexivity|]. split; [exact En|].
  assert (E1 : pshape p1 = pshape p0) by (unfold p1; rewrite pshape_at_node; exact Ep).
  split; [replace (p_id p1) with pid by (unfold pshape in E1; pose proof (keyed_get _ _ _ K G); congruence); exact G|].
  split; [symmetry; exact E1|].
  replace (t_job (p_task p1)) with (t_job (p_task p)) by (unfold pshape in E1, Ep; congruence).
  replace (p_pset p1) with (p_pset p) by (unfold pshape in E1, Ep; congruence).
  split; [exact Ej|exact Mj].
Qed.

Lemma cmd_ready fails stk s c s' e :
  log_cmd c = true -> wf_cmd any_task stk false s c = true -> s_stuck s = false -> keyed s ->
  step_full fails s c = (s', [], true) -> s_log s' = s_log s ++ [e] -> entry_for c e -> Ready s e.
Proof.
  intros Lc W Ks K Es Ls Ef.
  destruct c as [pid|pid nid gs upd|pid nid gs|pid| | | | |]; try discriminate.
  - destruct e; cbn [entry_for] in Ef; try contradiction. subst p.
    apply step_evict in Es; [|exact Ks]. eapply evict_ready. exact Es.
  - destruct e; cbn [entry_for] in Ef; try contradiction; [|exact I]. subst p. cbn [Ready].
    unfold wf_cmd in W. cbn [negb andb] in W. destruct (get_pod s pid) as [p0|]; [|discriminate]. exists p0. reflexivity.
  - apply step_allocate in Es; [|exact Ks]. eapply allocate_ready; eassumption.
  - destruct e; cbn [entry_for] in Ef; try contradiction. exact I.
Qed.

Lemma Forall_firstn {A} (P : A -> Prop) n l : Forall P l -> Forall P (firstn n l).
Proof. intros H. rewrite <- (firstn_skipn n l) in H. apply Forall_app in H. apply H. Qed.

Lemma ready_step fails s stk sn hist c :
  open_cmd c = true -> wf_cmd any_task stk false s c = true -> Hist neq s hist -> SnOK neq s hist stk sn ->
  keyed s -> Forall (Ready s) (s_log s) ->
  Forall (Ready (fst (step fails s c))) (s_log (fst (step fails s c))).
Proof.
  intros Oc W H Sn K F. pose proof H as (Hl & OK & Ks & _). destruct Sn as (Sm & Se).
  pose proof (ss_step fails s c K Oc) as S.
  assert (F' : Forall (Ready (fst (step fails s c))) (s_log s)).
  { rewrite Forall_forall in *. intros o Ho. eapply Ready_SS; [exact S|]. apply F. exact Ho. }
  destruct (noop_cmd s c) eqn:Nc.
  { rewrite (noop_step fails s c Nc) in *. exact F. }
  destruct (log_cmd c) eqn:Lc.
  - destruct (cmd_link_n fails stk s c Lc Nc W OK Ks) as (s' & e & Es & _ & Ls & Ef & _).
    pose proof (cmd_ready fails stk s c s' e Lc W Ks K Es Ls Ef) as Re.
    unfold step in *. rewrite Es in *. cbn [fst] in *. rewrite Ls. apply Forall_app. split; [exact F'|].
    constructor; [|constructor]. eapply Ready_SS; [exact S|exact Re].
  - destruct c as [| | | | |cp| | |]; try discriminate.
    + unfold step, step_full in *. rewrite Ks in *. exact F'.
    + assert (Wc : existsb (Nat.eqb cp) stk = true) by exact W.
      apply existsb_exists in Wc. destruct Wc as (x & Hx & Ex). apply Nat.eqb_eq in Ex. subst x.
      rewrite <- Sm in Hx. apply in_map_iff in Hx. destruct Hx as ([cp' x0] & Ecp & Hin). cbn [fst] in Ecp. subst cp'.
      destruct (Se cp x0 Hin) as (Le & _).
      destruct (Hist_rollback_n s hist cp H Le) as (s' & h0 & Er & _ & _ & _ & Lg).
      unfold step, step_full in *. rewrite Ks, Er in *. cbn [fst] in *. rewrite Lg. apply Forall_firstn. exact F'.
    + unfold step, step_full. rewrite Ks. cbn [fst]. unfold discard. cbn [s_log set_log]. constructor.
Qed.

Lemma run_ready fails : forall prog s stk sn hist,
  forallb open_cmd prog = true -> Hist neq s hist -> SnOK neq s hist stk sn ->
  keyed s -> Forall (Ready s) (s_log s) ->
  forall c, wf_from any_task fails stk false s (prog ++ [c]) = true ->
  keyed (Session.run fails s prog) /\ Forall (Ready (Session.run fails s prog)) (s_log (Session.run fails s prog)).
Proof.
  induction prog as [|c0 r IH]; intros s stk sn hist Op H Sn K F c W.
  - split; assumption.
  - cbn [forallb] in Op. apply andb_true_iff in Op. destruct Op as [Oc Or].
    cbn [app wf_from] in W. apply andb_true_iff in W. destruct W as [Wc Wr].
    destruct (inv_step_n fails s stk sn hist c0 Oc Wc H Sn) as (hist1 & H1 & Sn1 & _).
    pose proof (ready_step fails s stk sn hist c0 Oc Wc H Sn K F) as F1.
    pose proof (keyed_SS _ _ (ss_step fails s c0 K Oc) K) as K1.
    assert (Ec : conv_after false c0 = false) by (destruct c0; try discriminate; reflexivity).
    rewrite Ec in Wr. rewrite run_cons. apply (IH _ _ _ _ Or H1 Sn1 K1 F1 c Wr).
Qed.

Lemma update_status_ncalls s obj new : s_ncalls (fst (update_status s obj new)) = s_ncalls s.
Proof.
  unfold update_status. destruct (alookup _ (s_jobs s)); [|reflexivity]. destruct (alookup _ (s_pods s)); [|reflexivity].
  destruct (job_update _ _ _ _ _ _); reflexivity.
Qed.

Lemma cq_ncalls s p sign : s_ncalls (charge_queues s p sign) = s_ncalls s.
Proof. apply cq_frame. Qed.

Lemma unevict_ncalls a p prev nid pg pv : s_ncalls (unevict a p prev nid pg pv) = s_ncalls a.
Proof.
  unfold unevict. destruct (get_pod a p) as [p0|]; [|reflexivity].
  pose proof (update_status_ncalls a p0 prev) as Fc.
  destruct (update_status a p0 prev) as [s1 ok]. cbn [fst] in Fc.
  destruct (alookup nid (s_nodes s1)) as [n|]; cbv zeta; unfold ev_alloc; rewrite cq_ncalls.
  - match goal with |- context [match ?r with Ok n' => _ | Err => _ end] => destruct r end; exact Fc.
  - exact Fc.
Qed.

Lemma update_status_succeeds s obj new j cur :
  alookup (t_job (p_task obj)) (s_jobs s) = Some j -> alookup (p_id obj) (s_pods s) = Some cur ->
  amem (p_pset cur) (j_psets j) = true -> exists s2, update_status s obj new = (s2, true).
Proof.
  intros Ej Ec M. unfold update_status. rewrite Ej, Ec.
  destruct (job_update_some j (p_pset cur) (p_jreq cur) (p_status obj) (p_status cur) new M) as (j' & E). rewrite E.
  eexists. reflexivity.
Qed.

(** the commit loop on a state where every entry finds what it looks up: one call per valid entry,
    in order, up to the end or up to a Bind that fails *)
Lemma commit_loop_exact fails all : LogOK all -> forall ops s pos s3 cs ok,
  (pos + length ops <= length all)%nat -> keyed s -> Forall (Ready s) ops ->
  commit_loop fails s all ops pos = (s3, cs, ok) ->
  exists rest, vkeys3 all ops pos = map call_key cs ++ rest
    /\ (ok = true -> rest = [])
    /\ (ok = false -> exists pre p n g, cs = pre ++ [ABind p n g] /\ fails (s_ncalls s + length pre)%nat = true).
Proof.
  intros OK. induction ops as [|o r IH]; intros s pos s3 cs ok Len K F H; cbn [commit_loop vkeys3] in *.
  - injection H as <- <- <-. exists []. split; [reflexivity|]. split; [reflexivity|discriminate].
  - cbn [length] in Len. inversion F as [|? ? Ro Fr]; subst.
    rewrite (valid_persistent all pos OK) in * by lia.
    assert (Cont : forall s2 call, SS s2 s -> s_ncalls s2 = S (s_ncalls s) -> forall s3 cs ok,
              (let '(s3', cs', ok') := commit_loop fails s2 all r (S pos) in (s3', call :: cs', ok')) = (s3, cs, ok) ->
              exists rest, call_key call :: vkeys3 all r (S pos) = map call_key cs ++ rest
                /\ (ok = true -> rest = [])
                /\ (ok = false -> exists pre p n g, cs = pre ++ [ABind p n g] /\ fails (s_ncalls s + length pre)%nat = true)).
    { intros s2 call S2 N2 s3' cs' ok' H'.
      destruct (commit_loop fails s2 all r (S pos)) as [[s4 cs4] ok4] eqn:E. injection H' as <- <- <-.
      assert (F2 : Forall (Ready s2) r).
      { rewrite Forall_forall in *. intros x Hx. eapply Ready_SS; [exact S2|]. apply Fr. exact Hx. }
      destruct (IH s2 (S pos) s4 cs4 ok4 ltac:(lia) (keyed_SS _ _ S2 K) F2 E) as (rest & E1 & E2 & E3).
      exists rest. split; [cbn [map app]; rewrite E1; reflexivity|]. split; [exact E2|].
      intros Hf. destruct (E3 Hf) as (pre & p & n & g & Ec & Ef). exists (call :: pre), p, n, g.
      split; [rewrite Ec; reflexivity|]. rewrite N2 in Ef. cbn [length]. rewrite <- Nat.add_succ_comm. exact Ef. }
    destruct (undone_in all pos); cbn [negb app] in *.
    { exact (IH s (S pos) s3 cs ok ltac:(lia) K Fr H). }
    destruct o as [pid a b c d|pid a b c d e f|c nx pv|k]; cbn [okey3 item_of map item_key app Ready] in *.
    + destruct Ro as (p & j & Gp & Gj). rewrite Gp, Gj in H. unfold next_call in H.
      destruct (fails (s_ncalls s)).
      * refine (Cont _ (AEvict pid) _ _ s3 cs ok H).
        -- eapply SS_trans; [apply ss_unevict; eapply keyed_SS; [apply ss_set_ncalls|exact K]|apply ss_set_ncalls].
        -- rewrite unevict_ncalls. reflexivity.
      * refine (Cont _ (AEvict pid) _ _ s3 cs ok H).
        -- eapply ss_put_pod'; [apply ss_set_ncalls|exact K|exact Gp|reflexivity].
        -- reflexivity.
    + destruct Ro as (p & Gp). rewrite Gp in H. unfold next_call in H.
      refine (Cont _ (APipe pid (p_node p) (p_groups p)) _ _ s3 cs ok H); [apply ss_set_ncalls|reflexivity].
    + destruct Ro as (h & n & cur & j & Pn & Nn & Gc & Eq & Gj & Mj). rewrite Pn, Nn in H.
      set (s0 := if is_shared (p_task c) then put_node s h (ensure_groups n (p_groups c)) else s) in *.
      assert (S0 : SS s0 s) by (unfold s0; destruct (is_shared _); [apply ss_put_node|apply SS_refl]).
      assert (N0 : s_ncalls s0 = s_ncalls s) by (unfold s0; destruct (is_shared _); reflexivity).
      unfold next_call in H. rewrite N0 in H.
      destruct (fails (s_ncalls s)) eqn:Ef.
      * injection H as <- <- <-. exists (vkeys3 all r (S pos)). split; [reflexivity|]. split; [discriminate|].
        intros _. exists [], (p_id c), h, (p_groups c). split; [reflexivity|]. cbn [length]. rewrite Nat.add_0_r. exact Ef.
      * set (s1 := set_ncalls s0 (S (s_ncalls s))) in *.
        assert (S1 : SS s1 s) by (eapply SS_trans; [apply ss_set_ncalls|exact S0]).
        assert (R1 : Ready s1 (OAlloc c nx pv)).
        { eapply Ready_SS; [exact S1|]. cbn [Ready]. exists h, n, cur, j. repeat split; assumption. }
        cbn [Ready] in R1. destruct R1 as (h1 & n1 & cur1 & j1 & _ & _ & Gc1 & Eq1 & Gj1 & Mj1).
        assert (Mj1' : amem (p_pset cur1) (j_psets j1) = true).
        { replace (p_pset cur1) with (p_pset c) by (unfold pshape in Eq1; congruence). exact Mj1. }
        destruct (update_status_succeeds s1 c Binding j1 cur1 Gj1 Gc1 Mj1') as (s2 & Eu).
        pose proof (ss_update_status s1 c Binding) as U. pose proof (update_status_ncalls s1 c Binding) as Nc.
        rewrite Eu in H, U, Nc. cbn [fst] in U, Nc.
        refine (Cont s2 (ABind (p_id c) h (p_groups c)) _ _ s3 cs ok H).
        -- eapply SS_trans; [apply U|exact S1]. intros q Hq. rewrite Gc1 in Hq. injection Hq as <-. symmetry. exact Eq1.
        -- rewrite Nc. reflexivity.
    + exact (IH s (S pos) s3 cs ok ltac:(lia) K Fr H).
Qed.

Lemma keyed_b_keyed s : keyed_b s = true -> keyed s.
Proof.
  unfold keyed_b, keyed. intros H k p G. rewrite forallb_forall in H.
  assert (In (k, p) (s_pods s)).
  { clear H. induction (s_pods s) as [|[k' v] r IH]; cbn [alookup] in G; [discriminate|].
    destruct (Pos.eqb k k') eqn:E; [apply Pos.eqb_eq in E; subst k'; injection G as ->; left; reflexivity|right; apply IH; exact G]. }
  specialize (H _ H0). cbn [fst snd] in H. apply Pos.eqb_eq in H. exact H.
Qed.

(** Commit after a well-formed open statement: the calls are, in order, exactly the steps that the
    command history says are still valid (every still-valid step is emitted, nothing else), up to
    the end or up to a Bind whose Cache call fails *)
Theorem commit_log_exact fails S prog :
  keyed_b S = true -> s_log S = [] -> s_stuck S = false -> forallb open_cmd prog = true ->
  wf_from any_task fails [] false S (prog ++ [Commit]) = true ->
  exists rest,
    expect_calls (valid_steps fails S prog) = map call_key (snd (step fails (Session.run fails S prog) Commit)) ++ rest
    /\ (rest = [] \/ exists pre p n g,
          snd (step fails (Session.run fails S prog) Commit) = pre ++ [ABind p n g]
          /\ fails (s_ncalls (Session.run fails S prog) + length pre)%nat = true).
Proof.
  intros Kb L K Op W. apply keyed_b_keyed in Kb.
  destruct (valid_steps_log fails S prog Commit L K Op W) as (Ev & OK & Ks).
  destruct (run_ready fails prog S [] [] [S] Op (Hist_init neq neq_refl S L K) (SnOK_nil S) Kb) with (c := Commit) as (Kr & Fr).
  { rewrite L. constructor. } { exact W. }
  set (s := Session.run fails S prog) in *.
  rewrite Ev. unfold step, step_full. rewrite Ks. unfold commit.
  destruct (commit_loop fails s (s_log s) (s_log s) 0) as [[s1 cs] ok] eqn:Ec. cbn [fst snd].
  destruct (commit_loop_exact fails (s_log s) OK (s_log s) s 0%nat s1 cs ok ltac:(lia) Kr Fr Ec) as (rest & E1 & E2 & E3).
  exists rest. split.
  - unfold expect_calls, aitems. rewrite <- (vkeys3_aitems _ OK) by lia. exact E1.
  - destruct ok; [left; apply E2; reflexivity|right; apply E3; reflexivity].
Qed.

Corollary commit_log_exact_nofail fails S prog :
  (forall i, fails i = false) ->
  keyed_b S = true -> s_log S = [] -> s_stuck S = false -> forallb open_cmd prog = true ->
  wf_from any_task fails [] false S (prog ++ [Commit]) = true ->
  map call_key (snd (step fails (Session.run fails S prog) Commit)) = expect_calls (valid_steps fails S prog).
Proof.
  intros Nf Kb L K Op W. destruct (commit_log_exact fails S prog Kb L K Op W) as (rest & E & [->|(pre & p & n & g & _ & Ef)]).
  - rewrite app_nil_r in E. symmetry. exact E.
  - rewrite Nf in Ef. discriminate.
Qed.

(* ------------------------------------------------------------------ 8. witnesses *)

Definition wl_twice : list cmd := [Evict 3%positive; Unevict 3%positive; Evict 3%positive; Unevict 3%positive].

(** the specification is met non-trivially: evict, un-evict, evict, un-evict of one pod leaves no
    valid step and Commit emits nothing; stopping after the second eviction leaves that eviction and
    Commit emits it; a statement with an eviction withdrawn by Pipeline onto the pod's own node, an
    evicted pod nominated elsewhere and a pending pod nominated emits one call per valid step *)
Theorem log_spec_nonvacuous :
  keyed_b w3_init = true
  /\ wf_from any_task nofail [] false w3_init (wl_twice ++ [Commit]) = true
  /\ valid_steps nofail w3_init wl_twice = []
  /\ snd (step nofail (Session.run nofail w3_init wl_twice) Commit) = []
  /\ valid_steps nofail w3_init (firstn 3 wl_twice) = [VEv 3 [] 2]
  /\ snd (step nofail (Session.run nofail w3_init (firstn 3 wl_twice)) Commit) = [AEvict 3]
  /\ keyed_b w10_init = true
  /\ wf_from any_task nofail [] false w10_init (w10_open ++ [Commit]) = true
  /\ nth_error w10_open 4 = Some (Pipeline 4 1 (Some [14%positive]) false)
  /\ valid_steps nofail w10_init w10_open = [VEv 6 [] 1; VPl false 8 1 2; VPl false 6 2 4]
  /\ snd (step nofail (Session.run nofail w10_init w10_open) Commit)
     = [AEvict 6; APipe 8 (Some 1%positive) []; APipe 6 (Some 2%positive) []].
Proof. vm_compute. repeat split. Qed.

(** Evict applied again to an evicted pod: the history holds one eviction, Commit emits one; with
    the second Evict between a checkpoint and its rollback; followed by Unevict (no valid step is
    left, nothing is emitted) *)
Theorem log_spec_evict_again :
  valid_steps nofail w3_init [Evict 3; Evict 3] = [VEv 3 [] 0]
  /\ valid_steps nofail w3_init [Evict 3; Evict 3; Evict 3] = [VEv 3 [] 0]
  /\ valid_steps nofail w3_init [Evict 3; Checkpoint; Evict 3; Rollback 1] = [VEv 3 [] 0]
  /\ valid_steps nofail w3_init [Evict 3; Evict 3; Unevict 3] = []
  /\ wf_from any_task nofail [] false w3_init ([Evict 3; Evict 3; Evict 3] ++ [Commit]) = true
  /\ snd (step nofail (Session.run nofail w3_init [Evict 3; Evict 3; Evict 3]) Commit) = [AEvict 3]
  (* pod 5 of W1 is terminating in the snapshot: evicting it is well-formed and changes nothing *)
  /\ option_map (fun p => (p_status p, p_virt p)) (get_pod w1_init 5) = Some (Releasing, false)
  /\ Session.run nofail w1_init [Evict 5] = w1_init
  /\ wf_from any_task nofail [] false w1_init ([Evict 5; Checkpoint; Evict 3; Evict 5; Evict 3] ++ [Commit]) = true
  /\ valid_steps nofail w1_init [Evict 5; Checkpoint; Evict 3; Evict 5; Evict 3] = [VEv 3 [16%positive] 0]
  /\ snd (step nofail (Session.run nofail w1_init [Evict 5; Checkpoint; Evict 3; Evict 5; Evict 3]) Commit) = [AEvict 3].
Proof. vm_compute. repeat split. Qed.

Definition wl_mid : list cmd := [Checkpoint; Evict 6%positive; Rollback 1%nat].

(** [unevict_restores] with something in between: the eviction of pod 4, a checkpoint, another
    eviction, its rollback, then the un-eviction of pod 4 *)
Theorem unevict_restores_rolled_back_witness :
  wf_from any_task nofail [] false w10_init (([] ++ Evict 4 :: wl_mid) ++ [Unevict 4]) = true
  /\ releasing_in w10_init 4 = false
  /\ srel neq w10_init (Session.run nofail w10_init (([] ++ Evict 4 :: wl_mid) ++ [Unevict 4])).
Proof.
  assert (W : wf_from any_task nofail [] false w10_init (([] ++ Evict 4 :: wl_mid) ++ [Unevict 4]) = true) by (vm_compute; reflexivity).
  split; [exact W|]. split; [vm_compute; reflexivity|].
  apply (unevict_restores nofail w10_init [] wl_mid 4%positive); try (vm_compute; reflexivity).
  destruct (rollback_restores_partial nofail w10_init [Evict 4%positive; Checkpoint; Evict 6%positive] 1%nat) as (x & Ex & Sr);
    try (vm_compute; reflexivity).
  assert (E : state_at nofail w10_init [Evict 4%positive; Checkpoint; Evict 6%positive] 1 = Some (Session.run nofail w10_init [Evict 4%positive]))
    by (vm_compute; reflexivity).
  rewrite E in Ex. injection Ex as <-. exact Sr.
Qed.
