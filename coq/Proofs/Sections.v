(** Proofs about critical sections with bodies (Model/Sections.v).

    The lock protocol is Model/GroupMutex.v's, so its invariant
    (Proofs/GroupMutex.v) carries over to the projection of a configuration;
    mutual exclusion then gives the serialisation invariant: for every group x
      - if a thread is inside x's section, FINISHING its body from the current
        state of component x gives the state that running the logged sections
        of x one after the other, each uninterrupted, gives;
      - if nobody is inside, component x IS that state;
      - the log of x plus the sections on x still to come is a permutation of
        all sections on x.
    At quiescence: every component is the result of a sequential order. *)
From Coq Require Import List PArith Bool Arith Lia Permutation.
From KaiV Require Import Model.GroupMutex Model.Sections Proofs.GroupMutex.
Import ListNotations.
Set Default Timeout 60.

Lemma map_upd {A B} (f : A -> B) i x l : map f (upd i x l) = upd i (f x) (map f l).
Proof.
  revert i. induction l as [|y r IH]; intros [|j]; cbn; try reflexivity. rewrite IH. reflexivity.
Qed.
Lemma nth_error_map' {A B} (f : A -> B) l i : nth_error (map f l) i = option_map f (nth_error l i).
Proof. revert i. induction l as [|y r IH]; intros [|j]; cbn; auto. Qed.
Lemma nth_error_upd {A} i j (x : A) l t :
  nth_error (upd i x l) j = Some t -> (j = i /\ t = x /\ nth_error l i <> None) \/ (j <> i /\ nth_error l j = Some t).
Proof.
  revert i j. induction l as [|y r IH]; intros [|i] [|j] H; cbn in *; try discriminate.
  - injection H as <-. left. repeat split; auto. discriminate.
  - right. split; auto.
  - right. split; auto.
  - destruct (IH i j H) as [[-> [-> Hn]]|[Hne Hn]]; [left|right]; auto.
Qed.
Lemma combine_fst_snd {A B} (p : list (A * B)) : combine (map fst p) (map snd p) = p.
Proof. induction p as [|[a b] r IH]; cbn; [reflexivity|]. rewrite IH. reflexivity. Qed.

Section Proofs.
  Context {T : Type}.
  Notation prog := (prog T).
  Notation sthread := (sthread T).
  Notation sconfig := (sconfig T).

  (** ** the lock protocol underneath *)
  Definition proj (c : sconfig) : config := mkC (sc_gm c) (map st_thr (sc_thr c)).

  Lemma proj_sstep c i : proj (sstep c i) = proj c \/ proj (sstep c i) = step (proj c) i.
  Proof.
    unfold sstep, step, proj. cbn [c_thr c_gm]. rewrite nth_error_map'.
    destruct (nth_error (sc_thr c) i) as [t|] eqn:Hn; cbn [option_map]; [|left; reflexivity].
    unfold sstep_thread.
    assert (Hbody : forall f k, proj (mkSC (sc_gm c) (upd i (mkST (st_thr t) (k (sc_sh c (t_grp (st_thr t)))) (st_bodies t)) (sc_thr c))
                                        (set_at (t_grp (st_thr t)) (f (sc_sh c (t_grp (st_thr t)))) (sc_sh c)) (sc_log c)) = proj c).
    { intros f k. unfold proj. cbn [sc_gm sc_thr]. rewrite map_upd. cbn [st_thr].
      rewrite upd_same; [reflexivity|]. rewrite nth_error_map', Hn. reflexivity. }
    assert (Hmx : forall (cur : prog) bodies sh lg g' t',
               step_thread (sc_gm c) (st_thr t) = (g', t') ->
               mkC (sc_gm (mkSC g' (upd i (mkST t' cur bodies) (sc_thr c)) sh lg))
                   (map st_thr (sc_thr (mkSC g' (upd i (mkST t' cur bodies) (sc_thr c)) sh lg)))
               = mkC g' (upd i t' (map st_thr (sc_thr c)))).
    { intros. cbn [sc_gm sc_thr]. rewrite map_upd. reflexivity. }
    destruct (step_thread (sc_gm c) (st_thr t)) as [g' t'] eqn:Est.
    destruct (t_pc (st_thr t)) eqn:Hpc.
    - right. destruct (t_pc t'); apply Hmx with (g' := g'); reflexivity.
    - right. destruct (t_pc t'); apply Hmx with (g' := g'); reflexivity.
    - destruct (st_cur t) as [|f k].
      + right. apply Hmx with (g' := g'). reflexivity.
      + left. apply Hbody.
    - right. apply Hmx with (g' := g'). reflexivity.
  Qed.

  Lemma proj_inv_sstep c i : inv (proj c) -> inv (proj (sstep c i)).
  Proof.
    intros I. destruct (proj_sstep c i) as [-> | ->]; [exact I|apply step_inv; exact I].
  Qed.
  Lemma proj_inv_srun sched : forall c, inv (proj c) -> inv (proj (srun sched c)).
  Proof.
    induction sched as [|i r IH]; intros c I; [exact I|]. cbn. apply IH, proj_inv_sstep, I.
  Qed.
  Lemma proj_sinit progs sh0 : proj (sinit progs sh0) = init (map (map fst) progs).
  Proof.
    unfold proj, sinit, init. cbn [sc_gm sc_thr]. f_equal. rewrite !map_map. reflexivity.
  Qed.

  (** at most one thread inside the section of a group *)
  Lemma excl c x i j ti tj : inv (proj c) -> i <> j ->
    nth_error (sc_thr c) i = Some ti -> nth_error (sc_thr c) j = Some tj ->
    in_cs x (st_thr ti) -> in_cs x (st_thr tj) -> False.
  Proof.
    intros I Hne Hi Hj Ci Cj.
    apply (inv_exclusion (proj c) I x i j (st_thr ti) (st_thr tj) Hne); auto;
      unfold proj; cbn [c_thr]; rewrite nth_error_map'; [rewrite Hi|rewrite Hj]; reflexivity.
  Qed.

  (** ** one tick, classified *)
  Definition pend1 (x : group) (t : sthread) : list prog :=
    (match t_pc (st_thr t) with
     | PWait _ => if Pos.eqb (t_grp (st_thr t)) x then [st_cur t] else []
     | _ => []
     end)
    ++ map snd (filter (fun s => Pos.eqb (fst s) x) (combine (t_todo (st_thr t)) (st_bodies t))).
  Definition pending (x : group) (thr : list sthread) : list prog := flat_map (pend1 x) thr.
  Definition aligned (t : sthread) : Prop := length (t_todo (st_thr t)) = length (st_bodies t).
  Definition outside (t : sthread) : Prop := forall x, ~ in_cs x (st_thr t).

  Inductive tick_kind (sh : group -> T) (lg : group -> list prog) (t : sthread)
    : (group -> T) -> (group -> list prog) -> sthread -> Prop :=
  | TBody m f k :
      t_pc (st_thr t) = PHold m -> st_cur t = Act f k ->
      tick_kind sh lg t (set_at (t_grp (st_thr t)) (f (sh (t_grp (st_thr t)))) sh) lg
                (mkST (st_thr t) (k (sh (t_grp (st_thr t)))) (st_bodies t))
  | TEnter m t' :
      t_pc (st_thr t) = PWait m -> t_pc (st_thr t') = PHold m -> t_grp (st_thr t') = t_grp (st_thr t) ->
      t_todo (st_thr t') = t_todo (st_thr t) -> st_cur t' = st_cur t -> st_bodies t' = st_bodies t ->
      tick_kind sh lg t sh (set_at (t_grp (st_thr t)) (lg (t_grp (st_thr t)) ++ [st_cur t]) lg) t'
  | TLeave m r t' :
      t_pc (st_thr t) = PHold m -> st_cur t = Ret -> t_pc (st_thr t') = PRel r ->
      t_todo (st_thr t') = t_todo (st_thr t) -> st_bodies t' = st_bodies t ->
      tick_kind sh lg t sh lg t'
  | TPick x rest m t' :
      t_pc (st_thr t) = PIdle -> t_todo (st_thr t) = x :: rest ->
      t_pc (st_thr t') = PWait m -> t_grp (st_thr t') = x -> t_todo (st_thr t') = rest ->
      st_cur t' = hd Ret (st_bodies t) -> st_bodies t' = tl (st_bodies t) ->
      tick_kind sh lg t sh lg t'
  | TOther t' :
      outside t -> outside t' -> (forall x, pend1 x t' = pend1 x t) -> (aligned t -> aligned t') ->
      tick_kind sh lg t sh lg t'.

  Lemma outside_of (u : sthread) : (forall m, t_pc (st_thr u) <> PHold m) -> outside u.
  Proof. intros Hu x [_ [m Hm]]. exact (Hu m Hm). Qed.

  Lemma sstep_thread_kind g sh lg t g' sh' lg' t' :
    sstep_thread g sh lg t = (g', sh', lg', t') -> tick_kind sh lg t sh' lg' t'.
  Proof.
    unfold sstep_thread, step_thread.
    destruct (t_pc (st_thr t)) as [|m|m|r] eqn:Hpc.
    - (* PIdle *)
      destruct (t_todo (st_thr t)) as [|x rest] eqn:Htodo.
      + rewrite Hpc. intros H. injection H as <- <- <- <-.
        apply TOther.
        * apply outside_of. intros m. rewrite Hpc. discriminate.
        * apply outside_of. cbn. intros m. rewrite Hpc. discriminate.
        * intros x. reflexivity.
        * unfold aligned. cbn. auto.
      + destruct (acquire_inc x g) as [m g1]. cbn [t_pc]. intros H. injection H as <- <- <- <-.
        eapply TPick with (x := x) (rest := rest) (m := m); cbn; auto.
    - (* PWait *)
      destruct (mem_mid m (gm_locked g)).
      + rewrite Hpc. intros H. injection H as <- <- <- <-.
        apply TOther.
        * apply outside_of. intros m'. rewrite Hpc. discriminate.
        * apply outside_of. cbn. intros m'. rewrite Hpc. discriminate.
        * intros x. reflexivity.
        * unfold aligned. cbn. auto.
      + cbn [t_pc t_grp]. intros H. injection H as <- <- <- <-.
        eapply TEnter with (m := m); cbn; auto.
    - (* PHold *)
      destruct (st_cur t) as [|f k] eqn:Hcur.
      + destruct (acquire_dec (t_grp (st_thr t)) g) as [r g1]. cbn [t_pc]. intros H. injection H as <- <- <- <-.
        eapply TLeave with (m := m) (r := r); cbn; auto.
      + intros H. injection H as <- <- <- <-. eapply TBody with (m := m); auto.
    - (* PRel *)
      assert (Hfin : forall g1, (g1, sh, lg, mkST (mkT PIdle (t_grp (st_thr t)) (t_todo (st_thr t))) (st_cur t) (st_bodies t)) = (g', sh', lg', t') ->
                                tick_kind sh lg t sh' lg' t').
      { intros g1 H. injection H as <- <- <- <-. apply TOther.
        - apply outside_of. intros m'. rewrite Hpc. discriminate.
        - apply outside_of. cbn. discriminate.
        - intros x. unfold pend1. cbn [st_thr st_cur st_bodies t_pc t_todo]. rewrite Hpc. reflexivity.
        - unfold aligned. cbn. auto. }
      destruct r as [m|]; [destruct (mem_mid m (gm_locked g))|]; cbn [t_pc]; apply Hfin.
  Qed.

  Lemma sstep_unfold c i t :
    nth_error (sc_thr c) i = Some t ->
    exists g' (sh' : group -> T) (lg' : group -> list prog) (t' : sthread),
      sstep_thread (sc_gm c) (sc_sh c) (sc_log c) t = (g', sh', lg', t')
                          /\ sstep c i = mkSC g' (upd i t' (sc_thr c)) sh' lg'.
  Proof.
    intros Hn. unfold sstep. rewrite Hn.
    destruct (sstep_thread (sc_gm c) (sc_sh c) (sc_log c) t) as [[[g' sh'] lg'] t'] eqn:E.
    exists g', sh', lg', t'. split; reflexivity.
  Qed.

  (** ** the serialisation invariant *)
  Variable sh0 : group -> T.

  Definition J (x : group) (thr : list sthread) (sh : group -> T) (lg : group -> list prog) : Prop :=
    (forall i t, nth_error thr i = Some t -> in_cs x (st_thr t) ->
                 run_prog (st_cur t) (sh x) = serial (lg x) (sh0 x))
    /\ ((forall t, In t thr -> ~ in_cs x (st_thr t)) -> sh x = serial (lg x) (sh0 x)).

  Lemma J_frame x thr sh lg i t t' sh' lg' :
    nth_error thr i = Some t -> ~ in_cs x (st_thr t) -> ~ in_cs x (st_thr t') ->
    sh' x = sh x -> lg' x = lg x -> J x thr sh lg -> J x (upd i t' thr) sh' lg'.
  Proof.
    intros Hn Ht Ht' Hsh Hlg [J1 J2]. split.
    - intros j tj Hj Cj. rewrite Hsh, Hlg.
      destruct (nth_error_upd _ _ _ _ _ Hj) as [[-> [-> _]]|[Hne Hj']]; [contradiction|].
      exact (J1 j tj Hj' Cj).
    - intros Hno. rewrite Hsh, Hlg. apply J2. intros tj Hin Cj.
      apply In_nth_error in Hin. destruct Hin as [j Hj].
      destruct (Nat.eq_dec j i) as [->|Hne].
      + rewrite Hn in Hj. injection Hj as <-. contradiction.
      + apply (Hno tj); [|exact Cj]. apply nth_error_In with (n := j).
        rewrite nth_upd_other by auto. exact Hj.
  Qed.

  Lemma set_at_same {A} x (v : A) f : set_at x v f x = v.
  Proof. unfold set_at. rewrite Pos.eqb_refl. reflexivity. Qed.
  Lemma set_at_other {A} x y (v : A) f : y <> x -> set_at x v f y = f y.
  Proof. unfold set_at. intros H. destruct (Pos.eqb y x) eqn:E; [apply Pos.eqb_eq in E; contradiction|reflexivity]. Qed.

  Lemma serial_snoc (l : list prog) (p : prog) (s : T) : serial (l ++ [p]) s = run_prog p (serial l s).
  Proof. unfold serial. rewrite fold_left_app. reflexivity. Qed.

  Lemma in_cs_grp x u : in_cs x u -> t_grp u = x.
  Proof. intros [H _]. exact H. Qed.

  Lemma J_sstep c i x :
    inv (proj c) -> (forall y, J y (sc_thr c) (sc_sh c) (sc_log c)) ->
    J x (sc_thr (sstep c i)) (sc_sh (sstep c i)) (sc_log (sstep c i)).
  Proof.
    intros I HJ. pose proof (proj_inv_sstep c i I) as I'.
    destruct (nth_error (sc_thr c) i) as [t|] eqn:Hn; [|unfold sstep; rewrite Hn; apply HJ].
    destruct (sstep_unfold c i t Hn) as [g' [sh' [lg' [t' [Est Eq]]]]].
    rewrite Eq in *. cbn [sc_thr sc_sh sc_log].
    assert (Hnew : nth_error (upd i t' (sc_thr c)) i = Some t') by (eapply nth_upd_same; eauto).
    (* any thread inside x's section after the tick, other than i, contradicts "i is inside x" *)
    assert (Hex : in_cs x (st_thr t') -> forall j tj, nth_error (upd i t' (sc_thr c)) j = Some tj ->
                                                     in_cs x (st_thr tj) -> j = i).
    { intros Ci j tj Hj Cj. destruct (Nat.eq_dec j i) as [|Hne]; [assumption|exfalso].
      apply (excl _ x i j t' tj I'); cbn [sc_thr]; auto. }
    pose proof (sstep_thread_kind _ _ _ _ _ _ _ _ Est) as K.
    destruct K as [m f k Hpc Hcur | m t' Hpc Hpc' Hg Htodo Hc Hb | m r t' Hpc Hcur Hpc' Htodo Hb
                   | y rest m t' Hpc Htodo Hpc' Hg Htodo' Hc Hb | t' Ho Ho' Hp Hal].
    - (* a body action *)
      set (x0 := t_grp (st_thr t)) in *.
      assert (Cold : in_cs x0 (st_thr t)) by (split; [reflexivity|eauto]).
      destruct (Pos.eq_dec x x0) as [->|Hne].
      + assert (Cnew : in_cs x0 (st_thr (mkST (st_thr t) (k (sc_sh c x0)) (st_bodies t)))) by exact Cold.
        split.
        * intros j tj Hj Cj. pose proof (Hex Cnew j tj Hj Cj) as ->. rewrite Hnew in Hj. injection Hj as <-.
          cbn [st_cur]. rewrite set_at_same.
          destruct (HJ x0) as [J1 _]. specialize (J1 i t Hn Cold). rewrite Hcur in J1. exact J1.
        * intros Hno. exfalso. apply (Hno _ (nth_error_In _ _ Hnew)). exact Cnew.
      + apply J_frame with (t := t) (sh := sc_sh c) (lg := sc_log c); auto.
        * intros C. apply in_cs_grp in C. fold x0 in C. congruence.
        * cbn [st_thr]. intros C. apply in_cs_grp in C. fold x0 in C. congruence.
        * apply set_at_other. exact Hne.
    - (* the lock is taken *)
      set (x0 := t_grp (st_thr t)) in *.
      assert (Cnew : in_cs x0 (st_thr t')) by (split; [exact Hg|eauto]).
      assert (Hnot : ~ in_cs x0 (st_thr t)) by (intros [_ [m' Hm']]; congruence).
      destruct (Pos.eq_dec x x0) as [->|Hne].
      + split.
        * intros j tj Hj Cj. pose proof (Hex Cnew j tj Hj Cj) as ->. rewrite Hnew in Hj. injection Hj as <-.
          rewrite set_at_same, serial_snoc, Hc. f_equal.
          destruct (HJ x0) as [_ J2]. apply J2. intros tq Hin Cq.
          apply In_nth_error in Hin. destruct Hin as [q Hq].
          destruct (Nat.eq_dec q i) as [->|Hne].
          -- rewrite Hn in Hq. injection Hq as <-. contradiction.
          -- assert (Hq' : nth_error (upd i t' (sc_thr c)) q = Some tq) by (rewrite nth_upd_other by auto; exact Hq).
             apply Hne. exact (Hex Cnew q tq Hq' Cq).
        * intros Hno. exfalso. apply (Hno _ (nth_error_In _ _ Hnew)). exact Cnew.
      + apply J_frame with (t := t) (sh := sc_sh c) (lg := sc_log c); auto.
        * intros C. apply in_cs_grp in C. fold x0 in C. congruence.
        * intros C. apply in_cs_grp in C. rewrite Hg in C. fold x0 in C. congruence.
        * apply set_at_other. exact Hne.
    - (* the section is left *)
      set (x0 := t_grp (st_thr t)) in *.
      assert (Cold : in_cs x0 (st_thr t)) by (split; [reflexivity|eauto]).
      assert (Hnot' : forall z, ~ in_cs z (st_thr t')) by (intros z [_ [m' Hm']]; congruence).
      destruct (Pos.eq_dec x x0) as [->|Hne].
      + split.
        * intros j tj Hj Cj. exfalso.
          destruct (nth_error_upd _ _ _ _ _ Hj) as [[-> [-> _]]|[Hne Hj']]; [exact (Hnot' _ Cj)|].
          apply (excl c x0 i j t tj I); auto.
        * intros _. destruct (HJ x0) as [J1 _]. specialize (J1 i t Hn Cold). rewrite Hcur in J1. exact J1.
      + apply J_frame with (t := t) (sh := sc_sh c) (lg := sc_log c); auto.
        intros C. apply in_cs_grp in C. fold x0 in C. congruence.
    - (* the next section is picked *)
      apply J_frame with (t := t) (sh := sc_sh c) (lg := sc_log c); auto.
      + intros [_ [m' Hm']]. congruence.
      + intros [_ [m' Hm']]. congruence.
    - apply J_frame with (t := t) (sh := sc_sh c) (lg := sc_log c); auto.
  Qed.

  (** ** every section is logged exactly once *)
  Variable progs : list (list (group * prog)).

  Definition K (x : group) (thr : list sthread) (lg : group -> list prog) : Prop :=
    Permutation (lg x ++ pending x thr) (bodies_on x progs).
  Definition AL (thr : list sthread) : Prop := forall t, In t thr -> aligned t.

  Lemma pending_upd x thr i t t' :
    nth_error thr i = Some t ->
    exists l1 l2, pending x thr = l1 ++ pend1 x t ++ l2 /\ pending x (upd i t' thr) = l1 ++ pend1 x t' ++ l2.
  Proof.
    revert i. induction thr as [|y r IH]; intros [|j] Hn; cbn in Hn; try discriminate.
    - injection Hn as ->. exists [], (pending x r). split; reflexivity.
    - destruct (IH j Hn) as [l1 [l2 [E1 E2]]]. exists (pend1 x y ++ l1), l2.
      unfold pending in *. cbn [flat_map upd]. rewrite E1, E2, <- !app_assoc. split; reflexivity.
  Qed.

  Lemma AL_upd thr i t' : AL thr -> aligned t' -> AL (upd i t' thr).
  Proof. intros H Ht u Hin. apply in_upd in Hin. destruct Hin as [->|Hin]; auto. Qed.

  Lemma K_same x thr lg i t t' lg' :
    nth_error thr i = Some t -> pend1 x t' = pend1 x t -> lg' x = lg x -> K x thr lg -> K x (upd i t' thr) lg'.
  Proof.
    intros Hn Hp Hl HK. unfold K in *. destruct (pending_upd x thr i t t' Hn) as [l1 [l2 [E1 E2]]].
    rewrite E2, Hp, <- E1, Hl. exact HK.
  Qed.

  Lemma perm_move (a l1 r l2 : list prog) (c : prog) :
    Permutation (a ++ l1 ++ (c :: r) ++ l2) ((a ++ [c]) ++ l1 ++ r ++ l2).
  Proof.
    rewrite <- app_assoc. apply Permutation_app_head. cbn [app].
    symmetry. apply Permutation_middle.
  Qed.

  Lemma KAL_sstep c i :
    AL (sc_thr c) -> (forall x, K x (sc_thr c) (sc_log c)) ->
    AL (sc_thr (sstep c i)) /\ (forall x, K x (sc_thr (sstep c i)) (sc_log (sstep c i))).
  Proof.
    intros HA HK.
    destruct (nth_error (sc_thr c) i) as [t|] eqn:Hn; [|unfold sstep; rewrite Hn; split; assumption].
    destruct (sstep_unfold c i t Hn) as [g' [sh' [lg' [t' [Est Eq]]]]].
    rewrite Eq. cbn [sc_thr sc_log].
    pose proof (HA t (nth_error_In _ _ Hn)) as Hal.
    pose proof (sstep_thread_kind _ _ _ _ _ _ _ _ Est) as Kd.
    destruct Kd as [m f k Hpc Hcur | m t' Hpc Hpc' Hg Htodo Hc Hb | m r t' Hpc Hcur Hpc' Htodo Hb
                    | y rest m t' Hpc Htodo Hpc' Hg Htodo' Hc Hb | t' Ho Ho' Hp Hal'].
    - split.
      + apply AL_upd; auto.
      + intros x. apply K_same with (t := t) (lg := sc_log c); auto.
        unfold pend1. cbn [st_thr st_cur st_bodies]. rewrite Hpc. reflexivity.
    - split.
      + apply AL_upd; auto. unfold aligned in *. rewrite Htodo, Hb. exact Hal.
      + intros x. set (x0 := t_grp (st_thr t)) in *.
        assert (Hrest : map snd (filter (fun s => Pos.eqb (fst s) x) (combine (t_todo (st_thr t')) (st_bodies t')))
                        = map snd (filter (fun s => Pos.eqb (fst s) x) (combine (t_todo (st_thr t)) (st_bodies t))))
          by (rewrite Htodo, Hb; reflexivity).
        destruct (Pos.eq_dec x x0) as [->|Hne].
        * unfold K. rewrite set_at_same.
          destruct (pending_upd x0 (sc_thr c) i t t' Hn) as [l1 [l2 [E1 E2]]].
          rewrite E2. specialize (HK x0). unfold K in HK. rewrite E1 in HK.
          unfold pend1 in *. rewrite Hpc in HK. rewrite Hpc', Hrest. fold x0 in HK. rewrite Pos.eqb_refl in HK.
          cbn [app] in *. eapply Permutation_trans; [|exact HK]. symmetry. apply perm_move.
        * apply K_same with (t := t) (lg := sc_log c); auto.
          -- unfold pend1. rewrite Hpc, Hpc', Hrest. fold x0.
             destruct (Pos.eqb x0 x) eqn:E; [apply Pos.eqb_eq in E; congruence|reflexivity].
          -- apply set_at_other. exact Hne.
    - split.
      + apply AL_upd; auto. unfold aligned in *. rewrite Htodo, Hb. exact Hal.
      + intros x. apply K_same with (t := t) (lg := sc_log c); auto.
        unfold pend1. rewrite Hpc, Hpc', Htodo, Hb. reflexivity.
    - unfold aligned in Hal. rewrite Htodo in Hal.
      destruct (st_bodies t) as [|b bs] eqn:Hbod; [discriminate|]. cbn in Hal.
      split.
      + apply AL_upd; auto. unfold aligned. rewrite Htodo', Hb. cbn. lia.
      + intros x. apply K_same with (t := t) (lg := sc_log c); auto.
        unfold pend1. rewrite Hpc, Hpc', Htodo, Htodo', Hg, Hc, Hb, Hbod. cbn [hd tl combine filter fst app].
        destruct (Pos.eqb y x); reflexivity.
    - split.
      + apply AL_upd; auto.
      + intros x. apply K_same with (t := t) (lg := sc_log c); auto.
  Qed.

  (** ** the invariant along every schedule *)
  Record SI (c : sconfig) : Prop := mkSI {
    si_inv : inv (proj c);
    si_J : forall x, J x (sc_thr c) (sc_sh c) (sc_log c);
    si_AL : AL (sc_thr c);
    si_K : forall x, K x (sc_thr c) (sc_log c)
  }.

  Lemma SI_sstep c i : SI c -> SI (sstep c i).
  Proof.
    intros [I HJ HA HK]. destruct (KAL_sstep c i HA HK) as [HA' HK'].
    constructor; auto.
    - apply proj_inv_sstep, I.
    - intros x. apply J_sstep; auto.
  Qed.
  Lemma SI_srun sched : forall c, SI c -> SI (srun sched c).
  Proof. induction sched as [|i r IH]; intros c H; [exact H|]. cbn. apply IH, SI_sstep, H. Qed.

  Lemma init_thread_idle t : In t (sc_thr (sinit progs sh0)) ->
    exists p, In p progs /\ t = mkST (mkT PIdle 1%positive (map fst p)) Ret (map snd p).
  Proof.
    unfold sinit. cbn [sc_thr]. intros Hin. apply in_map_iff in Hin. destruct Hin as [p [<- Hp]]. eauto.
  Qed.

  Lemma SI_init : SI (sinit progs sh0).
  Proof.
    constructor.
    - rewrite proj_sinit. apply inv_init.
    - intros x. split.
      + intros i t Hn [_ [m Hm]]. apply nth_error_In in Hn. apply init_thread_idle in Hn.
        destruct Hn as [p [_ ->]]. discriminate.
      + intros _. reflexivity.
    - intros t Hin. apply init_thread_idle in Hin. destruct Hin as [p [_ ->]].
      unfold aligned. cbn. rewrite !map_length. reflexivity.
    - intros x. unfold K, sinit. cbn [sc_log sc_thr app]. unfold pending, bodies_on.
      rewrite flat_map_concat_map, map_map, <- flat_map_concat_map.
      erewrite flat_map_ext; [apply Permutation_refl|].
      intros p. unfold pend1. cbn [st_thr t_pc t_todo st_bodies app]. rewrite combine_fst_snd. reflexivity.
  Qed.

  Lemma done_pend1 x (t : sthread) : sdone t -> pend1 x t = [].
  Proof. intros [Hp Ht]. unfold pend1. rewrite Hp, Ht. reflexivity. Qed.
  Lemma done_outside x (t : sthread) : sdone t -> ~ in_cs x (st_thr t).
  Proof. intros [Hp _] [_ [m Hm]]. congruence. Qed.
  Lemma pending_done x (thr : list sthread) : (forall t, In t thr -> sdone t) -> pending x thr = [].
  Proof.
    induction thr as [|y r IH]; intros H; [reflexivity|]. unfold pending in *. cbn [flat_map].
    rewrite done_pend1 by (apply H; left; reflexivity). apply IH. intros t Ht. apply H. right. exact Ht.
  Qed.

  (** the main statement: any number of threads, any sections with any bodies,
      every schedule of lock steps and body actions *)
  Theorem sections_serialise_proof (sched : list nat) :
    let c := srun sched (sinit progs sh0) in
    (* never two threads inside the section of one group *)
    (forall x i j ti tj, i <> j -> nth_error (sc_thr c) i = Some ti -> nth_error (sc_thr c) j = Some tj ->
                         in_cs x (st_thr ti) -> in_cs x (st_thr tj) -> False)
    (* at every moment, for every group: the sections that took the lock so far, in
       that order, each run WITHOUT interruption, explain component x -- as it is if
       nobody is inside, and as it will be once the thread inside has finished its body *)
    /\ (forall x, exists order,
           Permutation (order ++ pending x (sc_thr c)) (bodies_on x progs)
           /\ ((forall t, In t (sc_thr c) -> ~ in_cs x (st_thr t)) -> sc_sh c x = serial order (sh0 x))
           /\ (forall i t, nth_error (sc_thr c) i = Some t -> in_cs x (st_thr t) ->
                           run_prog (st_cur t) (sc_sh c x) = serial order (sh0 x)))
    (* when every thread is done: every component is the result of SOME sequential
       order of all the sections on its group *)
    /\ ((forall t, In t (sc_thr c) -> sdone t) ->
        forall x, exists order, Permutation order (bodies_on x progs) /\ sc_sh c x = serial order (sh0 x)).
  Proof.
    intros c. assert (H : SI c) by (apply SI_srun, SI_init). destruct H as [I HJ HA HK].
    split; [|split].
    - intros x i j ti tj Hne Hi Hj Ci Cj. exact (excl c x i j ti tj I Hne Hi Hj Ci Cj).
    - intros x. exists (sc_log c x). destruct (HJ x) as [J1 J2]. split; [exact (HK x)|]. split; assumption.
    - intros Hd x. exists (sc_log c x). split.
      + specialize (HK x). unfold K in HK. rewrite pending_done, app_nil_r in HK by exact Hd. exact HK.
      + destruct (HJ x) as [_ J2]. apply J2. intros t Ht. apply done_outside, Hd, Ht.
  Qed.
End Proofs.

(** ** two operations *)
Section Two.
  Context {T : Type}.

  (** same group: the final state is that of one of the two sequential orders *)
  Corollary two_sections_linearizable (x : group) (pA pB : prog T) (sh0 : group -> T) (sched : list nat) :
    let c := srun sched (sinit [[(x, pA)]; [(x, pB)]] sh0) in
    (forall t, In t (sc_thr c) -> sdone t) ->
    sc_sh c x = run_prog pB (run_prog pA (sh0 x)) \/ sc_sh c x = run_prog pA (run_prog pB (sh0 x)).
  Proof.
    intros c Hd. subst c.
    destruct (sections_serialise_proof sh0 [[(x, pA)]; [(x, pB)]] sched) as [_ [_ H]].
    destruct (H Hd x) as [order [HP ->]].
    unfold bodies_on in HP. cbn in HP. rewrite Pos.eqb_refl in HP. cbn in HP.
    apply Permutation_sym, Permutation_length_2_inv in HP. destruct HP as [-> | ->]; [left|right]; reflexivity.
  Qed.

  (** different groups: each component is what its own operation makes of it,
      however the two bodies interleave *)
  Corollary two_sections_independent (x y : group) (pA pB : prog T) (sh0 : group -> T) (sched : list nat) :
    x <> y ->
    let c := srun sched (sinit [[(x, pA)]; [(y, pB)]] sh0) in
    (forall t, In t (sc_thr c) -> sdone t) ->
    sc_sh c x = run_prog pA (sh0 x) /\ sc_sh c y = run_prog pB (sh0 y).
  Proof.
    intros Hne c Hd. subst c.
    destruct (sections_serialise_proof sh0 [[(x, pA)]; [(y, pB)]] sched) as [_ [_ H]].
    assert (Exy : Pos.eqb x y = false) by (destruct (Pos.eqb x y) eqn:E; [apply Pos.eqb_eq in E; contradiction|reflexivity]).
    assert (Eyx : Pos.eqb y x = false) by (rewrite Pos.eqb_sym; exact Exy).
    split.
    - destruct (H Hd x) as [order [HP ->]]. unfold bodies_on in HP. cbn in HP.
      rewrite Pos.eqb_refl, Eyx in HP. cbn in HP.
      apply Permutation_sym, Permutation_length_1_inv in HP. subst order. reflexivity.
    - destruct (H Hd y) as [order [HP ->]]. unfold bodies_on in HP. cbn in HP.
      rewrite Pos.eqb_refl, Exy in HP. cbn in HP.
      apply Permutation_sym, Permutation_length_1_inv in HP. subst order. reflexivity.
  Qed.
End Two.

(** ** non-vacuity: a lost-update body, a blocked thread
    Thread 0 runs "s := (s+1)*2" as two actions; thread 1 runs "read s; write
    s+10" as two actions (interleaved inside thread 0's body it would lose an
    update).  Both on group 1.  Schedule: thread 0 takes the lock and performs
    its first action; thread 1 announces itself and is refused the lock twice;
    thread 0 finishes and releases; thread 1 runs. *)
Definition ex_pA : prog nat := Act (fun s => s + 1) (fun _ => Act (fun s => s * 2) (fun _ => Ret)).
Definition ex_pB : prog nat := Act (fun s => s) (fun seen => Act (fun _ => seen + 10) (fun _ => Ret)).
Definition ex_two : sconfig nat := sinit [[(1%positive, ex_pA)]; [(1%positive, ex_pB)]] (fun _ => 0).
Definition ex_sched_mid : list nat := [0; 0; 0; 1; 1; 1].
Definition ex_sched_all : list nat := ex_sched_mid ++ [0; 0; 0; 1; 1; 1; 1; 1].
Definition sdone_b {T} (t : sthread T) : bool := done_b (st_thr t).

Lemma ex_two_blocked :
  (* in the middle: thread 0 inside with half of its body done, thread 1 waiting *)
  map (fun t => in_cs_b 1%positive (st_thr t)) (sc_thr (srun ex_sched_mid ex_two)) = [true; false]
  /\ map (fun t => match t_pc (st_thr t) with PWait _ => true | _ => false end) (sc_thr (srun ex_sched_mid ex_two)) = [false; true]
  /\ sc_sh (srun ex_sched_mid ex_two) 1%positive = 1
  (* at the end: everybody done, and the state is that of A;B -- not that of B;A *)
  /\ forallb sdone_b (sc_thr (srun ex_sched_all ex_two)) = true
  /\ sc_sh (srun ex_sched_all ex_two) 1%positive = 12
  /\ run_prog ex_pB (run_prog ex_pA 0) = 12 /\ run_prog ex_pA (run_prog ex_pB 0) = 22.
Proof. vm_compute. repeat split. Qed.

(** ** any two state transformers as section bodies
    Whatever sequence of atomic actions (API calls, with any local state in
    between) the real code performs inside the group's lock for the operations
    A and B: if, run without interruption, they compute fA and fB, then every
    interleaving the lock allows ends in fB (fA s) or in fA (fB s). *)
Lemma two_functions_linearizable {T : Type}
      (x : group) (fA fB : T -> T) (pA pB : prog T) (s0 : group -> T) (sched : list nat) :
  (forall s, run_prog pA s = fA s) ->
  (forall s, run_prog pB s = fB s) ->
  let c := srun sched (sinit [[(x, pA)]; [(x, pB)]] s0) in
  (forall t, In t (sc_thr c) -> sdone t) ->
  sc_sh c x = fB (fA (s0 x)) \/ sc_sh c x = fA (fB (s0 x)).
Proof.
  intros HA HB c Hd. subst c.
  destruct (two_sections_linearizable x pA pB s0 sched Hd) as [E|E]; rewrite E, HA, HB; [left|right]; reflexivity.
Qed.

(** every state transformer has such a body (the atomic one) *)
Definition atomic_body {T : Type} (f : T -> T) : prog T := Act f (fun _ => Ret).
Lemma atomic_body_ok {T : Type} (f : T -> T) s : run_prog (atomic_body f) s = f s.
Proof. reflexivity. Qed.
