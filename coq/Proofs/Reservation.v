(** Proofs about the reservation model (Model/Reservation.v).

    Part 1  lists, labels, primitive store mutations
    Part 2  a small Hoare logic for the state/error/crash monad: a triple speaks
            about the store and the next reservation identity only, so every
            oracle (faults, device plugin, map orders), the in-memory pod and the
            BindRequests are universally quantified in every statement
    Part 3  the invariant and its preservation by every primitive mutation
    Part 4  every function of the service / binder / controllers preserves the
            invariant under ALL fault oracles and at every crash point
    Part 5  histories: invariants of reachable states (clause 2)
    Part 6  fault-free syncs make the store exact (clause 3), what the handlers
            achieve, orphans
    Part 7  witnesses computed by vm_compute *)
From Coq Require Import List PArith Bool Arith Lia.
From KaiV Require Import Model.Reservation.
Import ListNotations.
Set Default Timeout 60.

(** * Part 1: lists and labels *)
Lemma mem_pos_In g l : mem_pos g l = true <-> In g l.
Proof.
  unfold mem_pos. rewrite existsb_exists. split.
  - intros [x [Hx E]]. apply Pos.eqb_eq in E. subst. exact Hx.
  - intros H. exists g. split; [exact H|apply Pos.eqb_refl].
Qed.
Lemma mem_pos_false g l : mem_pos g l = false <-> ~ In g l.
Proof.
  rewrite <- mem_pos_In. destruct (mem_pos g l); split; intros H.
  - discriminate.
  - exfalso. apply H. reflexivity.
  - intros H'. discriminate.
  - reflexivity.
Qed.
Lemma ins_sorted_In x g l : In x (ins_sorted g l) <-> x = g \/ In x l.
Proof.
  induction l as [|y r IH]; cbn.
  - split; intros [H|H]; auto; contradiction.
  - destruct (Pos.compare g y) eqn:E; cbn.
    + apply Pos.compare_eq in E. subst y. split; intros H; [right; exact H|]. destruct H as [->|H]; [left; reflexivity|exact H].
    + split; intros H; [destruct H as [<-|H]; auto|destruct H as [->|H]; auto].
    + rewrite IH. split; intros H.
      * destruct H as [<-|[->|H]]; auto.
      * destruct H as [->|[<-|H]]; auto.
Qed.
Lemma dedup_In x l : In x (dedup l) <-> In x l.
Proof.
  induction l as [|y r IH]; cbn; [reflexivity|]. rewrite filter_In, IH. split.
  - intros [<-|[H _]]; auto.
  - intros [<-|H]; [left; reflexivity|]. destruct (Pos.eq_dec x y) as [->|Hne]; [left; reflexivity|].
    right. split; [exact H|]. destruct (Pos.eqb x y) eqn:E; [apply Pos.eqb_eq in E; contradiction|reflexivity].
Qed.
Lemma order_by_In x o S : In x (order_by o S) <-> In x S.
Proof.
  unfold order_by. rewrite in_app_iff, !filter_In, dedup_In. split.
  - intros [[_ H]|[H _]]; [apply mem_pos_In; exact H|exact H].
  - intros H. destruct (mem_pos x o) eqn:E.
    + left. split; [apply mem_pos_In; exact E|apply mem_pos_In; exact H].
    + right. split; [exact H|reflexivity].
Qed.

Lemma has_plain_true g p : has_plain g p = true <-> p_plain p = Some g.
Proof.
  unfold has_plain. destruct (p_plain p) as [x|]; [|split; discriminate].
  rewrite Pos.eqb_eq. split; [intros ->; reflexivity|intros H; injection H; auto].
Qed.
Lemma has_multi_true g p : has_multi g p = true <-> In g (p_multi p).
Proof. apply mem_pos_In. Qed.
Lemma carries_b_true g p : carries_b g p = true <-> carries p g.
Proof. unfold carries_b, carries. rewrite orb_true_iff, has_plain_true, has_multi_true. reflexivity. Qed.

(** reservation pods of a group *)
Lemma res_of_In r g s : In r (res_of g s) <-> In r s /\ p_res r = true /\ p_plain r = Some g.
Proof. unfold res_of. rewrite filter_In, andb_true_iff, has_plain_true. tauto. Qed.
Lemma has_res_iff s g : has_res s g <-> exists r, In r s /\ p_res r = true /\ p_plain r = Some g.
Proof.
  unfold has_res. split.
  - intros H. destruct (res_of g s) as [|r l] eqn:E; [contradiction|].
    exists r. apply res_of_In. rewrite E. left. reflexivity.
  - intros [r Hr] E. apply res_of_In in Hr. rewrite E in Hr. contradiction.
Qed.
Lemma res_of_nil s g : res_of g s = [] <-> ~ has_res s g.
Proof.
  unfold has_res. destruct (res_of g s) as [|r l]; split.
  - intros _ H. apply H. reflexivity.
  - reflexivity.
  - discriminate.
  - intros H. exfalso. apply H. discriminate.
Qed.

Lemma res_of_filter f g s : res_of g (filter f s) = filter f (res_of g s).
Proof.
  unfold res_of. induction s as [|p r IH]; cbn; [reflexivity|].
  destruct (f p) eqn:Ef; cbn; destruct (p_res p && has_plain g p) eqn:Er; cbn; rewrite ?Ef, ?IH; reflexivity.
Qed.
Lemma filter_length_le {A} (f : A -> bool) l : length (filter f l) <= length l.
Proof. induction l as [|x r IH]; cbn; [lia|]. destruct (f x); cbn; lia. Qed.
Lemma res_of_app g s t : res_of g (s ++ t) = res_of g s ++ res_of g t.
Proof. unfold res_of. apply filter_app. Qed.

(** updating consumers leaves reservation pods alone *)
Definition keeps (f : pod -> pod) : Prop := forall p, p_id (f p) = p_id p /\ p_res (f p) = p_res p.
Lemma is_consumer_res c p : is_consumer c p = true -> p_res p = false.
Proof. unfold is_consumer. rewrite andb_true_iff, negb_true_iff. tauto. Qed.
Lemma is_consumer_id c p : is_consumer c p = true -> p_id p = c.
Proof. unfold is_consumer. rewrite andb_true_iff, Pos.eqb_eq. tauto. Qed.
Lemma upd_consumer_In c f s q :
  In q (upd_consumer c f s) <->
  exists p, In p s /\ q = (if is_consumer c p then f p else p).
Proof. unfold upd_consumer. rewrite in_map_iff. split; intros [p [H1 H2]]; exists p; auto. Qed.
Lemma upd_consumer_res c f s q : keeps f -> p_res q = true -> (In q (upd_consumer c f s) <-> In q s).
Proof.
  intros K Hq. rewrite upd_consumer_In. split.
  - intros [p [Hp ->]]. destruct (is_consumer c p) eqn:E; [|exact Hp].
    exfalso. rewrite (proj2 (K p)), (is_consumer_res _ _ E) in Hq. discriminate.
  - intros H. exists q. split; [exact H|]. destruct (is_consumer c q) eqn:E; [|reflexivity].
    rewrite (is_consumer_res _ _ E) in Hq. discriminate.
Qed.
Lemma res_of_upd c f g s : keeps f -> res_of g (upd_consumer c f s) = res_of g s.
Proof.
  intros K. unfold res_of, upd_consumer. induction s as [|p r IH]; cbn; [reflexivity|].
  destruct (is_consumer c p) eqn:E.
  - rewrite (proj2 (K p)), (is_consumer_res _ _ E). cbn. exact IH.
  - rewrite IH. reflexivity.
Qed.
Lemma has_res_upd c f g s : keeps f -> (has_res (upd_consumer c f s) g <-> has_res s g).
Proof. intros K. unfold has_res. rewrite res_of_upd by exact K. reflexivity. Qed.

Lemma find_consumer_In c s p : find_consumer c s = Some p -> In p s /\ is_consumer c p = true.
Proof. unfold find_consumer. intros H. apply find_some in H. exact H. Qed.

Lemma del_res_In i s p : In p (del_res i s) <-> In p s /\ is_resid i p = false.
Proof. unfold del_res. rewrite filter_In, negb_true_iff. reflexivity. Qed.
Lemma del_consumer_In c s p : In p (del_consumer c s) <-> In p s /\ is_consumer c p = false.
Proof. unfold del_consumer. rewrite filter_In, negb_true_iff. reflexivity. Qed.
Lemma is_resid_true i p : is_resid i p = true <-> p_res p = true /\ p_id p = i.
Proof. unfold is_resid. rewrite andb_true_iff, Pos.eqb_eq. reflexivity. Qed.

Lemma live_carrier_iff s g :
  live_carrier s g <-> exists p, In p s /\ p_res p = false /\ live p /\ carries p g.
Proof. reflexivity. Qed.

(** * Part 2: Hoare logic *)
Definition SP := list pod -> pid -> Prop.

(** [nf = true]: the step has no faults (then [tick] never leaves the normal path) *)
Definition hoareF {A} (nf : bool) (P : SP) (f : M A) (Q : A -> SP) (E : SP) : Prop :=
  forall w, (nf = true -> w_fl w = no_faults) -> P (w_store w) (w_next w) ->
            match f w with
            | (Ok a, w') => Q a (w_store w') (w_next w') /\ w_fl w' = w_fl w
            | (Err, w') | (Crash, w') => E (w_store w') (w_next w') /\ w_fl w' = w_fl w
            end.

Lemma h_ret {A} nf (a : A) (Q : A -> SP) E : hoareF nf (Q a) (ret a) Q E.
Proof. intros w _ H. cbn. auto. Qed.
Lemma h_fail {A} nf (Q : A -> SP) (E : SP) : hoareF nf E (@fail A) Q E.
Proof. intros w _ H. cbn. auto. Qed.
Lemma h_bind {A B} nf P (f : M A) (k : A -> M B) Q1 Q E :
  hoareF nf P f Q1 E -> (forall a, hoareF nf (Q1 a) (k a) Q E) -> hoareF nf P (bind f k) Q E.
Proof.
  intros Hf Hk w Hnf HP. unfold bind. specialize (Hf w Hnf HP).
  destruct (f w) as [[a| |] w']; try exact Hf.
  destruct Hf as [HQ Hfl]. assert (Hnf' : nf = true -> w_fl w' = no_faults) by (intros; rewrite Hfl; auto).
  specialize (Hk a w' Hnf' HQ). destruct (k a w') as [[b| |] w'']; rewrite <- Hfl; exact Hk.
Qed.
Lemma h_try {A} nf P (f : M A) (Q1 : A -> SP) (E1 : SP) :
  hoareF nf P f Q1 E1 ->
  hoareF nf P (try f) (fun r s n => match r with Some a => Q1 a s n | None => E1 s n end) E1.
Proof.
  intros Hf w Hnf HP. unfold try. specialize (Hf w Hnf HP).
  destruct (f w) as [[a| |] w']; exact Hf.
Qed.
Lemma h_conseq {A} nf (P P' : SP) (f : M A) (Q Q' : A -> SP) (E E' : SP) :
  hoareF nf P f Q E ->
  (forall s n, P' s n -> P s n) -> (forall a s n, Q a s n -> Q' a s n) -> (forall s n, E s n -> E' s n) ->
  hoareF nf P' f Q' E'.
Proof.
  intros Hf HP HQ HE w Hnf H. specialize (Hf w Hnf (HP _ _ H)).
  destruct (f w) as [[a| |] w']; destruct Hf as [H1 H2]; split; auto.
Qed.
(** name the current state *)
Lemma h_name {A} nf (P : SP) (f : M A) Q E :
  (forall s0 n0, P s0 n0 -> hoareF nf (fun s n => s = s0 /\ n = n0) f Q E) -> hoareF nf P f Q E.
Proof. intros H w Hnf HP. exact (H _ _ HP w Hnf (conj eq_refl eq_refl)). Qed.
Lemma h_pre_false {A} nf (f : M A) Q E : hoareF nf (fun _ _ => False) f Q E.
Proof. intros w Hnf H. destruct H. Qed.
(** a pure fact can be pulled out of the precondition *)
Lemma h_assume {A} nf (F : Prop) (P : SP) (f : M A) Q E :
  (F -> hoareF nf P f Q E) -> hoareF nf (fun s n => F /\ P s n) f Q E.
Proof. intros H w Hnf [HF HP]. exact (H HF w Hnf HP). Qed.

(** [tick]: with faults the call may fail or the process may die -- the state is as before *)
Lemma h_tick nf c (P : SP) :
  hoareF nf P (tick c) (fun _ => P) (fun s n => nf = false /\ P s n).
Proof.
  intros w Hnf HP. unfold tick. destruct nf.
  - rewrite (Hnf eq_refl). cbn. auto.
  - destruct (crash_at _ _); [cbn; auto|]. destruct (mem_nat _ _); cbn; auto.
Qed.
Lemma h_get_store nf (P : SP) E : hoareF nf P get_store (fun s st n => P st n /\ s = st) E.
Proof. intros w _ HP. cbn. auto. Qed.
Lemma h_put_store nf s' (Q : unit -> SP) E : hoareF nf (fun _ n => Q tt s' n) (put_store s') Q E.
Proof. intros w _ HP. cbn. auto. Qed.
Lemma h_get_mem nf (P : SP) : hoareF nf P get_mem (fun _ => P) P.
Proof. intros w _ HP. unfold get_mem. destruct (w_mem w); cbn; auto. Qed.
Lemma h_put_mem nf m (P : SP) E : hoareF nf P (put_mem m) (fun _ => P) E.
Proof. intros w _ HP. cbn. auto. Qed.
Lemma h_pop_ord nf (P : SP) E : hoareF nf P pop_ord (fun _ => P) E.
Proof. intros w _ HP. unfold pop_ord. destruct (w_ord w); cbn; auto. Qed.
Lemma h_pop_dp nf (P : SP) E : hoareF nf P pop_dp (fun _ => P) E.
Proof. intros w _ HP. unfold pop_dp. destruct (w_dp w); cbn; auto. Qed.
Lemma h_pop_pend nf (P : SP) E : hoareF nf P pop_pend (fun _ => P) E.
Proof. intros w _ HP. unfold pop_pend. destruct (w_pend w); cbn; auto. Qed.

Lemma h_api_list nf flt (P : SP) :
  hoareF nf P (api_list flt) (fun l s n => P s n /\ l = filter flt s) (fun s n => nf = false /\ P s n).
Proof.
  unfold api_list. eapply h_bind; [apply h_tick|]. intros u. cbn beta.
  eapply h_bind; [apply h_get_store|]. intros s. cbn beta.
  intros w Hnf [HP E]. cbn. subst s. auto.
Qed.

(** * Part 3: the invariant *)
Record inv_base (s : list pod) (nx : pid) : Prop := mkIB {
  ib_amo : forall g, length (res_of g s) <= 1;
  ib_ids : forall p, In p s -> p_res p = true -> (p_id p < nx)%positive;
  ib_same : forall p q, In p s -> In q s -> p_res p = true -> p_res q = true ->
                        p_id p = p_id q -> p_plain p = p_plain q;
  ib_rmulti : forall p, In p s -> p_res p = true -> p_multi p = []
}.
(** a live consumer's groups are reserved *)
Definition inv2 (s : list pod) : Prop :=
  forall p g, In p s -> p_res p = false -> live p -> carries p g -> has_res s g.
(** g has a reservation pod annotated with index i *)
Definition Fidx (g : group) (i : gidx) (s : list pod) : Prop :=
  exists r, In r (res_of g s) /\ p_index r = Some i.
Definition invd (s : list pod) : Prop :=
  forall p g i, In p s -> p_res p = false -> live p -> carries p g -> In (g, i) (p_given p) -> Fidx g i s.
(** inside the bind of consumer c, until the plugins are called, c was handed nothing *)
Definition g0 (oc : option pid) (s : list pod) : Prop :=
  match oc with
  | None => True
  | Some c => forall p, In p s -> is_consumer c p = true -> p_given p = []
  end.
(** [full = false]: reservation pods may have been deleted behind the binder's back *)
Definition inv (full : bool) (oc : option pid) : SP :=
  fun s nx => inv_base s nx /\ (full = true -> inv2 s /\ invd s) /\ g0 oc s.

Lemma inv_weaken full oc s nx : inv full oc s nx -> inv full None s nx.
Proof. intros [B [F _]]. split; [exact B|split; [exact F|exact I]]. Qed.
Lemma inv_unfull oc s nx : inv true oc s nx -> inv false oc s nx.
Proof. intros [B [F G]]. split; [exact B|split; [discriminate|exact G]]. Qed.

Lemma Fidx_mono g i s s' : (forall r, In r (res_of g s) -> In r (res_of g s')) -> Fidx g i s -> Fidx g i s'.
Proof. intros H [r [Hr Hi]]. exists r. auto. Qed.

Lemma inv_filter full oc s nx f :
  (forall p, p_res p = true -> f p = true) -> inv full oc s nx -> inv full oc (filter f s) nx.
Proof.
  intros Hf [B [F G]].
  assert (Hres : forall g r, In r (res_of g s) -> In r (res_of g (filter f s))).
  { intros g r Hr. apply res_of_In in Hr. destruct Hr as [H1 [H2 H3]]. apply res_of_In.
    repeat split; auto. apply filter_In. auto. }
  split; [|split].
  - constructor.
    + intros g. rewrite res_of_filter. pose proof (filter_length_le f (res_of g s)). pose proof (ib_amo _ _ B g). lia.
    + intros p Hp. apply filter_In in Hp. apply (ib_ids _ _ B). tauto.
    + intros p q Hp Hq. apply filter_In in Hp. apply filter_In in Hq. apply (ib_same _ _ B); tauto.
    + intros p Hp. apply filter_In in Hp. apply (ib_rmulti _ _ B). tauto.
  - intros Hfull. destruct (F Hfull) as [I2 ID]. split.
    + intros p g Hp Hr Hl Hc. apply filter_In in Hp. specialize (I2 p g (proj1 Hp) Hr Hl Hc).
      apply has_res_iff in I2. destruct I2 as [r Hr']. apply has_res_iff. exists r.
      destruct Hr' as [H1 [H2 H3]]. repeat split; auto. apply filter_In. auto.
    + intros p g i Hp Hr Hl Hc Hg. apply filter_In in Hp.
      eapply Fidx_mono; [apply Hres|]. exact (ID p g i (proj1 Hp) Hr Hl Hc Hg).
  - destruct oc as [c|]; [|exact I]. intros p Hp. apply filter_In in Hp. apply G. tauto.
Qed.

(** deleting the reservation pods named i is harmless when no live pod carries their group *)
Definition del_guard (i : pid) (s : list pod) : Prop :=
  forall r g, In r s -> is_resid i r = true -> p_plain r = Some g -> ~ live_carrier s g.

Lemma inv_del_res full oc s nx i :
  inv full oc s nx -> (full = true -> del_guard i s) -> inv full oc (del_res i s) nx.
Proof.
  intros [B [F G]] Hg.
  assert (Hsub : forall p, In p (del_res i s) -> In p s) by (intros p Hp; apply del_res_In in Hp; tauto).
  split; [|split].
  - constructor.
    + intros g. unfold del_res. rewrite res_of_filter.
      pose proof (filter_length_le (fun p => negb (is_resid i p)) (res_of g s)). pose proof (ib_amo _ _ B g). lia.
    + intros p Hp. apply (ib_ids _ _ B). auto.
    + intros p q Hp Hq. apply (ib_same _ _ B); auto.
    + intros p Hp. apply (ib_rmulti _ _ B). auto.
  - intros Hfull. destruct (F Hfull) as [I2 ID]. specialize (Hg Hfull).
    assert (Hkeep : forall p g r, In p s -> p_res p = false -> live p -> carries p g ->
                                  In r (res_of g s) -> In r (res_of g (del_res i s))).
    { intros p g r Hp Hr Hl Hc Hin. apply res_of_In in Hin. destruct Hin as [H1 [H2 H3]].
      apply res_of_In. repeat split; auto. apply del_res_In. split; [exact H1|].
      destruct (is_resid i r) eqn:E; [|reflexivity]. exfalso.
      apply (Hg r g H1 E H3). exists p. auto. }
    split.
    + intros p g Hp Hr Hl Hc. pose proof (I2 p g (Hsub _ Hp) Hr Hl Hc) as H.
      unfold has_res in *. destruct (res_of g s) as [|r l] eqn:E; [contradiction|].
      assert (Hin : In r (res_of g s)) by (rewrite E; left; reflexivity).
      pose proof (Hkeep p g r (Hsub _ Hp) Hr Hl Hc Hin) as H'. intros E'. rewrite E' in H'. contradiction.
    + intros p g x Hp Hr Hl Hc Hgi. destruct (ID p g x (Hsub _ Hp) Hr Hl Hc Hgi) as [r [Hin Hi]].
      exists r. split; [|exact Hi]. exact (Hkeep p g r (Hsub _ Hp) Hr Hl Hc Hin).
  - destruct oc as [c|]; [|exact I]. intros p Hp. apply G. auto.
Qed.

Lemma inv_app_res full oc s nx n g ph d mf :
  inv full oc s nx -> res_of g s = [] ->
  inv full oc (s ++ [mkPod nx true n (Some g) [] ph d mf []]) (Pos.succ nx).
Proof.
  intros [B [F G]] Hnone. set (p := mkPod nx true n (Some g) [] ph d mf []).
  assert (Hres : forall g' r, In r (res_of g' s) -> In r (res_of g' (s ++ [p]))).
  { intros g' r Hr. rewrite res_of_app. apply in_or_app. left. exact Hr. }
  split; [|split].
  - constructor.
    + intros g'. rewrite res_of_app, app_length. pose proof (ib_amo _ _ B g') as Ha.
      unfold res_of at 2. cbn. unfold has_plain. cbn. destruct (Pos.eqb g g') eqn:E; cbn; [|lia].
      apply Pos.eqb_eq in E. subst g'. rewrite Hnone. cbn. lia.
    + intros q Hq Hr. apply in_app_or in Hq. destruct Hq as [Hq|[<-|[]]].
      * pose proof (ib_ids _ _ B q Hq Hr). lia.
      * cbn. lia.
    + intros q q' Hq Hq' Hr Hr' Hid. apply in_app_or in Hq. apply in_app_or in Hq'.
      destruct Hq as [Hq|[<-|[]]]; destruct Hq' as [Hq'|[<-|[]]]; auto.
      * apply (ib_same _ _ B); auto.
      * pose proof (ib_ids _ _ B q Hq Hr). cbn in Hid. lia.
      * pose proof (ib_ids _ _ B q' Hq' Hr'). cbn in Hid. lia.
    + intros q Hq Hr. apply in_app_or in Hq. destruct Hq as [Hq|[<-|[]]]; [apply (ib_rmulti _ _ B); auto|reflexivity].
  - intros Hfull. destruct (F Hfull) as [I2 ID]. split.
    + intros q g' Hq Hr Hl Hc. apply in_app_or in Hq. destruct Hq as [Hq|[<-|[]]]; [|discriminate].
      specialize (I2 q g' Hq Hr Hl Hc). apply has_res_iff in I2. destruct I2 as [r [H1 H23]].
      apply has_res_iff. exists r. split; [apply in_or_app; left; exact H1|exact H23].
    + intros q g' i Hq Hr Hl Hc Hgi. apply in_app_or in Hq. destruct Hq as [Hq|[<-|[]]]; [|discriminate].
      eapply Fidx_mono; [apply Hres|]. exact (ID q g' i Hq Hr Hl Hc Hgi).
  - destruct oc as [c|]; [|exact I]. intros q Hq Hc. apply in_app_or in Hq. destruct Hq as [Hq|[<-|[]]]; [auto|].
    apply is_consumer_res in Hc. discriminate.
Qed.

Lemma inv_upd full oc oc' s nx c f :
  keeps f -> inv full oc s nx ->
  (full = true -> forall p, In p s -> is_consumer c p = true -> live (f p) ->
     (forall g, carries (f p) g -> has_res s g) /\
     (forall g i, carries (f p) g -> In (g, i) (p_given (f p)) -> Fidx g i s)) ->
  g0 oc' (upd_consumer c f s) ->
  inv full oc' (upd_consumer c f s) nx.
Proof.
  intros K [B [F G]] Hnew G'.
  split; [|split; [|exact G']].
  - constructor.
    + intros g. rewrite res_of_upd by exact K. apply (ib_amo _ _ B).
    + intros p Hp Hr. apply (ib_ids _ _ B); [|exact Hr]. apply (upd_consumer_res c f s p K Hr). exact Hp.
    + intros p q Hp Hq Hr Hr'. apply (ib_same _ _ B); auto.
      * apply (upd_consumer_res c f s p K Hr). exact Hp.
      * apply (upd_consumer_res c f s q K Hr'). exact Hq.
    + intros p Hp Hr. apply (ib_rmulti _ _ B); [|exact Hr]. apply (upd_consumer_res c f s p K Hr). exact Hp.
  - intros Hfull. destruct (F Hfull) as [I2 ID]. specialize (Hnew Hfull). split.
    + intros q g Hq Hr Hl Hc. apply has_res_upd; [exact K|].
      apply upd_consumer_In in Hq. destruct Hq as [p [Hp ->]].
      destruct (is_consumer c p) eqn:E.
      * destruct (Hnew p Hp E Hl) as [H1 _]. auto.
      * apply (I2 p g); auto.
    + intros q g i Hq Hr Hl Hc Hgi.
      assert (HF : Fidx g i s).
      { apply upd_consumer_In in Hq. destruct Hq as [p [Hp ->]].
        destruct (is_consumer c p) eqn:E.
        - destruct (Hnew p Hp E Hl) as [_ H2]. auto.
        - apply (ID p g i); auto. }
      destruct HF as [r [Hin Hi]]. exists r. rewrite res_of_upd by exact K. auto.
Qed.

Lemma g0_upd_keep oc s c f :
  keeps f -> (forall p, p_given (f p) = p_given p) -> g0 oc s -> g0 oc (upd_consumer c f s).
Proof.
  intros K Hg G. destruct oc as [c'|]; [|exact I]. intros q Hq Hc.
  apply upd_consumer_In in Hq. destruct Hq as [p [Hp ->]].
  destruct (is_consumer c p) eqn:E; [|auto].
  rewrite Hg. apply (G p Hp). unfold is_consumer in *. destruct (K p) as [K1 K2]. rewrite K1, K2 in Hc. exact Hc.
Qed.
Lemma g0_upd_reset c s : g0 (Some c) (upd_consumer c (with_given []) s).
Proof.
  intros q Hq Hc. apply upd_consumer_In in Hq. destruct Hq as [p [Hp ->]].
  destruct (is_consumer c p) eqn:E; [reflexivity|congruence].
Qed.

(** label-preserving updates of a consumer *)
Lemma inv_upd_shrink full oc s nx c f :
  keeps f -> (forall p, p_given (f p) = p_given p) ->
  (forall p g, carries (f p) g -> carries p g) -> (forall p, live (f p) -> live p) ->
  inv full oc s nx -> inv full oc (upd_consumer c f s) nx.
Proof.
  intros K Hgiv Hcar Hliv Hinv. apply (inv_upd full oc oc s nx c f K Hinv).
  - intros Hfull p Hp E Hl. destruct Hinv as [_ [F _]]. destruct (F Hfull) as [I2 ID].
    pose proof (is_consumer_res _ _ E) as Hr. split.
    + intros g Hc. apply (I2 p g); auto.
    + intros g i Hc Hgi. rewrite Hgiv in Hgi. apply (ID p g i); auto.
  - apply g0_upd_keep; auto. destruct Hinv as [_ [_ G]]. exact G.
Qed.

(** * Part 4: the code preserves the invariant under every fault oracle *)
Ltac hb := eapply h_bind; [|intros ?; cbn beta].

Lemma h_tick' nf c (P E : SP) : (forall s n, P s n -> E s n) -> hoareF nf P (tick c) (fun _ => P) E.
Proof.
  intros H w Hnf HP. pose proof (h_tick nf c P w Hnf HP) as T.
  destruct (tick c w) as [[u| |] w']; destruct T as [T1 T2]; split; auto; destruct T1; auto.
Qed.
Lemma h_api_list' nf flt (P E : SP) :
  (forall s n, P s n -> E s n) -> hoareF nf P (api_list flt) (fun l s n => P s n /\ l = filter flt s) E.
Proof.
  intros H w Hnf HP. pose proof (h_api_list nf flt P w Hnf HP) as T.
  destruct (api_list flt w) as [[u| |] w']; destruct T as [T1 T2]; split; auto; destruct T1; auto.
Qed.

(** mutating calls: the exit condition must already hold before the call *)
Lemma h_api_delete_res nf i (Q : unit -> SP) (E : SP) :
  hoareF nf (fun s n => E s n /\ Q tt (del_res i s) n) (api_delete_res i) Q E.
Proof.
  unfold api_delete_res. hb; [apply h_tick'; intros s n [H _]; exact H|].
  hb; [apply h_get_store|]. intros w Hnf [[_ HQ] ->]. cbn. auto.
Qed.
Lemma h_remove_consumer nf c (Q : unit -> SP) (E : SP) :
  hoareF nf (fun s n => E s n /\ Q tt (del_consumer c s) n) (remove_consumer c) Q E.
Proof.
  intros w Hnf [HE HQ]. unfold remove_consumer. destruct (find_consumer c (w_store w)); cbn; auto.
Qed.
Lemma h_api_delete_consumer nf c (Q : unit -> SP) (E : SP) :
  hoareF nf (fun s n => E s n /\ Q tt (del_consumer c s) n) (api_delete_consumer c) Q E.
Proof.
  unfold api_delete_consumer. hb; [apply h_tick'; intros s n [H _]; exact H|]. apply h_remove_consumer.
Qed.
Definition new_res (nx : pid) (nd : node) (g : group) (d : option gidx) : pod :=
  mkPod nx true (Some nd) (Some g) [] Pending d MfNo [].
Lemma h_api_create_res nf nd g (Q : pod -> SP) (E : SP) :
  hoareF nf (fun s n => E s n /\ forall d, Q (new_res n nd g d) (s ++ [new_res n nd g d]) (Pos.succ n))
         (api_create_res nd g) Q E.
Proof.
  unfold api_create_res. hb; [apply h_tick'; intros s n [H _]; exact H|].
  hb; [apply h_pop_dp|]. intros w Hnf [_ HQ]. cbn. split; [apply HQ|reflexivity].
Qed.
Lemma h_apply_label_patch nf c f (Q : unit -> SP) (E : SP) :
  hoareF nf (fun s n => E s n /\ Q tt (upd_consumer c f s) n) (apply_label_patch c f) Q E.
Proof.
  intros w Hnf [HE HQ]. unfold apply_label_patch. destruct (find_consumer c (w_store w)); cbn; auto.
Qed.
Lemma h_patch_existing nf c cl f (Q : unit -> SP) (E : SP) :
  hoareF nf (fun s n => E s n /\ Q tt (upd_consumer c f s) n) (patch_existing c cl f) Q E.
Proof.
  unfold patch_existing. hb; [apply h_tick'; intros s n [H _]; exact H|].
  intros w Hnf [HE HQ]. destruct (find_consumer c (w_store w)); cbn; auto.
Qed.

(** ** read-only pieces *)
Lemma h_scaling_check nf (P E : SP) :
  (forall s n, P s n -> E s n) -> hoareF nf P scaling_check (fun _ => P) E.
Proof.
  intros HPE. unfold scaling_check.
  eapply (h_bind nf P _ _ (fun _ => P)); [|intros a w Hnf H; cbn; auto].
  intros w Hnf HP. pose proof (h_tick nf CList P w Hnf HP) as T. unfold try.
  destruct (tick CList w) as [[u| |] w']; destruct T as [T1 T2]; split; auto; destruct T1; auto.
Qed.

Lemma h_find_index nf g (P E : SP) :
  (forall s n, P s n -> E s n) ->
  hoareF nf P (find_index g)
         (fun r s n => P s n /\ match r with Some i => Fidx g i s | None => res_of g s = [] end) E.
Proof.
  intros HPE. unfold find_index. hb; [apply h_api_list'; exact HPE|].
  destruct a as [|p l].
  - intros w Hnf [HP El]. cbn. split; [|reflexivity]. split; [exact HP|]. symmetry. exact El.
  - destruct (p_index p) as [i|] eqn:Ei.
    + intros w Hnf [HP El]. cbn. split; [|reflexivity]. split; [exact HP|].
      exists p. split; [|exact Ei]. unfold res_of. rewrite <- El. left. reflexivity.
    + intros w Hnf [HP El]. cbn. auto.
Qed.

Lemma h_wait_for_index nf i (P E : SP) :
  (forall s n, P s n -> E s n) ->
  hoareF nf P (wait_for_index i)
         (fun r s n => P s n /\ forall x, r = Some x -> exists q, In q s /\ is_resid i q = true /\ p_index q = Some x) E.
Proof.
  intros HPE. unfold wait_for_index.
  eapply (h_bind nf P _ _ (fun _ => P)).
  { intros w Hnf HP. pose proof (h_tick nf CWatch P w Hnf HP) as T. unfold try.
    destruct (tick CWatch w) as [[u| |] w']; destruct T as [T1 T2]; split; auto; destruct T1; auto. }
  intros a. destruct a as [u|].
  - hb; [apply h_get_store|]. intros w Hnf [HP ->]. cbn. split; [|reflexivity]. split; [exact HP|].
    intros x Hx. destruct (find (is_resid i) (w_store w)) as [q|] eqn:Ef; [|discriminate].
    apply find_some in Ef. exists q. destruct Ef as [H1 H2]. auto.
  - intros w Hnf HP. cbn. split; [|reflexivity]. split; [exact HP|]. discriminate.
Qed.

(** ** creating a reservation pod *)
Definition res_incl (S0 s : list pod) : Prop := forall r, In r S0 -> p_res r = true -> In r s.
Lemma res_incl_refl s : res_incl s s.
Proof. intros r H _. exact H. Qed.
Lemma res_incl_app S0 s p : res_incl S0 s -> res_incl S0 (s ++ [p]).
Proof. intros H r Hr Hres. apply in_or_app. left. auto. Qed.
Lemma res_incl_upd S0 s c f : keeps f -> res_incl S0 s -> res_incl S0 (upd_consumer c f s).
Proof. intros K H r Hr Hres. apply (upd_consumer_res c f s r K Hres). auto. Qed.
Lemma res_incl_two A B s : res_incl (A ++ B) s <-> res_incl A s /\ res_incl B s.
Proof.
  unfold res_incl. split.
  - intros H. split; intros r Hr; apply H; apply in_or_app; auto.
  - intros [H1 H2] r Hr. apply in_app_or in Hr. destruct Hr; auto.
Qed.
Lemma Fidx_incl g i s s' : res_incl s s' -> Fidx g i s -> Fidx g i s'.
Proof.
  intros H. apply Fidx_mono. intros r Hr. apply res_of_In in Hr. destruct Hr as [H1 [H2 H3]].
  apply res_of_In. auto.
Qed.
Lemma Fidx_has_res g i s : Fidx g i s -> has_res s g.
Proof. intros [r [Hr _]] E. rewrite E in Hr. contradiction. Qed.

Lemma no_carrier_of_unreserved s g : inv2 s -> res_of g s = [] -> ~ live_carrier s g.
Proof.
  intros I2 Hn [p [Hp [Hr [Hl Hc]]]]. apply (I2 p g Hp Hr Hl Hc). exact Hn.
Qed.

Lemma h_pre {A} nf (P P' : SP) (f : M A) Q E :
  (forall s n, P' s n -> P s n) -> hoareF nf P f Q E -> hoareF nf P' f Q E.
Proof. intros H Hf. eapply h_conseq; [exact Hf|exact H|auto|auto]. Qed.
Lemma h_post {A} nf (P : SP) (f : M A) (Q Q' : A -> SP) E :
  (forall a s n, Q a s n -> Q' a s n) -> hoareF nf P f Q E -> hoareF nf P f Q' E.
Proof. intros H Hf. eapply h_conseq; [exact Hf|auto|exact H|auto]. Qed.
Lemma h_exit {A} nf (P : SP) (f : M A) Q (E E' : SP) :
  (forall s n, E s n -> E' s n) -> hoareF nf P f Q E -> hoareF nf P f Q E'.
Proof. intros H Hf. eapply h_conseq; [exact Hf|auto|auto|exact H]. Qed.

Lemma h_ret' {A} nf (a : A) (P : SP) (Q : A -> SP) E : (forall s n, P s n -> Q a s n) -> hoareF nf P (ret a) Q E.
Proof. intros H w _ HP. cbn. auto. Qed.
Lemma h_fail' {A} nf (P : SP) (Q : A -> SP) (E : SP) : (forall s n, P s n -> E s n) -> hoareF nf P (@fail A) Q E.
Proof. intros H w _ HP. cbn. auto. Qed.

Lemma h_create_and_get_index nf full oc S0 nd g :
  hoareF nf (fun s n => inv full oc s n /\ res_of g s = [] /\ res_incl S0 s)
         (create_and_get_index nd g)
         (fun i s n => inv full oc s n /\ Fidx g i s /\ res_incl S0 s)
         (inv full oc).
Proof.
  unfold create_and_get_index.
  hb; [apply h_scaling_check; intros s n [H _]; exact H|].
  set (Q := fun (p : pod) (s : list pod) (n : pid) =>
              inv full oc s n /\ res_incl S0 s /\ In p s /\ p_res p = true /\ p_plain p = Some g
              /\ (full = true -> del_guard (p_id p) s)).
  hb; [eapply h_pre; [|apply (h_api_create_res nf nd g Q (inv full oc))]|].
  - intros s n [Hinv [Hnone Hincl]]. split; [exact Hinv|]. intros d. unfold Q.
    split; [apply inv_app_res; assumption|]. split; [apply res_incl_app; exact Hincl|].
    split; [apply in_or_app; right; left; reflexivity|]. split; [reflexivity|]. split; [reflexivity|].
    intros Hfull r g' Hr Hid Hpl [q [Hq [Hqr [Hql Hqc]]]].
    destruct Hinv as [B [F _]]. destruct (F Hfull) as [I2 _].
    apply is_resid_true in Hid. destruct Hid as [Hrr Hrid]. cbn in Hrid.
    assert (Hrp : r = new_res n nd g d).
    { apply in_app_or in Hr. destruct Hr as [Hr|[<-|[]]]; [|reflexivity].
      pose proof (ib_ids _ _ B r Hr Hrr). lia. }
    subst r. cbn in Hpl. injection Hpl as <-.
    apply in_app_or in Hq. destruct Hq as [Hq|[<-|[]]]; [|discriminate].
    apply (no_carrier_of_unreserved s g I2 Hnone). exists q. auto.
  - rename a0 into p.
    hb; [apply (h_wait_for_index nf (p_id p) (Q p) (inv full oc)); intros s n [H _]; exact H|].
    destruct a0 as [i|].
    + intros w Hnf [[Hinv [Hincl [Hin [Hres [Hpl _]]]]] Hx]. cbn. split; [|reflexivity].
      split; [exact Hinv|]. split; [|exact Hincl].
      destruct (Hx i eq_refl) as [q [Hq [Hid Hi]]]. apply is_resid_true in Hid. destruct Hid as [Hqr Hqid].
      exists q. split; [|exact Hi]. apply res_of_In. split; [exact Hq|]. split; [exact Hqr|].
      destruct Hinv as [B _]. rewrite (ib_same _ _ B q p Hq Hin Hqr Hres Hqid). exact Hpl.
    + eapply (h_bind nf _ _ _ (fun _ => inv full oc)).
      * eapply h_post; [|apply h_try; eapply h_pre; [|apply (h_api_delete_res nf (p_id p) (fun _ => inv full oc) (inv full oc))]].
        -- intros [u|] s n H; exact H.
        -- intros s n [[Hinv [_ [_ [_ [_ Hg]]]]] _]. split; [exact Hinv|]. apply inv_del_res; assumption.
      * intros _. apply h_fail.
Qed.

Lemma h_acquire_index nf full oc S0 nd g :
  hoareF nf (fun s n => inv full oc s n /\ res_incl S0 s)
         (acquire_index nd g)
         (fun i s n => inv full oc s n /\ Fidx g i s /\ res_incl S0 s)
         (inv full oc).
Proof.
  unfold acquire_index. hb; [apply h_find_index; intros s n [H _]; exact H|].
  destruct a as [i|].
  - intros w Hnf [[Hinv Hincl] HF]. cbn. auto.
  - eapply h_pre; [|apply h_create_and_get_index]. intros s n [[Hinv Hincl] Hn]. auto.
Qed.

(** ** labelling the consumer *)
Definition upd_stable (R : list pod -> Prop) : Prop :=
  forall s c f, keeps f -> R s -> R (upd_consumer c f s).

Lemma keeps_id : keeps (fun p => p).
Proof. intros p. auto. Qed.
Lemma keeps_with_plain v : keeps (with_plain v).
Proof. intros p. auto. Qed.
Lemma keeps_add_multi g : keeps (add_multi g).
Proof. intros p. auto. Qed.
Lemma keeps_with_given v : keeps (with_given v).
Proof. intros p. auto. Qed.
Lemma keeps_with_node v : keeps (with_node v).
Proof. intros p. auto. Qed.
Lemma keeps_remove_keys m : keeps (remove_keys m).
Proof. intros p. auto. Qed.
Lemma keeps_advance ph : keeps (advance ph).
Proof. intros p. unfold advance. destruct (Nat.ltb _ _); auto. Qed.

(** labelling consumer c with a reserved group, inside c's bind *)
Lemma inv_label full s nx c g f :
  keeps f -> (forall p, p_given (f p) = p_given p) -> (forall p, p_phase (f p) = p_phase p) ->
  (forall p g', carries (f p) g' -> g' = g \/ carries p g') ->
  inv full (Some c) s nx -> has_res s g -> inv full (Some c) (upd_consumer c f s) nx.
Proof.
  intros K Hgiv Hph Hcar Hinv Hres. apply (inv_upd full (Some c) (Some c) s nx c f K Hinv).
  - intros Hfull p Hp E Hl. destruct Hinv as [_ [F G]]. destruct (F Hfull) as [I2 _].
    pose proof (is_consumer_res _ _ E) as Hr. split.
    + intros g' Hc. destruct (Hcar p g' Hc) as [->|Hc']; [exact Hres|].
      apply (I2 p g'); auto. unfold live in *. rewrite Hph in Hl. exact Hl.
    + intros g' i Hc Hgi. rewrite Hgiv, (G p Hp E) in Hgi. contradiction.
  - apply g0_upd_keep; auto. destruct Hinv as [_ [_ G]]. exact G.
Qed.

Lemma carries_with_plain g p g' : carries (with_plain (Some g) p) g' -> g' = g \/ carries p g'.
Proof. unfold carries. cbn. intros [H|H]; [injection H; auto|auto]. Qed.
Lemma carries_add_multi g p g' : carries (add_multi g p) g' -> g' = g \/ carries p g'.
Proof. unfold carries. cbn. intros [H|H]; [auto|]. apply ins_sorted_In in H. destruct H; auto. Qed.

Lemma h_get_mem' nf (P E : SP) : (forall s n, P s n -> E s n) -> hoareF nf P get_mem (fun _ => P) E.
Proof. intros H. eapply h_exit; [exact H|apply h_get_mem]. Qed.

Lemma h_update_pod_gpu_group nf full c g (R : list pod -> Prop) :
  upd_stable R ->
  hoareF nf (fun s n => inv full (Some c) s n /\ has_res s g /\ R s)
         (update_pod_gpu_group c g)
         (fun _ s n => inv full (Some c) s n /\ R s)
         (inv full (Some c)).
Proof.
  intros HR. unfold update_pod_gpu_group.
  hb; [apply h_get_mem'; intros s n [H _]; exact H|]. rename a into m.
  assert (Hgen : forall f, keeps f -> (forall p, p_given (f p) = p_given p) -> (forall p, p_phase (f p) = p_phase p) ->
                           (forall p g', carries (f p) g' -> g' = g \/ carries p g') ->
                           forall mm, hoareF nf (fun s n => inv full (Some c) s n /\ has_res s g /\ R s)
                                             (put_mem mm ;;; tick CPatch ;;; apply_label_patch c f)
                                             (fun _ s n => inv full (Some c) s n /\ R s) (inv full (Some c))).
  { intros f K Hgiv Hph Hcar mm. hb; [apply h_put_mem|].
    hb; [apply h_tick'; intros s n [H _]; exact H|].
    eapply h_pre; [|apply h_apply_label_patch]. intros s n [Hinv [Hres HRs]].
    split; [exact Hinv|]. split; [apply (inv_label full s n c g f); auto|apply HR; auto]. }
  destruct (p_mf m).
  - destruct (has_plain g m).
    + apply Hgen; auto using keeps_id.
    + apply Hgen; auto using keeps_with_plain, carries_with_plain.
  - destruct (has_multi g m).
    + apply Hgen; auto using keeps_id.
    + apply Hgen; auto using keeps_add_multi, carries_add_multi.
  - apply h_fail'. intros s n [H _]. exact H.
Qed.

(** ** syncForPods *)
Lemma last_res_Some l r : last_res l = Some r -> In r l /\ p_res r = true.
Proof.
  induction l as [|p t IH]; cbn; [discriminate|].
  destruct (last_res t) as [q|] eqn:E.
  - intros H. injection H as <-. destruct (IH eq_refl). auto.
  - destruct (p_res p) eqn:Er; [|discriminate]. intros H. injection H as <-. auto.
Qed.
Lemma last_res_None l : last_res l = None -> forall p, In p l -> p_res p = false.
Proof.
  induction l as [|p t IH]; cbn; [intros _ q []|].
  destruct (last_res t) as [q|] eqn:E; [discriminate|].
  destruct (p_res p) eqn:Er; [discriminate|]. intros _ q [<-|Hq]; auto.
Qed.

Lemma h_delete_non_reserved nf full oc l :
  hoareF nf (inv full oc) (delete_non_reserved l) (fun _ => inv full oc) (inv full oc).
Proof.
  induction l as [|p r IH]; cbn [delete_non_reserved]; [apply h_ret'; auto|].
  assert (Hd : hoareF nf (inv full oc) (api_delete_consumer (p_id p) ;;; delete_non_reserved r)
                      (fun _ => inv full oc) (inv full oc)).
  { hb; [|exact IH]. eapply h_pre; [|apply h_api_delete_consumer]. intros s n H. split; [exact H|].
    apply inv_filter; [|exact H]. intros q Hq. unfold is_consumer. rewrite Hq. reflexivity. }
  destruct (p_phase p); auto.
Qed.

Definition listed (g : group) (s : list pod) : list pod := filter (has_plain g) s ++ filter (has_multi g) s.

Lemma listed_carrier g s p : In p s -> carries p g -> In p (listed g s).
Proof.
  intros Hp [Hc|Hc]; apply in_or_app; [left|right]; apply filter_In; split; auto.
  - apply has_plain_true. exact Hc.
  - apply has_multi_true. exact Hc.
Qed.
Lemma listed_In g s p : In p (listed g s) -> In p s /\ carries p g.
Proof.
  intros H. apply in_app_or in H. destruct H as [H|H]; apply filter_In in H; destruct H as [H1 H2].
  - split; [exact H1|]. left. apply has_plain_true. exact H2.
  - split; [exact H1|]. right. apply has_multi_true. exact H2.
Qed.
(** the reservation pod picked by syncForPods is one of g's *)
Lemma listed_res g s nx r : inv_base s nx -> In r (listed g s) -> p_res r = true -> In r s /\ p_plain r = Some g.
Proof.
  intros B H Hr. apply listed_In in H. destruct H as [H1 [H2|H2]]; [auto|].
  rewrite (ib_rmulti _ _ B r H1 Hr) in H2. contradiction.
Qed.
Lemma no_frac_no_carrier g s :
  filter (fun p => negb (p_res p) && live_phase (p_phase p)) (listed g s) = [] -> ~ live_carrier s g.
Proof.
  intros Hf [q [Hq [Hr [Hl Hc]]]].
  assert (Hin : In q (filter (fun p => negb (p_res p) && live_phase (p_phase p)) (listed g s))).
  { apply filter_In. split; [apply listed_carrier; auto|]. rewrite Hr. cbn. exact Hl. }
  rewrite Hf in Hin. contradiction.
Qed.
Lemma sync_del_guard g s nx r :
  inv_base s nx -> last_res (listed g s) = Some r ->
  filter (fun p => negb (p_res p) && live_phase (p_phase p)) (listed g s) = [] ->
  del_guard (p_id r) s.
Proof.
  intros B Hl Hf r' g' Hr' Hid Hpl. apply last_res_Some in Hl. destruct Hl as [Hin Hres].
  destruct (listed_res g s nx r B Hin Hres) as [Hrs Hrp].
  apply is_resid_true in Hid. destruct Hid as [Hr'r Hr'id].
  rewrite (ib_same _ _ B r' r Hr' Hrs Hr'r Hres Hr'id), Hrp in Hpl. injection Hpl as <-.
  apply no_frac_no_carrier. exact Hf.
Qed.

Lemma h_sync_for_pods nf full oc g :
  forall pods, hoareF nf (fun s n => inv full oc s n /\ pods = listed g s)
                      (sync_for_pods pods) (fun _ => inv full oc) (inv full oc).
Proof.
  intros pods. unfold sync_for_pods.
  destruct (filter (fun p => negb (p_res p) && live_phase (p_phase p)) pods) as [|x t] eqn:Ef;
    destruct (last_res pods) as [r|] eqn:El.
  - eapply h_pre; [|apply h_api_delete_res]. intros s n [Hinv ->]. split; [exact Hinv|].
    apply inv_del_res; [exact Hinv|]. intros _. destruct Hinv as [B _]. eapply sync_del_guard; eauto.
  - apply h_ret'. intros s n [H _]. exact H.
  - apply h_ret'. intros s n [H _]. exact H.
  - eapply h_pre; [|apply h_delete_non_reserved]. intros s n [H _]. exact H.
Qed.

Lemma h_sync_group nf full oc g :
  hoareF nf (inv full oc) (sync_group g) (fun _ => inv full oc) (inv full oc).
Proof.
  unfold sync_group. hb; [apply h_api_list'; auto|]. rename a into l1.
  hb; [apply h_api_list'; intros s n [H _]; exact H|]. rename a into l2.
  eapply h_pre; [|apply (h_sync_for_pods nf full oc g)].
  intros s n [[Hinv ->] ->]. auto.
Qed.

Lemma upd_stable_conj R1 R2 : upd_stable R1 -> upd_stable R2 -> upd_stable (fun s => R1 s /\ R2 s).
Proof. intros H1 H2 s c f K [A B]. split; [apply H1|apply H2]; auto. Qed.
Lemma upd_stable_Fidx g i : upd_stable (Fidx g i).
Proof. intros s c f K [r [Hr Hi]]. exists r. rewrite res_of_upd by exact K. auto. Qed.
Lemma upd_stable_res_incl S0 : upd_stable (res_incl S0).
Proof. intros s c f K H. apply res_incl_upd; auto. Qed.

Lemma h_reserve nf full S0 c nd g :
  hoareF nf (fun s n => inv full (Some c) s n /\ res_incl S0 s)
         (reserve c nd g)
         (fun i s n => inv full (Some c) s n /\ Fidx g i s /\ res_incl S0 s)
         (inv full (Some c)).
Proof.
  unfold reserve. hb; [apply h_acquire_index|]. rename a into i.
  eapply (h_bind nf _ _ _ (fun r s n => match r with
                                         | Some _ => inv full (Some c) s n /\ Fidx g i s /\ res_incl S0 s
                                         | None => inv full (Some c) s n end)).
  - eapply h_post; [|apply h_try; eapply h_pre;
                     [|apply (h_update_pod_gpu_group nf full c g (fun s => Fidx g i s /\ res_incl S0 s))]].
    + intros [u|] s n H; [|exact H]. tauto.
    + intros s n [Hinv [HF Hincl]]. split; [exact Hinv|]. split; [eapply Fidx_has_res; eauto|auto].
    + apply upd_stable_conj; [apply upd_stable_Fidx|apply upd_stable_res_incl].
  - intros [u|].
    + apply h_ret'. auto.
    + eapply (h_bind nf _ _ _ (fun _ => inv full (Some c))); [|intros _; apply h_fail'; auto].
      eapply h_post; [|apply h_try; apply h_sync_group]. intros [u|] s n H; exact H.
Qed.

Lemma h_reserve_all nf full c nd gs : forall S0,
  hoareF nf (fun s n => inv full (Some c) s n /\ res_incl S0 s)
         (reserve_all c nd gs)
         (fun is s n => inv full (Some c) s n /\ res_incl S0 s /\ Forall2 (fun g i => Fidx g i s) gs is)
         (inv full (Some c)).
Proof.
  induction gs as [|g r IH]; intros S0; cbn [reserve_all].
  - intros w Hnf [H1 H2]. cbn. auto.
  - hb; [apply h_reserve|]. rename a into i.
    apply h_name. intros s1 n1 [Hinv1 [HF1 Hincl1]].
    hb; [eapply h_pre; [|apply (IH (S0 ++ s1))]|].
    + intros s n [-> ->]. split; [exact Hinv1|]. apply res_incl_two. split; [exact Hincl1|apply res_incl_refl].
    + rename a into is. intros w Hnf [Hinv [Hincl HF]]. cbn. split; [|reflexivity].
      apply res_incl_two in Hincl. destruct Hincl as [Hi0 Hi1].
      split; [exact Hinv|]. split; [exact Hi0|]. constructor; [|exact HF].
      eapply Fidx_incl; eauto.
Qed.

(** ** syncs of several groups *)
Lemma h_sync_each nf full oc stop gs :
  hoareF nf (inv full oc) (sync_each stop gs) (fun _ => inv full oc) (inv full oc).
Proof.
  induction gs as [|g r IH]; cbn [sync_each]; [apply h_ret'; auto|].
  eapply (h_bind nf _ _ _ (fun _ => inv full oc)).
  - eapply h_post; [|apply h_try; apply h_sync_group]. intros [u|] s n H; exact H.
  - intros [u|]; [exact IH|]. destruct stop; [apply h_fail'; auto|exact IH].
Qed.
Lemma h_sync_pods_list nf full oc l :
  hoareF nf (inv full oc) (sync_pods_list l) (fun _ => inv full oc) (inv full oc).
Proof. unfold sync_pods_list. hb; [apply h_pop_ord|]. apply h_sync_each. Qed.
Lemma h_sync_node nf full oc nd :
  hoareF nf (inv full oc) (sync_node nd) (fun _ => inv full oc) (inv full oc).
Proof.
  unfold sync_node. hb; [apply h_api_list'; auto|].
  eapply h_pre; [|apply h_sync_pods_list]. intros s n [H _]. exact H.
Qed.
Lemma h_sync_all nf full oc :
  hoareF nf (inv full oc) sync_all (fun _ => inv full oc) (inv full oc).
Proof.
  unfold sync_all. hb; [apply h_api_list'; auto|].
  eapply h_pre; [|apply h_sync_pods_list]. intros s n [H _]. exact H.
Qed.

(** ** rollback, plugins, binding *)
Lemma carries_remove_keys m p g : carries (remove_keys m p) g -> carries p g.
Proof.
  unfold carries. cbn. intros [H|H].
  - destruct (p_plain m); [discriminate|auto].
  - apply filter_In in H. tauto.
Qed.

Lemma h_remove_connection nf full oc c :
  hoareF nf (inv full oc) (remove_connection c) (fun _ => inv full oc) (inv full oc).
Proof.
  unfold remove_connection. hb; [apply h_get_mem|]. rename a into m.
  assert (Hp : hoareF nf (inv full oc)
                      (tick CPatch ;;;
                       (fun w => match find_consumer c (w_store w) with
                                 | None => (Err, w)
                                 | Some _ => let s' := upd_consumer c (remove_keys m) (w_store w) in
                                             (Ok tt, set_mem (find_consumer c s') (set_store s' w))
                                 end))
                      (fun _ => inv full oc) (inv full oc)).
  { hb; [apply h_tick'; auto|]. intros w Hnf H.
    destruct (find_consumer c (w_store w)); cbn; [|auto]. split; [|reflexivity].
    apply inv_upd_shrink; auto using keeps_remove_keys.
    intros q g. apply carries_remove_keys. }
  destruct (p_plain m); [exact Hp|]. destruct (p_multi m); [apply h_ret'; auto|exact Hp].
Qed.

Lemma Forall2_combine_In {A B} (R : A -> B -> Prop) l1 l2 a b :
  Forall2 R l1 l2 -> In (a, b) (combine l1 l2) -> R a b.
Proof.
  intros H. induction H as [|x y l1 l2 Hxy H IH]; cbn; [contradiction|].
  intros [E|E]; [injection E as <- <-; exact Hxy|auto].
Qed.

Lemma h_record_given nf full c gs is E :
  hoareF nf (fun s n => inv full (Some c) s n /\ Forall2 (fun g i => Fidx g i s) gs is)
         (record_given c gs is) (fun _ => inv full None) E.
Proof.
  unfold record_given. hb; [apply h_get_store|]. rename a into s0.
  intros w Hnf [[Hinv HF] ->]. cbn. split; [|reflexivity].
  apply (inv_upd full (Some c) None _ _ c _ (keeps_with_given _) Hinv); [|exact I].
  intros Hfull p Hp Ec Hl. destruct Hinv as [_ [F _]]. destruct (F Hfull) as [I2 _].
  pose proof (is_consumer_res _ _ Ec) as Hr. split.
  - intros g Hc. apply (I2 p g); auto.
  - intros g i Hc Hgi. cbn in Hgi. exact (Forall2_combine_In _ _ _ _ _ HF Hgi).
Qed.

Lemma h_patch_keep nf full oc c cl f :
  keeps f -> (forall p, p_given (f p) = p_given p) -> (forall p g, carries (f p) g -> carries p g) ->
  (forall p, live (f p) -> live p) ->
  hoareF nf (inv full oc) (patch_existing c cl f) (fun _ => inv full oc) (inv full oc).
Proof.
  intros K Hg Hc Hl. eapply h_pre; [|apply h_patch_existing]. intros s n H. split; [exact H|].
  apply inv_upd_shrink; auto.
Qed.

Lemma h_rollback nf full oc c nd :
  hoareF nf (inv full oc) (rollback c nd) (fun _ => inv full oc) (inv full oc).
Proof.
  unfold rollback.
  eapply (h_bind nf _ _ _ (fun _ => inv full oc)).
  { eapply h_post; [|apply h_try; apply h_remove_connection]. intros [u|] s n H; exact H. }
  intros _. eapply (h_bind nf _ _ _ (fun _ => inv full oc)).
  { eapply h_post; [|apply h_try; apply h_sync_node]. intros [u|] s n H; exact H. }
  intros _. apply h_ret'. auto.
Qed.

Lemma inv_weaken_sp full c : forall s n, inv full (Some c) s n -> inv full None s n.
Proof. intros s n. apply inv_weaken. Qed.

Lemma h_bind_main nf full c nd gs ok :
  hoareF nf (inv full (Some c)) (bind_main c nd gs ok) (fun _ => inv full None) (inv full None).
Proof.
  unfold bind_main.
  hb; [eapply h_exit; [apply inv_weaken_sp|apply h_sync_node]|].
  eapply (h_bind nf _ _ _ (fun is s n => inv full (Some c) s n /\ Forall2 (fun g i => Fidx g i s) gs is)).
  { destruct gs as [|g r]; [apply h_fail'; apply inv_weaken_sp|].
    eapply h_exit; [apply inv_weaken_sp|]. eapply h_post; [|eapply h_pre; [|apply (h_reserve_all nf full c nd (g :: r) [])]].
    - intros is s n [H1 [_ H3]]. auto.
    - intros s n H. split; [exact H|]. intros x []. }
  intros is. hb; [apply h_record_given|].
  eapply (h_bind nf _ _ _ (fun _ => inv full None));
    [destruct ok; [apply h_ret'; auto|apply h_fail'; auto]|intros _].
  hb; [apply h_patch_keep; auto using keeps_id|].
  apply h_patch_keep; auto using keeps_with_node.
Qed.

(** ** controllers *)
Lemma h_sync_if_needed nf full oc o p :
  hoareF nf (inv full oc) (sync_if_needed o p) (fun _ => inv full oc) (inv full oc).
Proof. unfold sync_if_needed. apply h_sync_each. Qed.
Lemma h_on_pod_delete nf full oc p :
  hoareF nf (inv full oc) (on_pod_delete p) (fun _ => inv full oc) (inv full oc).
Proof. unfold on_pod_delete. hb; [apply h_pop_ord|]. apply h_sync_if_needed. Qed.
Lemma h_on_pod_update nf full oc ph p :
  hoareF nf (inv full oc) (on_pod_update ph p) (fun _ => inv full oc) (inv full oc).
Proof.
  unfold on_pod_update. hb; [apply h_pop_ord|].
  destruct (completed ph); [apply h_sync_if_needed|apply h_ret'; auto].
Qed.
Lemma h_on_br_delete nf full oc gs :
  hoareF nf (inv full oc) (on_br_delete gs) (fun _ => inv full oc) (inv full oc).
Proof. apply h_sync_each. Qed.

Lemma h_drain nf full oc fuel :
  hoareF nf (inv full oc) (drain fuel) (fun _ => inv full oc) (inv full oc).
Proof.
  induction fuel as [|f IH]; cbn [drain]; [apply h_ret'; auto|].
  hb; [apply h_pop_pend|]. destruct a as [[p b]|]; [|apply h_ret'; auto].
  hb; [apply h_on_pod_delete|].
  hb; [destruct b; [apply h_on_br_delete|apply h_ret'; auto]|]. exact IH.
Qed.

(** ** events *)
Lemma h_do_bind nf full c nd gs ok :
  hoareF nf (inv full None) (do_bind c nd gs ok) (fun _ => inv full None) (inv full None).
Proof.
  intros w Hnf H. unfold do_bind.
  destruct (find_consumer c (w_store w)) as [p|] eqn:Ef; [|cbn; auto].
  destruct (p_node p); [cbn; auto|].
  set (w1 := set_store _ _).
  assert (Hprog : hoareF nf (inv full (Some c))
                         (r <- try (bind_main c nd gs ok) ;; match r with Some _ => ret tt | None => rollback c nd end)
                         (fun _ => inv full None) (inv full None)).
  { eapply (h_bind nf _ _ _ (fun _ => inv full None)).
    - eapply h_post; [|apply h_try; apply h_bind_main]. intros [u|] s n H0; exact H0.
    - intros [u|]; [apply h_ret'; auto|apply h_rollback]. }
  assert (H1 : inv full (Some c) (w_store w1) (w_next w1)).
  { cbn. apply (inv_upd full None (Some c) _ _ c _ (keeps_with_given _) H); [|apply g0_upd_reset].
    intros Hfull q Hq Ec Hl. destruct H as [_ [F _]]. destruct (F Hfull) as [I2 _].
    pose proof (is_consumer_res _ _ Ec) as Hr. split.
    - intros g Hc. apply (I2 q g); auto.
    - intros g i _ []. }
  specialize (Hprog w1 Hnf H1). exact Hprog.
Qed.

Lemma live_advance ph p : live (advance ph p) -> live p.
Proof.
  unfold advance, live. destruct (Nat.ltb _ _) eqn:E; [|auto]. cbn. apply Nat.ltb_lt in E.
  destruct ph, (p_phase p); cbn in *; auto; try discriminate; lia.
Qed.

Lemma h_do_phase nf full c ph :
  hoareF nf (inv full None) (do_phase c ph) (fun _ => inv full None) (inv full None).
Proof.
  intros w Hnf H. unfold do_phase.
  destruct (find_consumer c (w_store w)) as [p|]; [|cbn; auto].
  destruct (Nat.ltb _ _); [|cbn; auto].
  set (w1 := set_store _ _).
  assert (H1 : inv full None (w_store w1) (w_next w1)).
  { cbn. apply inv_upd_shrink; [apply keeps_advance| | |apply live_advance|exact H].
    - intros q. unfold advance. destruct (Nat.ltb _ _); reflexivity.
    - intros q g. unfold advance. destruct (Nat.ltb _ _); auto. }
  exact (h_on_pod_update nf full None ph _ w1 Hnf H1).
Qed.

Lemma h_do_delete nf full c :
  hoareF nf (inv full None) (do_delete c) (fun _ => inv full None) (inv full None).
Proof.
  unfold do_delete. eapply (h_bind nf _ _ _ (fun _ => inv full None)); [|intros _; apply h_ret'; auto].
  eapply h_post; [|apply h_try; eapply h_pre; [|apply (h_remove_consumer nf c (fun _ => inv full None) (inv full None))]].
  - intros [u|] s n H; exact H.
  - intros s n H. split; [exact H|]. apply inv_filter; [|exact H].
    intros q Hq. unfold is_consumer. rewrite Hq. reflexivity.
Qed.

Lemma h_do_br_delete nf full c :
  hoareF nf (inv full None) (do_br_delete c) (fun _ => inv full None) (inv full None).
Proof.
  intros w Hnf H. unfold do_br_delete. destruct (br_get c (w_brs w)) as [gs|]; [|cbn; auto].
  exact (h_on_br_delete nf full None gs (set_brs (br_del c (w_brs w)) w) Hnf H).
Qed.

Lemma h_do_res_gone nf g :
  hoareF nf (inv false None) (do_res_gone g) (fun _ => inv false None) (inv false None).
Proof.
  unfold do_res_gone. hb; [apply h_get_store|]. rename a into s0.
  destruct (res_of g s0) as [|r l]; [apply h_ret'; tauto|].
  intros w Hnf [H ->]. cbn. split; [|reflexivity]. apply inv_del_res; [exact H|discriminate].
Qed.

Definition is_res_gone (e : event) : bool := match e with EvResGone _ => true | _ => false end.

Lemma h_run_event nf full e :
  (full = true -> is_res_gone e = false) ->
  hoareF nf (inv full None) (run_event e) (fun _ => inv full None) (inv full None).
Proof.
  intros Hfull. destruct e; cbn [run_event].
  - apply h_do_bind.
  - apply h_do_phase.
  - apply h_do_delete.
  - apply h_do_br_delete.
  - destruct full; [specialize (Hfull eq_refl); discriminate|apply h_do_res_gone].
  - apply h_sync_node.
  - apply h_sync_all.
Qed.

Definition exec_prog (st : step) (fuel : nat) : M unit :=
  r <- try (run_event (s_ev st)) ;;
  match r with
  | Some _ => drain fuel
  | None => if exits_on_error (s_ev st) then fail else (drain fuel ;;; fail)
  end.

Lemma h_exec_prog nf full st fuel :
  (full = true -> is_res_gone (s_ev st) = false) ->
  hoareF nf (inv full None) (exec_prog st fuel) (fun _ => inv full None) (inv full None).
Proof.
  intros Hfull. unfold exec_prog.
  eapply (h_bind nf _ _ _ (fun _ => inv full None)).
  - eapply h_post; [|apply h_try; apply h_run_event; exact Hfull]. intros [u|] s n H; exact H.
  - intros [u|]; [apply h_drain|]. destruct (exits_on_error _); [apply h_fail'; auto|].
    hb; [apply h_drain|]. apply h_fail'; auto.
Qed.

(** * Part 5: reachable states *)
Definition inv_state (full : bool) (s : pstate) : Prop := inv full None (ps_store s) (ps_next s).

Lemma exec_world_eq st s : exec_world st s = exec_prog st (S (length (ps_store s))) (start_world st s).
Proof. reflexivity. Qed.

Lemma exec_step_inv full st s :
  (full = true -> is_res_gone (s_ev st) = false) -> inv_state full s -> inv_state full (exec_step s st).
Proof.
  intros Hfull H. unfold exec_step. rewrite exec_world_eq.
  pose proof (h_exec_prog false full st (S (length (ps_store s))) Hfull (start_world st s)) as Hp.
  assert (H0 : inv full None (w_store (start_world st s)) (w_next (start_world st s))) by exact H.
  specialize (Hp (fun e => match Bool.diff_false_true e with end) H0).
  destruct (exec_prog st _ _) as [[u| |] w']; destruct Hp as [Hp _]; exact Hp.
Qed.

Definition tamper_free (h : list step) : Prop := Forall (fun st => is_res_gone (s_ev st) = false) h.

Lemma exec_inv full h : forall s,
  (full = true -> tamper_free h) -> inv_state full s -> inv_state full (exec h s).
Proof.
  induction h as [|st r IH]; intros s Hfull H; [exact H|]. cbn. apply IH.
  - intros Hf. specialize (Hfull Hf). inversion Hfull. assumption.
  - apply exec_step_inv; [|exact H]. intros Hf. specialize (Hfull Hf). inversion Hfull. assumption.
Qed.

Lemma init_inv full cs : inv_state full (init_state cs).
Proof.
  unfold inv_state, init_state. cbn.
  assert (Hall : forall p, In p (map (fun x => consumer0 (fst x) (snd x)) cs) ->
                           p_res p = false /\ p_plain p = None /\ p_multi p = []).
  { intros p Hp. apply in_map_iff in Hp. destruct Hp as [x [<- _]]. cbn. auto. }
  assert (Hres : forall g, res_of g (map (fun x => consumer0 (fst x) (snd x)) cs) = []).
  { intros g. destruct (res_of g _) as [|r l] eqn:E; [reflexivity|].
    assert (Hr : In r (res_of g (map (fun x => consumer0 (fst x) (snd x)) cs))) by (rewrite E; left; reflexivity).
    apply res_of_In in Hr. destruct Hr as [H1 [H2 _]]. destruct (Hall r H1) as [H3 _]. congruence. }
  split; [|split; [|exact I]].
  - constructor.
    + intros g. rewrite Hres. cbn. lia.
    + intros p Hp Hr. destruct (Hall p Hp). congruence.
    + intros p q Hp _ Hr. destruct (Hall p Hp). congruence.
    + intros p Hp _. destruct (Hall p Hp) as [_ [_ H]]. exact H.
  - intros _. split.
    + intros p g Hp _ _ [Hc|Hc]; destruct (Hall p Hp) as [_ [H1 H2]]; [congruence|rewrite H2 in Hc; contradiction].
    + intros p g i Hp _ _ [Hc|Hc]; destruct (Hall p Hp) as [_ [H1 H2]]; [congruence|rewrite H2 in Hc; contradiction].
Qed.

Theorem reach_base cs h : inv_state false (exec h (init_state cs)).
Proof. apply exec_inv; [discriminate|apply init_inv]. Qed.
Theorem reach_full cs h : tamper_free h -> inv_state true (exec h (init_state cs)).
Proof. intros H. apply exec_inv; [auto|apply init_inv]. Qed.

Theorem at_most_one_reachable cs h : at_most_one (ps_store (exec h (init_state cs))).
Proof. destruct (reach_base cs h) as [B _]. exact (ib_amo _ _ B). Qed.

Theorem index_matches_reachable cs h :
  tamper_free h -> index_matches (ps_store (exec h (init_state cs))).
Proof.
  intros Ht. destruct (reach_full cs h Ht) as [_ [F _]]. destruct (F eq_refl) as [_ ID].
  intros p g i Hp Hr Hl _ Hc Hg. exact (ID p g i Hp Hr Hl Hc Hg).
Qed.

Theorem live_consumers_reserved cs h :
  tamper_free h -> forall g, live_carrier (ps_store (exec h (init_state cs))) g -> has_res (ps_store (exec h (init_state cs))) g.
Proof.
  intros Ht g [p [Hp [Hr [Hl Hc]]]]. destruct (reach_full cs h Ht) as [_ [F _]]. destruct (F eq_refl) as [I2 _].
  exact (I2 p g Hp Hr Hl Hc).
Qed.


(** * Part 6: what the syncs achieve *)

(** ** 6a. Histories without outside deletions of reservation pods: a sync never
    deletes a consumer; a fault-free sync of g removes g's reservation pod
    exactly when no live pod carries g. *)

(** consumers untouched, reservation pods only removed *)
Definition shrinks (s0 s : list pod) : Prop :=
  (forall p, p_res p = false -> (In p s <-> In p s0)) /\ (forall p, In p s -> In p s0).
Lemma shrinks_refl s : shrinks s s.
Proof. split; [tauto|auto]. Qed.
Lemma shrinks_trans a b c : shrinks a b -> shrinks b c -> shrinks a c.
Proof.
  intros [H1 H2] [H3 H4]. split.
  - intros p Hp. rewrite (H3 p Hp). apply H1. exact Hp.
  - auto.
Qed.
Lemma shrinks_del_res i s : shrinks s (del_res i s).
Proof.
  split.
  - intros p Hp. rewrite del_res_In. split; [tauto|]. intros H. split; [exact H|].
    unfold is_resid. rewrite Hp. reflexivity.
  - intros p Hp. apply del_res_In in Hp. tauto.
Qed.

(** no reservation pod of g without a live pod carrying g *)
Definition noleak (g : group) (s : list pod) : Prop := has_res s g -> live_carrier s g.

Lemma has_res_shrinks s0 s g : shrinks s0 s -> has_res s g -> has_res s0 g.
Proof.
  intros [_ H] Hr. apply has_res_iff in Hr. destruct Hr as [r [H1 H23]]. apply has_res_iff. exists r. auto.
Qed.
Lemma live_carrier_shrinks s0 s g : shrinks s0 s -> (live_carrier s g <-> live_carrier s0 g).
Proof.
  intros [H _]. split; intros [p [Hp [Hr Hlc]]]; exists p; (split; [apply (H p Hr); exact Hp|auto]).
Qed.
Lemma noleak_shrinks g s0 s : shrinks s0 s -> noleak g s0 -> noleak g s.
Proof.
  intros Hs Hn Hr. apply (live_carrier_shrinks s0 s g Hs). apply Hn. eapply has_res_shrinks; eauto.
Qed.

Lemma amo_unique s g r r' : length (res_of g s) <= 1 -> In r (res_of g s) -> In r' (res_of g s) -> r = r'.
Proof.
  destruct (res_of g s) as [|x [|y l]]; cbn; intros Hl H1 H2; try contradiction; [|lia].
  destruct H1 as [<-|[]]. destruct H2 as [<-|[]]. reflexivity.
Qed.
Lemma last_res_some_of l r : In r l -> p_res r = true -> last_res l <> None.
Proof.
  induction l as [|p t IH]; [contradiction|]. intros [<-|Hin] Hr; cbn.
  - destruct (last_res t); [discriminate|]. rewrite Hr. discriminate.
  - destruct (last_res t) eqn:E; [discriminate|]. exfalso. exact (IH Hin Hr eq_refl).
Qed.

(** shape of the triples of this section: the initial store is named; with no
    faults ([nf = true]) the abnormal exit is unreachable *)
Definition sync_spec {A} (nf : bool) (oc : option pid) (s0 : list pod) (f : M A) (G : list pod -> Prop) : Prop :=
  hoareF nf (fun s n => inv true oc s n /\ s = s0) f
         (fun _ s n => inv true oc s n /\ shrinks s0 s /\ (nf = true -> G s))
         (fun s n => nf = false /\ inv true oc s n /\ shrinks s0 s).

Lemma sync_spec_seq {A B} nf oc s0 (f : M A) (k : A -> M B) (G1 G2 G : list pod -> Prop) :
  sync_spec nf oc s0 f G1 ->
  (forall a s1, shrinks s0 s1 -> sync_spec nf oc s1 (k a) G2) ->
  (forall s1 s2, shrinks s0 s1 -> shrinks s1 s2 -> G1 s1 -> G2 s2 -> G s2) ->
  sync_spec nf oc s0 (bind f k) G.
Proof.
  intros Hf Hk HG. unfold sync_spec in *. hb; [exact Hf|].
  apply h_name. intros s1 n1 [Hinv1 [Hs1 HG1]].
  eapply h_conseq; [apply (Hk a s1 Hs1)| | |]; cbn beta.
  - intros s n [-> ->]. auto.
  - intros b s n [Hinv [Hs HG2]]. split; [exact Hinv|]. split; [eapply shrinks_trans; eauto|].
    intros Hnf. eapply HG; eauto.
  - intros s n [Hnf [Hinv Hs]]. split; [exact Hnf|]. split; [exact Hinv|]. eapply shrinks_trans; eauto.
Qed.
Lemma sync_spec_weaken {A} nf oc s0 (f : M A) (G G' : list pod -> Prop) :
  (forall s, shrinks s0 s -> G s -> G' s) -> sync_spec nf oc s0 f G -> sync_spec nf oc s0 f G'.
Proof.
  intros H Hf. unfold sync_spec in *. eapply h_post; [|exact Hf]. cbn beta.
  intros a s n [H1 [H2 H3]]. auto.
Qed.
Lemma sync_spec_ret {A} nf oc s0 (a : A) (G : list pod -> Prop) :
  (forall n, inv true oc s0 n -> G s0) -> sync_spec nf oc s0 (ret a) G.
Proof.
  intros H. unfold sync_spec. intros w Hnf [Hinv Hs]. subst s0. cbn. split; [|reflexivity].
  split; [exact Hinv|]. split; [apply shrinks_refl|]. intros _. eapply H; eauto.
Qed.
(** operations that do not touch store / next *)
Lemma sync_spec_frame {A} nf oc s0 (f : M A) :
  (forall P E, hoareF nf P f (fun _ => P) E) -> sync_spec nf oc s0 f (fun _ => True).
Proof.
  intros H. unfold sync_spec. eapply h_post; [|apply H]. cbn beta.
  intros a s n [Hinv ->]. split; [exact Hinv|]. split; [apply shrinks_refl|auto].
Qed.
(** [try f] followed by a continuation that goes on (or gives up) after an error *)
Lemma sync_spec_try {A B} nf oc s0 (f : M A) (k1 : A -> M B) (k2 : M B) (G1 G2 G : list pod -> Prop) :
  sync_spec nf oc s0 f G1 ->
  (forall a s1, shrinks s0 s1 -> sync_spec nf oc s1 (k1 a) G2) ->
  (k2 = fail \/ forall s1, shrinks s0 s1 -> sync_spec nf oc s1 k2 G2) ->
  (forall s1 s2, shrinks s0 s1 -> shrinks s1 s2 -> G1 s1 -> G2 s2 -> G s2) ->
  sync_spec nf oc s0 (x <- try f ;; match x with Some a => k1 a | None => k2 end) G.
Proof.
  intros Hf Hk1 Hk2 HG. unfold sync_spec in *.
  hb; [apply h_try; exact Hf|]. destruct a as [a|]; cbn beta.
  - apply h_name. intros s1 n1 [Hinv1 [Hs1 HG1]].
    eapply h_conseq; [apply (Hk1 a s1 Hs1)| | |]; cbn beta.
    + intros s n [-> ->]. auto.
    + intros b s n [Hinv [Hs HG2]]. split; [exact Hinv|]. split; [eapply shrinks_trans; eauto|].
      intros Hnf. eapply HG; eauto.
    + intros s n [Hnf [Hinv Hs]]. split; [exact Hnf|]. split; [exact Hinv|]. eapply shrinks_trans; eauto.
  - destruct Hk2 as [->|Hk2]; [apply h_fail'; auto|].
    apply h_name. intros s1 n1 [Hnf1 [Hinv1 Hs1]].
    eapply h_conseq; [apply (Hk2 s1 Hs1)| | |]; cbn beta.
    + intros s n [-> ->]. auto.
    + intros b s n [Hinv [Hs HG2]]. split; [exact Hinv|]. split; [eapply shrinks_trans; eauto|].
      intros Hnf. congruence.
    + intros s n [Hnf [Hinv Hs]]. split; [exact Hnf|]. split; [exact Hinv|]. eapply shrinks_trans; eauto.
Qed.

Lemma h_api_delete_res_nf nf i (Q : unit -> SP) (E : SP) :
  hoareF nf (fun s n => E s n /\ Q tt (del_res i s) n) (api_delete_res i) Q (fun s n => nf = false /\ E s n).
Proof.
  unfold api_delete_res. hb; [eapply h_exit; [|apply h_tick]|].
  - intros s n [H1 [H2 _]]. auto.
  - hb; [apply h_get_store|]. intros w Hnf [[_ HQ] ->]. cbn. auto.
Qed.

Lemma h_sync_for_pods_A nf oc g s0 :
  sync_spec nf oc s0 (sync_for_pods (listed g s0)) (noleak g).
Proof.
  unfold sync_for_pods.
  destruct (filter (fun p => negb (p_res p) && live_phase (p_phase p)) (listed g s0)) as [|x t] eqn:Ef;
    destruct (last_res (listed g s0)) as [r|] eqn:El.
  - (* no live consumer, a reservation pod: delete it *)
    unfold sync_spec.
    eapply h_pre; [|apply (h_api_delete_res_nf nf (p_id r)
        (fun _ s n => inv true oc s n /\ shrinks s0 s /\ (nf = true -> noleak g s))
        (fun s n => inv true oc s n /\ shrinks s0 s))].
    intros s n [Hinv ->]. split; [split; [exact Hinv|apply shrinks_refl]|].
    assert (Hg : del_guard (p_id r) s0) by (destruct Hinv as [B _]; eapply sync_del_guard; eauto).
    split; [apply inv_del_res; auto|]. split; [apply shrinks_del_res|].
    intros _ Hr. exfalso. apply has_res_iff in Hr. destruct Hr as [r' [H1 [H2 H3]]].
    apply del_res_In in H1. destruct H1 as [H1 Hid].
    destruct Hinv as [B _]. apply last_res_Some in El. destruct El as [Hin Hres].
    destruct (listed_res g s0 n r B Hin Hres) as [Hrs Hrp].
    assert (r' = r).
    { apply (amo_unique s0 g); [apply (ib_amo _ _ B)| |]; apply res_of_In; auto. }
    subst r'. unfold is_resid in Hid. rewrite Hres, Pos.eqb_refl in Hid. discriminate.
  - (* nothing listed that matters *)
    apply sync_spec_ret. intros n Hinv Hr. exfalso.
    apply has_res_iff in Hr. destruct Hr as [r [H1 [H2 H3]]].
    apply (last_res_some_of (listed g s0) r); auto. apply listed_carrier; [exact H1|left; exact H3].
  - (* live consumers and a reservation pod *)
    apply sync_spec_ret. intros n Hinv _.
    assert (Hx : In x (filter (fun p => negb (p_res p) && live_phase (p_phase p)) (listed g s0)))
      by (rewrite Ef; left; reflexivity).
    apply filter_In in Hx. destruct Hx as [Hx1 Hx2]. apply andb_true_iff in Hx2. destruct Hx2 as [Hx2 Hx3].
    apply negb_true_iff in Hx2. apply listed_In in Hx1. destruct Hx1 as [Hx1 Hx4].
    exists x. auto.
  - (* live consumers without reservation pod: impossible here *)
    unfold sync_spec. eapply h_pre; [|apply h_pre_false]. intros s n [Hinv ->].
    assert (Hx : In x (filter (fun p => negb (p_res p) && live_phase (p_phase p)) (listed g s0)))
      by (rewrite Ef; left; reflexivity).
    apply filter_In in Hx. destruct Hx as [Hx1 Hx2]. apply andb_true_iff in Hx2. destruct Hx2 as [Hx2 Hx3].
    apply negb_true_iff in Hx2. apply listed_In in Hx1. destruct Hx1 as [Hx1 Hx4].
    destruct Hinv as [_ [F _]]. destruct (F eq_refl) as [I2 _].
    pose proof (I2 x g Hx1 Hx2 Hx3 Hx4) as Hr. apply has_res_iff in Hr. destruct Hr as [r [H1 [H2 H3]]].
    apply (last_res_some_of (listed g s0) r); auto. apply listed_carrier; [exact H1|left; exact H3].
Qed.

Lemma h_sync_group_A nf oc g s0 : sync_spec nf oc s0 (sync_group g) (noleak g).
Proof.
  unfold sync_spec, sync_group.
  hb; [eapply h_exit; [|apply h_api_list]|].
  { intros s n [H1 [H2 ->]]. split; [exact H1|]. split; [exact H2|apply shrinks_refl]. }
  rename a into l1.
  hb; [eapply h_exit; [|apply h_api_list]|].
  { intros s n [H1 [[H2 ->] _]]. split; [exact H1|]. split; [exact H2|apply shrinks_refl]. }
  rename a into l2.
  apply h_name. intros s1 n1 [[[Hinv Es] El1] El2]. subst s1 l1 l2.
  eapply h_pre; [|apply (h_sync_for_pods_A nf oc g s0)]. intros s n [-> ->]. auto.
Qed.

Lemma h_sync_each_A nf oc stop gs : forall s0,
  sync_spec nf oc s0 (sync_each stop gs) (fun s => forall g, In g gs -> noleak g s).
Proof.
  induction gs as [|g r IH]; intros s0; cbn [sync_each].
  - apply sync_spec_ret. intros n _ g [].
  - apply (sync_spec_try nf oc s0 (sync_group g) (fun _ => sync_each stop r)
                         (if stop then fail else sync_each stop r) (noleak g)
                         (fun s => forall g', In g' r -> noleak g' s)).
    + apply h_sync_group_A.
    + intros _ s1 _. apply IH.
    + destruct stop; [left; reflexivity|right; intros s1 _; apply IH].
    + intros s1 s2 _ Hs H1 H2 g' [<-|Hin]; [eapply noleak_shrinks; eauto|auto].
Qed.

Lemma h_sync_pods_list_A nf oc l s0 :
  sync_spec nf oc s0 (sync_pods_list l)
            (fun s => forall g, In g (flat_map get_gpu_groups l) -> noleak g s).
Proof.
  unfold sync_pods_list.
  eapply (sync_spec_seq nf oc s0 pop_ord _ (fun _ => True)
                        (fun s => forall g, In g (flat_map get_gpu_groups l) -> noleak g s) _).
  - apply sync_spec_frame. intros P E. apply h_pop_ord.
  - intros o s1 _. eapply sync_spec_weaken; [|apply h_sync_each_A]. cbn beta.
    intros s _ H g Hg. apply H. apply order_by_In, dedup_In. exact Hg.
  - cbn beta. auto.
Qed.

Lemma h_listed_then {A} nf oc s0 flt (k : list pod -> M A) G :
  (sync_spec nf oc s0 (k (filter flt s0)) G) -> sync_spec nf oc s0 (l <- api_list flt ;; k l) G.
Proof.
  intros Hk. unfold sync_spec in *.
  hb; [eapply h_exit; [|apply h_api_list]|].
  { intros s n [H1 [H2 ->]]. split; [exact H1|]. split; [exact H2|apply shrinks_refl]. }
  apply h_name. intros s1 n1 [[Hinv Es] El]. subst s1 a. eapply h_pre; [|exact Hk]. intros s n [-> ->]. auto.
Qed.

Lemma get_gpu_groups_In p g : In g (get_gpu_groups p) <-> carries p g.
Proof.
  unfold get_gpu_groups, plain_list, carries. rewrite in_app_iff.
  destruct (p_plain p) as [x|]; cbn; split; intros [H|H]; auto.
  - destruct H as [<-|[]]. auto.
  - injection H as ->. auto.
  - contradiction.
  - discriminate.
Qed.

(** start-up Sync: afterwards no reservation pod is left without a live consumer *)
Lemma h_sync_all_A nf oc s0 : sync_spec nf oc s0 sync_all (fun s => forall g, noleak g s).
Proof.
  unfold sync_all. apply h_listed_then.
  eapply sync_spec_weaken; [|apply h_sync_pods_list_A]. cbn beta.
  intros s Hs H g Hr. apply (H g); [|exact Hr].
  pose proof (has_res_shrinks _ _ _ Hs Hr) as Hr0. apply has_res_iff in Hr0. destruct Hr0 as [r [H1 [H2 H3]]].
  apply in_flat_map. exists r. split.
  - apply filter_In. split; [exact H1|]. unfold labelled. rewrite H3. reflexivity.
  - apply get_gpu_groups_In. left. exact H3.
Qed.

(** SyncForNode n: the same for the reservation pods that sit on node n *)
Definition node_clean (nd : node) (s : list pod) : Prop :=
  forall r g, In r s -> p_res r = true -> on_node nd r = true -> p_plain r = Some g -> live_carrier s g.
Lemma h_sync_node_A nf oc nd s0 : sync_spec nf oc s0 (sync_node nd) (node_clean nd).
Proof.
  unfold sync_node. apply h_listed_then.
  eapply sync_spec_weaken; [|apply h_sync_pods_list_A]. cbn beta.
  intros s Hs H r g Hr Hres Hn Hpl. apply (H g).
  - apply in_flat_map. exists r. split.
    + apply filter_In. split; [apply (proj2 Hs); exact Hr|]. unfold labelled. rewrite Hpl, Hn. reflexivity.
    + apply get_gpu_groups_In. left. exact Hpl.
  - apply has_res_iff. exists r. auto.
Qed.

Lemma h_sync_if_needed_A nf oc o p s0 :
  sync_spec nf oc s0 (sync_if_needed o p) (fun s => forall g, carries p g -> noleak g s).
Proof.
  unfold sync_if_needed. eapply sync_spec_weaken; [|apply h_sync_each_A]. cbn beta.
  intros s _ H g Hc. apply H. apply get_gpu_groups_In in Hc. unfold get_gpu_groups in Hc.
  apply in_app_or in Hc. apply in_or_app. destruct Hc as [Hc|Hc]; [left; exact Hc|right].
  apply order_by_In. exact Hc.
Qed.
Lemma h_on_pod_delete_A nf oc p s0 :
  sync_spec nf oc s0 (on_pod_delete p) (fun s => forall g, carries p g -> noleak g s).
Proof.
  unfold on_pod_delete.
  eapply (sync_spec_seq nf oc s0 pop_ord _ (fun _ => True)
                        (fun s => forall g, carries p g -> noleak g s) _).
  - apply sync_spec_frame. intros P E. apply h_pop_ord.
  - intros o s1 _. apply h_sync_if_needed_A.
  - cbn beta. auto.
Qed.
Lemma h_on_pod_update_A nf oc ph p s0 :
  sync_spec nf oc s0 (on_pod_update ph p) (fun s => completed ph = true -> forall g, carries p g -> noleak g s).
Proof.
  unfold on_pod_update.
  eapply (sync_spec_seq nf oc s0 pop_ord _ (fun _ => True)
                        (fun s => completed ph = true -> forall g, carries p g -> noleak g s) _).
  - apply sync_spec_frame. intros P E. apply h_pop_ord.
  - intros o s1 _. destruct (completed ph).
    + eapply sync_spec_weaken; [|apply h_sync_if_needed_A]. cbn beta. auto.
    + apply sync_spec_ret. intros n _. discriminate.
  - cbn beta. auto.
Qed.
Lemma h_on_br_delete_A nf oc gs s0 :
  sync_spec nf oc s0 (on_br_delete gs) (fun s => forall g, In g gs -> noleak g s).
Proof. apply h_sync_each_A. Qed.

Lemma h_drain_A nf oc fuel : forall s0, sync_spec nf oc s0 (drain fuel) (fun _ => True).
Proof.
  induction fuel as [|f IH]; intros s0; cbn [drain]; [apply sync_spec_ret; auto|].
  eapply (sync_spec_seq nf oc s0 pop_pend _ (fun _ => True) (fun _ => True) _).
  - apply sync_spec_frame. intros P E. apply h_pop_pend.
  - intros [[p b]|] s1 _; [|apply sync_spec_ret; auto].
    eapply (sync_spec_seq nf oc s1 _ _ (fun _ => True) (fun _ => True) _).
    + eapply sync_spec_weaken; [|apply h_on_pod_delete_A]. auto.
    + intros _ s2 _. eapply (sync_spec_seq nf oc s2 _ _ (fun _ => True) (fun _ => True) _).
      * destruct b; [eapply sync_spec_weaken; [|apply h_on_br_delete_A]; auto|apply sync_spec_ret; auto].
      * intros _ s3 _. apply IH.
      * auto.
    + auto.
  - auto.
Qed.

(** ** events followed by the delivery of the watch events they caused *)
Lemma h_exec_prog_A nf st fuel (P : SP) (G : list pod -> Prop) :
  (forall s1 s2, shrinks s1 s2 -> G s1 -> G s2) ->
  hoareF nf P (run_event (s_ev st))
         (fun _ s n => inv true None s n /\ (nf = true -> G s)) (fun s n => nf = false /\ inv true None s n) ->
  hoareF nf P (exec_prog st fuel)
         (fun _ s n => inv true None s n /\ (nf = true -> G s)) (fun s n => nf = false /\ inv true None s n).
Proof.
  intros HG He. unfold exec_prog.
  hb; [apply h_try; exact He|]. destruct a as [u|]; cbn beta.
  - apply h_name. intros s1 n1 [Hinv1 HG1].
    eapply h_conseq; [apply (h_drain_A nf None fuel s1)| | |]; cbn beta.
    + intros s n [-> ->]. auto.
    + intros u' s n [Hinv [Hs _]]. split; [exact Hinv|]. intros Hnf. eapply HG; eauto.
    + intros s n [Hnf [Hinv _]]. auto.
  - apply h_name. intros s1 n1 [Hnf1 Hinv1].
    destruct (exits_on_error (s_ev st)); [apply h_fail'; intros s n [-> ->]; auto|].
    hb; [eapply h_conseq; [apply (h_drain_A nf None fuel s1)| | |]|]; cbn beta.
    + intros s n [-> ->]. auto.
    + intros u' s n H. exact H.
    + intros s n [Hnf [Hinv _]]. auto.
    + apply h_fail'. intros s n [Hinv _]. auto.
Qed.

Definition quiet_step (e : event) (ord : list (list group)) (dp : list (option gidx)) : step :=
  mkStep e no_faults ord dp.

(** running a fault-free step from a state that satisfies the precondition of a triple *)
Lemma run_quiet e ord dp s (G : list pod -> Prop) :
  hoareF true (fun st n => st = ps_store s /\ n = ps_next s)
         (exec_prog (quiet_step e ord dp) (S (length (ps_store s))))
         (fun _ st n => inv true None st n /\ (true = true -> G st)) (fun st n => true = false /\ inv true None st n) ->
  exists w', exec_world (quiet_step e ord dp) s = (Ok tt, w')
             /\ inv true None (w_store w') (w_next w') /\ G (w_store w').
Proof.
  intros H. rewrite exec_world_eq.
  specialize (H (start_world (quiet_step e ord dp) s) (fun _ => eq_refl) (conj eq_refl eq_refl)).
  destruct (exec_prog _ _ _) as [[[]| |] w'].
  - exists w'. destruct H as [[H1 H2] _]. auto.
  - destruct H as [[H _] _]. discriminate.
  - destruct H as [[H _] _]. discriminate.
Qed.

Lemma exact_of_noleak s n oc g : inv true oc s n -> noleak g s -> exact_for s g.
Proof.
  intros [_ [F _]] Hn. destruct (F eq_refl) as [I2 _]. split; [exact Hn|].
  intros [p [Hp [Hr [Hl Hc]]]]. exact (I2 p g Hp Hr Hl Hc).
Qed.
Lemma no_orphan_of_inv s n oc : inv true oc s n -> no_running_orphan s.
Proof.
  intros [_ [F _]] g [p [Hp [Hr [Hph Hc]]]]. destruct (F eq_refl) as [I2 _].
  apply (I2 p g Hp Hr); [|exact Hc]. unfold live. rewrite Hph. reflexivity.
Qed.

(** start-up Sync after ANY tamper-free history (faults and crashes included) *)
Theorem startup_sync_exact cs h ord dp :
  tamper_free h ->
  exists w', exec_world (quiet_step EvRestart ord dp) (exec h (init_state cs)) = (Ok tt, w')
             /\ (forall g, exact_for (w_store w') g)
             /\ no_running_orphan (w_store w') /\ at_most_one (w_store w').
Proof.
  intros Ht. pose proof (reach_full cs h Ht) as Hinv. set (s := exec h (init_state cs)) in *.
  destruct (run_quiet EvRestart ord dp s (fun st => forall g, noleak g st)) as [w' [He [Hi HG]]].
  - apply h_exec_prog_A.
    + intros s1 s2 Hs H g. eapply noleak_shrinks; eauto.
    + cbn [quiet_step s_ev run_event].
      eapply h_conseq; [apply (h_sync_all_A true None (ps_store s))| | |]; cbn beta.
      * intros st n [-> ->]. auto.
      * intros u st n [H1 [_ H3]]. auto.
      * intros st n [H1 [H2 _]]. auto.
  - exists w'. split; [exact He|]. split; [|split].
    + intros g. eapply exact_of_noleak; eauto.
    + eapply no_orphan_of_inv; eauto.
    + destruct Hi as [B _]. exact (ib_amo _ _ B).
Qed.

Lemma node_clean_shrinks nd s1 s2 : shrinks s1 s2 -> node_clean nd s1 -> node_clean nd s2.
Proof.
  intros Hs H r g Hr Hres Hn Hpl. apply (live_carrier_shrinks s1 s2 g Hs).
  apply (H r g); auto. apply (proj2 Hs). exact Hr.
Qed.

(** the next bind on node n (SyncForNode n) after any tamper-free history *)
Theorem node_sync_clean cs h nd ord dp :
  tamper_free h ->
  exists w', exec_world (quiet_step (EvNodeSync nd) ord dp) (exec h (init_state cs)) = (Ok tt, w')
             /\ node_clean nd (w_store w').
Proof.
  intros Ht. pose proof (reach_full cs h Ht) as Hinv. set (s := exec h (init_state cs)) in *.
  destruct (run_quiet (EvNodeSync nd) ord dp s (node_clean nd)) as [w' [He [Hi HG]]].
  - apply h_exec_prog_A; [apply node_clean_shrinks|].
    cbn [quiet_step s_ev run_event].
    eapply h_conseq; [apply (h_sync_node_A true None nd (ps_store s))| | |]; cbn beta.
    + intros st n [-> ->]. auto.
    + intros u st n [H1 [_ H3]]. auto.
    + intros st n [H1 [H2 _]]. auto.
  - exists w'. auto.
Qed.

(** the pod controller's update handler when a consumer completes *)
Lemma inv_advance full s n c ph : inv full None s n -> inv full None (upd_consumer c (advance ph) s) n.
Proof.
  intros H. apply inv_upd_shrink; [apply keeps_advance| | |apply live_advance|exact H].
  - intros q. unfold advance. destruct (Nat.ltb _ _); reflexivity.
  - intros q g. unfold advance. destruct (Nat.ltb _ _); auto.
Qed.

Theorem completion_handler_exact cs h c ph p ord dp :
  tamper_free h ->
  find_consumer c (ps_store (exec h (init_state cs))) = Some p ->
  phase_rank (p_phase p) < phase_rank ph -> completed ph = true ->
  exists w', exec_world (quiet_step (EvPhase c ph) ord dp) (exec h (init_state cs)) = (Ok tt, w')
             /\ forall g, carries p g -> exact_for (w_store w') g.
Proof.
  intros Ht Hf Hrk Hc. pose proof (reach_full cs h Ht) as Hinv. set (s := exec h (init_state cs)) in *.
  destruct (run_quiet (EvPhase c ph) ord dp s (fun st => forall g, carries p g -> noleak g st)) as [w' [He [Hi HG]]].
  - apply h_exec_prog_A.
    + intros s1 s2 Hs H g Hg. eapply noleak_shrinks; eauto.
    + cbn [quiet_step s_ev run_event]. intros w Hnf [Hs Hn]. unfold do_phase. rewrite Hs, Hf.
      apply Nat.ltb_lt in Hrk. rewrite Hrk.
      set (w1 := set_store _ w).
      assert (H1 : inv true None (w_store w1) (w_next w1) /\ w_store w1 = w_store w1).
      { split; [|reflexivity]. cbn. rewrite Hn. apply inv_advance. exact Hinv. }
      pose proof (h_on_pod_update_A true None ph (with_phase ph p) (w_store w1) w1 Hnf H1) as Hu.
      destruct (on_pod_update ph (with_phase ph p) w1) as [[u| |] w2].
      * destruct Hu as [[Hu1 [_ Hu3]] Hfl]. split; [|exact Hfl]. split; [exact Hu1|].
        intros _ g Hg. apply (Hu3 eq_refl Hc g). exact Hg.
      * destruct Hu as [[Hu1 [Hu2 _]] Hfl]. auto.
      * destruct Hu as [[Hu1 [Hu2 _]] Hfl]. auto.
  - exists w'. split; [exact He|]. intros g Hg. eapply exact_of_noleak; eauto.
Qed.

(** the pod controller's delete handler, then the handler of the collected BindRequest *)
Definition after_delete (p : pod) (b : option (list group)) (fuel : nat) : M unit :=
  on_pod_delete p ;;; (match b with Some gs => on_br_delete gs | None => ret tt end) ;;; drain fuel.

Lemma exec_delete_unfold c p fl ord dp s :
  find_consumer c (ps_store s) = Some p ->
  exec_world (mkStep (EvDelete c) fl ord dp) s =
  after_delete p (br_get c (ps_brs s)) (length (ps_store s))
               (mkW (del_consumer c (ps_store s)) (ps_next s) (br_del c (ps_brs s)) 0 [] fl ord dp None []).
Proof.
  intros Hf. unfold exec_world, run_event, s_ev, do_delete, bind, try, remove_consumer, start_world.
  cbn [w_store w_brs w_pend]. rewrite Hf. cbn. reflexivity.
Qed.

Theorem deletion_handler_exact cs h c p ord dp :
  tamper_free h ->
  find_consumer c (ps_store (exec h (init_state cs))) = Some p ->
  exists w', exec_world (quiet_step (EvDelete c) ord dp) (exec h (init_state cs)) = (Ok tt, w')
             /\ forall g, (carries p g \/ exists gs, br_get c (ps_brs (exec h (init_state cs))) = Some gs /\ In g gs) ->
                          exact_for (w_store w') g.
Proof.
  intros Ht Hf. pose proof (reach_full cs h Ht) as Hinv. set (s := exec h (init_state cs)) in *.
  unfold quiet_step. rewrite (exec_delete_unfold c p no_faults ord dp s Hf).
  set (b := br_get c (ps_brs s)). set (w1 := mkW _ _ _ _ _ _ _ _ _ _).
  set (G := fun st => forall g, (carries p g \/ exists gs, b = Some gs /\ In g gs) -> noleak g st).
  assert (Hspec : sync_spec true None (w_store w1) (after_delete p b (length (ps_store s))) G).
  { unfold after_delete.
    eapply (sync_spec_seq true None _ _ _ (fun st => forall g, carries p g -> noleak g st)
                          (fun st => forall g, (exists gs, b = Some gs /\ In g gs) -> noleak g st) G).
    - apply h_on_pod_delete_A.
    - intros _ s1 _.
      eapply (sync_spec_seq true None _ _ _ (fun st => forall g, (exists gs, b = Some gs /\ In g gs) -> noleak g st)
                            (fun _ => True) _).
      + destruct b as [gs|].
        * eapply sync_spec_weaken; [|apply h_on_br_delete_A]. cbn beta.
          intros st _ H g [gs' [E Hin]]. injection E as <-. auto.
        * apply sync_spec_ret. intros n _ g [gs' [E _]]. discriminate.
      + intros _ s2 _. apply h_drain_A.
      + cbn beta. intros s2 s3 _ Hs H _. intros g Hg. eapply noleak_shrinks; eauto.
    - unfold G. intros s1 s2 _ Hs H1 H2 g [Hg|Hg]; [eapply noleak_shrinks; eauto|auto]. }
  assert (H1 : inv true None (w_store w1) (w_next w1) /\ w_store w1 = w_store w1).
  { split; [|reflexivity]. cbn. apply inv_filter; [|exact Hinv].
    intros q Hq. unfold is_consumer. rewrite Hq. reflexivity. }
  specialize (Hspec w1 (fun _ => eq_refl) H1).
  destruct (after_delete p b (length (ps_store s)) w1) as [[[]| |] w'].
  - exists w'. split; [reflexivity|]. destruct Hspec as [[Hi [_ HG]] _].
    intros g Hg. eapply exact_of_noleak; [exact Hi|]. apply (HG eq_refl). exact Hg.
  - destruct Hspec as [[Hx _] _]. discriminate.
  - destruct Hspec as [[Hx _] _]. discriminate.
Qed.

(** ** 6b. Histories in which reservation pods vanish behind the binder's back:
    a fault-free sync of g that goes through leaves no RUNNING pod attached to g
    without reservation; start-up Sync visits the groups of the pods that carry
    the plain label. *)
Definition orphan_free_for (g : group) (s : list pod) : Prop := has_res s g \/ ~ running_carrier s g.
(** pods only removed, and no group loses "reserved or without running pod" *)
Definition ofpres (s0 s : list pod) : Prop :=
  (forall p, In p s -> In p s0) /\ (forall g, orphan_free_for g s0 -> orphan_free_for g s).
Lemma ofpres_refl s : ofpres s s.
Proof. split; auto. Qed.
Lemma ofpres_trans a b c : ofpres a b -> ofpres b c -> ofpres a c.
Proof. intros [H1 H2] [H3 H4]. split; auto. Qed.

Lemma running_is_live s g : running_carrier s g -> live_carrier s g.
Proof. intros [p [H1 [H2 [H3 H4]]]]. exists p. unfold live. rewrite H3. auto. Qed.
Lemma running_carrier_sub s0 s g : (forall p, In p s -> In p s0) -> running_carrier s g -> running_carrier s0 g.
Proof. intros H [p [H1 H2]]. exists p. auto. Qed.

Lemma ofpres_del_consumer c s : ofpres s (del_consumer c s).
Proof.
  split; [intros p Hp; apply del_consumer_In in Hp; tauto|].
  intros g [Hr|Hn].
  - left. apply has_res_iff in Hr. destruct Hr as [r [H1 [H2 H3]]]. apply has_res_iff. exists r.
    split; [|auto]. apply del_consumer_In. split; [exact H1|]. unfold is_consumer. rewrite H2. reflexivity.
  - right. intros Hc. apply Hn. eapply running_carrier_sub; [|exact Hc]. intros p Hp. apply del_consumer_In in Hp. tauto.
Qed.
Lemma ofpres_del_res i s g0 :
  (forall r, In r s -> is_resid i r = true -> p_plain r = Some g0) -> ~ live_carrier s g0 ->
  ofpres s (del_res i s).
Proof.
  intros Hg Hn. split; [intros p Hp; apply del_res_In in Hp; tauto|].
  assert (Hsub : forall p, In p (del_res i s) -> In p s) by (intros p Hp; apply del_res_In in Hp; tauto).
  intros g [Hr|Hnr].
  - destruct (Pos.eq_dec g g0) as [->|Hne].
    + right. intros Hc. apply Hn. apply running_is_live. eapply running_carrier_sub; eauto.
    + left. apply has_res_iff in Hr. destruct Hr as [r [H1 [H2 H3]]]. apply has_res_iff. exists r.
      split; [|auto]. apply del_res_In. split; [exact H1|].
      destruct (is_resid i r) eqn:E; [|reflexivity]. rewrite (Hg r H1 E) in H3. congruence.
  - right. intros Hc. apply Hnr. eapply running_carrier_sub; eauto.
Qed.

Definition tsync_spec {A} (oc : option pid) (s0 : list pod) (f : M A) (G : list pod -> Prop) : Prop :=
  hoareF true (fun s n => inv false oc s n /\ s = s0) f
         (fun _ s n => inv false oc s n /\ ofpres s0 s /\ G s)
         (fun s n => inv false oc s n /\ ofpres s0 s).

Lemma tsync_seq {A B} oc s0 (f : M A) (k : A -> M B) (G1 G2 G : list pod -> Prop) :
  tsync_spec oc s0 f G1 ->
  (forall a s1, ofpres s0 s1 -> tsync_spec oc s1 (k a) G2) ->
  (forall s1 s2, ofpres s0 s1 -> ofpres s1 s2 -> G1 s1 -> G2 s2 -> G s2) ->
  tsync_spec oc s0 (bind f k) G.
Proof.
  intros Hf Hk HG. unfold tsync_spec in *. hb; [exact Hf|].
  apply h_name. intros s1 n1 [Hinv1 [Hs1 HG1]].
  eapply h_conseq; [apply (Hk a s1 Hs1)| | |]; cbn beta.
  - intros s n [-> ->]. auto.
  - intros b s n [Hinv [Hs HG2]]. split; [exact Hinv|]. split; [eapply ofpres_trans; eauto|eapply HG; eauto].
  - intros s n [Hinv Hs]. split; [exact Hinv|]. eapply ofpres_trans; eauto.
Qed.
Lemma tsync_weaken {A} oc s0 (f : M A) (G G' : list pod -> Prop) :
  (forall s, ofpres s0 s -> G s -> G' s) -> tsync_spec oc s0 f G -> tsync_spec oc s0 f G'.
Proof.
  intros H Hf. unfold tsync_spec in *. eapply h_post; [|exact Hf]. cbn beta.
  intros a s n [H1 [H2 H3]]. auto.
Qed.
Lemma tsync_ret {A} oc s0 (a : A) (G : list pod -> Prop) :
  (forall n, inv false oc s0 n -> G s0) -> tsync_spec oc s0 (ret a) G.
Proof.
  intros H. unfold tsync_spec. intros w Hnf [Hinv Hs]. subst s0. cbn. split; [|reflexivity].
  split; [exact Hinv|]. split; [apply ofpres_refl|eapply H; eauto].
Qed.
Lemma tsync_frame {A} oc s0 (f : M A) :
  (forall P E, hoareF true P f (fun _ => P) E) -> tsync_spec oc s0 f (fun _ => True).
Proof.
  intros H. unfold tsync_spec. eapply h_post; [|apply H]. cbn beta.
  intros a s n [Hinv ->]. split; [exact Hinv|]. split; [apply ofpres_refl|auto].
Qed.
(** after an error the caller either gives up or goes on; what the failed part
    would have established is then not claimed *)
Lemma tsync_try {A B} oc s0 (f : M A) (k1 : A -> M B) (k2 : M B) (G1 G2 G : list pod -> Prop) :
  tsync_spec oc s0 f G1 ->
  (forall a s1, ofpres s0 s1 -> tsync_spec oc s1 (k1 a) G2) ->
  (k2 = fail \/ (forall s1, ofpres s0 s1 -> tsync_spec oc s1 k2 (fun _ => True)) /\ forall s, G s) ->
  (forall s1 s2, ofpres s0 s1 -> ofpres s1 s2 -> G1 s1 -> G2 s2 -> G s2) ->
  tsync_spec oc s0 (x <- try f ;; match x with Some a => k1 a | None => k2 end) G.
Proof.
  intros Hf Hk1 Hk2 HG. unfold tsync_spec in *.
  hb; [apply h_try; exact Hf|]. destruct a as [a|]; cbn beta.
  - apply h_name. intros s1 n1 [Hinv1 [Hs1 HG1]].
    eapply h_conseq; [apply (Hk1 a s1 Hs1)| | |]; cbn beta.
    + intros s n [-> ->]. auto.
    + intros b s n [Hinv [Hs HG2]]. split; [exact Hinv|]. split; [eapply ofpres_trans; eauto|eapply HG; eauto].
    + intros s n [Hinv Hs]. split; [exact Hinv|]. eapply ofpres_trans; eauto.
  - destruct Hk2 as [->|[Hk2 HGall]]; [apply h_fail'; auto|].
    apply h_name. intros s1 n1 [Hinv1 Hs1].
    eapply h_conseq; [apply (Hk2 s1 Hs1)| | |]; cbn beta.
    + intros s n [-> ->]. auto.
    + intros b s n [Hinv [Hs _]]. split; [exact Hinv|]. split; [eapply ofpres_trans; eauto|apply HGall].
    + intros s n [Hinv Hs]. split; [exact Hinv|]. eapply ofpres_trans; eauto.
Qed.

Definition gone (c : pid) (s : list pod) : Prop := forall q, In q s -> is_consumer c q = false.

Lemma h_delete_non_reserved_T oc l : forall s0,
  tsync_spec oc s0 (delete_non_reserved l)
             (fun s => forall p, In p l -> p_phase p = Running -> gone (p_id p) s).
Proof.
  induction l as [|p r IH]; intros s0; cbn [delete_non_reserved].
  - apply tsync_ret. intros n _ p [].
  - assert (Hskip : p_phase p <> Running ->
                    tsync_spec oc s0 (delete_non_reserved r)
                               (fun s => forall q, In q (p :: r) -> p_phase q = Running -> gone (p_id q) s)).
    { intros Hne. eapply tsync_weaken; [|apply IH]. cbn beta. intros s _ H q [<-|Hq] Hq'; [contradiction|auto]. }
    destruct (p_phase p) eqn:Eph; try (apply Hskip; discriminate).
    eapply (tsync_seq oc s0 _ _ (gone (p_id p)) (fun s => forall q, In q r -> p_phase q = Running -> gone (p_id q) s) _).
    + unfold tsync_spec. eapply h_pre; [|apply h_api_delete_consumer]. intros s n [Hinv ->].
      split; [split; [exact Hinv|apply ofpres_refl]|].
      split; [apply inv_filter; [|exact Hinv]; intros q Hq; unfold is_consumer; rewrite Hq; reflexivity|].
      split; [apply ofpres_del_consumer|]. intros q Hq. apply del_consumer_In in Hq. tauto.
    + intros _ s1 _. apply IH.
    + cbn beta. intros s1 s2 _ [Hsub _] H1 H2 q [<-|Hq] Hq'; [|auto].
      intros x Hx. apply H1. auto.
Qed.

Lemma h_sync_for_pods_T oc g s0 :
  tsync_spec oc s0 (sync_for_pods (listed g s0)) (orphan_free_for g).
Proof.
  unfold sync_for_pods.
  destruct (filter (fun p => negb (p_res p) && live_phase (p_phase p)) (listed g s0)) as [|x t] eqn:Ef;
    destruct (last_res (listed g s0)) as [r|] eqn:El.
  - unfold tsync_spec. eapply h_pre; [|apply h_api_delete_res]. intros s n [Hinv ->].
    split; [split; [exact Hinv|apply ofpres_refl]|].
    pose proof (no_frac_no_carrier g s0 Ef) as Hnl.
    assert (Hgrp : forall r', In r' s0 -> is_resid (p_id r) r' = true -> p_plain r' = Some g).
    { intros r' Hr' Hid. destruct Hinv as [B _]. apply last_res_Some in El. destruct El as [Hin Hres].
      destruct (listed_res g s0 n r B Hin Hres) as [Hrs Hrp].
      apply is_resid_true in Hid. destruct Hid as [H1 H2].
      rewrite (ib_same _ _ B r' r Hr' Hrs H1 Hres H2). exact Hrp. }
    split; [apply inv_del_res; [exact Hinv|discriminate]|].
    split; [apply (ofpres_del_res _ _ g); assumption|].
    right. intros Hc. apply Hnl. apply running_is_live. eapply running_carrier_sub; [|exact Hc].
    intros q Hq. apply del_res_In in Hq. tauto.
  - apply tsync_ret. intros n _. right. intros Hc. apply (no_frac_no_carrier g s0 Ef). apply running_is_live. exact Hc.
  - apply tsync_ret. intros n [B _]. left. apply last_res_Some in El. destruct El as [Hin Hres].
    destruct (listed_res g s0 n r B Hin Hres) as [Hrs Hrp]. apply has_res_iff. exists r. auto.
  - rewrite <- Ef. eapply tsync_weaken; [|apply h_delete_non_reserved_T]. cbn beta.
    intros s [Hsub _] H. right. intros [q [Hq [Hqr [Hph Hc]]]].
    assert (Hin : In q (filter (fun p => negb (p_res p) && live_phase (p_phase p)) (listed g s0))).
    { apply filter_In. split; [apply listed_carrier; auto|]. rewrite Hqr, Hph. reflexivity. }
    specialize (H q Hin Hph q Hq). unfold is_consumer in H. rewrite Hqr, Pos.eqb_refl in H. discriminate.
Qed.

Lemma h_listed_then_T {A} oc s0 flt (k : list pod -> M A) G :
  (tsync_spec oc s0 (k (filter flt s0)) G) -> tsync_spec oc s0 (l <- api_list flt ;; k l) G.
Proof.
  intros Hk. unfold tsync_spec in *.
  hb; [eapply h_exit; [|apply h_api_list]|].
  { intros s n [_ [H2 ->]]. split; [exact H2|apply ofpres_refl]. }
  apply h_name. intros s1 n1 [[Hinv Es] El]. subst s1 a. eapply h_pre; [|exact Hk]. intros s n [-> ->]. auto.
Qed.

Lemma h_sync_group_T oc g s0 : tsync_spec oc s0 (sync_group g) (orphan_free_for g).
Proof.
  unfold sync_group. apply h_listed_then_T. apply h_listed_then_T. apply h_sync_for_pods_T.
Qed.

Lemma h_sync_each_T oc stop gs : forall s0,
  tsync_spec oc s0 (sync_each stop gs) (fun s => stop = true -> forall g, In g gs -> orphan_free_for g s).
Proof.
  induction gs as [|g r IH]; intros s0; cbn [sync_each].
  - apply tsync_ret. intros n _ _ g [].
  - apply (tsync_try oc s0 (sync_group g) (fun _ => sync_each stop r)
                     (if stop then fail else sync_each stop r) (orphan_free_for g)
                     (fun s => stop = true -> forall g', In g' r -> orphan_free_for g' s)).
    + apply h_sync_group_T.
    + intros _ s1 _. apply IH.
    + destruct stop; [left; reflexivity|right]. split; [|discriminate].
      intros s1 _. eapply tsync_weaken; [|apply IH]. auto.
    + intros s1 s2 _ [_ Hs] H1 H2 Hst g' [<-|Hin]; [auto|auto].
Qed.

Lemma h_sync_pods_list_T oc l s0 :
  tsync_spec oc s0 (sync_pods_list l)
             (fun s => forall g, In g (flat_map get_gpu_groups l) -> orphan_free_for g s).
Proof.
  unfold sync_pods_list.
  eapply (tsync_seq oc s0 pop_ord _ (fun _ => True)
                    (fun s => forall g, In g (flat_map get_gpu_groups l) -> orphan_free_for g s) _).
  - apply tsync_frame. intros P E. apply h_pop_ord.
  - intros o s1 _. eapply tsync_weaken; [|apply h_sync_each_T]. cbn beta.
    intros s _ H g Hg. apply (H eq_refl). apply order_by_In, dedup_In. exact Hg.
  - cbn beta. auto.
Qed.

(** start-up Sync visits every group carried by a pod that has the plain label *)
Definition visited_by_sync (s0 : list pod) (g : group) : Prop :=
  exists p, In p s0 /\ labelled p = true /\ carries p g.
Lemma h_sync_all_T oc s0 :
  tsync_spec oc s0 sync_all (fun s => forall g, visited_by_sync s0 g -> orphan_free_for g s).
Proof.
  unfold sync_all. apply h_listed_then_T.
  eapply tsync_weaken; [|apply h_sync_pods_list_T]. cbn beta.
  intros s _ H g [p [Hp [Hl Hc]]]. apply H. apply in_flat_map. exists p. split.
  - apply filter_In. auto.
  - apply get_gpu_groups_In. exact Hc.
Qed.

Lemma h_drain_T oc fuel : forall s0, tsync_spec oc s0 (drain fuel) (fun _ => True).
Proof.
  induction fuel as [|f IH]; intros s0; cbn [drain]; [apply tsync_ret; auto|].
  eapply (tsync_seq oc s0 pop_pend _ (fun _ => True) (fun _ => True) _).
  - apply tsync_frame. intros P E. apply h_pop_pend.
  - intros [[p b]|] s1 _; [|apply tsync_ret; auto].
    eapply (tsync_seq oc s1 _ _ (fun _ => True) (fun _ => True) _).
    + unfold on_pod_delete. eapply (tsync_seq oc s1 pop_ord _ (fun _ => True) (fun _ => True) _).
      * apply tsync_frame. intros P E. apply h_pop_ord.
      * intros o s2 _. unfold sync_if_needed. eapply tsync_weaken; [|apply h_sync_each_T]. auto.
      * auto.
    + intros _ s2 _. eapply (tsync_seq oc s2 _ _ (fun _ => True) (fun _ => True) _).
      * destruct b; [unfold on_br_delete; eapply tsync_weaken; [|apply h_sync_each_T]; auto|apply tsync_ret; auto].
      * intros _ s3 _. apply IH.
      * auto.
    + auto.
  - auto.
Qed.

(** every running pod attached to an unreserved group carries the plain label *)
Definition orphans_visible (s : list pod) : Prop :=
  forall p g, In p s -> p_res p = false -> p_phase p = Running -> carries p g -> ~ has_res s g ->
              p_plain p <> None.

Theorem no_orphan_after_startup_sync cs h ord dp w' :
  orphans_visible (ps_store (exec h (init_state cs))) ->
  exec_world (quiet_step EvRestart ord dp) (exec h (init_state cs)) = (Ok tt, w') ->
  no_running_orphan (w_store w') /\ at_most_one (w_store w').
Proof.
  intros Hvis He. pose proof (reach_base cs h) as Hinv. set (s := exec h (init_state cs)) in *.
  set (s0 := ps_store s) in *.
  set (Gf := fun st => forall g, (orphan_free_for g s0 \/ visited_by_sync s0 g) -> orphan_free_for g st).
  assert (Hspec : hoareF true (fun st n => st = s0 /\ n = ps_next s)
                         (exec_prog (quiet_step EvRestart ord dp) (S (length s0)))
                         (fun _ st n => inv false None st n /\ ofpres s0 st /\ Gf st) (fun _ _ => True)).
  { unfold exec_prog. cbn [quiet_step s_ev run_event exits_on_error].
    hb; [apply h_try; eapply h_exit with (E' := fun _ _ => True);
         [|eapply h_pre; [|apply (h_sync_all_T None s0)]]|].
    - auto.
    - intros st n [-> ->]. auto.
    - destruct a as [u|]; cbn beta; [|intros w _ _; cbn; auto].
      apply h_name. intros s1 n1 [Hinv1 [Hs1 HG1]].
      eapply h_conseq; [apply (h_drain_T None (S (length s0)) s1)| | |]; cbn beta.
      + intros st n [-> ->]. auto.
      + intros u' st n [Hi [Hs _]]. split; [exact Hi|]. split; [eapply ofpres_trans; eauto|].
        intros g [Hg|Hg]; [apply (proj2 (ofpres_trans _ _ _ Hs1 Hs)); exact Hg|].
        apply (proj2 Hs). auto.
      + auto. }
  rewrite exec_world_eq in He.
  specialize (Hspec (start_world (quiet_step EvRestart ord dp) s) (fun _ => eq_refl) (conj eq_refl eq_refl)).
  fold s0 in He. rewrite He in Hspec. destruct Hspec as [[Hi [[Hsub _] HG]] _].
  split; [|destruct Hi as [B _]; exact (ib_amo _ _ B)].
  intros g Hrc. destruct Hrc as [q [Hq [Hqr [Hph Hc]]]].
  assert (Hq0 : In q s0) by auto.
  assert (Hof : orphan_free_for g (w_store w')).
  { apply HG. destruct (res_of g s0) as [|r l] eqn:Er.
    - right. exists q. split; [exact Hq0|]. split; [|exact Hc].
      assert (Hnr : ~ has_res s0 g) by (apply res_of_nil; exact Er).
      pose proof (Hvis q g Hq0 Hqr Hph Hc Hnr) as Hpl. unfold labelled. destruct (p_plain q); [reflexivity|congruence].
    - left. left. unfold has_res. rewrite Er. discriminate. }
  destruct Hof as [Hr|Hn]; [exact Hr|]. exfalso. apply Hn. exists q. auto.
Qed.

(** * Part 7: witnesses *)
Definition running_carrier_b (s : list pod) (g : group) : bool :=
  existsb (fun p => negb (p_res p) && phase_eqb (p_phase p) Running && carries_b g p) s.
Definition live_carrier_b (s : list pod) (g : group) : bool :=
  existsb (fun p => negb (p_res p) && live_phase (p_phase p) && carries_b g p) s.
Definition has_res_b (s : list pod) (g : group) : bool :=
  match res_of g s with [] => false | _ => true end.

Lemma phase_eqb_true a b : phase_eqb a b = true -> a = b.
Proof. destruct a, b; cbn; intros; congruence. Qed.
Lemma running_carrier_b_true s g : running_carrier_b s g = true -> running_carrier s g.
Proof.
  unfold running_carrier_b. rewrite existsb_exists. intros [p [Hp H]].
  apply andb_true_iff in H. destruct H as [H H3]. apply andb_true_iff in H. destruct H as [H1 H2].
  exists p. split; [exact Hp|]. split; [apply negb_true_iff; exact H1|].
  split; [apply phase_eqb_true; exact H2|apply carries_b_true; exact H3].
Qed.
Lemma live_carrier_b_true s g : live_carrier_b s g = true -> live_carrier s g.
Proof.
  unfold live_carrier_b. rewrite existsb_exists. intros [p [Hp H]].
  apply andb_true_iff in H. destruct H as [H H3]. apply andb_true_iff in H. destruct H as [H1 H2].
  exists p. split; [exact Hp|]. split; [apply negb_true_iff; exact H1|].
  split; [exact H2|apply carries_b_true; exact H3].
Qed.
Lemma live_carrier_b_false s g : live_carrier_b s g = false -> ~ live_carrier s g.
Proof.
  intros H [p [Hp [Hr [Hl Hc]]]]. assert (E : live_carrier_b s g = true); [|congruence].
  unfold live_carrier_b. apply existsb_exists. exists p. split; [exact Hp|].
  rewrite Hr. cbn. unfold live in Hl. rewrite Hl. cbn. apply carries_b_true. exact Hc.
Qed.
Lemma has_res_b_false s g : has_res_b s g = false -> ~ has_res s g.
Proof. unfold has_res_b, has_res. destruct (res_of g s); [auto|discriminate]. Qed.
Lemma has_res_b_true s g : has_res_b s g = true -> has_res s g.
Proof. unfold has_res_b, has_res. destruct (res_of g s); [discriminate|intros _; discriminate]. Qed.

(** F3: a multi-fraction consumer (labels runai-gpu-group/<g> only) is bound
    into g1 and g2 and runs; somebody deletes g1's reservation pod; the binder
    restarts.  Sync lists the pods with the plain label -- g2's reservation pod --
    and never visits g1. *)
Definition f3_pods : list (pid * mfkind) := [(1%positive, MfYes)].
Definition f3_history : list step :=
  [ mkStep (EvBind 1%positive 1%positive [1%positive; 2%positive] true) no_faults [] [Some 1%positive; Some 2%positive];
    quiet (EvPhase 1%positive Running);
    quiet (EvResGone 1%positive) ].

Lemma f3_orphan_survives :
  exists w', exec_world (quiet_step EvRestart [] []) (exec f3_history (init_state f3_pods)) = (Ok tt, w')
             /\ ~ no_running_orphan (w_store w').
Proof.
  exists (snd (exec_world (quiet_step EvRestart [] []) (exec f3_history (init_state f3_pods)))).
  split; [vm_compute; reflexivity|].
  intros H. specialize (H 1%positive).
  refine (has_res_b_false _ 1%positive _ (H _)).
  - vm_compute. reflexivity.
  - apply running_carrier_b_true. vm_compute. reflexivity.
Qed.
Lemma f3_not_visible : ~ orphans_visible (ps_store (exec f3_history (init_state f3_pods))).
Proof.
  intros H.
  set (s := ps_store (exec f3_history (init_state f3_pods))) in *.
  assert (Hp : exists p, In p s /\ p_res p = false /\ p_phase p = Running /\ carries p 1%positive /\ p_plain p = None).
  { exists (mkPod 1%positive false (Some 1%positive) None [1%positive; 2%positive] Running None MfYes
                  [(1%positive, 1%positive); (2%positive, 2%positive)]).
    split; [vm_compute; left; reflexivity|]. repeat split. right. left. reflexivity. }
  destruct Hp as [p [H1 [H2 [H3 [H4 H5]]]]].
  refine (H p 1%positive H1 H2 H3 H4 _ H5).
  apply has_res_b_false. vm_compute. reflexivity.
Qed.

(** the same history with a single-fraction consumer: the running pod is deleted *)
Definition f3s_pods : list (pid * mfkind) := [(1%positive, MfNo)].
Definition f3s_history : list step :=
  [ mkStep (EvBind 1%positive 1%positive [1%positive] true) no_faults [] [Some 1%positive];
    quiet (EvPhase 1%positive Running);
    quiet (EvResGone 1%positive) ].
Lemma f3s_single_fraction_deleted :
  w_store (snd (exec_world (quiet_step EvRestart [] []) (exec f3s_history (init_state f3s_pods)))) = [].
Proof. vm_compute. reflexivity. Qed.

(** why the "iff" needs tamper-free histories even for single-fraction pods: a
    bound pod that is still Pending keeps its label when the reservation pod is
    deleted from outside (only RUNNING pods are deleted by the sync) *)
Definition tp_history : list step :=
  [ mkStep (EvBind 1%positive 1%positive [1%positive] true) no_faults [] [Some 1%positive];
    quiet (EvResGone 1%positive) ].
Lemma tampered_pending_keeps_label :
  exists w', exec_world (quiet_step EvRestart [] []) (exec tp_history (init_state f3s_pods)) = (Ok tt, w')
             /\ ~ exact_for (w_store w') 1%positive.
Proof.
  exists (snd (exec_world (quiet_step EvRestart [] []) (exec tp_history (init_state f3s_pods)))).
  split; [vm_compute; reflexivity|].
  intros [_ H]. refine (has_res_b_false _ 1%positive _ (H _)).
  - vm_compute. reflexivity.
  - apply live_carrier_b_true. vm_compute. reflexivity.
Qed.

(** non-vacuity: a tamper-free history with a crash between creating a
    reservation pod and labelling the consumer, a failed label patch, a
    multi-fraction and a single-fraction consumer sharing a group; it reaches
    a state with two reservation pods and two bound consumers holding indices,
    and the completion of the multi-fraction consumer frees exactly g2 *)
Definition nv_pods : list (pid * mfkind) := [(1%positive, MfYes); (2%positive, MfNo)].
Definition nv_history : list step :=
  [ mkStep (EvBind 2%positive 1%positive [1%positive] true) (mkF [] (Some 5)) [] [Some 3%positive];
    quiet EvRestart;
    mkStep (EvBind 2%positive 1%positive [1%positive] true) (mkF [5] None) [] [Some 3%positive];
    mkStep (EvBind 2%positive 1%positive [1%positive] true) no_faults [] [Some 3%positive];
    mkStep (EvBind 1%positive 1%positive [1%positive; 2%positive] true) no_faults [[1%positive]] [Some 4%positive];
    quiet (EvPhase 1%positive Running);
    quiet (EvPhase 2%positive Running) ].

Lemma nv_tamper_free : tamper_free nv_history.
Proof. repeat constructor. Qed.

Lemma nv_reaches :
  let s := ps_store (exec nv_history (init_state nv_pods)) in
  length (filter p_res s) = 2
  /\ (exists p i, In p s /\ p_res p = false /\ live p /\ p_node p <> None /\ carries p 2%positive
                  /\ In (2%positive, i) (p_given p))
  /\ length (res_of 1%positive s) = 1 /\ length (res_of 2%positive s) = 1
  /\ ps_next (exec nv_history (init_state nv_pods)) = 5%positive.
Proof.
  cbv zeta. split; [vm_compute; reflexivity|]. split.
  - exists (mkPod 1%positive false (Some 1%positive) None [1%positive; 2%positive] Running None MfYes
                  [(1%positive, 3%positive); (2%positive, 4%positive)]), 4%positive.
    split; [vm_compute; left; reflexivity|]. split; [reflexivity|]. split; [reflexivity|].
    split; [discriminate|]. split; [right; right; left; reflexivity|right; left; reflexivity].
  - vm_compute. repeat split.
Qed.

Lemma nv_completion_frees_g2 :
  let w := snd (exec_world (quiet_step (EvPhase 1%positive Succeeded) [[1%positive; 2%positive]] [])
                           (exec nv_history (init_state nv_pods))) in
  has_res_b (w_store w) 1%positive = true /\ has_res_b (w_store w) 2%positive = false
  /\ live_carrier_b (w_store w) 1%positive = true /\ live_carrier_b (w_store w) 2%positive = false.
Proof. vm_compute. repeat split. Qed.
