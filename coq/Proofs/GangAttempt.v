(** C03: the commit discipline of one allocation attempt (Model/GangAttempt.v):
    whatever the placement oracle answers, a committed attempt binds pods of a
    pod set only if the pod set then has its minimum of pods that really hold
    resources; a gang that can only partly be bound now is nominated as a whole
    and nothing of it is bound. *)
From Coq Require Import List ZArith PArith Bool Lia.
From KaiV Require Import Model.Status Model.Gang Model.GangAttempt Proofs.Gang.
Import ListNotations.
Set Default Timeout 60.
Open Scope Z_scope.

Lemma countb_map {A B} (f : A -> B) (p : B -> bool) l : countb p (map f l) = countb (fun x => p (f x)) l.
Proof.
  induction l as [|x l IH]; [reflexivity|].
  cbn [map]. rewrite !countb_cons, IH. reflexivity.
Qed.

Lemma countb_ext {A} (p q : A -> bool) l : (forall x, p x = q x) -> countb p l = countb q l.
Proof.
  intros E. induction l as [|x l IH]; [reflexivity|]. rewrite !countb_cons, IH, E. reflexivity.
Qed.

Lemma countb_false {A} (p : A -> bool) l : (forall x, In x l -> p x = false) -> countb p l = 0.
Proof.
  induction l as [|x l IH]; intros H; [reflexivity|].
  rewrite countb_cons, IH by (intros y I; apply H; now right).
  rewrite (H x) by now left. reflexivity.
Qed.

Lemma countb_le {A} (p q : A -> bool) l : (forall x, p x = true -> q x = true) -> countb p l <= countb q l.
Proof.
  intros E. induction l as [|x l IH]; [reflexivity|]. rewrite !countb_cons.
  destruct (p x) eqn:P; [rewrite (E x P); lia|destruct (q x); lia].
Qed.

(** ** one pod set *)

Definition touched (mt : mtask) : bool := snd mt.
Definition n_touched (l : list mtask) : Z := countb touched l.
Definition st (mt : mtask) : status := pt_status (fst mt).

Lemma untouched_counts (p : mtask -> bool) ts :
  (forall mt, snd mt = false -> p mt = false) -> countb p (map untouched ts) = 0.
Proof.
  intros H. apply countb_false. intros x I. apply in_map_iff in I as (t & <- & _). apply H. reflexivity.
Qed.

Lemma place_zero real os ts : place_tasks real 0 os ts = Some (map untouched ts, os).
Proof.
  induction ts as [|t r IH]; [reflexivity|]. cbn [place_tasks].
  destruct (should_allocate real t); [reflexivity|]. rewrite IH. reflexivity.
Qed.

Lemma should_allocate_not_active real t : should_allocate real t = true -> active_allocated (pt_status t) = false.
Proof.
  unfold should_allocate. destruct (pt_status t); cbn; try reflexivity; try discriminate;
    rewrite ?andb_false_r; cbn; discriminate.
Qed.

(** what placing [c] tasks of a pod set does to its counts *)
Lemma place_tasks_spec real : forall ts c os ts' os',
  place_tasks real c os ts = Some (ts', os') ->
  Z.of_nat c <= countb (should_allocate real) ts ->
  n_touched ts' = Z.of_nat c
  /\ countb (fun mt => active_allocated (st mt)) ts' = countb (fun t => active_allocated (pt_status t)) ts + Z.of_nat c
  /\ countb (fun mt => touched mt && status_eqb (st mt) Allocated) ts'
     + countb (fun mt => touched mt && status_eqb (st mt) Pipelined) ts' = Z.of_nat c.
Proof.
  induction ts as [|t r IH]; intros c os ts' os' H L.
  - cbn [place_tasks] in H. inversion H; subst. rewrite countb_nil in L.
    assert (c = O) by lia. subst. repeat split; reflexivity.
  - cbn [place_tasks] in H. rewrite countb_cons in L.
    destruct (should_allocate real t) eqn:SA.
    + pose proof (should_allocate_not_active _ _ SA) as NA.
      destruct c as [|c'].
      * inversion H; subst. unfold n_touched. change (untouched t :: map untouched r) with (map untouched (t :: r)).
        split; [apply untouched_counts; intros mt E; unfold touched; rewrite E; reflexivity|].
        split.
        { rewrite countb_map. cbn [Z.of_nat]. rewrite Z.add_0_r. apply countb_ext. intros x. reflexivity. }
        rewrite !untouched_counts by (intros mt E; unfold touched; rewrite E; reflexivity). reflexivity.
      * destruct os as [|o os1]; [discriminate|].
        destruct o; try discriminate.
        -- destruct (place_tasks real c' os1 r) as [[r' o']|] eqn:E; [|discriminate]. inversion H; subst.
           destruct (IH _ _ _ _ E) as (A & B & C); [lia|].
           unfold n_touched in *. rewrite !countb_cons. cbn [touched st snd fst set_st pt_status status_eqb active_allocated andb].
           cbn beta. rewrite NA. rewrite A, B. repeat split; lia.
        -- destruct (place_tasks real c' os1 r) as [[r' o']|] eqn:E; [|discriminate]. inversion H; subst.
           destruct (IH _ _ _ _ E) as (A & B & C); [lia|].
           unfold n_touched in *. rewrite !countb_cons. cbn [touched st snd fst set_st pt_status status_eqb active_allocated andb].
           cbn beta. rewrite NA. rewrite A, B. repeat split; lia.
    + destruct (place_tasks real c os r) as [[r' o']|] eqn:E; [|discriminate]. inversion H; subst.
      destruct (IH _ _ _ _ E) as (A & B & C); [lia|].
      unfold n_touched in *. rewrite !countb_cons. cbn [touched st snd fst untouched andb].
      cbn beta. rewrite A, B. change (st (untouched t)) with (pt_status t).
      repeat split; destruct (active_allocated (pt_status t)); lia.
Qed.

(** ** the walk over the pod sets *)

Definition n_placed (m : mset) : Z := n_touched (ms_tasks m).

(** how a pod set of the result relates to the pod set it came from *)
Definition rel (real : bool) (ps : pset) (m : mset) : Prop :=
  ms_id m = ps_id ps /\ ms_min m = ps_min ps
  /\ (n_placed m = 0 \/ (0 < n_allocatable real ps /\ n_placed m = taken_of real ps))
  /\ n_active_alloc (forget m) = n_active_alloc ps + n_placed m
  /\ newly_bound m + newly_piped m = n_placed m.

Lemma rel_untouched real ps : rel real ps (untouched_set ps).
Proof.
  unfold rel, untouched_set, n_placed, n_touched, newly_bound, newly_piped, forget, n_active_alloc. cbn [ms_id ms_min ms_tasks ps_tasks].
  rewrite !untouched_counts by (intros mt E; unfold touched; rewrite ?E; reflexivity).
  repeat split; try reflexivity; [now left|].
  rewrite map_map. cbn [untouched fst]. rewrite map_id. lia.
Qed.

Lemma taken_nonneg real ps : 0 < n_allocatable real ps -> 0 < taken_of real ps.
Proof.
  unfold taken_of, num_to_allocate. intros H.
  destruct (Z.leb_spec (ps_min ps) (n_active_alloc ps)); lia.
Qed.

Lemma attempt_go_rel real : forall pss budget os ms o,
  attempt_go real budget os pss = Some (ms, o) -> Forall2 (rel real) pss ms.
Proof.
  induction pss as [|ps r IH]; intros budget os ms o H; cbn [attempt_go] in H.
  - inversion H; subst. constructor.
  - destruct (budget <=? 0).
    { inversion H; subst. cbn [map]. constructor; [apply rel_untouched|].
      clear. induction r as [|x r IH]; cbn [map]; constructor; [apply rel_untouched|exact IH]. }
    destruct (Z.eqb_spec (n_allocatable real ps) 0) as [E0|N0].
    { destruct (attempt_go real budget os r) as [[rs o1]|] eqn:E; [|discriminate]. inversion H; subst.
      constructor; [apply rel_untouched|eapply IH; exact E]. }
    destruct (place_tasks real (Z.to_nat (taken_of real ps)) (olook (ps_id ps) os) (ps_tasks ps)) as [[ts' os']|] eqn:P; [|discriminate].
    destruct (attempt_go real (budget - 1) (oset (ps_id ps) os' os) r) as [[rs o1]|] eqn:E; [|discriminate]. inversion H; subst.
    constructor; [|eapply IH; exact E].
    assert (Hpos : 0 < n_allocatable real ps).
    { pose proof (countb_nonneg (should_allocate real) (ps_tasks ps)). unfold n_allocatable in *. lia. }
    pose proof (taken_nonneg _ _ Hpos) as Tpos.
    destruct (place_tasks_spec real _ _ _ _ _ P) as (A & B & C).
    { unfold taken_of, n_allocatable in *. lia. }
    rewrite Z2Nat.id in A, B, C by lia.
    unfold rel, n_placed, forget, n_active_alloc, newly_bound, newly_piped. cbn [ms_id ms_min ms_tasks ps_tasks].
    repeat split; try reflexivity.
    + right. split; [exact Hpos|exact A].
    + rewrite countb_map. unfold st in B. rewrite A. exact B.
    + rewrite A. exact C.
Qed.

Lemma Forall2_in_right {A B} (P : A -> B -> Prop) l1 l2 b :
  Forall2 P l1 l2 -> In b l2 -> exists a, In a l1 /\ P a b.
Proof.
  induction 1 as [|x y l1 l2 Pxy F IH]; intros I; [contradiction|].
  destruct I as [<-|I]; [exists x; split; [now left|exact Pxy]|].
  destruct (IH I) as (a & Ia & Pa). exists a. split; [now right|exact Pa].
Qed.

(** ** the decision *)

Lemma newly_bound_convert m : newly_bound (convert_set m) = 0.
Proof.
  unfold newly_bound, convert_set. cbn [ms_tasks]. rewrite countb_map. apply countb_false.
  intros [t b] _. unfold convert_task. cbn [fst snd].
  destruct b; cbn [andb]; [|reflexivity].
  destruct (status_eqb (pt_status t) Allocated) eqn:E; cbn [fst snd set_st pt_status status_eqb andb]; [reflexivity|exact E].
Qed.

Lemma holding_le_active ps : n_holding ps <= n_active_alloc ps.
Proof.
  unfold n_holding, n_active_alloc. apply countb_le. intros t. unfold holding.
  intros H. apply andb_true_iff in H as [_ H]. exact H.
Qed.

Lemma no_piped_holding ps :
  existsb (fun t => status_eqb (pt_status t) Pipelined) (ps_tasks ps) = false ->
  n_holding ps = n_active_alloc ps.
Proof.
  intros H. unfold n_holding, n_active_alloc.
  induction (ps_tasks ps) as [|t r IH]; [reflexivity|].
  cbn [existsb] in H. apply orb_false_iff in H as [H1 H2].
  rewrite !countb_cons, (IH H2). unfold holding. rewrite H1. cbn [negb andb]. reflexivity.
Qed.

Lemma should_pipeline_false pss ps :
  should_pipeline pss = false -> In ps pss ->
  existsb (fun t => status_eqb (pt_status t) Pipelined) (ps_tasks ps) = false \/ ps_min ps <= n_holding ps.
Proof.
  unfold should_pipeline. intros H I.
  assert (F : forall x, In x pss ->
     existsb (fun t => status_eqb (pt_status t) Pipelined) (ps_tasks x)
     && (countb (fun t => negb (status_eqb (pt_status t) Pipelined) && active_allocated (pt_status t)) (ps_tasks x) <? ps_min x) = false).
  { intros x Ix. destruct (existsb (fun t => status_eqb (pt_status t) Pipelined) (ps_tasks x)
                           && (countb (fun t => negb (status_eqb (pt_status t) Pipelined) && active_allocated (pt_status t)) (ps_tasks x) <? ps_min x)) eqn:E; [|reflexivity].
    exfalso. assert (X : existsb (fun ps0 => existsb (fun t => status_eqb (pt_status t) Pipelined) (ps_tasks ps0)
                           && (countb (fun t => negb (status_eqb (pt_status t) Pipelined) && active_allocated (pt_status t)) (ps_tasks ps0) <? ps_min ps0)) pss = true).
    { apply existsb_exists. exists x. split; assumption. }
    congruence. }
  specialize (F ps I). apply andb_false_iff in F as [F|F]; [now left|right].
  apply Z.ltb_ge in F. unfold n_holding, holding. exact F.
Qed.

(** The clause for one pod set of a committed decision: nothing of it is bound now,
    or it has its minimum of pods that really hold resources. *)
Definition set_ok (m : mset) : Prop := newly_bound m = 0 \/ ms_min m <= n_holding (forget m).

Lemma rel_set_ok real ms ps m :
  ready ps = true -> rel real ps m -> In m ms -> should_pipeline (map forget ms) = false -> set_ok m.
Proof.
  intros R (Eid & Emin & Pl & Act & NB) I SP.
  destruct (should_pipeline_false _ (forget m) SP) as [NP|Hold].
  { apply in_map. exact I. }
  - destruct Pl as [Z0|[Hpos Tk]].
    + left. pose proof (countb_nonneg (fun mt => snd mt && status_eqb (pt_status (fst mt)) Pipelined) (ms_tasks m)).
      pose proof (countb_nonneg (fun mt => snd mt && status_eqb (pt_status (fst mt)) Allocated) (ms_tasks m)).
      unfold newly_bound, newly_piped in *. lia.
    + right. rewrite (no_piped_holding _ NP), Act, Tk, Emin.
      pose proof (taken_nonneg _ _ Hpos) as Tpos.
      pose proof (taken_reaches_min real ps R) as T. unfold taken in T. unfold taken_of in *. lia.
  - right. cbn [forget ps_min] in Hold. exact Hold.
Qed.

Theorem attempt_gang_discipline real os pss ms :
  forallb ready pss = true ->
  attempt real os pss = Some ms ->
  Forall set_ok ms.
Proof.
  intros R H. unfold attempt, attempt_full in H.
  destruct (attempt_go real (max_sets_to_allocate pss) os pss) as [[ms0 o]|] eqn:E; [|discriminate].
  pose proof (attempt_go_rel _ _ _ _ _ _ E) as F.
  destruct (should_pipeline (map forget ms0)) eqn:SP; inversion H; subst.
  - apply Forall_forall. intros m I. apply in_map_iff in I as (m0 & <- & _). left. apply newly_bound_convert.
  - apply Forall_forall. intros m I.
    destruct (Forall2_in_right _ _ _ _ F I) as (ps & Ips & Rel).
    eapply rel_set_ok; [|exact Rel|exact I|exact SP].
    rewrite forallb_forall in R. apply R. exact Ips.
Qed.

(** All or nothing: in a committed attempt every pod set is either left alone or
    receives exactly the tasks GetTasksToAllocate took from it (bound or nominated);
    an attempt in which one placement fails is discarded as a whole ([attempt]
    returns [None]: nothing changes). *)
Lemma n_placed_convert m : n_placed (convert_set m) = n_placed m.
Proof.
  unfold n_placed, n_touched, convert_set. cbn [ms_tasks]. rewrite countb_map. apply countb_ext.
  intros [t b]. unfold convert_task, touched. cbn [fst snd].
  destruct b; cbn [andb]; [|reflexivity]. destruct (status_eqb (pt_status t) Allocated); reflexivity.
Qed.

Definition unit_placed (real : bool) (ps : pset) (m : mset) : Prop :=
  ms_id m = ps_id ps /\ ms_min m = ps_min ps /\ (n_placed m = 0 \/ n_placed m = taken_of real ps).

Theorem attempt_all_or_nothing real os pss ms :
  attempt real os pss = Some ms -> Forall2 (unit_placed real) pss ms.
Proof.
  intros H. unfold attempt, attempt_full in H.
  destruct (attempt_go real (max_sets_to_allocate pss) os pss) as [[ms0 o]|] eqn:E; [|discriminate].
  pose proof (attempt_go_rel _ _ _ _ _ _ E) as F.
  assert (G : Forall2 (unit_placed real) pss ms0).
  { clear -F. induction F as [|ps m l1 l2 (A & B & C & _) F IH]; constructor; [|exact IH].
    split; [exact A|]. split; [exact B|]. destruct C as [C|[_ C]]; [now left|now right]. }
  destruct (should_pipeline (map forget ms0)); inversion H; subst; [|exact G].
  clear -G. induction G as [|ps m l1 l2 (A & B & C) G IH]; cbn [map]; constructor; [|exact IH].
  split; [exact A|]. split; [exact B|]. rewrite n_placed_convert. exact C.
Qed.

(** A gang that can only partly be bound now (ShouldPipelineJob holds after the
    placements) is nominated as a whole: nothing of it is bound. *)
Lemma countb_or_disjoint {A} (p q : A -> bool) l :
  (forall x, p x && q x = false) -> countb (fun x => p x || q x) l = countb p l + countb q l.
Proof.
  intros D. induction l as [|x l IH]; [reflexivity|]. rewrite !countb_cons, IH.
  specialize (D x). destruct (p x), (q x); cbn [andb orb] in *; try discriminate; lia.
Qed.

Lemma newly_piped_convert m : newly_bound m + newly_piped m = n_placed m -> newly_piped (convert_set m) = n_placed m.
Proof.
  intros H. rewrite <- H. unfold newly_bound, newly_piped, convert_set. cbn [ms_tasks]. rewrite countb_map.
  rewrite <- countb_or_disjoint.
  - apply countb_ext. intros [t b]. unfold convert_task. cbn [fst snd].
    destruct b; cbn [andb orb]; [|reflexivity].
    destruct (status_eqb (pt_status t) Allocated) eqn:EA; cbn [fst snd set_st pt_status status_eqb andb orb]; reflexivity.
  - intros [t b]. cbn [fst snd]. destruct b; cbn [andb]; [|reflexivity].
    destruct (pt_status t); reflexivity.
Qed.

Theorem partial_gang_is_nominated real os pss ms0 o :
  attempt_go real (max_sets_to_allocate pss) os pss = Some (ms0, o) ->
  should_pipeline (map forget ms0) = true ->
  attempt real os pss = Some (map convert_set ms0)
  /\ Forall (fun m => newly_bound m = 0 /\ newly_piped m = n_placed m) (map convert_set ms0).
Proof.
  intros E SP. unfold attempt, attempt_full. rewrite E, SP. split; [reflexivity|].
  pose proof (attempt_go_rel _ _ _ _ _ _ E) as F.
  apply Forall_forall. intros m I. apply in_map_iff in I as (m0 & <- & I0).
  split; [apply newly_bound_convert|].
  destruct (Forall2_in_right _ _ _ _ F I0) as (ps & _ & (_ & _ & _ & _ & NB)).
  rewrite n_placed_convert. apply newly_piped_convert. exact NB.
Qed.

(** non-vacuity: a pod set of minimum 3 with one running pod and three pending ones *)
Definition g_set := mkPS 1 3 [mkPT 1 Running false; mkPT 2 Pending false; mkPT 3 Pending false; mkPT 4 Pending false].
Example attempt_nonvacuous :
  forallb ready [g_set] = true
  /\ (* both taken pods can be bound: the gang reaches its minimum and is bound *)
     (exists ms, attempt true [(1%positive, [OBound; OBound])] [g_set] = Some ms /\ map newly_bound ms = [2] /\ map (fun m => n_holding (forget m)) ms = [3])
  /\ (* one can only be nominated: the whole unit is nominated, nothing is bound *)
     (exists ms, attempt true [(1%positive, [OBound; OPiped])] [g_set] = Some ms /\ map newly_bound ms = [0] /\ map newly_piped ms = [2])
  /\ (* one cannot be placed at all: the attempt is discarded *)
     attempt true [(1%positive, [OBound; OFail])] [g_set] = None.
Proof.
  split; [vm_compute; reflexivity|].
  split; [eexists; split; [vm_compute; reflexivity|split; vm_compute; reflexivity]|].
  split; [eexists; split; [vm_compute; reflexivity|split; vm_compute; reflexivity]|].
  vm_compute; reflexivity.
Qed.

(** ** the loop: every committed attempt of the action obeys the clause *)

Lemma place_tasks_alive real : forall ts c os ts' os',
  place_tasks real c os ts = Some (ts', os') ->
  countb (fun t => alive (pt_status t)) ts <= countb (fun mt => alive (st mt)) ts'
  /\ countb (fun mt => status_eqb (st mt) Gated) ts' = countb (fun t => status_eqb (pt_status t) Gated) ts.
Proof.
  induction ts as [|t r IH]; intros c os ts' os' H; cbn [place_tasks] in H.
  - inversion H; subst. split; reflexivity.
  - destruct (should_allocate real t) eqn:SA.
    + assert (NG : status_eqb (pt_status t) Gated = false).
      { unfold should_allocate in SA. destruct (pt_status t); cbn in *; try reflexivity; try discriminate;
          rewrite ?andb_false_r in SA; cbn in SA; discriminate. }
      destruct c as [|c'].
      * inversion H; subst. change (untouched t :: map untouched r) with (map untouched (t :: r)).
        rewrite !countb_map. split; [apply Z.eq_le_incl|]; apply countb_ext; intros x; reflexivity.
      * destruct os as [|o os1]; [discriminate|]. destruct o; try discriminate;
          (destruct (place_tasks real c' os1 r) as [[r' o']|] eqn:E; [|discriminate]; inversion H; subst;
           destruct (IH _ _ _ _ E) as [A B]; rewrite !countb_cons;
           cbn [st fst set_st pt_status alive status_eqb]; cbn beta; rewrite NG, B;
           split; [destruct (alive (pt_status t)); lia|reflexivity]).
    + destruct (place_tasks real c os r) as [[r' o']|] eqn:E; [|discriminate]. inversion H; subst.
      destruct (IH _ _ _ _ E) as [A B]. rewrite !countb_cons. change (st (untouched t)) with (pt_status t). cbn beta.
      rewrite B. split; [lia|reflexivity].
Qed.

Definition keeps_ready (ps : pset) (m : mset) : Prop :=
  ms_min m = ps_min ps /\ n_alive ps <= n_alive (forget m) /\ n_gated (forget m) = n_gated ps.

Lemma keeps_ready_untouched ps : keeps_ready ps (untouched_set ps).
Proof.
  unfold keeps_ready, untouched_set, forget, n_alive, n_gated. cbn [ms_min ms_tasks ps_tasks].
  rewrite map_map. cbn [untouched fst]. rewrite map_id. repeat split; lia.
Qed.

Lemma attempt_go_keeps_ready real : forall pss budget os ms o,
  attempt_go real budget os pss = Some (ms, o) -> Forall2 keeps_ready pss ms.
Proof.
  induction pss as [|ps r IH]; intros budget os ms o H; cbn [attempt_go] in H.
  - inversion H; subst. constructor.
  - destruct (budget <=? 0).
    { inversion H; subst. cbn [map]. constructor; [apply keeps_ready_untouched|].
      clear. induction r as [|x r IH]; cbn [map]; constructor; [apply keeps_ready_untouched|exact IH]. }
    destruct (n_allocatable real ps =? 0).
    { destruct (attempt_go real budget os r) as [[rs o1]|] eqn:E; [|discriminate]. inversion H; subst.
      constructor; [apply keeps_ready_untouched|eapply IH; exact E]. }
    destruct (place_tasks real (Z.to_nat (taken_of real ps)) (olook (ps_id ps) os) (ps_tasks ps)) as [[ts' os']|] eqn:P; [|discriminate].
    destruct (attempt_go real (budget - 1) (oset (ps_id ps) os' os) r) as [[rs o1]|] eqn:E; [|discriminate]. inversion H; subst.
    constructor; [|eapply IH; exact E].
    destruct (place_tasks_alive _ _ _ _ _ _ P) as [A B].
    unfold keeps_ready, forget, n_alive, n_gated. cbn [ms_min ms_tasks ps_tasks]. rewrite !countb_map.
    unfold st in *. repeat split; [exact A|exact B].
Qed.

Lemma keeps_ready_convert ps m : keeps_ready ps m -> keeps_ready ps (convert_set m).
Proof.
  intros (A & B & C). unfold keeps_ready, convert_set, forget, n_alive, n_gated in *. cbn [ms_min ms_tasks ps_tasks] in *.
  rewrite !countb_map in *. split; [exact A|].
  assert (E1 : forall mt : mtask, alive (pt_status (fst (convert_task mt))) = alive (pt_status (fst mt))).
  { intros [t b]. unfold convert_task. cbn [fst snd]. destruct b; cbn [andb]; [|reflexivity].
    destruct (status_eqb (pt_status t) Allocated) eqn:E; cbn [fst set_st pt_status]; [|reflexivity].
    destruct (pt_status t); cbn in *; congruence. }
  assert (E2 : forall mt : mtask, status_eqb (pt_status (fst (convert_task mt))) Gated = status_eqb (pt_status (fst mt)) Gated).
  { intros [t b]. unfold convert_task. cbn [fst snd]. destruct b; cbn [andb]; [|reflexivity].
    destruct (status_eqb (pt_status t) Allocated) eqn:E; cbn [fst set_st pt_status]; [|reflexivity].
    destruct (pt_status t); cbn in *; congruence. }
  rewrite (countb_ext _ _ _ E1), (countb_ext _ _ _ E2). split; assumption.
Qed.

Lemma attempt_keeps_ready real os pss ms o :
  forallb ready pss = true -> attempt_full real os pss = Some (ms, o) -> forallb ready (map forget ms) = true.
Proof.
  intros R H. unfold attempt_full in H.
  destruct (attempt_go real (max_sets_to_allocate pss) os pss) as [[ms0 o0]|] eqn:E; [|discriminate].
  pose proof (attempt_go_keeps_ready _ _ _ _ _ _ E) as F.
  assert (G : Forall2 keeps_ready pss ms).
  { destruct (should_pipeline (map forget ms0)); inversion H; subst; [|exact F].
    clear -F. induction F as [|ps m l1 l2 K F IH]; cbn [map]; constructor; [apply keeps_ready_convert; exact K|exact IH]. }
  clear -R G. induction G as [|ps m l1 l2 (A & B & C) G IH]; [reflexivity|].
  cbn [forallb map] in *. apply andb_true_iff in R as [R1 R2]. rewrite (IH R2), andb_true_r.
  unfold ready in *. cbn [forget ps_min] . apply Z.leb_le in R1. apply Z.leb_le. cbn [ps_min] in *. lia.
Qed.

Theorem allocate_job_discipline real : forall fuel os pss tr fin o,
  forallb ready pss = true ->
  allocate_job fuel real os pss = (tr, fin, o) ->
  Forall (Forall set_ok) tr /\ forallb ready fin = true.
Proof.
  induction fuel as [|f IH]; intros os pss tr fin o R H; cbn [allocate_job] in H.
  - inversion H; subst. split; [constructor|exact R].
  - destruct (attempt_full real os pss) as [[ms o1]|] eqn:E.
    + assert (D : Forall set_ok ms).
      { apply (attempt_gang_discipline real os pss ms R). unfold attempt. rewrite E. reflexivity. }
      pose proof (attempt_keeps_ready _ _ _ _ _ R E) as R'.
      destruct (has_tasks real (map forget ms)).
      * destruct (allocate_job f real o1 (map forget ms)) as [[tr1 fin1] o2] eqn:E2. inversion H; subst.
        destruct (IH _ _ _ _ _ R' E2) as [T Rf]. split; [constructor; assumption|exact Rf].
      * inversion H; subst. split; [constructor; [exact D|constructor]|exact R'].
    + inversion H; subst. split; [constructor|exact R].
Qed.
