(** Books kept in the units of Model/PodRequest.v and the bind guard on the snapshot (Proofs/Snapshot.v). *)
From Coq Require Import List ZArith Bool Lia PArith.
From KaiV Require Import Model.Res Model.Status Model.AMap Model.Node Model.NodeSpec Proofs.Admissible Run.Cycle
     Model.Snapshot Proofs.Snapshot Model.PodRequest Proofs.PodRequest.
Import ListNotations.
Open Scope Z_scope.

(** ** link with the bind guard on the snapshot (Proofs/Snapshot.v): books kept in [booked] units *)
Lemma bind_in_request_units_covers_every_stage :
  forall (w : world) (nid : positive) (n0 : node) (t : task) (gs : list positive)
         (spec : task -> podspec) (st : task -> pstage),
    WorldWf w -> alookup nid (w_nodes w) = Some n0 -> wf_req t ->
    let n := snap_node false w nid n0 in
    NonNegIdle n -> bind_guard n t gs = true ->
    (forall x k, In x (t :: occupants w nid) -> In k [KCpu; KMem; KMig; KExt] ->
                 proj k (charge x) = proj k (booked (spec x))) ->
    let held := rsum (map (fun x => demand_at (spec x) (st x)) (t :: occupants w nid)) in
    forall k, In k [KCpu; KMem; KMig; KExt] -> proj k held <= proj k (n_alloc n0).
Proof.
  intros w nid n0 t gs spec st W L Wt n NN G H held k Ik.
  pose proof (bind_on_snapshot_within_allocatable w nid n0 t gs W L Wt NN G) as B. cbv zeta in B.
  assert (proj k held <= proj k (rsum (map charge (t :: occupants w nid)))) as Le.
  { apply held_within_charges.
    - intros E. subst k. cbn in Ik. intuition discriminate.
    - intros E. subst k. cbn in Ik. intuition discriminate.
    - intros x I. apply H; assumption. }
  assert (proj k (rsum (map charge (t :: occupants w nid)))
          = proj k (radd (rsum (map charge (occupants w nid))) (charge t))) as E.
  { unfold rsum. cbn [map fold_right]. rewrite !proj_radd. lia. }
  rewrite E in Le. destruct B as [B1 [B2 [_ [B4 B5]]]].
  cbn in Ik. destruct Ik as [K|[K|[K|[K|[]]]]]; subst k; cbn [proj] in *; lia.
Qed.
