(** Proofs for C08: the usage counters are exact, and accepted decisions keep
    queues (and all ancestors) within limit / non-preemptible within deserved
    quota under the [covered] hypothesis; the unconditional statements are
    refuted by a witness. *)
Set Default Timeout 60.
From Coq Require Import List ZArith QArith Qround Qreduction Bool Lia Lqa.
From KaiV Require Import Model.Capacity Model.CapacitySpec.
Import ListNotations.
Open Scope Q_scope.

(** * Arithmetic helpers *)

Lemma Qltb_true a b : Qltb a b = true <-> a < b.
Proof.
  unfold Qltb. rewrite negb_true_iff. split; intro H.
  - apply Qnot_le_lt. intro L. apply Qle_bool_iff in L. congruence.
  - destruct (Qle_bool b a) eqn:E; [|reflexivity]. apply Qle_bool_iff in E. lra.
Qed.

Lemma Qltb_false a b : Qltb a b = false <-> b <= a.
Proof.
  unfold Qltb. rewrite negb_false_iff. apply Qle_bool_iff.
Qed.

Lemma Qeq_bool_false a b : Qeq_bool a b = false -> ~ a == b.
Proof. intros H E. apply Qeq_bool_iff in E. congruence. Qed.

Lemma rget_add a b r : rget (rq_add a b) r == rget a r + rget b r.
Proof. destruct r; unfold rq_add; cbn [rget r_cpu r_mem r_gpu]; apply Qred_correct. Qed.

Lemma rget_sub a b r : rget (rq_sub a b) r == rget a r - rget b r.
Proof. destruct r; unfold rq_sub; cbn [rget r_cpu r_mem r_gpu]; apply Qred_correct. Qed.

Lemma forallb_res (f : res -> bool) : forallb f all_resources = true -> forall r, f r = true.
Proof.
  cbn. intros H r. repeat (apply andb_prop in H; destruct H as [? H]). destruct r; assumption.
Qed.

Lemma existsb_res_false (f : res -> bool) : existsb f all_resources = false -> forall r, f r = false.
Proof.
  cbn. intros H r. repeat (apply orb_false_elim in H; destruct H as [? H]). destruct r; assumption.
Qed.

Lemma rq_le_spec a b : rq_le a b = true -> forall r, rget a r <= rget b r.
Proof. intros H r. apply Qle_bool_iff. apply (forallb_res _ H r). Qed.

Lemma rq_nonneg_spec x : rq_nonneg x = true -> forall r, 0 <= rget x r.
Proof. intros H r. apply Qle_bool_iff. apply (forallb_res _ H r). Qed.

(** what a passing check says, per resource *)
Lemma exceeds_false cap cnt req :
  exceeds cap cnt req = false ->
  forall r, rget cap r == unlimited \/ rget req r == 0 \/ rget cnt r + rget req r <= rget cap r.
Proof.
  intros H r. pose proof (existsb_res_false _ H r) as E. cbn beta in E.
  destruct (Qeq_bool (rget cap r) unlimited) eqn:E1.
  - left. apply Qeq_bool_iff. exact E1.
  - destruct (Qeq_bool (rget req r) 0) eqn:E2.
    + right; left. apply Qeq_bool_iff. exact E2.
    + right; right. apply Qltb_false. exact E.
Qed.

(** * Queue maps: lookup, skeleton *)

Lemma cons_eq_inv {A} (a b : A) l l' : a :: l = b :: l' -> a = b /\ l = l'.
Proof. intro H. split; congruence. Qed.

Definition skel (q : queue) := (q_id q, q_parent q, q_limit q, q_deserved q).

Definition same_shape (g : queue -> queue) : Prop := forall q, skel (g q) = skel q.

Lemma bump_shape add np c : same_shape (bump add np c).
Proof. intro q. reflexivity. Qed.

Lemma find_queue_some qs id q : find_queue qs id = Some q -> q_id q = id /\ In q qs.
Proof.
  unfold find_queue. intro H. apply find_some in H. destruct H as [I E].
  apply Pos.eqb_eq in E. auto.
Qed.

Lemma find_skel qs qs' id :
  map skel qs = map skel qs' ->
  match find_queue qs id, find_queue qs' id with
  | Some q, Some q' => skel q = skel q'
  | None, None => True
  | _, _ => False
  end.
Proof.
  revert qs'. induction qs as [|a qs IH]; intros [|a' qs'] H; try discriminate; cbn in *.
  - exact I.
  - apply cons_eq_inv in H. destruct H as [Ha Hr]. assert (q_id a = q_id a') as Hid by (unfold skel in Ha; congruence).
    rewrite <- Hid. destruct (Pos.eqb (q_id a) id); [exact Ha | apply IH; exact Hr].
Qed.

Lemma skel_map g qs : same_shape g -> map skel (map g qs) = map skel qs.
Proof. intro G. rewrite map_map. apply map_ext. exact G. Qed.

Lemma skel_length qs qs' : map skel qs = map skel qs' -> length qs = length qs'.
Proof. intro H. rewrite <- (map_length skel qs), H. apply map_length. Qed.

(** selective update along a list of ids *)
Definition sel (l : list positive) (g : queue -> queue) (q : queue) : queue :=
  if mem (q_id q) l then g q else q.

Lemma sel_shape l g : same_shape g -> same_shape (sel l g).
Proof. intros G q. unfold sel. destruct (mem (q_id q) l); [apply G | reflexivity]. Qed.

Lemma update_as_sel qs id g : update qs id g = map (sel [id] g) qs.
Proof.
  unfold update, sel, mem. apply map_ext. intro q. cbn. rewrite orb_false_r. reflexivity.
Qed.

Lemma find_map g qs id :
  same_shape g -> find_queue (map g qs) id = option_map g (find_queue qs id).
Proof.
  intro G. unfold find_queue. induction qs as [|a qs IH]; cbn; [reflexivity|].
  assert (q_id (g a) = q_id a) as -> by (pose proof (G a) as E; unfold skel in E; congruence).
  destruct (Pos.eqb (q_id a) id); [reflexivity | exact IH].
Qed.

(** * The parent chain *)

Lemma chain_skel f qs qs' id : map skel qs = map skel qs' -> chain f qs id = chain f qs' id.
Proof.
  intro H. revert id. induction f as [|n IH]; intro id; cbn; [reflexivity|].
  pose proof (find_skel qs qs' id H) as F.
  destruct (find_queue qs id) as [q|], (find_queue qs' id) as [q'|]; try contradiction; [|reflexivity].
  assert (q_parent q = q_parent q') as -> by (unfold skel in F; congruence).
  rewrite IH. reflexivity.
Qed.

Lemma chain_S f qs id l : chain f qs id = Done l -> chain (S f) qs id = Done l.
Proof.
  revert id l. induction f as [|n IH]; intros id l H; [discriminate|].
  cbn in H. change (chain (S (S n)) qs id) with
    (match find_queue qs id with
     | None => Done []
     | Some q => match chain (S n) qs (q_parent q) with
                 | Done l => Done (id :: l) | OutOfFuel => OutOfFuel | Panic => Panic end
     end).
  destruct (find_queue qs id) as [q|]; [|exact H].
  destruct (chain n qs (q_parent q)) as [l0| |] eqn:E; try discriminate.
  rewrite (IH _ _ E). exact H.
Qed.

Lemma chain_mono f f' qs id l : (f <= f')%nat -> chain f qs id = Done l -> chain f' qs id = Done l.
Proof.
  intros L H. induction L; [exact H | apply chain_S; assumption].
Qed.

Lemma chain_det f1 f2 qs id l1 l2 :
  chain f1 qs id = Done l1 -> chain f2 qs id = Done l2 -> l1 = l2.
Proof.
  intros H1 H2.
  pose proof (chain_mono f1 (Nat.max f1 f2) qs id l1 (Nat.le_max_l _ _) H1) as A.
  pose proof (chain_mono f2 (Nat.max f1 f2) qs id l2 (Nat.le_max_r _ _) H2) as B.
  congruence.
Qed.

Lemma chain_sub f qs id l :
  chain f qs id = Done l -> forall x, In x l -> exists l', chain f qs x = Done l' /\ (length l' <= length l)%nat.
Proof.
  revert id l. induction f as [|n IH]; intros id l H x I; [discriminate|].
  cbn in H. destruct (find_queue qs id) as [q|] eqn:F.
  - destruct (chain n qs (q_parent q)) as [l0| |] eqn:E; try discriminate.
    injection H as <-. destruct I as [<- | I].
    + exists (id :: l0). split; [|lia]. cbn. rewrite F, E. reflexivity.
    + destruct (IH _ _ E x I) as (l' & C & L). exists l'. split; [apply chain_S; exact C | cbn; lia].
  - injection H as <-. destruct I.
Qed.

Lemma chain_nodup f qs id l : chain f qs id = Done l -> NoDup l.
Proof.
  revert id l. induction f as [|n IH]; intros id l H; [discriminate|].
  pose proof H as H0. cbn in H. destruct (find_queue qs id) as [q|] eqn:F.
  - destruct (chain n qs (q_parent q)) as [l0| |] eqn:E; try discriminate.
    injection H as <-. constructor; [|eapply IH; exact E].
    intro I. destruct (chain_sub _ _ _ _ E id I) as (l' & C & L).
    apply chain_S in C. rewrite C in H0. injection H0 as ->. cbn in L. lia.
  - injection H as <-. constructor.
Qed.

Lemma mem_true x l : mem x l = true <-> In x l.
Proof.
  unfold mem. rewrite existsb_exists. split.
  - intros (y & I & E). apply Pos.eqb_eq in E. subst. exact I.
  - intro I. exists x. split; [exact I | apply Pos.eqb_refl].
Qed.

Lemma mem_false x l : mem x l = false <-> ~ In x l.
Proof.
  rewrite <- mem_true. destruct (mem x l); split; intro H; try reflexivity; try discriminate; try congruence;
    exfalso; apply H; reflexivity.
Qed.

(** * Walks *)

Lemma walk_check_none f qs id chk :
  walk_check f qs id chk = Done None ->
  exists l, chain f qs id = Done l /\
            forall x, In x l -> exists q, find_queue qs x = Some q /\ chk q = false.
Proof.
  revert id. induction f as [|n IH]; intros id H; [discriminate|].
  cbn in H. cbn [chain]. destruct (find_queue qs id) as [q|] eqn:F.
  - destruct (chk q) eqn:C; [discriminate|].
    destruct (IH _ H) as (l & E & A). exists (id :: l). rewrite E. split; [reflexivity|].
    intros x [<- | I]; [exists q; auto | apply A; exact I].
  - exists []. split; [reflexivity | intros x []].
Qed.

Lemma chain_unfold n qs id :
  chain (S n) qs id =
  match find_queue qs id with
  | None => Done []
  | Some q => match chain n qs (q_parent q) with
              | Done l => Done (id :: l) | OutOfFuel => OutOfFuel | Panic => Panic end
  end.
Proof. reflexivity. Qed.

Lemma shape_id g q : same_shape g -> q_id (g q) = q_id q.
Proof. intro G. pose proof (G q) as S. unfold skel in S. congruence. Qed.

Lemma walk_update_spec f qs id g :
  same_shape g ->
  forall qs', walk_update f qs id g = Done qs' ->
  exists l, chain f qs id = Done l /\ qs' = map (sel l g) qs.
Proof.
  intro G. revert qs id. induction f as [|n IH]; intros qs id qs' H; [discriminate|].
  cbn in H. destruct (find_queue qs id) as [q|] eqn:F.
  - rewrite update_as_sel in H.
    destruct (IH _ _ _ H) as (l0 & E & ->).
    rewrite (chain_skel n _ qs _ (skel_map _ _ (sel_shape _ _ G))) in E.
    assert (chain (S n) qs id = Done (id :: l0)) as C0 by (rewrite chain_unfold, F, E; reflexivity).
    exists (id :: l0). split; [exact C0|].
    pose proof (chain_nodup _ _ _ _ C0) as ND. inversion ND as [|? ? NI _]; subst.
    apply mem_false in NI.
    rewrite map_map. apply map_ext. intro a. unfold sel.
    replace (mem (q_id a) [id]) with (Pos.eqb (q_id a) id) by (unfold mem; cbn; rewrite orb_false_r; reflexivity).
    replace (mem (q_id a) (id :: l0)) with (Pos.eqb (q_id a) id || mem (q_id a) l0)%bool by reflexivity.
    destruct (Pos.eqb (q_id a) id) eqn:Ea.
    + apply Pos.eqb_eq in Ea. rewrite (shape_id _ _ G), Ea, NI. reflexivity.
    + reflexivity.
  - injection H as <-. exists []. split; [rewrite chain_unfold, F; reflexivity|].
    symmetry. erewrite map_ext; [apply map_id|]. intro a. reflexivity.
Qed.

(** * Well-formed forests *)

Lemma nodup_ids_skel qs : forall qs' seen, map skel qs = map skel qs' -> nodup_ids seen qs = nodup_ids seen qs'.
Proof.
  induction qs as [|a qs IH]; intros [|a' qs'] seen H; try discriminate; [reflexivity|].
  cbn in H. apply cons_eq_inv in H. destruct H as [Ha Hr]. cbn.
  assert (q_id a = q_id a') as -> by (unfold skel in Ha; congruence).
  rewrite (IH _ _ Hr). reflexivity.
Qed.

Lemma forallb_skel (P P' : queue -> bool) qs :
  forall qs', map skel qs = map skel qs' ->
  (forall q q', skel q = skel q' -> P q = P' q') ->
  forallb P qs = forallb P' qs'.
Proof.
  induction qs as [|a qs IH]; intros [|a' qs'] H E; try discriminate; [reflexivity|].
  cbn in H. apply cons_eq_inv in H. destruct H as [Ha Hr]. cbn. rewrite (E _ _ Ha), (IH _ Hr E). reflexivity.
Qed.

Lemma wf_forest_skel qs qs' : map skel qs = map skel qs' -> wf_forest qs = wf_forest qs'.
Proof.
  intro H. unfold wf_forest. rewrite (nodup_ids_skel _ _ _ H). f_equal.
  unfold default_fuel. rewrite (skel_length _ _ H).
  apply forallb_skel; [exact H|]. intros q q' E.
  assert (q_id q = q_id q') as -> by (unfold skel in E; congruence).
  rewrite (chain_skel _ _ _ _ H). reflexivity.
Qed.

Lemma nodup_ids_spec qs : forall seen, nodup_ids seen qs = true ->
  NoDup (map q_id qs) /\ forall q, In q qs -> ~ In (q_id q) seen.
Proof.
  induction qs as [|a qs IH]; intros seen H; cbn in *.
  - split; [constructor | intros q []].
  - apply andb_prop in H. destruct H as [Ha Hr]. apply negb_true_iff in Ha.
    destruct (IH _ Hr) as [ND NS]. split.
    + constructor; [|exact ND]. intro I. apply in_map_iff in I. destruct I as (q & E & I).
      apply (NS q I). left. congruence.
    + intros q [<- | I].
      * intro S. assert (existsb (Pos.eqb (q_id a)) seen = true) as T.
        { apply existsb_exists. exists (q_id a). split; [exact S | apply Pos.eqb_refl]. }
        congruence.
      * intro S. apply (NS q I). right. exact S.
Qed.

Lemma find_in_nodup qs q : NoDup (map q_id qs) -> In q qs -> find_queue qs (q_id q) = Some q.
Proof.
  unfold find_queue. induction qs as [|a qs IH]; intros ND I; [destruct I|].
  cbn in *. inversion ND as [|? ? NI ND']; subst. destruct I as [-> | I].
  - rewrite Pos.eqb_refl. reflexivity.
  - destruct (Pos.eqb (q_id a) (q_id q)) eqn:E.
    + apply Pos.eqb_eq in E. exfalso. apply NI. rewrite E. apply in_map. exact I.
    + apply IH; assumption.
Qed.

Lemma wf_chain qs : wf_forest qs = true -> forall id, exists l, chain (default_fuel qs) qs id = Done l.
Proof.
  intros W id. unfold wf_forest in W. apply andb_prop in W. destruct W as [_ W].
  destruct (find_queue qs id) as [q|] eqn:F.
  - destruct (find_queue_some _ _ _ F) as [<- I].
    rewrite forallb_forall in W. specialize (W q I).
    destruct (chain (default_fuel qs) qs (q_id q)) as [l| |]; try discriminate. eauto.
  - exists []. unfold default_fuel. cbn. rewrite F. reflexivity.
Qed.

Lemma wf_find qs q : wf_forest qs = true -> In q qs -> find_queue qs (q_id q) = Some q.
Proof.
  intros W I. unfold wf_forest in W. apply andb_prop in W. destruct W as [W _].
  apply find_in_nodup; [apply (nodup_ids_spec _ _ W) | exact I].
Qed.

(** * Ground-truth sums *)

Lemma in_subtree_skel qs qs' a d : map skel qs = map skel qs' -> in_subtree qs a d = in_subtree qs' a d.
Proof.
  intro H. unfold in_subtree, default_fuel. rewrite (skel_length _ _ H), (chain_skel _ _ _ _ H). reflexivity.
Qed.

Lemma charged_skel np qs qs' led a r :
  map skel qs = map skel qs' -> charged np qs led a r = charged np qs' led a r.
Proof.
  intro H. unfold charged. induction led as [|e led IH]; cbn; [reflexivity|].
  rewrite IH, (in_subtree_skel _ _ _ _ H). reflexivity.
Qed.

Definition contrib (np : bool) (qs : list queue) (a : positive) (r : res) (e : entry) : Q :=
  if in_subtree qs a (e_queue e) && (negb np || negb (e_preempt e)) then rget (e_charge e) r else 0.

Lemma charged_cons np qs e led a r :
  charged np qs (e :: led) a r == contrib np qs a r e + charged np qs led a r.
Proof.
  unfold contrib. cbn [charged fold_right].
  fold (charged np qs led a r).
  destruct (in_subtree qs a (e_queue e) && (negb np || negb (e_preempt e))); lra.
Qed.

Lemma charged_take np qs a r tid :
  forall led e rest, take_entry tid led = Some (e, rest) ->
  charged np qs led a r == contrib np qs a r e + charged np qs rest a r.
Proof.
  induction led as [|x led IH]; intros e rest H; [discriminate|].
  cbn in H. destruct (Pos.eqb (e_task x) tid).
  - injection H as <- <-. apply charged_cons.
  - destruct (take_entry tid led) as [[y r']|] eqn:T; [|discriminate].
    injection H as <- <-. rewrite !charged_cons, (IH _ _ eq_refl). lra.
Qed.

Lemma take_entry_in tid : forall led e rest, take_entry tid led = Some (e, rest) ->
  In e led /\ forall x, In x rest -> In x led.
Proof.
  induction led as [|x led IH]; intros e rest H; [discriminate|].
  cbn in H. destruct (Pos.eqb (e_task x) tid).
  - injection H as <- <-. split; [left; reflexivity | intros y I; right; exact I].
  - destruct (take_entry tid led) as [[y r']|] eqn:T; [|discriminate].
    injection H as <- <-. destruct (IH _ _ eq_refl) as [I S]. split; [right; exact I|].
    intros z [<- | Iz]; [left; reflexivity | right; apply S; exact Iz].
Qed.

(** * Counters *)

Definition cnt (np : bool) (q : queue) : rq := if np then q_np q else q_alloc q.
Definition active (np pre : bool) : bool := negb np || negb pre.
Definition signed (add : bool) (x : Q) : Q := if add then x else - x.

Lemma cnt_bump k add pre c q r :
  rget (cnt k (bump add (negb pre) c q)) r ==
  rget (cnt k q) r + (if active k pre then signed add (rget c r) else 0).
Proof.
  unfold cnt, active, bump, signed. destruct k, pre, add; cbn [negb orb q_np q_alloc];
    rewrite ?rget_add, ?rget_sub; lra.
Qed.

Definition exact (qs : list queue) (led : list entry) : Prop :=
  forall q, In q qs -> forall k r, rget (cnt k q) r == charged k qs led (q_id q) r.

Lemma counters_exact_iff s : counters_exact s <-> exact (s_queues s) (s_ledger s).
Proof.
  unfold counters_exact, exact. split.
  - intros H q I k r. destruct (H q I r) as [A B]. destruct k; assumption.
  - intros H q I r. split; [apply (H q I false r) | apply (H q I true r)].
Qed.

Lemma handler_spec add fuel qs jq pre c qs' :
  handler add fuel qs jq pre c = Done qs' ->
  exists l, chain fuel qs jq = Done l /\ qs' = map (sel l (bump add (negb pre) c)) qs.
Proof.
  unfold handler.
  apply walk_update_spec. apply bump_shape.
Qed.

Lemma in_subtree_chain qs fuel a d l :
  wf_forest qs = true -> chain fuel qs d = Done l -> in_subtree qs a d = mem a l.
Proof.
  intros W C. unfold in_subtree. destruct (wf_chain _ W d) as (l' & C').
  rewrite C'. rewrite (chain_det _ _ _ _ _ _ C' C). reflexivity.
Qed.

Lemma contrib_entry k qs fuel a r tid jq pre c l :
  wf_forest qs = true -> chain fuel qs jq = Done l ->
  contrib k qs a r {| e_task := tid; e_queue := jq; e_preempt := pre; e_charge := c |}
  = if mem a l && active k pre then rget c r else 0.
Proof.
  intros W C. unfold contrib, active. cbn [e_queue e_preempt e_charge].
  rewrite (in_subtree_chain _ _ _ _ _ W C). reflexivity.
Qed.

Lemma exact_bump add qs led led' fuel jq pre c l :
  wf_forest qs = true -> exact qs led -> chain fuel qs jq = Done l ->
  (forall k a r, charged k qs led' a r ==
                 charged k qs led a r + (if mem a l && active k pre then signed add (rget c r) else 0)) ->
  exact (map (sel l (bump add (negb pre) c)) qs) led'.
Proof.
  intros W E C L q' I' k r. apply in_map_iff in I'. destruct I' as (q0 & <- & I0).
  assert (same_shape (sel l (bump add (negb pre) c))) as SS by (apply sel_shape, bump_shape).
  rewrite (shape_id _ _ SS).
  rewrite (charged_skel k _ qs led' _ r (skel_map _ _ SS)).
  rewrite L, <- (E q0 I0 k r). unfold sel.
  destruct (mem (q_id q0) l); cbn [andb].
  - apply cnt_bump.
  - lra.
Qed.

Lemma wf_sel qs l g : same_shape g -> wf_forest (map (sel l g) qs) = wf_forest qs.
Proof. intro G. apply wf_forest_skel. apply skel_map. apply sel_shape. exact G. Qed.

(** one accepted task *)
Lemma exact_alloc qs led fuel jq pre c tid qs' :
  wf_forest qs = true -> exact qs led ->
  alloc_handler fuel qs jq pre c = Done qs' ->
  exact qs' ({| e_task := tid; e_queue := jq; e_preempt := pre; e_charge := c |} :: led)
  /\ map skel qs' = map skel qs.
Proof.
  intros W E H. destruct (handler_spec _ _ _ _ _ _ _ H) as (l & C & ->). split.
  - eapply (exact_bump true); eauto. intros k a r.
    rewrite charged_cons, (contrib_entry _ _ _ _ _ _ _ _ _ _ W C). unfold signed. lra.
  - apply skel_map. apply sel_shape, bump_shape.
Qed.

Lemma exact_dealloc qs led fuel tid e rest qs' :
  wf_forest qs = true -> exact qs led ->
  take_entry tid led = Some (e, rest) ->
  dealloc_handler fuel qs (e_queue e) (e_preempt e) (e_charge e) = Done qs' ->
  exact qs' rest /\ map skel qs' = map skel qs.
Proof.
  intros W E T H. destruct (handler_spec _ _ _ _ _ _ _ H) as (l & C & ->). split.
  - eapply (exact_bump false); eauto. intros k a r.
    rewrite (charged_take k qs a r tid _ _ _ T).
    destruct e as [et eq ep ec]. cbn [e_queue e_preempt e_charge] in *.
    rewrite (contrib_entry _ _ _ _ _ _ _ _ _ _ W C). unfold signed.
    destruct (mem a l && active k ep); lra.
  - apply skel_map. apply sel_shape, bump_shape.
Qed.

Lemma accept_tasks_exact fuel jq pre led :
  forall ts qs acc qs' es,
  wf_forest qs = true -> exact qs (acc ++ led) ->
  admit_tasks fuel qs jq pre ts acc = Done (Accepted qs' es) ->
  exact qs' (es ++ led) /\ map skel qs' = map skel qs.
Proof.
  induction ts as [|[t nm] ts IH]; intros qs acc qs' es W E H.
  - cbn in H. injection H as <- <-. split; [exact E | reflexivity].
  - cbn [admit_tasks] in H.
    destruct (is_task_allocation_on_node_over_capacity fuel qs jq pre t nm) as [[| |]| |]; try discriminate.
    destruct (alloc_handler fuel qs jq pre (charge nm t)) as [qs1| |] eqn:A; try discriminate.
    destruct (exact_alloc _ _ _ _ _ _ (t_id t) _ W E A) as [E1 S1].
    assert (wf_forest qs1 = true) as W1 by (rewrite (wf_forest_skel _ _ S1); exact W).
    destruct (IH _ ({| e_task := t_id t; e_queue := jq; e_preempt := pre; e_charge := charge nm t |} :: acc) _ _ W1 E1 H)
      as [E2 S2]. split; [exact E2 | congruence].
Qed.

Record inv (s0 s : state) : Prop := {
  inv_wf : wf_forest (s_queues s) = true;
  inv_exact : exact (s_queues s) (s_ledger s);
  inv_skel : map skel (s_queues s) = map skel (s_queues s0);
}.

Lemma step_inv fuel s0 s x s' : inv s0 s -> do_step fuel s x = Done s' -> inv s0 s'.
Proof.
  intros [W E S] H. destruct x as [j | tid]; cbn [do_step] in H.
  - unfold admit_job in H.
    destruct (is_job_over_queue_capacity fuel (s_queues s) (j_queue j) (j_preempt j) (map fst (j_tasks j)))
      as [[| |]| |]; try discriminate; try (injection H as <-; constructor; assumption).
    destruct (admit_tasks fuel (s_queues s) (j_queue j) (j_preempt j) (j_tasks j) []) as [[qs es|v]| |] eqn:A;
      try discriminate.
    + injection H as <-. destruct (accept_tasks_exact fuel (j_queue j) (j_preempt j) (s_ledger s) _ _ [] _ _ W E A) as [E2 S2].
      constructor; cbn [s_queues s_ledger].
      * rewrite (wf_forest_skel _ _ S2). exact W.
      * exact E2.
      * congruence.
    + injection H as <-. constructor; assumption.
  - destruct (take_entry tid (s_ledger s)) as [[e rest]|] eqn:T.
    + destruct (dealloc_handler fuel (s_queues s) (e_queue e) (e_preempt e) (e_charge e)) as [qs| |] eqn:D;
        try discriminate.
      injection H as <-. destruct (exact_dealloc _ _ _ _ _ _ _ W E T D) as [E2 S2].
      constructor; cbn [s_queues s_ledger].
      * rewrite (wf_forest_skel _ _ S2). exact W.
      * exact E2.
      * congruence.
    + injection H as <-. constructor; assumption.
Qed.

Lemma run_inv fuel s0 : forall xs s s', inv s0 s -> run fuel s xs = Done s' -> inv s0 s'.
Proof.
  induction xs as [|x xs IH]; intros s s' I H; cbn in H.
  - injection H as <-. exact I.
  - destruct (do_step fuel s x) as [s1| |] eqn:D; try discriminate.
    eapply IH; [eapply step_inv; eauto | exact H].
Qed.

(** (1) the counters equal the sum over the tasks currently charged in the subtree *)
Theorem queue_counters_exact :
  forall (fuel : nat) (s0 s : state) (xs : list step),
    wf_forest (s_queues s0) = true -> counters_exact s0 ->
    run fuel s0 xs = Done s -> counters_exact s.
Proof.
  intros fuel s0 s xs W E H. apply counters_exact_iff.
  apply (inv_exact s0 s). eapply run_inv; [|exact H].
  constructor; [exact W | apply counters_exact_iff; exact E | reflexivity].
Qed.

(** * Gates *)

Definition val (k : bool) (qs : list queue) (id : positive) (r : res) : Q :=
  match find_queue qs id with Some q => rget (cnt k q) r | None => 0 end.

Lemma limit_shape k q q' : skel q = skel q' -> limit_of k q = limit_of k q'.
Proof. unfold skel, limit_of. intro H. destruct k; congruence. Qed.

Lemma val_sel k add qs l pre c x r q :
  find_queue qs x = Some q ->
  val k (map (sel l (bump add (negb pre) c)) qs) x r ==
  val k qs x r + (if mem x l && active k pre then signed add (rget c r) else 0).
Proof.
  intro F. unfold val. rewrite (find_map _ _ _ (sel_shape _ _ (bump_shape _ _ _))), F. cbn [option_map].
  destruct (find_queue_some _ _ _ F) as [Eid _]. unfold sel. rewrite Eid.
  destruct (mem x l); cbn [andb]; [apply cnt_bump | lra].
Qed.

Lemma both_checks_ok f qs jq pre req :
  both_checks f qs jq pre req = Done Schedulable ->
  forall k, active k pre = true ->
  exists l, chain f qs jq = Done l /\
            forall x, In x l -> exists q, find_queue qs x = Some q /\
                                          exceeds (limit_of k q) (cnt k q) req = false.
Proof.
  unfold both_checks, results_over_limit, results_np_over_quota. intros H k A.
  destruct (walk_check f qs jq (fun q => is_over_limit q req)) as [[o|]| |] eqn:W1; try discriminate.
  destruct k.
  - unfold active in A. cbn in A. apply negb_true_iff in A. subst pre.
    destruct (walk_check f qs jq (fun q => is_np_over_quota q req)) as [[o|]| |] eqn:W2; try discriminate.
    apply walk_check_none in W2. exact W2.
  - apply walk_check_none in W1. exact W1.
Qed.

Definition sumr (f : task * positive -> rq) (ts : list (task * positive)) (r : res) : Q :=
  fold_right (fun tn acc => rget (f tn) r + acc) 0 ts.

Definition charge_of (tn : task * positive) : rq := charge (snd tn) (fst tn).
Definition jobreq_of (tn : task * positive) : rq := job_task_request (fst tn).
Definition nodereq_of (tn : task * positive) : rq := node_task_request (snd tn) (fst tn).

Lemma job_request_sum r : forall ts acc,
  rget (fold_left (fun a t => rq_add a (job_task_request t)) (map fst ts) acc) r
  == rget acc r + sumr jobreq_of ts r.
Proof.
  induction ts as [|tn ts IH]; intro acc; cbn [map fold_left sumr fold_right].
  - lra.
  - rewrite IH, rget_add. fold (sumr jobreq_of ts r). unfold jobreq_of at 2. lra.
Qed.

Lemma sumr_le f g ts r :
  (forall tn, In tn ts -> rget (f tn) r <= rget (g tn) r) -> sumr f ts r <= sumr g ts r.
Proof.
  induction ts as [|tn ts IH]; intro H; cbn [sumr fold_right]; [lra|].
  fold (sumr f ts r) (sumr g ts r).
  pose proof (H tn (or_introl eq_refl)). pose proof (IH (fun x I => H x (or_intror I))). lra.
Qed.

(** the counters after an accepted job: every queue on the chain moved by the sum of the charges *)
Lemma accept_tasks_val fuel jq pre l :
  forall ts qs acc qs' es,
  chain fuel qs jq = Done l ->
  admit_tasks fuel qs jq pre ts acc = Done (Accepted qs' es) ->
  forall k x r q, find_queue qs x = Some q ->
    val k qs' x r == val k qs x r + (if mem x l && active k pre then sumr charge_of ts r else 0).
Proof.
  induction ts as [|[t nm] ts IH]; intros qs acc qs' es C H k x r q F.
  - cbn in H. injection H as <- <-. cbn. destruct (mem x l && active k pre); lra.
  - cbn [admit_tasks] in H.
    destruct (is_task_allocation_on_node_over_capacity fuel qs jq pre t nm) as [[| |]| |]; try discriminate.
    destruct (alloc_handler fuel qs jq pre (charge nm t)) as [qs1| |] eqn:A; try discriminate.
    destruct (handler_spec _ _ _ _ _ _ _ A) as (l1 & C1 & ->).
    rewrite (chain_det _ _ _ _ _ _ C1 C) in *. clear C1.
    assert (same_shape (sel l (bump true (negb pre) (charge nm t)))) as SS by (apply sel_shape, bump_shape).
    assert (chain fuel (map (sel l (bump true (negb pre) (charge nm t))) qs) jq = Done l) as C2
      by (rewrite (chain_skel _ _ qs _ (skel_map _ _ SS)); exact C).
    assert (find_queue (map (sel l (bump true (negb pre) (charge nm t))) qs) x
            = Some (sel l (bump true (negb pre) (charge nm t)) q)) as F2
      by (rewrite (find_map _ _ _ SS), F; reflexivity).
    rewrite (IH _ _ _ _ C2 H k x r _ F2), (val_sel k true qs l pre _ x r q F).
    cbn [sumr fold_right]. fold (sumr charge_of ts r). unfold charge_of at 2. cbn [fst snd signed].
    destruct (mem x l && active k pre); lra.
Qed.

Lemma forallb_in {A} (f : A -> bool) l : forallb f l = true -> forall x, In x l -> f x = true.
Proof. intro H. apply forallb_forall. exact H. Qed.

(** every task is bounded by what the job-level gate summed for it *)
Lemma job_covered_within fuel qs j qs' es :
  forallb job_covers (j_tasks j) = true ->
  admit_job fuel qs j = Done (Accepted qs' es) ->
  forall k x r q, find_queue qs x = Some q ->
    ~ rget (limit_of k q) r == unlimited ->
    val k qs x r < val k qs' x r -> val k qs' x r <= rget (limit_of k q) r.
Proof.
  intros JC H k x r q F NU R. unfold admit_job, is_job_over_queue_capacity in H.
  destruct (both_checks fuel qs (j_queue j) (j_preempt j) (job_request (map fst (j_tasks j))))
    as [[| |]| |] eqn:G; try discriminate.
  destruct (both_checks_ok _ _ _ _ _ G false eq_refl) as (l & C & _).
  pose proof (accept_tasks_val _ _ _ _ _ _ _ _ _ C H k x r q F) as V.
  destruct (mem x l && active k (j_preempt j)) eqn:Cond; [|lra].
  apply andb_prop in Cond. destruct Cond as [M A].
  destruct (both_checks_ok _ _ _ _ _ G k A) as (l' & C' & Ex).
  rewrite (chain_det _ _ _ _ _ _ C' C) in Ex. apply mem_true in M.
  destruct (Ex x M) as (q2 & F2 & X). rewrite F in F2. injection F2 as <-.
  assert (sumr charge_of (j_tasks j) r <= sumr jobreq_of (j_tasks j) r) as LE.
  { apply sumr_le. intros [t nm] I. pose proof (forallb_in _ _ JC _ I) as B.
    change (rq_le (charge nm t) (job_task_request t) = true) in B.
    apply (rq_le_spec _ _ B). }
  pose proof (job_request_sum r (j_tasks j) rq_zero) as JR.
  fold (job_request (map fst (j_tasks j))) in JR.
  replace (rget rq_zero r) with 0 in JR by (destruct r; reflexivity).
  assert (val k qs x r = rget (cnt k q) r) as Vq by (unfold val; rewrite F; reflexivity).
  destruct (exceeds_false _ _ _ X r) as [U | [Z | B]]; [contradiction | | ].
  - clear - R V LE JR Z. lra.
  - rewrite Vq in *. clear - R V LE JR B. lra.
Qed.

(** every task is bounded by what the node-level gate checked for it *)
Lemma node_covered_step fuel jq pre (B : bool -> positive -> res -> Q) :
  forall ts qs acc qs' es,
  forallb wf_task ts = true -> forallb node_covers ts = true ->
  admit_tasks fuel qs jq pre ts acc = Done (Accepted qs' es) ->
  (forall k x r q, find_queue qs x = Some q -> ~ rget (limit_of k q) r == unlimited ->
                   val k qs x r <= rget (limit_of k q) r \/ val k qs x r <= B k x r) ->
  (forall k x r q, find_queue qs' x = Some q -> ~ rget (limit_of k q) r == unlimited ->
                   val k qs' x r <= rget (limit_of k q) r \/ val k qs' x r <= B k x r).
Proof.
  induction ts as [|[t nm] ts IH]; intros qs acc qs' es WT NC H Inv.
  - cbn in H. injection H as <- <-. exact Inv.
  - cbn [admit_tasks] in H. cbn [forallb] in WT, NC.
    apply andb_prop in WT. destruct WT as [WT1 WT]. apply andb_prop in NC. destruct NC as [NC1 NC].
    unfold is_task_allocation_on_node_over_capacity in H.
    destruct (both_checks fuel qs jq pre (node_task_request nm t)) as [[| |]| |] eqn:G; try discriminate.
    destruct (alloc_handler fuel qs jq pre (charge nm t)) as [qs1| |] eqn:A; try discriminate.
    destruct (handler_spec _ _ _ _ _ _ _ A) as (l & C & ->).
    assert (same_shape (sel l (bump true (negb pre) (charge nm t)))) as SS by (apply sel_shape, bump_shape).
    apply (IH _ _ _ _ WT NC H). clear IH H.
    intros k x r q1 F1 NU1.
    rewrite (find_map _ _ _ SS) in F1. destruct (find_queue qs x) as [q0|] eqn:F0; [|discriminate].
    cbn [option_map] in F1. injection F1 as <-.
    rewrite (limit_shape k _ q0 (SS q0)) in *.
    rewrite (val_sel k true qs l pre _ x r q0 F0). cbn [signed].
    destruct (mem x l && active k pre) eqn:Cond.
    + apply andb_prop in Cond. destruct Cond as [M Act]. apply mem_true in M.
      destruct (both_checks_ok _ _ _ _ _ G k Act) as (l' & C' & Ex).
      rewrite (chain_det _ _ _ _ _ _ C' C) in Ex.
      destruct (Ex x M) as (q2 & F2 & X). rewrite F0 in F2. injection F2 as <-.
      change (rq_nonneg (job_task_request t) && rq_nonneg (node_task_request nm t) && rq_nonneg (charge nm t) = true)%bool in WT1.
      change (rq_le (charge nm t) (node_task_request nm t) = true) in NC1.
      apply andb_prop in WT1. destruct WT1 as [_ CN].
      pose proof (rq_nonneg_spec _ CN r) as C0. pose proof (rq_le_spec _ _ NC1 r) as CU.
      assert (val k qs x r = rget (cnt k q0) r) as Vq by (unfold val; rewrite F0; reflexivity).
      destruct (exceeds_false _ _ _ X r) as [U | [Z | Bd]]; [contradiction | | ].
      * destruct (Inv k x r q0 F0 NU1) as [I1|I1]; [left | right]; clear - I1 Z C0 CU; lra.
      * left. rewrite Vq. clear - Bd C0 CU. lra.
    + destruct (Inv k x r q0 F0 NU1) as [I1|I1]; [left | right]; clear - I1; lra.
Qed.

Lemma node_covered_within fuel qs j qs' es :
  wf_job j = true -> forallb node_covers (j_tasks j) = true ->
  admit_job fuel qs j = Done (Accepted qs' es) ->
  map skel qs' = map skel qs ->
  forall k x r q, find_queue qs x = Some q ->
    ~ rget (limit_of k q) r == unlimited ->
    val k qs x r < val k qs' x r -> val k qs' x r <= rget (limit_of k q) r.
Proof.
  intros WJ NC H SK k x r q F NU R. unfold admit_job in H.
  destruct (is_job_over_queue_capacity fuel qs (j_queue j) (j_preempt j) (map fst (j_tasks j)))
    as [[| |]| |]; try discriminate.
  pose proof (find_skel qs' qs x SK) as FS. rewrite F in FS.
  destruct (find_queue qs' x) as [q'|] eqn:F'; [|contradiction].
  pose proof (node_covered_step fuel (j_queue j) (j_preempt j) (fun k x r => val k qs x r)
                _ _ _ _ _ WJ NC H) as N.
  assert (forall k x r q, find_queue qs x = Some q -> ~ rget (limit_of k q) r == unlimited ->
            val k qs x r <= rget (limit_of k q) r \/ val k qs x r <= val k qs x r) as I0
    by (intros; right; lra).
  specialize (N I0 k x r q' F'). rewrite (limit_shape k _ _ FS) in N.
  destruct (N NU) as [N1|N1]; clear - N1 R; lra.
Qed.

(** * From counters to ground truth, along sequences *)

Lemma accept_tasks_entries fuel jq pre :
  forall ts qs acc qs' es,
  admit_tasks fuel qs jq pre ts acc = Done (Accepted qs' es) ->
  forall e, In e es -> In e acc \/ exists t nm, In (t, nm) ts /\ e_charge e = charge nm t.
Proof.
  induction ts as [|[t nm] ts IH]; intros qs acc qs' es H e I.
  - cbn in H. injection H as <- <-. left. exact I.
  - cbn [admit_tasks] in H.
    destruct (is_task_allocation_on_node_over_capacity fuel qs jq pre t nm) as [[| |]| |]; try discriminate.
    destruct (alloc_handler fuel qs jq pre (charge nm t)) as [qs1| |]; try discriminate.
    destruct (IH _ _ _ _ H e I) as [[<- | Ia] | (t' & nm' & It & Ec)].
    + right. exists t, nm. split; [left; reflexivity | reflexivity].
    + left. exact Ia.
    + right. exists t', nm'. split; [right; exact It | exact Ec].
Qed.

Lemma step_nonneg fuel s x s' :
  ledger_nonneg s = true -> (forall j, x = AdmitJob j -> wf_job j = true) ->
  do_step fuel s x = Done s' -> ledger_nonneg s' = true.
Proof.
  unfold ledger_nonneg. intros N WJ H. destruct x as [j | tid]; cbn [do_step] in H.
  - destruct (admit_job fuel (s_queues s) j) as [[qs es|v]| |] eqn:A; try discriminate;
      injection H as <-; [|exact N].
    cbn [s_ledger]. rewrite forallb_app, N, andb_true_r. apply forallb_forall. intros e I.
    unfold admit_job in A.
    destruct (is_job_over_queue_capacity fuel (s_queues s) (j_queue j) (j_preempt j) (map fst (j_tasks j)))
      as [[| |]| |]; try discriminate.
    destruct (accept_tasks_entries _ _ _ _ _ _ _ _ A e I) as [[] | (t & nm & It & ->)].
    pose proof (forallb_in _ _ (WJ j eq_refl) _ It) as WT.
    change (rq_nonneg (job_task_request t) && rq_nonneg (node_task_request nm t) && rq_nonneg (charge nm t) = true)%bool in WT.
    apply andb_prop in WT. apply WT.
  - destruct (take_entry tid (s_ledger s)) as [[e rest]|] eqn:T; [|injection H as <-; exact N].
    destruct (dealloc_handler fuel (s_queues s) (e_queue e) (e_preempt e) (e_charge e)); try discriminate.
    injection H as <-. cbn [s_ledger]. apply forallb_forall. intros y I.
    apply (forallb_in _ _ N). destruct (take_entry_in _ _ _ _ T) as [_ Sub]. apply Sub. exact I.
Qed.

Lemma run_nonneg fuel : forall xs s s',
  ledger_nonneg s = true -> accepts_ok wf_job xs -> run fuel s xs = Done s' -> ledger_nonneg s' = true.
Proof.
  induction xs as [|x xs IH]; intros s s' N A H; cbn in H.
  - injection H as <-. exact N.
  - destruct (do_step fuel s x) as [s1| |] eqn:D; try discriminate.
    apply (IH s1 s'); [|intros j I; apply A; right; exact I | exact H].
    apply (step_nonneg fuel s x s1 N); [|exact D]. intros j ->. apply A. left. reflexivity.
Qed.

Lemma contrib_nonneg k qs a r e : rq_nonneg (e_charge e) = true -> 0 <= contrib k qs a r e.
Proof.
  intro N. unfold contrib. destruct (in_subtree qs a (e_queue e) && (negb k || negb (e_preempt e))); [|lra].
  apply rq_nonneg_spec. exact N.
Qed.

Lemma val_charged k qs led q r :
  wf_forest qs = true -> exact qs led -> In q qs ->
  val k qs (q_id q) r == charged k qs led (q_id q) r.
Proof.
  intros W E I. unfold val. rewrite (wf_find _ _ W I). apply E. exact I.
Qed.

(** one decision from a consistent state *)
Lemma step_raise_within k fuel s0 s x s' :
  inv s0 s -> ledger_nonneg s = true ->
  (forall j, x = AdmitJob j -> wf_job j = true) ->
  (forall j, x = AdmitJob j -> covered j = true) ->
  do_step fuel s x = Done s' ->
  raise_within k s s'.
Proof.
  intros I N WJ CV H. pose proof (step_inv _ _ _ _ _ I H) as I'.
  destruct I as [W E S]. destruct I' as [W' E' S'].
  assert (map skel (s_queues s') = map skel (s_queues s)) as SK by congruence.
  intros q Iq r NU R.
  pose proof (wf_find _ _ W Iq) as F.
  pose proof (find_skel _ _ (q_id q) SK) as FS. rewrite F in FS.
  destruct (find_queue (s_queues s') (q_id q)) as [q'|] eqn:F'; [|contradiction].
  destruct (find_queue_some _ _ _ F') as [Eid Iq'].
  assert (val k (s_queues s) (q_id q) r == charged k (s_queues s) (s_ledger s) (q_id q) r) as V
    by (apply val_charged; assumption).
  assert (val k (s_queues s') (q_id q) r == charged k (s_queues s') (s_ledger s') (q_id q) r) as V'
    by (rewrite <- Eid; apply val_charged; assumption).
  rewrite <- V in R. rewrite <- V' in R |- *. clear V V'.
  destruct x as [j | tid]; cbn [do_step] in H.
  - destruct (admit_job fuel (s_queues s) j) as [[qs es|v]| |] eqn:A; try discriminate; injection H as <-.
    + cbn [s_queues] in *. specialize (CV j eq_refl). unfold covered in CV.
      apply orb_prop in CV. destruct CV as [JC | NC].
      * eapply job_covered_within; eauto.
      * eapply node_covered_within; eauto.
    + exfalso. clear - R. lra.
  - destruct (take_entry tid (s_ledger s)) as [[e rest]|] eqn:T.
    + destruct (dealloc_handler fuel (s_queues s) (e_queue e) (e_preempt e) (e_charge e)) as [qs| |] eqn:D;
        try discriminate.
      injection H as <-. cbn [s_queues s_ledger] in *. exfalso.
      destruct (handler_spec _ _ _ _ _ _ _ D) as (l & C & ->).
      rewrite (val_sel k false _ l _ _ _ r q F) in R. cbn [signed] in R.
      assert (0 <= rget (e_charge e) r) as P.
      { apply rq_nonneg_spec. apply (forallb_in _ _ N). destruct (take_entry_in _ _ _ _ T) as [Ie _]. exact Ie. }
      destruct (mem (q_id q) l && active k (e_preempt e)); clear - R P; lra.
    + injection H as <-. exfalso. clear - R. lra.
Qed.

(** (2), (3) under the hypothesis that the deciding job is covered *)
Theorem C08_covered : forall k, C08_statement_covered k.
Proof.
  intros k fuel s0 s s' pre x W E N WJ CV R H.
  assert (inv s0 s0) as I0 by (constructor; [exact W | apply counters_exact_iff; exact E | reflexivity]).
  pose proof (run_inv _ _ _ _ _ I0 R) as I.
  assert (ledger_nonneg s = true) as Ns.
  { apply (run_nonneg fuel pre s0 s N); [|exact R]. intros j Ij. apply WJ. apply in_or_app. left. exact Ij. }
  apply (step_raise_within k fuel s0 s x s' I Ns); [| |exact H].
  - intros j ->. apply WJ. apply in_or_app. right. left. reflexivity.
  - intros j ->. apply CV. left. reflexivity.
Qed.

(** * Statement.Commit: a failing Cache.Bind is a release of that one task *)

Lemma run_app fuel : forall xs ys s,
  run fuel s (xs ++ ys) =
  match run fuel s xs with Done s1 => run fuel s1 ys | OutOfFuel => OutOfFuel | Panic => Panic end.
Proof.
  induction xs as [|x xs IH]; intros ys s; cbn [app run]; [reflexivity|].
  destruct (do_step fuel s x) as [s1| |]; [apply IH | reflexivity | reflexivity].
Qed.

Lemma do_event_steps fuel s e : do_event fuel s e = run fuel s (steps_of_event e).
Proof.
  destruct e as [x | | tid]; cbn [do_event steps_of_event run]; [|reflexivity|].
  - destruct (do_step fuel s x); reflexivity.
  - destruct (do_step fuel s (Release tid)); reflexivity.
Qed.

Theorem bind_fail_is_release :
  forall (fuel : nat) (s : state) (tid : positive),
    do_event fuel s (BindFail tid) = do_step fuel s (Release tid).
Proof. reflexivity. Qed.

Theorem run_events_steps :
  forall (fuel : nat) (es : list event) (s : state),
    run_events fuel s es = run fuel s (steps_of es).
Proof.
  intros fuel. induction es as [|e es IH]; intros s; [reflexivity|].
  cbn [run_events]. unfold steps_of. cbn [flat_map]. rewrite run_app, <- do_event_steps.
  destruct (do_event fuel s e) as [s1| |]; [apply IH | reflexivity | reflexivity].
Qed.

Lemma steps_of_app es fs : steps_of (es ++ fs) = steps_of es ++ steps_of fs.
Proof. unfold steps_of. apply flat_map_app. Qed.

(** (1) along event lists: commits, failed or not, keep the counters exact *)
Theorem events_counters_exact :
  forall (fuel : nat) (s0 s : state) (es : list event),
    wf_forest (s_queues s0) = true -> counters_exact s0 ->
    run_events fuel s0 es = Done s -> counters_exact s.
Proof.
  intros fuel s0 s es W E H. rewrite run_events_steps in H.
  exact (queue_counters_exact fuel s0 s (steps_of es) W E H).
Qed.

Lemma raise_within_refl k s : raise_within k s s.
Proof. intros q _ r _ R. exfalso. exact (Qlt_irrefl _ R). Qed.

(** (2), (3) along event lists, for covered deciding jobs *)
Theorem events_covered :
  forall (k : bool) (fuel : nat) (s0 s s' : state) (pre : list event) (e : event),
    wf_forest (s_queues s0) = true -> counters_exact s0 -> ledger_nonneg s0 = true ->
    accepts_ok wf_job (steps_of (pre ++ [e])) -> accepts_ok covered (steps_of [e]) ->
    run_events fuel s0 pre = Done s -> do_event fuel s e = Done s' ->
    raise_within k s s'.
Proof.
  intros k fuel s0 s s' pre e W E N WJ CV R H.
  rewrite run_events_steps in R. rewrite steps_of_app in WJ.
  unfold steps_of in WJ at 2. unfold steps_of in CV. cbn [flat_map] in WJ, CV. rewrite app_nil_r in WJ, CV.
  rewrite do_event_steps in H.
  destruct (steps_of_event e) as [|x [|y l]] eqn:SE.
  - cbn [run] in H. injection H as <-. apply raise_within_refl.
  - cbn [run] in H. destruct (do_step fuel s x) as [s1| |] eqn:D; try discriminate. injection H as <-.
    exact (C08_covered k fuel s0 s s1 (steps_of pre) x W E N WJ CV R D).
  - destruct e; discriminate SE.
Qed.

Lemma take_entry_keeps tid : forall led e rest, take_entry tid led = Some (e, rest) ->
  e_task e = tid /\ forall x, In x led -> e_task x <> tid -> In x rest.
Proof.
  induction led as [|y led IH]; intros e rest H; [discriminate|].
  cbn in H. destruct (Pos.eqb (e_task y) tid) eqn:Q.
  - injection H as <- <-. apply Pos.eqb_eq in Q. split; [exact Q|].
    intros x [<- | I] NE; [contradiction | exact I].
  - destruct (take_entry tid led) as [[z r']|] eqn:T; [|discriminate].
    injection H as <- <-. destruct (IH _ _ eq_refl) as [Et K]. split; [exact Et|].
    intros x [<- | I] NE; [left; reflexivity | right; apply K; assumption].
Qed.

Lemma take_entry_none tid : forall led, take_entry tid led = None -> forall x, In x led -> e_task x <> tid.
Proof.
  induction led as [|y led IH]; intros H x I; [destruct I|].
  cbn in H. destruct (Pos.eqb (e_task y) tid) eqn:Q; [discriminate|].
  destruct (take_entry tid led) as [[z r']|] eqn:T; [discriminate|].
  destruct I as [<- | I]; [apply Pos.eqb_neq; exact Q | apply IH; [reflexivity | exact I]].
Qed.

(** a release never raises the amount charged to any queue, in either counter *)
Lemma release_no_raise k fuel s0 s tid s' :
  inv s0 s -> ledger_nonneg s = true -> do_step fuel s (Release tid) = Done s' ->
  forall q, In q (s_queues s) -> forall r,
    charged k (s_queues s') (s_ledger s') (q_id q) r <= charged k (s_queues s) (s_ledger s) (q_id q) r.
Proof.
  intros I N H. pose proof (step_inv _ _ _ _ _ I H) as I'.
  destruct I as [W E S]. destruct I' as [W' E' S'].
  assert (map skel (s_queues s') = map skel (s_queues s)) as SK by congruence.
  intros q Iq r.
  pose proof (wf_find _ _ W Iq) as F.
  pose proof (find_skel _ _ (q_id q) SK) as FS. rewrite F in FS.
  destruct (find_queue (s_queues s') (q_id q)) as [q'|] eqn:F'; [|contradiction].
  destruct (find_queue_some _ _ _ F') as [Eid Iq'].
  assert (val k (s_queues s) (q_id q) r == charged k (s_queues s) (s_ledger s) (q_id q) r) as V
    by (apply val_charged; assumption).
  assert (val k (s_queues s') (q_id q) r == charged k (s_queues s') (s_ledger s') (q_id q) r) as V'
    by (rewrite <- Eid; apply val_charged; assumption).
  rewrite <- V, <- V'. clear V V'. cbn [do_step] in H.
  destruct (take_entry tid (s_ledger s)) as [[e rest]|] eqn:T.
  - destruct (dealloc_handler fuel (s_queues s) (e_queue e) (e_preempt e) (e_charge e)) as [qs| |] eqn:D;
      try discriminate.
    injection H as <-. cbn [s_queues s_ledger] in *.
    destruct (handler_spec _ _ _ _ _ _ _ D) as (l & C & ->).
    rewrite (val_sel k false _ l _ _ _ r q F). cbn [signed].
    assert (0 <= rget (e_charge e) r) as P.
    { apply rq_nonneg_spec. apply (forallb_in _ _ N). destruct (take_entry_in _ _ _ _ T) as [Ie _]. exact Ie. }
    destruct (mem (q_id q) l && active k (e_preempt e)); clear - P; lra.
  - injection H as <-. apply Qle_refl.
Qed.

(** what a failed bind inside Commit does to the bookkeeping, after any history
    of decisions and commits: the counters stay exact, charges stay
    non-negative, no queue's charged amount (total or non-preemptible) goes
    up, the failing task is no longer charged, and every other charged task --
    bound before the failure or left allocated after it -- stays charged. *)
Theorem bind_failure_preserves :
  forall (fuel : nat) (s0 s s' : state) (pre : list event) (tid : positive),
    wf_forest (s_queues s0) = true -> counters_exact s0 -> ledger_nonneg s0 = true ->
    accepts_ok wf_job (steps_of pre) ->
    run_events fuel s0 pre = Done s -> do_event fuel s (BindFail tid) = Done s' ->
    wf_forest (s_queues s') = true /\ counters_exact s' /\ ledger_nonneg s' = true /\
    (forall k q, In q (s_queues s) -> forall r,
       charged k (s_queues s') (s_ledger s') (q_id q) r <= charged k (s_queues s) (s_ledger s) (q_id q) r) /\
    (forall x, In x (s_ledger s) -> e_task x <> tid -> In x (s_ledger s')) /\
    (forall x, In x (s_ledger s') -> In x (s_ledger s)) /\
    (NoDup (map e_task (s_ledger s)) -> forall x, In x (s_ledger s') -> e_task x <> tid).
Proof.
  intros fuel s0 s s' pre tid W E N WJ R H.
  rewrite run_events_steps in R. cbn [do_event] in H.
  assert (inv s0 s0) as I0 by (constructor; [exact W | apply counters_exact_iff; exact E | reflexivity]).
  pose proof (run_inv _ _ _ _ _ I0 R) as I.
  pose proof (run_nonneg fuel (steps_of pre) s0 s N WJ R) as Ns.
  pose proof (step_inv _ _ _ _ _ I H) as I'.
  split; [exact (inv_wf _ _ I')|].
  split; [apply counters_exact_iff; exact (inv_exact _ _ I')|].
  split; [apply (step_nonneg fuel s (Release tid) s' Ns); [intros j Q; discriminate Q | exact H]|].
  split; [intros k q Iq r; exact (release_no_raise k fuel s0 s tid s' I Ns H q Iq r)|].
  cbn [do_step] in H.
  destruct (take_entry tid (s_ledger s)) as [[e rest]|] eqn:T.
  - destruct (dealloc_handler fuel (s_queues s) (e_queue e) (e_preempt e) (e_charge e)) as [qs| |];
      try discriminate.
    injection H as <-. cbn [s_ledger].
    destruct (take_entry_keeps _ _ _ _ T) as [Et K]. destruct (take_entry_in _ _ _ _ T) as [Ie Sub].
    split; [exact K|]. split; [exact Sub|].
    intros ND x Ix Q.
    (* e and x would be two ledger entries with the same task id *)
    clear - T ND Ix Q Et. revert e rest T ND x Ix Q Et.
    induction (s_ledger s) as [|y led IH]; intros e rest T ND x Ix Q Et; [discriminate|].
    cbn in T. destruct (Pos.eqb (e_task y) tid) eqn:B.
    + injection T as <- <-. cbn [map] in ND. apply NoDup_cons_iff in ND. destruct ND as [NI _].
      apply NI. rewrite Et, <- Q. apply in_map. exact Ix.
    + destruct (take_entry tid led) as [[z r']|] eqn:T2; [|discriminate].
      injection T as <- <-. cbn [map] in ND. apply NoDup_cons_iff in ND. destruct ND as [_ ND].
      destruct Ix as [<- | Ix].
      * apply Pos.eqb_neq in B. contradiction.
      * exact (IH _ _ eq_refl ND x Ix Q Et).
  - injection H as <-.
    split; [intros x Ix _; exact Ix|]. split; [intros x Ix; exact Ix|].
    intros _ x Ix. exact (take_entry_none _ _ T x Ix).
Qed.

(** * Fuel: |queues|+1 suffices whenever the walk terminates at all *)

Lemma chain_in f qs id l : chain f qs id = Done l -> forall x, In x l -> In x (map q_id qs).
Proof.
  revert id l. induction f as [|n IH]; intros id l H x I; [discriminate|].
  rewrite chain_unfold in H. destruct (find_queue qs id) as [q|] eqn:F.
  - destruct (chain n qs (q_parent q)) as [l0| |] eqn:E; try discriminate. injection H as <-.
    destruct I as [<- | I]; [|eapply IH; eauto].
    destruct (find_queue_some _ _ _ F) as [<- Iq]. apply in_map. exact Iq.
  - injection H as <-. destruct I.
Qed.

Lemma chain_len f qs id l : chain f qs id = Done l -> chain (S (length l)) qs id = Done l.
Proof.
  revert id l. induction f as [|n IH]; intros id l H; [discriminate|].
  rewrite chain_unfold in H. rewrite chain_unfold. destruct (find_queue qs id) as [q|] eqn:F.
  - destruct (chain n qs (q_parent q)) as [l0| |] eqn:E; try discriminate. injection H as <-.
    cbn [length]. rewrite (IH _ _ E). reflexivity.
  - injection H as <-. reflexivity.
Qed.

Theorem fuel_suffices :
  forall (f : nat) (qs : list queue) (id : positive) (l : list positive),
    chain f qs id = Done l -> chain (default_fuel qs) qs id = Done l.
Proof.
  intros f qs id l H. apply (chain_mono (S (length l))); [|apply chain_len with f; exact H].
  unfold default_fuel. apply le_n_S. rewrite <- (map_length q_id qs).
  apply NoDup_incl_length; [eapply chain_nodup; eauto | intros x I; eapply chain_in; eauto].
Qed.

(** * Which jobs are covered *)

Lemma round_comp x y : x == y -> round_half_away x = round_half_away y.
Proof.
  intro E. unfold round_half_away.
  assert (Qle_bool 0 x = Qle_bool 0 y) as -> by (apply Qleb_comp; [reflexivity | exact E]).
  assert (Qfloor (x + (1 # 2)) = Qfloor (y + (1 # 2))) as -> by (apply Qfloor_comp; rewrite E; reflexivity).
  assert (Qfloor (- x + (1 # 2)) = Qfloor (- y + (1 # 2))) as -> by (apply Qfloor_comp; rewrite E; reflexivity).
  reflexivity.
Qed.

Lemma floor_half K : Qfloor (inject_Z K + (1 # 2)) = K.
Proof.
  unfold Qfloor, Qplus, inject_Z. cbn [Qnum Qden].
  symmetry. apply Z.div_unique with (r := 1%Z); lia.
Qed.

Lemma round_Z K : round_half_away (inject_Z K) = K.
Proof.
  unfold round_half_away. destruct (Qle_bool 0 (inject_Z K)); [apply floor_half|].
  change (- inject_Z K) with (inject_Z (- K)). rewrite floor_half. lia.
Qed.

Lemma round_nonneg x : 0 <= x -> (0 <= round_half_away x)%Z.
Proof.
  intro P. unfold round_half_away.
  assert (Qle_bool 0 x = true) as -> by (apply Qle_bool_iff; exact P).
  change 0%Z with (Qfloor 0). apply Qfloor_resp_le. lra.
Qed.

Lemma inject_nonneg z : (0 <= z)%Z -> 0 <= inject_Z z.
Proof. intro P. change 0 with (inject_Z 0). rewrite <- Zle_Qle. exact P. Qed.

Lemma ext_nonneg p c : 0 <= p -> (0 <= c)%Z -> 0 <= ext_gpus p c.
Proof.
  intros P C. unfold ext_gpus.
  assert (0 <= inject_Z (round_half_away (p * 100) * c)) as I.
  { apply inject_nonneg. apply Z.mul_nonneg_nonneg; [apply round_nonneg; lra | exact C]. }
  unfold Qdiv. apply Qmult_le_0_compat; [exact I | discriminate].
Qed.

Lemma ext_hundredths g N : g == inject_Z N / 100 -> ext_gpus g 1 == g.
Proof.
  intro E. unfold ext_gpus.
  rewrite (round_comp (g * 100) (inject_Z N)) by (rewrite E; field).
  rewrite round_Z, Z.mul_1_r. symmetry. exact E.
Qed.

Lemma with_gpus_le g N :
  g == inject_Z N / 100 -> 0 <= g ->
  ext_gpus (g_portion (with_gpus g)) (g_count (with_gpus g)) <= g.
Proof.
  intros E P. unfold with_gpus. destruct (Qle_bool 1 g) eqn:E1.
  - cbn [g_portion g_count]. unfold ext_gpus, Qtrunc.
    assert (Qle_bool 0 g = true) as -> by (apply Qle_bool_iff; exact P).
    assert (round_half_away (1 * 100) = 100%Z) as -> by (vm_compute; reflexivity).
    rewrite inject_Z_mult. pose proof (Qfloor_le g) as F.
    assert (inject_Z 100 * inject_Z (Qfloor g) / 100 == inject_Z (Qfloor g)) as -> by field.
    exact F.
  - destruct (Qltb 0 g) eqn:E2; cbn [g_portion g_count].
    + rewrite (ext_hundredths g N E). lra.
    + unfold ext_gpus. rewrite Z.mul_0_r. assert (inject_Z 0 / 100 == 0) as -> by reflexivity. exact P.
Qed.

Definition greq_nonneg (g : greq) : Prop :=
  (0 <= g_count g)%Z /\ 0 <= g_portion g /\ (0 <= g_dra g)%Z /\ (0 <= mig_quota (g_mig g))%Z.

(** a task without a gpu-memory request is charged at most what the
    job-level gate summed for it *)
Lemma job_covers_no_gpu_memory t nm :
  (g_memory (t_gpu t) <= 0)%Z -> greq_nonneg (t_gpu t) -> job_covers (t, nm) = true.
Proof.
  intros M (C & P & D & G).
  change (rq_le (charge nm t) (job_task_request t) = true).
  unfold rq_le. cbn [forallb all_resources rget charge job_task_request r_cpu r_mem r_gpu].
  rewrite !andb_true_r. apply andb_true_intro. split; [|apply andb_true_intro; split];
    apply Qle_bool_iff; try apply Qle_refl.
  unfold gpus_quota. rewrite !Qred_correct.
  pose proof (ext_nonneg _ _ P C) as EN. pose proof (inject_nonneg _ D) as DN. pose proof (inject_nonneg _ G) as GN.
  assert ((0 <? g_memory (t_gpu t))%Z = false) as NM by (apply Z.ltb_ge; exact M).
  unfold accepted. destruct (t_type t); cbn [g_mig g_dra g_portion g_count]; change (mig_quota []) with 0%Z.
  - (* Regular *)
    pose proof (with_gpus_le (ext_gpus (g_portion (t_gpu t)) (g_count (t_gpu t)))
                  (round_half_away (g_portion (t_gpu t) * 100) * g_count (t_gpu t))
                  (Qeq_refl _) EN) as W.
    change (inject_Z 0) with 0. lra.
  - (* Fraction *)
    unfold resource_gpu_portion. rewrite NM. change (inject_Z 0) with 0. lra.
  - (* GpuMemory *)
    unfold resource_gpu_portion. rewrite NM. change (inject_Z 0) with 0. lra.
  - (* MigInstance *)
    assert (ext_gpus 0 0 == 0) as -> by reflexivity. change (inject_Z 0) with 0. lra.
Qed.

(** a gpu-memory request on a single device is charged exactly what the
    node-level gate checked for it *)
Lemma node_covers_single_gpu_memory t nm :
  (0 < g_memory (t_gpu t))%Z -> g_count (t_gpu t) = 1%Z -> g_mig (t_gpu t) = [] ->
  t_type t = GpuMemory \/ t_type t = Fraction ->
  node_covers (t, nm) = true.
Proof.
  intros M C G T.
  change (rq_le (charge nm t) (node_task_request nm t) = true).
  unfold rq_le. cbn [forallb all_resources rget charge node_task_request r_cpu r_mem r_gpu].
  rewrite !andb_true_r. apply andb_true_intro. split; [|apply andb_true_intro; split];
    apply Qle_bool_iff; try apply Qle_refl.
  rewrite G. unfold gpus_quota. rewrite Qred_correct.
  assert ((0 <? g_memory (t_gpu t))%Z = true) as PM by (apply Z.ltb_lt; exact M).
  assert (accepted nm t = {| g_count := 1; g_portion := frac_on_node nm (g_memory (t_gpu t));
                             g_memory := g_memory (t_gpu t); g_dra := 0; g_mig := [] |}) as ->.
  { unfold accepted, resource_gpu_portion, resource_gpu_memory. rewrite PM, C. destruct T as [-> | ->]; reflexivity. }
  cbn [g_mig g_dra g_portion g_count]. change (mig_quota []) with 0%Z.
  unfold resource_gpu_memory. rewrite PM.
  rewrite (ext_hundredths _ (Qceiling (inject_Z (g_memory (t_gpu t)) / inject_Z (Z.pos nm) * 100)))
    by (unfold frac_on_node; reflexivity).
  change (inject_Z 0) with 0. lra.
Qed.

Definition no_gpu_memory (tn : task * positive) : Prop :=
  (g_memory (t_gpu (fst tn)) <= 0)%Z /\ greq_nonneg (t_gpu (fst tn)).
Definition single_gpu_memory (tn : task * positive) : Prop :=
  (0 < g_memory (t_gpu (fst tn)))%Z /\ g_count (t_gpu (fst tn)) = 1%Z /\ g_mig (t_gpu (fst tn)) = [] /\
  (t_type (fst tn) = GpuMemory \/ t_type (fst tn) = Fraction).

(** a job none of whose tasks asks for gpu-memory, or all of whose tasks ask
    for gpu-memory on a single device, is covered *)
Theorem covered_sufficient j :
  (forall tn, In tn (j_tasks j) -> no_gpu_memory tn) \/
  (forall tn, In tn (j_tasks j) -> single_gpu_memory tn) ->
  covered j = true.
Proof.
  intros [H | H]; unfold covered; apply orb_true_iff; [left | right]; apply forallb_forall; intros [t nm] I.
  - destruct (H _ I) as [M N]. apply job_covers_no_gpu_memory; assumption.
  - destruct (H _ I) as (M & C & G & T). apply node_covers_single_gpu_memory; assumption.
Qed.

(** * Witnesses *)

Lemma counters_exact_b_true s : counters_exact_b s = true -> counters_exact s.
Proof.
  unfold counters_exact_b, counters_exact. intros H q I r.
  pose proof (forallb_in _ _ H q I) as Hq. cbn beta in Hq.
  pose proof (forallb_res _ Hq r) as Hr. cbn beta in Hr.
  apply andb_prop in Hr. destruct Hr as [A B]. split; apply Qeq_bool_iff; assumption.
Qed.

Definition w_unl : rq := {| r_cpu := -1; r_mem := -1; r_gpu := -1 |}.
Definition w_half : rq := {| r_cpu := -1; r_mem := -1; r_gpu := 1 # 2 |}.
Definition w_top : queue :=
  {| q_id := 1; q_parent := 3; q_limit := w_unl; q_deserved := w_unl; q_alloc := rq_zero; q_np := rq_zero |}.
(** GPU limit 0.5 and deserved GPU quota 0.5 *)
Definition w_leaf : queue :=
  {| q_id := 2; q_parent := 1; q_limit := w_half; q_deserved := w_half; q_alloc := rq_zero; q_np := rq_zero |}.
Definition w_state : state := {| s_queues := [w_top; w_leaf]; s_ledger := [] |}.

(** a gpu-memory request of 50 MiB on each of two devices (node GPUs have 100 MiB) *)
Definition w_task : task :=
  {| t_id := 1; t_type := GpuMemory; t_cpu := 0; t_memory := 0;
     t_gpu := {| g_count := 2; g_portion := 0; g_memory := 50; g_dra := 0; g_mig := [] |} |}.
Definition w_job : job := {| j_queue := 2; j_preempt := false; j_tasks := [(w_task, 100%positive)] |}.

Definition w_after : state :=
  Eval vm_compute in match do_step 3 w_state (AdmitJob w_job) with Done s => s | _ => w_state end.

Lemma w_step : do_step 3 w_state (AdmitJob w_job) = Done w_after.
Proof. vm_compute. reflexivity. Qed.

(** what the two gates looked at, and what was charged *)
Lemma w_quantities :
  rget (job_request (map fst (j_tasks w_job))) GPU == 0 /\
  rget (node_task_request 100 w_task) GPU == 1 # 2 /\
  rget (charge 100 w_task) GPU == 1 /\
  charged false (s_queues w_after) (s_ledger w_after) 2 GPU == 1 /\
  charged true (s_queues w_after) (s_ledger w_after) 2 GPU == 1.
Proof. repeat split; vm_compute; reflexivity. Qed.

(** (2), (3) at full strength do not hold of the code as it is *)
Theorem C08_refuted : forall k, ~ C08_statement k.
Proof.
  intros k H.
  assert (raise_within k w_state w_after) as R.
  { apply (H 3%nat w_state w_state w_after [] (AdmitJob w_job)).
    - vm_compute. reflexivity.
    - apply counters_exact_b_true. vm_compute. reflexivity.
    - reflexivity.
    - intros j [E | []]. injection E as <-. vm_compute. reflexivity.
    - reflexivity.
    - exact w_step. }
  specialize (R w_leaf (or_intror (or_introl eq_refl)) GPU).
  destruct k; vm_compute in R; apply R; try reflexivity; discriminate.
Qed.

(** non-vacuity: a covered job that is accepted and raises the leaf and its
    parent, one that is refused, and a cyclic map on which the walk runs out of fuel *)
Definition ok_task : task :=
  {| t_id := 7; t_type := Fraction; t_cpu := 500; t_memory := 1000000;
     t_gpu := {| g_count := 1; g_portion := 1 # 2; g_memory := 0; g_dra := 0; g_mig := [] |} |}.
Definition ok_job : job := {| j_queue := 2; j_preempt := false; j_tasks := [(ok_task, 100%positive)] |}.
Definition big_task : task :=
  {| t_id := 8; t_type := Regular; t_cpu := 0; t_memory := 0;
     t_gpu := {| g_count := 2; g_portion := 1; g_memory := 0; g_dra := 0; g_mig := [] |} |}.
Definition big_job : job := {| j_queue := 2; j_preempt := true; j_tasks := [(big_task, 100%positive)] |}.
Definition ok_after : state :=
  Eval vm_compute in match do_step 3 w_state (AdmitJob ok_job) with Done s => s | _ => w_state end.
Definition cyclic : list queue :=
  [ {| q_id := 1; q_parent := 2; q_limit := w_unl; q_deserved := w_unl; q_alloc := rq_zero; q_np := rq_zero |};
    {| q_id := 2; q_parent := 1; q_limit := w_unl; q_deserved := w_unl; q_alloc := rq_zero; q_np := rq_zero |} ].

Lemma nonvacuous :
  wf_forest (s_queues w_state) = true /\ counters_exact w_state /\ ledger_nonneg w_state = true /\
  wf_job ok_job = true /\ covered ok_job = true /\ wf_job w_job = true /\ covered w_job = false /\
  do_step 3 w_state (AdmitJob ok_job) = Done ok_after /\
  charged false (s_queues w_state) (s_ledger w_state) 2 GPU < charged false (s_queues ok_after) (s_ledger ok_after) 2 GPU /\
  charged false (s_queues ok_after) (s_ledger ok_after) 2 GPU == 1 # 2 /\
  charged true (s_queues ok_after) (s_ledger ok_after) 1 GPU == 1 # 2 /\
  admit_job 3 (s_queues ok_after) ok_job = Done (Refused (OverLimit 2)) /\
  admit_job 3 (s_queues w_state) big_job = Done (Refused (OverLimit 2)) /\
  run 3 w_state [AdmitJob ok_job; Release 7; AdmitJob ok_job] = Done ok_after /\
  wf_forest cyclic = false /\
  is_job_over_queue_capacity 3 cyclic 1 true [ok_task] = OutOfFuel /\
  alloc_handler 3 (s_queues w_state) 9 true rq_zero = Done (s_queues w_state).
Proof.
  split; [vm_compute; reflexivity|].
  split; [apply counters_exact_b_true; vm_compute; reflexivity|].
  repeat split; try (vm_compute; reflexivity); try (vm_compute; discriminate).
Qed.

(** non-vacuity for the commit events: a two-task job fills the leaf up to its
    limit; the bind of its first task fails; the second task stays charged,
    exactly the failed task's quarter GPU is free again (a quarter fits, a
    half does not), and a successful commit changes nothing *)
Definition q_task (id : positive) : task :=
  {| t_id := id; t_type := Fraction; t_cpu := 0; t_memory := 0;
     t_gpu := {| g_count := 1; g_portion := 1 # 4; g_memory := 0; g_dra := 0; g_mig := [] |} |}.
Definition two_job : job :=
  {| j_queue := 2; j_preempt := true; j_tasks := [(q_task 11, 100%positive); (q_task 12, 100%positive)] |}.
Definition quarter_job : job := {| j_queue := 2; j_preempt := true; j_tasks := [(q_task 13, 100%positive)] |}.
Definition bf_mid : state :=
  Eval vm_compute in match run_events 3 w_state [Decide (AdmitJob two_job); BindFail 11] with Done s => s | _ => w_state end.
Definition bf_end : state :=
  Eval vm_compute in match run_events 3 bf_mid [Decide (AdmitJob quarter_job); CommitOk] with Done s => s | _ => w_state end.

Lemma bind_fail_nonvacuous :
  wf_job two_job = true /\ covered two_job = true /\ wf_job quarter_job = true /\ covered quarter_job = true /\
  run_events 3 w_state [Decide (AdmitJob two_job); BindFail 11] = Done bf_mid /\
  map e_task (s_ledger bf_mid) = [12%positive] /\
  charged false (s_queues bf_mid) (s_ledger bf_mid) 2 GPU == 1 # 4 /\
  charged false (s_queues bf_mid) (s_ledger bf_mid) 1 GPU == 1 # 4 /\
  admit_job 3 (s_queues bf_mid) ok_job = Done (Refused (OverLimit 2)) /\
  run_events 3 bf_mid [Decide (AdmitJob quarter_job); CommitOk] = Done bf_end /\
  map e_task (s_ledger bf_end) = [13%positive; 12%positive] /\
  charged false (s_queues bf_end) (s_ledger bf_end) 2 GPU == 1 # 2 /\
  counters_exact bf_end /\
  do_event 3 bf_end (BindFail 99) = Done bf_end.
Proof.
  assert (counters_exact bf_end) as CE by (apply counters_exact_b_true; vm_compute; reflexivity).
  repeat (split; [vm_compute; reflexivity|]).
  split; [exact CE | vm_compute; reflexivity].
Qed.
