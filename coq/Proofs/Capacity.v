(** Proofs for C08: the usage counters are exact, and accepted decisions keep
    queues (and all ancestors) within limit / non-preemptible within deserved
    quota under the [covered] hypothesis; the unconditional statements are
    refuted by a witness. *)
Set Default Timeout 60.
From Coq Require Import List ZArith QArith Qround Qreduction Bool Lia Lqa.
From KaiV Require Import Model.Capacity Model.CapacitySpec.
Import ListNotations.
Open Scope Q_scope.

(** * Arithmetic helpers *)

Lemma Qltb_true a b : Qltb a b = true <-> a < b.
Proof.
  unfold Qltb. rewrite negb_true_iff. split; intro H.
  - apply Qnot_le_lt. intro L. apply Qle_bool_iff in L. congruence.
  - destruct (Qle_bool b a) eqn:E; [|reflexivity]. apply Qle_bool_iff in E. lra.
Qed.

Lemma Qltb_false a b : Qltb a b = false <-> b <= a.
Proof.
  unfold Qltb. rewrite negb_false_iff. apply Qle_bool_iff.
Qed.

Lemma Qeq_bool_false a b : Qeq_bool a b = false -> ~ a == b.
Proof. intros H E. apply Qeq_bool_iff in E. congruence. Qed.

Lemma rget_add a b r : rget (rq_add a b) r == rget a r + rget b r.
Proof. destruct r; unfold rq_add; cbn [rget r_cpu r_mem r_gpu]; apply Qred_correct. Qed.

Lemma rget_sub a b r : rget (rq_sub a b) r == rget a r - rget b r.
Proof. destruct r; unfold rq_sub; cbn [rget r_cpu r_mem r_gpu]; apply Qred_correct. Qed.

Lemma forallb_res (f : res -> bool) : forallb f all_resources = true -> forall r, f r = true.
Proof.
  cbn. intros H r. repeat (apply andb_prop in H; destruct H as [? H]). destruct r; assumption.
Qed.

Lemma existsb_res_false (f : res -> bool) : existsb f all_resources = false -> forall r, f r = false.
Proof.
  cbn. intros H r. repeat (apply orb_false_elim in H; destruct H as [? H]). destruct r; assumption.
Qed.

Lemma rq_le_spec a b : rq_le a b = true -> forall r, rget a r <= rget b r.
Proof. intros H r. apply Qle_bool_iff. apply (forallb_res _ H r). Qed.

Lemma rq_nonneg_spec x : rq_nonneg x = true -> forall r, 0 <= rget x r.
Proof. intros H r. apply Qle_bool_iff. apply (forallb_res _ H r). Qed.

(** what a passing check says, per resource *)
Lemma exceeds_false cap cnt req :
  exceeds cap cnt req = false ->
  forall r, rget cap r == unlimited \/ rget req r == 0 \/ rget cnt r + rget req r <= rget cap r.
Proof.
  intros H r. pose proof (existsb_res_false _ H r) as E. cbn beta in E.
  destruct (Qeq_bool (rget cap r) unlimited) eqn:E1.
  - left. apply Qeq_bool_iff. exact E1.
  - destruct (Qeq_bool (rget req r) 0) eqn:E2.
    + right; left. apply Qeq_bool_iff. exact E2.
    + right; right. apply Qltb_false. exact E.
Qed.

(** * Queue maps: lookup, skeleton *)

Lemma cons_eq_inv {A} (a b : A) l l' : a :: l = b :: l' -> a = b /\ l = l'.
Proof. intro H. split; congruence. Qed.

Definition skel (q : queue) := (q_id q, q_parent q, q_limit q, q_deserved q).

Definition same_shape (g : queue -> queue) : Prop := forall q, skel (g q) = skel q.

Lemma bump_shape add np c : same_shape (bump add np c).
Proof. intro q. reflexivity. Qed.

Lemma find_queue_some qs id q : find_queue qs id = Some q -> q_id q = id /\ In q qs.
Proof.
  unfold find_queue. intro H. apply find_some in H. destruct H as [I E].
  apply Pos.eqb_eq in E. auto.
Qed.

Lemma find_skel qs qs' id :
  map skel qs = map skel qs' ->
  match find_queue qs id, find_queue qs' id with
  | Some q, Some q' => skel q = skel q'
  | None, None => True
  | _, _ => False
  end.
Proof.
  revert qs'. induction qs as [|a qs IH]; intros [|a' qs'] H; try discriminate; cbn in *.
  - exact I.
  - apply cons_eq_inv in H. destruct H as [Ha Hr]. assert (q_id a = q_id a') as Hid by (unfold skel in Ha; congruence).
    rewrite <- Hid. destruct (Pos.eqb (q_id a) id); [exact Ha | apply IH; exact Hr].
Qed.

Lemma skel_map g qs : same_shape g -> map skel (map g qs) = map skel qs.
Proof. intro G. rewrite map_map. apply map_ext. exact G. Qed.

Lemma skel_length qs qs' : map skel qs = map skel qs' -> length qs = length qs'.
Proof. intro H. rewrite <- (map_length skel qs), H. apply map_length. Qed.

(** selective update along a list of ids *)
Definition sel (l : list positive) (g : queue -> queue) (q : queue) : queue :=
  if mem (q_id q) l then g q else q.

Lemma sel_shape l g : same_shape g -> same_shape (sel l g).
Proof. intros G q. unfold sel. destruct (mem (q_id q) l); [apply G | reflexivity]. Qed.

Lemma update_as_sel qs id g : update qs id g = map (sel [id] g) qs.
Proof.
  unfold update, sel, mem. apply map_ext. intro q. cbn. rewrite orb_false_r. reflexivity.
Qed.

Lemma find_map g qs id :
  same_shape g -> find_queue (map g qs) id = option_map g (find_queue qs id).
Proof.
  intro G. unfold find_queue. induction qs as [|a qs IH]; cbn; [reflexivity|].
  assert (q_id (g a) = q_id a) as -> by (pose proof (G a) as E; unfold skel in E; congruence).
  destruct (Pos.eqb (q_id a) id); [reflexivity | exact IH].
Qed.

(** * The parent chain *)

Lemma chain_skel f qs qs' id : map skel qs = map skel qs' -> chain f qs id = chain f qs' id.
Proof.
  intro H. revert id. induction f as [|n IH]; intro id; cbn; [reflexivity|].
  pose proof (find_skel qs qs' id H) as F.
  destruct (find_queue qs id) as [q|], (find_queue qs' id) as [q'|]; try contradiction; [|reflexivity].
  assert (q_parent q = q_parent q') as -> by (unfold skel in F; congruence).
  rewrite IH. reflexivity.
Qed.

Lemma chain_S f qs id l : chain f qs id = Done l -> chain (S f) qs id = Done l.
Proof.
  revert id l. induction f as [|n IH]; intros id l H; [discriminate|].
  cbn in H. change (chain (S (S n)) qs id) with
    (match find_queue qs id with
     | None => Done []
     | Some q => match chain (S n) qs (q_parent q) with
                 | Done l => Done (id :: l) | OutOfFuel => OutOfFuel | Panic => Panic end
     end).
  destruct (find_queue qs id) as [q|]; [|exact H].
  destruct (chain n qs (q_parent q)) as [l0| |] eqn:E; try discriminate.
  rewrite (IH _ _ E). exact H.
Qed.

Lemma chain_mono f f' qs id l : (f <= f')%nat -> chain f qs id = Done l -> chain f' qs id = Done l.
Proof.
  intros L H. induction L; [exact H | apply chain_S; assumption].
Qed.

Lemma chain_det f1 f2 qs id l1 l2 :
  chain f1 qs id = Done l1 -> chain f2 qs id = Done l2 -> l1 = l2.
Proof.
  intros H1 H2.
  pose proof (chain_mono f1 (Nat.max f1 f2) qs id l1 (Nat.le_max_l _ _) H1) as A.
  pose proof (chain_mono f2 (Nat.max f1 f2) qs id l2 (Nat.le_max_r _ _) H2) as B.
  congruence.
Qed.

Lemma chain_sub f qs id l :
  chain f qs id = Done l -> forall x, In x l -> exists l', chain f qs x = Done l' /\ (length l' <= length l)%nat.
Proof.
  revert id l. induction f as [|n IH]; intros id l H x I; [discriminate|].
  cbn in H. destruct (find_queue qs id) as [q|] eqn:F.
  - destruct (chain n qs (q_parent q)) as [l0| |] eqn:E; try discriminate.
    injection H as <-. destruct I as [<- | I].
    + exists (id :: l0). split; [|lia]. cbn. rewrite F, E. reflexivity.
    + destruct (IH _ _ E x I) as (l' & C & L). exists l'. split; [apply chain_S; exact C | cbn; lia].
  - injection H as <-. destruct I.
Qed.

Lemma chain_nodup f qs id l : chain f qs id = Done l -> NoDup l.
Proof.
  revert id l. induction f as [|n IH]; intros id l H; [discriminate|].
  pose proof H as H0. cbn in H. destruct (find_queue qs id) as [q|] eqn:F.
  - destruct (chain n qs (q_parent q)) as [l0| |] eqn:E; try discriminate.
    injection H as <-. constructor; [|eapply IH; exact E].
    intro I. destruct (chain_sub _ _ _ _ E id I) as (l' & C & L).
    apply chain_S in C. rewrite C in H0. injection H0 as ->. cbn in L. lia.
  - injection H as <-. constructor.
Qed.

Lemma mem_true x l : mem x l = true <-> In x l.
Proof.
  unfold mem. rewrite existsb_exists. split.
  - intros (y & I & E). apply Pos.eqb_eq in E. subst. exact I.
  - intro I. exists x. split; [exact I | apply Pos.eqb_refl].
Qed.

Lemma mem_false x l : mem x l = false <-> ~ In x l.
Proof.
  rewrite <- mem_true. destruct (mem x l); split; intro H; try reflexivity; try discriminate; try congruence;
    exfalso; apply H; reflexivity.
Qed.

(** * Walks *)

Lemma walk_check_none f qs id chk :
  walk_check f qs id chk = Done None ->
  exists l, chain f qs id = Done l /\
            forall x, In x l -> exists q, find_queue qs x = Some q /\ chk q = false.
Proof.
  revert id. induction f as [|n IH]; intros id H; [discriminate|].
  cbn in H. cbn [chain]. destruct (find_queue qs id) as [q|] eqn:F.
  - destruct (chk q) eqn:C; [discriminate|].
    destruct (IH _ H) as (l & E & A). exists (id :: l). rewrite E. split; [reflexivity|].
    intros x [<- | I]; [exists q; auto | apply A; exact I].
  - exists []. split; [reflexivity | intros x []].
Qed.

Lemma walk_update_spec f qs id g :
  same_shape g ->
  forall qs', walk_update f qs id g = Done qs' ->
  exists l, chain f qs id = Done l /\ qs' = map (sel l g) qs.
Proof.
  intro G. revert qs id. induction f as [|n IH]; intros qs id qs' H; [discriminate|].
  cbn in H. pose proof (eq_refl (chain (S n) qs id)) as C0. cbn [chain] in C0 at 2.
  cbn [chain]. destruct (find_queue qs id) as [q|] eqn:F.
  - rewrite update_as_sel in H.
    destruct (IH _ _ _ H) as (l0 & E & ->).
    rewrite (chain_skel n _ qs _ (skel_map _ _ (sel_shape _ _ G))) in E.
    rewrite E in C0 |- *. exists (id :: l0). split; [reflexivity|].
    pose proof (chain_nodup _ _ _ _ C0) as ND. inversion ND as [|? ? NI _]; subst.
    rewrite map_map. apply map_ext. intro a. unfold sel at 1 2 3. unfold mem at 2 3. cbn [existsb].
    rewrite orb_false_r.
    destruct (Pos.eqb (q_id a) id) eqn:Ea.
    + apply Pos.eqb_eq in Ea.
      assert (q_id (g a) = q_id a) as -> by (pose proof (G a) as S; unfold skel in S; congruence).
      rewrite Ea. apply mem_false in NI. unfold mem in NI. rewrite NI. reflexivity.
    + reflexivity.
  - injection H as <-. exists []. split; [reflexivity|].
    symmetry. erewrite map_ext; [apply map_id|]. intro a. reflexivity.
Qed.

(** * Well-formed forests *)

Lemma nodup_ids_skel qs : forall qs' seen, map skel qs = map skel qs' -> nodup_ids seen qs = nodup_ids seen qs'.
Proof.
  induction qs as [|a qs IH]; intros [|a' qs'] seen H; try discriminate; [reflexivity|].
  cbn in H. apply cons_eq_inv in H. destruct H as [Ha Hr]. cbn.
  assert (q_id a = q_id a') as -> by (unfold skel in Ha; congruence).
  rewrite (IH _ _ Hr). reflexivity.
Qed.

Lemma wf_forest_skel qs qs' : map skel qs = map skel qs' -> wf_forest qs = wf_forest qs'.
Proof.
  intro H. unfold wf_forest. rewrite (nodup_ids_skel _ _ _ H). f_equal.
  unfold default_fuel. rewrite (skel_length _ _ H).
  revert qs' H. induction qs as [|a qs IH]; intros [|a' qs'] H; try discriminate; [reflexivity|].
  (* the chain is taken in the full lists; generalise *)
Abort.

Lemma forallb_skel (P P' : queue -> bool) qs :
  forall qs', map skel qs = map skel qs' ->
  (forall q q', skel q = skel q' -> P q = P' q') ->
  forallb P qs = forallb P' qs'.
Proof.
  induction qs as [|a qs IH]; intros [|a' qs'] H E; try discriminate; [reflexivity|].
  cbn in H. apply cons_eq_inv in H. destruct H as [Ha Hr]. cbn. rewrite (E _ _ Ha), (IH _ Hr E). reflexivity.
Qed.

Lemma wf_forest_skel qs qs' : map skel qs = map skel qs' -> wf_forest qs = wf_forest qs'.
Proof.
  intro H. unfold wf_forest. rewrite (nodup_ids_skel _ _ _ H). f_equal.
  unfold default_fuel. rewrite (skel_length _ _ H).
  apply forallb_skel; [exact H|]. intros q q' E.
  assert (q_id q = q_id q') as -> by (unfold skel in E; congruence).
  rewrite (chain_skel _ _ _ _ H). reflexivity.
Qed.

Lemma nodup_ids_spec qs : forall seen, nodup_ids seen qs = true ->
  NoDup (map q_id qs) /\ forall q, In q qs -> ~ In (q_id q) seen.
Proof.
  induction qs as [|a qs IH]; intros seen H; cbn in *.
  - split; [constructor | intros q []].
  - apply andb_prop in H. destruct H as [Ha Hr]. apply negb_true_iff in Ha.
    destruct (IH _ Hr) as [ND NS]. split.
    + constructor; [|exact ND]. intro I. apply in_map_iff in I. destruct I as (q & E & I).
      apply (NS q I). left. congruence.
    + intros q [<- | I].
      * intro S. assert (existsb (Pos.eqb (q_id a)) seen = true) as T.
        { apply existsb_exists. exists (q_id a). split; [exact S | apply Pos.eqb_refl]. }
        congruence.
      * intro S. apply (NS q I). right. exact S.
Qed.

Lemma find_in_nodup qs q : NoDup (map q_id qs) -> In q qs -> find_queue qs (q_id q) = Some q.
Proof.
  unfold find_queue. induction qs as [|a qs IH]; intros ND I; [destruct I|].
  cbn in *. inversion ND as [|? ? NI ND']; subst. destruct I as [-> | I].
  - rewrite Pos.eqb_refl. reflexivity.
  - destruct (Pos.eqb (q_id a) (q_id q)) eqn:E.
    + apply Pos.eqb_eq in E. exfalso. apply NI. rewrite E. apply in_map. exact I.
    + apply IH; assumption.
Qed.

Lemma wf_chain qs : wf_forest qs = true -> forall id, exists l, chain (default_fuel qs) qs id = Done l.
Proof.
  intros W id. unfold wf_forest in W. apply andb_prop in W. destruct W as [_ W].
  destruct (find_queue qs id) as [q|] eqn:F.
  - destruct (find_queue_some _ _ _ F) as [<- I].
    rewrite forallb_forall in W. specialize (W q I).
    destruct (chain (default_fuel qs) qs (q_id q)) as [l| |]; try discriminate. eauto.
  - exists []. unfold default_fuel. cbn. rewrite F. reflexivity.
Qed.

Lemma wf_find qs q : wf_forest qs = true -> In q qs -> find_queue qs (q_id q) = Some q.
Proof.
  intros W I. unfold wf_forest in W. apply andb_prop in W. destruct W as [W _].
  apply find_in_nodup; [apply (nodup_ids_spec _ _ W) | exact I].
Qed.
