(** C08 on clusters that mix GPU models: the node-level gate is a function of
    the candidate node.

    - An allocation attempt ([attempt_job], Model/Capacity.v: per task the
      candidates in the order they are tried, the gate evaluated for EVERY
      candidate with that candidate's GPU memory, then an oracle for what comes
      after the gate on that node) that places every task IS an acceptance of
      [admit_job] for the nodes it chose: the node a task goes to passed its
      own gate.  Every theorem about [admit_job] / [run] therefore holds for
      attempts over arbitrary node lists and oracles.
    - For jobs of single-device gpu-memory requests (whose share of a GPU is
      ceil(100 * memory / MemoryOfEveryGpuOnNode) / 100 of the node they land
      on) and for jobs without gpu-memory requests, an attempt never takes a
      queue or ancestor above its limit / its non-preemptible allocation above
      the deserved quota -- for all queue forests, candidate lists with
      arbitrary per-node GPU memory, oracles, and sequences of attempts and
      releases.
    - Reusing the verdict of the first candidate for the other candidates of
      the attempt ([attempt_job_first_verdict_reused], the variant of
      seeded/C08-4) breaks this: witness = the world of its README. *)
Set Default Timeout 60.
From Coq Require Import List ZArith QArith Qround Qreduction Bool Lia Lqa.
From KaiV Require Import Model.Capacity Model.CapacitySpec Proofs.Capacity.
Import ListNotations.
Open Scope Q_scope.

(** * The candidate chosen passed its own gate *)

Lemma place_task_chosen fuel qs jq pre t :
  forall cs memo vs c,
    place_task_gen false fuel qs jq pre t memo cs = Done (vs, Some c) ->
    In c cs /\ cn_rest c = true /\
    is_task_allocation_on_node_over_capacity fuel qs jq pre t (cn_mem c) = Done Schedulable.
Proof.
  induction cs as [|c0 cs IH]; intros memo vs c H; cbn [place_task_gen] in H.
  - discriminate.
  - destruct (is_task_allocation_on_node_over_capacity fuel qs jq pre t (cn_mem c0)) as [v| |] eqn:G; try discriminate.
    destruct (match v with Schedulable => cn_rest c0 | _ => false end) eqn:B.
    + injection H as _ <-. destruct v; try discriminate. split; [left; reflexivity|]. split; [exact B | exact G].
    + destruct (place_task_gen false fuel qs jq pre t (Some v) cs) as [[vs' o]| |] eqn:P; try discriminate.
      injection H as _ ->. destruct (IH _ _ _ P) as (I & R & S). split; [right; exact I|]. split; assumption.
Qed.

(** * An attempt that places every task is an acceptance of AllocateJob on the nodes chosen *)

Definition node_of (tc : task * cnode) : task * positive := (fst tc, cn_mem (snd tc)).

Definition chosen_from (tc : task * cnode) (tcs : task * list cnode) : Prop :=
  fst tc = fst tcs /\ In (snd tc) (snd tcs) /\ cn_rest (snd tc) = true.

Lemma attempt_tasks_admit fuel jq pre :
  forall ts qs acc chosen trace qs' es wh tr,
    attempt_tasks false fuel qs jq pre ts acc chosen trace = Done (APlaced qs' es wh tr) ->
    exists wh', wh = rev chosen ++ wh' /\ Forall2 chosen_from wh' ts /\
                admit_tasks fuel qs jq pre (map node_of wh') acc = Done (Accepted qs' es).
Proof.
  induction ts as [|[t cs] ts IH]; intros qs acc chosen trace qs' es wh tr H; cbn [attempt_tasks] in H.
  - injection H as <- <- <- _. exists []. rewrite app_nil_r. split; [reflexivity|]. split; [constructor | reflexivity].
  - destruct (place_task_gen false fuel qs jq pre t None cs) as [[vs [c|]]| |] eqn:P; try discriminate.
    destruct (place_task_chosen _ _ _ _ _ _ _ _ _ P) as (I & R & G).
    destruct (alloc_handler fuel qs jq pre (charge (cn_mem c) t)) as [qs1| |] eqn:A; try discriminate.
    destruct (IH _ _ _ _ _ _ _ _ H) as (wh' & EQ & F & AD).
    exists ((t, c) :: wh'). split.
    + rewrite EQ. cbn [rev]. rewrite <- app_assoc. reflexivity.
    + split; [constructor; [repeat split; assumption | exact F]|].
      cbn [map node_of fst snd admit_tasks]. rewrite G, A. exact AD.
Qed.

Lemma chosen_from_fst wh ts : Forall2 chosen_from wh ts -> map fst (map node_of wh) = map fst ts.
Proof.
  induction 1 as [|tc tcs wh ts (E & _) _ IH]; [reflexivity|]. cbn [map node_of fst]. rewrite E, IH. reflexivity.
Qed.

Theorem attempt_is_allocate_job :
  forall (fuel : nat) (qs : list queue) (j : ajob) (qs' : list queue) (es : list entry)
         (wh : list (task * cnode)) (tr : list (list verdict)),
    attempt_job fuel qs j = Done (APlaced qs' es wh tr) ->
    Forall2 chosen_from wh (aj_tasks j) /\
    (forall pipeline_only, allocate_job pipeline_only fuel qs (resolved j wh) = Done (Accepted qs' es)).
Proof.
  intros fuel qs j qs' es wh tr H. unfold attempt_job, attempt_job_gen in H.
  destruct (is_job_over_queue_capacity fuel qs (aj_queue j) (aj_preempt j) (map fst (aj_tasks j))) as [[| |]| |] eqn:G;
    try discriminate.
  destruct (attempt_tasks_admit _ _ _ _ _ _ _ _ _ _ _ _ H) as (wh' & EQ & F & AD). cbn [rev app] in EQ. subst wh'.
  split; [exact F|]. intros po. unfold allocate_job, resolved. cbn [j_queue j_preempt j_tasks].
  change (map (fun tc : task * cnode => (fst tc, cn_mem (snd tc))) wh) with (map node_of wh).
  rewrite (chosen_from_fst _ _ F), G. exact AD.
Qed.

(** * Within the caps *)

(** non-negative requests, whatever candidate is chosen *)
Definition awf_job (j : ajob) : Prop :=
  forall t cs c, In (t, cs) (aj_tasks j) -> In c cs -> wf_task (t, cn_mem c) = true.

(** the jobs covered: no task asks for gpu-memory (whole GPUs and fractions on any number of devices, MIG, DRA,
    CPU-only), or every task asks for gpu-memory on a single device -- on GPUs of any size *)
Definition acovered (j : ajob) : Prop :=
  (forall t cs nm, In (t, cs) (aj_tasks j) -> no_gpu_memory (t, nm)) \/
  (forall t cs nm, In (t, cs) (aj_tasks j) -> single_gpu_memory (t, nm)).

Lemma forall2_in {A B} (P : A -> B -> Prop) l l' : Forall2 P l l' -> forall x, In x l -> exists y, In y l' /\ P x y.
Proof.
  induction 1 as [|a b l l' Pab _ IH]; intros x I; [destruct I|].
  destruct I as [<- | I]; [exists b; split; [left; reflexivity | exact Pab]|].
  destruct (IH x I) as (y & Iy & Py). exists y. split; [right; exact Iy | exact Py].
Qed.

Lemma resolved_wf j wh : awf_job j -> Forall2 chosen_from wh (aj_tasks j) -> wf_job (resolved j wh) = true.
Proof.
  intros W F. unfold wf_job, resolved. cbn [j_tasks]. apply forallb_forall. intros tn I.
  apply in_map_iff in I. destruct I as ([t c] & <- & I). destruct (forall2_in _ _ _ F _ I) as ([t' cs] & I' & E & IC & _).
  cbn [fst snd] in *. subst t'. exact (W _ _ _ I' IC).
Qed.

Lemma resolved_covered j wh : acovered j -> Forall2 chosen_from wh (aj_tasks j) -> covered (resolved j wh) = true.
Proof.
  intros C F. apply covered_sufficient. unfold resolved. cbn [j_tasks].
  destruct C as [C | C]; [left | right]; intros tn I; apply in_map_iff in I; destruct I as ([t c] & <- & I);
    destruct (forall2_in _ _ _ F _ I) as ([t' cs] & I' & E & _); cbn [fst snd] in *; subst t'; exact (C _ _ _ I').
Qed.

(** one attempt, from any consistent state *)
Theorem attempt_within_caps :
  forall (np_only : bool) (fuel : nat) (s : state) (j : ajob) (qs : list queue) (es : list entry)
         (wh : list (task * cnode)) (tr : list (list verdict)),
    wf_forest (s_queues s) = true -> counters_exact s -> ledger_nonneg s = true ->
    awf_job j -> acovered j ->
    attempt_job fuel (s_queues s) j = Done (APlaced qs es wh tr) ->
    raise_within np_only s {| s_queues := qs; s_ledger := es ++ s_ledger s |}.
Proof.
  intros k fuel s j qs es wh tr W E N WJ CV A.
  destruct (attempt_is_allocate_job _ _ _ _ _ _ _ A) as [F AD]. specialize (AD false).
  apply (C08_covered k fuel s s _ [] (AdmitJob (resolved j wh)) W E N).
  - intros j' [I | []]. injection I as <-. apply resolved_wf; assumption.
  - intros j' [I | []]. injection I as <-. apply resolved_covered; assumption.
  - reflexivity.
  - cbn [do_step]. unfold allocate_job in AD. unfold admit_job. rewrite AD. reflexivity.
Qed.

(** sequences: every attempt / release is a (possibly empty) list of steps of [run] *)
Lemma do_astep_resolves fuel s x s' :
  do_astep fuel s x = Done s' ->
  (forall j, x = AttemptJob j -> awf_job j) ->
  exists ys, run fuel s ys = Done s' /\ (length ys <= 1)%nat /\ accepts_ok wf_job ys /\
             ((forall j, x = AttemptJob j -> acovered j) -> accepts_ok covered ys).
Proof.
  intros H WJ. destruct x as [j | tid]; unfold do_astep in H; cbn [do_astep_gen] in H.
  - destruct (attempt_job_gen false fuel (s_queues s) j) as [[qs es wh tr | v | t]| |] eqn:A; try discriminate.
    + injection H as <-. destruct (attempt_is_allocate_job _ _ _ _ _ _ _ A) as [F AD]. specialize (AD false).
      exists [AdmitJob (resolved j wh)]. split.
      * cbn [run do_step]. unfold allocate_job in AD. unfold admit_job. rewrite AD. reflexivity.
      * split; [cbn; lia|]. split.
        -- intros j' [I | []]. injection I as <-. apply resolved_wf; [apply WJ; reflexivity | exact F].
        -- intros CV j' [I | []]. injection I as <-. apply resolved_covered; [apply CV; reflexivity | exact F].
    + injection H as <-. exists []. split; [reflexivity|]. split; [cbn; lia|]. split; [intros j' []|]. intros _ j' [].
    + injection H as <-. exists []. split; [reflexivity|]. split; [cbn; lia|]. split; [intros j' []|]. intros _ j' [].
  - exists [Release tid]. split; [cbn [run]; rewrite H; reflexivity|]. split; [cbn; lia|].
    split; [intros j' [I | []]; discriminate|]. intros _ j' [I | []]; discriminate.
Qed.

Lemma arun_resolves fuel : forall xs s s',
  arun fuel s xs = Done s' ->
  (forall j, In (AttemptJob j) xs -> awf_job j) ->
  exists ys, run fuel s ys = Done s' /\ accepts_ok wf_job ys.
Proof.
  induction xs as [|x xs IH]; intros s s' H WJ; unfold arun in H; cbn [arun_gen] in H.
  - injection H as <-. exists []. split; [reflexivity | intros j []].
  - destruct (do_astep_gen false fuel s x) as [s1| |] eqn:D; try discriminate.
    destruct (do_astep_resolves fuel s x s1 D) as (y1 & R1 & _ & W1 & _).
    { intros j ->. apply WJ. left. reflexivity. }
    destruct (IH s1 s' H) as (y2 & R2 & W2).
    { intros j I. apply WJ. right. exact I. }
    exists (y1 ++ y2). split; [rewrite run_app, R1; exact R2|].
    intros j I. apply in_app_or in I. destruct I as [I | I]; [apply W1 | apply W2]; exact I.
Qed.

(** (2), (3) along every sequence of attempts and releases, over arbitrary
    candidate lists and oracles: a step that raises the amount charged to a
    queue (total, resp. non-preemptible) leaves it within the limit (resp. the
    deserved quota), at every level, when the deciding job is covered *)
Theorem attempts_limit_quota :
  forall (np_only : bool) (fuel : nat) (s0 s s' : state) (pre : list astep) (x : astep),
    wf_forest (s_queues s0) = true -> counters_exact s0 -> ledger_nonneg s0 = true ->
    (forall j, In (AttemptJob j) (pre ++ [x]) -> awf_job j) ->
    (forall j, x = AttemptJob j -> acovered j) ->
    arun fuel s0 pre = Done s -> do_astep fuel s x = Done s' ->
    raise_within np_only s s'.
Proof.
  intros k fuel s0 s s' pre x W E N WJ CV R H.
  destruct (arun_resolves fuel pre s0 s R) as (ys & RY & WY).
  { intros j I. apply WJ. apply in_or_app. left. exact I. }
  destruct (do_astep_resolves fuel s x s' H) as (zs & RZ & LZ & WZ & CZ).
  { intros j ->. apply WJ. apply in_or_app. right. left. reflexivity. }
  specialize (CZ CV).
  destruct zs as [|z [|z' zs]]; [| |cbn in LZ; lia].
  - cbn in RZ. injection RZ as <-. apply raise_within_refl.
  - cbn [run] in RZ. destruct (do_step fuel s z) as [s1| |] eqn:D; try discriminate. injection RZ as ->.
    apply (C08_covered k fuel s0 s s' ys z W E N); try assumption.
    intros j I. apply in_app_or in I. destruct I as [I | I]; [apply WY | apply WZ]; exact I.
Qed.

(** * The share of a gpu-memory request shrinks as the GPUs grow *)

Lemma frac_on_node_antitone (nm nm' : positive) (m : Z) :
  (0 <= m)%Z -> (nm <= nm')%positive -> frac_on_node nm' m <= frac_on_node nm m.
Proof.
  intros M L. unfold frac_on_node.
  assert (0 < inject_Z (Z.pos nm)) as P by (unfold Qlt; cbn; lia).
  assert (0 < inject_Z (Z.pos nm')) as P' by (unfold Qlt; cbn; lia).
  assert (inject_Z (Z.pos nm) <= inject_Z (Z.pos nm')) as LE by (unfold Qle; cbn; lia).
  assert (0 <= inject_Z m) as M' by (unfold Qle; cbn; lia).
  assert (~ inject_Z (Z.pos nm) == 0) as NZ by (intro Z0; rewrite Z0 in P; exact (Qlt_irrefl _ P)).
  assert (0 <= inject_Z m / inject_Z (Z.pos nm)) as Q0.
  { apply Qle_shift_div_l; [exact P|]. rewrite Qmult_0_l. exact M'. }
  assert (inject_Z m / inject_Z (Z.pos nm') <= inject_Z m / inject_Z (Z.pos nm)) as D0.
  { apply Qle_shift_div_r; [exact P'|].
    apply Qle_trans with (inject_Z (Z.pos nm) * (inject_Z m / inject_Z (Z.pos nm))).
    - rewrite (Qmult_div_r _ _ NZ). apply Qle_refl.
    - rewrite (Qmult_comm (inject_Z m / inject_Z (Z.pos nm)) (inject_Z (Z.pos nm'))).
      apply Qmult_le_compat_r; [exact LE | exact Q0]. }
  assert (inject_Z m / inject_Z (Z.pos nm') * 100 <= inject_Z m / inject_Z (Z.pos nm) * 100) as D.
  { apply Qmult_le_compat_r; [exact D0 | discriminate]. }
  apply Qmult_le_compat_r; [|discriminate].
  rewrite <- Zle_Qle. apply Qceiling_resp_le. exact D.
Qed.

(** * The variant that reuses the first candidate's verdict (seeded/C08-4): the world of its README

    queue0 (id 1, top level): GPU limit 1, deserved 1.  Node big: GPUs of 500
    (memory units), node small: GPUs of 100.  Two jobs of queue0, one pod each
    asking gpu-memory 60 = 3/25 of a big GPU, 3/5 of a small one, pinned to
    small by node affinity: for both the candidates are [big; small] (bin
    packing tries big first), the oracle refuses big (node affinity) and
    accepts small. *)
Definition rd_unl : rq := {| r_cpu := -1; r_mem := -1; r_gpu := -1 |}.
Definition rd_one : rq := {| r_cpu := -1; r_mem := -1; r_gpu := 1 |}.
Definition rd_queue0 : queue :=
  {| q_id := 1; q_parent := 9; q_limit := rd_one; q_deserved := rd_one; q_alloc := rq_zero; q_np := rq_zero |}.
Definition rd_state : state := {| s_queues := [rd_queue0]; s_ledger := [] |}.
Definition rd_task (id : positive) : task :=
  {| t_id := id; t_type := GpuMemory; t_cpu := 0; t_memory := 0;
     t_gpu := {| g_count := 1; g_portion := 0; g_memory := 60; g_dra := 0; g_mig := [] |} |}.
Definition rd_big : cnode := {| cn_id := 1; cn_mem := 500; cn_rest := false |}.
Definition rd_small : cnode := {| cn_id := 2; cn_mem := 100; cn_rest := true |}.
Definition rd_job (pre : bool) (id : positive) : ajob :=
  {| aj_queue := 1; aj_preempt := pre; aj_tasks := [(rd_task id, [rd_big; rd_small])] |}.

Definition rd_after (reuse pre : bool) (n : nat) : result state :=
  arun_gen reuse 2 rd_state (map (fun i => AttemptJob (rd_job pre (Pos.of_nat i))) (seq 1 n)).

Definition rd_get (r : result state) : state := match r with Done s => s | _ => rd_state end.
Definition rd_one_job_t : state := Eval vm_compute in rd_get (rd_after false true 1).
Definition rd_one_job_f : state := Eval vm_compute in rd_get (rd_after false false 1).
Definition rd_bad_t : state := Eval vm_compute in rd_get (rd_after true true 2).
Definition rd_bad_f : state := Eval vm_compute in rd_get (rd_after true false 2).
Definition rd_one_job (pre : bool) : state := if pre then rd_one_job_t else rd_one_job_f.
Definition rd_bad (pre : bool) : state := if pre then rd_bad_t else rd_bad_f.

Lemma rd_awf pre id : awf_job (rd_job pre id).
Proof.
  intros t cs c [I | []] IC. injection I as <- <-. destruct IC as [<- | [<- | []]]; vm_compute; reflexivity.
Qed.

Lemma rd_acovered pre id : acovered (rd_job pre id).
Proof.
  right. intros t cs nm [I | []]. injection I as <- _. unfold single_gpu_memory. cbn.
  split; [lia|]. split; [reflexivity|]. split; [reflexivity|]. left. reflexivity.
Qed.

Lemma mixed_gpu_models_witness :
  wf_forest (s_queues rd_state) = true /\ counters_exact rd_state /\ ledger_nonneg rd_state = true /\
  (* the shares *)
  rget (node_task_request 500 (rd_task 1)) GPU == 3 # 25 /\ rget (node_task_request 100 (rd_task 1)) GPU == 3 # 5 /\
  rget (charge 100 (rd_task 1)) GPU == 3 # 5 /\ rget (job_task_request (rd_task 1)) GPU == 0 /\
  (forall pre,
     (* the first job is placed on small by both *)
     rd_after false pre 1 = Done (rd_one_job pre) /\ rd_after true pre 1 = Done (rd_one_job pre) /\
     charged false (s_queues (rd_one_job pre)) (s_ledger (rd_one_job pre)) 1 GPU == 3 # 5 /\
     (* the second: big passes its gate (3/5 + 3/25 <= 1), small does not (3/5 + 3/5 > 1) *)
     is_task_allocation_on_node_over_capacity 2 (s_queues (rd_one_job pre)) 1 pre (rd_task 2) 500 = Done Schedulable /\
     is_task_allocation_on_node_over_capacity 2 (s_queues (rd_one_job pre)) 1 pre (rd_task 2) 100
       = Done (OverLimit 1) /\
     (* the code: no node for it, nothing changes *)
     attempt_job 2 (s_queues (rd_one_job pre)) (rd_job pre 2) = Done (ANoNode 2) /\
     rd_after false pre 2 = Done (rd_one_job pre) /\
     (* the first verdict reused: placed on small, 6/5 of a GPU *)
     rd_after true pre 2 = Done (rd_bad pre) /\
     charged false (s_queues (rd_bad pre)) (s_ledger (rd_bad pre)) 1 GPU == 6 # 5) /\
  charged true (s_queues (rd_bad false)) (s_ledger (rd_bad false)) 1 GPU == 6 # 5 /\
  (* with the limit out of the way the deserved quota is what refuses the non-preemptible pod on small *)
  is_task_allocation_on_node_over_capacity 2
    [{| q_id := 1; q_parent := 9; q_limit := rd_unl; q_deserved := rd_one;
        q_alloc := {| r_cpu := 0; r_mem := 0; r_gpu := 3 # 5 |}; q_np := {| r_cpu := 0; r_mem := 0; r_gpu := 3 # 5 |} |}]
    1 false (rd_task 2) 100 = Done (NonPreemptibleOverQuota 1).
Proof.
  split; [vm_compute; reflexivity|].
  split; [apply counters_exact_b_true; vm_compute; reflexivity|].
  split; [vm_compute; reflexivity|].
  split; [vm_compute; reflexivity|]. split; [vm_compute; reflexivity|].
  split; [vm_compute; reflexivity|]. split; [vm_compute; reflexivity|].
  split; [intros [|]; repeat split; vm_compute; reflexivity|].
  split; vm_compute; reflexivity.
Qed.

(** reusing the first candidate's verdict takes queue0 above its limit, and its non-preemptible allocation above
    its deserved quota, by a covered, well-formed job from a consistent state reached by the variant itself *)
Theorem first_node_verdict_reused_refuted :
  forall np_only : bool,
  exists (s s' : state) (j : ajob),
    wf_forest (s_queues s) = true /\ counters_exact s /\ ledger_nonneg s = true /\
    awf_job j /\ acovered j /\
    do_astep_gen true 2 s (AttemptJob j) = Done s' /\
    ~ raise_within np_only s s' /\
    (* the code leaves the state as it is *)
    do_astep 2 s (AttemptJob j) = Done s.
Proof.
  intros k. exists (rd_one_job false), (rd_bad false), (rd_job false 2).
  split; [vm_compute; reflexivity|].
  split; [apply counters_exact_b_true; vm_compute; reflexivity|].
  split; [vm_compute; reflexivity|].
  split; [apply rd_awf|]. split; [apply rd_acovered|].
  split; [vm_compute; reflexivity|].
  split; [|vm_compute; reflexivity].
  intro R. specialize (R (hd rd_queue0 (s_queues (rd_one_job false))) (or_introl eq_refl) GPU).
  destruct k; vm_compute in R; apply R; try reflexivity; discriminate.
Qed.
