(** C13, resource claims - proofs about the claim bookkeeping of Model/SessionClaims.v on the store of
    values (every save and every restore of a pod's ResourceClaimInfo copies), the handlers as they are.

    Contents
      1. sets of pods as strictly sorted lists; the store of values read entry by entry
      2. what one claim looks like ([lview]: the tracker's record and what every pod has recorded for
         it) and what the two handlers do to it; a deallocate / allocate event of a pod acts on the
         claims of the pod, one by one, and leaves every other claim alone
      3. the relation [crel] (same pods, same tracker records, same records of the pods that hold the
         claim) and the invariant [Coh]
      4. every primitive followed, on ANY related state, by its reverse gives a related state
      5. [CLink] / [CHist]: Rollback undoes the entries above the checkpoint, last first, and ends in a
         state related to the one recorded at the checkpoint (the operation-log lemmas of
         Proofs/Session.v are used as they are: the log has the same entry type)
      6. the theorems: rollback / discard / un-evict restore the claims *)
Set Default Timeout 60.
From Coq Require Import List ZArith PArith Bool Arith Lia.
From KaiV Require Import Model.Res Model.Status Model.AMap Model.Node Model.Session Model.SessionClaims Proofs.Session.
Import ListNotations.

(* ------------------------------------------------------------------ Sets *)

Lemma pmem_in p l : pmem p l = true <-> In p l.
Proof.
  unfold pmem. rewrite existsb_exists. split.
  - intros (x & Hx & E). apply Pos.eqb_eq in E. subst x. exact Hx.
  - intros H. exists p. split; [exact H|apply Pos.eqb_refl].
Qed.
Lemma pmem_false p l : pmem p l = false <-> ~ In p l.
Proof.
  split.
  - intros H Hin. apply pmem_in in Hin. congruence.
  - intros H. destruct (pmem p l) eqn:E; [|reflexivity]. apply pmem_in in E. contradiction.
Qed.

Definition lt_all (p : positive) (l : list positive) : Prop := forall x, In x l -> (p < x)%positive.
Lemma ssorted_cons x r : ssorted (x :: r) = true <-> lt_all x r /\ ssorted r = true.
Proof.
  revert x. induction r as [|y t IH]; intros x.
  - cbn. split; [intros _; split; [intros z []|reflexivity]|reflexivity].
  - change (ssorted (x :: y :: t)) with (Pos.ltb x y && ssorted (y :: t)).
    rewrite andb_true_iff, Pos.ltb_lt. split.
    + intros [L S]. split; [|exact S]. intros z [<-|Hz]; [exact L|].
      apply IH in S. destruct S as [Ly _]. specialize (Ly z Hz). lia.
    + intros [L S]. split; [apply L; left; reflexivity|exact S].
Qed.

Lemma prem_notin p l : ~ In p l -> prem p l = l.
Proof.
  induction l as [|x r IH]; intros H; cbn [prem]; [reflexivity|].
  destruct (Pos.eqb_spec p x) as [->|N]; [exfalso; apply H; left; reflexivity|].
  rewrite IH; [reflexivity|]. intros Hin. apply H. right. exact Hin.
Qed.
Lemma pins_in_sorted p l : ssorted l = true -> In p l -> pins p l = l.
Proof.
  induction l as [|x r IH]; intros S H; [destruct H|].
  cbn [pins]. apply ssorted_cons in S. destruct S as [L S].
  destruct H as [->|H].
  - rewrite Pos.compare_refl. reflexivity.
  - specialize (L p H). rewrite (proj2 (Pos.compare_gt_iff p x)) by lia. rewrite (IH S H). reflexivity.
Qed.
Lemma prem_pins p l : ssorted l = true -> ~ In p l -> prem p (pins p l) = l.
Proof.
  induction l as [|x r IH]; intros S H.
  - cbn. rewrite Pos.eqb_refl. reflexivity.
  - cbn [pins]. apply ssorted_cons in S. destruct S as [L S].
    destruct (Pos.compare_spec p x) as [E|Lt|Gt].
    + exfalso. apply H. left. symmetry. exact E.
    + cbn [prem]. rewrite Pos.eqb_refl. reflexivity.
    + cbn [prem]. destruct (Pos.eqb_spec p x) as [E|N]; [lia|].
      rewrite IH; [reflexivity|exact S|]. intros Hin. apply H. right. exact Hin.
Qed.
Lemma pins_prem p l : ssorted l = true -> In p l -> pins p (prem p l) = l.
Proof.
  induction l as [|x r IH]; intros S H; [destruct H|].
  apply ssorted_cons in S. destruct S as [L S]. cbn [prem].
  destruct (Pos.eqb_spec p x) as [->|N].
  - destruct r as [|y t]; [cbn; reflexivity|]. cbn [pins].
    assert (Lxy : (x < y)%positive) by (apply L; left; reflexivity).
    rewrite (proj2 (Pos.compare_lt_iff x y) Lxy). reflexivity.
  - destruct H as [E|H]; [congruence|]. cbn [pins].
    specialize (L p H) as Lp. rewrite (proj2 (Pos.compare_gt_iff p x)) by lia.
    rewrite (IH S H). reflexivity.
Qed.
Lemma in_pins q p l : In q (pins p l) <-> q = p \/ In q l.
Proof.
  induction l as [|x r IH]; cbn [pins].
  - cbn. intuition.
  - destruct (Pos.compare_spec p x) as [E|Lt|Gt].
    + subst x. cbn. intuition.
    + cbn. intuition.
    + cbn [In]. rewrite IH. intuition.
Qed.
Lemma in_prem q p l : In q (prem p l) -> In q l.
Proof.
  induction l as [|x r IH]; cbn [prem]; [intros []|].
  destruct (Pos.eqb p x); [intros H; right; exact H|].
  intros [E|H]; [left; exact E|right; apply IH; exact H].
Qed.
Lemma in_prem_other q p l : q <> p -> In q l -> In q (prem p l).
Proof.
  intros N. induction l as [|x r IH]; cbn [prem]; [intros []|].
  destruct (Pos.eqb_spec p x) as [->|Ne].
  - intros [E|H]; [congruence|exact H].
  - intros [E|H]; [left; exact E|right; apply IH; exact H].
Qed.
Lemma notin_prem_sorted p l : ssorted l = true -> ~ In p (prem p l).
Proof.
  induction l as [|x r IH]; intros S; [intros []|].
  apply ssorted_cons in S. destruct S as [L S]. cbn [prem].
  destruct (Pos.eqb_spec p x) as [->|N].
  - intros H. specialize (L x H). lia.
  - intros [E|H]; [congruence|]. exact (IH S H).
Qed.
Lemma ssorted_pins p l : ssorted l = true -> ssorted (pins p l) = true.
Proof.
  induction l as [|x r IH]; intros S; [reflexivity|].
  cbn [pins]. destruct (Pos.compare_spec p x) as [E|Lt|Gt]; [exact S| |].
  - apply ssorted_cons. split; [|exact S].
    apply ssorted_cons in S. destruct S as [L _].
    intros z [<-|Hz]; [exact Lt|]. specialize (L z Hz). lia.
  - apply ssorted_cons in S. destruct S as [L S]. apply ssorted_cons. split; [|exact (IH S)].
    intros z Hz. apply in_pins in Hz. destruct Hz as [->|Hz]; [exact Gt|exact (L z Hz)].
Qed.
Lemma ssorted_prem p l : ssorted l = true -> ssorted (prem p l) = true.
Proof.
  induction l as [|x r IH]; intros S; [reflexivity|].
  apply ssorted_cons in S. destruct S as [L S]. cbn [prem].
  destruct (Pos.eqb p x); [exact S|].
  apply ssorted_cons. split; [|exact (IH S)].
  intros z Hz. apply L. exact (in_prem _ _ _ Hz).
Qed.

Lemma nodupb_NoDup l : nodupb l = true -> NoDup l.
Proof.
  induction l as [|x r IH]; intros H; [constructor|].
  cbn [nodupb] in H. apply andb_true_iff in H. destruct H as [N R].
  apply negb_true_iff in N. constructor; [apply pmem_false; exact N|exact (IH R)].
Qed.

Lemma alloc_eqb_eq a b : alloc_eqb a b = true -> a = b.
Proof.
  destruct a as [x|], b as [y|]; cbn; try discriminate; [|reflexivity].
  intros H. apply list_pos_eqb_eq in H. congruence.
Qed.
Lemma alloc_eqb_refl a : alloc_eqb a a = true.
Proof. destruct a as [x|]; [apply list_pos_eqb_refl|reflexivity]. Qed.

(* ------------------------------------------------------------------ Store *)

Lemma alookup_aput_present {V} k j (v : V) m :
  alookup j (aput k v m) = if Pos.eqb j k then (match alookup k m with Some _ => Some v | None => None end) else alookup j m.
Proof.
  destruct (Pos.eqb_spec j k) as [->|N].
  - unfold aput. rewrite alookup_aupd_same. destruct (alookup k m); reflexivity.
  - apply alookup_aput_other. exact N.
Qed.

(** the entry of pod [q] for claim [k] after [v_set st p c a] *)
Lemma entry_v_set (st : vstore) p c a q k :
  alookup k (v_map (v_set st p c a) q) =
  if Pos.eqb q p && Pos.eqb k c then (match alookup c (v_map st p) with Some _ => Some a | None => None end)
  else alookup k (v_map st q).
Proof.
  unfold v_map, v_set. destruct (Pos.eqb_spec q p) as [->|N]; cbn [andb].
  - rewrite alookup_aupd_same. destruct (alookup p st) as [m|]; cbn [option_map].
    + rewrite alookup_aput_present. reflexivity.
    + destruct (Pos.eqb k c); reflexivity.
  - rewrite alookup_aupd_other by exact N. reflexivity.
Qed.
Lemma keys_aupd {V} k (f : V -> V) m : map fst (aupd k f m) = map fst m.
Proof.
  induction m as [|[k' v] r IH]; cbn [aupd map fst]; [reflexivity|].
  destruct (Pos.eqb k k'); cbn [map fst]; [reflexivity|]. rewrite IH. reflexivity.
Qed.
Lemma keys_v_set (st : vstore) p c a q : map fst (v_map (v_set st p c a) q) = map fst (v_map st q).
Proof.
  unfold v_map, v_set. destruct (Pos.eqb_spec q p) as [->|N].
  - rewrite alookup_aupd_same. destruct (alookup p st) as [m|]; cbn [option_map]; [|reflexivity].
    unfold aput. apply keys_aupd.
  - rewrite alookup_aupd_other by exact N. reflexivity.
Qed.
(** the entries after the pod's map was put back *)
Lemma v_map_restore (st : vstore) p sv q :
  v_map (aput p sv st) q = if Pos.eqb q p then (match alookup p st with Some _ => sv | None => [] end) else v_map st q.
Proof.
  unfold v_map. rewrite alookup_aput_present. destruct (Pos.eqb q p); [|reflexivity].
  destruct (alookup p st); reflexivity.
Qed.

(* ------------------------------------------------------------------ Local *)

(** * PART 2 - one claim at a time *)
Notation vst := (cst vstore rci).

Definition cl (s : vst) (c : positive) : option (alloc * list positive) := alookup c (c_claims s).
Definition en (s : vst) (q k : positive) : option alloc := alookup k (v_map (c_store s) q).

(** same state as far as the statement machine and the pods are concerned *)
Definition cframe (s s' : vst) : Prop :=
  c_pods s' = c_pods s /\ c_log s' = c_log s /\ c_saved s' = c_saved s /\ c_stuck s' = c_stuck s /\ c_ncalls s' = c_ncalls s
  /\ (forall q, map fst (v_map (c_store s') q) = map fst (v_map (c_store s) q))
  /\ map fst (c_store s') = map fst (c_store s).
Lemma cframe_refl s : cframe s s.
Proof. repeat split. Qed.
Lemma cframe_trans a b c : cframe a b -> cframe b c -> cframe a c.
Proof.
  intros (P1 & L1 & S1 & K1 & N1 & Q1 & D1) (P2 & L2 & S2 & K2 & N2 & Q2 & D2).
  split; [congruence|]. split; [congruence|]. split; [congruence|]. split; [congruence|]. split; [congruence|].
  split; [|congruence]. intros q. rewrite Q2. apply Q1.
Qed.

(** the deallocate handler on one claim *)
Definition dd (p : positive) (v : alloc * list positive) : alloc * list positive :=
  (match prem p (snd v) with [] => None | _ => fst v end, prem p (snd v)).
Definition d_cl (p : positive) (r : option (alloc * list positive)) := option_map (dd p) r.
Definition d_en (p : positive) (r : option (alloc * list positive)) (e : option alloc) : option alloc :=
  match r, e with Some v, Some _ => Some (fst (dd p v)) | _, _ => e end.

(** the allocate handler on one claim, [ans] the allocator's answer if it is asked *)
Definition a_res (v : alloc * list positive) (e : option alloc) (ans : alloc) : alloc :=
  match e with
  | Some (Some ds) => Some ds
  | _ => match fst v with Some ds => Some ds | None => ans end
  end.
Definition a_cl (p : positive) (r : option (alloc * list positive)) (e : option alloc) (ans : alloc) :=
  match r with
  | Some v => match a_res v e ans with Some ds => Some (Some ds, pins p (snd v)) | None => Some v end
  | None => None
  end.
Definition a_en (r : option (alloc * list positive)) (e : option alloc) (ans : alloc) : option alloc :=
  match r, e with
  | Some v, Some _ => match a_res v e ans with Some ds => Some (Some ds) | None => e end
  | _, _ => e
  end.

Section V.
  Variable orc : oracle.
  Notation A := (alloc_claim VS orc).
  Notation D := (dealloc_claim VS false).

  Lemma assume_frame (s : vst) c old new : cframe s (assume s c old new) /\ c_store (assume s c old new) = c_store s
    /\ c_claims (assume s c old new) = aput c new (c_claims s).
  Proof.
    unfold assume. destruct old as [o|], (fst new) as [n|]; cbn; repeat split.
  Qed.

  Lemma D_spec p (s : vst) c :
    cframe s (D p s c)
    /\ (forall k, cl (D p s c) k = if Pos.eqb k c then d_cl p (cl s c) else cl s k)
    /\ (forall q k, en (D p s c) q k = if Pos.eqb q p && Pos.eqb k c then d_en p (cl s c) (en s p c) else en s q k).
  Proof.
    unfold dealloc_claim, cl, en.
    destruct (alookup c (c_claims s)) as [[al rf]|] eqn:E.
    2:{ split; [apply cframe_refl|]. split.
        - intros k. destruct (Pos.eqb_spec k c) as [->|N]; [rewrite E; reflexivity|reflexivity].
        - intros q k. destruct (Pos.eqb_spec q p) as [->|N]; cbn [andb]; [|reflexivity].
          destruct (Pos.eqb_spec k c) as [->|N2]; [|reflexivity]. unfold d_en. reflexivity. }
    set (al' := match prem p rf with [] => None | _ :: _ => al end).
    destruct (assume_frame s c al (al', prem p rf)) as ((P & L & S & K & N & Q & Dm) & St & Cl).
    split; [|split].
    - unfold cframe. cbn [c_pods c_log c_saved c_stuck c_ncalls c_store set_store so_mut VS].
      split; [exact P|]. split; [exact L|]. split; [exact S|]. split; [exact K|]. split; [exact N|]. split.
      + intros q. rewrite keys_v_set. apply Q.
      + unfold v_set. rewrite keys_aupd. exact Dm.
    - intros k. cbn [c_claims set_store]. rewrite Cl, alookup_aput_present, E.
      destruct (Pos.eqb k c); reflexivity.
    - intros q k. cbn [c_store set_store so_mut VS]. rewrite St, entry_v_set.
      destruct (Pos.eqb q p && Pos.eqb k c); [|reflexivity].
      unfold d_en, dd. cbn [fst snd]. destruct (alookup c (v_map (c_store s) p)); reflexivity.
  Qed.

  Lemma A_spec r p nd (s : vst) c :
    exists ans,
      cframe s (A r p nd s c)
      /\ (forall k, cl (A r p nd s c) k = if Pos.eqb k c then a_cl p (cl s c) (en s p c) ans else cl s k)
      /\ (forall q k, en (A r p nd s c) q k = if Pos.eqb q p && Pos.eqb k c then a_en (cl s c) (en s p c) ans else en s q k).
  Proof.
    unfold alloc_claim, cl, en.
    destruct (alookup c (c_claims s)) as [[al rf]|] eqn:E.
    2:{ exists None. split; [apply cframe_refl|]. split.
        - intros k. destruct (Pos.eqb_spec k c) as [->|N]; [rewrite E; reflexivity|reflexivity].
        - intros q k. destruct (Pos.eqb_spec q p) as [->|N]; cbn [andb]; [|reflexivity].
          destruct (Pos.eqb_spec k c) as [->|N2]; [|reflexivity]. reflexivity. }
    cbn [so_map VS].
    exists (orc (c_nalloc s) (c_devs s) nd c).
    set (ans := orc (c_nalloc s) (c_devs s) nd c).
    (* the state after the choice of the allocation: the same but for the counters *)
    set (e := alookup c (v_map (c_store s) p)).
    set (res := a_res (al, rf) e ans).
    assert (Hshape : exists s1 : vst,
      (let '(al1, s1') :=
         match match e with Some (Some ds) => Some ds | _ => None end with
         | Some ds => (Some ds, match al with
                                | Some ds' => if devs_eqb ds ds' then s else set_stale s
                                | None => if r then s else set_stale s
                                end)
         | None => match al with
                   | Some ds => (Some ds, s)
                   | None => (ans, set_nalloc s (S (c_nalloc s)))
                   end
         end in (al1, s1')) = (res, s1)
      /\ c_pods s1 = c_pods s /\ c_log s1 = c_log s /\ c_saved s1 = c_saved s /\ c_stuck s1 = c_stuck s
      /\ c_ncalls s1 = c_ncalls s /\ c_store s1 = c_store s /\ c_claims s1 = c_claims s).
    { unfold res, a_res. cbn [fst].
      destruct e as [[ds|]|].
      - destruct al as [ds'|]; [destruct (devs_eqb ds ds')|destruct r]; eexists; (split; [reflexivity|]); repeat split.
      - destruct al as [ds'|]; eexists; (split; [reflexivity|]); repeat split.
      - destruct al as [ds'|]; eexists; (split; [reflexivity|]); repeat split. }
    destruct Hshape as (s1 & Esh & P1 & L1 & S1 & K1 & N1 & St1 & Cl1).
    fold e.
    destruct (match match e with Some (Some ds) => Some ds | _ => None end with
              | Some ds => _ | None => _ end) as [al1 s1'] eqn:Em.
    cbn in Esh. injection Esh as -> ->.
    destruct res as [ds|] eqn:Eres.
    - destruct (assume_frame s1 c al (Some ds, pins p rf)) as ((P & L & S & K & N & Q & Dm) & St & Cl).
      split; [|split].
      + unfold cframe. cbn [c_pods c_log c_saved c_stuck c_ncalls c_store set_store so_set VS].
        split; [congruence|]. split; [congruence|]. split; [congruence|]. split; [congruence|]. split; [congruence|].
        split.
        * intros q. rewrite keys_v_set, Q, St1. reflexivity.
        * unfold v_set. rewrite keys_aupd, Dm, St1. reflexivity.
      + intros k. cbn [c_claims set_store]. rewrite Cl, alookup_aput_present, Cl1, E.
        destruct (Pos.eqb k c); [|reflexivity]. unfold a_cl. fold res. rewrite Eres. reflexivity.
      + intros q k. cbn [c_store set_store so_set VS]. rewrite St, St1, entry_v_set.
        destruct (Pos.eqb q p && Pos.eqb k c); [|reflexivity].
        unfold a_en. fold e. fold res. rewrite Eres. destruct e; reflexivity.
    - split; [|split].
      + unfold cframe. split; [congruence|]. split; [congruence|]. split; [congruence|]. split; [congruence|]. split; [congruence|].
        split; [intros q|]; rewrite St1; reflexivity.
      + intros k. rewrite Cl1. destruct (Pos.eqb_spec k c) as [->|N]; [|reflexivity].
        rewrite E. unfold a_cl. fold res. rewrite Eres. reflexivity.
      + intros q k. rewrite St1. destruct (Pos.eqb_spec q p) as [->|N]; cbn [andb]; [|reflexivity].
        destruct (Pos.eqb_spec k c) as [->|N2]; [|reflexivity].
        unfold a_en. fold e. fold res. rewrite Eres. destruct e; reflexivity.
  Qed.

  Lemma pmem_cons k c r : pmem k (c :: r) = Pos.eqb k c || pmem k r.
  Proof. reflexivity. Qed.

  Lemma foldD_spec p cls : NoDup cls -> forall s : vst,
    cframe s (fold_left (D p) cls s)
    /\ (forall k, cl (fold_left (D p) cls s) k = if pmem k cls then d_cl p (cl s k) else cl s k)
    /\ (forall q k, en (fold_left (D p) cls s) q k
                    = if Pos.eqb q p && pmem k cls then d_en p (cl s k) (en s p k) else en s q k).
  Proof.
    induction 1 as [|c r Hc Hr IH]; intros s.
    - cbn [fold_left]. split; [apply cframe_refl|]. split; [reflexivity|].
      intros q k. cbn [pmem existsb]. rewrite andb_false_r. reflexivity.
    - cbn [fold_left]. destruct (D_spec p s c) as (F1 & C1 & E1).
      destruct (IH (D p s c)) as (F2 & C2 & E2).
      split; [eapply cframe_trans; eassumption|]. split.
      + intros k. rewrite C2, pmem_cons, C1.
        destruct (Pos.eqb_spec k c) as [->|N]; cbn [orb].
        * rewrite (proj2 (pmem_false c r) Hc). reflexivity.
        * reflexivity.
      + intros q k. rewrite E2, pmem_cons.
        destruct (Pos.eqb_spec k c) as [->|N]; cbn [orb].
        * rewrite (proj2 (pmem_false c r) Hc), andb_false_r, andb_true_r. rewrite E1, Pos.eqb_refl, andb_true_r. reflexivity.
        * rewrite C1, !E1. rewrite (proj2 (Pos.eqb_neq k c) N), !andb_false_r. reflexivity.
  Qed.

  Lemma foldA_spec r0 p nd cls : NoDup cls -> forall s : vst, exists f : positive -> alloc,
    cframe s (fold_left (A r0 p nd) cls s)
    /\ (forall k, cl (fold_left (A r0 p nd) cls s) k = if pmem k cls then a_cl p (cl s k) (en s p k) (f k) else cl s k)
    /\ (forall q k, en (fold_left (A r0 p nd) cls s) q k
                    = if Pos.eqb q p && pmem k cls then a_en (cl s k) (en s p k) (f k) else en s q k).
  Proof.
    induction 1 as [|c r Hc Hr IH]; intros s.
    - exists (fun _ => None). cbn [fold_left]. split; [apply cframe_refl|]. split; [reflexivity|].
      intros q k. cbn [pmem existsb]. rewrite andb_false_r. reflexivity.
    - cbn [fold_left]. destruct (A_spec r0 p nd s c) as (ans & F1 & C1 & E1).
      destruct (IH (A r0 p nd s c)) as (f & F2 & C2 & E2).
      exists (fun k => if Pos.eqb k c then ans else f k).
      split; [eapply cframe_trans; eassumption|]. split.
      + intros k. rewrite C2, pmem_cons, C1, !E1.
        destruct (Pos.eqb_spec k c) as [->|N]; cbn [orb].
        * rewrite (proj2 (pmem_false c r) Hc). reflexivity.
        * rewrite andb_false_r. reflexivity.
      + intros q k. rewrite E2, pmem_cons.
        destruct (Pos.eqb_spec k c) as [->|N]; cbn [orb].
        * rewrite (proj2 (pmem_false c r) Hc), andb_false_r, andb_true_r. rewrite E1, Pos.eqb_refl, andb_true_r. reflexivity.
        * rewrite C1, !E1. rewrite (proj2 (Pos.eqb_neq k c) N), !andb_false_r. reflexivity.
  Qed.
End V.

(* ------------------------------------------------------------------ Events *)

(** * PART 3 - events, pods, relation *)
Definition pd (s : vst) (p : positive) : option SessionClaims.cpod := alookup p (c_pods s).

Section Ev.
  Variable orc : oracle.

  Lemma ev_dealloc_spec (s : vst) p x :
    pd s p = Some x -> NoDup (cp_claims x) ->
    cframe s (ev_cdealloc VS false s p)
    /\ (forall k, cl (ev_cdealloc VS false s p) k = if pmem k (cp_claims x) then d_cl p (cl s k) else cl s k)
    /\ (forall q k, en (ev_cdealloc VS false s p) q k
                    = if Pos.eqb q p && pmem k (cp_claims x) then d_en p (cl s k) (en s p k) else en s q k).
  Proof.
    intros Hp Nd. unfold ev_cdealloc, get_cpod. unfold pd in Hp. rewrite Hp. apply foldD_spec. exact Nd.
  Qed.

  Lemma ev_alloc_spec r (s : vst) p x :
    pd s p = Some x -> NoDup (cp_claims x) -> exists f : positive -> alloc,
    cframe s (ev_calloc VS orc r s p)
    /\ (forall k, cl (ev_calloc VS orc r s p) k = if pmem k (cp_claims x) then a_cl p (cl s k) (en s p k) (f k) else cl s k)
    /\ (forall q k, en (ev_calloc VS orc r s p) q k
                    = if Pos.eqb q p && pmem k (cp_claims x) then a_en (cl s k) (en s p k) (f k) else en s q k).
  Proof.
    intros Hp Nd. unfold ev_calloc, get_cpod. unfold pd in Hp. rewrite Hp. apply foldA_spec. exact Nd.
  Qed.

  Lemma pd_upd (s : vst) p f q : pd (upd_cpod s p f) q = if Pos.eqb q p then option_map f (pd s p) else pd s q.
  Proof.
    unfold pd, upd_cpod. cbn [c_pods set_cpods]. destruct (Pos.eqb_spec q p) as [->|N].
    - apply alookup_aupd_same.
    - apply alookup_aupd_other. exact N.
  Qed.
End Ev.

Definition hold (s : vst) (p c : positive) : Prop :=
  match cl s c with Some (_, rf) => In p rf | None => False end.

Lemma holds_hold s p c : holds s p c = true <-> hold s p c.
Proof.
  unfold holds, hold, cl. destruct (alookup c (c_claims s)) as [[al rf]|]; [apply pmem_in|].
  split; [discriminate|intros []].
Qed.

(** the same pods, the same tracker records, the same records of the pods that hold the claim *)
Definition crel (x a : vst) : Prop :=
  (forall p, pd x p = pd a p)
  /\ (forall c, cl x c = cl a c)
  /\ c_stuck x = c_stuck a
  /\ map fst (c_store x) = map fst (c_store a)
  /\ (forall p c, hold x p c -> en x p c = en a p c).

Lemma crel_refl s : crel s s.
Proof. repeat split; intros; auto. Qed.
Lemma hold_crel x a p c : (forall c, cl x c = cl a c) -> hold x p c <-> hold a p c.
Proof. intros H. unfold hold. rewrite H. reflexivity. Qed.
Lemma crel_sym x a : crel x a -> crel a x.
Proof.
  intros (P & C & K & S & E). split; [intros; symmetry; apply P|]. split; [intros; symmetry; apply C|].
  split; [congruence|]. split; [congruence|].
  intros p c H. symmetry. apply E. apply (hold_crel x a p c C). exact H.
Qed.
Lemma crel_trans x y z : crel x y -> crel y z -> crel x z.
Proof.
  intros (P & C & K & S & E) (P' & C' & K' & S' & E').
  split; [intros; rewrite P; apply P'|]. split; [intros; rewrite C; apply C'|].
  split; [congruence|]. split; [congruence|].
  intros p c H. rewrite (E p c H). apply E'. apply (hold_crel x y p c C). exact H.
Qed.

(** * The invariant *)
Definition Coh (s : vst) : Prop :=
  (forall c al rf, cl s c = Some (al, rf) -> ssorted rf = true /\ (al = None <-> rf = []))
  /\ (forall p x, pd s p = Some x ->
        NoDup (cp_claims x)
        /\ alookup p (c_store s) <> None
        /\ (forall k, hold s p k -> In k (cp_claims x))
        /\ forall c, In c (cp_claims x) -> exists al rf, cl s c = Some (al, rf) /\ (In p rf -> en s p c = Some al)).

Lemma alookup_in {V} k (v : V) m : alookup k m = Some v -> In (k, v) m.
Proof.
  induction m as [|[k' v'] r IH]; cbn [alookup]; [discriminate|].
  destruct (Pos.eqb_spec k k') as [->|N]; [intros H; injection H as ->; left; reflexivity|].
  intros H. right. exact (IH H).
Qed.

(* ------------------------------------------------------------------ LocalRT *)

(** * PART 4 - round trips on one claim *)

(** release then take back from the record *)
Lemma rt_release_take p al rf ds ans :
  ssorted rf = true -> In p rf -> al = Some ds ->
  a_cl p (d_cl p (Some (al, rf))) (Some (Some ds)) ans = Some (al, rf).
Proof.
  intros S H ->. unfold d_cl, a_cl, dd, a_res. cbn [option_map fst snd].
  rewrite (pins_prem p rf S H). reflexivity.
Qed.

(** take then release: the record, if there is one, does not contradict the tracker *)
Definition rec_okP (al : alloc) (e : option alloc) : Prop :=
  match e with Some (Some ds) => al = None \/ al = Some ds | Some None => True | None => False end.
Lemma rt_take_release p al rf e ans :
  ssorted rf = true -> ~ In p rf -> (al = None <-> rf = []) -> rec_okP al e ->
  d_cl p (a_cl p (Some (al, rf)) e ans) = Some (al, rf).
Proof.
  intros S H Iff R. unfold a_cl, a_res. cbn [fst snd].
  assert (Back : forall ds, (al = None \/ al = Some ds) -> d_cl p (Some (Some ds, pins p rf)) = Some (al, rf)).
  { intros ds Hd. unfold d_cl, dd. cbn [option_map fst snd]. rewrite (prem_pins p rf S H).
    destruct rf as [|y t].
    - rewrite (proj2 Iff eq_refl). reflexivity.
    - destruct Hd as [E|E]; [|rewrite E; reflexivity]. apply Iff in E. discriminate. }
  assert (Same : d_cl p (Some (al, rf)) = Some (al, rf)).
  { unfold d_cl, dd. cbn [option_map fst snd]. rewrite (prem_notin p rf H).
    destruct rf as [|y t]; [rewrite (proj2 Iff eq_refl)|]; reflexivity. }
  destruct e as [[ds|]|]; [apply Back; exact R| |destruct R].
  - destruct al as [ds|]; [apply Back; right; reflexivity|].
    destruct ans as [ds|]; [apply Back; left; reflexivity|exact Same].
Qed.

Lemma rec_ok_P (s : vst) c e : rec_ok s c e = true -> rec_okP (claim_alloc s c) e.
Proof.
  unfold rec_ok, rec_okP. destruct e as [[ds|]|]; [|intros _; exact I|discriminate].
  destruct (claim_alloc s c) as [ds'|]; [|intros _; left; reflexivity].
  intros H. apply alloc_eqb_eq in H. right. symmetry. exact H.
Qed.

(* ------------------------------------------------------------------ Link *)

(** * PART 5 - a primitive followed by its reverse, on any related state *)
Lemma keys_lookup_none {V W} k (m : amap V) (m' : amap W) : map fst m = map fst m' -> alookup k m = None -> alookup k m' = None.
Proof.
  revert m'. induction m as [|[k1 v1] r IH]; intros [|[k2 v2] r'] H; cbn [map fst] in H; try discriminate; [reflexivity|].
  injection H as -> H. cbn [alookup]. destruct (Pos.eqb k k2); [discriminate|]. apply IH. exact H.
Qed.

Lemma cl_upd (s : vst) p f c : cl (upd_cpod s p f) c = cl s c.
Proof. reflexivity. Qed.
Lemma en_upd (s : vst) p f q k : en (upd_cpod s p f) q k = en s q k.
Proof. reflexivity. Qed.
Lemma cl_push (s : vst) o sv c : cl (cpush s o sv) c = cl s c.
Proof. reflexivity. Qed.
Lemma crel_push_l (s a : vst) o sv : crel s a -> crel (cpush s o sv) a.
Proof. intros H. exact H. Qed.
Lemma crel_push_r (s a : vst) o sv : crel s a -> crel s (cpush a o sv).
Proof. intros H. exact H. Qed.

(** the entries of [q] after pod [p] was handed the map [sv] *)
Lemma en_restore (a : vst) p sv q k :
  en (set_store a (aput p sv (c_store a))) q k
  = if Pos.eqb q p then (match alookup p (c_store a) with Some _ => alookup k sv | None => None end) else en a q k.
Proof.
  unfold en. cbn [c_store set_store]. rewrite v_map_restore. destruct (Pos.eqb q p); [|reflexivity].
  destruct (alookup p (c_store a)); reflexivity.
Qed.

Lemma with_stat_back x : with_on (cp_on x) (with_stat (cp_stat x) (with_stat Releasing x)) = x.
Proof. destruct x; reflexivity. Qed.

Section Link.
  Variable orc : oracle.
  Notation undo := (cundo_operation VS false orc).

  Definition CAct (L0 : list op) (V0 : list (option rci)) (k : nat) (s a : vst) : Prop :=
    crel s a /\ exists T TV, c_log a = L0 ++ T /\ c_saved a = V0 ++ TV /\ tk (length L0) k T.
  Definition CLink (P : list op) (PV : list (option rci)) (i : nat) (si si1 : vst) : Prop :=
    forall L0 V0 a, LogOK L0 -> length V0 = length L0 -> firstn (S i) L0 = P -> firstn (S i) V0 = PV -> (i < length L0)%nat ->
      CAct L0 V0 (S i) si1 a -> exists a', undo a i = (a', true) /\ CAct L0 V0 i si a'.

  Lemma CLink_pre P PV i t s s1 : crel t s -> CLink P PV i s s1 -> CLink P PV i t s1.
  Proof.
    intros Ht Lk L0 V0 a OK Len Pf Pv Lt Ha. destruct (Lk L0 V0 a OK Len Pf Pv Lt Ha) as (a' & Eu & (Sr & Tl)).
    exists a'. split; [exact Eu|]. split; [eapply crel_trans; eassumption|exact Tl].
  Qed.

  (** one step of undoOperation on a valid index *)
  Lemma cundo_unfold (a : vst) i o :
    op_valid (c_log a) i = Some true -> nth_error (c_log a) i = Some o ->
    undo a i =
      let '(s1, ok) :=
        match o with
        | OEvict p prev nid _ _ =>
            match nth_error (c_saved a) i with
            | Some (Some sv) => (cunevict VS orc a p prev nid sv, true)
            | _ => (set_cstuck a, false)
            end
        | OPipe p prev pn _ _ _ _ =>
            match nth_error (c_saved a) i with
            | Some (Some sv) => cunpipeline VS false a p prev pn sv
            | _ => (set_cstuck a, false)
            end
        | OAlloc c _ _ => cunallocate VS false a (p_id c)
        | OUndo k =>
            match nth_error (c_log a) k with
            | Some (OEvict p _ _ _ _) => cevict VS false a p
            | Some (OPipe p _ _ _ _ next _) => cexec VS false orc (3 + length (c_log a)) a (QPipeline p next None true)
            | Some (OAlloc c next _) => callocate VS orc a (p_id c) next
            | Some (OUndo k') => cexec VS false orc (3 + length (c_log a)) a (QUndo k')
            | None => (set_cstuck a, false)
            end
        end in
      if ok then (cpush s1 (OUndo i) None, true) else (s1, false).
  Proof.
    intros V E. unfold cundo_operation, cfuel_of.
    change (4 + length (c_log a))%nat with (S (3 + length (c_log a))).
    cbn [cexec]. rewrite V, E. reflexivity.
  Qed.

  (** what the acting state holds at an index below the start of the rollback *)
  Lemma act_nth {A} (L0 T : list A) i P e :
    firstn (S i) L0 = P -> nth_error P i = Some e -> nth_error (L0 ++ T) i = Some e.
  Proof.
    intros Pf Pe. rewrite <- Pf in Pe. rewrite la_nth_firstn in Pe.
    destruct (Nat.ltb i (S i)) eqn:E; [|apply Nat.ltb_ge in E; lia].
    rewrite nth_error_app1; [exact Pe|]. apply nth_error_Some. congruence.
  Qed.
  Lemma nth_snoc_len {A} (L : list A) e : nth_error (L ++ [e]) (length L) = Some e.
  Proof. rewrite nth_error_app2 by lia. rewrite Nat.sub_diag. reflexivity. Qed.

  (** ** Evict, then its reverse *)
  Lemma unevict_back (si a : vst) p x nid :
    Coh si -> pd si p = Some x -> cp_node x = Some nid -> pmem nid (cp_on x) = true ->
    (forall c, In c (cp_claims x) -> hold si p c) ->
    crel (ev_cdealloc VS false (upd_cpod si p (with_stat Releasing)) p) a ->
    crel si (cunevict VS orc a p (cp_stat x) nid (v_map (c_store si) p)).
  Proof.
    intros (Ck & Cp) Hp Hn Hon Hh Rel.
    destruct (Cp p x Hp) as (Nd & _ & _ & Hc).
    set (s1 := upd_cpod si p (with_stat Releasing)) in *.
    set (xr := with_stat Releasing x).
    assert (P1 : pd s1 p = Some xr) by (unfold s1; rewrite pd_upd, Pos.eqb_refl, Hp; reflexivity).
    destruct (ev_dealloc_spec s1 p xr P1 Nd) as ((Fp & Fl & Fs & Fk & Fn & Fq & Fd) & C2 & E2).
    set (s2 := ev_cdealloc VS false s1 p) in *.
    destruct Rel as (Rp & Rc & Rk & Rs & Re).
    (* the reverse on [a] *)
    unfold cunevict, get_cpod. fold (pd a p). rewrite <- Rp. unfold pd at 1. rewrite Fp. fold (pd s1 p). rewrite P1.
    cbn [so_restore VS].
    set (g := fun y : SessionClaims.cpod => with_on (if pmem nid (cp_on y) then cp_on y else cp_on y ++ [nid]) (with_stat (cp_stat x) y)).
    set (a1 := upd_cpod a p g).
    set (sv := v_map (c_store si) p).
    set (a2 := set_store a1 (aput p sv (c_store a1))).
    assert (Pa : pd a p = Some xr) by (rewrite <- Rp; unfold pd; rewrite Fp; exact P1).
    assert (Gx : g xr = x).
    { unfold g, xr. cbn [cp_on with_stat]. rewrite Hon. apply with_stat_back. }
    assert (P2 : pd a2 p = Some x).
    { change (pd a2 p) with (pd a1 p). unfold a1. rewrite pd_upd, Pos.eqb_refl, Pa. cbn [option_map]. rewrite Gx. reflexivity. }
    destruct (ev_alloc_spec orc true a2 p x P2 Nd) as (f & (Gp & Gl & Gs & Gk & Gn & Gq & Gd) & C3 & E3).
    set (a' := ev_calloc VS orc true a2 p) in *.
    (* entries of [a2] *)
    assert (E2a : forall q k, en a2 q k = if Pos.eqb q p then (match alookup p (c_store a) with Some _ => alookup k sv | None => None end) else en a q k).
    { intros q k. unfold a2, en. cbn [c_store set_store]. change (c_store a1) with (c_store a).
      rewrite v_map_restore. destruct (Pos.eqb q p); [|reflexivity]. destruct (alookup p (c_store a)); reflexivity. }
    (* p is in the store of [a] exactly when it is in the store of [si] *)
    assert (Dom : alookup p (c_store a) = None <-> alookup p (c_store si) = None).
    { split; intros H.
      - apply (keys_lookup_none p (c_store a) (c_store si)); [|exact H]. rewrite <- Rs. exact Fd.
      - apply (keys_lookup_none p (c_store si) (c_store a)); [|exact H]. rewrite <- Rs. symmetry. exact Fd. }
    assert (Ep : forall k, en a2 p k = en si p k).
    { intros k. rewrite E2a, Pos.eqb_refl. unfold sv, en, v_map.
      destruct (alookup p (c_store a)) eqn:Ea.
      - reflexivity.
      - rewrite (proj1 Dom eq_refl). reflexivity. }
    (* the claims of the pod come back *)
    assert (Ck' : forall k, pmem k (cp_claims x) = true ->
              exists al rf ds, cl si k = Some (al, rf) /\ al = Some ds /\ In p rf /\ ssorted rf = true /\ en si p k = Some al).
    { intros k Hk. apply pmem_in in Hk. destruct (Hc k Hk) as (al & rf & Ecl & Eh).
      specialize (Hh k Hk). unfold hold in Hh. rewrite Ecl in Hh.
      destruct (Ck k al rf Ecl) as (Ss & Iff).
      destruct al as [ds|]; [|exfalso; rewrite (proj1 Iff eq_refl) in Hh; destruct Hh].
      exists (Some ds), rf, ds. specialize (Eh Hh). repeat split; assumption. }
    assert (Cl' : forall k, cl a' k = cl si k).
    { intros k. rewrite C3. change (cl a2 k) with (cl a k). rewrite <- Rc, C2. change (cl s1 k) with (cl si k).
      change (cp_claims xr) with (cp_claims x).
      destruct (pmem k (cp_claims x)) eqn:Hk; [|reflexivity].
      destruct (Ck' k Hk) as (al & rf & ds & Ecl & Eal & Hin & Ss & Een).
      rewrite Ep, Ecl, Een, Eal. apply rt_release_take; [exact Ss|exact Hin|reflexivity]. }
    assert (En' : forall k, en a' p k = en si p k).
    { intros k. rewrite E3, Pos.eqb_refl. cbn [andb]. rewrite Ep.
      destruct (pmem k (cp_claims x)) eqn:Hk; [|reflexivity].
      destruct (Ck' k Hk) as (al & rf & ds & Ecl & Eal & Hin & Ss & Een).
      change (cl a2 k) with (cl a k). rewrite <- Rc, C2. change (cl s1 k) with (cl si k). change (cp_claims xr) with (cp_claims x).
      rewrite Hk, Ecl, Een, Eal. unfold d_cl, a_en, a_res. cbn [option_map]. reflexivity. }
    assert (Eo : forall q k, q <> p -> en a' q k = en a q k /\ en s2 q k = en si q k).
    { intros q k N. split.
      - rewrite E3, (proj2 (Pos.eqb_neq q p) N). cbn [andb]. rewrite E2a, (proj2 (Pos.eqb_neq q p) N). reflexivity.
      - rewrite E2, (proj2 (Pos.eqb_neq q p) N). reflexivity. }
    split; [|split; [|split; [|split]]].
    - intros q. unfold pd. rewrite Gp. fold (pd a2 q). change (pd a2 q) with (pd a1 q). unfold a1. rewrite pd_upd.
      destruct (Pos.eqb_spec q p) as [->|N].
      + rewrite Pa. cbn [option_map]. rewrite Gx. exact Hp.
      + rewrite <- Rp. unfold pd. rewrite Fp. fold (pd s1 q). unfold s1. rewrite pd_upd, (proj2 (Pos.eqb_neq q p) N). reflexivity.
    - intros k. symmetry. apply Cl'.
    - rewrite Gk. change (c_stuck a2) with (c_stuck a). rewrite <- Rk, Fk. reflexivity.
    - rewrite Gd. unfold a2. cbn [c_store set_store]. unfold aput. rewrite keys_aupd. change (c_store a1) with (c_store a).
      rewrite <- Rs, Fd. reflexivity.
    - intros q k Hq. destruct (Pos.eqb_spec q p) as [->|N]; [symmetry; apply En'|].
      destruct (Eo q k N) as (E1 & E4). rewrite E1, <- E4. apply Re.
      unfold hold in *. rewrite C2. change (cl s1 k) with (cl si k). change (cp_claims xr) with (cp_claims x).
      destruct (cl si k) as [[al rf]|]; [|destruct Hq].
      destruct (pmem k (cp_claims x)); cbn [d_cl option_map dd snd]; [|exact Hq].
      apply in_prem_other; assumption.
  Qed.

  (** ** an allocate event, then, on any related state, the deallocate event of the same pod *)
  Lemma take_release (s sA a aD : vst) p r (claims : list positive) xA y :
    (forall c al rf, cl s c = Some (al, rf) -> ssorted rf = true /\ (al = None <-> rf = [])) ->
    NoDup claims ->
    (forall c, In c claims -> exists al rf, cl s c = Some (al, rf) /\ ~ In p rf /\ rec_okP al (en sA p c)) ->
    (forall k, cl sA k = cl s k) -> (forall q k, q <> p -> en sA q k = en s q k) ->
    pd sA p = Some xA -> cp_claims xA = claims ->
    crel (ev_calloc VS orc r sA p) a ->
    (forall k, cl aD k = cl a k) -> (forall q k, q <> p -> en aD q k = en a q k) ->
    pd aD p = Some y -> cp_claims y = claims ->
    (forall k, hold s p k -> en s p k = en aD p k) ->
    cframe aD (ev_cdealloc VS false aD p)
    /\ (forall k, cl (ev_cdealloc VS false aD p) k = cl s k)
    /\ (forall q k, hold s q k -> en s q k = en (ev_cdealloc VS false aD p) q k).
  Proof.
    intros Ck Nd H1 HclA HenA PA CA Rel HclD HenD PD CD Hhp.
    rewrite <- CA in Nd.
    destruct (ev_alloc_spec orc r sA p xA PA Nd) as (f & _ & C1 & E1).
    set (s' := ev_calloc VS orc r sA p) in *.
    rewrite CA in *.
    assert (Nd' : NoDup (cp_claims y)) by (rewrite CD; exact Nd).
    destruct (ev_dealloc_spec aD p y PD Nd') as (Fr & C2 & E2). rewrite CD in *.
    set (a' := ev_cdealloc VS false aD p) in *.
    destruct Rel as (Rp & Rc & Rk & Rs & Re).
    assert (Cl' : forall k, cl a' k = cl s k).
    { intros k. rewrite C2, HclD, <- Rc, C1, HclA.
      destruct (pmem k claims) eqn:Hk; [|reflexivity].
      apply pmem_in in Hk. destruct (H1 k Hk) as (al & rf & Ecl & Nin & Rok).
      rewrite Ecl. destruct (Ck k al rf Ecl) as (Ss & Iff). apply rt_take_release; assumption. }
    split; [exact Fr|]. split; [exact Cl'|].
    - intros q k Hq. rewrite E2. destruct (Pos.eqb_spec q p) as [->|N]; cbn [andb].
      + destruct (pmem k claims) eqn:Hk; [|apply Hhp; exact Hq].
        exfalso. apply pmem_in in Hk. destruct (H1 k Hk) as (al & rf & Ecl & Nin & _).
        unfold hold in Hq. rewrite Ecl in Hq. contradiction.
      + rewrite HenD by exact N. rewrite <- (HenA q k N).
        assert (E3 : en s' q k = en sA q k) by (unfold s'; rewrite E1, (proj2 (Pos.eqb_neq q p) N); reflexivity).
        rewrite <- E3. apply Re. unfold hold in *. rewrite C1, HclA.
        destruct (cl s k) as [[al rf]|] eqn:Ecl; [|destruct Hq].
        destruct (pmem k claims); [|exact Hq].
        unfold a_cl. cbn [snd]. destruct (a_res (al, rf) (en sA p k) (f k)); [|exact Hq].
        apply in_pins. right. exact Hq.
  Qed.

  Lemma prem_app_last h l : ~ In h l -> prem h (l ++ [h]) = l.
  Proof.
    induction l as [|x r IH]; intros H; cbn [app prem].
    - rewrite Pos.eqb_refl. reflexivity.
    - destruct (Pos.eqb_spec h x) as [->|N]; [exfalso; apply H; left; reflexivity|].
      rewrite IH; [reflexivity|]. intros Hin. apply H. right. exact Hin.
  Qed.

  Lemma claim_alloc_cl (s : vst) c al rf : cl s c = Some (al, rf) -> claim_alloc s c = al.
  Proof. unfold cl, claim_alloc. intros ->. reflexivity. Qed.

  (** the premises of [take_release] about the claims of a pod that holds none of them *)
  Lemma free_claims (s : vst) p x (e : positive -> option alloc) :
    Coh s -> pd s p = Some x -> (forall c, In c (cp_claims x) -> ~ hold s p c) ->
    (forall c, In c (cp_claims x) -> rec_okP (claim_alloc s c) (e c)) ->
    forall c, In c (cp_claims x) -> exists al rf, cl s c = Some (al, rf) /\ ~ In p rf /\ rec_okP al (e c).
  Proof.
    intros (_ & Cp) Hp Hn Hr c Hc. destruct (Cp p x Hp) as (_ & _ & _ & Hx). destruct (Hx c Hc) as (al & rf & Ecl & _).
    exists al, rf. split; [exact Ecl|]. split.
    - specialize (Hn c Hc). unfold hold in Hn. rewrite Ecl in Hn. exact Hn.
    - rewrite <- (claim_alloc_cl s c al rf Ecl). apply Hr. exact Hc.
  Qed.

  (** ** Pipeline (a nomination), then its reverse *)
  Lemma unpipeline_back (s a : vst) p x nid :
    Coh s -> pd s p = Some x -> pmem nid (cp_on x) = false ->
    (forall c, In c (cp_claims x) -> ~ hold s p c) ->
    (forall c, In c (cp_claims x) -> rec_okP (claim_alloc s c) (en s p c)) ->
    crel (cpipeline_body VS orc s p x nid) a ->
    exists a', cunpipeline VS false a p (cp_stat x) (cp_node x) (v_map (c_store s) p) = (a', true) /\ crel s a'.
  Proof.
    intros CohS Hp Hon Hn Hr Rel. pose proof CohS as (Ck & Cp). destruct (Cp p x Hp) as (Nd & _).
    unfold cpipeline_body in Rel. cbn [so_save VS] in Rel.
    set (s1 := upd_cpod s p (fun y => with_node (Some nid) (with_stat Pipelined y))) in *.
    change (c_store s1) with (c_store s) in Rel.
    set (sv := v_map (c_store s) p) in *.
    set (sA := upd_cpod (set_store s1 (c_store s)) p
                 (fun y => with_on (if pmem nid (cp_on y) then cp_on y else cp_on y ++ [nid]) y)) in *.
    apply (crel_trans (ev_calloc VS orc false sA p)) in Rel; [|apply crel_sym; apply crel_push_l; apply crel_refl].
    set (xA := with_on (cp_on x ++ [nid]) (with_node (Some nid) (with_stat Pipelined x))).
    assert (PA : pd sA p = Some xA).
    { unfold sA. rewrite pd_upd, Pos.eqb_refl. change (pd (set_store s1 (c_store s)) p) with (pd s1 p).
      unfold s1. rewrite pd_upd, Pos.eqb_refl, Hp. cbn [option_map cp_on with_node with_stat]. rewrite Hon. reflexivity. }
    assert (PAo : forall q, q <> p -> pd sA q = pd s q).
    { intros q N. unfold sA. rewrite pd_upd, (proj2 (Pos.eqb_neq q p) N).
      change (pd (set_store s1 (c_store s)) q) with (pd s1 q). unfold s1. rewrite pd_upd, (proj2 (Pos.eqb_neq q p) N). reflexivity. }
    destruct (ev_alloc_spec orc false sA p xA PA Nd) as (f0 & (Ap & Al & As & Ak & An & Aq & Ad) & _ & _).
    set (s' := ev_calloc VS orc false sA p) in *.
    pose proof Rel as (Rp & Rc & Rk & Rs & Re).
    (* the reverse on [a] *)
    assert (Pa : pd a p = Some xA) by (rewrite <- Rp; unfold pd; rewrite Ap; exact PA).
    unfold cunpipeline, get_cpod. fold (pd a p). rewrite Pa. cbn [so_restore VS cp_node xA with_on with_node].
    set (a1 := upd_cpod a p (fun y => with_node (cp_node x) (with_stat (cp_stat x) y))).
    set (a2 := set_store a1 (aput p sv (c_store a1))).
    set (aD := upd_cpod a2 p (fun y => with_on (prem nid (cp_on y)) y)).
    eexists. split; [reflexivity|].
    assert (Nin : ~ In nid (cp_on x)) by (apply pmem_false; exact Hon).
    assert (PD : pd aD p = Some x).
    { unfold aD. rewrite pd_upd, Pos.eqb_refl. change (pd a2 p) with (pd a1 p). unfold a1. rewrite pd_upd, Pos.eqb_refl, Pa.
      cbn [option_map]. unfold xA. cbn [cp_on with_on with_node with_stat]. rewrite (prem_app_last nid (cp_on x) Nin).
      destruct x; reflexivity. }
    assert (PDo : forall q, q <> p -> pd aD q = pd a q).
    { intros q N. unfold aD. rewrite pd_upd, (proj2 (Pos.eqb_neq q p) N). change (pd a2 q) with (pd a1 q).
      unfold a1. rewrite pd_upd, (proj2 (Pos.eqb_neq q p) N). reflexivity. }
    assert (Dom : alookup p (c_store a) = None <-> alookup p (c_store s) = None).
    { split; intros H.
      - apply (keys_lookup_none p (c_store a) (c_store s)); [|exact H]. rewrite <- Rs. exact Ad.
      - apply (keys_lookup_none p (c_store s) (c_store a)); [|exact H]. rewrite <- Rs. symmetry. exact Ad. }
    assert (EnD : forall q k, en aD q k = if Pos.eqb q p then en s p k else en a q k).
    { intros q k. unfold aD. rewrite en_upd. unfold a2, en. cbn [c_store set_store]. change (c_store a1) with (c_store a).
      rewrite v_map_restore. destruct (Pos.eqb q p); [|reflexivity].
      unfold sv, v_map. destruct (alookup p (c_store a)) eqn:Ea; [reflexivity|].
      rewrite (proj1 Dom eq_refl). reflexivity. }
    destruct (take_release s sA a aD p false (cp_claims x) xA x Ck Nd) as (Fr & Cl' & En').
    - apply (free_claims s p x (fun c => en sA p c) CohS Hp Hn). exact Hr.
    - reflexivity.
    - reflexivity.
    - exact PA.
    - reflexivity.
    - exact Rel.
    - reflexivity.
    - intros q k N. rewrite EnD, (proj2 (Pos.eqb_neq q p) N). reflexivity.
    - exact PD.
    - reflexivity.
    - intros k _. rewrite EnD, Pos.eqb_refl. reflexivity.
    - destruct Fr as (Fp & Fl & Fs & Fk & Fn & Fq & Fd).
      split; [|split; [|split; [|split]]].
      + intros q. unfold pd at 2. rewrite Fp. fold (pd aD q). destruct (Pos.eqb_spec q p) as [->|N].
        * rewrite PD. exact Hp.
        * rewrite (PDo q N), <- Rp. unfold pd. rewrite Ap. fold (pd sA q). rewrite (PAo q N). reflexivity.
      + intros k. symmetry. apply Cl'.
      + rewrite Fk. change (c_stuck aD) with (c_stuck a). rewrite <- Rk, Ak. reflexivity.
      + rewrite Fd. unfold aD, a2. cbn [c_store upd_cpod set_cpods set_store]. unfold aput. rewrite keys_aupd.
        change (c_store a1) with (c_store a). rewrite <- Rs, Ad. reflexivity.
      + exact En'.
  Qed.

  (** ** Allocate, then its reverse *)
  Lemma unallocate_back (s a : vst) p x nid :
    Coh s -> pd s p = Some x -> cp_stat x = Pending -> cp_node x = None -> pmem nid (cp_on x) = false ->
    (forall c, In c (cp_claims x) -> ~ hold s p c) ->
    (forall c, In c (cp_claims x) -> rec_okP (claim_alloc s c) (en s p c)) ->
    crel (fst (callocate VS orc s p nid)) a ->
    exists a', cunallocate VS false a p = (a', true) /\ crel s a'.
  Proof.
    intros CohS Hp Hst Hnd Hon Hn Hr Rel. pose proof CohS as (Ck & Cp). destruct (Cp p x Hp) as (Nd & _).
    unfold callocate, get_cpod in Rel. fold (pd s p) in Rel. rewrite Hp in Rel. cbn [fst] in Rel.
    set (sA := upd_cpod s p (fun y => with_on (if pmem nid (cp_on y) then cp_on y else cp_on y ++ [nid])
                                          (with_node (Some nid) (with_stat Allocated y)))) in *.
    apply (crel_trans (ev_calloc VS orc false sA p)) in Rel; [|apply crel_sym; apply crel_push_l; apply crel_refl].
    set (xA := with_on (cp_on x ++ [nid]) (with_node (Some nid) (with_stat Allocated x))).
    assert (PA : pd sA p = Some xA).
    { unfold sA. rewrite pd_upd, Pos.eqb_refl, Hp. cbn [option_map cp_on with_node with_stat]. rewrite Hon. reflexivity. }
    assert (PAo : forall q, q <> p -> pd sA q = pd s q).
    { intros q N. unfold sA. rewrite pd_upd, (proj2 (Pos.eqb_neq q p) N). reflexivity. }
    destruct (ev_alloc_spec orc false sA p xA PA Nd) as (f0 & (Ap & Al & As & Ak & An & Aq & Ad) & C1 & E1).
    change (cp_claims xA) with (cp_claims x) in C1, E1.
    set (s' := ev_calloc VS orc false sA p) in *.
    pose proof Rel as (Rp & Rc & Rk & Rs & Re).
    assert (Pa : pd a p = Some xA) by (rewrite <- Rp; unfold pd; rewrite Ap; exact PA).
    unfold cunallocate, get_cpod. fold (pd a p). rewrite Pa. cbn [cp_node xA with_on with_node].
    set (aD := upd_cpod a p (fun y => with_on (prem nid (cp_on y)) (with_node None (with_stat Pending y)))).
    eexists. split; [reflexivity|].
    assert (Nin : ~ In nid (cp_on x)) by (apply pmem_false; exact Hon).
    assert (PD : pd aD p = Some x).
    { unfold aD. rewrite pd_upd, Pos.eqb_refl, Pa. cbn [option_map]. unfold xA. cbn [cp_on with_on with_node with_stat].
      rewrite (prem_app_last nid (cp_on x) Nin). destruct x as [cs st nd on]. cbn in Hst, Hnd. subst st nd. reflexivity. }
    assert (PDo : forall q, q <> p -> pd aD q = pd a q).
    { intros q N. unfold aD. rewrite pd_upd, (proj2 (Pos.eqb_neq q p) N). reflexivity. }
    destruct (take_release s sA a aD p false (cp_claims x) xA x Ck Nd) as (Fr & Cl' & En').
    - apply (free_claims s p x (fun c => en sA p c) CohS Hp Hn). exact Hr.
    - reflexivity.
    - reflexivity.
    - exact PA.
    - reflexivity.
    - exact Rel.
    - reflexivity.
    - reflexivity.
    - exact PD.
    - reflexivity.
    - (* a claim the pod holds without referencing it: untouched on both sides *)
      intros k Hk. change (en aD p k) with (en a p k).
      assert (Nk : pmem k (cp_claims x) = false).
      { apply pmem_false. intros Hin. exact (Hn k Hin Hk). }
      assert (E3 : en s' p k = en s p k).
      { unfold s'. rewrite E1, Nk, andb_false_r. reflexivity. }
      rewrite <- E3. apply Re. unfold hold in *. unfold s'. rewrite C1, Nk. exact Hk.
    - destruct Fr as (Fp & Fl & Fs & Fk & Fn & Fq & Fd).
      split; [|split; [|split; [|split]]].
      + intros q. unfold pd at 2. rewrite Fp. fold (pd aD q). destruct (Pos.eqb_spec q p) as [->|N].
        * rewrite PD. exact Hp.
        * rewrite (PDo q N), <- Rp. unfold pd. rewrite Ap. fold (pd sA q). rewrite (PAo q N). reflexivity.
      + intros k. symmetry. apply Cl'.
      + rewrite Fk. change (c_stuck aD) with (c_stuck a). rewrite <- Rk, Ak. reflexivity.
      + rewrite Fd. change (c_store aD) with (c_store a). rewrite <- Rs, Ad. reflexivity.
      + exact En'.
  Qed.

  (** ** an un-eviction, then the eviction again (undoing an undo entry) *)
  Lemma reevict_back (s a : vst) p x prev nid sv :
    Coh s -> pd s p = Some x -> cp_stat x = Releasing -> status_eqb prev Releasing = false ->
    cp_node x = Some nid -> pmem nid (cp_on x) = true ->
    (forall c, In c (cp_claims x) -> ~ hold s p c) ->
    (forall c, In c (cp_claims x) -> rec_okP (claim_alloc s c) (alookup c sv)) ->
    crel (cunevict VS orc s p prev nid sv) a ->
    exists a', cevict VS false a p = (a', true) /\ crel s a'
               /\ exists e ev, c_log a' = c_log a ++ [e] /\ c_saved a' = c_saved a ++ [ev]
                               /\ match e with OEvict _ _ _ _ _ => True | _ => False end.
  Proof.
    intros CohS Hp Hst Hprev Hnd Hon Hn Hr Rel. pose proof CohS as (Ck & Cp). destruct (Cp p x Hp) as (Nd & Hdom & Hown & Hx).
    unfold cunevict, get_cpod in Rel. fold (pd s p) in Rel. rewrite Hp in Rel. cbn [so_restore VS] in Rel. cbv zeta in Rel.
    set (g := fun y : SessionClaims.cpod => with_on (if pmem nid (cp_on y) then cp_on y else cp_on y ++ [nid]) (with_stat prev y)) in *.
    set (s1 := upd_cpod s p g) in *.
    set (sA := set_store s1 (aput p sv (c_store s1))) in *.
    set (xA := with_stat prev x).
    assert (Gx : g x = xA) by (unfold g, xA; rewrite Hon; destruct x; reflexivity).
    assert (PA : pd sA p = Some xA).
    { change (pd sA p) with (pd s1 p). unfold s1. rewrite pd_upd, Pos.eqb_refl, Hp. cbn [option_map]. rewrite Gx. reflexivity. }
    assert (PAo : forall q, q <> p -> pd sA q = pd s q).
    { intros q N. change (pd sA q) with (pd s1 q). unfold s1. rewrite pd_upd, (proj2 (Pos.eqb_neq q p) N). reflexivity. }
    destruct (ev_alloc_spec orc true sA p xA PA Nd) as (f0 & (Ap & Al & As & Ak & An & Aq & Ad) & C1 & E1).
    change (cp_claims xA) with (cp_claims x) in C1, E1.
    set (s' := ev_calloc VS orc true sA p) in *.
    change (crel s' a) in Rel.
    pose proof Rel as (Rp & Rc & Rk & Rs & Re).
    assert (Pa : pd a p = Some xA) by (rewrite <- Rp; unfold pd; rewrite Ap; exact PA).
    unfold cevict, get_cpod. fold (pd a p). rewrite Pa. cbn [cp_node xA with_stat]. rewrite Hnd.
    cbn [cp_stat xA with_stat]. rewrite Hprev.
    unfold cevict_on. cbn [so_save VS].
    set (aD := upd_cpod (set_store a (c_store a)) p (with_stat Releasing)).
    eexists. split; [reflexivity|].
    assert (PD : pd aD p = Some x).
    { unfold aD. rewrite pd_upd, Pos.eqb_refl. change (pd (set_store a (c_store a)) p) with (pd a p). rewrite Pa.
      cbn [option_map]. unfold xA. destruct x as [cs st nd on]. cbn in Hst. subst st. reflexivity. }
    assert (PDo : forall q, q <> p -> pd aD q = pd a q).
    { intros q N. unfold aD. rewrite pd_upd, (proj2 (Pos.eqb_neq q p) N). reflexivity. }
    assert (EnA : forall q k, en sA q k = if Pos.eqb q p then alookup k sv else en s q k).
    { intros q k. unfold sA, en. cbn [c_store set_store]. change (c_store s1) with (c_store s).
      rewrite v_map_restore. destruct (Pos.eqb q p); [|reflexivity]. destruct (alookup p (c_store s)); [reflexivity|congruence]. }
    destruct (take_release s sA a aD p true (cp_claims x) xA x Ck Nd) as (Fr & Cl' & En').
    - intros c Hc. destruct (Hx c Hc) as (al & rf & Ecl & _). exists al, rf. split; [exact Ecl|]. split.
      + specialize (Hn c Hc). unfold hold in Hn. rewrite Ecl in Hn. exact Hn.
      + rewrite EnA, Pos.eqb_refl. specialize (Hr c Hc). rewrite (claim_alloc_cl s c al rf Ecl) in Hr. exact Hr.
    - reflexivity.
    - intros q k N. rewrite EnA, (proj2 (Pos.eqb_neq q p) N). reflexivity.
    - exact PA.
    - reflexivity.
    - exact Rel.
    - reflexivity.
    - reflexivity.
    - exact PD.
    - reflexivity.
    - intros k Hk. exfalso. exact (Hn k (Hown k Hk) Hk).
    - destruct Fr as (Fp & Fl & Fs & Fk & Fn & Fq & Fd).
      split; [|do 2 eexists; split; [|split]].
      + split; [|split; [|split; [|split]]].
        * intros q. unfold pd at 2. cbn [c_pods cpush set_clog]. rewrite Fp. fold (pd aD q). destruct (Pos.eqb_spec q p) as [->|N].
          -- rewrite PD. exact Hp.
          -- rewrite (PDo q N), <- Rp. unfold pd. rewrite Ap. fold (pd sA q). rewrite (PAo q N). reflexivity.
        * intros k. rewrite cl_push. symmetry. apply Cl'.
        * cbn [c_stuck cpush set_clog]. rewrite Fk. change (c_stuck aD) with (c_stuck a). rewrite <- Rk, Ak. reflexivity.
        * cbn [c_store cpush set_clog]. rewrite Fd. change (c_store aD) with (c_store a). rewrite <- Rs, Ad.
          unfold sA. cbn [c_store set_store]. unfold aput. rewrite keys_aupd. reflexivity.
        * exact En'.
      + cbn [c_log cpush set_clog]. rewrite Fl. reflexivity.
      + cbn [c_saved cpush set_clog]. rewrite Fs. reflexivity.
      + exact I.
  Qed.
End Link.

(* ------------------------------------------------------------------ CohP *)

(** * PART 6 - the invariant is kept *)
Section CohP.
  Variable orc : oracle.

  Lemma Coh_frame (s s' : vst) :
    (forall q, pd s' q = pd s q) -> (forall k, cl s' k = cl s k) -> (forall q k, en s' q k = en s q k) ->
    map fst (c_store s') = map fst (c_store s) -> Coh s -> Coh s'.
  Proof.
    intros Hp Hc He Hd (Ck & Cp). split.
    - intros c al rf E. rewrite Hc in E. exact (Ck c al rf E).
    - intros p x E. rewrite Hp in E. destruct (Cp p x E) as (Nd & Dm & Own & Per).
      split; [exact Nd|]. split.
      + intros H. apply Dm. exact (keys_lookup_none p _ _ Hd H).
      + split.
        * intros k Hk. apply Own. unfold hold in *. rewrite Hc in Hk. exact Hk.
        * intros c Hin. destruct (Per c Hin) as (al & rf & Ecl & Een). exists al, rf. rewrite Hc, He. split; assumption.
  Qed.

  (** changing status, node or the nodes holding a copy *)
  Lemma Coh_upd (s : vst) p f : (forall y, cp_claims (f y) = cp_claims y) -> Coh s -> Coh (upd_cpod s p f).
  Proof.
    intros Hf (Ck & Cp). split; [exact Ck|].
    intros q x E. rewrite pd_upd in E. destruct (Pos.eqb_spec q p) as [->|N].
    - destruct (pd s p) as [y|] eqn:Ey; [|discriminate]. cbn [option_map] in E. injection E as <-.
      destruct (Cp p y Ey) as (Nd & Dm & Own & Per). rewrite Hf. repeat split; assumption.
    - exact (Cp q x E).
  Qed.

  Lemma Coh_dealloc (s : vst) p x : Coh s -> pd s p = Some x -> Coh (ev_cdealloc VS false s p).
  Proof.
    intros (Ck & Cp) Hp. destruct (Cp p x Hp) as (Nd & _).
    destruct (ev_dealloc_spec s p x Hp Nd) as ((Fp & Fl & Fs & Fk & Fn & Fq & Fd) & C2 & E2).
    set (s' := ev_cdealloc VS false s p) in *.
    assert (Sub : forall q k, hold s' q k -> hold s q k).
    { intros q k. unfold hold. rewrite C2. destruct (cl s k) as [[al rf]|]; [|destruct (pmem k (cp_claims x)); exact (fun H => H)].
      destruct (pmem k (cp_claims x)); [|exact (fun H => H)]. cbn [d_cl option_map dd snd]. apply in_prem. }
    split.
    - intros c al' rf' E. rewrite C2 in E. destruct (pmem c (cp_claims x)); [|exact (Ck c al' rf' E)].
      destruct (cl s c) as [[al rf]|] eqn:Ec; [|discriminate]. cbn [d_cl option_map dd fst snd] in E. injection E as <- <-.
      destruct (Ck c al rf Ec) as (Ss & Iff). split; [apply ssorted_prem; exact Ss|].
      destruct (prem p rf) as [|y t] eqn:Er; [split; reflexivity|].
      split; [|discriminate]. intros ->. exfalso.
      assert (Hy : In y rf) by (apply (in_prem y p); rewrite Er; left; reflexivity).
      rewrite (proj1 Iff eq_refl) in Hy. destruct Hy.
    - intros q y E. unfold pd in E. rewrite Fp in E. fold (pd s q) in E. destruct (Cp q y E) as (Ndq & Dm & Own & Per).
      split; [exact Ndq|]. split; [intros H; apply Dm; exact (keys_lookup_none q _ _ Fd H)|]. split.
      + intros k Hk. apply Own. apply Sub. exact Hk.
      + intros c Hin. destruct (Per c Hin) as (al & rf & Ecl & Een). rewrite C2, Ecl.
        destruct (pmem c (cp_claims x)) eqn:Hc.
        * cbn [d_cl option_map dd fst snd]. eexists _, _. split; [reflexivity|]. intros Hq.
          destruct (Pos.eqb_spec q p) as [->|N].
          -- exfalso. destruct (Ck c al rf Ecl) as (Ss & _). exact (notin_prem_sorted p rf Ss Hq).
          -- rewrite E2, (proj2 (Pos.eqb_neq q p) N). cbn [andb]. rewrite (Een (in_prem _ _ _ Hq)).
             cbn [fst snd] in *. revert Hq. destruct (prem p rf) as [|z t]; intros Hq; [destruct Hq|reflexivity].
        * exists al, rf. split; [reflexivity|]. intros Hq. rewrite E2, Hc, andb_false_r. exact (Een Hq).
  Qed.

  Lemma Coh_alloc r (s : vst) p x :
    Coh s -> pd s p = Some x ->
    (forall c, In c (cp_claims x) -> ~ hold s p c) ->
    (forall c, In c (cp_claims x) -> rec_okP (claim_alloc s c) (en s p c)) ->
    Coh (ev_calloc VS orc r s p).
  Proof.
    intros CohS Hp Hn Hr. pose proof CohS as (Ck & Cp). destruct (Cp p x Hp) as (Nd & _ & _ & Hx).
    destruct (ev_alloc_spec orc r s p x Hp Nd) as (f & (Fp & Fl & Fs & Fk & Fn & Fq & Fd) & C1 & E1).
    set (s' := ev_calloc VS orc r s p) in *.
    pose proof (free_claims s p x (fun c => en s p c) CohS Hp Hn Hr) as Hfree.
    (* what the handler makes of a claim of the pod *)
    assert (Loc : forall c, pmem c (cp_claims x) = true ->
              exists al rf, cl s c = Some (al, rf) /\ ~ In p rf /\ ssorted rf = true /\ (al = None <-> rf = [])
                /\ rec_okP al (en s p c)
                /\ (cl s' c = Some (al, rf) /\ en s' p c = en s p c
                    \/ exists ds, cl s' c = Some (Some ds, pins p rf) /\ en s' p c = Some (Some ds) /\ (al = None \/ al = Some ds))).
    { intros c Hc. pose proof Hc as Hin. apply pmem_in in Hin. destruct (Hfree c Hin) as (al & rf & Ecl & Nin & Rok).
      destruct (Ck c al rf Ecl) as (Ss & Iff). exists al, rf. repeat (split; [assumption|]).
      rewrite C1, E1, Hc, Pos.eqb_refl, Ecl. cbn [andb]. unfold a_cl, a_en, a_res. cbn [fst snd].
      destruct (en s p c) as [[ds|]|] eqn:Ee; [| |destruct Rok].
      - right. exists ds. repeat split; try reflexivity. exact Rok.
      - destruct al as [ds|].
        + right. exists ds. repeat split; try reflexivity. right. reflexivity.
        + destruct (f c) as [ds|]; [right; exists ds; repeat split; try reflexivity; left; reflexivity|left; split; reflexivity]. }
    split.
    - intros c al' rf' E. destruct (pmem c (cp_claims x)) eqn:Hc.
      + destruct (Loc c Hc) as (al & rf & Ecl & Nin & Ss & Iff & _ & [(E1' & _)|(ds & E1' & _ & _)]); rewrite E1' in E; injection E as <- <-.
        * split; assumption.
        * split; [apply ssorted_pins; exact Ss|]. split; [discriminate|].
          intros H. exfalso. assert (Hp' : In p (pins p rf)) by (apply in_pins; left; reflexivity). rewrite H in Hp'. destruct Hp'.
      + rewrite C1, Hc in E. exact (Ck c al' rf' E).
    - intros q y E. unfold pd in E. rewrite Fp in E. fold (pd s q) in E. destruct (Cp q y E) as (Ndq & Dm & Own & Per).
      split; [exact Ndq|]. split; [intros H; apply Dm; exact (keys_lookup_none q _ _ Fd H)|]. split.
      + intros k Hk. unfold hold in Hk. destruct (pmem k (cp_claims x)) eqn:Hc.
        * destruct (Loc k Hc) as (al & rf & Ecl & Nin & _ & _ & _ & [(E1' & _)|(ds & E1' & _ & _)]); rewrite E1' in Hk.
          -- apply Own. unfold hold. rewrite Ecl. exact Hk.
          -- apply in_pins in Hk. destruct Hk as [->|Hk].
             ++ rewrite Hp in E. injection E as <-. apply pmem_in. exact Hc.
             ++ apply Own. unfold hold. rewrite Ecl. exact Hk.
        * rewrite C1, Hc in Hk. apply Own. exact Hk.
      + intros c Hin. destruct (Per c Hin) as (al & rf & Ecl & Een).
        destruct (pmem c (cp_claims x)) eqn:Hc.
        * destruct (Loc c Hc) as (al0 & rf0 & Ecl0 & Nin & Ss & Iff & _ & [(E1' & E2')|(ds & E1' & E2' & Hal)]);
            rewrite Ecl in Ecl0; injection Ecl0 as <- <-.
          -- exists al, rf. split; [exact E1'|]. intros Hq. destruct (Pos.eqb_spec q p) as [->|N]; [contradiction|].
             rewrite E1, (proj2 (Pos.eqb_neq q p) N). cbn [andb]. exact (Een Hq).
          -- exists (Some ds), (pins p rf). split; [exact E1'|]. intros Hq. destruct (Pos.eqb_spec q p) as [->|N]; [exact E2'|].
             apply in_pins in Hq. destruct Hq as [->|Hq]; [congruence|].
             rewrite E1, (proj2 (Pos.eqb_neq q p) N). cbn [andb]. rewrite (Een Hq).
             destruct Hal as [->| ->]; [|reflexivity]. rewrite (proj1 Iff eq_refl) in Hq. destruct Hq.
        * exists al, rf. rewrite C1, Hc. split; [exact Ecl|]. intros Hq. rewrite E1, Hc, andb_false_r. exact (Een Hq).
  Qed.

  (** the pod is handed a map while it holds nothing *)
  Lemma Coh_restore (s : vst) p x sv :
    Coh s -> pd s p = Some x -> (forall k, ~ hold s p k) -> Coh (set_store s (aput p sv (c_store s))).
  Proof.
    intros (Ck & Cp) Hp Hn. split; [exact Ck|].
    intros q y E. change (pd (set_store s (aput p sv (c_store s))) q) with (pd s q) in E.
    destruct (Cp q y E) as (Ndq & Dm & Own & Per). split; [exact Ndq|]. split.
    - cbn [c_store set_store]. intros H. apply Dm. apply (keys_lookup_none q _ (c_store s)) in H; [exact H|].
      unfold aput. apply keys_aupd.
    - split; [exact Own|]. intros c Hin. destruct (Per c Hin) as (al & rf & Ecl & Een). exists al, rf. split; [exact Ecl|].
      intros Hq. destruct (Pos.eqb_spec q p) as [->|N].
      + exfalso. apply (Hn c). unfold hold. rewrite Ecl. exact Hq.
      + unfold en. cbn [c_store set_store]. rewrite v_map_restore, (proj2 (Pos.eqb_neq q p) N). exact (Een Hq).
  Qed.
End CohP.

(* ------------------------------------------------------------------ Facts *)

(** * PART 7 - what the boolean predicates say *)
Lemma forallb_In {A} (f : A -> bool) l : forallb f l = true -> forall x, In x l -> f x = true.
Proof. intros H x Hx. rewrite forallb_forall in H. exact (H x Hx). Qed.

Lemma status_neq_releasing st : active_allocated st = true -> status_eqb st Releasing = false.
Proof. destruct st; cbn; congruence. Qed.

Lemma coherent_Coh (s : vst) : coherent s = true -> Coh s.
Proof.
  unfold coherent. intros H. apply andb_true_iff in H. destruct H as [Hc Hp]. split.
  - intros c al rf E. apply alookup_in in E. pose proof (forallb_In _ _ Hc _ E) as H. cbn [fst snd] in H.
    apply andb_true_iff in H. destruct H as [H _]. unfold claim_ok in H. cbn [fst snd] in H.
    apply andb_true_iff in H. destruct H as [Ss Eb]. split; [exact Ss|].
    apply eqb_prop in Eb. destruct al, rf; cbn in Eb; split; intros; congruence.
  - intros p x E. pose proof (alookup_in _ _ _ E) as Hin. pose proof (forallb_In _ _ Hp _ Hin) as H. cbn [fst snd] in H.
    apply andb_true_iff in H. destruct H as [H Dm]. unfold pod_coherent in H. apply andb_true_iff in H. destruct H as [Nd Per].
    split; [apply nodupb_NoDup; exact Nd|]. split.
    { unfold amem in Dm. destruct (alookup p (c_store s)); congruence. }
    split.
    + intros k Hk. unfold hold, cl in Hk. destruct (alookup k (c_claims s)) as [[al rf]|] eqn:Ek; [|destruct Hk].
      apply alookup_in in Ek. pose proof (forallb_In _ _ Hc _ Ek) as H. cbn [fst snd] in H.
      apply andb_true_iff in H. destruct H as [_ H]. pose proof (forallb_In _ _ H _ Hk) as H2. cbn in H2.
      unfold pd in E. rewrite E in H2. apply pmem_in. exact H2.
    + intros c Hc'. pose proof (forallb_In _ _ Per _ Hc') as H. cbn in H. unfold cl, en. unfold entry_of in H.
      destruct (alookup c (c_claims s)) as [[al rf]|]; [|discriminate].
      destruct (alookup c (v_map (c_store s) p)) as [e|]; [|discriminate].
      exists al, rf. split; [reflexivity|]. intros Hq. apply pmem_in in Hq. rewrite Hq in H. cbn in H.
      apply alloc_eqb_eq in H. congruence.
Qed.

Lemma holds_none_P (s : vst) p x : holds_none s p x = true -> forall c, In c (cp_claims x) -> ~ hold s p c.
Proof.
  intros H c Hc Hh. pose proof (forallb_In _ _ H _ Hc) as H1. cbn in H1. apply negb_true_iff in H1.
  apply holds_hold in Hh. congruence.
Qed.
Lemma holds_all_P (s : vst) p x : holds_all s p x = true -> forall c, In c (cp_claims x) -> hold s p c.
Proof. intros H c Hc. apply holds_hold. exact (forallb_In _ _ H _ Hc). Qed.
Lemma mem_ok_P (s : vst) p x : mem_ok s p x = true -> forall c, In c (cp_claims x) -> rec_okP (claim_alloc s c) (en s p c).
Proof. intros H c Hc. apply rec_ok_P. exact (forallb_In _ _ H _ Hc). Qed.

Lemma pending_ok_facts (s : vst) p x :
  pending_ok s p x = true ->
  cp_stat x = Pending /\ cp_on x = [] /\ cp_node x = None /\ has_placing (c_log s) p = false
  /\ (forall c, In c (cp_claims x) -> ~ hold s p c)
  /\ (forall c, In c (cp_claims x) -> rec_okP (claim_alloc s c) (en s p c)).
Proof.
  unfold pending_ok. intros H.
  apply andb_true_iff in H. destruct H as [H Hm]. apply andb_true_iff in H. destruct H as [H Hn].
  apply andb_true_iff in H. destruct H as [H Hpl]. apply andb_true_iff in H. destruct H as [H Hnd].
  apply andb_true_iff in H. destruct H as [Hst Hon].
  split; [apply status_eqb_eq; exact Hst|]. split; [destruct (cp_on x); [reflexivity|discriminate]|].
  split; [destruct (cp_node x); [discriminate|reflexivity]|]. split; [apply negb_true_iff; exact Hpl|].
  split; [apply holds_none_P; exact Hn|apply mem_ok_P; exact Hm].
Qed.

Lemma evicted_here_facts (s : vst) p x :
  evicted_here s p x = true ->
  cp_stat x = Releasing /\ has_placing (c_log s) p = false /\ (forall c, In c (cp_claims x) -> ~ hold s p c)
  /\ exists i prev nid g v sv,
       first_valid_evict (c_log s) (c_log s) p 0 = Some (Some i)
       /\ nth_error (c_log s) i = Some (OEvict p prev nid g v) /\ nth_error (c_saved s) i = Some (Some sv)
       /\ active_allocated prev = true /\ cp_node x = Some nid /\ pmem nid (cp_on x) = true
       /\ (forall c, In c (cp_claims x) -> rec_okP (claim_alloc s c) (alookup c sv)).
Proof.
  unfold evicted_here. intros H.
  apply andb_true_iff in H. destruct H as [H Hm]. apply andb_true_iff in H. destruct H as [H Hn].
  apply andb_true_iff in H. destruct H as [Hst Hpl].
  split; [apply status_eqb_eq; exact Hst|]. split; [apply negb_true_iff; exact Hpl|]. split; [apply holds_none_P; exact Hn|].
  destruct (first_valid_evict (c_log s) (c_log s) p 0) as [[i|]|] eqn:Ef; try discriminate.
  destruct (nth_error (c_log s) i) as [[q prev nid g v| | |]|] eqn:En; try discriminate.
  destruct (nth_error (c_saved s) i) as [[sv|]|] eqn:Es; try discriminate.
  apply andb_true_iff in Hm. destruct Hm as [Hm Hrec]. apply andb_true_iff in Hm. destruct Hm as [Hm Hon].
  apply andb_true_iff in Hm. destruct Hm as [Hm Hnd]. apply andb_true_iff in Hm. destruct Hm as [Hq Hact].
  apply Pos.eqb_eq in Hq. subst q.
  exists i, prev, nid, g, v, sv. split; [first [exact Ef|reflexivity]|]. split; [first [exact En|reflexivity]|]. split; [first [exact Es|reflexivity]|]. split; [exact Hact|].
  split; [destruct (cp_node x) as [h|]; [apply Pos.eqb_eq in Hnd; subst h; reflexivity|discriminate]|]. split; [exact Hon|].
  intros c Hc. pose proof (forallb_In _ _ Hrec _ Hc) as H. cbn in H. apply andb_true_iff in H. destruct H as [H _].
  apply rec_ok_P. exact H.
Qed.

(* ------------------------------------------------------------------ CmdLink *)

(** * PART 8 - every recorded command comes with its link *)
Lemma set_store_same (s : vst) : set_store s (c_store s) = s.
Proof. destruct s; reflexivity. Qed.

Section Frames.
  Variable orc : oracle.
  Lemma foldD_frame p cls : forall s : vst, cframe s (fold_left (dealloc_claim VS false p) cls s).
  Proof.
    induction cls as [|c r IH]; intros s; cbn [fold_left]; [apply cframe_refl|].
    eapply cframe_trans; [exact (proj1 (D_spec p s c))|apply IH].
  Qed.
  Lemma foldA_frame r0 p nd cls : forall s : vst, cframe s (fold_left (alloc_claim VS orc r0 p nd) cls s).
  Proof.
    induction cls as [|c r IH]; intros s; cbn [fold_left]; [apply cframe_refl|].
    destruct (A_spec orc r0 p nd s c) as (ans & F & _). eapply cframe_trans; [exact F|apply IH].
  Qed.
  Lemma ev_cdealloc_frame (s : vst) p : cframe s (ev_cdealloc VS false s p).
  Proof. unfold ev_cdealloc. destruct (get_cpod s p); [apply foldD_frame|apply cframe_refl]. Qed.
  Lemma ev_calloc_frame r0 (s : vst) p : cframe s (ev_calloc VS orc r0 s p).
  Proof. unfold ev_calloc. destruct (get_cpod s p); [apply foldA_frame|apply cframe_refl]. Qed.

  Lemma cunevict_logs (a : vst) p prev nid sv :
    c_log (cunevict VS orc a p prev nid sv) = c_log a /\ c_saved (cunevict VS orc a p prev nid sv) = c_saved a.
  Proof.
    unfold cunevict. destruct (get_cpod a p); [|split; reflexivity].
    match goal with |- context [ev_calloc VS orc true ?z p] => destruct (ev_calloc_frame true z p) as (_ & L & S & _) end.
    rewrite L, S. split; reflexivity.
  Qed.
End Frames.

Section CmdLink.
  Variable orc : oracle.
  Notation CLinkO := (CLink orc).

  Lemma act_valid (L0 T : list op) i : LogOK L0 -> (i < length L0)%nat -> tk (length L0) (S i) T -> op_valid (L0 ++ T) i = Some true.
  Proof. intros OK Lt Tk. apply valid_during_rollback; [exact OK|exact Lt|apply tk_tail_ok; exact Tk]. Qed.

  Lemma cexec_undo_evict f (s : vst) i p prev nid g v sv :
    op_valid (c_log s) i = Some true -> nth_error (c_log s) i = Some (OEvict p prev nid g v) ->
    nth_error (c_saved s) i = Some (Some sv) ->
    cexec VS false orc (S f) s (QUndo i) = (cpush (cunevict VS orc s p prev nid sv) (OUndo i) None, true).
  Proof. intros V E Es. cbn [cexec]. rewrite V, E, Es. reflexivity. Qed.

  (** ** Evict *)
  Lemma link_evict_cmd (s : vst) p x nid :
    Coh s -> length (c_saved s) = length (c_log s) ->
    pd s p = Some x -> status_eqb (cp_stat x) Releasing = false -> cp_node x = Some nid -> pmem nid (cp_on x) = true ->
    (forall c, In c (cp_claims x) -> hold s p c) ->
    cevict VS false s p = (cevict_on VS false s p x nid, true)
    /\ c_stuck (cevict_on VS false s p x nid) = c_stuck s
    /\ c_log (cevict_on VS false s p x nid) = c_log s ++ [OEvict p (cp_stat x) nid [] false]
    /\ c_saved (cevict_on VS false s p x nid) = c_saved s ++ [Some (v_map (c_store s) p)]
    /\ Coh (cevict_on VS false s p x nid)
    /\ CLinkO (c_log (cevict_on VS false s p x nid)) (c_saved (cevict_on VS false s p x nid)) (length (c_log s)) s
              (cevict_on VS false s p x nid).
  Proof.
    intros CohS Hlen Hp Hst Hnd Hon Hh.
    assert (Eev : cevict VS false s p = (cevict_on VS false s p x nid, true)).
    { unfold cevict, get_cpod. fold (pd s p). rewrite Hp, Hnd, Hst. reflexivity. }
    unfold cevict_on in *. cbn [so_save VS] in *. rewrite set_store_same in *.
    set (s1 := upd_cpod s p (with_stat Releasing)) in *.
    destruct (ev_cdealloc_frame s1 p) as (Fp & Fl & Fs & Fk & Fn & _).
    set (sv := v_map (c_store s) p) in *.
    set (s2 := ev_cdealloc VS false s1 p) in *.
    assert (Elog : c_log (cpush s2 (OEvict p (cp_stat x) nid [] false) (Some sv)) = c_log s ++ [OEvict p (cp_stat x) nid [] false]).
    { cbn [c_log cpush set_clog]. rewrite Fl. reflexivity. }
    assert (Esav : c_saved (cpush s2 (OEvict p (cp_stat x) nid [] false) (Some sv)) = c_saved s ++ [Some sv]).
    { cbn [c_saved cpush set_clog]. rewrite Fs. reflexivity. }
    split; [exact Eev|]. split; [cbn [c_stuck cpush set_clog]; rewrite Fk; reflexivity|]. split; [exact Elog|]. split; [exact Esav|].
    split.
    { assert (P1 : pd s1 p = Some (with_stat Releasing x)) by (unfold s1; rewrite pd_upd, Pos.eqb_refl, Hp; reflexivity).
      apply (Coh_frame s2); try reflexivity. apply (Coh_dealloc s1 p (with_stat Releasing x)); [|exact P1].
      apply Coh_upd; [intros y; reflexivity|exact CohS]. }
    rewrite Elog, Esav.
    intros L0 V0 a OK Len Pf Pv Lt (Rel & T & TV & La & Sa & Tk).
    assert (V : op_valid (c_log a) (length (c_log s)) = Some true) by (rewrite La; apply act_valid; assumption).
    assert (E : nth_error (c_log a) (length (c_log s)) = Some (OEvict p (cp_stat x) nid [] false)).
    { rewrite La. eapply act_nth; [exact Pf|apply nth_snoc_len]. }
    assert (Es : nth_error (c_saved a) (length (c_log s)) = Some (Some sv)).
    { rewrite Sa. eapply act_nth; [exact Pv|]. rewrite <- Hlen. apply nth_snoc_len. }
    rewrite (cundo_unfold orc a _ _ V E), Es.
    eexists. split; [reflexivity|]. split.
    - apply crel_push_r. apply (unevict_back orc s a p x nid CohS Hp Hnd Hon Hh). exact Rel.
    - destruct (cunevict_logs orc a p (cp_stat x) nid sv) as (L1 & S1).
      exists (T ++ [OUndo (length (c_log s))]), (TV ++ [None]).
      cbn [c_log c_saved cpush set_clog]. rewrite L1, S1, La, Sa, <- !app_assoc. split; [reflexivity|]. split; [reflexivity|].
      apply (tk_step (length L0) (length (c_log s)) T []); [exact Lt|exact Tk|intros o []].
  Qed.

  Lemma cunpipeline_logs (a : vst) p prev pn sv :
    c_log (fst (cunpipeline VS false a p prev pn sv)) = c_log a /\ c_saved (fst (cunpipeline VS false a p prev pn sv)) = c_saved a.
  Proof.
    unfold cunpipeline. destruct (get_cpod a p) as [y|]; [|split; reflexivity].
    destruct (cp_node y); cbn [fst]; [|split; reflexivity].
    match goal with |- context [ev_cdealloc VS false ?z p] => destruct (ev_cdealloc_frame z p) as (_ & L & S & _) end.
    rewrite L, S. split; reflexivity.
  Qed.
  Lemma cunallocate_logs (a : vst) p :
    c_log (fst (cunallocate VS false a p)) = c_log a /\ c_saved (fst (cunallocate VS false a p)) = c_saved a.
  Proof.
    unfold cunallocate. destruct (get_cpod a p) as [y|]; [|split; reflexivity].
    destruct (cp_node y); cbn [fst]; [|split; reflexivity].
    match goal with |- context [ev_cdealloc VS false ?z p] => destruct (ev_cdealloc_frame z p) as (_ & L & S & _) end.
    rewrite L, S. split; reflexivity.
  Qed.

  (** ** Pipeline: a nomination *)
  Lemma link_pipe_cmd (s : vst) p x nid :
    Coh s -> length (c_saved s) = length (c_log s) ->
    pd s p = Some x -> pmem nid (cp_on x) = false ->
    (forall c, In c (cp_claims x) -> ~ hold s p c) ->
    (forall c, In c (cp_claims x) -> rec_okP (claim_alloc s c) (en s p c)) ->
    c_stuck (cpipeline_body VS orc s p x nid) = c_stuck s
    /\ c_log (cpipeline_body VS orc s p x nid) = c_log s ++ [OPipe p (cp_stat x) (cp_node x) [] false nid false]
    /\ c_saved (cpipeline_body VS orc s p x nid) = c_saved s ++ [Some (v_map (c_store s) p)]
    /\ Coh (cpipeline_body VS orc s p x nid)
    /\ CLinkO (c_log (cpipeline_body VS orc s p x nid)) (c_saved (cpipeline_body VS orc s p x nid)) (length (c_log s)) s
              (cpipeline_body VS orc s p x nid).
  Proof.
    intros CohS Hlen Hp Hon Hn Hr.
    pose proof (unpipeline_back orc s) as Back. specialize (fun a => Back a p x nid CohS Hp Hon Hn Hr).
    unfold cpipeline_body in *. cbn [so_save VS] in *.
    set (s1 := upd_cpod s p (fun y => with_node (Some nid) (with_stat Pipelined y))) in *.
    change (c_store s1) with (c_store s) in *.
    set (sv := v_map (c_store s) p) in *.
    set (sA := upd_cpod (set_store s1 (c_store s)) p
                 (fun y => with_on (if pmem nid (cp_on y) then cp_on y else cp_on y ++ [nid]) y)) in *.
    destruct (ev_calloc_frame orc false sA p) as (Fp & Fl & Fs & Fk & Fn & _).
    set (s2 := ev_calloc VS orc false sA p) in *.
    set (e := OPipe p (cp_stat x) (cp_node x) [] false nid false) in *.
    assert (Elog : c_log (cpush s2 e (Some sv)) = c_log s ++ [e]) by (cbn [c_log cpush set_clog]; rewrite Fl; reflexivity).
    assert (Esav : c_saved (cpush s2 e (Some sv)) = c_saved s ++ [Some sv]) by (cbn [c_saved cpush set_clog]; rewrite Fs; reflexivity).
    split; [cbn [c_stuck cpush set_clog]; rewrite Fk; reflexivity|]. split; [exact Elog|]. split; [exact Esav|]. split.
    { apply (Coh_frame s2); try reflexivity.
      set (xA := with_on (cp_on x ++ [nid]) (with_node (Some nid) (with_stat Pipelined x))).
      assert (PA : pd sA p = Some xA).
      { unfold sA. rewrite pd_upd, Pos.eqb_refl. change (pd (set_store s1 (c_store s)) p) with (pd s1 p).
        unfold s1. rewrite pd_upd, Pos.eqb_refl, Hp. cbn [option_map cp_on with_node with_stat]. rewrite Hon. reflexivity. }
      apply (Coh_alloc orc false sA p xA); [|exact PA|exact Hn|exact Hr].
      unfold sA. apply Coh_upd; [intros y; reflexivity|]. apply (Coh_frame s1); try reflexivity.
      unfold s1. apply Coh_upd; [intros y; reflexivity|exact CohS]. }
    rewrite Elog, Esav.
    intros L0 V0 a OK Len Pf Pv Lt (Rel & T & TV & La & Sa & Tk).
    assert (V : op_valid (c_log a) (length (c_log s)) = Some true) by (rewrite La; apply act_valid; assumption).
    assert (E : nth_error (c_log a) (length (c_log s)) = Some e).
    { rewrite La. eapply act_nth; [exact Pf|apply nth_snoc_len]. }
    assert (Es : nth_error (c_saved a) (length (c_log s)) = Some (Some sv)).
    { rewrite Sa. eapply act_nth; [exact Pv|]. rewrite <- Hlen. apply nth_snoc_len. }
    rewrite (cundo_unfold orc a _ _ V E). unfold e. rewrite Es.
    destruct (Back a Rel) as (a' & Eu & Ra). rewrite Eu.
    eexists. split; [reflexivity|]. split; [apply crel_push_r; exact Ra|].
    pose proof (cunpipeline_logs a p (cp_stat x) (cp_node x) sv) as (L1 & S1). rewrite Eu in L1, S1. cbn [fst] in L1, S1.
    exists (T ++ [OUndo (length (c_log s))]), (TV ++ [None]).
    cbn [c_log c_saved cpush set_clog]. rewrite L1, S1, La, Sa, <- !app_assoc. split; [reflexivity|]. split; [reflexivity|].
    apply (tk_step (length L0) (length (c_log s)) T []); [exact Lt|exact Tk|intros o []].
  Qed.

  (** ** Allocate *)
  Lemma link_alloc_cmd (s : vst) p x nid :
    Coh s -> length (c_saved s) = length (c_log s) ->
    pd s p = Some x -> cp_stat x = Pending -> cp_node x = None -> pmem nid (cp_on x) = false ->
    (forall c, In c (cp_claims x) -> ~ hold s p c) ->
    (forall c, In c (cp_claims x) -> rec_okP (claim_alloc s c) (en s p c)) ->
    exists s', callocate VS orc s p nid = (s', true)
    /\ c_stuck s' = c_stuck s
    /\ c_log s' = c_log s ++ [OAlloc (dummy_pod p) nid false]
    /\ c_saved s' = c_saved s ++ [None]
    /\ Coh s'
    /\ CLinkO (c_log s') (c_saved s') (length (c_log s)) s s'.
  Proof.
    intros CohS Hlen Hp Hst Hnd Hon Hn Hr.
    pose proof (unallocate_back orc s) as Back. specialize (fun a => Back a p x nid CohS Hp Hst Hnd Hon Hn Hr).
    unfold callocate, get_cpod in *. fold (pd s p) in *. rewrite Hp in *. cbn [fst] in Back.
    set (sA := upd_cpod s p (fun y => with_on (if pmem nid (cp_on y) then cp_on y else cp_on y ++ [nid])
                                          (with_node (Some nid) (with_stat Allocated y)))) in *.
    destruct (ev_calloc_frame orc false sA p) as (Fp & Fl & Fs & Fk & Fn & _).
    set (s2 := ev_calloc VS orc false sA p) in *.
    set (e := OAlloc (dummy_pod p) nid false) in *.
    eexists. split; [reflexivity|].
    assert (Elog : c_log (cpush s2 e None) = c_log s ++ [e]) by (cbn [c_log cpush set_clog]; rewrite Fl; reflexivity).
    assert (Esav : c_saved (cpush s2 e (@None rci)) = c_saved s ++ [None]) by (cbn [c_saved cpush set_clog]; rewrite Fs; reflexivity).
    split; [cbn [c_stuck cpush set_clog]; rewrite Fk; reflexivity|]. split; [exact Elog|]. split; [exact Esav|]. split.
    { apply (Coh_frame s2); try reflexivity.
      set (xA := with_on (cp_on x ++ [nid]) (with_node (Some nid) (with_stat Allocated x))).
      assert (PA : pd sA p = Some xA).
      { unfold sA. rewrite pd_upd, Pos.eqb_refl, Hp. cbn [option_map cp_on with_node with_stat]. rewrite Hon. reflexivity. }
      apply (Coh_alloc orc false sA p xA); [|exact PA|exact Hn|exact Hr].
      unfold sA. apply Coh_upd; [intros y; reflexivity|exact CohS]. }
    rewrite Elog, Esav.
    intros L0 V0 a OK Len Pf Pv Lt (Rel & T & TV & La & Sa & Tk).
    assert (V : op_valid (c_log a) (length (c_log s)) = Some true) by (rewrite La; apply act_valid; assumption).
    assert (E : nth_error (c_log a) (length (c_log s)) = Some e).
    { rewrite La. eapply act_nth; [exact Pf|apply nth_snoc_len]. }
    rewrite (cundo_unfold orc a _ _ V E). unfold e. cbn [p_id dummy_pod p_task t_id].
    destruct (Back a Rel) as (a' & Eu & Ra). rewrite Eu.
    eexists. split; [reflexivity|]. split; [apply crel_push_r; exact Ra|].
    pose proof (cunallocate_logs a p) as (L1 & S1). rewrite Eu in L1, S1. cbn [fst] in L1, S1.
    exists (T ++ [OUndo (length (c_log s))]), (TV ++ [None]).
    cbn [c_log c_saved cpush set_clog]. rewrite L1, S1, La, Sa, <- !app_assoc. split; [reflexivity|]. split; [reflexivity|].
    apply (tk_step (length L0) (length (c_log s)) T []); [exact Lt|exact Tk|intros o []].
  Qed.

  (** ** an un-eviction (Unevict, or Pipeline onto a node that holds the evicted pod) *)
  Lemma link_unevict_cmd (s : vst) p x i prev nid g v sv :
    Coh s -> LogOK (c_log s) -> length (c_saved s) = length (c_log s) ->
    pd s p = Some x -> cp_stat x = Releasing -> (forall c, In c (cp_claims x) -> ~ hold s p c) ->
    op_valid (c_log s) i = Some true ->
    nth_error (c_log s) i = Some (OEvict p prev nid g v) -> nth_error (c_saved s) i = Some (Some sv) ->
    active_allocated prev = true -> cp_node x = Some nid -> pmem nid (cp_on x) = true ->
    (forall c, In c (cp_claims x) -> rec_okP (claim_alloc s c) (alookup c sv)) ->
    let s' := cpush (cunevict VS orc s p prev nid sv) (OUndo i) None in
    c_stuck s' = c_stuck s /\ c_log s' = c_log s ++ [OUndo i] /\ c_saved s' = c_saved s ++ [None]
    /\ LogOK (c_log s') /\ Coh s'
    /\ CLinkO (c_log s') (c_saved s') (length (c_log s)) s s'.
  Proof.
    intros CohS OKs Hlen Hp Hst Hn V En Es Hact Hnd Hon Hr s'.
    assert (Hprev : status_eqb prev Releasing = false) by (apply status_neq_releasing; exact Hact).
    pose proof (reevict_back orc s) as Back.
    specialize (fun a => Back a p x prev nid sv CohS Hp Hst Hprev Hnd Hon Hn Hr).
    destruct (cunevict_logs orc s p prev nid sv) as (L1 & S1).
    assert (Elog : c_log s' = c_log s ++ [OUndo i]) by (unfold s'; cbn [c_log cpush set_clog]; rewrite L1; reflexivity).
    assert (Esav : c_saved s' = c_saved s ++ [None]) by (unfold s'; cbn [c_saved cpush set_clog]; rewrite S1; reflexivity).
    assert (Ilt : (i < length (c_log s))%nat) by (apply nth_error_Some; congruence).
    assert (Kk : c_stuck s' = c_stuck s).
    { unfold s', cunevict, get_cpod. fold (pd s p). rewrite Hp. cbn [c_stuck cpush set_clog].
      match goal with |- context [ev_calloc VS orc true ?z p] => destruct (ev_calloc_frame orc true z p) as (_ & _ & _ & K & _) end.
      rewrite K. reflexivity. }
    split; [exact Kk|]. split; [exact Elog|]. split; [exact Esav|]. split.
    { rewrite Elog. eapply LogOK_app_undo; [exact OKs|exact En|].
      rewrite (valid_persistent (c_log s) i OKs Ilt) in V. injection V as V. apply negb_true_iff in V. exact V. }
    split.
    { (* the invariant after the un-eviction *)
      unfold s'. apply (Coh_frame (cunevict VS orc s p prev nid sv)); try reflexivity.
      unfold cunevict, get_cpod. fold (pd s p). rewrite Hp. cbn [so_restore VS].
      set (gg := fun y : SessionClaims.cpod => with_on (if pmem nid (cp_on y) then cp_on y else cp_on y ++ [nid]) (with_stat prev y)).
      set (s1 := upd_cpod s p gg).
      assert (C1 : Coh s1) by (apply Coh_upd; [intros y; reflexivity|exact CohS]).
      assert (P1 : pd s1 p = Some (gg x)) by (unfold s1; rewrite pd_upd, Pos.eqb_refl, Hp; reflexivity).
      destruct CohS as (_ & Cp). destruct (Cp p x Hp) as (_ & Dm & Own & _).
      assert (Hn1 : forall k, ~ hold s1 p k).
      { intros k Hk. change (hold s1 p k) with (hold s p k) in Hk. exact (Hn k (Own k Hk) Hk). }
      pose proof (Coh_restore s1 p (gg x) sv C1 P1 Hn1) as C2. change (c_store s1) with (c_store s) in *.
      set (sA := set_store s1 (aput p sv (c_store s))) in *.
      assert (PA : pd sA p = Some (gg x)) by exact P1.
      apply (Coh_alloc orc true sA p (gg x) C2 PA).
      - intros c Hc Hk. exact (Hn c Hc Hk).
      - intros c Hc. change (claim_alloc sA c) with (claim_alloc s c).
        assert (Een : en sA p c = alookup c sv).
        { unfold sA, en. cbn [c_store set_store]. rewrite v_map_restore, Pos.eqb_refl.
          destruct (alookup p (c_store s)); [reflexivity|congruence]. }
        rewrite Een. exact (Hr c Hc). }
    rewrite Elog, Esav.
    intros L0 V0 a OK Len Pf Pv Lt (Rel & T & TV & La & Sa & Tk).
    set (n := length (c_log s)) in *.
    assert (Va : op_valid (c_log a) n = Some true) by (rewrite La; apply act_valid; assumption).
    assert (Ea : nth_error (c_log a) n = Some (OUndo i)).
    { rewrite La. eapply act_nth; [exact Pf|apply nth_snoc_len]. }
    assert (Ei : nth_error (c_log a) i = Some (OEvict p prev nid g v)).
    { rewrite La. rewrite nth_error_app1 by lia.
      assert (Hf : nth_error (firstn (S n) L0) i = Some (OEvict p prev nid g v)).
      { rewrite Pf. rewrite nth_error_app1 by exact Ilt. exact En. }
      rewrite la_nth_firstn in Hf. destruct (Nat.ltb i (S n)); [exact Hf|discriminate]. }
    rewrite (cundo_unfold orc a _ _ Va Ea), Ei.
    assert (Rel' : crel (cunevict VS orc s p prev nid sv) a) by exact Rel.
    destruct (Back a Rel') as (a1 & Eev & Ra & e & ev & Le & Se & He). rewrite Eev.
    eexists. split; [reflexivity|]. split; [apply crel_push_r; exact Ra|].
    exists (T ++ [e] ++ [OUndo n]), (TV ++ [ev] ++ [None]).
    cbn [c_log c_saved cpush set_clog]. rewrite Le, Se, La, Sa, <- !app_assoc. split; [reflexivity|]. split; [reflexivity|].
    apply (tk_step (length L0) n T [e]); [exact Lt|exact Tk|].
    intros o [<-|[]]. destruct e; try destruct He. exact I.
  Qed.
End CmdLink.

(* ------------------------------------------------------------------ Hist *)

(** * PART 9 - the history of a statement and Rollback *)
Definition clog_cmd (c : cmd) : bool :=
  match c with Evict _ | Pipeline _ _ _ _ | Allocate _ _ _ | Unevict _ => true | _ => false end.
(** Evict of a pod that is already Releasing: nothing happens *)
Definition cnoop (s : vst) (c : cmd) : bool :=
  match c with
  | Evict p => match pd s p with Some x => status_eqb (cp_stat x) Releasing | None => false end
  | _ => false
  end.

Section Hist.
  Variable orc : oracle.
  Variable fails : nat -> bool.
  Notation CLinkO := (CLink orc).
  Notation step := (cstep VS false orc fails).

  Lemma cnoop_step (s : vst) c : cnoop s c = true -> step s c = s.
  Proof.
    destruct c; try discriminate. cbn [cnoop]. unfold cstep, cstep_full. destruct (c_stuck s); [reflexivity|].
    unfold cevict, get_cpod. fold (pd s p). destruct (pd s p) as [x|]; [|discriminate]. intros H.
    destruct (cp_node x); [rewrite H|]; reflexivity.
  Qed.

  Lemma ccmd_link stk (s : vst) c :
    clog_cmd c = true -> cnoop s c = false -> cwf_cmd stk s c = true ->
    Coh s -> LogOK (c_log s) -> length (c_saved s) = length (c_log s) -> c_stuck s = false ->
    exists e ev,
      c_stuck (step s c) = false /\ c_log (step s c) = c_log s ++ [e] /\ c_saved (step s c) = c_saved s ++ [ev]
      /\ LogOK (c_log (step s c)) /\ Coh (step s c)
      /\ CLinkO (c_log (step s c)) (c_saved (step s c)) (length (c_log s)) s (step s c).
  Proof.
    intros Lc Nn W CohS OK Hlen Ks. unfold cstep, cstep_full. rewrite Ks.
    destruct c as [p|p nid gs upd|p nid gs|p| | | | |]; try discriminate; cbn [cwf_cmd cnoop] in *; fold (pd s p) in *.
    - (* Evict *)
      destruct (pd s p) as [x|] eqn:Hp; [|discriminate]. rewrite Nn in W. cbn [orb] in W.
      apply andb_true_iff in W. destruct W as [W Hnd]. apply andb_true_iff in W. destruct W as [W Hh].
      apply andb_true_iff in W. destruct W as [Hact Hpl].
      destruct (cp_node x) as [nid|] eqn:En; [|discriminate].
      destruct (link_evict_cmd orc s p x nid CohS Hlen Hp Nn En Hnd (holds_all_P s p x Hh)) as (Eev & Kk & El & Es & Ch & Lk).
      rewrite Eev. cbn [fst]. do 2 eexists. split; [congruence|]. split; [exact El|]. split; [exact Es|].
      split; [rewrite El; apply LogOK_app_prim; [exact OK|exact I]|]. split; [exact Ch|exact Lk].
    - (* Pipeline *)
      destruct (pd s p) as [x|] eqn:Hp; [|discriminate].
      unfold cpipeline, cfuel_of. change (4 + length (c_log s))%nat with (S (3 + length (c_log s))).
      cbn [cexec]. unfold get_cpod. fold (pd s p). rewrite Hp.
      assert (Body : pmem nid (cp_on x) = false -> (forall c, In c (cp_claims x) -> ~ hold s p c) ->
                     (forall c, In c (cp_claims x) -> rec_okP (claim_alloc s c) (en s p c)) ->
                     exists e ev,
                       c_stuck (cpipeline_body VS orc s p x nid) = false /\ c_log (cpipeline_body VS orc s p x nid) = c_log s ++ [e]
                       /\ c_saved (cpipeline_body VS orc s p x nid) = c_saved s ++ [ev] /\ LogOK (c_log (cpipeline_body VS orc s p x nid))
                       /\ Coh (cpipeline_body VS orc s p x nid)
                       /\ CLinkO (c_log (cpipeline_body VS orc s p x nid)) (c_saved (cpipeline_body VS orc s p x nid)) (length (c_log s)) s
                                 (cpipeline_body VS orc s p x nid)).
      { intros Hon Hn Hr. destruct (link_pipe_cmd orc s p x nid CohS Hlen Hp Hon Hn Hr) as (Kk & El & Es & Ch & Lk).
        do 2 eexists. split; [congruence|]. split; [exact El|]. split; [exact Es|].
        split; [rewrite El; apply LogOK_app_prim; [exact OK|exact I]|]. split; [exact Ch|exact Lk]. }
      apply orb_true_iff in W. destruct W as [W|W].
      + destruct (pending_ok_facts s p x W) as (_ & Eon & _ & _ & Hn & Hr).
        rewrite Eon. cbn [pmem existsb andb fst]. apply Body; [rewrite Eon; reflexivity|exact Hn|exact Hr].
      + apply andb_true_iff in W. destruct W as [W Hor]. apply andb_true_iff in W. destruct W as [Hev Hupd].
        destruct (evicted_here_facts s p x Hev) as (Hst & Hpl & Hn & i & prev & nd & g & v & sv & Ef & Eni & Esi & Hact & End & Hon & Hr).
        destruct (pmem nid (cp_on x)) eqn:Hpm.
        * (* the un-evict branch *)
          rewrite Hupd. cbn [andb]. rewrite Ef.
          destruct (fve_top _ _ _ Ef) as (V & _).
          change (3 + length (c_log s))%nat with (S (2 + length (c_log s))).
          rewrite (cexec_undo_evict orc _ s i p prev nd g v sv V Eni Esi). cbn [fst].
          destruct (link_unevict_cmd orc s p x i prev nd g v sv CohS OK Hlen Hp Hst Hn V Eni Esi Hact End Hon Hr) as (Kk & El & Es & OK' & Ch & Lk).
          do 2 eexists. split; [congruence|]. split; [exact El|]. split; [exact Es|]. split; [exact OK'|]. split; [exact Ch|exact Lk].
        * cbn [andb fst orb] in *. apply Body; [reflexivity|exact Hn|apply mem_ok_P; exact Hor].
    - (* Allocate *)
      destruct (pd s p) as [x|] eqn:Hp; [|discriminate].
      destruct (pending_ok_facts s p x W) as (Hst & Eon & End & _ & Hn & Hr).
      assert (Hon : pmem nid (cp_on x) = false) by (rewrite Eon; reflexivity).
      destruct (link_alloc_cmd orc s p x nid CohS Hlen Hp Hst End Hon Hn Hr) as (s' & Ea & Kk & El & Es & Ch & Lk).
      rewrite Ea. cbn [fst]. do 2 eexists. split; [congruence|]. split; [exact El|]. split; [exact Es|].
      split; [rewrite El; apply LogOK_app_prim; [exact OK|exact I]|]. split; [exact Ch|exact Lk].
    - (* Unevict *)
      destruct (pd s p) as [x|] eqn:Hp; [|discriminate].
      destruct (evicted_here_facts s p x W) as (Hst & Hpl & Hn & i & prev & nd & g & v & sv & Ef & Eni & Esi & Hact & End & Hon & Hr).
      unfold cunevict_cmd. rewrite Ef. destruct (fve_top _ _ _ Ef) as (V & _).
      unfold cundo_operation, cfuel_of. change (4 + length (c_log s))%nat with (S (3 + length (c_log s))).
      rewrite (cexec_undo_evict orc _ s i p prev nd g v sv V Eni Esi). cbn [fst].
      destruct (link_unevict_cmd orc s p x i prev nd g v sv CohS OK Hlen Hp Hst Hn V Eni Esi Hact End Hon Hr) as (Kk & El & Es & OK' & Ch & Lk).
      do 2 eexists. split; [congruence|]. split; [exact El|]. split; [exact Es|]. split; [exact OK'|]. split; [exact Ch|exact Lk].
  Qed.

  Lemma Coh_crel (x a : vst) : crel x a -> Coh x -> Coh a.
  Proof.
    intros (Rp & Rc & Rk & Rs & Re) (Ck & Cp). split.
    - intros c al rf E. rewrite <- Rc in E. exact (Ck c al rf E).
    - intros p y E. rewrite <- Rp in E. destruct (Cp p y E) as (Nd & Dm & Own & Per). split; [exact Nd|]. split.
      + intros H. apply Dm. apply (keys_lookup_none p (c_store a) (c_store x)); [symmetry; exact Rs|exact H].
      + split.
        * intros k Hk. apply Own. unfold hold in *. rewrite Rc. exact Hk.
        * intros c Hin. destruct (Per c Hin) as (al & rf & Ecl & Een). exists al, rf. rewrite <- Rc. split; [exact Ecl|].
          intros Hq. rewrite <- (Een Hq). symmetry. apply Re. unfold hold. rewrite Ecl. exact Hq.
  Qed.

  Definition CHist (s : vst) (hist : list vst) : Prop :=
    length hist = S (length (c_log s)) /\ length (c_saved s) = length (c_log s) /\ LogOK (c_log s) /\ c_stuck s = false
    /\ Forall (fun h => c_stuck h = false /\ Coh h) hist
    /\ (forall i si si1, nth_error hist i = Some si -> nth_error hist (S i) = Some si1 ->
          CLinkO (firstn (S i) (c_log s)) (firstn (S i) (c_saved s)) i si si1)
    /\ (forall top, nth_error hist (length (c_log s)) = Some top -> crel top s)
    /\ Coh s.

  Lemma CHist_init (s : vst) : c_log s = [] -> c_saved s = [] -> c_stuck s = false -> Coh s -> CHist s [s].
  Proof.
    intros L V K C. unfold CHist. rewrite L, V. cbn [length].
    split; [reflexivity|]. split; [reflexivity|]. split; [apply LogOK_nil|]. split; [exact K|].
    split; [constructor; [split; assumption|constructor]|]. split.
    - intros i si si1 _ H. destruct i; cbn in H; discriminate.
    - split; [|exact C]. intros top H. cbn in H. injection H as <-. apply crel_refl.
  Qed.

  Lemma CHist_push (s : vst) hist (s' : vst) e ev :
    CHist s hist -> c_stuck s' = false -> c_log s' = c_log s ++ [e] -> c_saved s' = c_saved s ++ [ev] -> LogOK (c_log s') ->
    Coh s' -> CLinkO (c_log s') (c_saved s') (length (c_log s)) s s' -> CHist s' (hist ++ [s']).
  Proof.
    intros (Hl & Hs & OK & Ks & Fk & Lk & Tp & Ch) Ks' Ls Ss OK' Ch' Lnew.
    assert (Ln : length (c_log s') = S (length (c_log s))) by (rewrite Ls, app_length; cbn; lia).
    assert (Lv : length (c_saved s') = S (length (c_log s))) by (rewrite Ss, app_length, Hs; cbn; lia).
    unfold CHist. split; [rewrite app_length, Hl, Ln; cbn; lia|]. split; [congruence|]. split; [exact OK'|]. split; [exact Ks'|].
    split; [apply Forall_app; split; [exact Fk|constructor; [split; assumption|constructor]]|]. split; [|split; [|exact Ch']].
    - intros i si si1 Hi Hi1.
      destruct (Nat.lt_ge_cases (S i) (length hist)) as [Lt|Ge].
      + rewrite nth_error_app1 in Hi by lia. rewrite nth_error_app1 in Hi1 by lia.
        rewrite Ls, Ss, !firstn_app. replace (S i - length (c_log s))%nat with 0%nat by lia.
        replace (S i - length (c_saved s))%nat with 0%nat by lia.
        cbn [firstn]. rewrite !app_nil_r. apply (Lk i si si1 Hi Hi1).
      + assert (Ei : i = length (c_log s)).
        { assert (S i < length (hist ++ [s']))%nat by (apply nth_error_Some; congruence).
          rewrite app_length in H. cbn in H. lia. }
        subst i. rewrite nth_error_app1 in Hi by lia.
        rewrite nth_error_app2 in Hi1 by lia. replace (S (length (c_log s)) - length hist)%nat with 0%nat in Hi1 by lia.
        cbn in Hi1. injection Hi1 as <-.
        rewrite <- Ln at 1. rewrite firstn_all. rewrite <- Lv. rewrite firstn_all.
        eapply CLink_pre; [apply Tp; exact Hi|exact Lnew].
    - intros top Ht. rewrite Ln in Ht. rewrite nth_error_app2 in Ht by lia.
      replace (S (length (c_log s)) - length hist)%nat with 0%nat in Ht by lia. cbn in Ht. injection Ht as <-. apply crel_refl.
  Qed.

  Lemma cundo_down_act L0 V0 hist cp :
    LogOK L0 -> length V0 = length L0 ->
    (forall i si si1, nth_error hist i = Some si -> nth_error hist (S i) = Some si1 ->
       CLinkO (firstn (S i) L0) (firstn (S i) V0) i si si1) ->
    forall k a h, (cp + k <= length L0)%nat -> (cp + k < length hist)%nat ->
      nth_error hist (cp + k) = Some h -> CAct L0 V0 (cp + k) h a ->
      exists a' h0, cundo_down VS false orc a cp k = (a', true) /\ nth_error hist cp = Some h0 /\ CAct L0 V0 cp h0 a'.
  Proof.
    intros OK Len Lk. induction k as [|k IH]; intros a h Le Lh Hh Ha.
    - rewrite Nat.add_0_r in *. exists a, h. split; [reflexivity|]. split; assumption.
    - cbn [cundo_down].
      destruct (nth_error hist (cp + k)) as [hk|] eqn:Ek.
      2:{ apply nth_error_None in Ek. lia. }
      replace (cp + S k)%nat with (S (cp + k)) in * by lia.
      destruct (Lk _ _ _ Ek Hh L0 V0 a OK Len eq_refl eq_refl ltac:(lia) Ha) as (a1 & Eu & Ha1).
      rewrite Eu. apply (IH a1 hk); [lia|lia|reflexivity|exact Ha1].
  Qed.

  Lemma CHist_rollback (s : vst) hist cp :
    CHist s hist -> (cp <= length (c_log s))%nat ->
    exists s' h0, crollback VS false orc s cp = (s', true) /\ nth_error hist cp = Some h0 /\ crel h0 s'
      /\ CHist s' (firstn (S cp) hist) /\ c_log s' = firstn cp (c_log s).
  Proof.
    intros (Hl & Hs & OK & Ks & Fk & Lk & Tp & Ch) Le.
    set (n := length (c_log s)) in *.
    destruct (nth_error hist n) as [top|] eqn:Et.
    2:{ apply nth_error_None in Et. lia. }
    destruct (cundo_down_act (c_log s) (c_saved s) hist cp OK Hs Lk (n - cp) s top) as (a' & h0 & Eu & Eh & (Sr & T & TV & La & Sa & Tkk)).
    { fold n. lia. } { lia. } { replace (cp + (n - cp))%nat with n by lia. exact Et. }
    { replace (cp + (n - cp))%nat with n by lia. split; [apply Tp; reflexivity|].
      exists [], []. rewrite !app_nil_r. split; [reflexivity|]. split; [reflexivity|apply tk_nil]. }
    exists (set_clog a' (firstn cp (c_log a')) (firstn cp (c_saved a'))), h0.
    split.
    { unfold crollback. fold n. destruct (Nat.ltb n cp) eqn:E; [apply Nat.ltb_lt in E; lia|]. rewrite Eu. reflexivity. }
    split; [exact Eh|]. split; [exact Sr|].
    assert (Lf : firstn cp (c_log a') = firstn cp (c_log s)).
    { rewrite La, firstn_app. replace (cp - length (c_log s))%nat with 0%nat by (fold n; lia). cbn [firstn]. apply app_nil_r. }
    assert (Sf : firstn cp (c_saved a') = firstn cp (c_saved s)).
    { rewrite Sa, firstn_app. replace (cp - length (c_saved s))%nat with 0%nat by (rewrite Hs; fold n; lia). cbn [firstn]. apply app_nil_r. }
    assert (Ll : length (firstn cp (c_log s)) = cp) by (rewrite firstn_length; fold n; lia).
    assert (Lsv : length (firstn cp (c_saved s)) = cp) by (rewrite firstn_length, Hs; fold n; lia).
    split; [|cbn [c_log set_clog]; exact Lf].
    assert (F0 : c_stuck h0 = false /\ Coh h0).
    { rewrite Forall_forall in Fk. apply Fk. eapply nth_error_In; exact Eh. }
    unfold CHist. cbn [c_log c_saved c_stuck set_clog]. rewrite Lf, Sf, Ll, Lsv.
    split; [rewrite firstn_length; lia|]. split; [reflexivity|]. split; [apply LogOK_firstn; exact OK|].
    split; [destruct Sr as (_ & _ & K & _); destruct F0; congruence|].
    split; [rewrite Forall_forall in *; intros x Hx; apply Fk; rewrite <- (firstn_skipn (S cp) hist); apply in_or_app; left; exact Hx|].
    split; [|split].
    - intros i si si1 Hi Hi1.
      assert (Li : (S i < S cp)%nat).
      { assert (S i < length (firstn (S cp) hist))%nat by (apply nth_error_Some; congruence). rewrite firstn_length in H. lia. }
      rewrite la_nth_firstn in Hi, Hi1.
      destruct (Nat.ltb i (S cp)) eqn:E1; [|apply Nat.ltb_ge in E1; lia].
      destruct (Nat.ltb (S i) (S cp)) eqn:E2; [|apply Nat.ltb_ge in E2; lia].
      rewrite !firstn_firstn. replace (Nat.min (S i) cp) with (S i) by lia. apply (Lk i si si1 Hi Hi1).
    - intros top' Ht. rewrite la_nth_firstn in Ht. destruct (Nat.ltb cp (S cp)) eqn:E1; [|apply Nat.ltb_ge in E1; lia].
      rewrite Eh in Ht. injection Ht as <-. exact Sr.
    - apply (Coh_crel h0); [exact Sr|exact (proj2 F0)].
  Qed.

  Lemma cdiscard_of_rollback (s s' : vst) : crollback VS false orc s 0 = (s', true) -> cdiscard VS false orc s = s'.
  Proof.
    unfold crollback, cdiscard. cbn [Nat.ltb Nat.leb]. rewrite Nat.sub_0_r.
    assert (G : forall k (a a' : vst), cundo_down VS false orc a 0 k = (a', true) -> cdiscard_down VS false orc a k = a').
    { induction k as [|k IH]; intros a a' H; cbn [cundo_down cdiscard_down] in *; [congruence|].
      change (0 + k)%nat with k in H.
      destruct (cundo_operation VS false orc a k) as [a1 ok]. cbn [fst]. destruct ok; [apply IH; exact H|discriminate]. }
    destruct (cundo_down VS false orc s 0 (length (c_log s))) as [a1 ok] eqn:E. destruct ok; [|discriminate].
    intros H. injection H as <-. rewrite (G _ _ _ E). reflexivity.
  Qed.

  Lemma cmap_fst_filter {A} (cp : nat) (sn : list (nat * A)) :
    map fst (filter (fun x => Nat.leb (fst x) cp) sn) = filter (fun x => Nat.leb x cp) (map fst sn).
  Proof.
    induction sn as [|[k x] r IH]; cbn [filter map fst]; [reflexivity|].
    destruct (Nat.leb k cp); cbn [map fst]; rewrite IH; reflexivity.
  Qed.

  (** * Main induction *)
  Definition CSnOK (s : vst) (hist : list vst) (stk : list nat) (sn : list (nat * vst)) : Prop :=
    map fst sn = stk
    /\ forall cp x, In (cp, x) sn -> (cp <= length (c_log s))%nat /\ exists h, nth_error hist cp = Some h /\ crel h x.

  Lemma cinv_step (s : vst) stk sn hist c :
    cwf_cmd stk s c = true -> CHist s hist -> CSnOK s hist stk sn ->
    exists hist', CHist (step s c) hist'
      /\ CSnOK (step s c) hist' (cstk_after stk s c) (csnaps_after sn s c)
      /\ nth_error hist' 0 = nth_error hist 0.
  Proof.
    intros W H Sn. pose proof H as (Hl & Hs & OK & Ks & Fk & Lk & Tp & Ch). destruct Sn as (Sm & Se).
    destruct (cnoop s c) eqn:Nc.
    { rewrite (cnoop_step s c Nc). exists hist. split; [exact H|]. split; [|reflexivity].
      destruct c; try discriminate. split; [exact Sm|exact Se]. }
    destruct (clog_cmd c) eqn:Lc.
    - destruct (ccmd_link stk s c Lc Nc W Ch OK Hs Ks) as (e & ev & Ks' & Ls & Ss & OK' & Ch' & Lnew).
      exists (hist ++ [step s c]). split; [eapply CHist_push; eassumption|]. split.
      + assert (E1 : cstk_after stk s c = stk) by (destruct c; try discriminate; reflexivity).
        assert (E2 : csnaps_after sn s c = sn) by (destruct c; try discriminate; reflexivity).
        rewrite E1, E2. split; [exact Sm|]. intros cp x Hin. destruct (Se cp x Hin) as (Le & h & Eh & Sr).
        split; [rewrite Ls, app_length; lia|]. exists h. split; [|exact Sr].
        rewrite nth_error_app1; [exact Eh|]. apply nth_error_Some. congruence.
      + destruct hist; [cbn in Hl; lia|reflexivity].
    - destruct c as [| | | | |cp| | |]; try discriminate.
      + (* Checkpoint *)
        assert (Es : step s Checkpoint = s) by (unfold cstep, cstep_full; rewrite Ks; reflexivity).
        rewrite Es. exists hist. split; [exact H|]. split; [|reflexivity].
        cbn [cstk_after csnaps_after]. split; [cbn [map fst]; rewrite Sm; reflexivity|].
        intros cp x [Hin|Hin].
        * injection Hin as <- <-. split; [lia|].
          destruct (nth_error hist (length (c_log s))) as [top|] eqn:Et.
          2:{ apply nth_error_None in Et. lia. }
          exists top. split; [reflexivity|]. apply Tp. reflexivity.
        * apply Se. exact Hin.
      + (* Rollback *)
        assert (Wc : existsb (Nat.eqb cp) stk = true) by exact W.
        apply existsb_exists in Wc. destruct Wc as (x & Hx & Ex). apply Nat.eqb_eq in Ex. subst x.
        rewrite <- Sm in Hx. apply in_map_iff in Hx. destruct Hx as ([cp' x0] & Ecp & Hin). cbn [fst] in Ecp. subst cp'.
        destruct (Se cp x0 Hin) as (Le & _).
        destruct (CHist_rollback s hist cp H Le) as (s' & h0 & Er & Eh & Sr & H' & _).
        assert (Es : step s (Rollback cp) = s') by (unfold cstep, cstep_full; rewrite Ks, Er; reflexivity).
        rewrite Es. exists (firstn (S cp) hist). split; [exact H'|]. split.
        * cbn [cstk_after csnaps_after]. split; [rewrite cmap_fst_filter, Sm; reflexivity|].
          intros c2 x Hf. apply filter_In in Hf. destruct Hf as [Hf Hle]. cbn [fst] in Hle. apply Nat.leb_le in Hle.
          destruct (Se c2 x Hf) as (_ & h & Eh2 & Sr2).
          assert (Ll : length (c_log s') = cp).
          { destruct H' as (Hl' & _). rewrite firstn_length in Hl'. lia. }
          split; [lia|]. exists h. split; [|exact Sr2]. rewrite la_nth_firstn.
          destruct (Nat.ltb c2 (S cp)) eqn:E; [exact Eh2|apply Nat.ltb_ge in E; lia].
        * destruct hist; [cbn in Hl; lia|reflexivity].
      + (* Discard *)
        destruct (CHist_rollback s hist 0 H ltac:(lia)) as (s' & h0 & Er & Eh & Sr & H' & _).
        assert (Es : step s Discard = s').
        { unfold cstep, cstep_full. rewrite Ks. cbn [fst]. apply cdiscard_of_rollback. exact Er. }
        rewrite Es. exists (firstn 1 hist). split; [exact H'|]. split; [|destruct hist; [cbn in Hl; lia|reflexivity]].
        cbn [cstk_after csnaps_after]. split; [reflexivity|intros c2 x []].
  Qed.
End Hist.

(* ------------------------------------------------------------------ Main *)

(** * PART 10 - the theorems *)
Section Main.
  Variable orc : oracle.
  Variable fails : nat -> bool.
  Notation step := (cstep VS false orc fails).
  Notation run := (crun VS false orc fails).

  Lemma crun_cons (s : vst) c r : run s (c :: r) = run (step s c) r.
  Proof. reflexivity. Qed.
  Lemma crun_app (s : vst) a b : run s (a ++ b) = run (run s a) b.
  Proof. unfold crun. apply fold_left_app. Qed.

  Lemma crun_inv : forall prog (s : vst) stk sn hist,
    CHist orc s hist -> CSnOK s hist stk sn ->
    forall c, cwf_from orc fails stk s (prog ++ [c]) = true ->
    exists hist' stk',
      CHist orc (run s prog) hist' /\ CSnOK (run s prog) hist' stk' (snd (crun_sn orc fails s sn prog))
      /\ nth_error hist' 0 = nth_error hist 0
      /\ cwf_cmd stk' (run s prog) c = true.
  Proof.
    induction prog as [|c0 r IH]; intros s stk sn hist H Sn c W.
    - exists hist, stk. cbn [app cwf_from] in W. apply andb_true_iff in W. destruct W as [W _].
      split; [exact H|]. split; [exact Sn|]. split; [reflexivity|exact W].
    - cbn [app cwf_from] in W. apply andb_true_iff in W. destruct W as [Wc Wr].
      destruct (cinv_step orc fails s stk sn hist c0 Wc H Sn) as (hist1 & H1 & Sn1 & E0).
      destruct (IH _ _ _ _ H1 Sn1 c Wr) as (hist' & stk' & H' & Sn' & E0' & W').
      exists hist', stk'. rewrite crun_cons. cbn [crun_sn]. split; [exact H'|]. split; [exact Sn'|].
      split; [congruence|exact W'].
  Qed.

  Lemma cfind_key {A} cp (sn : list (nat * A)) :
    In cp (map fst sn) -> exists x, find (fun y => Nat.eqb (fst y) cp) sn = Some (cp, x) /\ In (cp, x) sn.
  Proof.
    induction sn as [|[k x] r IH]; cbn [map fst In find]; [intros []|].
    intros [E|Hin].
    - subst k. rewrite Nat.eqb_refl. exists x. split; [reflexivity|left; reflexivity].
    - destruct (Nat.eqb k cp) eqn:E.
      + apply Nat.eqb_eq in E. subst k. exists x. split; [reflexivity|left; reflexivity].
      + destruct (IH Hin) as (y & Ey & Iy). exists y. split; [exact Ey|right; exact Iy].
  Qed.

  Theorem claims_rollback_restores (S : vst) prog cp :
    c_log S = [] -> c_saved S = [] -> c_stuck S = false -> coherent S = true ->
    cwf_from orc fails [] S (prog ++ [Rollback cp]) = true ->
    exists x, cstate_at orc fails S prog cp = Some x /\ crel x (run S (prog ++ [Rollback cp])).
  Proof.
    intros L V K C W. apply coherent_Coh in C.
    destruct (crun_inv prog S [] [] [S] (CHist_init orc S L V K C)) with (c := Rollback cp) as (hist' & stk' & H' & (Sm & Se) & _ & Wc).
    { split; [reflexivity|intros c x []]. } { exact W. }
    assert (Wi : existsb (Nat.eqb cp) stk' = true) by exact Wc.
    apply existsb_exists in Wi. destruct Wi as (y & Hy & Ey). apply Nat.eqb_eq in Ey. subst y. rewrite <- Sm in Hy.
    destruct (cfind_key cp _ Hy) as (x & Ef & Hin).
    destruct (Se cp x Hin) as (Le & h & Eh & Sr).
    destruct (CHist_rollback orc _ _ cp H' Le) as (s' & h0 & Er & Eh0 & Sr0 & _ & _).
    rewrite Eh in Eh0. injection Eh0 as <-.
    exists x. split; [unfold cstate_at; rewrite Ef; reflexivity|].
    rewrite crun_app. cbn [crun fold_left]. unfold cstep, cstep_full.
    destruct H' as (_ & _ & _ & Ks & _). rewrite Ks, Er. cbn [fst].
    eapply crel_trans; [apply crel_sym; exact Sr|exact Sr0].
  Qed.

  Theorem claims_discard_restores (S : vst) prog :
    c_log S = [] -> c_saved S = [] -> c_stuck S = false -> coherent S = true ->
    cwf_from orc fails [] S (prog ++ [Discard]) = true ->
    crel S (run S (prog ++ [Discard])).
  Proof.
    intros L V K C W. apply coherent_Coh in C.
    destruct (crun_inv prog S [] [] [S] (CHist_init orc S L V K C)) with (c := Discard) as (hist' & stk' & H' & _ & E0 & _).
    { split; [reflexivity|intros c x []]. } { exact W. }
    destruct (CHist_rollback orc _ _ 0%nat H' ltac:(lia)) as (s' & h0 & Er & Eh0 & Sr0 & _ & _).
    rewrite E0 in Eh0. cbn in Eh0. injection Eh0 as <-.
    rewrite crun_app. cbn [crun fold_left]. unfold cstep, cstep_full.
    destruct H' as (_ & _ & _ & Ks & _). rewrite Ks. cbn [fst]. rewrite (cdiscard_of_rollback orc _ _ Er). exact Sr0.
  Qed.

  (** Evict p then Unevict p (or Pipeline back onto its node): as before the eviction *)
  Theorem claims_unevict_restores (S : vst) stk p unev :
    c_log S = [] -> c_saved S = [] -> c_stuck S = false -> coherent S = true ->
    cnoop S (Evict p) = false -> cwf_cmd stk S (Evict p) = true ->
    (unev = Unevict p \/ exists n x, unev = Pipeline p n None false /\ pd S p = Some x /\ pmem n (cp_on x) = true) ->
    crel S (run S [Evict p; unev]).
  Proof.
    intros L V K C Nn W Hu. apply coherent_Coh in C. cbn [cwf_cmd cnoop] in *. fold (pd S p) in *.
    destruct (pd S p) as [x|] eqn:Hp; [|discriminate]. rewrite Nn in W. cbn [orb] in W.
    apply andb_true_iff in W. destruct W as [W Hnd]. apply andb_true_iff in W. destruct W as [W Hh].
    destruct (cp_node x) as [nid|] eqn:En; [|discriminate].
    assert (Hlen : length (c_saved S) = length (c_log S)) by (rewrite L, V; reflexivity).
    destruct (link_evict_cmd orc S p x nid C Hlen Hp Nn En Hnd (holds_all_P S p x Hh)) as (Eev & Kk & El & Es & Ch & Lk).
    set (S1 := cevict_on VS false S p x nid) in *.
    assert (E1 : step S (Evict p) = S1) by (unfold cstep, cstep_full; rewrite K, Eev; reflexivity).
    (* the un-eviction is the undo of entry 0 on the state itself *)
    assert (OK1 : LogOK (c_log S1)) by (rewrite El; apply LogOK_app_prim; [rewrite L; apply LogOK_nil|exact I]).
    assert (Act : CAct (c_log S1) (c_saved S1) 1 S1 S1).
    { split; [apply crel_refl|]. exists [], []. rewrite !app_nil_r. split; [reflexivity|]. split; [reflexivity|].
      rewrite El, L. cbn [app length]. apply tk_nil. }
    rewrite L in Lk. cbn [length] in Lk.
    destruct (Lk (c_log S1) (c_saved S1) S1 OK1) as (a' & Eu & (Ra & _)).
    { rewrite El, Es, L, V. reflexivity. } { rewrite El, L. reflexivity. } { rewrite Es, V. reflexivity. }
    { rewrite El, L. cbn. lia. } { exact Act. }
    assert (Ef : first_valid_evict (c_log S1) (c_log S1) p 0 = Some (Some 0%nat)).
    { rewrite El, L. cbn [app first_valid_evict]. unfold op_valid. cbn. rewrite Pos.eqb_refl. reflexivity. }
    assert (K1 : c_stuck S1 = false) by congruence.
    assert (Eun : step S1 (Unevict p) = a').
    { unfold cstep, cstep_full. rewrite K1. unfold cunevict_cmd. rewrite Ef, Eu. reflexivity. }
    unfold crun. cbn [fold_left]. rewrite E1.
    destruct Hu as [->|(n & x0 & -> & Hp0 & Hon)].
    - rewrite Eun. exact Ra.
    - injection Hp0 as <-.
      assert (Epi : step S1 (Pipeline p n None false) = a').
      { unfold cstep, cstep_full. rewrite K1. unfold cpipeline, cfuel_of.
        change (4 + length (c_log S1))%nat with (Datatypes.S (3 + length (c_log S1))). cbn [cexec].
        assert (P1 : get_cpod S1 p = Some (with_stat Releasing x)).
        { unfold S1, cevict_on. cbn [so_save VS]. rewrite set_store_same. unfold get_cpod.
          cbn [c_pods cpush set_clog].
          destruct (ev_cdealloc_frame (upd_cpod S p (with_stat Releasing)) p) as (Fp & _). rewrite Fp.
          fold (pd (upd_cpod S p (with_stat Releasing)) p). rewrite pd_upd, Pos.eqb_refl, Hp. reflexivity. }
        rewrite P1. cbn [cp_on with_stat]. rewrite Hon. cbn [andb negb]. rewrite Ef.
        destruct (fve_top _ _ _ Ef) as (V0 & _).
        assert (E0 : nth_error (c_log S1) 0 = Some (OEvict p (cp_stat x) nid [] false)) by (rewrite El, L; reflexivity).
        assert (Es0 : nth_error (c_saved S1) 0 = Some (Some (v_map (c_store S) p))) by (rewrite Es, V; reflexivity).
        unfold cundo_operation, cfuel_of in Eu.
        change (4 + length (c_log S1))%nat with (Datatypes.S (3 + length (c_log S1))) in Eu.
        change (3 + length (c_log S1))%nat with (Datatypes.S (2 + length (c_log S1))).
        rewrite (cexec_undo_evict orc _ S1 0 p (cp_stat x) nid [] false _ V0 E0 Es0) in Eu.
        rewrite (cexec_undo_evict orc _ S1 0 p (cp_stat x) nid [] false _ V0 E0 Es0).
        injection Eu as <-. reflexivity. }
      rewrite Epi. exact Ra.
  Qed.
End Main.

(* ------------------------------------------------------------------ Stmt *)

(** * PART 11 - the statements of Properties/C13.v *)
Lemma crel_claims_same (x a : vst) : crel x a -> claims_same x a.
Proof.
  intros (P & C & _ & _ & E). split; [exact P|]. split; [exact C|].
  intros p c H. apply (E p c). apply holds_hold. exact H.
Qed.

Theorem claims_rollback_restores_stmt orc fails (S : vst) prog cp :
  c_log S = [] -> c_saved S = [] -> c_stuck S = false -> coherent S = true ->
  cwf_from orc fails [] S (prog ++ [Rollback cp]) = true ->
  exists x, cstate_at orc fails S prog cp = Some x /\ claims_same x (crun VS false orc fails S (prog ++ [Rollback cp])).
Proof.
  intros L V K C W. destruct (claims_rollback_restores orc fails S prog cp L V K C W) as (x & E & R).
  exists x. split; [exact E|apply crel_claims_same; exact R].
Qed.
Theorem claims_discard_restores_stmt orc fails (S : vst) prog :
  c_log S = [] -> c_saved S = [] -> c_stuck S = false -> coherent S = true ->
  cwf_from orc fails [] S (prog ++ [Discard]) = true ->
  claims_same S (crun VS false orc fails S (prog ++ [Discard])).
Proof. intros L V K C W. apply crel_claims_same. apply claims_discard_restores; assumption. Qed.
Theorem claims_unevict_restores_stmt orc fails (S : vst) p :
  c_log S = [] -> c_saved S = [] -> c_stuck S = false -> coherent S = true ->
  (match alookup p (c_pods S) with Some x => status_eqb (cp_stat x) Releasing | None => false end) = false ->
  cwf_cmd [] S (Evict p) = true ->
  claims_same S (crun VS false orc fails S [Evict p; Unevict p])
  /\ forall n x, alookup p (c_pods S) = Some x -> pmem n (cp_on x) = true ->
       claims_same S (crun VS false orc fails S [Evict p; Pipeline p n None false]).
Proof.
  intros L V K C Nn W. split.
  - apply crel_claims_same. apply (claims_unevict_restores orc fails S [] p (Unevict p)); try assumption. left. reflexivity.
  - intros n x Hp Hon. apply crel_claims_same.
    apply (claims_unevict_restores orc fails S [] p (Pipeline p n None false)); try assumption.
    right. exists n, x. split; [reflexivity|]. split; [exact Hp|exact Hon].
Qed.

(** ** witnesses: the world of the corpus programs R1 .. R21
    nodes 31 (devices 21 22 23) and 32 (devices 24 25); pod 1 runs on node 31 and is the only consumer of claim 11
    on device 22 (device 21 is free); pods 2 and 3 run on node 31 and share claim 12 on device 23; pod 4 is pending
    with the unallocated claim 13; pods 5 and 6 are pending and share the unallocated claim 14 *)
Definition w_devnode : amap positive := [(21, 31); (22, 31); (23, 31); (24, 32); (25, 32)]%positive.
Definition w_pods : amap SessionClaims.cpod :=
  [(1, mkCP [11] Running (Some 31) [31]); (2, mkCP [12] Running (Some 31) [31]); (3, mkCP [12] Running (Some 31) [31]);
   (4, mkCP [13] Pending None []); (5, mkCP [14] Pending None []); (6, mkCP [14] Pending None [])]%positive.
Definition w_store : vstore :=
  [(1, [(11, Some [22])]); (2, [(12, Some [23])]); (3, [(12, Some [23])]); (4, [(13, None)]); (5, [(14, None)]); (6, [(14, None)])]%positive.
Definition w_claims : amap (alloc * list positive) :=
  [(11, (Some [22], [1])); (12, (Some [23], [2; 3])); (13, (None, [])); (14, (None, []))]%positive.
Definition w_v : vst := mkCS w_store w_pods w_claims [22; 23]%positive [] [] 0%nat 0%nat false false.
Definition w_h : cst heap positive := mkCS (h_init w_store) w_pods w_claims [22; 23]%positive [] [] 0%nat 0%nat false false.
Definition w_orc : oracle := lowest_free w_devnode.
Definition nofail_c (_ : nat) : bool := false.
Definition claim_of {ST SV} (s : cst ST SV) (c : positive) : option (alloc * list positive) := alookup c (c_claims s).
Definition record_of {ST SV} (SO : store_ops ST SV) (s : cst ST SV) (p c : positive) : option alloc := alookup c (so_map SO (c_store s) p).

(** the code as it was before 2da68db (restore hands the saved map to the pod): [evict 1; un-evict 1; discard] moves
    claim 11 from device 22 to device 21; the code as it is leaves it on 22, on the heap store and on the store of values *)
Theorem claims_discard_moves_claim_before_2da68db :
  let prog := [Evict 1; Unevict 1; Discard]%positive in
  claim_of (crun (HS false true) false w_orc nofail_c w_h prog) 11 = Some (Some [21%positive], [1%positive])
  /\ record_of (HS false true) (crun (HS false true) false w_orc nofail_c w_h prog) 1 11 = Some (Some [21%positive])
  /\ claim_of (crun (HS false false) false w_orc nofail_c w_h prog) 11 = Some (Some [22%positive], [1%positive])
  /\ claim_of (crun VS false w_orc nofail_c w_v prog) 11 = Some (Some [22%positive], [1%positive])
  /\ coherent w_v = true /\ cwf_from w_orc nofail_c [] w_v prog = true
  (* the next pod placed on node 31 is then handed device 22, which pod 1 really uses *)
  /\ claim_of (crun (HS false true) false w_orc nofail_c w_h (prog ++ [Allocate 4 31 None])%positive) 13 = Some (Some [22%positive], [4%positive])
  /\ claim_of (crun (HS false false) false w_orc nofail_c w_h (prog ++ [Allocate 4 31 None])%positive) 13 = Some (Some [21%positive], [4%positive]).
Proof. vm_compute. repeat split. Qed.

(** NOT the code (seeded regression C13-3): the save is maps.Clone, the saved entry IS the live entry; the deallocate
    handler wipes it in place and [evict 1; discard] moves claim 11 to device 21; with the deep copy it stays on 22 *)
Theorem claims_shallow_save_moves_claim :
  let prog := [Evict 1; Discard]%positive in
  claim_of (crun (HS true false) false w_orc nofail_c w_h prog) 11 = Some (Some [21%positive], [1%positive])
  /\ claim_of (crun (HS true true) false w_orc nofail_c w_h prog) 11 = Some (Some [21%positive], [1%positive])
  /\ claim_of (crun (HS false false) false w_orc nofail_c w_h prog) 11 = Some (Some [22%positive], [1%positive])
  /\ claim_of (crun (HS true false) false w_orc nofail_c w_h [Checkpoint; Evict 1; Rollback 0]%positive) 11 = Some (Some [21%positive], [1%positive])
  /\ claim_of (crun (HS true false) false w_orc nofail_c w_h [Evict 1; Unevict 1]%positive) 11 = Some (Some [21%positive], [1%positive]).
Proof. vm_compute. repeat split. Qed.

(** the code as it is: after the abandoned placements of pods 5 and 6 (sharing the unallocated claim 14) claim 14 is
    unallocated again and pod 5 records nothing, but pod 6 still records device 21 - the restore theorems do not speak
    about the record of a pod that holds nothing -, and a later placement of pod 6 on node 32 assumes claim 14 on
    device 21 of node 31; without the abandoned part pod 6 gets device 24 of node 32 *)
Theorem claims_stale_record_after_abandoned_placement :
  let ab := [Allocate 5 31 None; Allocate 6 31 None; Discard]%positive in
  coherent w_v = true /\ cwf_from w_orc nofail_c [] w_v ab = true
  /\ claims_same w_v (crun VS false w_orc nofail_c w_v ab)
  /\ record_of VS (crun VS false w_orc nofail_c w_v ab) 6 14 = Some (Some [21%positive])
  /\ record_of VS (crun VS false w_orc nofail_c w_v ab) 5 14 = Some None
  /\ claim_of (crun VS false w_orc nofail_c w_v (ab ++ [Allocate 6 32 None])%positive) 14 = Some (Some [21%positive], [6%positive])
  /\ claim_of (crun VS false w_orc nofail_c w_v [Allocate 6 32 None]%positive) 14 = Some (Some [24%positive], [6%positive])
  /\ c_stale (crun VS false w_orc nofail_c w_v (ab ++ [Allocate 6 32 None])%positive) = true
  /\ c_stale (crun VS false w_orc nofail_c w_v ab) = false.
Proof.
  split; [vm_compute; reflexivity|]. split; [vm_compute; reflexivity|]. split.
  - apply claims_discard_restores_stmt with (prog := [Allocate 5 31 None; Allocate 6 31 None]%positive); vm_compute; reflexivity.
  - vm_compute. repeat split.
Qed.

(** the hypotheses of the restore theorems are met by a program that moves claims around: pod 1 is evicted (claim 11
    is deallocated), pod 4 is placed on node 31 and gets the lowest free device, pod 1 is re-placed on node 32 (claim 11
    on device 24), then everything is rolled back *)
Theorem claims_nonvacuous :
  let prog := [Checkpoint; Evict 1; Allocate 4 31 None; Pipeline 1 32 None false; Evict 2; Unevict 2]%positive in
  c_log w_v = [] /\ c_saved w_v = [] /\ c_stuck w_v = false /\ coherent w_v = true
  /\ cwf_from w_orc nofail_c [] w_v (prog ++ [Rollback 0]) = true
  /\ claim_of (crun VS false w_orc nofail_c w_v prog) 11 = Some (Some [24%positive], [1%positive])
  /\ claim_of (crun VS false w_orc nofail_c w_v prog) 13 = Some (Some [21%positive], [4%positive])
  /\ claim_of (crun VS false w_orc nofail_c w_v (prog ++ [Rollback 0])) 11 = Some (Some [22%positive], [1%positive])
  /\ claim_of (crun VS false w_orc nofail_c w_v (prog ++ [Rollback 0])) 13 = Some (None, []).
Proof. vm_compute. repeat split. Qed.

(** without [mem_ok] the restore statement is false for the code as it is: pods 5 and 6 are placed and un-placed (pod 6
    keeps the record of device 21), pod 5 is placed on node 32 (claim 14 on device 24), pod 6 is placed on node 32 and
    its stale record OVERRIDES the tracker (claim 14 on device 21 although pod 5 recorded 24); [checkpoint; evict 5;
    rollback] then un-evicts pod 5 from its own record and claim 14 is on device 24: not what it was at the checkpoint.
    The program is outside [cwf_from] exactly from the placement that uses the stale record on *)
Theorem claims_rollback_refuted_with_stale_record :
  let pre := [Allocate 5 31 None; Allocate 6 31 None; Discard; Allocate 5 32 None; Allocate 6 32 None; Checkpoint]%positive in
  claim_of (crun VS false w_orc nofail_c w_v pre) 14 = Some (Some [21%positive], [5; 6]%positive)
  /\ claim_of (crun VS false w_orc nofail_c w_v (pre ++ [Evict 5; Rollback 2])%positive) 14 = Some (Some [24%positive], [5; 6]%positive)
  /\ cwf_from w_orc nofail_c [] w_v (firstn 4 pre) = true
  /\ cwf_from w_orc nofail_c [] w_v (firstn 5 pre) = false.
Proof. vm_compute. repeat split. Qed.
