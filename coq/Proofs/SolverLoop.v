(** C13, solver level — the attempt loop of the by-pod solver (Model/SolverLoop.v).

    The program the loop issues is an open statement with one [Checkpoint ... Rollback] block per
    failed attempt.  Its erased program (Model/SessionErase.v) is computed here for ALL sessions,
    attempt lists and placement oracles: the recorded victims' evictions followed by the commands
    of the successful attempt alone - or by nothing.  The general erasure theorem
    (Proofs/SessionErase.v [erase_open], [erasure_partial]) then gives: the session after the loop is
    related to the session reached by the successful attempt alone, with the SAME operation log, the
    same call counter and the same Cache calls at Commit. *)
Set Default Timeout 60.
From Coq Require Import List ZArith PArith Bool Arith Lia.
From KaiV Require Import Model.Res Model.Status Model.AMap Model.Node Model.NodeSpec Model.Session Model.SessionSpec
  Model.SessionErase Model.SolverLoop Proofs.Node Proofs.Session Proofs.SessionLog Proofs.SessionErase.
Import ListNotations.

(** * 1. Erasing plain commands and the loop's blocks *)
Lemma plain_open c : plain_cmd c = true -> open_cmd c = true.
Proof. destruct c; cbn; congruence. Qed.
Lemma plain_open_all l : forallb plain_cmd l = true -> forallb open_cmd l = true.
Proof.
  intros H. apply forallb_forall. intros c Hc. apply plain_open. rewrite forallb_forall in H. exact (H c Hc).
Qed.
Lemma evictions_plain vs : forallb plain_cmd (evictions vs) = true.
Proof. induction vs; cbn; [reflexivity|exact IHvs]. Qed.

Lemma erase_go_plain fails l : forall s stk base kept r,
  forallb plain_cmd l = true ->
  erase_go fails s stk base kept (l ++ r) = erase_go fails (Session.run fails s l) stk base (kept ++ l) r.
Proof.
  induction l as [|c l IH]; intros s stk base kept r H.
  - cbn. rewrite app_nil_r. reflexivity.
  - cbn [forallb] in H. apply andb_true_iff in H. destruct H as [Hc Hl].
    replace (Session.run fails s (c :: l)) with (Session.run fails (fst (step fails s c)) l) by reflexivity.
    replace (kept ++ c :: l) with ((kept ++ [c]) ++ l) by (rewrite <- app_assoc; reflexivity).
    rewrite <- (IH _ stk base (kept ++ [c]) r Hl).
    destruct c; cbn in Hc; try discriminate; reflexivity.
Qed.
Lemma erase_go_plain_all fails l s stk base kept :
  forallb plain_cmd l = true -> erase_go fails s stk base kept l = kept ++ l.
Proof.
  intros H. rewrite <- (app_nil_r l) at 1. rewrite (erase_go_plain fails l s stk base kept [] H). reflexivity.
Qed.

Lemma step_checkpoint fails s : fst (step fails s Checkpoint) = s.
Proof. unfold step, step_full. destruct (s_stuck s); reflexivity. Qed.

Lemma forallb_app' {A} (f : A -> bool) a b : forallb f a = true -> forallb f b = true -> forallb f (a ++ b) = true.
Proof. intros. rewrite forallb_app. apply andb_true_iff. split; assumption. Qed.

(** the erased program of the loop, from any erasure state: what was kept before, then the successful attempt *)
Lemma erase_go_loop fails atts : forall s stk base kept,
  Forall plain_oracle atts ->
  erase_go fails s stk base kept (fst (loop fails s atts))
  = kept ++ match snd (loop fails s atts) with Some x => x | None => [] end.
Proof.
  induction atts as [|a r IH]; intros s stk base kept HF.
  - cbn. rewrite app_nil_r. reflexivity.
  - inversion HF as [|? ? Ha Hr]; subst.
    cbn [loop]. specialize (Ha (Session.run fails s (evictions (at_victims a)))).
    destruct (at_sim a (Session.run fails s (evictions (at_victims a)))) as [sim ok] eqn:E. cbn [fst] in Ha.
    assert (Hp : forallb plain_cmd (evictions (at_victims a) ++ sim) = true)
      by (apply forallb_app'; [apply evictions_plain|exact Ha]).
    destruct ok.
    + cbn [fst snd]. cbn [erase_go]. rewrite step_checkpoint.
      apply erase_go_plain_all. exact Hp.
    + destruct (loop fails (fst (step fails (Session.run fails (Session.run fails s (evictions (at_victims a))) sim)
                                      (Rollback (length (s_log s))))) r) as [p w] eqn:EL.
      cbn [fst snd]. cbn [erase_go]. rewrite step_checkpoint.
      replace (evictions (at_victims a) ++ sim ++ Rollback (length (s_log s)) :: p)
        with ((evictions (at_victims a) ++ sim) ++ Rollback (length (s_log s)) :: p)
        by (rewrite <- app_assoc; reflexivity).
      rewrite (erase_go_plain fails _ s _ base kept _ Hp). rewrite run_app.
      cbn [erase_go find fst snd]. rewrite Nat.eqb_refl.
      specialize (IH (fst (step fails (Session.run fails (Session.run fails s (evictions (at_victims a))) sim)
                                  (Rollback (length (s_log s)))))
                     (filter (fun y => Nat.leb (fst y) (length (s_log s))) ((length (s_log s), kept) :: stk))
                     base kept Hr).
      rewrite EL in IH. cbn [fst snd] in IH. exact IH.
Qed.

Lemma loop_open fails atts : forall s,
  Forall plain_oracle atts -> forallb open_cmd (fst (loop fails s atts)) = true.
Proof.
  induction atts as [|a r IH]; intros s HF; [reflexivity|].
  inversion HF as [|? ? Ha Hr]; subst.
  cbn [loop]. specialize (Ha (Session.run fails s (evictions (at_victims a)))).
  destruct (at_sim a (Session.run fails s (evictions (at_victims a)))) as [sim ok]. cbn [fst] in Ha.
  destruct ok.
  - cbn [fst forallb open_cmd]. apply forallb_app'; apply plain_open_all; [apply evictions_plain|exact Ha].
  - specialize (IH (fst (step fails (Session.run fails (Session.run fails s (evictions (at_victims a))) sim)
                              (Rollback (length (s_log s))))) Hr).
    destruct (loop fails _ r) as [p w]. cbn [fst] in *. cbn [forallb open_cmd].
    apply forallb_app'; [apply plain_open_all; apply evictions_plain|].
    apply forallb_app'; [apply plain_open_all; exact Ha|]. cbn [forallb open_cmd]. exact IH.
Qed.
Lemma loop_winner_plain fails atts : forall s x,
  Forall plain_oracle atts -> snd (loop fails s atts) = Some x -> forallb plain_cmd x = true.
Proof.
  induction atts as [|a r IH]; intros s x HF; [discriminate|].
  inversion HF as [|? ? Ha Hr]; subst.
  cbn [loop]. specialize (Ha (Session.run fails s (evictions (at_victims a)))).
  destruct (at_sim a (Session.run fails s (evictions (at_victims a)))) as [sim ok]. cbn [fst] in Ha.
  destruct ok.
  - cbn [snd]. intros H. inversion H; subst. apply forallb_app'; [apply evictions_plain|exact Ha].
  - specialize (IH (fst (step fails (Session.run fails (Session.run fails s (evictions (at_victims a))) sim)
                              (Rollback (length (s_log s))))) x Hr).
    destruct (loop fails _ r) as [p w]. cbn [snd] in *. exact IH.
Qed.

(** * 2. The erased program of what the solver issues *)
Definition winner (w : option (list cmd)) : list cmd := match w with Some x => x | None => [] end.

Theorem loop_erases_to_winner fails S pre atts :
  forallb plain_cmd pre = true -> Forall plain_oracle atts ->
  erase fails S (pre ++ fst (loop fails (Session.run fails S pre) atts))
  = pre ++ winner (snd (loop fails (Session.run fails S pre) atts)).
Proof.
  intros Hpre HF. unfold erase. rewrite (erase_go_plain fails pre S [] [] [] _ Hpre). cbn [app].
  apply erase_go_loop. exact HF.
Qed.
Lemma winner_program_erases_to_itself fails S pre atts :
  forallb plain_cmd pre = true -> Forall plain_oracle atts ->
  erase fails S (pre ++ winner (snd (loop fails (Session.run fails S pre) atts)))
  = pre ++ winner (snd (loop fails (Session.run fails S pre) atts)).
Proof.
  intros Hpre HF. unfold erase. rewrite erase_go_plain_all; [reflexivity|]. apply forallb_app'; [exact Hpre|].
  destruct (snd (loop fails (Session.run fails S pre) atts)) as [x|] eqn:E; [|reflexivity].
  eapply loop_winner_plain; eassumption.
Qed.

(** * 3. Failed attempts leave no trace *)
Theorem loop_failed_attempts_leave_no_trace fails S pre atts c :
  s_log S = [] -> s_stuck S = false ->
  forallb plain_cmd pre = true -> Forall plain_oracle atts ->
  let p := fst (loop fails (Session.run fails S pre) atts) in
  let w := winner (snd (loop fails (Session.run fails S pre) atts)) in
  wf_from any_task fails [] false S ((pre ++ p) ++ [c]) = true ->
  srel neq (Session.run fails S (pre ++ p)) (Session.run fails S (pre ++ w))
  /\ s_log (Session.run fails S (pre ++ p)) = s_log (Session.run fails S (pre ++ w))
  /\ s_ncalls (Session.run fails S (pre ++ p)) = s_ncalls (Session.run fails S (pre ++ w)).
Proof.
  intros L K Hpre HF p w W.
  assert (Op : forallb open_cmd (pre ++ p) = true)
    by (apply forallb_app'; [apply plain_open_all; exact Hpre|apply loop_open; exact HF]).
  pose proof (erase_open fails S (pre ++ p) c L K Op W) as H.
  unfold p in H at 2 4 6. rewrite (loop_erases_to_winner fails S pre atts Hpre HF) in H. exact H.
Qed.

(** Commit after the loop emits the calls of the successful attempt alone *)
Theorem loop_commit_calls fails S pre atts :
  keyed_b S = true -> s_log S = [] -> s_stuck S = false ->
  forallb plain_cmd pre = true -> Forall plain_oracle atts ->
  let p := fst (loop fails (Session.run fails S pre) atts) in
  let w := winner (snd (loop fails (Session.run fails S pre) atts)) in
  wf_from any_task fails [] false S ((pre ++ p) ++ [Commit]) = true ->
  snd (step fails (Session.run fails S (pre ++ p)) Commit) = snd (step fails (Session.run fails S (pre ++ w)) Commit).
Proof.
  intros Kb L K Hpre HF p w W.
  assert (Op : forallb open_cmd (pre ++ p) = true)
    by (apply forallb_app'; [apply plain_open_all; exact Hpre|apply loop_open; exact HF]).
  pose proof (erase_commit_calls fails S (pre ++ p) Kb L K Op W) as H.
  unfold p in H at 2. rewrite (loop_erases_to_winner fails S pre atts Hpre HF) in H. exact H.
Qed.

(** no attempt succeeded: after the Discard the session is related to the one the statement began in, the log is empty *)
Theorem solve_unsolved_restores fails S recorded atts c :
  s_log S = [] -> s_stuck S = false -> Forall plain_oracle atts ->
  snd (solve fails S recorded atts) = None ->
  wf_from any_task fails [] false S (fst (solve fails S recorded atts) ++ [c]) = true ->
  srel neq (Session.run fails S (fst (solve fails S recorded atts))) S
  /\ s_log (Session.run fails S (fst (solve fails S recorded atts))) = [].
Proof.
  intros L K HF. unfold solve.
  pose proof (loop_erases_to_winner fails S (evictions recorded) atts (evictions_plain recorded) HF) as HE.
  pose proof (loop_open fails atts (Session.run fails S (evictions recorded)) HF) as HO.
  destruct (loop fails (Session.run fails S (evictions recorded)) atts) as [p w].
  cbn [fst snd] in *. destruct w as [x|]; [discriminate|]. intros _ W. cbn [fst] in *.
  assert (Op : forallb open_cmd (evictions recorded ++ p ++ [Discard]) = true).
  { apply forallb_app'; [apply plain_open_all; apply evictions_plain|]. apply forallb_app'; [exact HO|reflexivity]. }
  destruct (erase_open fails S _ c L K Op W) as (Sr & El & _).
  assert (Er : erase fails S (evictions recorded ++ p ++ [Discard]) = []).
  { unfold erase in *. rewrite app_assoc.
    assert (G : forall l s stk base kept, forallb open_cmd l = true ->
                erase_go fails s stk base kept (l ++ [Discard]) = base).
    { induction l as [|c0 l IH]; intros s0 stk base kept Ho; [reflexivity|].
      cbn [forallb] in Ho. apply andb_true_iff in Ho. destruct Ho as [Hc Hl].
      cbn [app erase_go]. destruct c0; cbn in Hc; try discriminate; try (apply IH; exact Hl).
      destruct (find _ stk); apply IH; exact Hl. }
    apply G. apply forallb_app'; [apply plain_open_all; apply evictions_plain|exact HO]. }
  rewrite Er in Sr, El. cbn in Sr, El. split; [exact Sr|]. rewrite El. exact L.
Qed.

(** * 4. The checkpoint taken after the evictions (seeded change C13-4): an abandoned attempt's eviction is committed

    The world of seeded/C13-4/README.md as the harness builds it (corpus V1 of harness/internal/c13/solver.go; the
    term is the initial session the driver printed): nodes 1, 2 (node0, node1) with 4 GPUs; pods 4 blocker (2 GPUs,
    node0), 6 small0 (node0), 8 small1 (node1), 10 / 11 the gang (node0 / node1), 13 the pending pod (4 GPUs).
    Attempt "node0" evicts 6, 10, 11 and its simulation fails; attempt "node1" evicts 8, 10, 11 and succeeds. *)
Definition w13_init : sess :=
  (mkSess [(1%positive, (mkNode (mkRes 16000%Z 68719476736%Z 4%Z 110%Z 0%Z 0%Z) (mkRes 15700%Z 68716331008%Z 0%Z 107%Z 0%Z 0%Z) (mkRes 300%Z 3145728%Z 4%Z 3%Z 0%Z 0%Z) (mkRes 0%Z 0%Z 0%Z 0%Z 0%Z 0%Z) 4%Z 100%Z [(4%positive, (mkTask 4%positive 3%positive Running KRegular (mkRes 100%Z 1048576%Z 2%Z 1%Z 0%Z 0%Z) 2%Z 0%Z [] false false));
   (6%positive, (mkTask 6%positive 5%positive Running KRegular (mkRes 100%Z 1048576%Z 1%Z 1%Z 0%Z 0%Z) 1%Z 0%Z [] false false));
   (10%positive, (mkTask 10%positive 9%positive Running KRegular (mkRes 100%Z 1048576%Z 1%Z 1%Z 0%Z 0%Z) 1%Z 0%Z [] false false))] [] [] [] []));
   (2%positive, (mkNode (mkRes 16000%Z 68719476736%Z 4%Z 110%Z 0%Z 0%Z) (mkRes 15800%Z 68717379584%Z 2%Z 108%Z 0%Z 0%Z) (mkRes 200%Z 2097152%Z 2%Z 2%Z 0%Z 0%Z) (mkRes 0%Z 0%Z 0%Z 0%Z 0%Z 0%Z) 4%Z 100%Z [(8%positive, (mkTask 8%positive 7%positive Running KRegular (mkRes 100%Z 1048576%Z 1%Z 1%Z 0%Z 0%Z) 1%Z 0%Z [] false false));
   (11%positive, (mkTask 11%positive 9%positive Running KRegular (mkRes 100%Z 1048576%Z 1%Z 1%Z 0%Z 0%Z) 1%Z 0%Z [] false false))] [] [] [] []))] [(4%positive, (mkPod (mkTask 4%positive 3%positive Running KRegular (mkRes 100%Z 1048576%Z 2%Z 1%Z 0%Z 0%Z) 2%Z 0%Z [] false false) (Some 1%positive) false 14%positive (mkRes 100%Z 1048576%Z 2000%Z 0%Z 0%Z 0%Z) (mkRes 100%Z 1048576%Z 2000%Z 0%Z 0%Z 0%Z) [(1%positive, 0%Z);
   (2%positive, 0%Z)] [(1%positive, (mkRes 100%Z 1048576%Z 2000%Z 0%Z 0%Z 0%Z));
   (2%positive, (mkRes 100%Z 1048576%Z 2000%Z 0%Z 0%Z 0%Z))]));
   (6%positive, (mkPod (mkTask 6%positive 5%positive Running KRegular (mkRes 100%Z 1048576%Z 1%Z 1%Z 0%Z 0%Z) 1%Z 0%Z [] false false) (Some 1%positive) false 15%positive (mkRes 100%Z 1048576%Z 1000%Z 0%Z 0%Z 0%Z) (mkRes 100%Z 1048576%Z 1000%Z 0%Z 0%Z 0%Z) [(1%positive, 0%Z);
   (2%positive, 0%Z)] [(1%positive, (mkRes 100%Z 1048576%Z 1000%Z 0%Z 0%Z 0%Z));
   (2%positive, (mkRes 100%Z 1048576%Z 1000%Z 0%Z 0%Z 0%Z))]));
   (8%positive, (mkPod (mkTask 8%positive 7%positive Running KRegular (mkRes 100%Z 1048576%Z 1%Z 1%Z 0%Z 0%Z) 1%Z 0%Z [] false false) (Some 2%positive) false 16%positive (mkRes 100%Z 1048576%Z 1000%Z 0%Z 0%Z 0%Z) (mkRes 100%Z 1048576%Z 1000%Z 0%Z 0%Z 0%Z) [(1%positive, 0%Z);
   (2%positive, 0%Z)] [(1%positive, (mkRes 100%Z 1048576%Z 1000%Z 0%Z 0%Z 0%Z));
   (2%positive, (mkRes 100%Z 1048576%Z 1000%Z 0%Z 0%Z 0%Z))]));
   (10%positive, (mkPod (mkTask 10%positive 9%positive Running KRegular (mkRes 100%Z 1048576%Z 1%Z 1%Z 0%Z 0%Z) 1%Z 0%Z [] false false) (Some 1%positive) false 17%positive (mkRes 100%Z 1048576%Z 1000%Z 0%Z 0%Z 0%Z) (mkRes 100%Z 1048576%Z 1000%Z 0%Z 0%Z 0%Z) [(1%positive, 0%Z);
   (2%positive, 0%Z)] [(1%positive, (mkRes 100%Z 1048576%Z 1000%Z 0%Z 0%Z 0%Z));
   (2%positive, (mkRes 100%Z 1048576%Z 1000%Z 0%Z 0%Z 0%Z))]));
   (11%positive, (mkPod (mkTask 11%positive 9%positive Running KRegular (mkRes 100%Z 1048576%Z 1%Z 1%Z 0%Z 0%Z) 1%Z 0%Z [] false false) (Some 2%positive) false 17%positive (mkRes 100%Z 1048576%Z 1000%Z 0%Z 0%Z 0%Z) (mkRes 100%Z 1048576%Z 1000%Z 0%Z 0%Z 0%Z) [(1%positive, 0%Z);
   (2%positive, 0%Z)] [(1%positive, (mkRes 100%Z 1048576%Z 1000%Z 0%Z 0%Z 0%Z));
   (2%positive, (mkRes 100%Z 1048576%Z 1000%Z 0%Z 0%Z 0%Z))]));
   (13%positive, (mkPod (mkTask 13%positive 12%positive Pending KRegular (mkRes 100%Z 1048576%Z 4%Z 1%Z 0%Z 0%Z) 4%Z 0%Z [] false false) None false 18%positive (mkRes 100%Z 1048576%Z 4000%Z 0%Z 0%Z 0%Z) (mkRes 100%Z 1048576%Z 4000%Z 0%Z 0%Z 0%Z) [(1%positive, 0%Z);
   (2%positive, 0%Z)] [(1%positive, (mkRes 100%Z 1048576%Z 4000%Z 0%Z 0%Z 0%Z));
   (2%positive, (mkRes 100%Z 1048576%Z 4000%Z 0%Z 0%Z 0%Z))]))] [(3%positive, (mkJob 20%positive true (mkRes 100%Z 1048576%Z 2000%Z 0%Z 0%Z 0%Z) 1%Z [(7%positive, 1%Z)] [(14%positive, (mkPsc 1%Z 1%Z 1%Z [(1%positive, 0%Z);
   (2%positive, 0%Z)]))]));
   (5%positive, (mkJob 20%positive false (mkRes 100%Z 1048576%Z 1000%Z 0%Z 0%Z 0%Z) 1%Z [(7%positive, 1%Z)] [(15%positive, (mkPsc 1%Z 1%Z 1%Z [(1%positive, 0%Z);
   (2%positive, 0%Z)]))]));
   (7%positive, (mkJob 20%positive false (mkRes 100%Z 1048576%Z 1000%Z 0%Z 0%Z 0%Z) 1%Z [(7%positive, 1%Z)] [(16%positive, (mkPsc 1%Z 1%Z 1%Z [(1%positive, 0%Z);
   (2%positive, 0%Z)]))]));
   (9%positive, (mkJob 20%positive false (mkRes 200%Z 2097152%Z 2000%Z 0%Z 0%Z 0%Z) 2%Z [(7%positive, 2%Z)] [(17%positive, (mkPsc 2%Z 2%Z 2%Z [(1%positive, 0%Z);
   (2%positive, 0%Z)]))]));
   (12%positive, (mkJob 20%positive true (mkRes 0%Z 0%Z 0%Z 0%Z 0%Z 0%Z) 0%Z [(1%positive, 1%Z)] [(18%positive, (mkPsc 0%Z 0%Z 1%Z [(1%positive, 1%Z);
   (2%positive, 0%Z)]))]))] [(19%positive, (mkQ None (mkRes 500%Z 5242880%Z 6000%Z 0%Z 0%Z 0%Z) (mkRes 100%Z 1048576%Z 2000%Z 0%Z 0%Z 0%Z)));
   (20%positive, (mkQ (Some 19%positive) (mkRes 500%Z 5242880%Z 6000%Z 0%Z 0%Z 0%Z) (mkRes 100%Z 1048576%Z 2000%Z 0%Z 0%Z 0%Z)))] [] 0%nat false).

Definition sim_fails : oracle := fun _ => ([], false).
(** the simulation of the successful attempt on the code as it is: the pending pod on node1, small1 re-placed on node0 *)
Definition w13_atts : list attempt :=
  [mkAtt [6; 10; 11]%positive sim_fails;
   mkAtt [8; 10; 11]%positive (fun _ => ([Pipeline 13 2 None false; Pipeline 8 1 None false], true))].
(** ... and with the checkpoint after the evictions (what the real solver did in the replay of seeded/C13-4): small0 is
    still evicted, so gang-0 goes back to its own GPU (Pipeline onto its own node un-evicts it) and gang-1 moves
    to node0 *)
Definition w13_atts_late : list attempt :=
  [mkAtt [6; 10; 11]%positive sim_fails;
   mkAtt [8; 10; 11]%positive (fun _ => ([Pipeline 13 2 None false; Pipeline 10 1 None false; Pipeline 11 1 None false], true))].

Definition w13_prog := fst (loop nofail w13_init w13_atts).
Definition w13_prog_late := fst (loop_late nofail w13_init w13_atts_late).

(** the code's loop on this world: well-formed; Commit evicts exactly the victims of the successful attempt *)
Theorem solver_loop_readme_world :
  keyed_b w13_init = true /\ s_log w13_init = [] /\ s_stuck w13_init = false
  /\ wf_from any_task nofail [] false w13_init (w13_prog ++ [Commit]) = true
  /\ w13_prog = [Checkpoint; Evict 6; Evict 10; Evict 11; Rollback 0; Checkpoint; Evict 8; Evict 10; Evict 11;
                 Pipeline 13 2 None false; Pipeline 8 1 None false]
  /\ snd (loop nofail w13_init w13_atts) = Some [Evict 8; Evict 10; Evict 11; Pipeline 13 2 None false; Pipeline 8 1 None false]
  /\ evict_entries (s_log (Session.run nofail w13_init w13_prog)) = [8; 10; 11]%positive
  /\ snd (step nofail (Session.run nofail w13_init w13_prog) Commit)
     = [AEvict 8; AEvict 10; AEvict 11; APipe 13 (Some 2%positive) []; APipe 8 (Some 1%positive) []]
  /\ winner_victims nofail w13_init w13_atts = [8; 10; 11]%positive.
Proof. vm_compute. repeat split; reflexivity. Qed.

(** with the checkpoint after the evictions: a well-formed statement too, but the eviction of pod 6 (small0), made for
    the abandoned attempt on node0, is still in the log after the loop, Commit sends it to the cluster, and pod 6
    is not among the victims of the successful attempt *)
Theorem solver_loop_late_readme_world :
  wf_from any_task nofail [] false w13_init (w13_prog_late ++ [Commit]) = true
  /\ w13_prog_late = [Evict 6; Evict 10; Evict 11; Checkpoint; Rollback 3; Evict 8; Evict 10; Evict 11; Checkpoint;
                      Pipeline 13 2 None false; Pipeline 10 1 None false; Pipeline 11 1 None false]
  /\ existsb (Pos.eqb 6) (evict_entries (s_log (Session.run nofail w13_init w13_prog_late))) = true
  /\ evicted_by (snd (step nofail (Session.run nofail w13_init w13_prog_late) Commit)) = [6; 11; 8]%positive
  /\ winner_victims_late nofail w13_init w13_atts_late = [8; 10; 11]%positive
  /\ existsb (Pos.eqb 6) (winner_victims_late nofail w13_init w13_atts_late) = false
  /\ (match get_pod (Session.run nofail w13_init w13_prog_late) 6 with
      | Some p => p_status p
      | None => Pending
      end) = Releasing.
Proof. vm_compute. repeat split; reflexivity. Qed.

(** the statement of [loop_failed_attempts_leave_no_trace] (its log clause) for an arbitrary loop *)
Definition failed_attempts_leave_no_trace_for
  (L : (nat -> bool) -> sess -> list attempt -> list cmd * option (list cmd)) : Prop :=
  forall fails S pre atts c,
    s_log S = [] -> s_stuck S = false -> forallb plain_cmd pre = true -> Forall plain_oracle atts ->
    wf_from any_task fails [] false S ((pre ++ fst (L fails (Session.run fails S pre) atts)) ++ [c]) = true ->
    s_log (Session.run fails S (pre ++ fst (L fails (Session.run fails S pre) atts)))
    = s_log (Session.run fails S (pre ++ winner (snd (L fails (Session.run fails S pre) atts)))).

Theorem failed_attempts_leave_no_trace_code : failed_attempts_leave_no_trace_for loop.
Proof.
  intros fails S pre atts c L K Hpre HF W.
  exact (proj1 (proj2 (loop_failed_attempts_leave_no_trace fails S pre atts c L K Hpre HF W))).
Qed.

Theorem checkpoint_after_evictions_refuted : ~ failed_attempts_leave_no_trace_for loop_late.
Proof.
  intros H.
  assert (HF : Forall plain_oracle w13_atts_late).
  { repeat constructor; intros s; reflexivity. }
  pose proof (H nofail w13_init [] w13_atts_late Commit eq_refl eq_refl eq_refl HF) as H1.
  match type of H1 with ?P -> _ => assert (W : P) by (vm_compute; reflexivity) end.
  specialize (H1 W).
  assert (E : existsb (Pos.eqb 6) (evict_entries (s_log (Session.run nofail w13_init
               ([] ++ fst (loop_late nofail (Session.run nofail w13_init []) w13_atts_late))))) = true)
    by (vm_compute; reflexivity).
  rewrite H1 in E. vm_compute in E. discriminate E.
Qed.
