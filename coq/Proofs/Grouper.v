(** Proofs for C18 (pod-grouper). *)
From Coq Require Import List String Ascii ZArith Bool Arith Lia.
From KaiV Require Import Model.Grouper Model.GrouperSpec.
Import ListNotations.
Set Default Timeout 60.
Open Scope string_scope.

(** * Association lists *)
Section AListFacts.
  Context {A : Type}.
  Implicit Types (m : list (string * A)) (k : string) (v : A).

  Lemma lookup_aset_same : forall m k v, lookup k (aset k v m) = Some v.
  Proof.
    induction m as [|[k' v'] r IH]; intros k v; cbn.
    - now rewrite String.eqb_refl.
    - destruct (String.eqb k k') eqn:E; cbn; rewrite ?String.eqb_refl, ?E; auto.
  Qed.

  Lemma lookup_aset_other : forall m k k' v, k <> k' -> lookup k' (aset k v m) = lookup k' m.
  Proof.
    induction m as [|[k0 v0] r IH]; intros k k' v Hne; cbn.
    - destruct (String.eqb_spec k' k); [congruence|reflexivity].
    - destruct (String.eqb_spec k k0) as [->|Hk]; cbn.
      + destruct (String.eqb_spec k' k0); [congruence|reflexivity].
      + destruct (String.eqb_spec k' k0); auto.
  Qed.

  Lemma lookup_aset : forall m k k' v,
      lookup k' (aset k v m) = if String.eqb k' k then Some v else lookup k' m.
  Proof.
    intros m k k' v. destruct (String.eqb_spec k' k) as [->|Hne].
    - apply lookup_aset_same.
    - apply lookup_aset_other; congruence.
  Qed.

  Lemma aset_noop : forall m k v, lookup k m = Some v -> aset k v m = m.
  Proof.
    induction m as [|[k' v'] r IH]; intros k v H; cbn in *; [discriminate|].
    destruct (String.eqb_spec k k') as [->|Hne].
    - now inversion H.
    - now rewrite IH.
  Qed.

  Lemma adel_noop : forall m k, lookup k m = None -> adel k m = m.
  Proof.
    induction m as [|[k' v'] r IH]; intros k H; cbn in *; [reflexivity|].
    destruct (String.eqb k k'); [discriminate|]. now rewrite IH.
  Qed.

  Lemma lookup_adel : forall m k k',
      lookup k' (adel k m) = if String.eqb k' k then None else lookup k' m.
  Proof.
    induction m as [|[k0 v0] r IH]; intros k k'; cbn.
    - now destruct (String.eqb k' k).
    - destruct (String.eqb_spec k k0) as [->|Hk]; cbn.
      + rewrite IH. destruct (String.eqb_spec k' k0); auto.
      + destruct (String.eqb_spec k' k0) as [->|Hk'].
        * destruct (String.eqb_spec k0 k); [congruence|reflexivity].
        * apply IH.
  Qed.

  Lemma aset_not_nil : forall m k v, aset k v m <> [].
  Proof. intros [|[k' v'] r] k v; cbn; [discriminate|]. destruct (String.eqb k k'); discriminate. Qed.
End AListFacts.

(** the loop of copy_into over a part [l] of the source *)
Definition copy_loop (src l t : smap) : smap :=
  fold_left (fun t kv => match lookup (fst kv) src with
                         | Some v => aset (fst kv) v t
                         | None => t
                         end) l t.

Lemma copy_into_loop : forall s t, copy_into s t = copy_loop s s t.
Proof. reflexivity. Qed.

Lemma copy_loop_cons : forall src kv r t,
    copy_loop src (kv :: r) t =
    copy_loop src r (match lookup (fst kv) src with Some v => aset (fst kv) v t | None => t end).
Proof. reflexivity. Qed.

Lemma copy_loop_fix : forall src l t,
    (forall k v, lookup k src = Some v -> lookup k t = Some v) -> copy_loop src l t = t.
Proof.
  intros src l. induction l as [|[k v] r IH]; intros t H; [reflexivity|].
  rewrite copy_loop_cons. cbn [fst]. destruct (lookup k src) eqn:E.
  - rewrite (aset_noop t k s (H _ _ E)). now apply IH.
  - now apply IH.
Qed.

Lemma lookup_copy_loop : forall src l t k,
    lookup k (copy_loop src l t) =
    if existsb (fun kv => String.eqb k (fst kv)) l
    then match lookup k src with Some v => Some v | None => lookup k t end
    else lookup k t.
Proof.
  intros src l. induction l as [|[k0 v0] r IH]; intros t k; [reflexivity|].
  rewrite copy_loop_cons, IH. cbn [fst existsb]. destruct (String.eqb_spec k k0) as [->|Hne]; cbn [orb].
  - destruct (lookup k0 src) eqn:E.
    + rewrite lookup_aset_same. now destruct (existsb _ r).
    + now destruct (existsb _ r).
  - destruct (lookup k0 src) eqn:E; [|reflexivity].
    rewrite lookup_aset_other by congruence. reflexivity.
Qed.

Lemma lookup_in_keys : forall (s : smap) k v,
    lookup k s = Some v -> existsb (fun kv => String.eqb k (fst kv)) s = true.
Proof.
  induction s as [|[k0 v0] r IH]; intros k v H; cbn in *; [discriminate|].
  destruct (String.eqb k k0); [reflexivity|]. now apply IH with v.
Qed.

Lemma lookup_copy_into : forall s t k,
    lookup k (copy_into s t) = match lookup k s with Some v => Some v | None => lookup k t end.
Proof.
  intros s t k. rewrite copy_into_loop, lookup_copy_loop.
  destruct (lookup k s) eqn:E.
  - now rewrite (lookup_in_keys _ _ _ E).
  - now destruct (existsb _ s).
Qed.

Lemma copy_into_idem : forall s t, copy_into s (copy_into s t) = copy_into s t.
Proof.
  intros s t. rewrite (copy_into_loop s (copy_into s t)). apply copy_loop_fix.
  intros k v H. now rewrite lookup_copy_into, H.
Qed.

Lemma copy_into_self : forall s, copy_into s s = s.
Proof. intros s. rewrite copy_into_loop. now apply copy_loop_fix. Qed.

Lemma copy_loop_nil : forall src l t, copy_loop src l t = [] -> t = [].
Proof.
  intros src l. induction l as [|[k v] r IH]; intros t H; [assumption|].
  rewrite copy_loop_cons in H. cbn [fst] in H. destruct (lookup k src).
  - apply IH in H. now apply aset_not_nil in H.
  - now apply IH.
Qed.

Lemma copy_into_nil : forall s t, copy_into s t = [] -> t = [].
Proof. intros s t. rewrite copy_into_loop. apply copy_loop_nil. Qed.

(** * norm and nil-able maps *)
Definition or_nil (m : option smap) : smap := match m with None => [] | Some l => l end.

Lemma mget_or_nil : forall k m, mget k m = lookup k (or_nil m).
Proof. intros k [l|]; reflexivity. Qed.

Lemma or_nil_norm_map : forall m, or_nil (norm_map m) = or_nil m.
Proof. intros [[|x l]|]; reflexivity. Qed.

Lemma mget_norm_map : forall k m, mget k (norm_map m) = mget k m.
Proof. intros k m. now rewrite !mget_or_nil, or_nil_norm_map. Qed.

Lemma norm_map_idem : forall m, norm_map (norm_map m) = norm_map m.
Proof. intros [[|x l]|]; reflexivity. Qed.

Lemma norm_slice_idem : forall A (l : option (list A)), norm_slice (norm_slice l) = norm_slice l.
Proof. intros A [[|x l]|]; reflexivity. Qed.

Lemma norm_idem : forall g, norm (norm g) = norm g.
Proof. intros g. unfold norm; cbn. now rewrite !norm_map_idem, norm_slice_idem. Qed.

Lemma copy_string_map_some : forall s t,
    copy_string_map (Some s) t = Some (copy_into s (or_nil t)).
Proof. intros s [t|]; reflexivity. Qed.

(** writing a merged map, reading it back, merging the same source again: nothing changes *)
Lemma csm_round_trip : forall src t,
    norm_map (copy_string_map src (norm_map (copy_string_map src t))) = norm_map (copy_string_map src t).
Proof.
  intros [s|] t; [|apply norm_map_idem].
  rewrite !copy_string_map_some, or_nil_norm_map. cbn [or_nil]. now rewrite copy_into_idem.
Qed.

(** * Equality helpers are reflexive *)
Lemma opt_eqb_refl : forall A (e : A -> A -> bool), (forall x, e x x = true) -> forall o, opt_eqb e o o = true.
Proof. intros A e H [x|]; cbn; auto. Qed.
Lemma list_eqb_refl : forall A (e : A -> A -> bool), (forall x, e x x = true) -> forall l, list_eqb e l l = true.
Proof. intros A e H l; induction l; cbn; auto. rewrite H; auto. Qed.
Lemma owner_ref_eqb_refl : forall x, owner_ref_eqb x x = true.
Proof. intros x. unfold owner_ref_eqb. now rewrite !String.eqb_refl. Qed.
Lemma subgroup_eqb_refl : forall x, subgroup_eqb x x = true.
Proof.
  intros x. unfold subgroup_eqb. rewrite String.eqb_refl, Z.eqb_refl. cbn.
  apply opt_eqb_refl. apply String.eqb_refl.
Qed.
Lemma topo_eqb_refl : forall x, topo_eqb x x = true.
Proof. intros x. unfold topo_eqb. now rewrite !String.eqb_refl. Qed.

Lemma spec_eqb_fields : forall a b,
    sp_min a = sp_min b -> sp_queue a = sp_queue b -> sp_prio a = sp_prio b ->
    sp_preempt a = sp_preempt b -> sp_mark a = sp_mark b -> sp_backoff a = sp_backoff b ->
    sp_subgroups a = sp_subgroups b -> sp_topo a = sp_topo b -> spec_eqb a b = true.
Proof.
  intros a b H1 H2 H3 H4 H5 H6 H7 H8. unfold spec_eqb.
  rewrite H1, H2, H3, H4, H5, H6, H7, H8, Z.eqb_refl, !String.eqb_refl, topo_eqb_refl. cbn.
  rewrite (opt_eqb_refl _ Bool.eqb) by (intros []; reflexivity).
  rewrite (opt_eqb_refl _ Z.eqb) by apply Z.eqb_refl.
  rewrite (opt_eqb_refl _ (list_eqb subgroup_eqb)) by (apply list_eqb_refl, subgroup_eqb_refl).
  reflexivity.
Qed.

(** source keys are all present in a map they were merged into *)
Lemma maps_equal_after_copy : forall s t,
    maps_equal_by_source_keys (norm_map (Some s)) (norm_map (Some (copy_into s t))) = true.
Proof.
  intros s t. destruct s as [|[k v] r] eqn:Es; [reflexivity|].
  rewrite <- Es. assert (norm_map (Some s) = Some s) as -> by now rewrite Es.
  destruct (copy_into s t) as [|y c] eqn:Ec.
  - exfalso. assert (lookup k (copy_into s t) = Some v) as Hl.
    { rewrite lookup_copy_into, Es. cbn. now rewrite String.eqb_refl. }
    rewrite Ec in Hl. discriminate.
  - cbn [norm_map maps_equal_by_source_keys]. rewrite <- Ec. apply forallb_forall.
    intros [k' v'] Hin. cbn [fst]. rewrite lookup_copy_into.
    destruct (lookup k' s) eqn:E.
    + cbn. apply String.eqb_refl.
    + exfalso. clear - Hin E. induction s as [|[k0 v0] r IH]; cbn in *; [contradiction|].
      destruct Hin as [H|H].
      * inversion H; subst. now rewrite String.eqb_refl in E.
      * destruct (String.eqb k' k0); [discriminate|]. auto.
Qed.

(** * ApplyToCluster on one slot *)

(** the label steps of ignoreFields *)
Definition np_step (cfg : config) (o l : smap) : smap :=
  match lookup (c_nodepool_key cfg) o with
  | Some v => aset (c_nodepool_key cfg) v l
  | None => adel (c_nodepool_key cfg) l
  end.
Definition q_step (cfg : config) (o l : smap) : smap :=
  match lookup (c_queue_key cfg) o with
  | Some v => aset (c_queue_key cfg) v l
  | None => l
  end.
Definition ignored_labels (cfg : config) (old new : pg) : smap :=
  q_step cfg (or_nil (pg_labels old)) (np_step cfg (or_nil (pg_labels old)) (or_nil (pg_labels new))).

Lemma ignore_fields_labels : forall cfg old new,
    pg_labels (ignore_fields cfg old new) = Some (ignored_labels cfg old new).
Proof.
  intros cfg old new. unfold ignore_fields, ignored_labels, q_step, np_step. cbn [pg_labels].
  rewrite !mget_or_nil. destruct (pg_labels new); reflexivity.
Qed.

(** ignoreFields gives the new object exactly the old node-pool label *)
Lemma ignored_nodepool : forall cfg o l,
    lookup (c_nodepool_key cfg) (q_step cfg o (np_step cfg o l)) = lookup (c_nodepool_key cfg) o.
Proof.
  intros cfg o l. unfold q_step, np_step.
  destruct (lookup (c_queue_key cfg) o) eqn:Eq; destruct (lookup (c_nodepool_key cfg) o) eqn:En;
    rewrite ?lookup_aset, ?lookup_adel, ?String.eqb_refl; try reflexivity.
  - destruct (String.eqb_spec (c_nodepool_key cfg) (c_queue_key cfg)) as [E|E]; [|reflexivity].
    rewrite E in En. congruence.
  - destruct (String.eqb_spec (c_nodepool_key cfg) (c_queue_key cfg)) as [E|E]; [|reflexivity].
    rewrite E in En. congruence.
Qed.

Lemma ignored_queue_label : forall cfg o l v,
    lookup (c_queue_key cfg) o = Some v ->
    lookup (c_queue_key cfg) (q_step cfg o (np_step cfg o l)) = Some v.
Proof. intros cfg o l v H. unfold q_step. rewrite H. apply lookup_aset_same. Qed.

(** computing the ignored labels against the merged result gives the same list again *)
Lemma ignored_labels_stable : forall cfg o l,
    let l' := q_step cfg o (np_step cfg o l) in
    q_step cfg (copy_into l' o) (np_step cfg (copy_into l' o) l) = l'.
Proof.
  intros cfg o l l'.
  assert (np_step cfg (copy_into l' o) l = np_step cfg o l) as Hnp.
  { unfold np_step at 1. rewrite lookup_copy_into. unfold l'. rewrite ignored_nodepool.
    unfold np_step. destruct (lookup (c_nodepool_key cfg) o); reflexivity. }
  rewrite Hnp. unfold q_step at 1. rewrite lookup_copy_into.
  destruct (lookup (c_queue_key cfg) l') eqn:El.
  - unfold l' in *. unfold q_step in *. destruct (lookup (c_queue_key cfg) o) eqn:Eo.
    + rewrite lookup_aset_same in El. now inversion El.
    + now apply aset_noop.
  - unfold l' in *. unfold q_step in *. destruct (lookup (c_queue_key cfg) o) eqn:Eo; [|reflexivity].
    rewrite lookup_aset_same in El. discriminate.
Qed.

Lemma ignored_labels_self : forall cfg l, q_step cfg l (np_step cfg l l) = l.
Proof.
  intros cfg l.
  assert (np_step cfg l l = l) as ->.
  { unfold np_step. destruct (lookup (c_nodepool_key cfg) l) eqn:E; [now apply aset_noop|now apply adel_noop]. }
  unfold q_step. destruct (lookup (c_queue_key cfg) l) eqn:E; [now apply aset_noop|reflexivity].
Qed.

(** the two shapes a slot can have after a write by ApplyToCluster *)
Definition written (cfg : config) (m : metadata) (cur : option pg) : pg :=
  match cur with
  | None => norm (create_pg m)
  | Some old => norm (update_pg old (ignore_fields cfg old (create_pg m)))
  end.

Lemma or_nil_written_labels : forall cfg m cur,
    or_nil (pg_labels (written cfg m cur)) =
    match cur with
    | None => or_nil (m_labels m)
    | Some old => copy_into (ignored_labels cfg old (create_pg m)) (or_nil (pg_labels old))
    end.
Proof.
  intros cfg m [old|]; cbn [written norm pg_labels update_pg create_pg].
  - rewrite ignore_fields_labels, copy_string_map_some, or_nil_norm_map. reflexivity.
  - apply or_nil_norm_map.
Qed.

(** ignoreFields against what was just written reproduces the labels that were written from *)
Lemma ignored_labels_written : forall cfg m cur,
    ignored_labels cfg (written cfg m cur) (create_pg m) =
    match cur with
    | None => or_nil (m_labels m)
    | Some old => ignored_labels cfg old (create_pg m)
    end.
Proof.
  intros cfg m cur. unfold ignored_labels at 1. rewrite or_nil_written_labels.
  destruct cur as [old|].
  - unfold ignored_labels. apply ignored_labels_stable.
  - cbn [create_pg pg_labels]. apply ignored_labels_self.
Qed.

Lemma written_again : forall cfg m cur,
    norm (update_pg (written cfg m cur) (ignore_fields cfg (written cfg m cur) (create_pg m)))
    = written cfg m cur.
Proof.
  intros cfg m cur.
  assert (pg_labels (norm (update_pg (written cfg m cur) (ignore_fields cfg (written cfg m cur) (create_pg m))))
          = pg_labels (written cfg m cur)) as Hl.
  { cbn [norm pg_labels update_pg]. rewrite ignore_fields_labels, copy_string_map_some.
    rewrite ignored_labels_written, or_nil_written_labels.
    destruct cur as [old|]; cbn [written norm pg_labels update_pg create_pg].
    - rewrite ignore_fields_labels, copy_string_map_some, copy_into_idem. reflexivity.
    - rewrite copy_into_self. now destruct (m_labels m) as [[|x l]|]. }
  assert (pg_annots (norm (update_pg (written cfg m cur) (ignore_fields cfg (written cfg m cur) (create_pg m))))
          = pg_annots (written cfg m cur)) as Ha.
  { destruct cur as [old|]; cbn [written norm pg_annots update_pg create_pg ignore_fields].
    - apply csm_round_trip.
    - destruct (m_annots m) as [s|]; [|reflexivity].
      rewrite copy_string_map_some, or_nil_norm_map. cbn [or_nil]. rewrite copy_into_self.
      reflexivity. }
  destruct cur as [old|]; cbn [written] in *;
    unfold norm in *; cbn [pg_labels pg_annots] in Hl, Ha; cbn -[norm_map copy_string_map ignore_fields] in *;
    f_equal; try assumption; try apply norm_slice_idem.
Qed.

Lemma apply_slot_cases : forall eq cfg m cur,
    (fst (apply_slot_with eq cfg m cur) = written cfg m cur /\ snd (apply_slot_with eq cfg m cur) = 1%Z)
    \/ (exists old, cur = Some old /\ eq old (ignore_fields cfg old (create_pg m)) = true
                    /\ apply_slot_with eq cfg m cur = (old, 0%Z)).
Proof.
  intros eq cfg m [old|]; unfold apply_slot_with.
  - destruct (eq old (ignore_fields cfg old (create_pg m))) eqn:E.
    + right. exists old. auto.
    + left. split; reflexivity.
  - left. split; reflexivity.
Qed.

(** (S1) a second application leaves the slot as the first one left it, whatever the equality test *)
Lemma apply_slot_idem_state : forall eq cfg m cur,
    fst (apply_slot_with eq cfg m (Some (fst (apply_slot_with eq cfg m cur)))) = fst (apply_slot_with eq cfg m cur).
Proof.
  intros eq cfg m cur.
  destruct (apply_slot_cases eq cfg m cur) as [[Hw _]|[old [-> [E Hr]]]].
  - rewrite Hw. unfold apply_slot_with.
    destruct (eq _ _); cbn [fst]; [reflexivity|apply written_again].
  - rewrite Hr. cbn [fst]. unfold apply_slot_with. now rewrite E.
Qed.

Lemma norm_written : forall cfg m cur, norm (written cfg m cur) = written cfg m cur.
Proof. intros cfg m [old|]; apply norm_idem. Qed.

Lemma maps_equal_norm_self : forall ml,
    maps_equal_by_source_keys (norm_map ml) (norm_map ml) = true.
Proof.
  intros [l|]; [|reflexivity].
  rewrite <- (copy_into_self l) at 2. apply maps_equal_after_copy.
Qed.

(** (S2) with the repaired comparison, what ApplyToCluster wrote is recognised as up to date *)
Lemma written_is_equal_fixed : forall cfg m cur,
    pg_equal_fixed (written cfg m cur) (ignore_fields cfg (written cfg m cur) (create_pg m)) = true.
Proof.
  intros cfg m cur. unfold pg_equal_fixed. rewrite norm_written. unfold pg_equal_v0.
  rewrite !andb_true_iff. repeat split.
  - apply spec_eqb_fields; destruct cur as [old|]; try reflexivity;
      cbn [written norm update_pg ignore_fields create_pg sp_subgroups]; now rewrite ?norm_slice_idem.
  - destruct cur as [old|]; cbn; now rewrite owner_ref_eqb_refl.
  - cbn [norm pg_labels]. rewrite ignore_fields_labels, ignored_labels_written.
    destruct cur as [old|]; cbn [written norm pg_labels update_pg create_pg].
    + rewrite ignore_fields_labels, copy_string_map_some. apply maps_equal_after_copy.
    + destruct (m_labels m) as [l|]; [|reflexivity]. cbn [or_nil]. apply (maps_equal_norm_self (Some l)).
  - destruct cur as [old|]; cbn [written norm pg_annots update_pg create_pg ignore_fields].
    + destruct (m_annots m) as [s|]; [|reflexivity].
      rewrite copy_string_map_some. apply maps_equal_after_copy.
    + apply maps_equal_norm_self.
Qed.

Lemma apply_slot_fixed_second_zero : forall cfg m cur,
    snd (apply_slot_with pg_equal_fixed cfg m (Some (fst (apply_slot_with pg_equal_fixed cfg m cur)))) = 0%Z.
Proof.
  intros cfg m cur.
  destruct (apply_slot_cases pg_equal_fixed cfg m cur) as [[Hw _]|[old [-> [E Hr]]]].
  - rewrite Hw. unfold apply_slot_with. now rewrite written_is_equal_fixed.
  - rewrite Hr. cbn [fst]. unfold apply_slot_with. now rewrite E.
Qed.

(** (S3) fields owned by other actors survive ApplyToCluster, whatever the equality test *)
Lemma apply_slot_foreign_view : forall eq cfg m old,
    foreign_view cfg (fst (apply_slot_with eq cfg m (Some old))) = foreign_view cfg old.
Proof.
  intros eq cfg m old. unfold apply_slot_with.
  destruct (eq old _); cbn [fst]; [reflexivity|].
  unfold foreign_view. cbn [norm update_pg ignore_fields sp_queue sp_mark sp_backoff pg_labels].
  f_equal. rewrite mget_norm_map.
  change (Some (match mget (c_queue_key cfg) (pg_labels old) with
                | Some v => aset (c_queue_key cfg) v _ | None => _ end))
    with (pg_labels (ignore_fields cfg old (create_pg m))).
  rewrite ignore_fields_labels, copy_string_map_some. cbn [mget].
  rewrite lookup_copy_into. unfold ignored_labels. rewrite ignored_nodepool, mget_or_nil.
  now destruct (lookup (c_nodepool_key cfg) (or_nil (pg_labels old))).
Qed.

Lemma apply_slot_queue_label : forall eq cfg m old v,
    mget (c_queue_key cfg) (pg_labels old) = Some v ->
    mget (c_queue_key cfg) (pg_labels (fst (apply_slot_with eq cfg m (Some old)))) = Some v.
Proof.
  intros eq cfg m old v H. unfold apply_slot_with.
  destruct (eq old _); cbn [fst]; [assumption|].
  cbn [norm update_pg pg_labels]. rewrite mget_norm_map, ignore_fields_labels, copy_string_map_some.
  cbn [mget]. rewrite lookup_copy_into. unfold ignored_labels.
  rewrite mget_or_nil in H. now rewrite (ignored_queue_label _ _ _ _ H).
Qed.

(** labels and annotations the grouper does not produce are kept as well *)
Lemma apply_slot_other_labels : forall eq cfg m old k,
    lookup k (ignored_labels cfg old (create_pg m)) = None ->
    mget k (pg_labels (fst (apply_slot_with eq cfg m (Some old)))) = mget k (pg_labels old).
Proof.
  intros eq cfg m old k H. unfold apply_slot_with.
  destruct (eq old _); cbn [fst]; [reflexivity|].
  cbn [norm update_pg pg_labels]. rewrite mget_norm_map, ignore_fields_labels, copy_string_map_some.
  cbn [mget]. now rewrite lookup_copy_into, H, mget_or_nil.
Qed.
