(** Proofs for C18 (pod-grouper). *)
From Coq Require Import List String Ascii ZArith Bool Arith Lia.
From KaiV Require Import Model.Grouper Model.GrouperSpec.
Import ListNotations.
Set Default Timeout 60.
Open Scope string_scope.

(** * Association lists *)
Section AListFacts.
  Context {A : Type}.
  Implicit Types (m : list (string * A)) (k : string) (v : A).

  Lemma lookup_aset_same : forall m k v, lookup k (aset k v m) = Some v.
  Proof.
    induction m as [|[k' v'] r IH]; intros k v; cbn.
    - now rewrite String.eqb_refl.
    - destruct (String.eqb k k') eqn:E; cbn; rewrite ?String.eqb_refl, ?E; auto.
  Qed.

  Lemma lookup_aset_other : forall m k k' v, k <> k' -> lookup k' (aset k v m) = lookup k' m.
  Proof.
    induction m as [|[k0 v0] r IH]; intros k k' v Hne; cbn.
    - destruct (String.eqb_spec k' k); [congruence|reflexivity].
    - destruct (String.eqb_spec k k0) as [->|Hk]; cbn.
      + destruct (String.eqb_spec k' k0); [congruence|reflexivity].
      + destruct (String.eqb_spec k' k0); auto.
  Qed.

  Lemma lookup_aset : forall m k k' v,
      lookup k' (aset k v m) = if String.eqb k' k then Some v else lookup k' m.
  Proof.
    intros m k k' v. destruct (String.eqb_spec k' k) as [->|Hne].
    - apply lookup_aset_same.
    - apply lookup_aset_other; congruence.
  Qed.

  Lemma aset_noop : forall m k v, lookup k m = Some v -> aset k v m = m.
  Proof.
    induction m as [|[k' v'] r IH]; intros k v H; cbn in *; [discriminate|].
    destruct (String.eqb_spec k k') as [->|Hne].
    - now inversion H.
    - now rewrite IH.
  Qed.

  Lemma adel_noop : forall m k, lookup k m = None -> adel k m = m.
  Proof.
    induction m as [|[k' v'] r IH]; intros k H; cbn in *; [reflexivity|].
    destruct (String.eqb k k'); [discriminate|]. now rewrite IH.
  Qed.

  Lemma lookup_adel : forall m k k',
      lookup k' (adel k m) = if String.eqb k' k then None else lookup k' m.
  Proof.
    induction m as [|[k0 v0] r IH]; intros k k'; cbn.
    - now destruct (String.eqb k' k).
    - destruct (String.eqb_spec k k0) as [->|Hk]; cbn.
      + rewrite IH. destruct (String.eqb_spec k' k0); auto.
      + destruct (String.eqb_spec k' k0) as [->|Hk'].
        * destruct (String.eqb_spec k0 k); [congruence|reflexivity].
        * apply IH.
  Qed.

  Lemma adel_aset_same : forall m k v, adel k (aset k v m) = adel k m.
  Proof.
    induction m as [|[k' v'] r IH]; intros k v; cbn.
    - now rewrite String.eqb_refl.
    - destruct (String.eqb k k') eqn:E; cbn; rewrite ?String.eqb_refl, ?E; [reflexivity|]. now rewrite IH.
  Qed.

  Lemma adel_aset_other : forall m k k' v, k <> k' -> adel k (aset k' v m) = aset k' v (adel k m).
  Proof.
    induction m as [|[k0 v0] r IH]; intros k k' v Hne; cbn.
    - destruct (String.eqb_spec k k'); [congruence|reflexivity].
    - destruct (String.eqb_spec k' k0) as [->|Hk]; cbn.
      + destruct (String.eqb_spec k k0); [congruence|]. cbn. now rewrite String.eqb_refl.
      + destruct (String.eqb_spec k k0) as [->|Hk0].
        * now apply IH.
        * cbn. destruct (String.eqb_spec k' k0); [congruence|]. now rewrite IH.
  Qed.

  Lemma aset_not_nil : forall m k v, aset k v m <> [].
  Proof. intros [|[k' v'] r] k v; cbn; [discriminate|]. destruct (String.eqb k k'); discriminate. Qed.
End AListFacts.

(** the loop of copy_into over a part [l] of the source *)
Definition copy_loop (src l t : smap) : smap :=
  fold_left (fun t kv => match lookup (fst kv) src with
                         | Some v => aset (fst kv) v t
                         | None => t
                         end) l t.

Lemma copy_into_loop : forall s t, copy_into s t = copy_loop s s t.
Proof. reflexivity. Qed.

Lemma copy_loop_cons : forall src kv r t,
    copy_loop src (kv :: r) t =
    copy_loop src r (match lookup (fst kv) src with Some v => aset (fst kv) v t | None => t end).
Proof. reflexivity. Qed.

Lemma copy_loop_fix : forall src l t,
    (forall k v, lookup k src = Some v -> lookup k t = Some v) -> copy_loop src l t = t.
Proof.
  intros src l. induction l as [|[k v] r IH]; intros t H; [reflexivity|].
  rewrite copy_loop_cons. cbn [fst]. destruct (lookup k src) eqn:E.
  - rewrite (aset_noop t k s (H _ _ E)). now apply IH.
  - now apply IH.
Qed.

Lemma lookup_copy_loop : forall src l t k,
    lookup k (copy_loop src l t) =
    if existsb (fun kv => String.eqb k (fst kv)) l
    then match lookup k src with Some v => Some v | None => lookup k t end
    else lookup k t.
Proof.
  intros src l. induction l as [|[k0 v0] r IH]; intros t k; [reflexivity|].
  rewrite copy_loop_cons, IH. cbn [fst existsb]. destruct (String.eqb_spec k k0) as [->|Hne]; cbn [orb].
  - destruct (lookup k0 src) eqn:E.
    + rewrite lookup_aset_same. now destruct (existsb _ r).
    + now destruct (existsb _ r).
  - destruct (lookup k0 src) eqn:E; [|reflexivity].
    rewrite lookup_aset_other by congruence. reflexivity.
Qed.

Lemma lookup_in_keys : forall (s : smap) k v,
    lookup k s = Some v -> existsb (fun kv => String.eqb k (fst kv)) s = true.
Proof.
  induction s as [|[k0 v0] r IH]; intros k v H; cbn in *; [discriminate|].
  destruct (String.eqb k k0); [reflexivity|]. now apply IH with v.
Qed.

Lemma lookup_copy_into : forall s t k,
    lookup k (copy_into s t) = match lookup k s with Some v => Some v | None => lookup k t end.
Proof.
  intros s t k. rewrite copy_into_loop, lookup_copy_loop.
  destruct (lookup k s) eqn:E.
  - now rewrite (lookup_in_keys _ _ _ E).
  - now destruct (existsb _ s).
Qed.

Lemma copy_into_idem : forall s t, copy_into s (copy_into s t) = copy_into s t.
Proof.
  intros s t. rewrite (copy_into_loop s (copy_into s t)). apply copy_loop_fix.
  intros k v H. now rewrite lookup_copy_into, H.
Qed.

Lemma copy_into_self : forall s, copy_into s s = s.
Proof. intros s. rewrite copy_into_loop. now apply copy_loop_fix. Qed.

Lemma copy_loop_nil : forall src l t, copy_loop src l t = [] -> t = [].
Proof.
  intros src l. induction l as [|[k v] r IH]; intros t H; [assumption|].
  rewrite copy_loop_cons in H. cbn [fst] in H. destruct (lookup k src).
  - apply IH in H. now apply aset_not_nil in H.
  - now apply IH.
Qed.

Lemma copy_into_nil : forall s t, copy_into s t = [] -> t = [].
Proof. intros s t. rewrite copy_into_loop. apply copy_loop_nil. Qed.

(** * norm and nil-able maps *)
Definition or_nil (m : option smap) : smap := match m with None => [] | Some l => l end.

Lemma mget_or_nil : forall k m, mget k m = lookup k (or_nil m).
Proof. intros k [l|]; reflexivity. Qed.

Lemma or_nil_norm_map : forall m, or_nil (norm_map m) = or_nil m.
Proof. intros [[|x l]|]; reflexivity. Qed.

Lemma mget_norm_map : forall k m, mget k (norm_map m) = mget k m.
Proof. intros k m. now rewrite !mget_or_nil, or_nil_norm_map. Qed.

Lemma norm_map_idem : forall m, norm_map (norm_map m) = norm_map m.
Proof. intros [[|x l]|]; reflexivity. Qed.

Lemma norm_slice_idem : forall A (l : option (list A)), norm_slice (norm_slice l) = norm_slice l.
Proof. intros A [[|x l]|]; reflexivity. Qed.

Lemma norm_idem : forall g, norm (norm g) = norm g.
Proof. intros g. unfold norm; cbn. now rewrite !norm_map_idem, norm_slice_idem. Qed.

Lemma copy_string_map_some : forall s t,
    copy_string_map (Some s) t = Some (copy_into s (or_nil t)).
Proof. intros s [t|]; reflexivity. Qed.

(** writing a merged map, reading it back, merging the same source again: nothing changes *)
Lemma csm_round_trip : forall src t,
    norm_map (copy_string_map src (norm_map (copy_string_map src t))) = norm_map (copy_string_map src t).
Proof.
  intros [s|] t; [|apply norm_map_idem].
  rewrite !copy_string_map_some, or_nil_norm_map. cbn [or_nil]. now rewrite copy_into_idem.
Qed.

(** * Equality helpers are reflexive *)
Lemma opt_eqb_refl : forall A (e : A -> A -> bool), (forall x, e x x = true) -> forall o, opt_eqb e o o = true.
Proof. intros A e H [x|]; cbn; auto. Qed.
Lemma list_eqb_refl : forall A (e : A -> A -> bool), (forall x, e x x = true) -> forall l, list_eqb e l l = true.
Proof. intros A e H l; induction l; cbn; auto. rewrite H; auto. Qed.
Lemma owner_ref_eqb_refl : forall x, owner_ref_eqb x x = true.
Proof. intros x. unfold owner_ref_eqb. now rewrite !String.eqb_refl. Qed.
Lemma subgroup_eqb_refl : forall x, subgroup_eqb x x = true.
Proof.
  intros x. unfold subgroup_eqb. rewrite String.eqb_refl, Z.eqb_refl. cbn.
  apply opt_eqb_refl. apply String.eqb_refl.
Qed.
Lemma topo_eqb_refl : forall x, topo_eqb x x = true.
Proof. intros x. unfold topo_eqb. now rewrite !String.eqb_refl. Qed.

Lemma spec_eqb_fields : forall a b,
    sp_min a = sp_min b -> sp_queue a = sp_queue b -> sp_prio a = sp_prio b ->
    sp_preempt a = sp_preempt b -> sp_mark a = sp_mark b -> sp_backoff a = sp_backoff b ->
    sp_subgroups a = sp_subgroups b -> sp_topo a = sp_topo b -> spec_eqb a b = true.
Proof.
  intros a b H1 H2 H3 H4 H5 H6 H7 H8. unfold spec_eqb.
  rewrite H1, H2, H3, H4, H5, H6, H7, H8, Z.eqb_refl, !String.eqb_refl, topo_eqb_refl. cbn.
  rewrite (opt_eqb_refl _ Bool.eqb) by (intros []; reflexivity).
  rewrite (opt_eqb_refl _ Z.eqb) by apply Z.eqb_refl.
  rewrite (opt_eqb_refl _ (list_eqb subgroup_eqb)) by (apply list_eqb_refl, subgroup_eqb_refl).
  reflexivity.
Qed.

(** source keys are all present in a map they were merged into (comparison of 9775a95) *)
Lemma maps_equal_after_copy : forall s t,
    maps_equal_by_source_keys true (Some s) (norm_map (Some (copy_into s t))) = true.
Proof.
  intros s t. destruct s as [|[k v] r] eqn:Es.
  - destruct (norm_map (Some (copy_into [] t))); reflexivity.
  - rewrite <- Es.
    destruct (copy_into s t) as [|y c] eqn:Ec.
    + exfalso. assert (lookup k (copy_into s t) = Some v) as Hl.
      { rewrite lookup_copy_into, Es. cbn. now rewrite String.eqb_refl. }
      rewrite Ec in Hl. discriminate.
    + cbn [norm_map maps_equal_by_source_keys]. rewrite <- Ec. apply forallb_forall.
      intros [k' v'] Hin. cbn [fst]. rewrite lookup_copy_into.
      destruct (lookup k' s) eqn:E.
      * cbn. apply String.eqb_refl.
      * exfalso. clear - Hin E. induction s as [|[k0 v0] r IH]; cbn in *; [contradiction|].
        destruct Hin as [H|H].
        -- inversion H; subst. now rewrite String.eqb_refl in E.
        -- destruct (String.eqb k' k0); [discriminate|]. auto.
Qed.

Lemma maps_equal_norm_self : forall ml,
    maps_equal_by_source_keys true ml (norm_map ml) = true.
Proof.
  intros [l|]; [|reflexivity].
  rewrite <- (copy_into_self l) at 2. apply maps_equal_after_copy.
Qed.

(** * ApplyToCluster on one slot *)

(** the label steps of ignoreFields *)
Definition np_step (cfg : config) (o l : smap) : smap :=
  match lookup (c_nodepool_key cfg) o with
  | Some v => aset (c_nodepool_key cfg) v l
  | None => adel (c_nodepool_key cfg) l
  end.
Definition q_step (cfg : config) (o l : smap) : smap :=
  match lookup (c_queue_key cfg) o with
  | Some v => aset (c_queue_key cfg) v l
  | None => l
  end.
Definition ignored_labels (cfg : config) (old new : pg) : smap :=
  q_step cfg (or_nil (pg_labels old)) (np_step cfg (or_nil (pg_labels old)) (or_nil (pg_labels new))).

Lemma ignore_fields_labels : forall sg cfg old new,
    pg_labels (ignore_fields sg cfg old new) = Some (ignored_labels cfg old new).
Proof.
  intros sg cfg old new. unfold ignore_fields, ignored_labels, q_step, np_step. cbn [pg_labels].
  rewrite !mget_or_nil. destruct (pg_labels new); reflexivity.
Qed.

(** ignoreFields gives the new object exactly the old node-pool label *)
Lemma ignored_nodepool : forall cfg o l,
    lookup (c_nodepool_key cfg) (q_step cfg o (np_step cfg o l)) = lookup (c_nodepool_key cfg) o.
Proof.
  intros cfg o l. unfold q_step, np_step.
  destruct (lookup (c_queue_key cfg) o) eqn:Eq; destruct (lookup (c_nodepool_key cfg) o) eqn:En;
    rewrite ?lookup_aset, ?lookup_adel, ?String.eqb_refl; try reflexivity.
  - destruct (String.eqb_spec (c_nodepool_key cfg) (c_queue_key cfg)) as [E|E]; [|reflexivity].
    rewrite E in En. congruence.
  - destruct (String.eqb_spec (c_nodepool_key cfg) (c_queue_key cfg)) as [E|E]; [|reflexivity].
    rewrite E in En. congruence.
Qed.

Lemma ignored_queue_label : forall cfg o l v,
    lookup (c_queue_key cfg) o = Some v ->
    lookup (c_queue_key cfg) (q_step cfg o (np_step cfg o l)) = Some v.
Proof. intros cfg o l v H. unfold q_step. rewrite H. apply lookup_aset_same. Qed.

(** computing the ignored labels against the merged result gives the same list again *)
Lemma ignored_labels_stable : forall cfg o l,
    let l' := q_step cfg o (np_step cfg o l) in
    q_step cfg (copy_into l' o) (np_step cfg (copy_into l' o) l) = l'.
Proof.
  intros cfg o l l'.
  assert (np_step cfg (copy_into l' o) l = np_step cfg o l) as Hnp.
  { unfold np_step at 1. rewrite lookup_copy_into. unfold l'. rewrite ignored_nodepool.
    unfold np_step. destruct (lookup (c_nodepool_key cfg) o); reflexivity. }
  rewrite Hnp. unfold q_step at 1. rewrite lookup_copy_into.
  destruct (lookup (c_queue_key cfg) l') eqn:El.
  - unfold l' in *. unfold q_step in *. destruct (lookup (c_queue_key cfg) o) eqn:Eo.
    + rewrite lookup_aset_same in El. now inversion El.
    + now apply aset_noop.
  - unfold l' in *. unfold q_step in *. destruct (lookup (c_queue_key cfg) o) eqn:Eo; [|reflexivity].
    rewrite lookup_aset_same in El. discriminate.
Qed.

Lemma ignored_labels_self : forall cfg l, q_step cfg l (np_step cfg l l) = l.
Proof.
  intros cfg l.
  assert (np_step cfg l l = l) as ->.
  { unfold np_step. destruct (lookup (c_nodepool_key cfg) l) eqn:E; [now apply aset_noop|now apply adel_noop]. }
  unfold q_step. destruct (lookup (c_queue_key cfg) l) eqn:E; [now apply aset_noop|reflexivity].
Qed.

(** the two shapes a slot can have after a write by ApplyToCluster *)
Definition written (sg : bool) (cfg : config) (m : metadata) (cur : option pg) : pg :=
  match cur with
  | None => norm (create_pg m)
  | Some old => norm (update_pg old (ignore_fields sg cfg old (create_pg m)))
  end.

Lemma or_nil_written_labels : forall sg cfg m cur,
    or_nil (pg_labels (written sg cfg m cur)) =
    match cur with
    | None => or_nil (m_labels m)
    | Some old => copy_into (ignored_labels cfg old (create_pg m)) (or_nil (pg_labels old))
    end.
Proof.
  intros sg cfg m [old|]; cbn [written norm pg_labels update_pg create_pg].
  - rewrite ignore_fields_labels, copy_string_map_some, or_nil_norm_map. reflexivity.
  - apply or_nil_norm_map.
Qed.

(** ignoreFields against what was just written reproduces the labels that were written from *)
Lemma ignored_labels_written : forall sg cfg m cur,
    ignored_labels cfg (written sg cfg m cur) (create_pg m) =
    match cur with
    | None => or_nil (m_labels m)
    | Some old => ignored_labels cfg old (create_pg m)
    end.
Proof.
  intros sg cfg m cur. unfold ignored_labels at 1. rewrite or_nil_written_labels.
  destruct cur as [old|].
  - unfold ignored_labels. apply ignored_labels_stable.
  - cbn [create_pg pg_labels]. apply ignored_labels_self.
Qed.

(** whatever was stored before, a written slot holds the sub-groups as the API keeps them *)
Lemma written_subgroups : forall sg cfg m cur,
    sp_subgroups (written sg cfg m cur) = norm_slice (Some (m_subgroups m)).
Proof.
  intros sg cfg m [old|]; cbn [written norm sp_subgroups update_pg ignore_fields create_pg]; [|reflexivity].
  destruct sg; cbn [andb]; [|reflexivity].
  destruct (m_subgroups m) as [|x r]; cbn [slice_empty andb]; [|reflexivity].
  destruct (sp_subgroups old) as [[|y l]|]; reflexivity.
Qed.

Lemma ignore_written_subgroups : forall sg cfg m cur,
    sp_subgroups (ignore_fields sg cfg (written sg cfg m cur) (create_pg m)) =
    if sg then norm_slice (Some (m_subgroups m)) else Some (m_subgroups m).
Proof.
  intros sg cfg m cur. unfold ignore_fields. cbn [sp_subgroups create_pg]. rewrite written_subgroups.
  destruct sg, (m_subgroups m); reflexivity.
Qed.

Lemma pg_eq_fields : forall a b,
    pg_labels a = pg_labels b -> pg_annots a = pg_annots b -> pg_owners a = pg_owners b ->
    sp_min a = sp_min b -> sp_queue a = sp_queue b -> sp_prio a = sp_prio b ->
    sp_preempt a = sp_preempt b -> sp_mark a = sp_mark b -> sp_backoff a = sp_backoff b ->
    sp_subgroups a = sp_subgroups b -> sp_topo a = sp_topo b -> a = b.
Proof. intros [] []; cbn; intros; subst; reflexivity. Qed.

Lemma written_again : forall sg cfg m cur,
    norm (update_pg (written sg cfg m cur) (ignore_fields sg cfg (written sg cfg m cur) (create_pg m)))
    = written sg cfg m cur.
Proof.
  intros sg cfg m cur. apply pg_eq_fields.
  - cbn [norm pg_labels update_pg]. rewrite ignore_fields_labels, copy_string_map_some.
    rewrite ignored_labels_written, or_nil_written_labels.
    destruct cur as [old|]; cbn [written norm pg_labels update_pg create_pg].
    + rewrite ignore_fields_labels, copy_string_map_some, copy_into_idem. reflexivity.
    + rewrite copy_into_self. now destruct (m_labels m) as [[|x l]|].
  - destruct cur as [old|]; cbn [written norm pg_annots update_pg create_pg ignore_fields].
    + apply csm_round_trip.
    + destruct (m_annots m) as [s|]; [|reflexivity].
      rewrite copy_string_map_some, or_nil_norm_map. cbn [or_nil]. rewrite copy_into_self.
      reflexivity.
  - destruct cur; reflexivity.
  - destruct cur; reflexivity.
  - destruct cur; reflexivity.
  - destruct cur; reflexivity.
  - destruct cur; reflexivity.
  - destruct cur; reflexivity.
  - destruct cur; reflexivity.
  - cbn [norm update_pg sp_subgroups]. rewrite ignore_written_subgroups, written_subgroups.
    destruct sg; now rewrite ?norm_slice_idem.
  - destruct cur; reflexivity.
Qed.

Lemma apply_slot_cases : forall sg eq cfg m cur,
    (fst (apply_slot_with sg eq cfg m cur) = written sg cfg m cur /\ snd (apply_slot_with sg eq cfg m cur) = 1%Z)
    \/ (exists old, cur = Some old /\ eq old (ignore_fields sg cfg old (create_pg m)) = true
                    /\ apply_slot_with sg eq cfg m cur = (old, 0%Z)).
Proof.
  intros sg eq cfg m [old|]; unfold apply_slot_with.
  - destruct (eq old (ignore_fields sg cfg old (create_pg m))) eqn:E.
    + right. exists old. auto.
    + left. split; reflexivity.
  - left. split; reflexivity.
Qed.

(** (S1) a second application leaves the slot as the first one left it, whatever the version of
    ignoreFields and whatever the equality test *)
Lemma apply_slot_idem_state : forall sg eq cfg m cur,
    fst (apply_slot_with sg eq cfg m (Some (fst (apply_slot_with sg eq cfg m cur)))) = fst (apply_slot_with sg eq cfg m cur).
Proof.
  intros sg eq cfg m cur.
  destruct (apply_slot_cases sg eq cfg m cur) as [[Hw _]|[old [-> [E Hr]]]].
  - rewrite Hw. unfold apply_slot_with.
    destruct (eq _ _); cbn [fst]; [reflexivity|apply written_again].
  - rewrite Hr. cbn [fst]. unfold apply_slot_with. now rewrite E.
Qed.

(** (S2) the handler since 9775a95 recognises what it wrote as up to date *)
Lemma written_is_equal_v1 : forall cfg m cur,
    pg_equal_v1 (written true cfg m cur) (ignore_fields true cfg (written true cfg m cur) (create_pg m)) = true.
Proof.
  intros cfg m cur. unfold pg_equal_v1, pg_equal_with.
  rewrite !andb_true_iff. repeat split.
  - apply spec_eqb_fields; try (destruct cur as [old|]; reflexivity).
    now rewrite ignore_written_subgroups, written_subgroups.
  - destruct cur as [old|]; cbn; now rewrite owner_ref_eqb_refl.
  - rewrite ignore_fields_labels, ignored_labels_written.
    destruct cur as [old|]; cbn [written norm pg_labels update_pg create_pg].
    + rewrite ignore_fields_labels, copy_string_map_some. apply maps_equal_after_copy.
    + destruct (m_labels m) as [l|]; [|reflexivity]. cbn [or_nil]. apply (maps_equal_norm_self (Some l)).
  - destruct cur as [old|]; cbn [written norm pg_annots update_pg create_pg ignore_fields].
    + destruct (m_annots m) as [s|]; [|reflexivity].
      rewrite copy_string_map_some. apply maps_equal_after_copy.
    + apply maps_equal_norm_self.
Qed.

Lemma apply_slot_v1_second_zero : forall cfg m cur,
    snd (apply_slot_with true pg_equal_v1 cfg m (Some (fst (apply_slot_with true pg_equal_v1 cfg m cur)))) = 0%Z.
Proof.
  intros cfg m cur.
  destruct (apply_slot_cases true pg_equal_v1 cfg m cur) as [[Hw _]|[old [-> [E Hr]]]].
  - rewrite Hw. unfold apply_slot_with. now rewrite written_is_equal_v1.
  - rewrite Hr. cbn [fst]. unfold apply_slot_with. now rewrite E.
Qed.

(** (S3) fields owned by other actors survive ApplyToCluster, whatever the equality test *)
Lemma apply_slot_foreign_view : forall sg eq cfg m old,
    foreign_view cfg (fst (apply_slot_with sg eq cfg m (Some old))) = foreign_view cfg old.
Proof.
  intros sg eq cfg m old. unfold apply_slot_with.
  destruct (eq old _); cbn [fst]; [reflexivity|].
  unfold foreign_view. cbn [norm update_pg ignore_fields sp_queue sp_mark sp_backoff pg_labels].
  f_equal. rewrite mget_norm_map.
  change (Some (match mget (c_queue_key cfg) (pg_labels old) with
                | Some v => aset (c_queue_key cfg) v _ | None => _ end))
    with (pg_labels (ignore_fields sg cfg old (create_pg m))).
  rewrite ignore_fields_labels, copy_string_map_some. cbn [mget].
  rewrite lookup_copy_into. unfold ignored_labels. rewrite ignored_nodepool, mget_or_nil.
  now destruct (lookup (c_nodepool_key cfg) (or_nil (pg_labels old))).
Qed.

Lemma apply_slot_queue_label : forall sg eq cfg m old v,
    mget (c_queue_key cfg) (pg_labels old) = Some v ->
    mget (c_queue_key cfg) (pg_labels (fst (apply_slot_with sg eq cfg m (Some old)))) = Some v.
Proof.
  intros sg eq cfg m old v H. unfold apply_slot_with.
  destruct (eq old _); cbn [fst]; [assumption|].
  cbn [norm update_pg pg_labels]. rewrite mget_norm_map, ignore_fields_labels, copy_string_map_some.
  cbn [mget]. rewrite lookup_copy_into. unfold ignored_labels.
  rewrite mget_or_nil in H. now rewrite (ignored_queue_label _ _ _ _ H).
Qed.

(** labels and annotations the grouper does not produce are kept as well *)
Lemma apply_slot_other_labels : forall sg eq cfg m old k,
    lookup k (ignored_labels cfg old (create_pg m)) = None ->
    mget k (pg_labels (fst (apply_slot_with sg eq cfg m (Some old)))) = mget k (pg_labels old).
Proof.
  intros sg eq cfg m old k H. unfold apply_slot_with.
  destruct (eq old _); cbn [fst]; [reflexivity|].
  cbn [norm update_pg pg_labels]. rewrite mget_norm_map, ignore_fields_labels, copy_string_map_some.
  cbn [mget]. now rewrite lookup_copy_into, H, mget_or_nil.
Qed.

(** * Commuting idempotent steps: the outcome depends on the set of steps only *)
Section Commutative.
  Context {S E : Type}.
  Variable equiv : S -> S -> Prop.
  Variable step : E -> S -> S.
  Variable ok : E -> Prop.
  Hypothesis equiv_refl : forall s, equiv s s.
  Hypothesis equiv_sym : forall s t, equiv s t -> equiv t s.
  Hypothesis equiv_trans : forall s t r, equiv s t -> equiv t r -> equiv s r.
  Hypothesis step_resp : forall e s t, equiv s t -> equiv (step e s) (step e t).
  Hypothesis step_idem : forall e s, ok e -> equiv (step e (step e s)) (step e s).
  Hypothesis step_comm : forall e f s, ok e -> ok f -> equiv (step e (step f s)) (step f (step e s)).

  Definition runs (es : list E) (s : S) : S := fold_left (fun s e => step e s) es s.

  Lemma runs_resp : forall es s t, equiv s t -> equiv (runs es s) (runs es t).
  Proof. induction es as [|x es IH]; intros s t H; cbn; auto. Qed.

  Lemma runs_step_comm : forall es e s, Forall ok es -> ok e -> equiv (runs es (step e s)) (step e (runs es s)).
  Proof.
    induction es as [|x es IH]; intros e s Hes He; cbn; [apply equiv_refl|].
    inversion Hes as [|? ? Hx Hes']; subst.
    eapply equiv_trans; [|apply IH; assumption].
    apply runs_resp. apply step_comm; assumption.
  Qed.

  Lemma runs_absorb : forall es e s, Forall ok es -> In e es -> equiv (step e (runs es s)) (runs es s).
  Proof.
    induction es as [|x es IH]; intros e s Hes Hin; [contradiction|].
    inversion Hes as [|? ? Hx Hes']; subst. cbn. destruct Hin as [->|Hin].
    - eapply equiv_trans; [apply equiv_sym, runs_step_comm; assumption|].
      apply runs_resp. apply step_idem; assumption.
    - apply IH; assumption.
  Qed.

  Lemma runs_incl_absorb : forall es1 es2 s,
      Forall ok es1 -> Forall ok es2 -> incl es1 es2 -> equiv (runs es2 (runs es1 s)) (runs es2 s).
  Proof.
    induction es1 as [|x es1 IH]; intros es2 s H1 H2 Hincl; cbn; [apply equiv_refl|].
    inversion H1 as [|? ? Hx H1']; subst.
    eapply equiv_trans; [apply IH; try assumption; intros y Hy; apply Hincl; now right|].
    eapply equiv_trans; [apply runs_step_comm; assumption|].
    apply runs_absorb; [assumption|]. apply Hincl. now left.
  Qed.

  Lemma runs_comm : forall es1 es2 s,
      Forall ok es1 -> Forall ok es2 -> equiv (runs es1 (runs es2 s)) (runs es2 (runs es1 s)).
  Proof.
    induction es1 as [|x es1 IH]; intros es2 s H1 H2; cbn; [apply equiv_refl|].
    inversion H1 as [|? ? Hx H1']; subst.
    eapply equiv_trans; [apply runs_resp, equiv_sym, runs_step_comm; assumption|].
    apply IH; assumption.
  Qed.

  Theorem runs_same_set : forall es1 es2 s,
      Forall ok es1 -> Forall ok es2 -> incl es1 es2 -> incl es2 es1 -> equiv (runs es1 s) (runs es2 s).
  Proof.
    intros es1 es2 s H1 H2 I12 I21.
    eapply equiv_trans; [apply equiv_sym, (runs_incl_absorb es2 es1); assumption|].
    eapply equiv_trans; [apply runs_comm; assumption|].
    apply runs_incl_absorb; assumption.
  Qed.
End Commutative.

(** * States *)
Definition st_equiv (s t : state) : Prop :=
  (forall n, get_pg n s = get_pg n t) /\ (forall k, get_asg k s = get_asg k t).

Lemma st_equiv_refl : forall s, st_equiv s s.
Proof. split; reflexivity. Qed.
Lemma st_equiv_sym : forall s t, st_equiv s t -> st_equiv t s.
Proof. intros s t [H1 H2]; split; intros; symmetry; auto. Qed.
Lemma st_equiv_trans : forall s t r, st_equiv s t -> st_equiv t r -> st_equiv s r.
Proof. intros s t r [H1 H2] [H3 H4]; split; intros; etransitivity; eauto. Qed.

Definition rec_step (af pf sg : bool) (eq : pg -> pg -> bool) (cfg : config) (cl : list obj) (p : pod) (s : state) : state :=
  fst (reconcile_with af pf sg eq cfg cl p s).

Lemma rec_step_none : forall af pf sg eq cfg cl p s,
    full_md_with af cfg cl p (get_asg (p_name p) s) = None -> reconcile_with af pf sg eq cfg cl p s = (s, 0%Z).
Proof. intros af pf sg eq cfg cl p s H. unfold reconcile_with. now rewrite H. Qed.

Lemma rec_step_some : forall af pf sg eq cfg cl p s m,
    full_md_with af cfg cl p (get_asg (p_name p) s) = Some m ->
    (forall n, get_pg n (rec_step af pf sg eq cfg cl p s) =
               if String.eqb n (m_name m)
               then Some (fst (apply_slot_with sg eq cfg m (get_pg (m_name m) s)))
               else get_pg n s)
    /\ (forall k, get_asg k (rec_step af pf sg eq cfg cl p s) =
                  if String.eqb k (p_name p) then Some (m_name m) else get_asg k s)
    /\ snd (reconcile_with af pf sg eq cfg cl p s) =
       (snd (apply_slot_with sg eq cfg m (get_pg (m_name m) s))
        + (if needs_patch_with pf m p (get_asg (p_name p) s) then 1 else 0))%Z.
Proof.
  intros af pf sg eq cfg cl p s m H. unfold rec_step, reconcile_with. rewrite H.
  cbn [fst snd apply_to_cluster_with st_pgs st_asg]. repeat split.
  - intros n. unfold get_pg at 1. cbn [st_pgs]. apply lookup_aset.
  - intros k. unfold get_asg at 1. cbn [st_asg]. apply lookup_aset.
Qed.

Lemma rec_step_resp : forall af pf sg eq cfg cl p s t,
    st_equiv s t -> st_equiv (rec_step af pf sg eq cfg cl p s) (rec_step af pf sg eq cfg cl p t).
Proof.
  intros af pf sg eq cfg cl p s t [Hp Ha].
  destruct (full_md_with af cfg cl p (get_asg (p_name p) s)) as [m|] eqn:E.
  - assert (full_md_with af cfg cl p (get_asg (p_name p) t) = Some m) as E' by now rewrite <- Ha.
    destruct (rec_step_some af pf sg eq cfg cl p s m E) as [P1 [A1 _]].
    destruct (rec_step_some af pf sg eq cfg cl p t m E') as [P2 [A2 _]].
    split; intros x; rewrite ?P1, ?P2, ?A1, ?A2, ?Hp, ?Ha; reflexivity.
  - assert (full_md_with af cfg cl p (get_asg (p_name p) t) = None) as E' by now rewrite <- Ha.
    unfold rec_step. rewrite (rec_step_none _ _ _ _ _ _ _ _ E), (rec_step_none _ _ _ _ _ _ _ _ E'). now split.
Qed.

Lemma rec_writes_resp : forall af pf sg eq cfg cl p s t,
    st_equiv s t -> snd (reconcile_with af pf sg eq cfg cl p s) = snd (reconcile_with af pf sg eq cfg cl p t).
Proof.
  intros af pf sg eq cfg cl p s t [Hp Ha].
  destruct (full_md_with af cfg cl p (get_asg (p_name p) s)) as [m|] eqn:E.
  - assert (full_md_with af cfg cl p (get_asg (p_name p) t) = Some m) as E' by now rewrite <- Ha.
    destruct (rec_step_some af pf sg eq cfg cl p s m E) as [_ [_ W1]].
    destruct (rec_step_some af pf sg eq cfg cl p t m E') as [_ [_ W2]].
    now rewrite W1, W2, Hp, Ha.
  - assert (full_md_with af cfg cl p (get_asg (p_name p) t) = None) as E' by now rewrite <- Ha.
    now rewrite (rec_step_none _ _ _ _ _ _ _ _ E), (rec_step_none _ _ _ _ _ _ _ _ E').
Qed.

(** after its own reconcile a pod's metadata is unchanged, or the pod is skipped from then on *)
Definition settles_with (af : bool) (cfg : config) (cl : list obj) (p : pod) : Prop :=
  forall a m, full_md_with af cfg cl p a = Some m ->
              full_md_with af cfg cl p (Some (m_name m)) = Some m \/ full_md_with af cfg cl p (Some (m_name m)) = None.
Definition settles := settles_with annot_fix.

Lemma rec_step_idem : forall af pf sg eq cfg cl p s,
    settles_with af cfg cl p ->
    st_equiv (rec_step af pf sg eq cfg cl p (rec_step af pf sg eq cfg cl p s)) (rec_step af pf sg eq cfg cl p s).
Proof.
  intros af pf sg eq cfg cl p s Hset.
  destruct (full_md_with af cfg cl p (get_asg (p_name p) s)) as [m|] eqn:E.
  - destruct (rec_step_some af pf sg eq cfg cl p s m E) as [P1 [A1 _]].
    set (s1 := rec_step af pf sg eq cfg cl p s) in *.
    assert (get_asg (p_name p) s1 = Some (m_name m)) as Ha1 by now rewrite A1, String.eqb_refl.
    destruct (Hset _ _ E) as [E2|E2].
    + rewrite <- Ha1 in E2. destruct (rec_step_some af pf sg eq cfg cl p s1 m E2) as [P2 [A2 _]].
      split; intros x.
      * rewrite P2. destruct (String.eqb_spec x (m_name m)) as [->|Hne]; [|reflexivity].
        rewrite !P1, String.eqb_refl. now rewrite apply_slot_idem_state.
      * rewrite A2. destruct (String.eqb_spec x (p_name p)) as [->|Hne]; [|reflexivity].
        now rewrite Ha1.
    + rewrite <- Ha1 in E2. unfold rec_step at 1. rewrite (rec_step_none _ _ _ _ _ _ _ _ E2). apply st_equiv_refl.
  - unfold rec_step. rewrite (rec_step_none _ _ _ _ _ _ _ _ E). cbn [fst].
    rewrite (rec_step_none _ _ _ _ _ _ _ _ E). apply st_equiv_refl.
Qed.

(** pods whose groups have the same name carry the same metadata *)
Definition agree_on_names_with (af : bool) (cfg : config) (cl : list obj) (p q : pod) : Prop :=
  forall a b m m', full_md_with af cfg cl p a = Some m -> full_md_with af cfg cl q b = Some m' ->
                   m_name m = m_name m' -> m = m'.
Definition agree_on_names := agree_on_names_with annot_fix.

Lemma rec_step_comm : forall af pf sg eq cfg cl p q s,
    (p_name p = p_name q -> p = q) -> agree_on_names_with af cfg cl p q ->
    st_equiv (rec_step af pf sg eq cfg cl p (rec_step af pf sg eq cfg cl q s)) (rec_step af pf sg eq cfg cl q (rec_step af pf sg eq cfg cl p s)).
Proof.
  intros af pf sg eq cfg cl p q s Hinj Hagree.
  destruct (String.eqb_spec (p_name p) (p_name q)) as [Heq|Hne].
  { rewrite (Hinj Heq). apply st_equiv_refl. }
  destruct (full_md_with af cfg cl q (get_asg (p_name q) s)) as [mq|] eqn:Eq.
  2:{ assert (rec_step af pf sg eq cfg cl q s = s) as Hq by (unfold rec_step; now rewrite (rec_step_none _ _ _ _ _ _ _ _ Eq)).
      rewrite Hq.
      destruct (full_md_with af cfg cl p (get_asg (p_name p) s)) as [mp|] eqn:Ep.
      - destruct (rec_step_some af pf sg eq cfg cl p s mp Ep) as [_ [A1 _]].
        assert (full_md_with af cfg cl q (get_asg (p_name q) (rec_step af pf sg eq cfg cl p s)) = None) as Eq'.
        { rewrite A1. destruct (String.eqb_spec (p_name q) (p_name p)); [congruence|assumption]. }
        unfold rec_step at 2. rewrite (rec_step_none _ _ _ _ _ _ _ _ Eq'). apply st_equiv_refl.
      - assert (rec_step af pf sg eq cfg cl p s = s) as Hp by (unfold rec_step; now rewrite (rec_step_none _ _ _ _ _ _ _ _ Ep)).
        rewrite Hp, Hq. apply st_equiv_refl. }
  destruct (rec_step_some af pf sg eq cfg cl q s mq Eq) as [Pq [Aq _]].
  destruct (full_md_with af cfg cl p (get_asg (p_name p) s)) as [mp|] eqn:Ep.
  2:{ assert (rec_step af pf sg eq cfg cl p s = s) as Hp by (unfold rec_step; now rewrite (rec_step_none _ _ _ _ _ _ _ _ Ep)).
      rewrite Hp.
      assert (full_md_with af cfg cl p (get_asg (p_name p) (rec_step af pf sg eq cfg cl q s)) = None) as Ep'.
      { rewrite Aq. destruct (String.eqb_spec (p_name p) (p_name q)); [congruence|assumption]. }
      unfold rec_step at 1. rewrite (rec_step_none _ _ _ _ _ _ _ _ Ep'). apply st_equiv_refl. }
  destruct (rec_step_some af pf sg eq cfg cl p s mp Ep) as [Pp [Ap _]].
  assert (full_md_with af cfg cl p (get_asg (p_name p) (rec_step af pf sg eq cfg cl q s)) = Some mp) as Ep'.
  { rewrite Aq. destruct (String.eqb_spec (p_name p) (p_name q)); [congruence|assumption]. }
  assert (full_md_with af cfg cl q (get_asg (p_name q) (rec_step af pf sg eq cfg cl p s)) = Some mq) as Eq'.
  { rewrite Ap. destruct (String.eqb_spec (p_name q) (p_name p)); [congruence|assumption]. }
  destruct (rec_step_some af pf sg eq cfg cl p _ mp Ep') as [Ppq [Apq _]].
  destruct (rec_step_some af pf sg eq cfg cl q _ mq Eq') as [Pqp [Aqp _]].
  split; intros x.
  - rewrite Ppq, Pqp, !Pq, !Pp.
    destruct (String.eqb_spec (m_name mp) (m_name mq)) as [Hn|Hn].
    + assert (mp = mq) as -> by (eapply Hagree; eauto).
      rewrite String.eqb_refl. destruct (String.eqb x (m_name mq)); reflexivity.
    + destruct (String.eqb_spec (m_name mq) (m_name mp)) as [Hn'|_]; [congruence|].
      destruct (String.eqb_spec x (m_name mp)) as [->|Hx].
      * destruct (String.eqb_spec (m_name mp) (m_name mq)); [congruence|reflexivity].
      * reflexivity.
  - rewrite Apq, Aqp, Aq, Ap.
    destruct (String.eqb_spec x (p_name p)) as [->|Hx]; [|reflexivity].
    destruct (String.eqb_spec (p_name p) (p_name q)); [congruence|reflexivity].
Qed.

(** a set of pods whose reconciles commute *)
Record coherent_with (af : bool) (cfg : config) (cl : list obj) (ps : list pod) : Prop := {
  cohw_names : forall p q, In p ps -> In q ps -> p_name p = p_name q -> p = q;
  cohw_settles : forall p, In p ps -> settles_with af cfg cl p;
  cohw_agree : forall p q, In p ps -> In q ps -> agree_on_names_with af cfg cl p q
}.

Lemma run_reconciles_is_runs : forall af pf sg eq cfg cl es s,
    run_with af pf sg eq cfg cl (map EvReconcile es) s = runs (rec_step af pf sg eq cfg cl) es s.
Proof.
  intros af pf sg eq cfg cl es. induction es as [|p es IH]; intros s; [reflexivity|].
  cbn. unfold run_with in IH. now rewrite IH.
Qed.

Theorem order_independent_coherent_with : forall af pf sg eq cfg cl ps es1 es2 s,
    coherent_with af cfg cl ps ->
    incl es1 ps -> incl es2 ps -> incl es1 es2 -> incl es2 es1 ->
    st_equiv (run_with af pf sg eq cfg cl (map EvReconcile es1) s) (run_with af pf sg eq cfg cl (map EvReconcile es2) s).
Proof.
  intros af pf sg eq cfg cl ps es1 es2 s [Hn Hs Ha] I1 I2 I12 I21.
  rewrite !run_reconciles_is_runs.
  apply (runs_same_set st_equiv (rec_step af pf sg eq cfg cl) (fun p => In p ps)).
  - apply st_equiv_refl.
  - apply st_equiv_sym.
  - apply st_equiv_trans.
  - intros; now apply rec_step_resp.
  - intros p s0 Hp. apply rec_step_idem. now apply Hs.
  - intros p q s0 Hp Hq. apply rec_step_comm; [now apply Hn|now apply Ha].
  - apply Forall_forall. exact I1.
  - apply Forall_forall. exact I2.
  - exact I12.
  - exact I21.
Qed.

(** * The grouping object does not depend on the pod unless the pod itself is used as an owner *)
Lemma walk_indep : forall fuel cfg cl podo podo' r last acc top os,
    walk fuel cfg cl podo r last acc = OwnersOk top os false ->
    walk fuel cfg cl podo' r last acc = OwnersOk top os false.
Proof.
  induction fuel as [|f IH]; intros cfg cl podo podo' r last acc top os H; cbn in *; [discriminate|].
  destruct (get_owner cfg cl r) as [o| |]; try discriminate.
  - destruct (o_owners o) as [|r' [|r'' rest]]; try assumption; try discriminate.
    eapply IH; eassumption.
  - destruct last; [assumption|discriminate].
Qed.

Lemma resolve_used : forall fuel cl podo pl top owners pl' g os u,
    resolve fuel cl podo pl top owners true = GOk pl' g os u -> u = true.
Proof.
  induction fuel as [|f IH]; intros cl podo pl top owners pl' g os u H.
  - destruct pl; cbn in H; try discriminate; now inversion H.
  - destruct pl; cbn [resolve] in H; try (now inversion H).
    destruct (if Nat.leb (List.length owners) 1 then _ else _) as [[lo u0]|]; [|discriminate].
    destruct owners as [|x xs]; [discriminate|].
    cbn [orb] in H. eapply IH; eassumption.
Qed.

Lemma resolve_indep : forall fuel cl podo podo' pl top owners used pl' g os,
    resolve fuel cl podo pl top owners used = GOk pl' g os false ->
    resolve fuel cl podo' pl top owners used = GOk pl' g os false.
Proof.
  induction fuel as [|f IH]; intros cl podo podo' pl top owners used pl' g os H.
  - destruct pl; cbn in *; try discriminate; assumption.
  - destruct pl; cbn [resolve] in *; try assumption.
    destruct (Nat.leb (List.length owners) 1) eqn:Hn.
    + destruct owners as [|x xs]; [discriminate|].
      rewrite orb_true_r in H. apply resolve_used in H. discriminate.
    + destruct (nth_error owners (List.length owners - 2)) as [x|]; [|discriminate].
      destruct (find_obj cl (o_gvk x) (o_name x)) as [y|]; [|discriminate].
      destruct owners as [|x0 xs]; [discriminate|].
      eapply IH; eassumption.
Qed.

Lemma grouping_indep : forall cfg cl p q a b pl g os,
    p_owners p = p_owners q ->
    grouping cfg cl p a = GOk pl g os false ->
    grouping cfg cl q b = GOk pl g os false.
Proof.
  intros cfg cl p q a b pl g os Ho H. unfold grouping, get_pod_owners in *. rewrite <- Ho.
  destruct (p_owners p) as [|r rs].
  - apply resolve_used in H. discriminate.
  - destruct (walk _ cfg cl (pod_obj p a) r None []) as [top owners tp| |] eqn:W; try discriminate.
    destruct tp.
    + apply resolve_used in H. discriminate.
    + rewrite (walk_indep _ _ _ _ (pod_obj q b) _ _ _ _ _ W). eapply resolve_indep; eassumption.
Qed.

Lemma grouping_false_has_owners : forall cfg cl p a pl g os,
    grouping cfg cl p a = GOk pl g os false -> p_owners p <> [].
Proof.
  intros cfg cl p a pl g os H Hnil. unfold grouping, get_pod_owners in H. rewrite Hnil in H.
  apply resolve_used in H. discriminate.
Qed.

Lemma not_orphan_with_owners : forall p a, p_owners p <> [] -> is_orphan p a = false.
Proof.
  intros p a H. unfold is_orphan. destruct (lookup _ _); [|reflexivity].
  destruct (p_owners p); [contradiction|reflexivity].
Qed.

(** * What the metadata reads of the pod *)
Definition relevant_label_keys (cfg : config) : list string :=
  [c_queue_key cfg; project_key; c_nodepool_key cfg; priority_key; preempt_key; user_key;
   "spark-app-name"; "spark-app-selector"].

(** same owner reference and same template-derived fields; name, uid and all other labels and
    annotations may differ *)
Definition same_template (cfg : config) (p q : pod) : Prop :=
  p_owners p = p_owners q /\ p_prio p = p_prio q
  /\ lookup user_key (p_annots p) = lookup user_key (p_annots q)
  /\ forall k, In k (relevant_label_keys cfg) -> lookup k (p_labels p) = lookup k (p_labels q).

Lemma same_template_refl : forall cfg p, same_template cfg p p.
Proof. intros cfg p. repeat split; reflexivity. Qed.

Lemma same_template_sym : forall cfg p q, same_template cfg p q -> same_template cfg q p.
Proof. intros cfg p q [H1 [H2 [H3 H4]]]. repeat split; auto. intros k Hk. symmetry. auto. Qed.

Lemma same_template_trans : forall cfg p q r, same_template cfg p q -> same_template cfg q r -> same_template cfg p r.
Proof.
  intros cfg p q r [H1 [H2 [H3 H4]]] [K1 [K2 [K3 K4]]]. repeat split; try congruence.
  intros k Hk. rewrite H4, K4; auto.
Qed.

Section SameTemplate.
  Variables (cfg : config) (p q : pod).
  Hypothesis T : same_template cfg p q.

  Let Hl : forall k, In k (relevant_label_keys cfg) -> lookup k (p_labels p) = lookup k (p_labels q).
  Proof. exact (proj2 (proj2 (proj2 T))). Qed.

  Lemma explicit_prio_same : forall o, explicit_prio o p = explicit_prio o q.
  Proof.
    intros o. unfold explicit_prio. rewrite (Hl priority_key) by (cbn; tauto).
    destruct T as [_ [-> _]]. reflexivity.
  Qed.

  Lemma first_valid_prio_same : forall os, first_valid_prio cfg os p = first_valid_prio cfg os q.
  Proof. induction os as [|o os IH]; cbn; [reflexivity|]. now rewrite explicit_prio_same, IH. Qed.

  Lemma calc_prio_same : forall os d, calc_prio cfg os p d = calc_prio cfg os q d.
  Proof. intros os d. unfold calc_prio. now rewrite first_valid_prio_same. Qed.

  Lemma calc_preempt_same : forall os, calc_preempt cfg os p = calc_preempt cfg os q.
  Proof. intros os. unfold calc_preempt. rewrite (Hl preempt_key) by (cbn; tauto). reflexivity. Qed.

  Lemma calc_queue_same : forall g, calc_queue cfg g p = calc_queue cfg g q.
  Proof.
    intros g. unfold calc_queue.
    rewrite (Hl (c_queue_key cfg)), (Hl project_key), (Hl (c_nodepool_key cfg)) by (cbn; tauto).
    reflexivity.
  Qed.

  Lemma calc_labels_same : forall g, calc_labels g p = calc_labels g q.
  Proof. intros g. unfold calc_labels. rewrite (Hl user_key) by (cbn; tauto). reflexivity. Qed.

  Lemma calc_annots_same : forall af g, calc_annots_with af g p = calc_annots_with af g q.
  Proof. intros af g. unfold calc_annots_with. destruct T as [_ [_ [-> _]]]. reflexivity. Qed.

  Lemma default_md_same : forall af g os, default_md_with af cfg g p os = default_md_with af cfg g q os.
  Proof.
    intros af g os. unfold default_md_with.
    now rewrite calc_labels_same, calc_annots_same, !calc_prio_same, !calc_preempt_same, calc_queue_same.
  Qed.

  Lemma add_node_pool_label_same : forall m, add_node_pool_label cfg m p = add_node_pool_label cfg m q.
  Proof.
    intros m. unfold add_node_pool_label. rewrite (Hl (c_nodepool_key cfg)) by (cbn; tauto). reflexivity.
  Qed.

  Lemma is_spark_pod_same : is_spark_pod p = is_spark_pod q.
  Proof.
    unfold is_spark_pod. rewrite (Hl "spark-app-name"), (Hl "spark-app-selector") by (cbn; tauto). reflexivity.
  Qed.
End SameTemplate.

(** (1) siblings: same top owner, same template-derived fields => the very same metadata *)
Theorem siblings_same_group_with : forall af cfg cl p q a b g os,
    same_template cfg p q ->
    grouping cfg cl p a = GOk PDefault g os false ->
    full_md_with af cfg cl q b = full_md_with af cfg cl p a
    /\ exists m, full_md_with af cfg cl p a = Some m
                 /\ m_name m = pg_name (o_name g) (o_uid g) /\ m_min m = 1%Z /\ m_subgroups m = [].
Proof.
  intros af cfg cl p q a b g os T G.
  pose proof (grouping_indep cfg cl p q a b _ _ _ (proj1 T) G) as G'.
  pose proof (grouping_false_has_owners _ _ _ _ _ _ _ G) as Hp.
  pose proof (grouping_false_has_owners _ _ _ _ _ _ _ G') as Hq.
  unfold full_md_with, reconcile_md_with. rewrite G, G', !not_orphan_with_owners by assumption.
  cbn [leaf_md_with]. split.
  - rewrite (default_md_same cfg p q T), (add_node_pool_label_same cfg p q T). reflexivity.
  - eexists. split; [reflexivity|].
    unfold add_node_pool_label. destruct (String.eqb (c_nodepool_key cfg) ""); cbn; auto.
Qed.

Theorem siblings_same_group : forall cfg cl p q a b g os,
    same_template cfg p q ->
    grouping cfg cl p a = GOk PDefault g os false ->
    full_md cfg cl q b = full_md cfg cl p a
    /\ exists m, full_md cfg cl p a = Some m
                 /\ m_name m = pg_name (o_name g) (o_uid g) /\ m_min m = 1%Z /\ m_subgroups m = [].
Proof. exact (siblings_same_group_with annot_fix). Qed.

(** per-pod kinds: one group per pod, named after the pod, all other fields shared *)
Definition same_but_identity (m m' : metadata) : Prop :=
  m_labels m = m_labels m' /\ m_annots m = m_annots m' /\ m_prio m = m_prio m'
  /\ m_preempt m = m_preempt m' /\ m_queue m = m_queue m' /\ m_min m = m_min m'
  /\ m_subgroups m = m_subgroups m' /\ m_topo m = m_topo m'.

Theorem per_pod_kinds_with : forall af cfg cl p q a b pl g os,
    same_template cfg p q -> pl = PDeployment \/ pl = PJob ->
    grouping cfg cl p a = GOk pl g os false ->
    exists m m', full_md_with af cfg cl p a = Some m /\ full_md_with af cfg cl q b = Some m'
                 /\ m_name m = pg_name (p_name p) (match pl with PDeployment => p_uid p | _ => o_uid g end)
                 /\ m_name m' = pg_name (p_name q) (match pl with PDeployment => p_uid q | _ => o_uid g end)
                 /\ same_but_identity m m'.
Proof.
  intros af cfg cl p q a b pl g os T Hpl G.
  pose proof (grouping_indep cfg cl p q a b _ _ _ (proj1 T) G) as G'.
  pose proof (grouping_false_has_owners _ _ _ _ _ _ _ G) as Hp.
  pose proof (grouping_false_has_owners _ _ _ _ _ _ _ G') as Hq.
  unfold full_md_with, reconcile_md_with. rewrite G, G', !not_orphan_with_owners by assumption.
  destruct Hpl as [-> | ->]; cbn [leaf_md_with]; do 2 eexists; (split; [reflexivity|]); (split; [reflexivity|]).
  - rewrite <- (add_node_pool_label_same cfg p q T).
    unfold deployment_md_with, same_but_identity.
    rewrite (default_md_same cfg p q T), (calc_prio_same cfg p q T).
    unfold add_node_pool_label. destruct (String.eqb (c_nodepool_key cfg) ""); cbn; repeat split; reflexivity.
  - rewrite <- (add_node_pool_label_same cfg p q T).
    unfold job_md_with, with_name, same_but_identity. rewrite (default_md_same cfg p q T).
    unfold add_node_pool_label. destruct (String.eqb (c_nodepool_key cfg) ""); cbn; repeat split; reflexivity.
Qed.

Theorem per_pod_kinds : forall cfg cl p q a b pl g os,
    same_template cfg p q -> pl = PDeployment \/ pl = PJob ->
    grouping cfg cl p a = GOk pl g os false ->
    exists m m', full_md cfg cl p a = Some m /\ full_md cfg cl q b = Some m'
                 /\ m_name m = pg_name (p_name p) (match pl with PDeployment => p_uid p | _ => o_uid g end)
                 /\ m_name m' = pg_name (p_name q) (match pl with PDeployment => p_uid q | _ => o_uid g end)
                 /\ same_but_identity m m'.
Proof. exact (per_pod_kinds_with annot_fix). Qed.

(** * When a pod settles *)

(** ** in every version: pods grouped by an owner object, and pods without owner *)
Lemma full_md_indep : forall af cfg cl p a a' pl g os,
    grouping cfg cl p a = GOk pl g os false -> full_md_with af cfg cl p a' = full_md_with af cfg cl p a.
Proof.
  intros af cfg cl p a a' pl g os G.
  pose proof (grouping_indep cfg cl p p a a' _ _ _ eq_refl G) as G'.
  pose proof (grouping_false_has_owners _ _ _ _ _ _ _ G) as Hp.
  unfold full_md_with, reconcile_md_with. now rewrite G, G', !not_orphan_with_owners.
Qed.

Lemma bare_pod_orphan : forall p n, p_owners p = [] -> is_orphan p (Some n) = true.
Proof.
  intros p n H. unfold is_orphan, cur_annots. now rewrite lookup_aset_same, H.
Qed.

Lemma settles_bare : forall af cfg cl p, p_owners p = [] -> settles_with af cfg cl p.
Proof.
  intros af cfg cl p H a m _. right. unfold full_md_with. now rewrite bare_pod_orphan.
Qed.

Lemma settles_not_pod_grouped : forall af cfg cl p a pl g os,
    grouping cfg cl p a = GOk pl g os false -> settles_with af cfg cl p.
Proof.
  intros af cfg cl p a pl g os G a' m H. left.
  rewrite (full_md_indep _ _ _ _ _ (Some (m_name m)) _ _ _ G).
  now rewrite <- (full_md_indep _ _ _ _ _ a' _ _ _ G).
Qed.

Lemma settles_cases : forall af cfg cl p,
    (p_owners p = [] \/ exists a pl g os, grouping cfg cl p a = GOk pl g os false) -> settles_with af cfg cl p.
Proof.
  intros af cfg cl p [H|[a [pl [g [os H]]]]]; [now apply settles_bare|eapply settles_not_pod_grouped; eauto].
Qed.

(** ** since 8227120: every pod. The pod-group annotation of the pod reaches the metadata only
    through the annotations of the grouping object, and CalcPodGroupAnnotations deletes that key. *)

(** an object without its pod-group-name annotation *)
Definition strip_obj (o : obj) : obj :=
  {| o_gvk := o_gvk o; o_name := o_name o; o_uid := o_uid o; o_labels := o_labels o;
     o_annots := adel pg_annotation_key (o_annots o); o_owners := o_owners o; o_tom := o_tom o |}.

(** two objects that differ in that annotation at most *)
Definition obj_sim (o o' : obj) : Prop := strip_obj o = strip_obj o'.

Lemma obj_sim_refl : forall o, obj_sim o o.
Proof. reflexivity. Qed.

Lemma obj_sim_gvk : forall o o', obj_sim o o' -> o_gvk o = o_gvk o'.
Proof. intros o o' H. exact (f_equal o_gvk H). Qed.

Lemma pod_obj_sim : forall p a a', obj_sim (pod_obj p a) (pod_obj p a').
Proof.
  intros p a a'. unfold obj_sim, strip_obj, pod_obj. cbn. f_equal.
  assert (forall x, adel pg_annotation_key (cur_annots p x) = adel pg_annotation_key (p_annots p)) as H.
  { intros [n|]; [apply adel_aset_same|reflexivity]. }
  now rewrite !H.
Qed.

Definition prop_loop (up l t : smap) : smap :=
  fold_left (fun t kv => match lookup (fst kv) t with
                         | Some _ => t
                         | None => match lookup (fst kv) up with
                                   | Some v => aset (fst kv) v t
                                   | None => t
                                   end
                         end) l t.

Lemma adel_prop_loop : forall k up l t,
    adel k (prop_loop up l t) = prop_loop (adel k up) (adel k l) (adel k t).
Proof.
  intros k up l. induction l as [|[k0 v0] r IH]; intros t; [reflexivity|].
  change (prop_loop up ((k0, v0) :: r) t)
    with (prop_loop up r (match lookup k0 t with
                          | Some _ => t
                          | None => match lookup k0 up with Some v => aset k0 v t | None => t end
                          end)).
  rewrite IH. cbn [adel]. destruct (String.eqb_spec k k0) as [->|Hne].
  - f_equal. destruct (lookup k0 t); [reflexivity|]. destruct (lookup k0 up); [apply adel_aset_same|reflexivity].
  - change (prop_loop (adel k up) ((k0, v0) :: adel k r) (adel k t))
      with (prop_loop (adel k up) (adel k r)
                      (match lookup k0 (adel k t) with
                       | Some _ => adel k t
                       | None => match lookup k0 (adel k up) with Some v => aset k0 v (adel k t) | None => adel k t end
                       end)).
    f_equal. rewrite !lookup_adel.
    destruct (String.eqb_spec k0 k) as [E|_]; [congruence|].
    destruct (lookup k0 t); [reflexivity|]. destruct (lookup k0 up); [|reflexivity].
    now apply adel_aset_other.
Qed.

Lemma adel_propagate_map : forall k lower upper,
    adel k (propagate_map lower upper) = propagate_map (adel k lower) (adel k upper).
Proof. intros k lower upper. exact (adel_prop_loop k upper upper lower). Qed.

Lemma strip_propagate : forall lo up, strip_obj (propagate lo up) = propagate (strip_obj lo) (strip_obj up).
Proof.
  intros lo up. unfold strip_obj, propagate. cbn. f_equal. apply adel_propagate_map.
Qed.

Lemma propagate_sim : forall lo lo' up up',
    obj_sim lo lo' -> obj_sim up up' -> obj_sim (propagate lo up) (propagate lo' up').
Proof.
  intros lo lo' up up' H1 H2. unfold obj_sim in *. now rewrite !strip_propagate, H1, H2.
Qed.

Definition owners_sim (r r' : owners_res) : Prop :=
  match r, r' with
  | OwnersOk t os u, OwnersOk t' os' u' => obj_sim t t' /\ os = os' /\ u = u'
  | OwnersErr, OwnersErr => True
  | OwnersOutOfFuel, OwnersOutOfFuel => True
  | _, _ => False
  end.

Lemma walk_sim : forall fuel cfg cl podo podo' r last acc,
    obj_sim podo podo' ->
    owners_sim (walk fuel cfg cl podo r last acc) (walk fuel cfg cl podo' r last acc).
Proof.
  induction fuel as [|f IH]; intros cfg cl podo podo' r last acc H; cbn [walk]; [exact I|].
  destruct (get_owner cfg cl r) as [o| |].
  - destruct (o_owners o) as [|r' [|r'' rest]].
    + repeat split.
    + now apply IH.
    + exact I.
  - destruct last as [l|]; repeat split. exact H.
  - exact I.
Qed.

Definition grouping_sim (r r' : grouping_res) : Prop :=
  match r, r' with
  | GOk pl g os u, GOk pl' g' os' u' => pl = pl' /\ obj_sim g g' /\ os = os' /\ u = u'
  | GErr, GErr => True
  | GOutOfFuel, GOutOfFuel => True
  | GPanic, GPanic => True
  | _, _ => False
  end.

Lemma resolve_sim : forall fuel cl podo podo' pl top top' owners used,
    obj_sim podo podo' -> obj_sim top top' ->
    grouping_sim (resolve fuel cl podo pl top owners used) (resolve fuel cl podo' pl top' owners used).
Proof.
  induction fuel as [|f IH]; intros cl podo podo' pl top top' owners used Hp Ht.
  - destruct pl; cbn [resolve]; repeat split; assumption.
  - destruct pl; cbn [resolve]; try (repeat split; assumption).
    destruct (Nat.leb (List.length owners) 1).
    + destruct owners as [|x xs]; [exact I|].
      change (o_gvk (propagate podo top)) with (o_gvk podo).
      change (o_gvk (propagate podo' top')) with (o_gvk podo').
      rewrite (obj_sim_gvk _ _ Hp). apply IH; [assumption|now apply propagate_sim].
    + destruct (nth_error owners (List.length owners - 2)) as [x|]; [|exact I].
      destruct (find_obj cl (o_gvk x) (o_name x)) as [y|]; [|exact I].
      destruct owners as [|x0 xs]; [exact I|].
      change (o_gvk (propagate y top)) with (o_gvk y).
      change (o_gvk (propagate y top')) with (o_gvk y).
      apply IH; [assumption|apply propagate_sim; [apply obj_sim_refl|assumption]].
Qed.

(** the grouping object of a pod does not depend on the pod-group annotation the pod carries,
    except for that very annotation on it *)
Lemma grouping_sim_all : forall cfg cl p a a', grouping_sim (grouping cfg cl p a) (grouping cfg cl p a').
Proof.
  intros cfg cl p a a'. unfold grouping, get_pod_owners.
  pose proof (pod_obj_sim p a a') as Hp.
  destruct (p_owners p) as [|r rs].
  - change (o_gvk (pod_obj p a)) with pod_gvk. change (o_gvk (pod_obj p a')) with pod_gvk.
    now apply resolve_sim.
  - pose proof (walk_sim (S (List.length cl)) cfg cl _ _ r None [] Hp) as W.
    destruct (walk _ cfg cl (pod_obj p a) r None []) as [t os u| |];
      destruct (walk _ cfg cl (pod_obj p a') r None []) as [t' os' u'| |]; cbn in W; try contradiction; try exact I.
    destruct W as [Ht [<- <-]]. rewrite (obj_sim_gvk _ _ Ht). now apply resolve_sim.
Qed.

Lemma adel_copy_loop : forall k src l t,
    adel k (copy_loop src l t) = copy_loop (adel k src) (adel k l) (adel k t).
Proof.
  intros k src l. induction l as [|[k0 v0] r IH]; intros t; [reflexivity|].
  rewrite copy_loop_cons, IH. cbn [fst adel]. destruct (String.eqb_spec k k0) as [->|Hne].
  - f_equal. destruct (lookup k0 src); [apply adel_aset_same|reflexivity].
  - rewrite copy_loop_cons. cbn [fst]. f_equal. rewrite lookup_adel.
    destruct (String.eqb_spec k0 k) as [E|_]; [congruence|].
    destruct (lookup k0 src); [now apply adel_aset_other|reflexivity].
Qed.

Lemma adel_copy_into : forall k s t, adel k (copy_into s t) = copy_into (adel k s) (adel k t).
Proof. intros k s t. rewrite !copy_into_loop. apply adel_copy_loop. Qed.

Lemma annot_or_empty_strip : forall k o,
    String.eqb k pg_annotation_key = false -> annot_or_empty k (strip_obj o) = annot_or_empty k o.
Proof.
  intros k o H. unfold annot_or_empty, strip_obj. cbn [o_annots]. now rewrite lookup_adel, H.
Qed.

Lemma adel_idem : forall (m : smap) k, adel k (adel k m) = adel k m.
Proof. intros m k. apply adel_noop. rewrite lookup_adel. now rewrite String.eqb_refl. Qed.

(** the current CalcPodGroupAnnotations does not see the pod-group-name annotation of the top owner *)
Lemma calc_annots_strip : forall g p, calc_annots g p = calc_annots (strip_obj g) p.
Proof.
  intros g p. unfold calc_annots, calc_annots_with, annot_fix, annot_fix_v1, strip_obj. cbn [o_annots o_tom].
  now rewrite !adel_copy_into, adel_idem.
Qed.

Lemma default_md_strip : forall cfg g p os,
    default_md_with annot_fix cfg g p os = default_md_with annot_fix cfg (strip_obj g) p os.
Proof.
  intros cfg g p os. unfold default_md_with.
  change (calc_annots_with annot_fix g p) with (calc_annots g p).
  change (calc_annots_with annot_fix (strip_obj g) p) with (calc_annots (strip_obj g) p).
  rewrite <- (calc_annots_strip g p), !annot_or_empty_strip by reflexivity.
  destruct os; reflexivity.
Qed.

Lemma leaf_md_sim : forall cfg pl g g' p os,
    obj_sim g g' -> leaf_md_with annot_fix cfg pl g p os = leaf_md_with annot_fix cfg pl g' p os.
Proof.
  intros cfg pl g g' p os H. unfold obj_sim in H.
  destruct pl; cbn [leaf_md_with]; try reflexivity.
  - now rewrite (default_md_strip cfg g), (default_md_strip cfg g'), H.
  - unfold deployment_md_with. rewrite (default_md_strip cfg g), (default_md_strip cfg g'), H.
    change (calc_prio cfg [g] p "inference") with (calc_prio cfg [strip_obj g] p "inference").
    change (calc_prio cfg [g'] p "inference") with (calc_prio cfg [strip_obj g'] p "inference").
    now rewrite H.
  - unfold job_md_with. rewrite (default_md_strip cfg g), (default_md_strip cfg g'), H.
    change (o_uid g) with (o_uid (strip_obj g)). change (o_uid g') with (o_uid (strip_obj g')). now rewrite H.
  - destruct (is_spark_pod p); [reflexivity|].
    now rewrite (default_md_strip cfg g), (default_md_strip cfg g'), H.
Qed.

(** the metadata of a pod that has an owner reference does not depend on its pod-group annotation *)
Lemma full_md_indep_all : forall cfg cl p a a', p_owners p <> [] -> full_md cfg cl p a = full_md cfg cl p a'.
Proof.
  intros cfg cl p a a' Hp. unfold full_md, full_md_with, reconcile_md_with.
  rewrite !not_orphan_with_owners by assumption.
  pose proof (grouping_sim_all cfg cl p a a') as G.
  destruct (grouping cfg cl p a) as [pl g os u| | |]; destruct (grouping cfg cl p a') as [pl' g' os' u'| | |];
    cbn in G; try contradiction; try reflexivity.
  destruct G as [<- [Hg [<- _]]]. now rewrite (leaf_md_sim cfg pl g g' p os Hg).
Qed.

(** every pod settles *)
Theorem all_settle : forall cfg cl p, settles cfg cl p.
Proof.
  intros cfg cl p. destruct (p_owners p) as [|r rs] eqn:E.
  - now apply settles_bare.
  - intros a m H. left. rewrite <- H. apply full_md_indep_all. rewrite E. discriminate.
Qed.

(** siblings of a shared kind form a coherent set *)
Lemma siblings_coherent_with : forall af cfg cl ps p0 a0 g os,
    NoDup (map p_name ps) ->
    (forall p, In p ps -> same_template cfg p0 p) ->
    grouping cfg cl p0 a0 = GOk PDefault g os false ->
    coherent_with af cfg cl ps.
Proof.
  intros af cfg cl ps p0 a0 g os Hnd Ht G. constructor.
  - intros p q Hp Hq Hn. clear - Hnd Hp Hq Hn.
    induction ps as [|x ps IH]; [contradiction|].
    cbn in Hnd. inversion Hnd as [|? ? Hnotin Hnd']; subst.
    destruct Hp as [->|Hp], Hq as [->|Hq]; auto.
    + exfalso. apply Hnotin. rewrite Hn. now apply in_map.
    + exfalso. apply Hnotin. rewrite <- Hn. now apply in_map.
  - intros p Hp.
    apply (settles_not_pod_grouped af cfg cl p a0 PDefault g os).
    apply (grouping_indep cfg cl p0 p a0 a0); [exact (proj1 (Ht p Hp))|exact G].
  - intros p q Hp Hq a b m m' Em Em' _.
    destruct (siblings_same_group_with af cfg cl p0 p a0 a g os (Ht p Hp) G) as [E1 _].
    destruct (siblings_same_group_with af cfg cl p0 q a0 b g os (Ht q Hq) G) as [E2 _].
    congruence.
Qed.

(** for the code as it is, coherence needs no settling hypothesis *)
Record coherent (cfg : config) (cl : list obj) (ps : list pod) : Prop := {
  coh_names : forall p q, In p ps -> In q ps -> p_name p = p_name q -> p = q;
  coh_agree : forall p q, In p ps -> In q ps -> agree_on_names cfg cl p q
}.

Lemma coherent_is_with : forall cfg cl ps, coherent cfg cl ps -> coherent_with annot_fix cfg cl ps.
Proof.
  intros cfg cl ps [Hn Ha]. constructor; [exact Hn| |exact Ha]. intros p _. apply all_settle.
Qed.

Lemma siblings_coherent : forall cfg cl ps p0 a0 g os,
    NoDup (map p_name ps) ->
    (forall p, In p ps -> same_template cfg p0 p) ->
    grouping cfg cl p0 a0 = GOk PDefault g os false ->
    coherent cfg cl ps.
Proof.
  intros cfg cl ps p0 a0 g os Hnd Ht G.
  destruct (siblings_coherent_with annot_fix cfg cl ps p0 a0 g os Hnd Ht G) as [Hn _ Ha].
  constructor; assumption.
Qed.

(** (2) for the code as it is *)
Theorem order_independent_coherent : forall pf sg eq cfg cl ps es1 es2 s,
    coherent cfg cl ps ->
    incl es1 ps -> incl es2 ps -> incl es1 es2 -> incl es2 es1 ->
    st_equiv (run_with annot_fix pf sg eq cfg cl (map EvReconcile es1) s)
             (run_with annot_fix pf sg eq cfg cl (map EvReconcile es2) s).
Proof.
  intros pf sg eq cfg cl ps es1 es2 s H. apply order_independent_coherent_with. now apply coherent_is_with.
Qed.

(** (2) for siblings of a shared kind, in every version *)
Theorem order_independent_siblings : forall af pf sg eq cfg cl ps p0 a0 g os es1 es2 s,
    NoDup (map p_name ps) ->
    (forall p, In p ps -> same_template cfg p0 p) ->
    grouping cfg cl p0 a0 = GOk PDefault g os false ->
    incl es1 ps -> incl es2 ps -> incl es1 es2 -> incl es2 es1 ->
    st_equiv (run_with af pf sg eq cfg cl (map EvReconcile es1) s) (run_with af pf sg eq cfg cl (map EvReconcile es2) s).
Proof.
  intros af pf sg eq cfg cl ps p0 a0 g os es1 es2 s Hnd Ht G I1 I2 I12 I21.
  apply (order_independent_coherent_with af pf sg eq cfg cl ps es1 es2 s); try assumption.
  apply (siblings_coherent_with af cfg cl ps p0 a0 g os); assumption.
Qed.

(** reconciling a pod twice leaves the state the first reconcile produced (no coherence needed) *)
Definition order_independent_unrestricted (af pf sg : bool) (eq : pg -> pg -> bool) : Prop :=
  forall cfg cl p s,
    st_equiv (run_with af pf sg eq cfg cl (map EvReconcile [p]) s) (run_with af pf sg eq cfg cl (map EvReconcile [p; p]) s).

Theorem reconcile_twice_same_state : forall pf sg eq, order_independent_unrestricted annot_fix pf sg eq.
Proof.
  intros pf sg eq cfg cl p s. cbn. apply st_equiv_sym.
  apply (rec_step_idem annot_fix pf sg eq cfg cl p s). apply all_settle.
Qed.

(** * (3) idempotence of the handler since 9775a95 *)
Definition no_stale_subgroup (p : pod) : Prop :=
  match lookup subgroup_label_key (p_labels p) with Some v => v | None => "" end = "".

(** the statement: from any state, a second reconcile of any pod issues no mutating call *)
Definition idempotent_statement (af pf sg : bool) (eq : pg -> pg -> bool) : Prop :=
  forall cfg cl p s, snd (reconcile_with af pf sg eq cfg cl p (rec_step af pf sg eq cfg cl p s)) = 0%Z.

(** ... and what held of it before the repairs 3f1c7d2 and 8227120 *)
Definition idempotent_partial_statement (af pf sg : bool) (eq : pg -> pg -> bool) : Prop :=
  forall cfg cl p s, settles_with af cfg cl p -> no_stale_subgroup p ->
                     snd (reconcile_with af pf sg eq cfg cl p (rec_step af pf sg eq cfg cl p s)) = 0%Z.

Lemma no_patch_after_assignment : forall pf m p,
    pf = true \/ no_stale_subgroup p -> needs_patch_with pf m p (Some (m_name m)) = false.
Proof.
  intros pf m p H. unfold needs_patch_with, cur_annots, expected_subgroup.
  rewrite lookup_aset_same, String.eqb_refl. destruct H as [->|H].
  - reflexivity.
  - unfold no_stale_subgroup in H. rewrite H. cbn. now rewrite orb_true_r.
Qed.

Lemma idempotent_gen : forall af pf cfg cl p s,
    settles_with af cfg cl p -> pf = true \/ no_stale_subgroup p ->
    snd (reconcile_with af pf true pg_equal_v1 cfg cl p (rec_step af pf true pg_equal_v1 cfg cl p s)) = 0%Z.
Proof.
  intros af pf cfg cl p s Hset Hsg.
  destruct (full_md_with af cfg cl p (get_asg (p_name p) s)) as [m|] eqn:E.
  - destruct (rec_step_some af pf true pg_equal_v1 cfg cl p s m E) as [P1 [A1 _]].
    set (s1 := rec_step af pf true pg_equal_v1 cfg cl p s) in *.
    assert (get_asg (p_name p) s1 = Some (m_name m)) as Ha1 by now rewrite A1, String.eqb_refl.
    destruct (Hset _ _ E) as [E2|E2]; rewrite <- Ha1 in E2.
    + destruct (rec_step_some af pf true pg_equal_v1 cfg cl p s1 m E2) as [_ [_ W]].
      rewrite W, P1, String.eqb_refl, apply_slot_v1_second_zero, Ha1.
      now rewrite no_patch_after_assignment.
    + now rewrite (rec_step_none _ _ _ _ _ _ _ _ E2).
  - unfold rec_step. rewrite (rec_step_none _ _ _ _ _ _ _ _ E). cbn [fst]. now rewrite (rec_step_none _ _ _ _ _ _ _ _ E).
Qed.

(** the code as it is: no hypothesis on the pod, the cluster, the configuration or the state *)
Theorem idempotent_v1 : idempotent_statement annot_fix patch_fix true pg_equal_v1.
Proof. intros cfg cl p s. apply idempotent_gen; [apply all_settle|now left]. Qed.

(** every combination of the two later repairs, under the two hypotheses they made superfluous *)
Theorem idempotent_partial : forall af pf, idempotent_partial_statement af pf true pg_equal_v1.
Proof. intros af pf cfg cl p s Hset Hsg. apply idempotent_gen; [assumption|now right]. Qed.

(** ... with reconciles of other pods of a coherent set in between: once [p] was reconciled, every later
    reconcile of [p] is silent, whatever reconciles of pods of the set happened since *)
Section Interleaved.
  Variables (af pf : bool) (cfg : config) (cl : list obj) (ps : list pod) (p : pod).
  Hypothesis coh : coherent_with af cfg cl ps.
  Hypothesis p_in : In p ps.
  Let rs := rec_step af pf true pg_equal_v1 cfg cl.

  Lemma other_pod_other_name : forall q, In q ps -> q <> p -> String.eqb (p_name p) (p_name q) = false.
  Proof.
    intros q Hq Hne. destruct (String.eqb_spec (p_name p) (p_name q)) as [E|E]; [|reflexivity].
    elim Hne. symmetry. now apply (cohw_names _ _ _ _ coh).
  Qed.

  (** case 1: [p] is skipped in the current state — it stays skipped *)
  Lemma skipped_stays : forall es s,
      incl es ps -> full_md_with af cfg cl p (get_asg (p_name p) s) = None ->
      get_asg (p_name p) (runs rs es s) = get_asg (p_name p) s.
  Proof.
    induction es as [|q es IH]; intros s Hes Hn; [reflexivity|]. cbn [runs fold_left].
    assert (In q ps) as Hq by (apply Hes; now left).
    assert (incl es ps) as Hes' by (intros x Hx; apply Hes; now right).
    assert (get_asg (p_name p) (rs q s) = get_asg (p_name p) s) as Hstep.
    { destruct (full_md_with af cfg cl q (get_asg (p_name q) s)) as [mq|] eqn:Eq.
      - destruct (rec_step_some af pf true pg_equal_v1 cfg cl q s mq Eq) as [_ [A _]]. unfold rs. rewrite A.
        destruct (String.eqb_spec (p_name p) (p_name q)) as [En|_]; [|reflexivity].
        assert (p = q) as <- by now apply (cohw_names _ _ _ _ coh). congruence.
      - unfold rs, rec_step. now rewrite (rec_step_none _ _ _ _ _ _ _ _ Eq). }
    fold (runs rs es (rs q s)). rewrite IH; [exact Hstep|exact Hes'|now rewrite Hstep].
  Qed.

  (** case 2: [p] was assigned to the group of [m] and the slot holds what ApplyToCluster left there *)
  Definition assigned (m : metadata) (s : state) : Prop :=
    get_asg (p_name p) s = Some (m_name m)
    /\ exists cur, get_pg (m_name m) s = Some (fst (apply_slot_with true pg_equal_v1 cfg m cur)).

  Lemma assigned_step : forall a0 m q s,
      full_md_with af cfg cl p a0 = Some m -> In q ps -> assigned m s -> assigned m (rs q s).
  Proof.
    intros a0 m q s Em Hq [Ha [cur Hs]].
    destruct (full_md_with af cfg cl q (get_asg (p_name q) s)) as [mq|] eqn:Eq.
    - destruct (rec_step_some af pf true pg_equal_v1 cfg cl q s mq Eq) as [P [A _]]. unfold rs. split.
      + rewrite A. destruct (String.eqb_spec (p_name p) (p_name q)) as [En|_]; [|exact Ha].
        assert (p = q) as <- by now apply (cohw_names _ _ _ _ coh).
        rewrite Ha in Eq. destruct (cohw_settles _ _ _ _ coh p p_in _ _ Em) as [E2|E2]; congruence.
      + rewrite P. destruct (String.eqb_spec (m_name m) (m_name mq)) as [En|_]; [|now exists cur].
        assert (m = mq) as <- by (apply (cohw_agree _ _ _ _ coh p q p_in Hq _ _ _ _ Em Eq En)).
        rewrite Hs. eexists. reflexivity.
    - unfold rs, rec_step. rewrite (rec_step_none _ _ _ _ _ _ _ _ Eq). split; [exact Ha|now exists cur].
  Qed.

  Lemma assigned_runs : forall a0 m es s,
      full_md_with af cfg cl p a0 = Some m -> incl es ps -> assigned m s -> assigned m (runs rs es s).
  Proof.
    intros a0 m es. induction es as [|q es IH]; intros s Em Hes Hs; [exact Hs|]. cbn [runs fold_left].
    fold (runs rs es (rs q s)). apply IH; [exact Em|intros x Hx; apply Hes; now right|].
    apply (assigned_step a0); [exact Em|apply Hes; now left|exact Hs].
  Qed.

  Lemma assigned_silent : forall a0 m s,
      pf = true \/ no_stale_subgroup p ->
      full_md_with af cfg cl p a0 = Some m -> assigned m s ->
      snd (reconcile_with af pf true pg_equal_v1 cfg cl p s) = 0%Z.
  Proof.
    intros a0 m s Hsg Em [Ha [cur Hs]].
    destruct (cohw_settles _ _ _ _ coh p p_in _ _ Em) as [E2|E2]; rewrite <- Ha in E2.
    - destruct (rec_step_some af pf true pg_equal_v1 cfg cl p s m E2) as [_ [_ W]].
      rewrite W, Hs, apply_slot_v1_second_zero, Ha. now rewrite no_patch_after_assignment.
    - now rewrite (rec_step_none _ _ _ _ _ _ _ _ E2).
  Qed.

  Theorem idempotent_interleaved_gen : forall es1 es2 s,
      pf = true \/ no_stale_subgroup p ->
      incl es2 ps ->
      snd (reconcile_with af pf true pg_equal_v1 cfg cl p (runs rs es2 (rs p (runs rs es1 s)))) = 0%Z.
  Proof.
    intros es1 es2 s Hsg Hes2. set (s0 := runs rs es1 s).
    destruct (full_md_with af cfg cl p (get_asg (p_name p) s0)) as [m|] eqn:E.
    - apply (assigned_silent (get_asg (p_name p) s0) m); [exact Hsg|exact E|].
      apply (assigned_runs (get_asg (p_name p) s0) m _ _ E Hes2).
      destruct (rec_step_some af pf true pg_equal_v1 cfg cl p s0 m E) as [P [A _]]. unfold rs. split.
      + now rewrite A, String.eqb_refl.
      + rewrite P, String.eqb_refl. eexists. reflexivity.
    - assert (rs p s0 = s0) as -> by (unfold rs, rec_step; now rewrite (rec_step_none _ _ _ _ _ _ _ _ E)).
      assert (full_md_with af cfg cl p (get_asg (p_name p) (runs rs es2 s0)) = None) as E'
          by now rewrite skipped_stays.
      now rewrite (rec_step_none _ _ _ _ _ _ _ _ E').
  Qed.
End Interleaved.

Theorem idempotent_interleaved : forall cfg cl ps es p s,
    coherent cfg cl ps -> incl es ps -> In p es ->
    snd (reconcile cfg cl p (run cfg cl (map EvReconcile es) s)) = 0%Z.
Proof.
  intros cfg cl ps es p s Hc Hes Hp.
  destruct (in_split _ _ Hp) as [es1 [es2 ->]].
  unfold run, reconcile. rewrite run_reconciles_is_runs.
  unfold runs. rewrite fold_left_app. cbn [fold_left].
  apply (idempotent_interleaved_gen annot_fix patch_fix cfg cl ps p (coherent_is_with _ _ _ Hc)).
  - apply Hes, in_or_app. right. now left.
  - now left.
  - intros x Hx. apply Hes, in_or_app. right. now right.
Qed.


(** * (4) fields owned by other actors *)

(** what a list of key updates does to the value of key [k] *)
Definition upd_val (k : string) (us : list (string * option string)) (v : option string) : option string :=
  fold_left (fun v u => if String.eqb k (fst u) then snd u else v) us v.

Lemma lookup_upd_label : forall k u l k',
    lookup k' (upd_label k u l) =
    if String.eqb k' k then match u with None => lookup k' l | Some x => x end else lookup k' l.
Proof.
  intros k u l k'. destruct u as [[v|]|]; cbn [upd_label].
  - rewrite lookup_aset. reflexivity.
  - rewrite lookup_adel. reflexivity.
  - now destruct (String.eqb k' k).
Qed.

Lemma lookup_upd_keys : forall us l k, lookup k (upd_keys us l) = upd_val k us (lookup k l).
Proof.
  unfold upd_keys, upd_val. induction us as [|u r IH]; intros l k; cbn [fold_left]; [reflexivity|].
  rewrite IH. f_equal. apply lookup_upd_label.
Qed.

Lemma upd_val_untouched : forall k us v, ~ In k (map fst us) -> upd_val k us v = v.
Proof.
  unfold upd_val. induction us as [|u r IH]; intros v H; cbn [fold_left]; [reflexivity|].
  cbn [map In] in H. destruct (String.eqb_spec k (fst u)) as [E|_].
  - elim H. left. now symmetry.
  - apply IH. intros Hin. apply H. now right.
Qed.

(** a label of the stored PodGroup after a foreign update, as a function of what it was before *)
Definition flabel_upd (cfg : config) (k : string) (f : foreign_upd) (v : option string) : option string :=
  if String.eqb k (c_queue_key cfg)
  then match f_qlabel f with
       | None => if String.eqb k (c_nodepool_key cfg)
                 then match f_nodepool f with None => upd_val k (f_labels f) v | Some x => x end
                 else upd_val k (f_labels f) v
       | Some x => x
       end
  else if String.eqb k (c_nodepool_key cfg)
       then match f_nodepool f with None => upd_val k (f_labels f) v | Some x => x end
       else upd_val k (f_labels f) v.

Lemma foreign_apply_label : forall cfg f g k,
    mget k (pg_labels (foreign_apply cfg f g)) = flabel_upd cfg k f (mget k (pg_labels g)).
Proof.
  intros cfg f g k. unfold foreign_apply. cbn [norm pg_labels]. rewrite mget_norm_map. cbn [mget].
  rewrite !lookup_upd_label, lookup_upd_keys, mget_or_nil. reflexivity.
Qed.

Lemma foreign_apply_annot : forall cfg f g k,
    mget k (pg_annots (foreign_apply cfg f g)) = upd_val k (f_annots f) (mget k (pg_annots g)).
Proof.
  intros cfg f g k. unfold foreign_apply. cbn [norm pg_annots]. rewrite mget_norm_map. cbn [mget].
  rewrite lookup_upd_keys, mget_or_nil. reflexivity.
Qed.

Lemma flabel_upd_other : forall cfg k f v,
    k <> c_queue_key cfg -> k <> c_nodepool_key cfg -> flabel_upd cfg k f v = upd_val k (f_labels f) v.
Proof.
  intros cfg k f v Hq Hn. unfold flabel_upd.
  destruct (String.eqb_spec k (c_queue_key cfg)); [congruence|].
  destruct (String.eqb_spec k (c_nodepool_key cfg)); [congruence|]. reflexivity.
Qed.

(** [f_labels] may name the node-pool key as well: the dedicated field [f_nodepool] is applied after it *)
Definition fupd_view (cfg : config) (f : foreign_upd) (v : fview) : fview :=
  {| fv_queue := match f_queue f with Some q => q | None => fv_queue v end;
     fv_mark := match f_mark f with Some x => x | None => fv_mark v end;
     fv_backoff := match f_backoff f with Some x => x | None => fv_backoff v end;
     fv_nodepool := match f_nodepool f with
                    | Some x => x
                    | None => upd_val (c_nodepool_key cfg) (f_labels f) (fv_nodepool v)
                    end |}.

(** what the foreign updates alone do to the view of PodGroup [n] *)
Fixpoint foreign_only (cfg : config) (n : string) (evs : list event) (v : fview) : fview :=
  match evs with
  | [] => v
  | EvReconcile _ :: r => foreign_only cfg n r v
  | EvForeign n' f :: r => foreign_only cfg n r (if String.eqb n' n then fupd_view cfg f v else v)
  end.

Lemma foreign_apply_view : forall cfg f g,
    c_queue_key cfg <> c_nodepool_key cfg ->
    foreign_view cfg (foreign_apply cfg f g) = fupd_view cfg f (foreign_view cfg g).
Proof.
  intros cfg f g Hne. unfold foreign_view, fupd_view. cbn [fv_queue fv_mark fv_backoff fv_nodepool].
  rewrite foreign_apply_label. unfold flabel_upd. rewrite String.eqb_refl.
  destruct (String.eqb_spec (c_nodepool_key cfg) (c_queue_key cfg)) as [E|_]; [congruence|].
  f_equal; try (now destruct (f_nodepool f)).
Qed.

Lemma step_foreign_view : forall af pf sg eq cfg cl e s n g,
    c_queue_key cfg <> c_nodepool_key cfg ->
    get_pg n s = Some g ->
    exists g', get_pg n (fst (step_with af pf sg eq cfg cl e s)) = Some g'
               /\ foreign_view cfg g' = foreign_only cfg n [e] (foreign_view cfg g).
Proof.
  intros af pf sg eq cfg cl e s n g Hne Hg. destruct e as [p|n' f]; cbn [step_with foreign_only].
  - destruct (full_md_with af cfg cl p (get_asg (p_name p) s)) as [m|] eqn:E.
    + destruct (rec_step_some af pf sg eq cfg cl p s m E) as [P1 _]. fold (rec_step af pf sg eq cfg cl p s). rewrite P1.
      destruct (String.eqb_spec n (m_name m)) as [->|Hn].
      * rewrite Hg. eexists. split; [reflexivity|]. apply apply_slot_foreign_view.
      * exists g. auto.
    + rewrite (rec_step_none _ _ _ _ _ _ _ _ E). exists g. auto.
  - destruct (get_pg n' s) as [g0|] eqn:E0; cbn [fst].
    + unfold get_pg at 1. cbn [st_pgs]. rewrite lookup_aset. destruct (String.eqb_spec n n') as [->|Hn].
      * rewrite String.eqb_refl. eexists. split; [reflexivity|].
        assert (g0 = g) as -> by (unfold get_pg in *; congruence). now apply foreign_apply_view.
      * destruct (String.eqb_spec n' n); [congruence|]. exists g. auto.
    + destruct (String.eqb_spec n' n) as [->|_]; [congruence|]. exists g. auto.
Qed.

Theorem foreign_fields_kept : forall af pf sg eq cfg cl evs s n g,
    c_queue_key cfg <> c_nodepool_key cfg ->
    get_pg n s = Some g ->
    exists g', get_pg n (run_with af pf sg eq cfg cl evs s) = Some g'
               /\ foreign_view cfg g' = foreign_only cfg n evs (foreign_view cfg g).
Proof.
  intros af pf sg eq cfg cl evs. induction evs as [|e evs IH]; intros s n g Hne Hg.
  - exists g. auto.
  - destruct (step_foreign_view af pf sg eq cfg cl e s n g Hne Hg) as [g1 [Hg1 Hv1]].
    destruct (IH _ n g1 Hne Hg1) as [g' [Hg' Hv']].
    exists g'. split; [exact Hg'|]. rewrite Hv', Hv1.
    destruct e as [p|n' f]; reflexivity.
Qed.

(** ** labels and annotations the grouper does not compute *)

(** what the foreign updates alone do to key [k] of PodGroup [n] ([sel] = [f_labels] or [f_annots]) *)
Fixpoint foreign_only_key (sel : foreign_upd -> list (string * option string)) (n k : string)
         (evs : list event) (v : option string) : option string :=
  match evs with
  | [] => v
  | EvReconcile _ :: r => foreign_only_key sel n k r v
  | EvForeign n' f :: r => foreign_only_key sel n k r (if String.eqb n' n then upd_val k (sel f) v else v)
  end.

(** no reconcile among [evs] that targets PodGroup [n] computes key [k] ([sel] = [m_labels] or [m_annots]) *)
Definition not_computed (af : bool) (cfg : config) (cl : list obj) (n : string) (evs : list event)
           (sel : metadata -> option smap) (k : string) : Prop :=
  forall p a m, In (EvReconcile p) evs -> full_md_with af cfg cl p a = Some m -> m_name m = n -> mget k (sel m) = None.

Lemma not_computed_cons : forall af cfg cl n e evs sel k,
    not_computed af cfg cl n (e :: evs) sel k ->
    not_computed af cfg cl n [e] sel k /\ not_computed af cfg cl n evs sel k.
Proof.
  intros af cfg cl n e evs sel k H. split; intros p a m Hin; apply H.
  - destruct Hin as [<-|[]]. now left.
  - now right.
Qed.

Lemma ignored_labels_other : forall cfg old new k,
    k <> c_queue_key cfg -> k <> c_nodepool_key cfg ->
    lookup k (ignored_labels cfg old new) = mget k (pg_labels new).
Proof.
  intros cfg old new k Hq Hn. unfold ignored_labels, q_step, np_step. rewrite mget_or_nil.
  destruct (lookup (c_queue_key cfg) (or_nil (pg_labels old)));
    destruct (lookup (c_nodepool_key cfg) (or_nil (pg_labels old)));
    rewrite ?lookup_aset, ?lookup_adel;
    repeat match goal with
           | |- context [String.eqb k ?x] => destruct (String.eqb_spec k x); [congruence|]
           end; reflexivity.
Qed.

Lemma apply_slot_other_annots : forall sg eq cfg m old k,
    mget k (m_annots m) = None ->
    mget k (pg_annots (fst (apply_slot_with sg eq cfg m (Some old)))) = mget k (pg_annots old).
Proof.
  intros sg eq cfg m old k H. unfold apply_slot_with.
  destruct (eq old _); cbn [fst]; [reflexivity|].
  cbn [norm update_pg pg_annots ignore_fields create_pg]. rewrite mget_norm_map.
  destruct (m_annots m) as [a|]; [|reflexivity].
  rewrite copy_string_map_some. cbn [mget] in *. now rewrite lookup_copy_into, H, mget_or_nil.
Qed.

Section ForeignKey.
  Variables (af pf sg : bool) (eq : pg -> pg -> bool) (cfg : config) (cl : list obj).
  (** [fsel]/[msel]/[gsel]: the label side or the annotation side *)
  Variables (fsel : foreign_upd -> list (string * option string)) (msel : metadata -> option smap)
            (gsel : pg -> option smap) (k : string).
  Hypothesis foreign_side : forall f g, mget k (gsel (foreign_apply cfg f g)) = upd_val k (fsel f) (mget k (gsel g)).
  Hypothesis reconcile_side : forall m old,
      mget k (msel m) = None -> mget k (gsel (fst (apply_slot_with sg eq cfg m (Some old)))) = mget k (gsel old).

  Lemma step_foreign_key : forall e s n g,
      not_computed af cfg cl n [e] msel k ->
      get_pg n s = Some g ->
      exists g', get_pg n (fst (step_with af pf sg eq cfg cl e s)) = Some g'
                 /\ mget k (gsel g') = foreign_only_key fsel n k [e] (mget k (gsel g)).
  Proof.
    intros e s n g Hnc Hg. destruct e as [p|n' f]; cbn [step_with foreign_only_key].
    - destruct (full_md_with af cfg cl p (get_asg (p_name p) s)) as [m|] eqn:E.
      + destruct (rec_step_some af pf sg eq cfg cl p s m E) as [P1 _]. fold (rec_step af pf sg eq cfg cl p s). rewrite P1.
        destruct (String.eqb_spec n (m_name m)) as [->|Hn].
        * rewrite Hg. eexists. split; [reflexivity|]. apply reconcile_side.
          apply (Hnc p (get_asg (p_name p) s) m); [now left|exact E|reflexivity].
        * exists g. auto.
      + rewrite (rec_step_none _ _ _ _ _ _ _ _ E). exists g. auto.
    - destruct (get_pg n' s) as [g0|] eqn:E0; cbn [fst].
      + unfold get_pg at 1. cbn [st_pgs]. rewrite lookup_aset. destruct (String.eqb_spec n n') as [->|Hn].
        * rewrite String.eqb_refl. eexists. split; [reflexivity|].
          assert (g0 = g) as -> by (unfold get_pg in *; congruence). apply foreign_side.
        * destruct (String.eqb_spec n' n); [congruence|]. exists g. auto.
      + destruct (String.eqb_spec n' n) as [->|_]; [congruence|]. exists g. auto.
  Qed.

  Lemma run_foreign_key : forall evs s n g,
      not_computed af cfg cl n evs msel k ->
      get_pg n s = Some g ->
      exists g', get_pg n (run_with af pf sg eq cfg cl evs s) = Some g'
                 /\ mget k (gsel g') = foreign_only_key fsel n k evs (mget k (gsel g)).
  Proof.
    induction evs as [|e evs IH]; intros s n g Hnc Hg.
    - exists g. auto.
    - destruct (not_computed_cons _ _ _ _ _ _ _ _ Hnc) as [Hnc1 Hnc2].
      destruct (step_foreign_key e s n g Hnc1 Hg) as [g1 [Hg1 Hv1]].
      destruct (IH _ n g1 Hnc2 Hg1) as [g' [Hg' Hv']].
      exists g'. split; [exact Hg'|]. rewrite Hv', Hv1.
      destruct e as [p|n' f]; reflexivity.
  Qed.
End ForeignKey.

(** a label key other than the queue and node-pool keys that no reconcile computes holds, after any
    interleaving of reconciles and foreign updates, what the foreign updates alone make of it *)
Theorem foreign_labels_kept : forall af pf sg eq cfg cl evs s n g k,
    k <> c_queue_key cfg -> k <> c_nodepool_key cfg ->
    not_computed af cfg cl n evs m_labels k ->
    get_pg n s = Some g ->
    exists g', get_pg n (run_with af pf sg eq cfg cl evs s) = Some g'
               /\ mget k (pg_labels g') = foreign_only_key f_labels n k evs (mget k (pg_labels g)).
Proof.
  intros af pf sg eq cfg cl evs s n g k Hq Hn. apply run_foreign_key.
  - intros f g0. rewrite foreign_apply_label. now apply flabel_upd_other.
  - intros m old H. apply apply_slot_other_labels. rewrite ignored_labels_other by assumption. exact H.
Qed.

Theorem foreign_annots_kept : forall af pf sg eq cfg cl evs s n g k,
    not_computed af cfg cl n evs m_annots k ->
    get_pg n s = Some g ->
    exists g', get_pg n (run_with af pf sg eq cfg cl evs s) = Some g'
               /\ mget k (pg_annots g') = foreign_only_key f_annots n k evs (mget k (pg_annots g)).
Proof.
  intros af pf sg eq cfg cl evs s n g k. apply run_foreign_key.
  - intros f g0. apply foreign_apply_annot.
  - intros m old H. now apply apply_slot_other_annots.
Qed.

(** a reconcile keeps a queue label that is present *)
Theorem queue_label_kept : forall af pf sg eq cfg cl p s n g v,
    get_pg n s = Some g -> mget (c_queue_key cfg) (pg_labels g) = Some v ->
    exists g', get_pg n (rec_step af pf sg eq cfg cl p s) = Some g' /\ mget (c_queue_key cfg) (pg_labels g') = Some v.
Proof.
  intros af pf sg eq cfg cl p s n g v Hg Hv.
  destruct (full_md_with af cfg cl p (get_asg (p_name p) s)) as [m|] eqn:E.
  - destruct (rec_step_some af pf sg eq cfg cl p s m E) as [P1 _]. rewrite P1.
    destruct (String.eqb_spec n (m_name m)) as [->|Hn].
    + rewrite Hg. eexists. split; [reflexivity|]. now apply apply_slot_queue_label.
    + exists g. auto.
  - unfold rec_step. rewrite (rec_step_none _ _ _ _ _ _ _ _ E). exists g. auto.
Qed.

(** a reconcile touches no PodGroup other than the pod's own *)
Theorem other_groups_untouched : forall af pf sg eq cfg cl p s n,
    (forall m, full_md_with af cfg cl p (get_asg (p_name p) s) = Some m -> m_name m <> n) ->
    get_pg n (rec_step af pf sg eq cfg cl p s) = get_pg n s.
Proof.
  intros af pf sg eq cfg cl p s n H.
  destruct (full_md_with af cfg cl p (get_asg (p_name p) s)) as [m|] eqn:E.
  - destruct (rec_step_some af pf sg eq cfg cl p s m E) as [P1 _]. rewrite P1.
    destruct (String.eqb_spec n (m_name m)) as [->|Hn]; [|reflexivity]. now elim (H m).
  - unfold rec_step. now rewrite (rec_step_none _ _ _ _ _ _ _ _ E).
Qed.

(** * (3'') idempotence in the presence of keys of other actors on the stored PodGroup *)

Lemma lookup_some_in : forall (s : smap) k v, lookup k s = Some v -> In (k, v) s.
Proof.
  induction s as [|[k0 v0] r IH]; intros k v H; cbn in *; [discriminate|].
  destruct (String.eqb_spec k k0) as [->|_]; [inversion H; now left|right; auto].
Qed.

Lemma in_lookup_some : forall (s : smap) k v, In (k, v) s -> exists v', lookup k s = Some v'.
Proof.
  induction s as [|[k0 v0] r IH]; intros k v H; cbn in *; [contradiction|].
  destruct (String.eqb_spec k k0) as [->|Hne]; [eauto|].
  destruct H as [H|H]; [inversion H; congruence|eauto].
Qed.

(** mapsEqualBySourceKeys(source, target), read as a statement: every binding of the source is in the target *)
Lemma maps_equal_spec : forall s t,
    maps_equal_by_source_keys true (Some s) t = true <-> (forall k v, lookup k s = Some v -> mget k t = Some v).
Proof.
  intros s [t|]; cbn [maps_equal_by_source_keys mget andb]; split.
  - intros H k v Hk. rewrite forallb_forall in H. specialize (H _ (lookup_some_in _ _ _ Hk)). cbn [fst] in H.
    rewrite Hk in H. destruct (lookup k t) as [w|]; cbn in H; [|discriminate].
    apply String.eqb_eq in H. now subst.
  - intros H. apply forallb_forall. intros [k v] Hin. cbn [fst].
    destruct (in_lookup_some _ _ _ Hin) as [v' Hv']. rewrite Hv', (H _ _ Hv'). cbn. apply String.eqb_refl.
  - intros H k v Hk. destruct s; [discriminate|discriminate].
  - intros H. destruct s as [|[k v] r]; [reflexivity|].
    specialize (H k v). cbn in H. rewrite String.eqb_refl in H. discriminate (H eq_refl).
Qed.

Lemma maps_equal_cong : forall src t t',
    (forall k v, mget k src = Some v -> mget k t' = mget k t) ->
    maps_equal_by_source_keys true src t' = maps_equal_by_source_keys true src t.
Proof.
  intros [s|] t t' H; [|reflexivity]. apply Bool.eq_iff_eq_true. rewrite !maps_equal_spec.
  cbn [mget] in H. split; intros Hs k v Hk.
  - rewrite <- (H _ _ Hk). now apply Hs.
  - rewrite (H _ _ Hk). now apply Hs.
Qed.

(** the stored PodGroup [g] is what ApplyToCluster wants for [m]: podGroupsEqual says so *)
Definition up_to_date (cfg : config) (m : metadata) (g : pg) : bool :=
  pg_equal_v1 g (ignore_fields true cfg g (create_pg m)).

Lemma apply_slot_up_to_date : forall cfg m g,
    apply_slot_with true pg_equal_v1 cfg m (Some g) =
    if up_to_date cfg m g then (g, 0%Z)
    else (norm (update_pg g (ignore_fields true cfg g (create_pg m))), 1%Z).
Proof. reflexivity. Qed.

(** [f] touches only label / annotation keys that the metadata [m] does not carry *)
Definition foreign_to (cfg : config) (m : metadata) (f : foreign_upd) : Prop :=
  f_queue f = None /\ f_mark f = None /\ f_backoff f = None /\ f_nodepool f = None /\ f_qlabel f = None
  /\ (forall k, In k (map fst (f_labels f)) ->
                k <> c_queue_key cfg /\ k <> c_nodepool_key cfg /\ mget k (m_labels m) = None)
  /\ (forall k, In k (map fst (f_annots f)) -> mget k (m_annots m) = None).

Lemma spec_eqb_ignore_cong : forall cfg m g g',
    sp_min g' = sp_min g -> sp_queue g' = sp_queue g -> sp_prio g' = sp_prio g -> sp_preempt g' = sp_preempt g ->
    sp_mark g' = sp_mark g -> sp_backoff g' = sp_backoff g -> sp_subgroups g' = norm_slice (sp_subgroups g) ->
    sp_topo g' = sp_topo g ->
    spec_eqb g' (ignore_fields true cfg g' (create_pg m)) = spec_eqb g (ignore_fields true cfg g (create_pg m)).
Proof.
  intros cfg m g g' H1 H2 H3 H4 H5 H6 H7 H8. unfold spec_eqb.
  cbn [ignore_fields create_pg sp_min sp_queue sp_prio sp_preempt sp_mark sp_backoff sp_subgroups sp_topo].
  rewrite H1, H2, H3, H4, H5, H6, H7, H8.
  destruct (sp_subgroups g) as [[|x l]|]; cbn [norm_slice]; try reflexivity.
  destruct (m_subgroups m); reflexivity.
Qed.

Lemma ignored_labels_cong : forall cfg g g' new,
    mget (c_nodepool_key cfg) (pg_labels g') = mget (c_nodepool_key cfg) (pg_labels g) ->
    mget (c_queue_key cfg) (pg_labels g') = mget (c_queue_key cfg) (pg_labels g) ->
    ignored_labels cfg g' new = ignored_labels cfg g new.
Proof.
  intros cfg g g' new Hn Hq. rewrite !mget_or_nil in *. unfold ignored_labels, q_step, np_step.
  now rewrite Hn, Hq.
Qed.

Lemma flabel_upd_untouched : forall cfg k f v,
    f_nodepool f = None -> f_qlabel f = None -> ~ In k (map fst (f_labels f)) -> flabel_upd cfg k f v = v.
Proof.
  intros cfg k f v Hn Hq Hk. unfold flabel_upd. rewrite Hn, Hq, upd_val_untouched by exact Hk.
  now destruct (String.eqb k (c_queue_key cfg)), (String.eqb k (c_nodepool_key cfg)).
Qed.

(** such an update does not change the verdict of podGroupsEqual *)
Lemma up_to_date_foreign : forall cfg m f g,
    foreign_to cfg m f -> up_to_date cfg m (foreign_apply cfg f g) = up_to_date cfg m g.
Proof.
  intros cfg m f g (Fq & Fm & Fb & Fn & Fl & HL & HA).
  assert (forall k, mget k (pg_labels (create_pg m)) <> None \/ k = c_queue_key cfg \/ k = c_nodepool_key cfg ->
                    mget k (pg_labels (foreign_apply cfg f g)) = mget k (pg_labels g)) as Hlab.
  { intros k Hk. rewrite foreign_apply_label. apply flabel_upd_untouched; [exact Fn|exact Fl|].
    intros Hin. destruct (HL _ Hin) as (A & B & C). cbn [create_pg pg_labels] in Hk.
    destruct Hk as [Hk|[Hk|Hk]]; congruence. }
  unfold up_to_date, pg_equal_v1, pg_equal_with. f_equal; [f_equal; [f_equal|]|].
  - apply spec_eqb_ignore_cong; unfold foreign_apply; cbn [norm sp_min sp_queue sp_prio sp_preempt sp_mark sp_backoff sp_subgroups sp_topo];
      rewrite ?Fq, ?Fm, ?Fb; reflexivity.
  - rewrite !ignore_fields_labels.
    rewrite (ignored_labels_cong cfg g (foreign_apply cfg f g)) by (apply Hlab; auto).
    apply maps_equal_cong. intros k v Hk. apply Hlab. cbn [mget] in Hk.
    destruct (String.eqb_spec k (c_queue_key cfg)) as [->|Hq]; [auto|].
    destruct (String.eqb_spec k (c_nodepool_key cfg)) as [->|Hn]; [auto|].
    left. rewrite <- (ignored_labels_other cfg g (create_pg m) k Hq Hn). congruence.
  - cbn [ignore_fields pg_annots create_pg]. apply maps_equal_cong. intros k v Hk.
    rewrite foreign_apply_annot. apply upd_val_untouched. intros Hin. rewrite (HA _ Hin) in Hk. discriminate.
Qed.

(** ... and therefore not what a reconcile writes: nothing the grouper computes changed *)
Theorem foreign_keys_do_not_wake : forall af pf cfg cl p s n f,
    (forall m, full_md_with af cfg cl p (get_asg (p_name p) s) = Some m -> foreign_to cfg m f) ->
    snd (reconcile_with af pf true pg_equal_v1 cfg cl p (fst (step_with af pf true pg_equal_v1 cfg cl (EvForeign n f) s)))
    = snd (reconcile_with af pf true pg_equal_v1 cfg cl p s).
Proof.
  intros af pf cfg cl p s n f H. cbn [step_with].
  destruct (get_pg n s) as [g|] eqn:Eg; cbn [fst]; [|reflexivity].
  set (s' := {| st_pgs := aset n (foreign_apply cfg f g) (st_pgs s); st_asg := st_asg s |}).
  assert (get_asg (p_name p) s' = get_asg (p_name p) s) as Ha by reflexivity.
  destruct (full_md_with af cfg cl p (get_asg (p_name p) s)) as [m|] eqn:E.
  - assert (full_md_with af cfg cl p (get_asg (p_name p) s') = Some m) as E' by now rewrite Ha.
    destruct (rec_step_some af pf true pg_equal_v1 cfg cl p s m E) as [_ [_ W]].
    destruct (rec_step_some af pf true pg_equal_v1 cfg cl p s' m E') as [_ [_ W']].
    rewrite W, W', Ha. f_equal.
    unfold get_pg at 1. unfold s' at 1. cbn [st_pgs]. rewrite lookup_aset.
    destruct (String.eqb_spec (m_name m) n) as [En|_]; [|reflexivity].
    rewrite En, Eg, !apply_slot_up_to_date, (up_to_date_foreign cfg m f g (H m eq_refl)).
    now destruct (up_to_date cfg m g).
  - assert (full_md_with af cfg cl p (get_asg (p_name p) s') = None) as E' by now rewrite Ha.
    now rewrite (rec_step_none _ _ _ _ _ _ _ _ E), (rec_step_none _ _ _ _ _ _ _ _ E').
Qed.

(** once [p] was reconciled, every later reconcile of [p] is silent, whatever reconciles of pods of the
    coherent set and whatever updates of foreign label / annotation keys happened since *)
Section ForeignInterleaved.
  Variables (af pf : bool) (cfg : config) (cl : list obj) (ps : list pod) (p : pod).
  Hypothesis coh : coherent_with af cfg cl ps.
  Hypothesis p_in : In p ps.
  Let st := fun e s => fst (step_with af pf true pg_equal_v1 cfg cl e s).

  Definition ev_ok (m : metadata) (e : event) : Prop :=
    match e with
    | EvReconcile q => In q ps
    | EvForeign n f => n = m_name m -> foreign_to cfg m f
    end.

  Definition ev_rec_ok (e : event) : Prop := match e with EvReconcile q => In q ps | EvForeign _ _ => True end.

  Lemma run_is_runs : forall evs s, run_with af pf true pg_equal_v1 cfg cl evs s = runs st evs s.
  Proof. reflexivity. Qed.

  Lemma skipped_stays_ev : forall evs s,
      Forall ev_rec_ok evs -> full_md_with af cfg cl p (get_asg (p_name p) s) = None ->
      get_asg (p_name p) (runs st evs s) = get_asg (p_name p) s.
  Proof.
    induction evs as [|e evs IH]; intros s Hes Hn; [reflexivity|]. cbn [runs fold_left].
    inversion Hes as [|? ? He Hes']; subst.
    assert (get_asg (p_name p) (st e s) = get_asg (p_name p) s) as Hstep.
    { destruct e as [q|n f]; unfold st; cbn [step_with].
      - cbn [ev_rec_ok] in He.
        destruct (full_md_with af cfg cl q (get_asg (p_name q) s)) as [mq|] eqn:Eq.
        + destruct (rec_step_some af pf true pg_equal_v1 cfg cl q s mq Eq) as [_ [A _]].
          fold (rec_step af pf true pg_equal_v1 cfg cl q s). rewrite A.
          destruct (String.eqb_spec (p_name p) (p_name q)) as [En|_]; [|reflexivity].
          assert (p = q) as <- by now apply (cohw_names _ _ _ _ coh). congruence.
        + now rewrite (rec_step_none _ _ _ _ _ _ _ _ Eq).
      - now destruct (get_pg n s). }
    fold (runs st evs (st e s)). rewrite IH; [exact Hstep|exact Hes'|now rewrite Hstep].
  Qed.

  Definition settled (m : metadata) (s : state) : Prop :=
    get_asg (p_name p) s = Some (m_name m)
    /\ exists g, get_pg (m_name m) s = Some g /\ up_to_date cfg m g = true.

  Lemma settled_step : forall a0 m e s,
      full_md_with af cfg cl p a0 = Some m -> ev_ok m e -> settled m s -> settled m (st e s).
  Proof.
    intros a0 m e s Em He [Ha [g [Hg Hu]]]. destruct e as [q|n f]; unfold st; cbn [step_with ev_ok] in *.
    - fold (rec_step af pf true pg_equal_v1 cfg cl q s).
      destruct (full_md_with af cfg cl q (get_asg (p_name q) s)) as [mq|] eqn:Eq.
      + destruct (rec_step_some af pf true pg_equal_v1 cfg cl q s mq Eq) as [P [A _]]. split.
        * rewrite A. destruct (String.eqb_spec (p_name p) (p_name q)) as [En|_]; [|exact Ha].
          assert (p = q) as <- by now apply (cohw_names _ _ _ _ coh).
          rewrite Ha in Eq. destruct (cohw_settles _ _ _ _ coh p p_in _ _ Em) as [E2|E2]; congruence.
        * rewrite P. destruct (String.eqb_spec (m_name m) (m_name mq)) as [En|_]; [|now exists g].
          assert (m = mq) as <- by (apply (cohw_agree _ _ _ _ coh p q p_in He _ _ _ _ Em Eq En)).
          rewrite Hg, apply_slot_up_to_date, Hu. now exists g.
      + unfold rec_step. rewrite (rec_step_none _ _ _ _ _ _ _ _ Eq). split; [exact Ha|now exists g].
    - destruct (get_pg n s) as [g0|] eqn:E0; cbn [fst]; [|split; [exact Ha|now exists g]].
      split; [exact Ha|]. unfold get_pg at 1. cbn [st_pgs]. rewrite lookup_aset.
      destruct (String.eqb_spec (m_name m) n) as [En|_]; [|now exists g].
      assert (g0 = g) as -> by (unfold get_pg in *; congruence).
      eexists. split; [reflexivity|]. rewrite up_to_date_foreign; [exact Hu|]. apply He. now symmetry.
  Qed.

  Lemma settled_runs : forall a0 m evs s,
      full_md_with af cfg cl p a0 = Some m -> Forall (ev_ok m) evs -> settled m s -> settled m (runs st evs s).
  Proof.
    intros a0 m evs. induction evs as [|e evs IH]; intros s Em Hes Hs; [exact Hs|]. cbn [runs fold_left].
    inversion Hes as [|? ? He Hes']; subst.
    fold (runs st evs (st e s)). apply IH; [exact Em|exact Hes'|].
    apply (settled_step a0); assumption.
  Qed.

  Lemma settled_silent : forall a0 m s,
      pf = true \/ no_stale_subgroup p ->
      full_md_with af cfg cl p a0 = Some m -> settled m s ->
      snd (reconcile_with af pf true pg_equal_v1 cfg cl p s) = 0%Z.
  Proof.
    intros a0 m s Hsg Em [Ha [g [Hg Hu]]].
    destruct (cohw_settles _ _ _ _ coh p p_in _ _ Em) as [E2|E2]; rewrite <- Ha in E2.
    - destruct (rec_step_some af pf true pg_equal_v1 cfg cl p s m E2) as [_ [_ W]].
      rewrite W, Hg, apply_slot_up_to_date, Hu, Ha. now rewrite no_patch_after_assignment.
    - now rewrite (rec_step_none _ _ _ _ _ _ _ _ E2).
  Qed.

  Lemma ev_ok_rec_ok : forall m e, ev_ok m e -> ev_rec_ok e.
  Proof. intros m [q|n f]; cbn; auto. Qed.

  Theorem idempotent_foreign_gen : forall evs s,
      pf = true \/ no_stale_subgroup p ->
      Forall ev_rec_ok evs ->
      (forall a m, full_md_with af cfg cl p a = Some m -> Forall (ev_ok m) evs) ->
      snd (reconcile_with af pf true pg_equal_v1 cfg cl p (runs st evs (st (EvReconcile p) s))) = 0%Z.
  Proof.
    intros evs s Hsg Hrec Hes.
    destruct (full_md_with af cfg cl p (get_asg (p_name p) s)) as [m|] eqn:E.
    - apply (settled_silent (get_asg (p_name p) s) m); [exact Hsg|exact E|].
      apply (settled_runs (get_asg (p_name p) s) m _ _ E (Hes _ _ E)).
      destruct (rec_step_some af pf true pg_equal_v1 cfg cl p s m E) as [P [A _]].
      unfold st. cbn [step_with]. fold (rec_step af pf true pg_equal_v1 cfg cl p s). split.
      + now rewrite A, String.eqb_refl.
      + rewrite P, String.eqb_refl.
        destruct (apply_slot_cases true pg_equal_v1 cfg m (get_pg (m_name m) s)) as [[Hw _]|[old [Hc [Heq Hr]]]].
        * rewrite Hw. eexists. split; [reflexivity|]. apply written_is_equal_v1.
        * rewrite Hr. cbn [fst]. exists old. split; [reflexivity|exact Heq].
    - assert (st (EvReconcile p) s = s) as -> by (unfold st; cbn [step_with]; now rewrite (rec_step_none _ _ _ _ _ _ _ _ E)).
      assert (full_md_with af cfg cl p (get_asg (p_name p) (runs st evs s)) = None) as E'
          by now rewrite skipped_stays_ev.
      now rewrite (rec_step_none _ _ _ _ _ _ _ _ E').
  Qed.
End ForeignInterleaved.

(** the events a coherent pod set may see between two reconciles of [p] without waking it *)
Definition quiet_event (cfg : config) (cl : list obj) (ps : list pod) (p : pod) (e : event) : Prop :=
  match e with
  | EvReconcile q => In q ps
  | EvForeign n f => forall a m, full_md cfg cl p a = Some m -> n = m_name m -> foreign_to cfg m f
  end.

Theorem idempotent_with_foreign_keys : forall cfg cl ps evs p s,
    coherent cfg cl ps -> In p ps -> Forall (quiet_event cfg cl ps p) evs ->
    snd (reconcile cfg cl p (run cfg cl evs (fst (reconcile cfg cl p s)))) = 0%Z.
Proof.
  intros cfg cl ps evs p s Hc Hp Hq. unfold run, reconcile.
  rewrite (run_is_runs annot_fix patch_fix cfg cl).
  apply (idempotent_foreign_gen annot_fix patch_fix cfg cl ps p (coherent_is_with _ _ _ Hc) Hp evs s).
  - now left.
  - eapply Forall_impl; [|exact Hq]. intros [q|n f]; cbn; auto.
  - intros a m Em. eapply Forall_impl; [|exact Hq]. intros [q|n f]; cbn; [auto|].
    intros H. now apply (H a m).
Qed.

(** * Concrete instances: the history of the findings, and non-vacuity *)
Definition ex_cfg : config :=
  {| c_queue_key := "kai.scheduler/queue"; c_nodepool_key := "kai.scheduler/node-pool";
     c_prio_classes := ["train"]; c_defaults := CmNone; c_forbidden := [] |}.
Definition ex_sts : obj :=
  {| o_gvk := mk_gvk "apps" "v1" "StatefulSet"; o_name := "web"; o_uid := "u-sts";
     o_labels := [("kai.scheduler/queue", "team-a")]; o_annots := []; o_owners := []; o_tom := "tom-web" |}.
Definition ex_pod (i : string) : pod :=
  {| p_name := "web-" ++ i; p_uid := "u-p" ++ i; p_labels := [("pod-index", i)]; p_annots := [];
     p_prio := ""; p_owners := [{| r_gvk := mk_gvk "apps" "v1" "StatefulSet"; r_name := "web"; r_uid := "u-sts" |}];
     p_tom := "tom-pod" |}.

Lemma ex_grouping : forall i a, grouping ex_cfg [ex_sts] (ex_pod i) a = GOk PDefault ex_sts [ex_sts] false.
Proof. intros i a. reflexivity. Qed.

Lemma ex_settles : forall af i, settles_with af ex_cfg [ex_sts] (ex_pod i).
Proof. intros af i. eapply settles_not_pod_grouped. apply (ex_grouping i None). Qed.

(** the state after [n] reconciles of one pod from the empty store *)
Definition after (n : nat) (cfg : config) (cl : list obj) (p : pod) : state :=
  Nat.iter n (fun s => fst (reconcile cfg cl p s)) empty_state.

Lemma quiet_from_second_on : forall cfg cl p n, snd (reconcile cfg cl p (after (S n) cfg cl p)) = 0%Z.
Proof. intros cfg cl p n. exact (idempotent_v1 cfg cl p (after n cfg cl p)). Qed.

(** ** 9775a95: the handler before it issued an Update on every reconcile *)
Lemma ex_second_reconcile_writes_v0 : forall af pf,
  snd (reconcile_with af pf ignore_sg_v0 pg_equal_v0 ex_cfg [ex_sts] (ex_pod "0")
         (rec_step af pf ignore_sg_v0 pg_equal_v0 ex_cfg [ex_sts] (ex_pod "0") empty_state)) = 1%Z.
Proof. intros [] []; vm_compute; reflexivity. Qed.

Lemma idempotent_v0_refuted : forall af pf, ~ idempotent_partial_statement af pf ignore_sg_v0 pg_equal_v0.
Proof.
  intros af pf H. specialize (H ex_cfg [ex_sts] (ex_pod "0") empty_state (ex_settles af "0") eq_refl).
  rewrite ex_second_reconcile_writes_v0 in H. discriminate.
Qed.

(** neither half of that repair suffices alone: with the sub-group step only, an owner without
    labels still gets an Update per reconcile *)
Definition ex_bare_sts : obj :=
  {| o_gvk := mk_gvk "apps" "v1" "StatefulSet"; o_name := "web"; o_uid := "u-sts";
     o_labels := []; o_annots := []; o_owners := []; o_tom := "tom-web" |}.
Lemma ex_half_repairs_insufficient :
  snd (reconcile_with annot_fix patch_fix true pg_equal_v0 ex_cfg [ex_bare_sts] (ex_pod "0")
         (rec_step annot_fix patch_fix true pg_equal_v0 ex_cfg [ex_bare_sts] (ex_pod "0") empty_state)) = 1%Z
  /\ snd (reconcile_with annot_fix patch_fix false pg_equal_v1 ex_cfg [ex_bare_sts] (ex_pod "0")
            (rec_step annot_fix patch_fix false pg_equal_v1 ex_cfg [ex_bare_sts] (ex_pod "0") empty_state)) = 1%Z.
Proof. split; vm_compute; reflexivity. Qed.

(** ** 8227120: a pod that is its own grouping object. Two ways to be one: the direct owner is a
    skip-top-owner kind (argo Workflow), or the grouper may not GET the direct owner. Before the repair the
    pod-group annotation written by the first reconcile was copied into the PodGroup by the second. *)
Definition ex_wf : obj :=
  {| o_gvk := mk_gvk "argoproj.io" "v1alpha1" "Workflow"; o_name := "wf"; o_uid := "u-wf";
     o_labels := []; o_annots := []; o_owners := []; o_tom := "tom-wf" |}.
Definition ex_step : pod :=
  {| p_name := "step-0"; p_uid := "u-s0"; p_labels := []; p_annots := []; p_prio := "";
     p_owners := [{| r_gvk := mk_gvk "argoproj.io" "v1alpha1" "Workflow"; r_name := "wf"; r_uid := "u-wf" |}];
     p_tom := "tom-step" |}.
Definition ex_cfg_forbidden : config :=
  {| c_queue_key := "kai.scheduler/queue"; c_nodepool_key := "kai.scheduler/node-pool";
     c_prio_classes := ["train"]; c_defaults := CmNone; c_forbidden := ["StatefulSet"] |}.

Lemma ex_step_grouping :
  grouping ex_cfg [ex_wf] ex_step None = GOk PPodJob (propagate (pod_obj ex_step None) ex_wf) [] true.
Proof. reflexivity. Qed.

Lemma ex_forbidden_grouping :
  grouping ex_cfg_forbidden [ex_sts] (ex_pod "0") None = GOk PPodJob (pod_obj (ex_pod "0") None) [] true.
Proof. reflexivity. Qed.

(** the PodGroup's copy of the pod-group-name annotation after [s] *)
Definition pg_self_annot (n : string) (s : state) : option (option string) :=
  option_map (fun g => mget pg_annotation_key (pg_annots g)) (get_pg n s).

Lemma order_independent_unrestricted_before_repair :
  ~ order_independent_unrestricted annot_fix_v0 patch_fix ignore_sg_v0 pg_equal_v0
  /\ ~ order_independent_unrestricted annot_fix_v0 patch_fix ignore_sg_v1 pg_equal_v1.
Proof.
  split; intros H; destruct (H ex_cfg [ex_wf] ex_step empty_state) as [Hp _];
    specialize (Hp "pg-step-0-u-s0");
    apply (f_equal (option_map (fun g => mget pg_annotation_key (pg_annots g)))) in Hp;
    vm_compute in Hp; discriminate.
Qed.

Lemma ex_step_not_settled_before_repair : ~ settles_with annot_fix_v0 ex_cfg [ex_wf] ex_step.
Proof.
  intros H. destruct (H None _ eq_refl) as [E|E]; vm_compute in E; discriminate.
Qed.

(** before the repair: the second reconcile writes (the third does not), for both kinds of such pods *)
Lemma annotation_feedback_before_repair :
  ~ settles_with annot_fix_v0 ex_cfg [ex_wf] ex_step
  /\ snd (reconcile_with annot_fix_v0 patch_fix true pg_equal_v1 ex_cfg [ex_wf] ex_step
            (rec_step annot_fix_v0 patch_fix true pg_equal_v1 ex_cfg [ex_wf] ex_step empty_state)) = 1%Z
  /\ snd (reconcile_with annot_fix_v0 patch_fix true pg_equal_v1 ex_cfg [ex_wf] ex_step
            (rec_step annot_fix_v0 patch_fix true pg_equal_v1 ex_cfg [ex_wf] ex_step
               (rec_step annot_fix_v0 patch_fix true pg_equal_v1 ex_cfg [ex_wf] ex_step empty_state))) = 0%Z
  /\ pg_self_annot "pg-step-0-u-s0"
       (rec_step annot_fix_v0 patch_fix true pg_equal_v1 ex_cfg [ex_wf] ex_step
          (rec_step annot_fix_v0 patch_fix true pg_equal_v1 ex_cfg [ex_wf] ex_step empty_state))
     = Some (Some "pg-step-0-u-s0")
  /\ snd (reconcile_with annot_fix_v0 patch_fix true pg_equal_v1 ex_cfg_forbidden [ex_sts] (ex_pod "0")
            (rec_step annot_fix_v0 patch_fix true pg_equal_v1 ex_cfg_forbidden [ex_sts] (ex_pod "0") empty_state)) = 1%Z
  /\ ~ idempotent_statement annot_fix_v0 patch_fix ignore_sg pg_equal.
Proof.
  split; [exact ex_step_not_settled_before_repair|].
  split; [vm_compute; reflexivity|]. split; [vm_compute; reflexivity|].
  split; [vm_compute; reflexivity|]. split; [vm_compute; reflexivity|].
  intros H. specialize (H ex_cfg [ex_wf] ex_step empty_state). vm_compute in H. discriminate.
Qed.

(** now: the first reconcile creates the PodGroup and patches the pod, every later one is silent, and the
    PodGroup never receives the annotation *)
Lemma annotation_feedback_now_quiet :
  snd (reconcile ex_cfg [ex_wf] ex_step empty_state) = 2%Z
  /\ (forall n, snd (reconcile ex_cfg [ex_wf] ex_step (after (S n) ex_cfg [ex_wf] ex_step)) = 0%Z)
  /\ pg_self_annot "pg-step-0-u-s0" (after 2 ex_cfg [ex_wf] ex_step) = Some None
  /\ snd (reconcile ex_cfg_forbidden [ex_sts] (ex_pod "0") empty_state) = 2%Z
  /\ (forall n, snd (reconcile ex_cfg_forbidden [ex_sts] (ex_pod "0") (after (S n) ex_cfg_forbidden [ex_sts] (ex_pod "0"))) = 0%Z)
  /\ pg_self_annot "pg-web-0-u-p0" (after 2 ex_cfg_forbidden [ex_sts] (ex_pod "0")) = Some None.
Proof.
  split; [vm_compute; reflexivity|]. split; [intros n; apply quiet_from_second_on|].
  split; [vm_compute; reflexivity|]. split; [vm_compute; reflexivity|].
  split; [intros n; apply quiet_from_second_on|vm_compute; reflexivity].
Qed.

(** ** 3f1c7d2: a pod with a stale sub-group label was patched (with an empty patch) on every reconcile *)
Definition ex_stale : pod :=
  {| p_name := "web-9"; p_uid := "u-p9"; p_labels := [("kai.scheduler/subgroup-name", "gone")]; p_annots := [];
     p_prio := ""; p_owners := [{| r_gvk := mk_gvk "apps" "v1" "StatefulSet"; r_name := "web"; r_uid := "u-sts" |}];
     p_tom := "tom-pod" |}.

Lemma stale_subgroup_before_repair :
  settles ex_cfg [ex_sts] ex_stale /\ ~ no_stale_subgroup ex_stale
  /\ snd (reconcile_with annot_fix patch_fix_v0 true pg_equal_v1 ex_cfg [ex_sts] ex_stale
            (rec_step annot_fix patch_fix_v0 true pg_equal_v1 ex_cfg [ex_sts] ex_stale empty_state)) = 1%Z
  /\ snd (reconcile_with annot_fix patch_fix_v0 true pg_equal_v1 ex_cfg [ex_sts] ex_stale
            (rec_step annot_fix patch_fix_v0 true pg_equal_v1 ex_cfg [ex_sts] ex_stale
               (rec_step annot_fix patch_fix_v0 true pg_equal_v1 ex_cfg [ex_sts] ex_stale empty_state))) = 1%Z
  /\ ~ idempotent_statement annot_fix patch_fix_v0 ignore_sg pg_equal.
Proof.
  split; [apply all_settle|]. split; [discriminate|].
  split; [vm_compute; reflexivity|]. split; [vm_compute; reflexivity|].
  intros H. specialize (H ex_cfg [ex_sts] ex_stale empty_state). vm_compute in H. discriminate.
Qed.

Lemma stale_subgroup_now_quiet :
  ~ no_stale_subgroup ex_stale
  /\ snd (reconcile ex_cfg [ex_sts] ex_stale empty_state) = 2%Z
  /\ (forall n, snd (reconcile ex_cfg [ex_sts] ex_stale (after (S n) ex_cfg [ex_sts] ex_stale)) = 0%Z)
  /\ lookup subgroup_label_key (p_labels ex_stale) = Some "gone".
Proof.
  split; [discriminate|]. split; [vm_compute; reflexivity|].
  split; [intros n; apply quiet_from_second_on|reflexivity].
Qed.

(** non-vacuity: two StatefulSet pods meet every hypothesis used above *)
Lemma ex_nonvacuous :
  same_template ex_cfg (ex_pod "0") (ex_pod "1")
  /\ NoDup (map p_name [ex_pod "0"; ex_pod "1"])
  /\ coherent ex_cfg [ex_sts] [ex_pod "0"; ex_pod "1"]
  /\ (forall af, coherent_with af ex_cfg [ex_sts] [ex_pod "0"; ex_pod "1"])
  /\ no_stale_subgroup (ex_pod "0")
  /\ c_queue_key ex_cfg <> c_nodepool_key ex_cfg
  /\ let s := run ex_cfg [ex_sts] [EvReconcile (ex_pod "1"); EvReconcile (ex_pod "0")] empty_state in
     get_asg "web-0" s = Some "pg-web-u-sts" /\ get_asg "web-1" s = Some "pg-web-u-sts"
     /\ exists g, get_pg "pg-web-u-sts" s = Some g /\ sp_queue g = "team-a" /\ sp_min g = 1%Z
                  /\ List.length (st_pgs s) = 1%nat.
Proof.
  assert (same_template ex_cfg (ex_pod "0") (ex_pod "1")) as T.
  { repeat split. intros k Hk. cbn in Hk.
    repeat (destruct Hk as [<-|Hk]; [reflexivity|]). contradiction. }
  assert (NoDup (map p_name [ex_pod "0"; ex_pod "1"])) as N.
  { cbn. constructor; [cbn; intros [H|[]]; discriminate|]. constructor; [intros []|constructor]. }
  assert (forall p, In p [ex_pod "0"; ex_pod "1"] -> same_template ex_cfg (ex_pod "0") p) as Ts.
  { intros p [<-|[<-|[]]]; [apply same_template_refl|exact T]. }
  split; [exact T|]. split; [exact N|]. split.
  { apply (siblings_coherent ex_cfg [ex_sts] _ (ex_pod "0") None ex_sts [ex_sts] N Ts). apply ex_grouping. }
  split.
  { intros af. apply (siblings_coherent_with af ex_cfg [ex_sts] _ (ex_pod "0") None ex_sts [ex_sts] N Ts). apply ex_grouping. }
  split; [reflexivity|]. split; [discriminate|].
  cbv zeta. split; [vm_compute; reflexivity|]. split; [vm_compute; reflexivity|].
  eexists. split; [vm_compute; reflexivity|]. repeat split.
Qed.

(** ** keys of other actors on the stored PodGroup: the scheduler's timestamp annotations, an admin label *)
Definition last_start_key := "kai.scheduler/last-start-timestamp".
Definition stale_key := "kai.scheduler/stale-podgroup-timestamp".

(** what the scheduler's status updater and an administrator do to a PodGroup *)
Definition ex_sched_upd : foreign_upd :=
  {| f_queue := None; f_mark := None; f_backoff := None; f_nodepool := None; f_qlabel := None;
     f_labels := [("team-owner", Some "ml-infra")];
     f_annots := [(last_start_key, Some "2025-06-01T10:00:00Z"); (stale_key, Some "2025-06-01T10:05:00Z")] |}.
(** ... and the scheduler removing its stale mark again *)
Definition ex_sched_upd2 : foreign_upd :=
  {| f_queue := None; f_mark := None; f_backoff := None; f_nodepool := None; f_qlabel := None;
     f_labels := []; f_annots := [(stale_key, None); (last_start_key, Some "2025-06-01T11:00:00Z")] |}.

Definition ex_pg_name := "pg-web-u-sts".
Definition ex_quiet_events : list event :=
  [EvReconcile (ex_pod "1"); EvForeign ex_pg_name ex_sched_upd; EvReconcile (ex_pod "1");
   EvForeign ex_pg_name ex_sched_upd2].

(** the PodGroup exists and the scheduler has annotated it *)
Definition ex_annotated : state :=
  fst (step ex_cfg [ex_sts] (EvForeign ex_pg_name ex_sched_upd) (after 1 ex_cfg [ex_sts] (ex_pod "0"))).

Lemma ex_full_md_name : forall i a m, full_md ex_cfg [ex_sts] (ex_pod i) a = Some m ->
    m_name m = ex_pg_name /\ m_labels m = Some [("kai.scheduler/queue", "team-a")]
    /\ m_annots m = Some [(tom_key, "tom-web")].
Proof. intros i a m H. destruct a; vm_compute in H; inversion H; subst; repeat split. Qed.

Lemma ex_sched_foreign_to : forall i a m, full_md ex_cfg [ex_sts] (ex_pod i) a = Some m ->
    foreign_to ex_cfg m ex_sched_upd /\ foreign_to ex_cfg m ex_sched_upd2.
Proof.
  intros i a m H. destruct (ex_full_md_name i a m H) as (_ & HL & HA).
  split; (repeat (split; [reflexivity|]); rewrite HL, HA; split; intros k Hin; cbn in Hin;
          repeat (destruct Hin as [<-|Hin]; [repeat split; try discriminate|]); contradiction).
Qed.

Lemma ex_foreign_keys_nonvacuous :
  Forall (quiet_event ex_cfg [ex_sts] [ex_pod "0"; ex_pod "1"] (ex_pod "0")) ex_quiet_events
  /\ not_computed annot_fix ex_cfg [ex_sts] ex_pg_name ex_quiet_events m_annots last_start_key
  /\ not_computed annot_fix ex_cfg [ex_sts] ex_pg_name ex_quiet_events m_labels "team-owner"
  /\ "team-owner" <> c_queue_key ex_cfg /\ "team-owner" <> c_nodepool_key ex_cfg
  /\ let s := run ex_cfg [ex_sts] ex_quiet_events (after 1 ex_cfg [ex_sts] (ex_pod "0")) in
     snd (reconcile ex_cfg [ex_sts] (ex_pod "0") s) = 0%Z
     /\ exists g, get_pg ex_pg_name s = Some g
                  /\ mget last_start_key (pg_annots g) = Some "2025-06-01T11:00:00Z"
                  /\ mget stale_key (pg_annots g) = None
                  /\ mget "team-owner" (pg_labels g) = Some "ml-infra"
                  /\ foreign_only_key f_annots ex_pg_name last_start_key ex_quiet_events None = Some "2025-06-01T11:00:00Z".
Proof.
  split.
  { unfold ex_quiet_events.
    repeat (apply Forall_cons; [cbn [quiet_event]; first [cbn; now auto | intros a m H _; now destruct (ex_sched_foreign_to "0" a m H)]|]).
    apply Forall_nil. }
  split.
  { intros p a m Hin H _. cbn in Hin.
    destruct Hin as [E|[E|[E|[E|[]]]]]; inversion E; subst p;
      destruct (ex_full_md_name "1" a m H) as (_ & _ & ->); reflexivity. }
  split.
  { intros p a m Hin H _. cbn in Hin.
    destruct Hin as [E|[E|[E|[E|[]]]]]; inversion E; subst p;
      destruct (ex_full_md_name "1" a m H) as (_ & -> & _); reflexivity. }
  split; [discriminate|]. split; [discriminate|].
  cbv zeta. split; [vm_compute; reflexivity|].
  eexists. split; [vm_compute; reflexivity|]. repeat split.
Qed.

(** with the comparison the other way round ([pg_equal_swapped], NOT the code) the stored annotation makes every
    reconcile of every member pod issue an Update that changes nothing, for ever; the code as it is stays silent *)
Definition rec_swapped := reconcile_with annot_fix patch_fix ignore_sg pg_equal_swapped.

Lemma swapped_comparison_writes_forever :
  (* the code as it is *)
  snd (reconcile ex_cfg [ex_sts] (ex_pod "0") ex_annotated) = 0%Z
  /\ snd (reconcile ex_cfg [ex_sts] (ex_pod "1") (fst (reconcile ex_cfg [ex_sts] (ex_pod "1") ex_annotated))) = 0%Z
  (* the swapped comparison: the PodGroup exists, nothing the grouper computes changed, yet each reconcile writes *)
  /\ (forall n, let s := Nat.iter n (fun s => fst (rec_swapped ex_cfg [ex_sts] (ex_pod "0") s)) ex_annotated in
                snd (rec_swapped ex_cfg [ex_sts] (ex_pod "0") s) = 1%Z /\ st_pgs s = st_pgs ex_annotated)
  /\ snd (rec_swapped ex_cfg [ex_sts] (ex_pod "1") (fst (rec_swapped ex_cfg [ex_sts] (ex_pod "1") ex_annotated))) = 1%Z
  (* without a key of another actor on the stored PodGroup the swapped comparison is silent as well *)
  /\ snd (rec_swapped ex_cfg [ex_sts] (ex_pod "0") (after 1 ex_cfg [ex_sts] (ex_pod "0"))) = 0%Z.
Proof.
  split; [vm_compute; reflexivity|]. split; [vm_compute; reflexivity|]. split.
  { assert (fst (rec_swapped ex_cfg [ex_sts] (ex_pod "0") ex_annotated) = ex_annotated) as Hfix
        by (vm_compute; reflexivity).
    assert (forall n, Nat.iter n (fun s => fst (rec_swapped ex_cfg [ex_sts] (ex_pod "0") s)) ex_annotated = ex_annotated) as Hn.
    { induction n as [|n IH]; [reflexivity|].
      change (fst (rec_swapped ex_cfg [ex_sts] (ex_pod "0")
                     (Nat.iter n (fun s => fst (rec_swapped ex_cfg [ex_sts] (ex_pod "0") s)) ex_annotated)) = ex_annotated).
      rewrite IH. exact Hfix. }
    intros n. cbv zeta. rewrite Hn. split; [vm_compute; reflexivity|reflexivity]. }
  split; vm_compute; reflexivity.
Qed.

(** a key that was on the owner when the PodGroup was created and is removed from the owner afterwards stays
    on the stored PodGroup (updatePodGroup merges): the grouper no longer computes it, the code as it is writes
    nothing, the swapped comparison writes on every reconcile *)
Definition ex_sts_labelled : obj :=
  {| o_gvk := mk_gvk "apps" "v1" "StatefulSet"; o_name := "web"; o_uid := "u-sts";
     o_labels := [("kai.scheduler/queue", "team-a"); ("app", "web")]; o_annots := [("note", "x")];
     o_owners := []; o_tom := "tom-web" |}.

Lemma owner_key_removed :
  let s := after 1 ex_cfg [ex_sts_labelled] (ex_pod "0") in
  (exists g, get_pg ex_pg_name s = Some g /\ mget "app" (pg_labels g) = Some "web" /\ mget "note" (pg_annots g) = Some "x")
  /\ snd (reconcile ex_cfg [ex_sts] (ex_pod "0") s) = 0%Z
  /\ (exists g, get_pg ex_pg_name (fst (reconcile ex_cfg [ex_sts] (ex_pod "0") s)) = Some g
                /\ mget "app" (pg_labels g) = Some "web" /\ mget "note" (pg_annots g) = Some "x")
  /\ snd (rec_swapped ex_cfg [ex_sts] (ex_pod "0") s) = 1%Z
  /\ snd (rec_swapped ex_cfg [ex_sts] (ex_pod "0") (fst (rec_swapped ex_cfg [ex_sts] (ex_pod "0") s))) = 1%Z.
Proof.
  cbv zeta. split; [eexists; split; [vm_compute; reflexivity|split; reflexivity]|].
  split; [vm_compute; reflexivity|].
  split; [eexists; split; [vm_compute; reflexivity|split; reflexivity]|].
  split; vm_compute; reflexivity.
Qed.

(** * History independence: after a reconcile of every pod the grouper-owned part of the PodGroups is a
      function of the workload, whatever happened before *)

(** ** the boolean comparison used by the monitor is the relation of the theorem *)
Lemma opt_eqb_eq : forall A (e : A -> A -> bool), (forall x y, e x y = true -> x = y) ->
                                                  forall a b, opt_eqb e a b = true -> a = b.
Proof. intros A e H [x|] [y|] E; cbn in E; try discriminate; [now rewrite (H _ _ E)|reflexivity]. Qed.
Lemma list_eqb_eq : forall A (e : A -> A -> bool), (forall x y, e x y = true -> x = y) ->
                                                   forall a b, list_eqb e a b = true -> a = b.
Proof.
  intros A e H a. induction a as [|x r IH]; intros [|y s] E; cbn in E; try discriminate; [reflexivity|].
  apply andb_true_iff in E as [E1 E2]. now rewrite (H _ _ E1), (IH _ E2).
Qed.
Lemma topo_eqb_eq : forall a b, topo_eqb a b = true -> a = b.
Proof.
  intros [a1 a2 a3] [b1 b2 b3]. unfold topo_eqb. cbn. rewrite !andb_true_iff, !String.eqb_eq.
  intros [[-> ->] ->]. reflexivity.
Qed.
Lemma subgroup_eqb_eq : forall a b, subgroup_eqb a b = true -> a = b.
Proof.
  intros [n1 m1 p1] [n2 m2 p2]. unfold subgroup_eqb. cbn. rewrite !andb_true_iff, String.eqb_eq, Z.eqb_eq.
  intros [[-> ->] H]. f_equal. revert H. apply opt_eqb_eq. intros x y. apply String.eqb_eq.
Qed.
Lemma owner_ref_eqb_eq : forall a b, owner_ref_eqb a b = true -> a = b.
Proof.
  intros [a1 a2 a3 a4 a5] [b1 b2 b3 b4 b5]. unfold owner_ref_eqb. cbn. rewrite !andb_true_iff, !String.eqb_eq.
  intros [[[[-> ->] ->] ->] ->]. reflexivity.
Qed.

Lemma oview_eqb_spec : forall a b, oview_eqb a b = true <-> a = b.
Proof.
  intros [a1 a2 a3 a4 a5 a6] [b1 b2 b3 b4 b5 b6]. unfold oview_eqb. cbn. split.
  - rewrite !andb_true_iff, Z.eqb_eq, !String.eqb_eq. intros [[[[[-> ->] ->] H4] H5] H6].
    rewrite (topo_eqb_eq _ _ H5), (list_eqb_eq _ _ owner_ref_eqb_eq _ _ H6).
    rewrite (opt_eqb_eq _ _ (list_eqb_eq _ _ subgroup_eqb_eq) _ _ H4). reflexivity.
  - intros H. inversion H; subst.
    rewrite Z.eqb_refl, !String.eqb_refl, topo_eqb_refl. cbn.
    rewrite (opt_eqb_refl _ (list_eqb subgroup_eqb)) by (apply list_eqb_refl, subgroup_eqb_refl).
    rewrite (list_eqb_refl _ owner_ref_eqb) by apply owner_ref_eqb_refl. reflexivity.
Qed.

Lemma keys_agree_spec : forall skip fresh hist,
    keys_agree skip fresh hist = true
    <-> (forall k v, ~ In k skip -> mget k fresh = Some v -> mget k hist = Some v).
Proof.
  intros skip fresh hist. unfold keys_agree. change (match fresh with None => [] | Some l => l end) with (or_nil fresh).
  split.
  - intros H k v Hs Hk. rewrite forallb_forall in H. rewrite mget_or_nil in Hk.
    specialize (H (k, v) (lookup_some_in _ _ _ Hk)). cbn [fst] in H. apply orb_true_iff in H as [H|H].
    + apply existsb_exists in H as [x [Hin Hx]]. apply String.eqb_eq in Hx. subst. contradiction.
    + rewrite Hk in H. destruct (mget k hist) as [w|]; cbn in H; [|discriminate].
      apply String.eqb_eq in H. now subst.
  - intros H. apply forallb_forall. intros [k v0] Hin. cbn [fst].
    destruct (existsb (String.eqb k) skip) eqn:Ex; [reflexivity|]. cbn [orb].
    destruct (in_lookup_some _ _ _ Hin) as [v' Hv']. rewrite Hv'.
    rewrite (H k v'); [cbn; apply String.eqb_refl| |now rewrite mget_or_nil].
    intros Hs. assert (existsb (String.eqb k) skip = true) as Ht; [|congruence].
    apply existsb_exists. exists k. split; [assumption|apply String.eqb_refl].
Qed.

(** the stored PodGroup [hist] agrees with the PodGroup [fresh] of a fresh run on the grouper-owned part *)
Definition owned_agree (cfg : config) (fresh hist : pg) : Prop :=
  owned_view hist = owned_view fresh
  /\ (forall k v, k <> c_queue_key cfg -> k <> c_nodepool_key cfg ->
                  mget k (pg_labels fresh) = Some v -> mget k (pg_labels hist) = Some v)
  /\ (forall k v, mget k (pg_annots fresh) = Some v -> mget k (pg_annots hist) = Some v).

Theorem owned_agreeb_spec : forall cfg fresh hist, owned_agreeb cfg fresh hist = true <-> owned_agree cfg fresh hist.
Proof.
  intros cfg fresh hist. unfold owned_agreeb, owned_agree.
  rewrite !andb_true_iff, oview_eqb_spec, !keys_agree_spec. split.
  - intros [[H1 H2] H3]. split; [exact H1|]. split.
    + intros k v Hq Hn. apply H2. cbn. intuition congruence.
    + intros k v. apply H3. cbn. tauto.
  - intros [H1 [H2 H3]]. split; [split; [exact H1|]|].
    + intros k v Hs. apply H2; intros ->; apply Hs; cbn; auto.
    + intros k v _. apply H3.
Qed.

(** ** what one ApplyToCluster leaves in its slot *)
Lemma spec_eqb_true : forall a b,
    spec_eqb a b = true ->
    sp_min a = sp_min b /\ sp_prio a = sp_prio b /\ sp_preempt a = sp_preempt b
    /\ sp_subgroups a = sp_subgroups b /\ sp_topo a = sp_topo b.
Proof.
  intros a b. unfold spec_eqb. rewrite !andb_true_iff, Z.eqb_eq, !String.eqb_eq.
  intros [[[[[[[H1 _] H3] H4] _] _] H7] H8]. repeat split; try assumption.
  - revert H7. apply opt_eqb_eq. apply list_eqb_eq. apply subgroup_eqb_eq.
  - now apply topo_eqb_eq.
Qed.

Lemma apply_slot_owned : forall cfg m cur,
    let g' := fst (apply_slot_with true pg_equal_v1 cfg m cur) in
    owned_view g' = owned_view (norm (create_pg m))
    /\ (forall k v, k <> c_queue_key cfg -> k <> c_nodepool_key cfg ->
                    mget k (m_labels m) = Some v -> mget k (pg_labels g') = Some v)
    /\ (forall k v, mget k (m_annots m) = Some v -> mget k (pg_annots g') = Some v).
Proof.
  intros cfg m cur g'. subst g'.
  destruct (apply_slot_cases true pg_equal_v1 cfg m cur) as [[Hw _]|[old [-> [E Hr]]]].
  - rewrite Hw. destruct cur as [old|].
    + split; [|split].
      * unfold owned_view. rewrite written_subgroups. reflexivity.
      * intros k v Hq Hn Hk. rewrite mget_or_nil, or_nil_written_labels, lookup_copy_into.
        rewrite ignored_labels_other by assumption. cbn [create_pg pg_labels]. now rewrite Hk.
      * intros k v Hk. cbn [written norm pg_annots update_pg ignore_fields create_pg]. rewrite mget_norm_map.
        destruct (m_annots m) as [a|]; [|discriminate]. rewrite copy_string_map_some. cbn [mget] in *.
        now rewrite lookup_copy_into, Hk.
    + cbn [written]. split; [reflexivity|]. split.
      * intros k v _ _ Hk. cbn [norm pg_labels create_pg]. now rewrite mget_norm_map.
      * intros k v Hk. cbn [norm pg_annots create_pg]. now rewrite mget_norm_map.
  - rewrite Hr. cbn [fst]. unfold pg_equal_v1, pg_equal_with in E.
    apply andb_true_iff in E as [E Ha]. apply andb_true_iff in E as [E Hl]. apply andb_true_iff in E as [Hs Ho].
    apply spec_eqb_true in Hs. destruct Hs as (S1 & S2 & S3 & S4 & S5).
    apply (list_eqb_eq _ _ owner_ref_eqb_eq) in Ho.
    cbn [ignore_fields create_pg sp_min sp_prio sp_preempt sp_subgroups sp_topo pg_owners pg_annots andb] in *.
    split; [|split].
    + unfold owned_view. cbn [norm create_pg sp_min sp_prio sp_preempt sp_subgroups sp_topo pg_owners].
      rewrite S1, S2, S3, S5, Ho. f_equal.
      destruct (m_subgroups m) as [|x r]; destruct (sp_subgroups old) as [[|y l]|];
        cbn [slice_empty andb norm_slice] in *; try reflexivity; try discriminate; now rewrite S4.
    + intros k v Hq Hn Hk. rewrite ignore_fields_labels in Hl.
      apply (proj1 (maps_equal_spec _ _) Hl). rewrite ignored_labels_other by assumption. exact Hk.
    + intros k v Hk. destruct (m_annots m) as [a|]; [|discriminate].
      apply (proj1 (maps_equal_spec _ _) Ha). exact Hk.
Qed.

(** ** the simulation: the run from the empty store against the run from any state *)
Definition agrees_with_fresh (cfg : config) (fresh hist : state) : Prop :=
  (forall n gf, get_pg n fresh = Some gf -> exists gh, get_pg n hist = Some gh /\ owned_agree cfg gf gh)
  /\ (forall k x, get_asg k fresh = Some x -> get_asg k hist = Some x).

Lemma agrees_with_fresh_empty : forall cfg s, agrees_with_fresh cfg empty_state s.
Proof. intros cfg s. split; intros ? ? H; discriminate H. Qed.

Lemma agrees_with_fresh_step : forall pf cfg cl p t s,
    p_owners p <> [] -> agrees_with_fresh cfg t s ->
    agrees_with_fresh cfg (rec_step annot_fix pf true pg_equal_v1 cfg cl p t) (rec_step annot_fix pf true pg_equal_v1 cfg cl p s).
Proof.
  intros pf cfg cl p t s Hown [Hp Ha].
  pose proof (full_md_indep_all cfg cl p (get_asg (p_name p) t) (get_asg (p_name p) s) Hown) as Hmd.
  unfold full_md in Hmd.
  destruct (full_md_with annot_fix cfg cl p (get_asg (p_name p) t)) as [m|] eqn:Et; symmetry in Hmd.
  - destruct (rec_step_some annot_fix pf true pg_equal_v1 cfg cl p t m Et) as [Pt [At _]].
    destruct (rec_step_some annot_fix pf true pg_equal_v1 cfg cl p s m Hmd) as [Ps [As _]].
    split.
    + intros n gf. rewrite Pt, Ps. destruct (String.eqb_spec n (m_name m)) as [->|Hn]; [|apply Hp].
      intros Hgf. inversion Hgf as [Hgf']. clear Hgf Hgf'. eexists. split; [reflexivity|].
      destruct (apply_slot_owned cfg m (get_pg (m_name m) t)) as [Vt [Lt Nt]].
      destruct (apply_slot_owned cfg m (get_pg (m_name m) s)) as [Vs [Ls Ns]].
      split; [congruence|]. split.
      * intros k v Hq Hnp Hk. destruct (mget k (m_labels m)) as [v'|] eqn:Em.
        -- rewrite (Lt _ _ Hq Hnp Em) in Hk. inversion Hk; subst. now apply Ls.
        -- destruct (get_pg (m_name m) t) as [oldf|] eqn:Eof.
           ++ destruct (Hp _ _ Eof) as [oldh [Eoh [_ [HL _]]]]. rewrite Eoh.
              rewrite apply_slot_other_labels in Hk by (rewrite ignored_labels_other; assumption).
              rewrite apply_slot_other_labels by (rewrite ignored_labels_other; assumption).
              now apply HL.
           ++ exfalso. cbn [apply_slot_with fst norm pg_labels create_pg] in Hk.
              rewrite mget_norm_map in Hk. congruence.
      * intros k v Hk. destruct (mget k (m_annots m)) as [v'|] eqn:Em.
        -- rewrite (Nt _ _ Em) in Hk. inversion Hk; subst. now apply Ns.
        -- destruct (get_pg (m_name m) t) as [oldf|] eqn:Eof.
           ++ destruct (Hp _ _ Eof) as [oldh [Eoh [_ [_ HA]]]]. rewrite Eoh.
              rewrite apply_slot_other_annots in Hk by assumption.
              rewrite apply_slot_other_annots by assumption.
              now apply HA.
           ++ exfalso. cbn [apply_slot_with fst norm pg_annots create_pg] in Hk.
              rewrite mget_norm_map in Hk. congruence.
    + intros k x. rewrite At, As. destruct (String.eqb k (p_name p)); [auto|apply Ha].
  - unfold rec_step. rewrite (rec_step_none _ _ _ _ _ _ _ _ Et), (rec_step_none _ _ _ _ _ _ _ _ Hmd).
    now split.
Qed.

Lemma agrees_with_fresh_runs : forall pf cfg cl ps t s,
    (forall p, In p ps -> p_owners p <> []) -> agrees_with_fresh cfg t s ->
    agrees_with_fresh cfg (runs (rec_step annot_fix pf true pg_equal_v1 cfg cl) ps t)
                      (runs (rec_step annot_fix pf true pg_equal_v1 cfg cl) ps s).
Proof.
  intros pf cfg cl ps. induction ps as [|p ps IH]; intros t s Hown H; [exact H|].
  cbn. apply IH; [intros q Hq; apply Hown; now right|].
  apply agrees_with_fresh_step; [apply Hown; now left|exact H].
Qed.

(** from ANY state: after the reconciles [ps] the store agrees with the store the same reconciles build from
    nothing. The state [s] is arbitrary - it stands for every history. *)
Theorem history_independent_any_state : forall cfg cl ps s,
    (forall p, In p ps -> p_owners p <> []) ->
    agrees_with_fresh cfg (run cfg cl (map EvReconcile ps) empty_state) (run cfg cl (map EvReconcile ps) s).
Proof.
  intros cfg cl ps s Hown. unfold run. rewrite !run_reconciles_is_runs.
  apply agrees_with_fresh_runs; [exact Hown|apply agrees_with_fresh_empty].
Qed.

Lemma recs_with_reconcile : forall cfg cl ps s, recs_with reconcile cfg cl ps s = run cfg cl (map EvReconcile ps) s.
Proof.
  intros cfg cl ps. induction ps as [|p ps IH]; intros s; [reflexivity|].
  exact (IH (fst (reconcile cfg cl p s))).
Qed.

(** the statement for a reconciler [rc]: any history [hs] from any cluster and state - reconciles, foreign
    updates, edits of the owner objects, overwritten and deleted PodGroups -, then the reconciles [ps] under
    the final owner objects *)
Definition history_independent_statement (rc : config -> list obj -> pod -> state -> state * Z) : Prop :=
  forall cfg cl0 s0 hs ps,
    (forall p, In p ps -> p_owners p <> []) ->
    let cs := hrun_with rc cfg hs (cl0, s0) in
    agrees_with_fresh cfg (recs_with rc cfg (fst cs) ps empty_state) (recs_with rc cfg (fst cs) ps (snd cs)).

Theorem history_independent : history_independent_statement reconcile.
Proof.
  intros cfg cl0 s0 hs ps Hown cs. rewrite !recs_with_reconcile. now apply history_independent_any_state.
Qed.

Theorem history_independent_run : forall cfg cl0 s0 hs ps,
    (forall p, In p ps -> p_owners p <> []) ->
    let cl_final := fst (hrun cfg hs (cl0, s0)) in
    let s_hist := snd (hrun cfg hs (cl0, s0)) in
    agrees_with_fresh cfg (run cfg cl_final (map EvReconcile ps) empty_state)
                      (run cfg cl_final (map EvReconcile ps) s_hist).
Proof. intros cfg cl0 s0 hs ps Hown cl_final s_hist. now apply history_independent_any_state. Qed.

(** ... in particular the PodGroup of every reconciled pod exists afterwards (a deleted one is back) and the pod
    is assigned to it *)
Lemma pg_stays : forall af pf sg eq cfg cl p s n,
    get_pg n s <> None -> get_pg n (rec_step af pf sg eq cfg cl p s) <> None.
Proof.
  intros af pf sg eq cfg cl p s n H.
  destruct (full_md_with af cfg cl p (get_asg (p_name p) s)) as [m|] eqn:E.
  - destruct (rec_step_some af pf sg eq cfg cl p s m E) as [P _]. rewrite P.
    destruct (String.eqb n (m_name m)); [discriminate|exact H].
  - unfold rec_step. now rewrite (rec_step_none _ _ _ _ _ _ _ _ E).
Qed.

Theorem podgroup_restored : forall cfg cl ps s p a m,
    In p ps -> p_owners p <> [] -> full_md cfg cl p a = Some m ->
    get_pg (m_name m) (run cfg cl (map EvReconcile ps) s) <> None.
Proof.
  intros cfg cl ps s p a m Hin Hown Hm. unfold run. rewrite run_reconciles_is_runs. revert s.
  induction ps as [|q ps IH]; intros s; [contradiction|]. cbn. destruct Hin as [->|Hin]; [|now apply IH].
  assert (get_pg (m_name m) (rec_step annot_fix patch_fix ignore_sg pg_equal cfg cl p s) <> None) as H0.
  { rewrite (full_md_indep_all cfg cl p a (get_asg (p_name p) s) Hown) in Hm.
    destruct (rec_step_some annot_fix patch_fix ignore_sg pg_equal cfg cl p s m Hm) as [P _].
    rewrite P, String.eqb_refl. discriminate. }
  clear IH. revert H0. generalize (rec_step annot_fix patch_fix ignore_sg pg_equal cfg cl p s). clear s.
  induction ps as [|q ps IH]; intros s H0; [exact H0|]. cbn. apply IH. now apply pg_stays.
Qed.

(** ** what the call of ApplyToCluster for already assigned pods is for *)
Definition ex_hcfg : config :=
  {| c_queue_key := "kai.scheduler/queue"; c_nodepool_key := "kai.scheduler/node-pool";
     c_prio_classes := ["train"; "inference"]; c_defaults := CmNone; c_forbidden := [] |}.
(** the StatefulSet after an edit: priority class, preemptibility, a user label, a topology constraint *)
Definition ex_sts_edited : obj :=
  {| o_gvk := mk_gvk "apps" "v1" "StatefulSet"; o_name := "web"; o_uid := "u-sts";
     o_labels := [("kai.scheduler/queue", "team-a"); ("priorityClassName", "inference");
                  ("kai.scheduler/preemptibility", "non-preemptible"); ("tier", "gold")];
     o_annots := [("kai.scheduler/topology", "topo-1"); ("kai.scheduler/topology-required-placement", "rack")];
     o_owners := []; o_tom := "tom-web" |}.
Definition ex_tampered : pg :=
  {| pg_labels := Some [("kai.scheduler/queue", "team-a")]; pg_annots := Some [(tom_key, "hijacked")]; pg_owners := [];
     sp_min := 7%Z; sp_queue := "team-a"; sp_prio := "build"; sp_preempt := ""; sp_mark := None; sp_backoff := None;
     sp_subgroups := None; sp_topo := {| t_preferred := ""; t_required := ""; t_topology := "" |} |}.
Definition ex_first_round : list hevent := [HEv (EvReconcile (ex_pod "0")); HEv (EvReconcile (ex_pod "1"))].
Definition ex_hist_edit : list hevent := (ex_first_round ++ [HOwners [ex_sts_edited]])%list.
Definition ex_hist_tamper : list hevent := (ex_first_round ++ [HTamper ex_pg_name ex_tampered])%list.
Definition ex_hist_delete : list hevent := (ex_first_round ++ [HDelete ex_pg_name])%list.
Definition ex_again : list pod := [ex_pod "1"; ex_pod "0"; ex_pod "0"; ex_pod "1"].

(** the final store of a history followed by the reconciles [ex_again], and of the fresh run *)
Definition ex_hist_end (rc : config -> list obj -> pod -> state -> state * Z) (hs : list hevent) : state :=
  let cs := hrun_with rc ex_hcfg hs ([ex_sts], empty_state) in recs_with rc ex_hcfg (fst cs) ex_again (snd cs).
Definition ex_fresh_end (rc : config -> list obj -> pod -> state -> state * Z) (hs : list hevent) : state :=
  let cs := hrun_with rc ex_hcfg hs ([ex_sts], empty_state) in recs_with rc ex_hcfg (fst cs) ex_again empty_state.
Definition ex_pg_fields (s : state) : option (Z * string * string * string * list owner_ref) :=
  match get_pg ex_pg_name s with
  | Some g => Some (sp_min g, sp_prio g, sp_preempt g, t_topology (sp_topo g), pg_owners g)
  | None => None
  end.
Definition ex_agrees (rc : config -> list obj -> pod -> state -> state * Z) (hs : list hevent) : bool :=
  match get_pg ex_pg_name (ex_fresh_end rc hs), get_pg ex_pg_name (ex_hist_end rc hs) with
  | Some gf, Some gh => owned_agreeb ex_hcfg gf gh
  | _, _ => false
  end.
Definition ex_sts_ref : owner_ref :=
  {| w_group := "apps"; w_version := "v1"; w_kind := "StatefulSet"; w_name := "web"; w_uid := "u-sts" |}.

(** the code as it is repairs all three; the early return leaves the PodGroup as the history left it *)
Lemma early_return_depends_on_history :
  (* the owner is edited after both pods were assigned *)
  ex_pg_fields (ex_fresh_end reconcile ex_hist_edit) = Some (1%Z, "inference", "non-preemptible", "topo-1", [ex_sts_ref])
  /\ ex_pg_fields (ex_hist_end reconcile ex_hist_edit) = Some (1%Z, "inference", "non-preemptible", "topo-1", [ex_sts_ref])
  /\ ex_agrees reconcile ex_hist_edit = true
  /\ ex_pg_fields (ex_fresh_end reconcile_early_return ex_hist_edit) = Some (1%Z, "inference", "non-preemptible", "topo-1", [ex_sts_ref])
  /\ ex_pg_fields (ex_hist_end reconcile_early_return ex_hist_edit) = Some (1%Z, "train", "", "", [ex_sts_ref])
  /\ ex_agrees reconcile_early_return ex_hist_edit = false
  (* minMember, priority class, owner reference and a computed annotation of the PodGroup are overwritten *)
  /\ ex_pg_fields (ex_hist_end reconcile ex_hist_tamper) = Some (1%Z, "train", "", "", [ex_sts_ref])
  /\ ex_agrees reconcile ex_hist_tamper = true
  /\ ex_pg_fields (ex_hist_end reconcile_early_return ex_hist_tamper) = Some (7%Z, "build", "", "", [])
  /\ ex_agrees reconcile_early_return ex_hist_tamper = false
  (* the PodGroup is deleted *)
  /\ ex_agrees reconcile ex_hist_delete = true
  /\ get_pg ex_pg_name (ex_hist_end reconcile_early_return ex_hist_delete) = None
  /\ get_asg "web-0" (ex_hist_end reconcile_early_return ex_hist_delete) = Some ex_pg_name
  /\ get_pg ex_pg_name (ex_fresh_end reconcile_early_return ex_hist_delete) <> None.
Proof. repeat split; try (vm_compute; reflexivity). vm_compute. discriminate. Qed.

Theorem early_return_refuted : ~ history_independent_statement reconcile_early_return.
Proof.
  intros H.
  specialize (H ex_hcfg [ex_sts] empty_state ex_hist_delete ex_again).
  assert (forall p, In p ex_again -> p_owners p <> []) as Hown.
  { intros p Hp. cbn in Hp. destruct Hp as [<-|[<-|[<-|[<-|[]]]]]; discriminate. }
  destruct (H Hown) as [Hp _].
  destruct (get_pg ex_pg_name (ex_fresh_end reconcile_early_return ex_hist_delete)) as [gf|] eqn:E.
  - destruct (Hp ex_pg_name gf E) as [gh [Hgh _]].
    assert (get_pg ex_pg_name (ex_hist_end reconcile_early_return ex_hist_delete) = None) as Hn by (vm_compute; reflexivity).
    unfold ex_hist_end in Hn. rewrite Hn in Hgh. discriminate.
  - revert E. vm_compute. discriminate.
Qed.

(** ** the hypothesis "the pod has an owner reference" is needed: a pod without owner is skipped once it carries
       the pod-group annotation (isOrphanPodWithPodGroup), the grouper's own annotation included *)
Definition history_independent_unrestricted (rc : config -> list obj -> pod -> state -> state * Z) : Prop :=
  forall cfg cl0 s0 hs ps,
    let cs := hrun_with rc cfg hs (cl0, s0) in
    agrees_with_fresh cfg (recs_with rc cfg (fst cs) ps empty_state) (recs_with rc cfg (fst cs) ps (snd cs)).

Definition ex_bare : pod :=
  {| p_name := "solo"; p_uid := "u-solo"; p_labels := []; p_annots := []; p_prio := ""; p_owners := []; p_tom := "tom-solo" |}.
Definition ex_bare_pg := "pg-solo-u-solo".
Definition ex_bare_hist : list hevent := [HEv (EvReconcile ex_bare); HDelete ex_bare_pg].

Lemma ownerless_pod_frozen :
  let cs := hrun ex_cfg ex_bare_hist ([], empty_state) in
  let hist := run ex_cfg [] (map EvReconcile [ex_bare; ex_bare]) (snd cs) in
  let fresh := run ex_cfg [] (map EvReconcile [ex_bare; ex_bare]) empty_state in
  get_pg ex_bare_pg (snd (hrun ex_cfg [HEv (EvReconcile ex_bare)] ([], empty_state))) <> None
  /\ get_pg ex_bare_pg fresh <> None
  /\ get_pg ex_bare_pg hist = None
  /\ get_asg "solo" hist = Some ex_bare_pg.
Proof. cbv zeta. repeat split; try (vm_compute; reflexivity); vm_compute; discriminate. Qed.

Theorem history_independent_unrestricted_refuted : ~ history_independent_unrestricted reconcile.
Proof.
  intros H. specialize (H ex_cfg [] empty_state ex_bare_hist [ex_bare; ex_bare]). cbv zeta in H.
  destruct H as [Hp _].
  destruct (get_pg ex_bare_pg (recs_with reconcile ex_cfg (fst (hrun_with reconcile ex_cfg ex_bare_hist ([], empty_state)))
                                         [ex_bare; ex_bare] empty_state)) as [gf|] eqn:E.
  - destruct (Hp ex_bare_pg gf E) as [gh [Hgh _]]. revert Hgh. vm_compute. discriminate.
  - revert E. vm_compute. discriminate.
Qed.
