package main

import (
	"fmt"

	"github.com/NVIDIA/KAI-scheduler/pkg/scheduler/api/pod_status"
	"github.com/NVIDIA/KAI-scheduler/pkg/scheduler/api/podgroup_info"

	"kaiverif/internal/core"
	"kaiverif/internal/cycle"
)

func main() {
	c := cycle.Cluster{
		Nodes:  []core.NodeSpec{{Name: "n1", Cpu: 8000, Mem: 16 << 30, Gpus: 2, Pods: 110}},
		Queues: []cycle.Queue{{Name: "q1", Deserved: 2, Limit: 3, OverQuota: 1, Priority: 100}, {Name: "q2", Deserved: 1, OverQuota: 1, Priority: 100}},
		Jobs: []cycle.Job{
			{Name: "j1", Queue: "q2", Priority: 50, MinMember: 1, AgeMinutes: 5, StartedMins: 10, Pods: []core.PodSpec{
				{Name: "j1-0", Cpu: 1000, Mem: 1 << 30, Gpus: 2, Status: pod_status.Running, Node: "n1"},
				{Name: "j1-1", Cpu: 1000, Mem: 1 << 30, Gpus: 2, Status: pod_status.Pending},
				{Name: "j1-2", Cpu: 1000, Mem: 1 << 30, Gpus: 2, Status: pod_status.Pending}}},
			{Name: "j2", Queue: "q2", Priority: 50, MinMember: 1, AgeMinutes: 4, Pods: []core.PodSpec{{Name: "j2-0", Cpu: 1000, Mem: 1 << 30, Gpus: 2, Status: pod_status.Pending}}},
			{Name: "j3", Queue: "q1", Priority: 75, MinMember: 1, AgeMinutes: 3, Pods: []core.PodSpec{
				{Name: "j3-0", Cpu: 1000, Mem: 1 << 30, Gpus: 1, Status: pod_status.Pending},
				{Name: "j3-1", Cpu: 1000, Mem: 1 << 30, Gpus: 1, Status: pod_status.Pending}}},
		},
		Actions: []string{"allocate", "reclaim", "preempt"},
	}
	b := cycle.Build(c)
	for _, a := range c.Actions {
		fmt.Println("== action", a)
		msg := cycle.RunActions(b, []string{a})
		if msg != "" {
			fmt.Println("PANIC", msg[:200])
		}
		for name, j := range b.Jobs {
			t := podgroup_info.GetTasksToAllocate(j, b.Ssn.PodSetOrderFn, b.Ssn.TaskOrderFn, false)
			fmt.Printf("  job %s: toAllocate(false)=%d statuses:", name, len(t))
			for _, p := range j.GetAllPodsMap() {
				fmt.Printf(" %s=%v(virt=%v)", p.Name, p.Status, p.IsVirtualStatus)
			}
			fmt.Println()
		}
		fmt.Printf("  calls so far: %d\n", len(b.Rec.Calls()))
		if a == "reclaim" {
			for name, j := range b.Jobs {
				t := podgroup_info.GetTasksToAllocate(j, b.Ssn.PodSetOrderFn, b.Ssn.TaskOrderFn, false)
				part := j.CloneWithTasks(t)
				for n, ps := range part.GetSubGroups() {
					fmt.Printf("   partial %s podset %q min=%d pods=%d activeAlloc=%d\n", name, n, ps.GetMinAvailable(), len(ps.GetPodInfos()), ps.GetNumActiveAllocatedTasks())
				}
				if ps, ok := part.GetSubGroups()["default"]; ok {
					ps.SetMinAvailable(int32(len(t)))
				}
				t2 := podgroup_info.GetTasksToAllocate(part, b.Ssn.PodSetOrderFn, b.Ssn.TaskOrderFn, false)
				fmt.Printf("   partial %s: tasks=%d -> toAllocate(false)=%d\n", name, len(t), len(t2))
			}
		}
	}
}
