// kaiverif drives the real KAI-Scheduler code (module replaced by /repo) for
// the correspondence checks. Usage: kaiverif <prop> -dir D -seed S -n N [-tier T]
package main

import (
	"flag"
	"fmt"
	"os"
)

type runner func(dir string, seed uint64, n int, tier string) error

var registry = map[string]runner{}

func main() {
	if len(os.Args) < 2 {
		fmt.Fprintln(os.Stderr, "usage: kaiverif <prop> -dir D -seed S -n N")
		os.Exit(2)
	}
	prop := os.Args[1]
	fs := flag.NewFlagSet(prop, flag.ExitOnError)
	dir := fs.String("dir", ".", "output directory")
	seed := fs.Uint64("seed", 1, "PRNG seed")
	n := fs.Int("n", 100, "number of generated cases")
	tier := fs.String("tier", "quick", "quick|thorough")
	_ = fs.Parse(os.Args[2:])
	run, ok := registry[prop]
	if !ok {
		fmt.Fprintf(os.Stderr, "unknown property driver %q\n", prop)
		os.Exit(2)
	}
	if err := run(*dir, *seed, *n, *tier); err != nil {
		fmt.Fprintln(os.Stderr, "driver error:", err)
		os.Exit(3)
	}
}
