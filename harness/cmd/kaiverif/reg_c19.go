package main

import "kaiverif/internal/c19"

func init() {
	registry["c19"] = func(dir string, seed uint64, n int, tier string) error { return c19.Run(dir, seed, n) }
}
