// c08 drives the capacity_policy gates and the proportion plugin's
// allocate/deallocate handlers on generated queue trees and decision
// sequences (correspondence check + monitor for property C08).
// `-tier witness` replays the refutation witness of Proofs/Capacity.v on the real code.
package main

import (
	"kaiverif/internal/c08"
	u "kaiverif/internal/util"
)

func main() {
	u.Main(func(dir string, seed uint64, n int, tier string) error { return c08.Run(dir, seed, n, tier) })
}
