package main

import (
	"fmt"
	"os"

	"github.com/NVIDIA/KAI-scheduler/pkg/scheduler/api/pod_status"
	"github.com/NVIDIA/KAI-scheduler/pkg/scheduler/log"

	"kaiverif/internal/core"
	"kaiverif/internal/cycle"
)

func frac(n, f string, st pod_status.PodStatus, node string, groups ...string) core.PodSpec {
	return core.PodSpec{Name: n, Cpu: 250, Mem: 1 << 30, Fraction: f, Status: st, Node: node, Groups: groups}
}
func whole(n string, g int64, st pod_status.PodStatus, node string) core.PodSpec {
	return core.PodSpec{Name: n, Cpu: 250, Mem: 1 << 30, Gpus: g, Status: st, Node: node}
}

func main() {
	if os.Getenv("V") != "" {
		_ = log.InitLoggers(7)
	}
	R, P, T := pod_status.Running, pod_status.Pending, pod_status.Releasing
	c := cycle.Cluster{
		Nodes: []core.NodeSpec{{Name: "n2", Cpu: 8000, Mem: 64 << 30, Gpus: 1, Pods: 110}, {Name: "n3", Cpu: 8000, Mem: 64 << 30, Gpus: 2, Pods: 110}},
		Queues: []cycle.Queue{{Name: "q1", Deserved: 8, Limit: 0, OverQuota: 1, Priority: 100}},
		Jobs: []cycle.Job{
			{Name: "j3", Queue: "q1", Priority: 50, MinMember: 1, AgeMinutes: 300, StartedMins: 280, Pods: []core.PodSpec{frac("j3-1", "0.4", R, "n2", "n2-G1"), frac("j3-2", "0.6", T, "n2", "n2-G1")}},
			{Name: "j4", Queue: "q1", Priority: 50, MinMember: 1, AgeMinutes: 300, StartedMins: 280, Pods: []core.PodSpec{frac("j4-1", "0.75", R, "n3", "n3-G1")}},
			{Name: "j2", Queue: "q1", Priority: 100, MinMember: 2, AgeMinutes: 100, Pods: []core.PodSpec{frac("j2-0", "0.6", P, ""), frac("j2-1", "0.6", P, "")}},
			{Name: "w", Queue: "q1", Priority: 90, MinMember: 1, AgeMinutes: 90, Pods: []core.PodSpec{whole("w-0", 1, P, "")}},
			{Name: "j1", Queue: "q1", Priority: 75, MinMember: 1, AgeMinutes: 80, Pods: []core.PodSpec{frac("j1-0", "0.4", P, "")}},
			{Name: "j5", Queue: "q1", Priority: 60, MinMember: 1, AgeMinutes: 70, Pods: []core.PodSpec{frac("j5-0", "0.9", P, "")}},
		},
		Actions: []string{"allocate"},
	}
	b := cycle.Build(c)
	for _, a := range c.Actions {
		fmt.Println("== action", a)
		if msg := cycle.RunActions(b, []string{a}); msg != "" {
			fmt.Println("PANIC", msg)
		}
		for _, cl := range b.Rec.Calls() {
			fmt.Printf("  %s(%s->%s %v %s for %s)", cl.Kind, cl.Pod, cl.Node, cl.Groups, cl.Action, cl.Preemptor)
		}
		fmt.Println()
		for _, n := range b.Ssn.ClusterInfo.Nodes {
			fmt.Printf("  node %s idle=%v rel=%v used=%v usedShared=%v allocShared=%v relShared=%v\n", n.Name, n.Idle.GPUs(), n.Releasing.GPUs(), n.Used.GPUs(), n.UsedSharedGPUsMemory, n.AllocatedSharedGPUsMemory, n.ReleasingSharedGPUsMemory)
			for _, p := range n.PodInfos {
				fmt.Printf("     %s %v groups=%v\n", p.Name, p.Status, p.GPUGroups)
			}
		}
	}
}
