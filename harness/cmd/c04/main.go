// c04 drives the hard placement constraints (node pool, predicates plugin and
// upstream filters, topology plugin's SubsetNodesFn, whole cycles of the real
// actions) on generated clusters (correspondence check + monitor for property C04).
package main

import (
	"kaiverif/internal/c04"
	u "kaiverif/internal/util"
)

func main() {
	u.Main(func(dir string, seed uint64, n int, tier string) error { return c04.Run(dir, seed, n, tier) })
}
