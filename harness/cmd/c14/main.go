// c14 drives the real NodeInfo accounting with generated operation programs
// (correspondence check for C14; node-level part of C01/C02).
package main

import (
	"kaiverif/internal/c14"
	u "kaiverif/internal/util"
)

func main() {
	u.Main(func(dir string, seed uint64, n int, tier string) error { return c14.Run(dir, seed, n) })
}
