// c10 drives the scheduler's graph walks and whole scheduling cycles on
// malformed API state (property C10). Each case runs in a child process
// (this binary with -single) so that a hang can be killed.
package main

import (
	"flag"
	"os"

	"kaiverif/internal/c10"
	u "kaiverif/internal/util"
)

func main() {
	for _, a := range os.Args[1:] {
		if a == "-single" || a == "--single" {
			fs := flag.NewFlagSet("single", flag.ExitOnError)
			_ = fs.Bool("single", true, "child mode")
			seed := fs.Uint64("seed", 1, "")
			tier := fs.String("tier", "quick", "")
			n := fs.Int("n", 100, "")
			from := fs.Int("from", 0, "")
			to := fs.Int("to", 0, "")
			_ = fs.Parse(os.Args[1:])
			c10.Single(*seed, *tier, *n, *from, *to)
			return
		}
	}
	u.Main(func(dir string, seed uint64, n int, tier string) error { return c10.Run(dir, seed, n, tier) })
}
