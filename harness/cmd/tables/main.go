// tables regenerates coq/Gen/StatusTables.v from the running code (tie T1 of
// DESIGN.md): the status classes of pkg/scheduler/api/pod_status evaluated on all
// twelve statuses and a few sentinels. The domain is finite and enumerated
// exhaustively, so the file is an exact translation; coq/Proofs/StatusTables.v
// proves that the hand-written classes of coq/Model/Status.v coincide with it.
package main

import (
	"flag"
	"fmt"
	"os"
	"path/filepath"
	"strings"

	"github.com/NVIDIA/KAI-scheduler/pkg/scheduler/api/node_info"
	"github.com/NVIDIA/KAI-scheduler/pkg/scheduler/api/pod_info"
	"github.com/NVIDIA/KAI-scheduler/pkg/scheduler/api/pod_status"

	"kaiverif/internal/core"
)

func main() {
	dir := flag.String("dir", ".", "output directory (coq/Gen)")
	flag.Parse()
	all := []pod_status.PodStatus{pod_status.Pending, pod_status.Gated, pod_status.Allocated, pod_status.Pipelined,
		pod_status.Binding, pod_status.Bound, pod_status.Running, pod_status.Releasing, pod_status.Succeeded,
		pod_status.Failed, pod_status.Unknown, pod_status.Deleted}
	seen := map[pod_status.PodStatus]bool{}
	for _, s := range all {
		if seen[s] {
			fmt.Fprintln(os.Stderr, "two statuses share a value")
			os.Exit(1)
		}
		seen[s] = true
	}
	class := func(name string, p func(pod_status.PodStatus) bool) string {
		var in []string
		for _, s := range all {
			if p(s) {
				in = append(in, core.StatusTerm(s))
			}
		}
		return fmt.Sprintf("Definition gen_%s : list status := [%s].\n", name, strings.Join(in, "; "))
	}
	var b strings.Builder
	b.WriteString("(* generated from /repo by harness/cmd/tables on every run; do not edit *)\n")
	b.WriteString("From Coq Require Import List ZArith String.\nFrom KaiV Require Import Model.Status.\nImport ListNotations.\nOpen Scope string_scope.\n\n")
	b.WriteString(class("active_used", pod_status.IsActiveUsedStatus))
	b.WriteString(class("active_allocated", pod_status.IsActiveAllocatedStatus))
	b.WriteString(class("alive", pod_status.IsAliveStatus))
	b.WriteString(class("pod_bound", pod_status.IsPodBound))
	b.WriteString(class("allocated_status", pod_status.AllocatedStatus))
	fmt.Fprintf(&b, "Definition gen_default_gpu_memory : Z := %d%%Z.\n", node_info.DefaultGpuMemory)
	fmt.Fprintf(&b, "Definition gen_whole_gpu_indicator : string := %q.\n", pod_info.WholeGpuIndicator)
	if err := os.MkdirAll(*dir, 0o755); err != nil {
		fmt.Fprintln(os.Stderr, err)
		os.Exit(1)
	}
	if err := os.WriteFile(filepath.Join(*dir, "StatusTables.v"), []byte(b.String()), 0o644); err != nil {
		fmt.Fprintln(os.Stderr, err)
		os.Exit(1)
	}
}
