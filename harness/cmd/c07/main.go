// c07 drives the proportion plugin's reclaim gate (CanReclaimResources, Reclaimable,
// FitsReclaimStrategy) on generated queue trees and the real allocate + reclaim actions on
// generated sessions with several reclaimers (correspondence check for property C07).
package main

import (
	"kaiverif/internal/c07"
	u "kaiverif/internal/util"
)

func main() {
	u.Main(func(dir string, seed uint64, n int, tier string) error { return c07.Run(dir, seed, n) })
}
