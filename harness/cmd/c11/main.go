// c11 drives the real BindRequest reconciler (real Binder, plugins and
// reservation service) on the fake client under injected API faults
// (correspondence check and monitor input for property C11).
package main

import (
	"fmt"
	"os"

	"kaiverif/internal/c11"
	u "kaiverif/internal/util"
)

func main() {
	if js := os.Getenv("C11_TRACE"); js != "" {
		if err := c11.Trace(js); err != nil {
			fmt.Fprintln(os.Stderr, err)
			os.Exit(3)
		}
		return
	}
	u.Main(func(dir string, seed uint64, n int, tier string) error { return c11.Run(dir, seed, n, tier) })
}
