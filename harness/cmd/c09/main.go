// c09 drives resource_division.SetResourcesShare on generated sibling-queue sets
// under shuffled map insertion orders, and opens the real proportion plugin on
// generated queue hierarchies (correspondence check and monitor for property C09).
package main

import (
	"kaiverif/internal/c09"
	u "kaiverif/internal/util"
)

func main() {
	u.Main(func(dir string, seed uint64, n int, tier string) error { return c09.Run(dir, seed, n, tier) })
}
