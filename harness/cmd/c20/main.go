// c20 drives the real pod-group controller, queue controller and the
// operator's Deploy on the fake client (correspondence check for property C20).
package main

import (
	"kaiverif/internal/c20"
	u "kaiverif/internal/util"
)

func main() {
	u.Main(func(dir string, seed uint64, n int, tier string) error { return c20.Run(dir, seed, n) })
}
