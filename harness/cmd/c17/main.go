// c17 drives the real GPU reservation service, Binder.Bind / Rollback and the
// pod / BindRequest controllers' event handlers on the fake client with fault
// and crash injection (correspondence check + monitor for property C17), and
// runs real concurrent reconciles on shared groups as a smoke test.
package main

import (
	"kaiverif/internal/c17"
	u "kaiverif/internal/util"
)

func main() {
	u.Main(func(dir string, seed uint64, n int, tier string) error { return c17.Run(dir, seed, n, tier) })
}
