// c06 drives the real reclaim / preempt / consolidation actions and the real
// minruntime plugin (correspondence check and monitor for property C06).
package main

import (
	"fmt"
	"os"

	"kaiverif/internal/c06"
	u "kaiverif/internal/util"
)

func main() {
	if os.Getenv("C06_PROBE") != "" {
		for _, f := range c06.Families() {
			r := c06.Emit(f.C)
			fmt.Printf("%-50s => %s\n", f.Name, r.Desc)
		}
		return
	}
	u.Main(func(dir string, seed uint64, n int, tier string) error { return c06.Run(dir, seed, n, tier) })
}
