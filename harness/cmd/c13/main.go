// c13 drives the real framework.Statement with generated command programs and
// real scheduling cycles (correspondence check and monitor for property C13).
package main

import (
	"kaiverif/internal/c13"
	u "kaiverif/internal/util"
)

func main() {
	u.Main(func(dir string, seed uint64, n int, tier string) error { return c13.Run(dir, seed, n, tier) })
}
