// c19 drives admission validation/mutation and the scheduler's GPU-request
// typing on generated pods (correspondence check for property C19).
package main

import (
	"kaiverif/internal/c19"
	u "kaiverif/internal/util"
)

func main() {
	u.Main(func(dir string, seed uint64, n int, tier string) error { return c19.Run(dir, seed, n) })
}
