// c15 runs bounded closed-system histories of the real scheduler with lasso
// detection (exploration for property C15).
//
//	c15 -dir D -seed S -n N -tier quick|thorough     the check's driver
//	c15 -probe NAME                                   print the trace of a built-in scenario
//	c15 -explore class|general|hier|hierfam|sized|sizedfam [-n N -seed S] [-v]    statistics over random worlds
//
// -probe NAME: a corpus world, gen:<seed>:<i>, hier:<seed>:<k>, hierfam:<k>, sized:<seed>:<k>, sizedfam:<k>, file:<world.json>;
// C15_LOG=<level> scheduler logs, C15_REPEAT=<k> lasso count over k runs, C15_DUMP=1 the world as JSON.
package main

import (
	"flag"
	"fmt"

	"kaiverif/internal/c15"
	u "kaiverif/internal/util"
)

func main() {
	probe := flag.String("probe", "", "print the trace of a named built-in scenario and exit")
	explore := flag.String("explore", "", "class|general: run -n random worlds of the stream and print statistics")
	verbose := flag.Bool("v", false, "verbose exploration")
	hier := flag.Int("hier", -1, "number of RANDOM hierarchical worlds appended to the run (-1: quick tier 0, thorough tier n/5)")
	sized := flag.Int("sized", -1, "number of RANDOM sized worlds (gpu-memory / multi-device / elastic jobs) appended to the run (-1: quick tier n/10, thorough tier n/5)")
	u.Main(func(dir string, seed uint64, n int, tier string) error {
		if *probe != "" {
			fmt.Print(c15.Probe(*probe))
			return nil
		}
		if *explore != "" {
			fmt.Print(c15.Explore(*explore, seed, n, *verbose))
			return nil
		}
		return c15.RunAll(dir, seed, n, tier, *hier, *sized)
	})
}
