// cycle runs the real scheduler actions on generated clusters (cycle-level
// correspondence check and monitors for C01, C02, C03, ...).
// Usage: cycle -prop C01 -dir D -seed S -n N
package main

import (
	"flag"
	"fmt"
	"os"

	"kaiverif/internal/cycle"
)

func main() {
	prop := flag.String("prop", "C01", "property whose Run module evaluates the cases")
	dir := flag.String("dir", ".", "output directory")
	seed := flag.Uint64("seed", 1, "PRNG seed")
	n := flag.Int("n", 100, "number of generated clusters")
	_ = flag.String("tier", "quick", "quick|thorough")
	flag.Parse()
	if err := cycle.Run(*dir, *prop, *seed, *n); err != nil {
		fmt.Fprintln(os.Stderr, "driver error:", err)
		os.Exit(3)
	}
}
