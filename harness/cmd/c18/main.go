// c18 drives the real pod-grouper on the fake client (correspondence check for property C18).
package main

import (
	"kaiverif/internal/c18"
	u "kaiverif/internal/util"
)

func main() {
	u.Main(func(dir string, seed uint64, n int, tier string) error { return c18.Run(dir, seed, n, tier) })
}
