// c02 is C02's driver: the cycle-level streams of internal/cycle (decision cases, fault cycles, cycles: the same cases
// as `cycle -prop C02`, sessions run on several goroutines) plus the what-if stream of internal/c02 (same-node
// GPU-group moves inside solver scenarios that are rolled back and followed by further placements on the node).
// Usage: c02 -dir D -seed S -n N [-tier quick|thorough] [-probe | -whatif-only | -sequential]
package main

import (
	"flag"
	"fmt"
	"os"

	"kaiverif/internal/c02"
	"kaiverif/internal/cycle"
	u "kaiverif/internal/util"
)

func main() {
	_ = flag.String("prop", "C02", "ignored (kept for the common driver command line)")
	dir := flag.String("dir", ".", "output directory")
	seed := flag.Uint64("seed", 1, "PRNG seed")
	n := flag.Int("n", 100, "number of generated clusters")
	_ = flag.String("tier", "quick", "quick|thorough")
	probe := flag.Bool("probe", false, "print the what-if stream's labels instead of writing cases (debugging)")
	only := flag.Bool("whatif-only", false, "emit only the what-if stream (debugging)")
	sequential := flag.Bool("sequential", false, "run the sessions one after the other through cycle.Run (debugging)")
	flag.Parse()
	if *probe {
		c02.Stream(u.NewRng(*seed), *n, func(term, label string, counts []string, nontrivial bool) {
			fmt.Println(label)
			fmt.Println("   ", counts)
		})
		return
	}
	if *only {
		out := u.NewOut(*dir, "C02", "KaiV.Run.C02", "c02case", 40)
		out.Flags = true
		out.Stats["rule"] = c02.Rule
		c02.Stream(u.NewRng(*seed), *n, func(term, label string, counts []string, nontrivial bool) {
			out.Add(term, label)
			for _, c := range counts {
				out.Count(c)
			}
			if nontrivial {
				out.NonTrivial(label)
			}
		})
		if err := out.Flush(); err != nil {
			fmt.Fprintln(os.Stderr, "driver error:", err)
			os.Exit(3)
		}
		return
	}
	if *sequential {
		// the same run through cycle.Run (sessions one after the other): used to compare the two drivers
		cycle.ExtraStreams["C02"] = func(out *u.Out, root *u.Rng, n int) error {
			c02.Stream(root, n, func(term, label string, counts []string, nontrivial bool) {
				out.Add(term, label)
				for _, c := range counts {
					out.Count(c)
				}
				if nontrivial {
					out.NonTrivial(label)
				}
			})
			return nil
		}
		if err := cycle.Run(*dir, "C02", *seed, *n); err != nil {
			fmt.Fprintln(os.Stderr, "driver error:", err)
			os.Exit(3)
		}
		return
	}
	if err := c02.Run(*dir, *seed, *n); err != nil {
		fmt.Fprintln(os.Stderr, "driver error:", err)
		os.Exit(3)
	}
}
