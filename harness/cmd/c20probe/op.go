package main

import (
	"context"
	"fmt"
	"strings"

	"k8s.io/apimachinery/pkg/api/meta"
	"sigs.k8s.io/controller-runtime/pkg/client/apiutil"

	nvidiav1 "github.com/NVIDIA/gpu-operator/api/nvidia/v1"
	monitoringv1 "github.com/prometheus-operator/prometheus-operator/pkg/apis/monitoring/v1"
	apiextensionsv1 "k8s.io/apiextensions-apiserver/pkg/apis/apiextensions/v1"
	metav1 "k8s.io/apimachinery/pkg/apis/meta/v1"
	"k8s.io/apimachinery/pkg/runtime"
	clientgoscheme "k8s.io/client-go/kubernetes/scheme"
	"sigs.k8s.io/controller-runtime/pkg/client"
	"sigs.k8s.io/controller-runtime/pkg/client/fake"
	"sigs.k8s.io/controller-runtime/pkg/client/interceptor"

	kaiv1 "github.com/NVIDIA/KAI-scheduler/pkg/apis/kai/v1"
	"github.com/NVIDIA/KAI-scheduler/pkg/operator/controller"
	"github.com/NVIDIA/KAI-scheduler/pkg/operator/operands"
	"github.com/NVIDIA/KAI-scheduler/pkg/operator/operands/deployable"
	"github.com/NVIDIA/KAI-scheduler/pkg/operator/operands/known_types"
)

func operatorProbe() {
	scheme := runtime.NewScheme()
	_ = clientgoscheme.AddToScheme(scheme)
	_ = kaiv1.AddToScheme(scheme)
	_ = apiextensionsv1.AddToScheme(scheme)
	_ = monitoringv1.AddToScheme(scheme)
	_ = nvidiav1.AddToScheme(scheme)
	ctx := context.Background()
	for i, op := range controller.ConfigReconcilerOperands {
		func() {
			defer func() {
				if r := recover(); r != nil {
					fmt.Println("operand", i, op.Name(), "PANIC", r)
				}
			}()
			kaiConfig := &kaiv1.Config{
				TypeMeta:   metav1.TypeMeta{Kind: "Config", APIVersion: kaiv1.GroupVersion.String()},
				ObjectMeta: metav1.ObjectMeta{Name: "kai-config", UID: "uid-1"},
			}
			kaiConfig.Spec.SetDefaultsWhereNeeded()
			var log []string
			b := fake.NewClientBuilder().WithScheme(scheme).WithObjects(kaiConfig.DeepCopy()).
				WithInterceptorFuncs(interceptor.Funcs{
					Create: func(ctx context.Context, c client.WithWatch, obj client.Object, opts ...client.CreateOption) error {
						log = append(log, "create "+obj.GetObjectKind().GroupVersionKind().Kind+"/"+obj.GetName())
						return c.Create(ctx, obj, opts...)
					},
					Update: func(ctx context.Context, c client.WithWatch, obj client.Object, opts ...client.UpdateOption) error {
						log = append(log, "update "+obj.GetObjectKind().GroupVersionKind().Kind+"/"+obj.GetName())
						return c.Update(ctx, obj, opts...)
					},
					List: func(ctx context.Context, c client.WithWatch, list client.ObjectList, opts ...client.ListOption) error {
						if err := c.List(ctx, list, opts...); err != nil {
							return err
						}
						gvk, err := apiutil.GVKForObject(list, scheme)
						if err != nil {
							return err
						}
						gvk.Kind = strings.TrimSuffix(gvk.Kind, "List")
						return meta.EachListItem(list, func(o runtime.Object) error {
							o.GetObjectKind().SetGroupVersionKind(gvk)
							return nil
						})
					},
					Get: func(ctx context.Context, c client.WithWatch, key client.ObjectKey, obj client.Object, opts ...client.GetOption) error {
						if err := c.Get(ctx, key, obj, opts...); err != nil {
							return err
						}
						gvk, err := apiutil.GVKForObject(obj, scheme)
						if err != nil {
							return err
						}
						obj.GetObjectKind().SetGroupVersionKind(gvk)
						return nil
					},
					Delete: func(ctx context.Context, c client.WithWatch, obj client.Object, opts ...client.DeleteOption) error {
						log = append(log, "delete "+obj.GetObjectKind().GroupVersionKind().Kind+"/"+obj.GetName())
						return c.Delete(ctx, obj, opts...)
					},
				})
			for _, col := range known_types.KAIConfigRegisteredCollectible {
				if col.InitWithFakeClientBuilder != nil {
					col.InitWithFakeClientBuilder(b)
				}
			}
			cl := b.Build()
			d := deployable.New([]operands.Operand{op}, known_types.KAIConfigRegisteredCollectible)
			for k := 0; k < 3; k++ {
				log = nil
				err := d.Deploy(ctx, cl, kaiConfig, kaiConfig)
				fmt.Println("operand", i, op.Name(), "deploy", k, "err", err, "calls", len(log), log)
			}
		}()
	}
}
