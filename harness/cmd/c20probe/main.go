// temporary probe (deleted before delivery)
package main

import (
	"context"
	"encoding/json"
	"fmt"

	v1 "k8s.io/api/core/v1"
	schedulingv1 "k8s.io/api/scheduling/v1"
	"k8s.io/apimachinery/pkg/api/meta"
	"k8s.io/apimachinery/pkg/api/resource"
	metav1 "k8s.io/apimachinery/pkg/apis/meta/v1"
	"k8s.io/apimachinery/pkg/runtime"
	"k8s.io/apimachinery/pkg/types"
	clientgoscheme "k8s.io/client-go/kubernetes/scheme"
	"k8s.io/client-go/rest"
	ctrl "sigs.k8s.io/controller-runtime"
	"sigs.k8s.io/controller-runtime/pkg/cache"
	"sigs.k8s.io/controller-runtime/pkg/cache/informertest"
	"sigs.k8s.io/controller-runtime/pkg/client"
	"sigs.k8s.io/controller-runtime/pkg/client/fake"
	"sigs.k8s.io/controller-runtime/pkg/client/interceptor"
	metricsserver "sigs.k8s.io/controller-runtime/pkg/metrics/server"
	"net/http"

	v2 "github.com/NVIDIA/KAI-scheduler/pkg/apis/scheduling/v2"
	"github.com/NVIDIA/KAI-scheduler/pkg/apis/scheduling/v2alpha2"
	pgc "github.com/NVIDIA/KAI-scheduler/pkg/podgroupcontroller/controllers"
	"github.com/NVIDIA/KAI-scheduler/pkg/podgroupcontroller/controllers/cluster_relations"
	qcommon "github.com/NVIDIA/KAI-scheduler/pkg/queuecontroller/common"
	qc "github.com/NVIDIA/KAI-scheduler/pkg/queuecontroller/controllers"
	qmetrics "github.com/NVIDIA/KAI-scheduler/pkg/queuecontroller/metrics"
)

func main() {
	scheme := runtime.NewScheme()
	_ = clientgoscheme.AddToScheme(scheme)
	_ = v2.AddToScheme(scheme)
	_ = v2alpha2.AddToScheme(scheme)
	ctx := context.Background()

	calls := 0
	pg := &v2alpha2.PodGroup{ObjectMeta: metav1.ObjectMeta{Name: "pg", Namespace: "ns"},
		Spec: v2alpha2.PodGroupSpec{Queue: "q", Preemptibility: v2alpha2.NonPreemptible, PriorityClassName: "train"}}
	pod := &v1.Pod{ObjectMeta: metav1.ObjectMeta{Name: "p1", Namespace: "ns", Annotations: map[string]string{"pod-group-name": "pg"}},
		Spec:   v1.PodSpec{Containers: []v1.Container{{Name: "c", Resources: v1.ResourceRequirements{Requests: v1.ResourceList{"cpu": resource.MustParse("500m"), "nvidia.com/gpu": resource.MustParse("1")}}}}},
		Status: v1.PodStatus{Phase: v1.PodRunning}}
	pod2 := pod.DeepCopy()
	pod2.Name = "p2"
	pc := &schedulingv1.PriorityClass{ObjectMeta: metav1.ObjectMeta{Name: "train"}, Value: 50}
	cl := fake.NewClientBuilder().WithScheme(scheme).WithObjects(pg, pod, pod2, pc).
		WithStatusSubresource(&v2alpha2.PodGroup{}, &v2.Queue{}).
		WithIndex(&v1.Pod{}, cluster_relations.PodGroupToPodsIndexer, cluster_relations.PodGroupNameIndexerFunc).
		WithInterceptorFuncs(interceptor.Funcs{
			SubResourcePatch: func(ctx context.Context, c client.Client, sub string, obj client.Object, patch client.Patch, opts ...client.SubResourcePatchOption) error {
				calls++
				d, _ := patch.Data(obj)
				fmt.Println("  PATCH", sub, obj.GetName(), string(d))
				return c.SubResource(sub).Patch(ctx, obj, patch, opts...)
			},
		}).Build()
	r := &pgc.PodGroupReconciler{Client: cl, Scheme: scheme}
	req := ctrl.Request{NamespacedName: types.NamespacedName{Name: "pg", Namespace: "ns"}}
	show := func() {
		g := &v2alpha2.PodGroup{}
		_ = cl.Get(ctx, req.NamespacedName, g)
		b, _ := json.Marshal(g.Status.ResourcesStatus)
		fmt.Println("  status", string(b), "rv", g.ResourceVersion)
	}
	for i := 0; i < 2; i++ {
		_, err := r.Reconcile(ctx, req)
		fmt.Println("reconcile", err, "calls", calls)
		show()
	}
	g := &v2alpha2.PodGroup{}
	_ = cl.Get(ctx, req.NamespacedName, g)
	g.Spec.Preemptibility = v2alpha2.Preemptible
	fmt.Println("update", cl.Update(ctx, g))
	for i := 0; i < 2; i++ {
		_, err := r.Reconcile(ctx, req)
		fmt.Println("reconcile", err, "calls", calls)
		show()
	}

	// queue reconciler through a manager that never talks to a server
	mapper := meta.NewDefaultRESTMapper(nil)
	mgr, err := ctrl.NewManager(&rest.Config{Host: "http://127.0.0.1:1"}, ctrl.Options{
		Scheme:                 scheme,
		Metrics:                metricsserver.Options{BindAddress: "0"},
		HealthProbeBindAddress: "0",
		MapperProvider:         func(c *rest.Config, h *http.Client) (meta.RESTMapper, error) { return mapper, nil },
		NewCache:               func(c *rest.Config, o cache.Options) (cache.Cache, error) { return &informertest.FakeInformers{Scheme: scheme}, nil },
		NewClient:              func(c *rest.Config, o client.Options) (client.Client, error) { return cl, nil },
	})
	fmt.Println("manager", err)
	qcl := fake.NewClientBuilder().WithScheme(scheme).
		WithObjects(&v2.Queue{ObjectMeta: metav1.ObjectMeta{Name: "root"}},
			&v2.Queue{ObjectMeta: metav1.ObjectMeta{Name: "q"}, Spec: v2.QueueSpec{ParentQueue: "root"}}).
		WithStatusSubresource(&v2alpha2.PodGroup{}, &v2.Queue{}).
		WithIndex(&v2.Queue{}, qcommon.ParentQueueIndexName, func(o client.Object) []string {
			q := o.(*v2.Queue)
			if q.Spec.ParentQueue == "" {
				return []string{}
			}
			return []string{q.Spec.ParentQueue}
		}).
		WithIndex(&v2alpha2.PodGroup{}, qcommon.PodGroupQueueIndexName, func(o client.Object) []string {
			p := o.(*v2alpha2.PodGroup)
			if p.Spec.Queue == "" {
				return []string{}
			}
			return []string{p.Spec.Queue}
		}).
		WithInterceptorFuncs(interceptor.Funcs{
			SubResourcePatch: func(ctx context.Context, c client.Client, sub string, obj client.Object, patch client.Patch, opts ...client.SubResourcePatchOption) error {
				d, _ := patch.Data(obj)
				fmt.Println("  QPATCH", sub, obj.GetName(), string(d))
				return c.SubResource(sub).Patch(ctx, obj, patch, opts...)
			},
		}).Build()
	g2 := &v2alpha2.PodGroup{}
	_ = cl.Get(ctx, req.NamespacedName, g2)
	g2.ResourceVersion = ""
	fmt.Println("create pg in qcl", qcl.Create(ctx, g2))
	qmetrics.InitMetrics("kai", nil, nil)
	qr := &qc.QueueReconciler{Client: qcl, Scheme: scheme}
	fmt.Println("setup", qr.SetupWithManager(mgr, true))
	for _, n := range []string{"root", "q", "root", "root"} {
		_, err := qr.Reconcile(ctx, ctrl.Request{NamespacedName: types.NamespacedName{Name: n}})
		q := &v2.Queue{}
		_ = qcl.Get(ctx, types.NamespacedName{Name: n}, q)
		b, _ := json.Marshal(q.Status)
		fmt.Println("qreconcile", n, err, string(b), q.ResourceVersion)
	}
	operatorProbe()
}
