// c16 drives the real PriorityQueue, JobsOrderByQueues and allocate action on
// generated programs and clusters (correspondence check + monitor for property C16).
package main

import (
	"kaiverif/internal/c16"
	u "kaiverif/internal/util"
)

func main() {
	u.Main(func(dir string, seed uint64, n int, tier string) error { return c16.Run(dir, seed, n, tier) })
}
