// c05 drives the real allocate / reclaim / preempt actions on generated
// clusters (work conservation, progress in the interchangeable class,
// scheduling-signature shortcut) and emits Coq cases for Run/C05.v.
package main

import (
	"flag"

	"kaiverif/internal/c05"
	u "kaiverif/internal/util"
)

func main() {
	worker := flag.String("worker", "", "internal: k/w = compute the cases with index k mod w")
	u.Main(func(dir string, seed uint64, n int, tier string) error {
		if *worker != "" {
			return c05.Worker(dir, seed, n, *worker)
		}
		return c05.Run(dir, seed, n, tier)
	})
}
