// c01 is C01's driver: the cycle-level streams of internal/cycle (cycles, fault cycles, decision cases, the 80
// status rows) plus the snapshot stream of internal/c01snap (real ClusterInfo.Snapshot over fake clientsets
// followed by one real allocate action) and the request stream of internal/c01snap/request.go (the scheduler's reading
// of a pod's request against k8s.io/component-helpers/resource.PodRequests, plus packing worlds).
// Usage: c01 -dir D -seed S -n N [-tier quick|thorough] [-prop C01]
package main

import (
	"flag"
	"fmt"
	"os"

	"kaiverif/internal/c01snap"
	"kaiverif/internal/cycle"
	u "kaiverif/internal/util"
)

func main() {
	prop := flag.String("prop", "C01", "property whose Run module evaluates the cases")
	dir := flag.String("dir", ".", "output directory")
	seed := flag.Uint64("seed", 1, "PRNG seed")
	n := flag.Int("n", 100, "number of generated clusters")
	_ = flag.String("tier", "quick", "quick|thorough")
	only := flag.Bool("snapshot-only", false, "emit only the snapshot stream (debugging)")
	flag.Parse()
	snap := func(out *u.Out, root *u.Rng, n int) error {
		c01snap.FaultCorpus(func(term, label string) {
			out.Add(term, label)
			out.Count("fault-corpus-cycles")
			out.NonTrivial(label)
		})
		err := c01snap.Stream(root, n/2, func(term, label string, counts []string, nontrivial bool) {
			out.Add(term, label)
			out.Count("snapshot-worlds")
			for _, c := range counts {
				out.Count(c)
			}
			if nontrivial {
				out.NonTrivial(label)
			}
		})
		if err != nil {
			return err
		}
		out.Stats["rule"] = out.Stats["rule"].(string) + " " + c01snap.Rule
		// request stream: the scheduler's reading of a pod's request against the Kubernetes rule, plus packing worlds
		err = c01snap.RequestStream(root, n, n/8, func(term, label string, counts []string) {
			out.Add(term, label)
			for _, c := range counts {
				out.Count(c)
			}
			out.NonTrivial(label)
		})
		if err == nil {
			out.Stats["rule"] = out.Stats["rule"].(string) + " " + c01snap.RequestRule
		}
		return err
	}
	if *only {
		out := u.NewOut(*dir, "C01", "KaiV.Run.C01", "c01case", 40)
		out.Flags = true
		out.Stats["rule"] = ""
		if err := snap(out, u.NewRng(*seed), *n); err != nil {
			fmt.Fprintln(os.Stderr, "driver error:", err)
			os.Exit(3)
		}
		if err := out.Flush(); err != nil {
			fmt.Fprintln(os.Stderr, "driver error:", err)
			os.Exit(3)
		}
		return
	}
	cycle.ExtraStreams["C01"] = snap
	if err := cycle.Run(*dir, *prop, *seed, *n); err != nil {
		fmt.Fprintln(os.Stderr, "driver error:", err)
		os.Exit(3)
	}
}
