// c12 drives the real BindRequest reconciler (fake client, binder stub) and the
// real scheduler cache (Bind, Snapshot + stale bind-request cleanup) on shared
// object sets over generated histories (correspondence check for property C12).
package main

import (
	"kaiverif/internal/c12"
	u "kaiverif/internal/util"
)

func main() {
	u.Main(func(dir string, seed uint64, n int, tier string) error { return c12.Run(dir, seed, n, tier) })
}
