// Package c13 drives the real framework.Statement (Evict / Pipeline / Allocate /
// Unevict / Checkpoint / Rollback / Discard / Commit /
// ConvertAllAllocatedToPipelined) with generated command programs over sessions
// assembled by cycle.Build, dumps the full projection of the real session
// after every command, and emits the programs as Coq cases for Run/C13.v
// (property C13: what-if simulations are transactional).
package c13

import (
	"errors"
	"fmt"
	"math"
	"sort"
	"strings"

	v1 "k8s.io/api/core/v1"

	"github.com/NVIDIA/KAI-scheduler/pkg/scheduler/api/common_info"
	"github.com/NVIDIA/KAI-scheduler/pkg/scheduler/api/eviction_info"
	"github.com/NVIDIA/KAI-scheduler/pkg/scheduler/api/pod_info"
	"github.com/NVIDIA/KAI-scheduler/pkg/scheduler/api/pod_status"
	"github.com/NVIDIA/KAI-scheduler/pkg/scheduler/api/podgroup_info"
	"github.com/NVIDIA/KAI-scheduler/pkg/scheduler/api/resource_info"
	"github.com/NVIDIA/KAI-scheduler/pkg/scheduler/cache"
	"github.com/NVIDIA/KAI-scheduler/pkg/scheduler/framework"
	rs "github.com/NVIDIA/KAI-scheduler/pkg/scheduler/plugins/proportion/resource_share"
	putils "github.com/NVIDIA/KAI-scheduler/pkg/scheduler/plugins/proportion/utils"

	"kaiverif/internal/core"
	"kaiverif/internal/cycle"
	u "kaiverif/internal/util"
)

// ---- recording, fault-injecting cache ---------------------------------------

type acall struct {
	Kind      string
	Pod, Node string
	Groups    []string
}

type fcache struct {
	cache.Cache
	n     int
	fails map[int]bool
	calls []acall
}

func (f *fcache) next() bool { i := f.n; f.n++; return f.fails[i] }

func (f *fcache) Bind(p *pod_info.PodInfo, hostname string, _ map[string]string) error {
	f.calls = append(f.calls, acall{"bind", string(p.UID), hostname, append([]string{}, p.GPUGroups...)})
	if f.next() {
		return errors.New("injected bind failure")
	}
	return nil
}

func (f *fcache) Evict(pod *v1.Pod, _ *podgroup_info.PodGroupInfo, _ eviction_info.EvictionMetadata, _ string) error {
	f.calls = append(f.calls, acall{Kind: "evict", Pod: string(pod.UID)})
	if f.next() {
		return errors.New("injected evict failure")
	}
	return nil
}

func (f *fcache) TaskPipelined(t *pod_info.PodInfo, _ string) {
	f.calls = append(f.calls, acall{"pipe", string(t.UID), t.NodeName, append([]string{}, t.GPUGroups...)})
	f.next()
}

// ---- world --------------------------------------------------------------------

type cmdSpec struct {
	Kind      string // evict pipeline allocate unevict checkpoint rollback discard commit convert
	Pod, Node string
	Groups    []string
	HasGroups bool
	Upd       bool
	Cp        int
	Job       string
	// Stale (evict only): pass Statement.Evict not the job's current object but a copy of the pod taken when the
	// world was built (what the scenario solvers do: RecordedVictimsTasks / potentialVictimsTasks hold their own
	// PodInfo objects, whose Status does not follow the statement)
	Stale bool
}

func (c cmdSpec) String() string {
	switch c.Kind {
	case "evict", "unevict":
		if c.Stale {
			return fmt.Sprintf("%s(%s~stale-copy)", c.Kind, c.Pod)
		}
		return fmt.Sprintf("%s(%s)", c.Kind, c.Pod)
	case "pipeline":
		g := ""
		if c.HasGroups {
			g = fmt.Sprintf("%v", c.Groups)
		}
		return fmt.Sprintf("pipeline(%s->%s%s,upd=%v)", c.Pod, c.Node, g, c.Upd)
	case "allocate":
		g := ""
		if c.HasGroups {
			g = fmt.Sprintf("%v", c.Groups)
		}
		return fmt.Sprintf("allocate(%s->%s%s)", c.Pod, c.Node, g)
	case "rollback":
		return fmt.Sprintf("rollback(%d)", c.Cp)
	case "convert":
		return fmt.Sprintf("convert(%s)", c.Job)
	}
	return c.Kind
}

type world struct {
	c      cycle.Cluster
	b      *cycle.Built
	ids    *core.Ids
	fc     *fcache
	stmt   *framework.Statement
	jobOf  map[string]string
	pods   []string // in id order
	nodes  []string
	static map[string]*pod_info.PodInfo // the objects the snapshot was built from (for static attributes only)
	copies map[string]*pod_info.PodInfo // a clone of every pod as it was when the world was built (cmdSpec.Stale)
	fresh  int
}

func newWorld(c cycle.Cluster, fails map[int]bool) *world {
	w := &world{c: c, ids: core.NewIds(), jobOf: map[string]string{}, static: map[string]*pod_info.PodInfo{}, copies: map[string]*pod_info.PodInfo{}}
	w.b = cycle.Build(c)
	w.fc = &fcache{Cache: w.b.Ssn.Cache, fails: fails}
	w.b.Ssn.Cache = w.fc
	for _, n := range c.Nodes {
		w.ids.Of("n:" + n.Name)
		w.nodes = append(w.nodes, n.Name)
	}
	for _, j := range c.Jobs {
		w.ids.Of("j:" + j.Name)
		for _, p := range j.Pods {
			w.ids.Of("p:" + p.Name)
			w.jobOf[p.Name] = j.Name
			w.pods = append(w.pods, p.Name)
			w.static[p.Name] = w.b.Tasks[p.Name]
			if t := w.b.Tasks[p.Name]; t != nil {
				w.copies[p.Name] = t.Clone()
			}
		}
	}
	for _, j := range c.Jobs {
		job := w.b.Jobs[common_info.PodGroupID(j.Name)]
		for _, n := range sortedKeys(job.PodSets) {
			w.ids.Of("s:" + j.Name + "/" + n)
		}
	}
	for _, q := range w.queueNames() {
		w.ids.Of("q:" + q)
	}
	w.stmt = w.b.Ssn.Statement()
	return w
}

func sortedKeys[V any](m map[string]V) []string {
	ks := make([]string, 0, len(m))
	for k := range m {
		ks = append(ks, k)
	}
	sort.Strings(ks)
	return ks
}

func (w *world) queueNames() []string {
	var ks []string
	for k := range w.b.Ssn.ClusterInfo.Queues {
		ks = append(ks, string(k))
	}
	sort.Strings(ks)
	return ks
}

func (w *world) job(pod string) *podgroup_info.PodGroupInfo {
	return w.b.Jobs[common_info.PodGroupID(w.jobOf[pod])]
}

// pod returns the job's current object for the pod (the statement may have replaced it by a clone).
func (w *world) pod(name string) *pod_info.PodInfo {
	j := w.job(name)
	if j == nil {
		return nil
	}
	return j.GetAllPodsMap()[common_info.PodID(name)]
}

func exact(f float64) int64 {
	i := int64(f)
	if float64(i) != f {
		panic(fmt.Sprintf("non-integral quantity %v", f))
	}
	return i
}

// milli converts a GPU quantity to thousandths; GPU portions are two-decimal numbers, so the product is integral up to
// float noise (anything further away is refused).
func milli(g float64) int64 {
	x := g * 1000
	r := math.Round(x)
	if math.Abs(x-r) > 1e-6 {
		panic(fmt.Sprintf("GPU quantity %v is not a multiple of 0.001", g))
	}
	return int64(r)
}

func res3(cpu, mem, gpus float64) string {
	return core.Res{Cpu: exact(cpu), Mem: exact(mem), Gpu: milli(gpus)}.Term()
}

var statuses = []pod_status.PodStatus{pod_status.Pending, pod_status.Gated, pod_status.Allocated, pod_status.Pipelined,
	pod_status.Binding, pod_status.Bound, pod_status.Running, pod_status.Releasing, pod_status.Succeeded,
	pod_status.Failed, pod_status.Unknown, pod_status.Deleted}

type kv struct {
	k    int
	term string
}

func amap(xs []kv) string {
	sort.Slice(xs, func(i, j int) bool { return xs[i].k < xs[j].k })
	out := make([]string, len(xs))
	for i, x := range xs {
		out[i] = u.Pair(u.Pos(x.k), x.term)
	}
	return u.List(out)
}

func (w *world) nodeOpt(name string) string {
	if name == "" {
		return "None"
	}
	if _, ok := w.b.Nodes[name]; !ok {
		return "None"
	}
	return u.Opt(true, u.Pos(w.ids.Of("n:"+name)))
}

// dump sections of the real session
type dump struct {
	nodes              map[string]string
	pods, jobs, queues string
}

func (w *world) dump() dump {
	d := dump{nodes: map[string]string{}}
	for name, ni := range w.b.Nodes {
		d.nodes[name] = core.NodeObs(w.ids, ni)
	}
	var ps, js, qs []kv
	for _, name := range w.pods {
		t := w.pod(name)
		if t == nil {
			continue
		}
		ps = append(ps, kv{w.ids.Of("p:" + name), fmt.Sprintf("(mkPV %s %s %s %s)", core.StatusTerm(t.Status),
			w.nodeOpt(t.NodeName), core.Groups(w.ids, t.GPUGroups), u.Bool(t.IsVirtualStatus))})
	}
	for _, j := range w.c.Jobs {
		job := w.b.Jobs[common_info.PodGroupID(j.Name)]
		idx := make([]string, len(statuses))
		for i, s := range statuses {
			idx[i] = u.Z(int64(len(job.PodStatusIndex[s])))
		}
		var pss []kv
		for _, n := range sortedKeys(job.PodSets) {
			p := job.PodSets[n]
			pss = append(pss, kv{w.ids.Of("s:" + j.Name + "/" + n), fmt.Sprintf("(mkPSV %s %s %s %s %s)",
				u.Z(int64(p.GetNumActiveAllocatedTasks())), u.Z(int64(p.GetNumActiveUsedTasks())), u.Z(int64(p.GetNumAliveTasks())),
				u.Z(int64(p.GetNumPendingTasks())), u.Z(int64(p.GetNumGatedTasks())))})
		}
		js = append(js, kv{w.ids.Of("j:" + j.Name), fmt.Sprintf("(mkOJ %s %s %s %s)",
			res3(job.Allocated.Cpu(), job.Allocated.Memory(), job.Allocated.GPUs()),
			u.Z(int64(job.GetActiveAllocatedTasksCount())), u.List(idx), amap(pss))})
	}
	for _, q := range w.queueNames() {
		qi := w.b.Ssn.ClusterInfo.Queues[common_info.QueueID(q)]
		rr := w.b.Ssn.QueueAllocatedResources(qi)
		qs = append(qs, kv{w.ids.Of("q:" + q), res3(rr.Cpu(), rr.Memory(), rr.GPUs())})
	}
	d.pods, d.jobs, d.queues = amap(ps), amap(js), amap(qs)
	return d
}

func (w *world) fullDumpTerm(d dump) string {
	var ns []kv
	for name, t := range d.nodes {
		ns = append(ns, kv{w.ids.Of("n:" + name), t})
	}
	return fmt.Sprintf("(mkOD %s %s %s %s)", amap(ns), d.pods, d.jobs, d.queues)
}

// perNode evaluates, with the real code, what NodeInfo.AddTask would make of the pod on each node of the
// cluster: the memory it takes on a device there and its accepted resources (queue charge).
func (w *world) perNode(t *pod_info.PodInfo) (gmem map[string]int64, acc map[string][3]float64) {
	gmem, acc = map[string]int64{}, map[string][3]float64{}
	for _, ns := range w.c.Nodes {
		ni := core.MkNode(ns, w.b.VM)
		c := t.Clone()
		c.Status = pod_status.Allocated
		if c.IsFractionCandidate() {
			c.GPUGroups = nil
			gmem[ns.Name] = ni.GetResourceGpuMemory(c.ResReq)
		}
		_ = ni.AddTask(c)
		qc := putils.QuantifyResourceRequirements(c.AcceptedResource)
		acc[ns.Name] = [3]float64{qc[rs.CpuResource], qc[rs.MemoryResource], qc[rs.GpuResource]}
	}
	return
}

// initTerm renders the model's initial session.
func (w *world) initTerm() string {
	ssn := w.b.Ssn
	var ns, ps, js, qs []kv
	for name, ni := range w.b.Nodes {
		var cp []kv
		for _, t := range ni.PodInfos {
			cp = append(cp, kv{w.ids.Of("p:" + string(t.UID)), core.TaskTerm(w.ids, t, ni)})
		}
		ns = append(ns, kv{w.ids.Of("n:" + name), core.NodeFullTerm(w.ids, ni, amap(cp))})
	}
	type usage struct{ a, np [3]float64 }
	use := map[string]*usage{}
	for _, q := range w.queueNames() {
		use[q] = &usage{}
	}
	for _, j := range w.c.Jobs {
		job := w.b.Jobs[common_info.PodGroupID(j.Name)]
		for _, p := range j.Pods {
			t := w.pod(p.Name)
			gm, ac := w.perNode(t)
			home := w.c.Nodes[0].Name
			if _, ok := w.b.Nodes[t.NodeName]; ok {
				home = t.NodeName
			}
			ni := w.b.Nodes[home]
			pset := podgroup_info.DefaultSubGroup
			if t.SubGroupName != "" {
				pset = t.SubGroupName
			}
			jr := resource_info.EmptyResource()
			jr.AddResourceRequirements(t.ResReq)
			q3 := ac[home]
			if t.AcceptedResource != nil && pod_status.IsActiveUsedStatus(t.Status) {
				qc := putils.QuantifyResourceRequirements(t.AcceptedResource)
				q3 = [3]float64{qc[rs.CpuResource], qc[rs.MemoryResource], qc[rs.GpuResource]}
			}
			var gt, qt []kv
			for _, ns := range w.c.Nodes {
				gt = append(gt, kv{w.ids.Of("n:" + ns.Name), u.Z(gm[ns.Name])})
				a := ac[ns.Name]
				qt = append(qt, kv{w.ids.Of("n:" + ns.Name), res3(a[0], a[1], a[2])})
			}
			ps = append(ps, kv{w.ids.Of("p:" + p.Name), fmt.Sprintf("(mkPod %s %s %s %s %s %s %s %s)", core.TaskTerm(w.ids, t, ni),
				w.nodeOpt(t.NodeName), u.Bool(t.IsVirtualStatus), u.Pos(w.ids.Of("s:"+j.Name+"/"+pset)),
				res3(jr.Cpu(), jr.Memory(), jr.GPUs()), res3(q3[0], q3[1], q3[2]), amap(gt), amap(qt))})
			if pod_status.AllocatedStatus(t.Status) {
				for q, ok := ssn.ClusterInfo.Queues[job.Queue]; ok; q, ok = ssn.ClusterInfo.Queues[q.ParentQueue] {
					us := use[string(q.UID)]
					for i := range q3 {
						us.a[i] += q3[i]
						if !job.IsPreemptibleJob() {
							us.np[i] += q3[i]
						}
					}
				}
			}
		}
		var idx, pss []kv
		for i, s := range statuses {
			if n := len(job.PodStatusIndex[s]); n > 0 {
				idx = append(idx, kv{i + 1, u.Z(int64(n))})
			}
		}
		for _, n := range sortedKeys(job.PodSets) {
			p := job.PodSets[n]
			pidx := u.List([]string{u.Pair(u.Pos(1), u.Z(int64(p.GetNumPendingTasks()))), u.Pair(u.Pos(2), u.Z(int64(p.GetNumGatedTasks())))})
			pss = append(pss, kv{w.ids.Of("s:" + j.Name + "/" + n), fmt.Sprintf("(mkPsc %s %s %s %s)",
				u.Z(int64(p.GetNumActiveAllocatedTasks())), u.Z(int64(p.GetNumActiveUsedTasks())), u.Z(int64(p.GetNumAliveTasks())), pidx)})
		}
		js = append(js, kv{w.ids.Of("j:" + j.Name), fmt.Sprintf("(mkJob %s %s %s %s %s %s)", u.Pos(w.ids.Of("q:"+string(job.Queue))),
			u.Bool(!job.IsPreemptibleJob()), res3(job.Allocated.Cpu(), job.Allocated.Memory(), job.Allocated.GPUs()),
			u.Z(int64(job.GetActiveAllocatedTasksCount())), amap(idx), amap(pss))})
	}
	for _, q := range w.queueNames() {
		qi := ssn.ClusterInfo.Queues[common_info.QueueID(q)]
		parent := "None"
		if _, ok := ssn.ClusterInfo.Queues[qi.ParentQueue]; ok {
			parent = u.Opt(true, u.Pos(w.ids.Of("q:"+string(qi.ParentQueue))))
		}
		us := use[q]
		qs = append(qs, kv{w.ids.Of("q:" + q), fmt.Sprintf("(mkQ %s %s %s)", parent, res3(us.a[0], us.a[1], us.a[2]), res3(us.np[0], us.np[1], us.np[2]))})
	}
	return fmt.Sprintf("(mkSess %s %s %s %s [] 0%%nat false)", amap(ns), amap(ps), amap(js), amap(qs))
}

func (w *world) cmdTerm(c cmdSpec) string {
	gs := "None"
	if c.HasGroups {
		gs = u.Opt(true, core.Groups(w.ids, c.Groups))
	}
	switch c.Kind {
	case "evict":
		return fmt.Sprintf("(Evict %s)", u.Pos(w.ids.Of("p:"+c.Pod)))
	case "unevict":
		return fmt.Sprintf("(Unevict %s)", u.Pos(w.ids.Of("p:"+c.Pod)))
	case "pipeline":
		return fmt.Sprintf("(Pipeline %s %s %s %s)", u.Pos(w.ids.Of("p:"+c.Pod)), u.Pos(w.ids.Of("n:"+c.Node)), gs, u.Bool(c.Upd))
	case "allocate":
		return fmt.Sprintf("(Allocate %s %s %s)", u.Pos(w.ids.Of("p:"+c.Pod)), u.Pos(w.ids.Of("n:"+c.Node)), gs)
	case "checkpoint":
		return "Checkpoint"
	case "rollback":
		return fmt.Sprintf("(Rollback %s)", u.Nat(c.Cp))
	case "discard":
		return "Discard"
	case "commit":
		return "Commit"
	case "convert":
		return fmt.Sprintf("(Convert %s)", u.Pos(w.ids.Of("j:"+c.Job)))
	}
	panic("unknown command " + c.Kind)
}

// exec runs one command on the real statement.
func (w *world) exec(c cmdSpec) (failed bool, ret int, panicked string) {
	defer func() {
		if r := recover(); r != nil {
			panicked = fmt.Sprint(r)
		}
	}()
	var err error
	switch c.Kind {
	case "evict":
		if t := w.pod(c.Pod); t != nil {
			if c.Stale && w.copies[c.Pod] != nil {
				t = w.copies[c.Pod]
			}
			err = w.stmt.Evict(t, "verif", eviction_info.EvictionMetadata{Action: "reclaim", EvictionGangSize: 1})
		} else {
			err = errors.New("no pod")
		}
	case "unevict":
		if t := w.pod(c.Pod); t != nil {
			err = w.stmt.Unevict(t)
		} else {
			err = errors.New("no pod")
		}
	case "pipeline":
		if t := w.pod(c.Pod); t != nil {
			if c.HasGroups {
				t.GPUGroups = append([]string{}, c.Groups...)
			}
			err = w.stmt.Pipeline(t, c.Node, c.Upd)
		} else {
			err = errors.New("no pod")
		}
	case "allocate":
		if t := w.pod(c.Pod); t != nil {
			if c.HasGroups {
				t.GPUGroups = append([]string{}, c.Groups...)
			}
			err = w.stmt.Allocate(t, c.Node)
		} else {
			err = errors.New("no pod")
		}
	case "checkpoint":
		ret = int(w.stmt.Checkpoint())
	case "rollback":
		err = w.stmt.Rollback(framework.Checkpoint(c.Cp))
	case "discard":
		w.stmt.Discard()
	case "commit":
		_ = w.stmt.Commit()
	case "convert":
		err = w.stmt.ConvertAllAllocatedToPipelined(common_info.PodGroupID(c.Job))
	}
	return err != nil, ret, ""
}

func (w *world) callsTerm(cs []acall) (string, []string) {
	out := make([]string, len(cs))
	desc := make([]string, len(cs))
	for i, c := range cs {
		switch c.Kind {
		case "bind":
			out[i] = fmt.Sprintf("(ABind %s %s %s)", u.Pos(w.ids.Of("p:"+c.Pod)), u.Pos(w.ids.Of("n:"+c.Node)), core.Groups(w.ids, c.Groups))
		case "evict":
			out[i] = fmt.Sprintf("(AEvict %s)", u.Pos(w.ids.Of("p:"+c.Pod)))
		case "pipe":
			out[i] = fmt.Sprintf("(APipe %s %s %s)", u.Pos(w.ids.Of("p:"+c.Pod)), w.nodeOpt(c.Node), core.Groups(w.ids, c.Groups))
		}
		desc[i] = c.Kind + ":" + c.Pod
	}
	return u.List(out), desc
}

// A driver decides the next command from the real state; nil ends the program.
type driver interface {
	next(w *world, step int) *cmdSpec
	wf() bool
}

type result struct {
	term, label string
	kinds       map[string]int
	nontrivial  bool
	panicked    string
	stale       int // rollbacks / discards after which a pod's GPU groups differ from the checkpoint
	steps       int
	// shapes inside one statement, counted on the operations still in the log (a rollback drops what it undoes):
	reEvict       int            // a pod is evicted again after it was un-evicted
	reUnevict     int            // ... and un-evicted again (evict, un-evict, evict, un-evict of one pod)
	reUnevictThen map[string]int // what ended the statement after such a second un-eviction
	// Evict applied to a pod that was already Releasing (no operation recorded): by what the pod was
	// (own-eviction: evicted earlier by this statement; terminating: Releasing before the statement), and what
	// came later in the same statement
	ignoredEvict map[string]int
	ignoredThen  map[string]int
}

func runCase(c cycle.Cluster, fails map[int]bool, d driver, maxSteps int) result {
	w := newWorld(c, fails)
	res := result{kinds: map[string]int{}}
	init := w.initTerm()
	prev := w.dump()
	d0 := w.fullDumpTerm(prev)
	var steps, descr []string
	// shadow of the log: kind of the command that appended each entry (for the non-triviality rule)
	var shadow []string
	cpDump := map[int]dump{}
	start := prev
	type evEvent struct {
		pos  int
		pod  string
		kind byte // 'E' evict, 'U' un-evict
	}
	var evs []evEvent
	pending2nd := false // the statement holds a second un-eviction of some pod
	res.reUnevictThen = map[string]int{}
	res.ignoredEvict, res.ignoredThen = map[string]int{}, map[string]int{}
	pendingIgnored := false // an Evict of a Releasing pod was issued in the current statement
	seqOf := func(pod string) string {
		b := []byte{}
		for _, e := range evs {
			if e.pod == pod {
				b = append(b, e.kind)
			}
		}
		return string(b)
	}
	for i := 0; i < maxSteps; i++ {
		cs := d.next(w, i)
		if cs == nil {
			break
		}
		before := int(w.stmt.Checkpoint())
		nc := len(w.fc.calls)
		wasEvicted, wasReleasing := false, false
		if cs.Pod != "" {
			if t := w.pod(cs.Pod); t != nil {
				wasReleasing = t.Status == pod_status.Releasing
				wasEvicted = wasReleasing && t.IsVirtualStatus
			}
		}
		failed, ret, pmsg := w.exec(*cs)
		if pmsg != "" {
			res.panicked = cs.String() + ": " + pmsg
			descr = append(descr, cs.String()+"!PANIC")
			break
		}
		after := int(w.stmt.Checkpoint())
		if !failed {
			switch cs.Kind {
			case "evict":
				if after == before {
					// nothing recorded: the pod was already Releasing
					k := "other"
					if wasEvicted {
						k = "own-eviction"
					} else if wasReleasing {
						k = "terminating"
					}
					if cs.Stale {
						k += "(stale copy passed)"
					}
					res.ignoredEvict[k]++
					pendingIgnored = true
					break
				}
				evs = append(evs, evEvent{before, cs.Pod, 'E'})
				if strings.HasSuffix(seqOf(cs.Pod), "EUE") {
					res.reEvict++
				}
			case "unevict", "pipeline":
				t := w.pod(cs.Pod)
				if wasEvicted && t != nil && !t.IsVirtualStatus && t.Status != pod_status.Releasing {
					evs = append(evs, evEvent{before, cs.Pod, 'U'})
					if strings.HasSuffix(seqOf(cs.Pod), "EUEU") {
						res.reUnevict++
						pending2nd = true
					}
				}
			case "rollback":
				k := 0
				for _, e := range evs {
					if e.pos < cs.Cp {
						evs[k] = e
						k++
					}
				}
				evs = evs[:k]
				if pending2nd {
					res.reUnevictThen["rollback"]++
				}
				if pendingIgnored {
					res.ignoredThen["rollback"]++
				}
			case "discard", "commit":
				evs = nil
				if pending2nd {
					res.reUnevictThen[cs.Kind]++
				}
				pending2nd = false
				if pendingIgnored {
					res.ignoredThen[cs.Kind]++
				}
				pendingIgnored = false
			}
			if pendingIgnored && (cs.Kind == "unevict" || cs.Kind == "pipeline") && wasEvicted {
				res.ignoredThen["unevict-or-replace"]++
			}
		}
		switch cs.Kind {
		case "rollback", "discard":
			cp := cs.Cp
			if cs.Kind == "discard" {
				cp = 0
			}
			if !failed && cp <= len(shadow) {
				ks := map[string]bool{}
				for _, k := range shadow[cp:] {
					ks[k] = true
				}
				if len(shadow)-cp >= 2 && len(ks) >= 2 {
					res.nontrivial = true
				}
				shadow = shadow[:cp]
			}
		case "commit":
			shadow = nil
		case "convert":
			shadow = shadow[:0]
			for k := 0; k < after; k++ {
				shadow = append(shadow, "pipeline")
			}
		default:
			for k := before; k < after; k++ {
				shadow = append(shadow, cs.Kind)
			}
		}
		now := w.dump()
		if cs.Kind == "checkpoint" {
			cpDump[ret] = now
		}
		if !failed && (cs.Kind == "rollback" || cs.Kind == "discard") {
			was, ok := cpDump[cs.Cp]
			if cs.Kind == "discard" {
				was, ok = start, true
			}
			if ok && was.pods != now.pods {
				res.stale++
			}
		}
		if cs.Kind == "discard" || cs.Kind == "commit" {
			start = now
			cpDump = map[int]dump{}
		}
		callsT, callsD := w.callsTerm(w.fc.calls[nc:])
		var ns []kv
		for name, t := range now.nodes {
			term := "None"
			if prev.nodes[name] != t {
				term = u.Opt(true, t)
			}
			ns = append(ns, kv{w.ids.Of("n:" + name), term})
		}
		sec := func(a, b string) string {
			if a == b {
				return "None"
			}
			return u.Opt(true, b)
		}
		errT := failed
		if cs.Kind == "commit" || cs.Kind == "discard" || cs.Kind == "checkpoint" {
			errT = false
		}
		steps = append(steps, fmt.Sprintf("(mkOS %s %s %s %s %s %s %s %s)", w.cmdTerm(*cs), u.Bool(errT), u.Nat(ret), callsT,
			amap(ns), sec(prev.pods, now.pods), sec(prev.jobs, now.jobs), sec(prev.queues, now.queues)))
		ds := cs.String()
		if failed {
			ds += "!err"
		}
		if len(callsD) > 0 {
			ds += "{" + strings.Join(callsD, ",") + "}"
		}
		descr = append(descr, ds)
		res.kinds[cs.Kind]++
		prev = now
		res.steps++
	}
	var fl []string
	var fli []int
	for i := range fails {
		fli = append(fli, i)
	}
	sort.Ints(fli)
	for _, i := range fli {
		fl = append(fl, u.Nat(i))
	}
	res.term = fmt.Sprintf("(KProg (mkPC %s %s %s %s %s))", init, u.List(fl), u.Bool(d.wf()), d0, u.List(steps))
	wfs := "wf"
	if !d.wf() {
		wfs = "nonwf"
	}
	res.label = fmt.Sprintf("%s fails%v %s :: %s", wfs, fli, cycle.Describe(c), strings.Join(descr, " "))
	return res
}
