// Package c13 drives the real framework.Statement (Evict / Pipeline / Allocate /
// Unevict / Checkpoint / Rollback / Discard / Commit /
// ConvertAllAllocatedToPipelined) with generated command programs over sessions
// assembled by cycle.Build, dumps the full projection of the real session
// after every command, and emits the programs as Coq cases for Run/C13.v
// (property C13: what-if simulations are transactional).
package c13

import (
	"errors"
	"fmt"
	"math"
	"os"
	"sort"
	"strconv"
	"strings"

	v1 "k8s.io/api/core/v1"

	"github.com/NVIDIA/KAI-scheduler/pkg/scheduler/api/common_info"
	"github.com/NVIDIA/KAI-scheduler/pkg/scheduler/api/eviction_info"
	"github.com/NVIDIA/KAI-scheduler/pkg/scheduler/api/pod_info"
	"github.com/NVIDIA/KAI-scheduler/pkg/scheduler/api/pod_status"
	"github.com/NVIDIA/KAI-scheduler/pkg/scheduler/api/podgroup_info"
	"github.com/NVIDIA/KAI-scheduler/pkg/scheduler/api/resource_info"
	"github.com/NVIDIA/KAI-scheduler/pkg/scheduler/cache"
	"github.com/NVIDIA/KAI-scheduler/pkg/scheduler/framework"
	rs "github.com/NVIDIA/KAI-scheduler/pkg/scheduler/plugins/proportion/resource_share"
	putils "github.com/NVIDIA/KAI-scheduler/pkg/scheduler/plugins/proportion/utils"

	"kaiverif/internal/core"
	"kaiverif/internal/cycle"
	u "kaiverif/internal/util"
)

// traceClaims (C13_TRACE_CLAIMS=1, by hand): the label shows the claims after every command of a DRA world.
var traceClaims = os.Getenv("C13_TRACE_CLAIMS") != ""

// ---- recording, fault-injecting cache ---------------------------------------

type acall struct {
	Kind      string
	Pod, Node string
	Groups    []string
	// Args: everything else the call hands to the cache, as integers (erasure clause: compared between the run of a
	// program and the run of the same program without its rolled back / discarded parts).
	//   bind:  received resource type, ReceivedGPU.Count, ReceivedGPU.Portion x 100 (as the BindRequest prints it,
	//          "%.2f"), accepted GPU memory, accepted resources as the proportion plugin quantifies them
	//          (cpu, memory, GPUs x 1000), number of DRA claim allocations, number and fingerprint of the
	//          bind-request annotations
	//   evict: fingerprints of the action, the preemptor and the message, the eviction gang size
	//   pipe:  fingerprint of the message
	Args []int64
	// Claims (bind, DRA worlds): the claim allocations of the pod handed to Bind - what the BindRequest carries -
	// as (claim id, device id) pairs
	Claims []int64
}

// fp is a fingerprint of a string (FNV-1a, 31 bits) so that free text fits the integer argument list.
func fp(s string) int64 {
	h := uint32(2166136261)
	for i := 0; i < len(s); i++ {
		h ^= uint32(s[i])
		h *= 16777619
	}
	return int64(h & 0x7fffffff)
}

func rtypeCode(t pod_info.ResourceReceivedType) int64 {
	switch t {
	case pod_info.ReceivedTypeNone:
		return 0
	case pod_info.ReceivedTypeRegular:
		return 1
	case pod_info.ReceivedTypeFraction:
		return 2
	case pod_info.ReceivedTypeMigInstance:
		return 3
	}
	return 9
}

// portion100 is ReceivedGPU.Portion as createBindRequest writes it ("%.2f"), times 100.
func portion100(f float64) int64 {
	v, err := strconv.ParseFloat(fmt.Sprintf("%.2f", f), 64)
	if err != nil {
		return -1
	}
	return int64(math.Round(v * 100))
}

// accepted renders what a pod carries as the result of NodeInfo.setAcceptedResources: received type, devices,
// portion x 100, GPU memory, and the quantities the proportion plugin charges for it.
func accepted(t *pod_info.PodInfo) []int64 {
	if t.AcceptedResource == nil {
		return []int64{rtypeCode(t.ResourceReceivedType), -1, -1, -1, -1, -1, -1}
	}
	qc := putils.QuantifyResourceRequirements(t.AcceptedResource)
	return []int64{rtypeCode(t.ResourceReceivedType), t.AcceptedResource.GetNumOfGpuDevices(),
		portion100(t.AcceptedResource.GpuFractionalPortion()), t.AcceptedResource.GpuMemory(),
		exact(qc[rs.CpuResource]), exact(qc[rs.MemoryResource]), milli(qc[rs.GpuResource])}
}

type fcache struct {
	cache.Cache
	n     int
	fails map[int]bool
	calls []acall
	// claimArgs: the DRA claim allocations of the pod handed to Bind (claim id, device id pairs), DRA worlds only
	claimArgs func(*pod_info.PodInfo) []int64
	// before: called at the start of every Cache call (solver stream, action mode: commit boundaries)
	before func()
}

func (f *fcache) next() bool { i := f.n; f.n++; return f.fails[i] }
func (f *fcache) hook() {
	if f.before != nil {
		f.before()
	}
}

func (f *fcache) Bind(p *pod_info.PodInfo, hostname string, ann map[string]string) error {
	f.hook()
	args := accepted(p)
	args = append(args, int64(len(p.ResourceClaimInfo.ToSlice())), int64(len(ann)))
	var kvs []string
	for k, v := range ann {
		kvs = append(kvs, k+"="+v)
	}
	sort.Strings(kvs)
	args = append(args, fp(strings.Join(kvs, ";")))
	var cl []int64
	if f.claimArgs != nil {
		cl = f.claimArgs(p)
	}
	f.calls = append(f.calls, acall{"bind", string(p.UID), hostname, append([]string{}, p.GPUGroups...), args, cl})
	if f.next() {
		return errors.New("injected bind failure")
	}
	return nil
}

func (f *fcache) Evict(pod *v1.Pod, _ *podgroup_info.PodGroupInfo, md eviction_info.EvictionMetadata, msg string) error {
	f.hook()
	pre := ""
	if md.Preemptor != nil {
		pre = md.Preemptor.String()
	}
	f.calls = append(f.calls, acall{Kind: "evict", Pod: string(pod.UID), Args: []int64{fp(md.Action), fp(pre), int64(md.EvictionGangSize), fp(msg)}})
	if f.next() {
		return errors.New("injected evict failure")
	}
	return nil
}

func (f *fcache) TaskPipelined(t *pod_info.PodInfo, msg string) {
	f.hook()
	f.calls = append(f.calls, acall{"pipe", string(t.UID), t.NodeName, append([]string{}, t.GPUGroups...), []int64{fp(msg)}, nil})
	f.next()
}

// ---- world --------------------------------------------------------------------

type cmdSpec struct {
	Kind      string // evict pipeline allocate unevict checkpoint rollback discard commit convert
	Pod, Node string
	Groups    []string
	HasGroups bool
	Upd       bool
	Cp        int
	Job       string
	// Stale (evict only): pass Statement.Evict not the job's current object but a copy of the pod taken when the
	// world was built (what the scenario solvers do: RecordedVictimsTasks / potentialVictimsTasks hold their own
	// PodInfo objects, whose Status does not follow the statement)
	Stale bool
}

func (c cmdSpec) String() string {
	switch c.Kind {
	case "evict", "unevict":
		if c.Stale {
			return fmt.Sprintf("%s(%s~stale-copy)", c.Kind, c.Pod)
		}
		return fmt.Sprintf("%s(%s)", c.Kind, c.Pod)
	case "pipeline":
		g := ""
		if c.HasGroups {
			g = fmt.Sprintf("%v", c.Groups)
		}
		return fmt.Sprintf("pipeline(%s->%s%s,upd=%v)", c.Pod, c.Node, g, c.Upd)
	case "allocate":
		g := ""
		if c.HasGroups {
			g = fmt.Sprintf("%v", c.Groups)
		}
		return fmt.Sprintf("allocate(%s->%s%s)", c.Pod, c.Node, g)
	case "rollback":
		return fmt.Sprintf("rollback(%d)", c.Cp)
	case "convert":
		return fmt.Sprintf("convert(%s)", c.Job)
	}
	return c.Kind
}

type world struct {
	c      cycle.Cluster
	b      *cycle.Built
	ids    *core.Ids
	fc     *fcache
	stmt   *framework.Statement
	jobOf  map[string]string
	pods   []string // in id order
	nodes  []string
	static map[string]*pod_info.PodInfo // the objects the snapshot was built from (for static attributes only)
	copies map[string]*pod_info.PodInfo // a clone of every pod as it was when the world was built (cmdSpec.Stale)
	fresh  int
	dra    *draSpec // DRA devices, claims and the pods' claim references (nil: a world without claims)
	// ledger: per queue, the net amount the allocate / deallocate events of this session carried so far (the
	// quantified AcceptedResource of the event's task, exactly what the proportion plugin adds to / takes from the
	// job's queue and its ancestors); read through an own event handler registered after the plugins'
	ledger map[string]*[3]float64
	// exactGpu: per queue (leaf queues and their ancestors), the GPU usage in thousandths computed in integers: the
	// charged quantities of the pods that held resources when the session was built, plus / minus the quantity every
	// allocate / deallocate event carried. The proportion plugin keeps the same sum in float64.
	exactGpu map[string]int64
	drift    int // dumps in which Session.QueueAllocatedResources was one whole GPU below the exact sum (float drift)
}

func newWorld(c cycle.Cluster, fails map[int]bool) *world { return newWorldD(c, nil, fails) }

func newWorldD(c cycle.Cluster, dra *draSpec, fails map[int]bool) *world {
	w := &world{c: c, ids: core.NewIds(), jobOf: map[string]string{}, static: map[string]*pod_info.PodInfo{}, copies: map[string]*pod_info.PodInfo{}, dra: dra}
	if dra != nil {
		w.b = buildDRA(c, dra)
	} else {
		w.b = cycle.Build(c)
	}
	w.fc = &fcache{Cache: w.b.Ssn.Cache, fails: fails}
	if dra != nil {
		w.fc.claimArgs = w.claimArgs
	}
	w.b.Ssn.Cache = w.fc
	for _, n := range c.Nodes {
		w.ids.Of("n:" + n.Name)
		w.nodes = append(w.nodes, n.Name)
	}
	for _, j := range c.Jobs {
		w.ids.Of("j:" + j.Name)
		for _, p := range j.Pods {
			w.ids.Of("p:" + p.Name)
			w.jobOf[p.Name] = j.Name
			w.pods = append(w.pods, p.Name)
			w.static[p.Name] = w.b.Tasks[p.Name]
			if t := w.b.Tasks[p.Name]; t != nil {
				w.copies[p.Name] = t.Clone()
			}
		}
	}
	for _, j := range c.Jobs {
		job := w.b.Jobs[common_info.PodGroupID(j.Name)]
		for _, n := range sortedKeys(job.PodSets) {
			w.ids.Of("s:" + j.Name + "/" + n)
		}
	}
	for _, q := range w.queueNames() {
		w.ids.Of("q:" + q)
	}
	w.registerClaimIds()
	w.ledger = map[string]*[3]float64{}
	w.exactGpu = map[string]int64{}
	for _, j := range c.Jobs {
		job := w.b.Jobs[common_info.PodGroupID(j.Name)]
		for _, ps := range j.Pods {
			if t := w.pod(ps.Name); t != nil && pod_status.AllocatedStatus(t.Status) {
				w.chargeChain(job.Queue, milli(w.chargeOf(t)[2]))
			}
		}
	}
	charge := func(sign float64) func(*framework.Event) {
		return func(e *framework.Event) {
			job := w.b.Ssn.ClusterInfo.PodGroupInfos[e.Task.Job]
			if job == nil {
				return
			}
			qc := putils.QuantifyResourceRequirements(e.Task.AcceptedResource)
			w.chargeChain(job.Queue, int64(sign)*milli(qc[rs.GpuResource]))
			l := w.ledger[string(job.Queue)]
			if l == nil {
				l = &[3]float64{}
				w.ledger[string(job.Queue)] = l
			}
			l[0] += sign * qc[rs.CpuResource]
			l[1] += sign * qc[rs.MemoryResource]
			l[2] += sign * qc[rs.GpuResource]
		}
	}
	w.b.Ssn.AddEventHandler(&framework.EventHandler{AllocateFunc: charge(1), DeallocateFunc: charge(-1)})
	w.stmt = w.b.Ssn.Statement()
	return w
}

// chargeOf is the quantity the proportion plugin has charged for a pod that holds resources: its accepted resources as
// the plugin quantifies them (for a pod whose node is not in the session: what AddTask on its home node would accept).
func (w *world) chargeOf(t *pod_info.PodInfo) [3]float64 {
	if t.AcceptedResource != nil && pod_status.IsActiveUsedStatus(t.Status) {
		qc := putils.QuantifyResourceRequirements(t.AcceptedResource)
		return [3]float64{qc[rs.CpuResource], qc[rs.MemoryResource], qc[rs.GpuResource]}
	}
	_, ac := w.perNode(t)
	home := w.c.Nodes[0].Name
	if _, ok := w.b.Nodes[t.NodeName]; ok {
		home = t.NodeName
	}
	return ac[home]
}

// chargeChain adds d thousandths of a GPU to a queue and its ancestors.
func (w *world) chargeChain(q common_info.QueueID, d int64) {
	qs := w.b.Ssn.ClusterInfo.Queues
	for qi, ok := qs[q]; ok; qi, ok = qs[qi.ParentQueue] {
		w.exactGpu[string(qi.UID)] += d
		if qi.ParentQueue == qi.UID {
			break
		}
	}
}

// finalTerm renders what the erasure clause compares at the end of a run: the full dump, every pod's accepted
// resources, and the queue ledger.
func (w *world) finalTerm(d dump) string {
	var as, ls []kv
	for _, name := range w.pods {
		if t := w.pod(name); t != nil {
			as = append(as, kv{w.ids.Of("p:" + name), u.ListOf(accepted(t), u.Z)})
		}
	}
	for _, q := range w.queueNames() {
		l := w.ledger[q]
		if l == nil {
			l = &[3]float64{}
		}
		ls = append(ls, kv{w.ids.Of("q:" + q), res3(l[0], l[1], l[2])})
	}
	return fmt.Sprintf("(mkXF %s %s %s %s)", w.fullDumpTerm(d), amap(as), amap(ls), d.claims)
}

func (w *world) xcallsTerm(cs []acall) string {
	out := make([]string, len(cs))
	for i, c := range cs {
		k := map[string]int{"bind": 0, "evict": 1, "pipe": 2}[c.Kind]
		out[i] = fmt.Sprintf("(mkXC %s %s %s %s %s %s)", u.Nat(k), u.Pos(w.ids.Of("p:"+c.Pod)), w.nodeOpt(c.Node),
			core.Groups(w.ids, c.Groups), u.ListOf(c.Args, u.Z), u.ListOf(c.Claims, u.Z))
	}
	return u.List(out)
}

// eraser follows a program and keeps the commands that survive: a Rollback drops everything since the checkpoint it
// returns to (most recent checkpoint of that value), a Discard everything since the statement began; Checkpoint,
// Rollback and Discard themselves are dropped.
type eraser struct {
	kept []cmdSpec
	base int     // len(kept) when the current statement began
	stk  [][2]int // outstanding checkpoints: value, len(kept) when taken (most recent last)
	ok   bool    // every rollback found its checkpoint and succeeded
	cut  int     // number of Rollback / Discard commands seen
	drop int     // commands dropped (without the Checkpoint / Rollback / Discard commands themselves)
}

func (e *eraser) step(c cmdSpec, failed bool, ret int) {
	switch c.Kind {
	case "checkpoint":
		e.stk = append(e.stk, [2]int{ret, len(e.kept)})
	case "rollback":
		e.cut++
		if failed {
			e.ok = false
			return
		}
		for i := len(e.stk) - 1; i >= 0; i-- {
			if e.stk[i][0] == c.Cp {
				e.drop += len(e.kept) - e.stk[i][1]
				e.kept = e.kept[:e.stk[i][1]]
				// the checkpoints that stay outstanding: those with a value <= cp
				k := 0
				for _, x := range e.stk {
					if x[0] <= c.Cp {
						e.stk[k] = x
						k++
					}
				}
				e.stk = e.stk[:k]
				return
			}
		}
		e.ok = false
	case "discard":
		e.cut++
		e.drop += len(e.kept) - e.base
		e.kept = e.kept[:e.base]
		e.stk = nil
	case "commit":
		e.kept = append(e.kept, c)
		e.base = len(e.kept)
		e.stk = nil
	default:
		e.kept = append(e.kept, c)
	}
}

// runErased runs the surviving commands on a second, identically built session and returns the calls of every Commit
// (with arguments) and the final state.
func runErased(w2 *world, kept []cmdSpec) (commits [][]acall, panicked string) {
	for _, c := range kept {
		nc := len(w2.fc.calls)
		_, _, pmsg := w2.exec(c)
		if pmsg != "" {
			return commits, c.String() + ": " + pmsg
		}
		if c.Kind == "commit" {
			commits = append(commits, append([]acall{}, w2.fc.calls[nc:]...))
		}
	}
	return commits, ""
}

func sortedKeys[V any](m map[string]V) []string {
	ks := make([]string, 0, len(m))
	for k := range m {
		ks = append(ks, k)
	}
	sort.Strings(ks)
	return ks
}

func (w *world) queueNames() []string {
	var ks []string
	for k := range w.b.Ssn.ClusterInfo.Queues {
		ks = append(ks, string(k))
	}
	sort.Strings(ks)
	return ks
}

func (w *world) job(pod string) *podgroup_info.PodGroupInfo {
	return w.b.Jobs[common_info.PodGroupID(w.jobOf[pod])]
}

// pod returns the job's current object for the pod (the statement may have replaced it by a clone).
func (w *world) pod(name string) *pod_info.PodInfo {
	j := w.job(name)
	if j == nil {
		return nil
	}
	return j.GetAllPodsMap()[common_info.PodID(name)]
}

func exact(f float64) int64 {
	i := int64(f)
	if float64(i) != f {
		panic(fmt.Sprintf("non-integral quantity %v", f))
	}
	return i
}

// milli converts a GPU quantity to thousandths; GPU portions are two-decimal numbers, so the product is integral up to
// float noise (anything further away is refused).
func milli(g float64) int64 {
	x := g * 1000
	r := math.Round(x)
	if math.Abs(x-r) > 1e-6 {
		panic(fmt.Sprintf("GPU quantity %v is not a multiple of 0.001", g))
	}
	return int64(r)
}

func res3(cpu, mem, gpus float64) string {
	return core.Res{Cpu: exact(cpu), Mem: exact(mem), Gpu: milli(gpus)}.Term()
}

var statuses = []pod_status.PodStatus{pod_status.Pending, pod_status.Gated, pod_status.Allocated, pod_status.Pipelined,
	pod_status.Binding, pod_status.Bound, pod_status.Running, pod_status.Releasing, pod_status.Succeeded,
	pod_status.Failed, pod_status.Unknown, pod_status.Deleted}

type kv struct {
	k    int
	term string
}

func amap(xs []kv) string {
	sort.Slice(xs, func(i, j int) bool { return xs[i].k < xs[j].k })
	out := make([]string, len(xs))
	for i, x := range xs {
		out[i] = u.Pair(u.Pos(x.k), x.term)
	}
	return u.List(out)
}

func (w *world) nodeOpt(name string) string {
	if name == "" {
		return "None"
	}
	if _, ok := w.b.Nodes[name]; !ok {
		return "None"
	}
	return u.Opt(true, u.Pos(w.ids.Of("n:"+name)))
}

// dump sections of the real session
type dump struct {
	nodes              map[string]string
	pods, jobs, queues string
	// queuesRaw: Session.QueueAllocatedResources as returned, when some queue's whole-GPU count is one below the exact
	// sum (float drift of the plugin's float64 usage, amplified by the getter's truncation); "" otherwise. queues then
	// holds what the getter returns for the exact sum.
	queuesRaw string
	claims, claimsText string // DRA worlds: every pod's ResourceClaimInfo and the plugin's view of every claim
}

func (w *world) dump() dump {
	d := dump{nodes: map[string]string{}}
	for name, ni := range w.b.Nodes {
		d.nodes[name] = core.NodeObs(w.ids, ni)
	}
	var ps, js, qs []kv
	for _, name := range w.pods {
		t := w.pod(name)
		if t == nil {
			continue
		}
		ps = append(ps, kv{w.ids.Of("p:" + name), fmt.Sprintf("(mkPV %s %s %s %s)", core.StatusTerm(t.Status),
			w.nodeOpt(t.NodeName), core.Groups(w.ids, t.GPUGroups), u.Bool(t.IsVirtualStatus))})
	}
	for _, j := range w.c.Jobs {
		job := w.b.Jobs[common_info.PodGroupID(j.Name)]
		idx := make([]string, len(statuses))
		for i, s := range statuses {
			idx[i] = u.Z(int64(len(job.PodStatusIndex[s])))
		}
		var pss []kv
		for _, n := range sortedKeys(job.PodSets) {
			p := job.PodSets[n]
			pss = append(pss, kv{w.ids.Of("s:" + j.Name + "/" + n), fmt.Sprintf("(mkPSV %s %s %s %s %s)",
				u.Z(int64(p.GetNumActiveAllocatedTasks())), u.Z(int64(p.GetNumActiveUsedTasks())), u.Z(int64(p.GetNumAliveTasks())),
				u.Z(int64(p.GetNumPendingTasks())), u.Z(int64(p.GetNumGatedTasks())))})
		}
		js = append(js, kv{w.ids.Of("j:" + j.Name), fmt.Sprintf("(mkOJ %s %s %s %s)",
			res3(job.Allocated.Cpu(), job.Allocated.Memory(), job.Allocated.GPUs()),
			u.Z(int64(job.GetActiveAllocatedTasksCount())), u.List(idx), amap(pss))})
	}
	var qraw []kv
	drifted := false
	for _, q := range w.queueNames() {
		qi := w.b.Ssn.ClusterInfo.Queues[common_info.QueueID(q)]
		rr := w.b.Ssn.QueueAllocatedResources(qi)
		raw := res3(rr.Cpu(), rr.Memory(), rr.GPUs())
		qraw = append(qraw, kv{w.ids.Of("q:" + q), raw})
		// 2 + 0.3 - 0.3 = 1.9999999999999998 in float64: the getter (whole GPUs from 1 up) then says 1
		if ex := w.exactGpu[q]; ex >= 2000 && ex%1000 == 0 && milli(rr.GPUs()) == ex-1000 {
			drifted = true
			raw = res3(rr.Cpu(), rr.Memory(), float64(ex/1000))
		}
		qs = append(qs, kv{w.ids.Of("q:" + q), raw})
	}
	if drifted {
		d.queuesRaw = amap(qraw)
		w.drift++
	}
	d.pods, d.jobs, d.queues = amap(ps), amap(js), amap(qs)
	d.claims, d.claimsText = w.claimsDump()
	return d
}

func (w *world) fullDumpTerm(d dump) string {
	var ns []kv
	for name, t := range d.nodes {
		ns = append(ns, kv{w.ids.Of("n:" + name), t})
	}
	return fmt.Sprintf("(mkOD %s %s %s %s)", amap(ns), d.pods, d.jobs, d.queues)
}

// perNode evaluates, with the real code, what NodeInfo.AddTask would make of the pod on each node of the
// cluster: the memory it takes on a device there and its accepted resources (queue charge).
func (w *world) perNode(t *pod_info.PodInfo) (gmem map[string]int64, acc map[string][3]float64) {
	gmem, acc = map[string]int64{}, map[string][3]float64{}
	for _, ns := range w.c.Nodes {
		ni := core.MkNode(ns, w.b.VM)
		c := t.Clone()
		c.Status = pod_status.Allocated
		if c.IsFractionCandidate() {
			c.GPUGroups = nil
			gmem[ns.Name] = ni.GetResourceGpuMemory(c.ResReq)
		}
		_ = ni.AddTask(c)
		qc := putils.QuantifyResourceRequirements(c.AcceptedResource)
		acc[ns.Name] = [3]float64{qc[rs.CpuResource], qc[rs.MemoryResource], qc[rs.GpuResource]}
	}
	return
}

// initTerm renders the model's initial session.
func (w *world) initTerm() string {
	ssn := w.b.Ssn
	var ns, ps, js, qs []kv
	for name, ni := range w.b.Nodes {
		var cp []kv
		for _, t := range ni.PodInfos {
			cp = append(cp, kv{w.ids.Of("p:" + string(t.UID)), core.TaskTerm(w.ids, t, ni)})
		}
		ns = append(ns, kv{w.ids.Of("n:" + name), core.NodeFullTerm(w.ids, ni, amap(cp))})
	}
	type usage struct{ a, np [3]float64 }
	use := map[string]*usage{}
	for _, q := range w.queueNames() {
		use[q] = &usage{}
	}
	for _, j := range w.c.Jobs {
		job := w.b.Jobs[common_info.PodGroupID(j.Name)]
		for _, p := range j.Pods {
			t := w.pod(p.Name)
			gm, ac := w.perNode(t)
			home := w.c.Nodes[0].Name
			if _, ok := w.b.Nodes[t.NodeName]; ok {
				home = t.NodeName
			}
			ni := w.b.Nodes[home]
			pset := podgroup_info.DefaultSubGroup
			if t.SubGroupName != "" {
				pset = t.SubGroupName
			}
			jr := resource_info.EmptyResource()
			jr.AddResourceRequirements(t.ResReq)
			q3 := ac[home]
			if t.AcceptedResource != nil && pod_status.IsActiveUsedStatus(t.Status) {
				q3 = w.chargeOf(t)
			}
			var gt, qt []kv
			for _, ns := range w.c.Nodes {
				gt = append(gt, kv{w.ids.Of("n:" + ns.Name), u.Z(gm[ns.Name])})
				a := ac[ns.Name]
				qt = append(qt, kv{w.ids.Of("n:" + ns.Name), res3(a[0], a[1], a[2])})
			}
			ps = append(ps, kv{w.ids.Of("p:" + p.Name), fmt.Sprintf("(mkPod %s %s %s %s %s %s %s %s)", core.TaskTerm(w.ids, t, ni),
				w.nodeOpt(t.NodeName), u.Bool(t.IsVirtualStatus), u.Pos(w.ids.Of("s:"+j.Name+"/"+pset)),
				res3(jr.Cpu(), jr.Memory(), jr.GPUs()), res3(q3[0], q3[1], q3[2]), amap(gt), amap(qt))})
			if pod_status.AllocatedStatus(t.Status) {
				for q, ok := ssn.ClusterInfo.Queues[job.Queue]; ok; q, ok = ssn.ClusterInfo.Queues[q.ParentQueue] {
					us := use[string(q.UID)]
					for i := range q3 {
						us.a[i] += q3[i]
						if !job.IsPreemptibleJob() {
							us.np[i] += q3[i]
						}
					}
				}
			}
		}
		var idx, pss []kv
		for i, s := range statuses {
			if n := len(job.PodStatusIndex[s]); n > 0 {
				idx = append(idx, kv{i + 1, u.Z(int64(n))})
			}
		}
		for _, n := range sortedKeys(job.PodSets) {
			p := job.PodSets[n]
			pidx := u.List([]string{u.Pair(u.Pos(1), u.Z(int64(p.GetNumPendingTasks()))), u.Pair(u.Pos(2), u.Z(int64(p.GetNumGatedTasks())))})
			pss = append(pss, kv{w.ids.Of("s:" + j.Name + "/" + n), fmt.Sprintf("(mkPsc %s %s %s %s)",
				u.Z(int64(p.GetNumActiveAllocatedTasks())), u.Z(int64(p.GetNumActiveUsedTasks())), u.Z(int64(p.GetNumAliveTasks())), pidx)})
		}
		js = append(js, kv{w.ids.Of("j:" + j.Name), fmt.Sprintf("(mkJob %s %s %s %s %s %s)", u.Pos(w.ids.Of("q:"+string(job.Queue))),
			u.Bool(!job.IsPreemptibleJob()), res3(job.Allocated.Cpu(), job.Allocated.Memory(), job.Allocated.GPUs()),
			u.Z(int64(job.GetActiveAllocatedTasksCount())), amap(idx), amap(pss))})
	}
	for _, q := range w.queueNames() {
		qi := ssn.ClusterInfo.Queues[common_info.QueueID(q)]
		parent := "None"
		if _, ok := ssn.ClusterInfo.Queues[qi.ParentQueue]; ok {
			parent = u.Opt(true, u.Pos(w.ids.Of("q:"+string(qi.ParentQueue))))
		}
		us := use[q]
		qs = append(qs, kv{w.ids.Of("q:" + q), fmt.Sprintf("(mkQ %s %s %s)", parent, res3(us.a[0], us.a[1], us.a[2]), res3(us.np[0], us.np[1], us.np[2]))})
	}
	return fmt.Sprintf("(mkSess %s %s %s %s [] 0%%nat false)", amap(ns), amap(ps), amap(js), amap(qs))
}

func (w *world) cmdTerm(c cmdSpec) string {
	gs := "None"
	if c.HasGroups {
		gs = u.Opt(true, core.Groups(w.ids, c.Groups))
	}
	switch c.Kind {
	case "evict":
		return fmt.Sprintf("(Evict %s)", u.Pos(w.ids.Of("p:"+c.Pod)))
	case "unevict":
		return fmt.Sprintf("(Unevict %s)", u.Pos(w.ids.Of("p:"+c.Pod)))
	case "pipeline":
		return fmt.Sprintf("(Pipeline %s %s %s %s)", u.Pos(w.ids.Of("p:"+c.Pod)), u.Pos(w.ids.Of("n:"+c.Node)), gs, u.Bool(c.Upd))
	case "allocate":
		return fmt.Sprintf("(Allocate %s %s %s)", u.Pos(w.ids.Of("p:"+c.Pod)), u.Pos(w.ids.Of("n:"+c.Node)), gs)
	case "checkpoint":
		return "Checkpoint"
	case "rollback":
		return fmt.Sprintf("(Rollback %s)", u.Nat(c.Cp))
	case "discard":
		return "Discard"
	case "commit":
		return "Commit"
	case "convert":
		return fmt.Sprintf("(Convert %s)", u.Pos(w.ids.Of("j:"+c.Job)))
	}
	panic("unknown command " + c.Kind)
}

// exec runs one command on the real statement.
func (w *world) exec(c cmdSpec) (failed bool, ret int, panicked string) {
	defer func() {
		if r := recover(); r != nil {
			panicked = fmt.Sprint(r)
		}
	}()
	var err error
	switch c.Kind {
	case "evict":
		if t := w.pod(c.Pod); t != nil {
			if c.Stale && w.copies[c.Pod] != nil {
				t = w.copies[c.Pod]
			}
			err = w.stmt.Evict(t, "verif", eviction_info.EvictionMetadata{Action: "reclaim", EvictionGangSize: 1})
		} else {
			err = errors.New("no pod")
		}
	case "unevict":
		if t := w.pod(c.Pod); t != nil {
			err = w.stmt.Unevict(t)
		} else {
			err = errors.New("no pod")
		}
	case "pipeline":
		if t := w.pod(c.Pod); t != nil {
			if c.HasGroups {
				t.GPUGroups = append([]string{}, c.Groups...)
			}
			err = w.stmt.Pipeline(t, c.Node, c.Upd)
		} else {
			err = errors.New("no pod")
		}
	case "allocate":
		if t := w.pod(c.Pod); t != nil {
			if c.HasGroups {
				t.GPUGroups = append([]string{}, c.Groups...)
			}
			err = w.stmt.Allocate(t, c.Node)
		} else {
			err = errors.New("no pod")
		}
	case "checkpoint":
		ret = int(w.stmt.Checkpoint())
	case "rollback":
		err = w.stmt.Rollback(framework.Checkpoint(c.Cp))
	case "discard":
		w.stmt.Discard()
	case "commit":
		_ = w.stmt.Commit()
	case "convert":
		err = w.stmt.ConvertAllAllocatedToPipelined(common_info.PodGroupID(c.Job))
	}
	return err != nil, ret, ""
}

func (w *world) callsTerm(cs []acall) (string, []string) {
	out := make([]string, len(cs))
	desc := make([]string, len(cs))
	for i, c := range cs {
		switch c.Kind {
		case "bind":
			out[i] = fmt.Sprintf("(ABind %s %s %s)", u.Pos(w.ids.Of("p:"+c.Pod)), u.Pos(w.ids.Of("n:"+c.Node)), core.Groups(w.ids, c.Groups))
		case "evict":
			out[i] = fmt.Sprintf("(AEvict %s)", u.Pos(w.ids.Of("p:"+c.Pod)))
		case "pipe":
			out[i] = fmt.Sprintf("(APipe %s %s %s)", u.Pos(w.ids.Of("p:"+c.Pod)), w.nodeOpt(c.Node), core.Groups(w.ids, c.Groups))
		}
		desc[i] = c.Kind + ":" + c.Pod
	}
	return u.List(out), desc
}

// A driver decides the next command from the real state; nil ends the program.
type driver interface {
	next(w *world, step int) *cmdSpec
	wf() bool
}

type result struct {
	term, label string
	kinds       map[string]int
	nontrivial  bool
	panicked    string
	stale       int // rollbacks / discards after which a pod's GPU groups differ from the checkpoint
	steps       int
	// shapes inside one statement, counted on the operations still in the log (a rollback drops what it undoes):
	reEvict       int            // a pod is evicted again after it was un-evicted
	reUnevict     int            // ... and un-evicted again (evict, un-evict, evict, un-evict of one pod)
	reUnevictThen map[string]int // what ended the statement after such a second un-eviction
	// Evict applied to a pod that was already Releasing (no operation recorded): by what the pod was
	// (own-eviction: evicted earlier by this statement; terminating: Releasing before the statement), and what
	// came later in the same statement
	ignoredEvict map[string]int
	ignoredThen  map[string]int
	// erasure: the program was also run without its rolled back / discarded parts on a second session
	erased        bool
	erasedDropped int    // commands dropped by the erasure (not counting Checkpoint / Rollback / Discard)
	erasedKept    int    // commands of the erased program
	erasedSkip    string // why no erased run was made (wf programs with a Rollback / Discard only)
	// a gpu-memory pod was placed on a node, that step was rolled back / discarded, and the pod was placed on a
	// node whose GPUs have another memory size; "+commit": and that placement was committed
	heteroReplace string
	staleCommitted int // shared pods that end Releasing (not virtual) with other GPU groups than in the erased run
	// DRA worlds: commands after which the claims dump differs from the one before, rollbacks / discards whose claims
	// dump is compared with the checkpoint's, and those where it differs
	claimMoves, claimRestores, claimNotRestored int
	drift                                       int // dumps with a whole-GPU float drift of the queue usage
}

// gpuMemOf is the memory of the GPUs of a node of the cluster (0: default).
func gpuMemOf(c cycle.Cluster, node string) int64 {
	for _, n := range c.Nodes {
		if n.Name == node {
			return n.GpuMem
		}
	}
	return 0
}

func runCase(c cycle.Cluster, fails map[int]bool, d driver, maxSteps int) result {
	return runCaseD(c, nil, fails, d, maxSteps)
}

func runCaseD(c cycle.Cluster, dra *draSpec, fails map[int]bool, d driver, maxSteps int) result {
	w := newWorldD(c, dra, fails)
	res := result{kinds: map[string]int{}}
	// the second, identically built session for the erased run (built while the program runs)
	var w2 *world
	built2 := make(chan struct{})
	if d.wf() {
		go func() { w2 = newWorldD(c, dra, fails); close(built2) }()
	} else {
		close(built2)
	}
	er := &eraser{ok: true}
	var commitsP [][]acall
	// gpu-memory pods: node of the last placement that was rolled back / discarded, per pod
	type placed struct {
		node string
		at   int // len(er.kept) before the placing command
	}
	livePlace := map[string]placed{}   // placements of the open statement still in effect
	abandoned := map[string]map[int64]bool{} // pod -> GPU memory sizes of the nodes of abandoned placements
	init := w.initTerm()
	cinit := w.claimsInitTerm()
	prev := w.dump()
	d0 := w.fullDumpTerm(prev)
	cd0, claims0 := prev.claims, prev.claimsText
	var steps, descr []string
	// shadow of the log: kind of the command that appended each entry (for the non-triviality rule)
	var shadow []string
	cpDump := map[int]dump{}
	start := prev
	type evEvent struct {
		pos  int
		pod  string
		kind byte // 'E' evict, 'U' un-evict
	}
	var evs []evEvent
	pending2nd := false // the statement holds a second un-eviction of some pod
	res.reUnevictThen = map[string]int{}
	res.ignoredEvict, res.ignoredThen = map[string]int{}, map[string]int{}
	pendingIgnored := false // an Evict of a Releasing pod was issued in the current statement
	seqOf := func(pod string) string {
		b := []byte{}
		for _, e := range evs {
			if e.pod == pod {
				b = append(b, e.kind)
			}
		}
		return string(b)
	}
	for i := 0; i < maxSteps; i++ {
		cs := d.next(w, i)
		if cs == nil {
			break
		}
		before := int(w.stmt.Checkpoint())
		nc := len(w.fc.calls)
		wasEvicted, wasReleasing := false, false
		if cs.Pod != "" {
			if t := w.pod(cs.Pod); t != nil {
				wasReleasing = t.Status == pod_status.Releasing
				wasEvicted = wasReleasing && t.IsVirtualStatus
			}
		}
		failed, ret, pmsg := w.exec(*cs)
		if pmsg != "" {
			res.panicked = cs.String() + ": " + pmsg
			descr = append(descr, cs.String()+"!PANIC")
			break
		}
		after := int(w.stmt.Checkpoint())
		// erasure bookkeeping
		keptBefore := len(er.kept)
		er.step(*cs, failed, ret)
		if cs.Kind == "commit" {
			commitsP = append(commitsP, append([]acall{}, w.fc.calls[nc:]...))
		}
		switch cs.Kind {
		case "allocate", "pipeline":
			if t := w.pod(cs.Pod); !failed && t != nil && t.IsMemoryRequest() {
				if ab := abandoned[cs.Pod]; ab != nil {
					for m := range ab {
						if m != gpuMemOf(c, cs.Node) && res.heteroReplace == "" {
							res.heteroReplace = "open"
						}
					}
				}
				livePlace[cs.Pod] = placed{cs.Node, keptBefore}
			}
		case "rollback", "discard":
			for pod, pl := range livePlace {
				if pl.at >= len(er.kept) {
					if abandoned[pod] == nil {
						abandoned[pod] = map[int64]bool{}
					}
					abandoned[pod][gpuMemOf(c, pl.node)] = true
					delete(livePlace, pod)
				}
			}
		case "commit":
			if res.heteroReplace == "open" {
				for pod := range livePlace {
					if ab := abandoned[pod]; ab != nil {
						for m := range ab {
							if m != gpuMemOf(c, livePlace[pod].node) {
								res.heteroReplace = "committed"
							}
						}
					}
				}
			}
			livePlace = map[string]placed{}
		}
		if !failed {
			switch cs.Kind {
			case "evict":
				if after == before {
					// nothing recorded: the pod was already Releasing
					k := "other"
					if wasEvicted {
						k = "own-eviction"
					} else if wasReleasing {
						k = "terminating"
					}
					if cs.Stale {
						k += "(stale copy passed)"
					}
					res.ignoredEvict[k]++
					pendingIgnored = true
					break
				}
				evs = append(evs, evEvent{before, cs.Pod, 'E'})
				if strings.HasSuffix(seqOf(cs.Pod), "EUE") {
					res.reEvict++
				}
			case "unevict", "pipeline":
				t := w.pod(cs.Pod)
				if wasEvicted && t != nil && !t.IsVirtualStatus && t.Status != pod_status.Releasing {
					evs = append(evs, evEvent{before, cs.Pod, 'U'})
					if strings.HasSuffix(seqOf(cs.Pod), "EUEU") {
						res.reUnevict++
						pending2nd = true
					}
				}
			case "rollback":
				k := 0
				for _, e := range evs {
					if e.pos < cs.Cp {
						evs[k] = e
						k++
					}
				}
				evs = evs[:k]
				if pending2nd {
					res.reUnevictThen["rollback"]++
				}
				if pendingIgnored {
					res.ignoredThen["rollback"]++
				}
			case "discard", "commit":
				evs = nil
				if pending2nd {
					res.reUnevictThen[cs.Kind]++
				}
				pending2nd = false
				if pendingIgnored {
					res.ignoredThen[cs.Kind]++
				}
				pendingIgnored = false
			}
			if pendingIgnored && (cs.Kind == "unevict" || cs.Kind == "pipeline") && wasEvicted {
				res.ignoredThen["unevict-or-replace"]++
			}
		}
		switch cs.Kind {
		case "rollback", "discard":
			cp := cs.Cp
			if cs.Kind == "discard" {
				cp = 0
			}
			if !failed && cp <= len(shadow) {
				ks := map[string]bool{}
				for _, k := range shadow[cp:] {
					ks[k] = true
				}
				if len(shadow)-cp >= 2 && len(ks) >= 2 {
					res.nontrivial = true
				}
				shadow = shadow[:cp]
			}
		case "commit":
			shadow = nil
		case "convert":
			shadow = shadow[:0]
			for k := 0; k < after; k++ {
				shadow = append(shadow, "pipeline")
			}
		default:
			for k := before; k < after; k++ {
				shadow = append(shadow, cs.Kind)
			}
		}
		now := w.dump()
		if cs.Kind == "checkpoint" {
			cpDump[ret] = now
		}
		if !failed && (cs.Kind == "rollback" || cs.Kind == "discard") {
			was, ok := cpDump[cs.Cp]
			if cs.Kind == "discard" {
				was, ok = start, true
			}
			if ok && was.pods != now.pods {
				res.stale++
			}
		}
		startBefore := start
		if cs.Kind == "discard" || cs.Kind == "commit" {
			start = now
			cpDump = map[int]dump{}
		}
		callsT, callsD := w.callsTerm(w.fc.calls[nc:])
		var ns []kv
		for name, t := range now.nodes {
			term := "None"
			if prev.nodes[name] != t {
				term = u.Opt(true, t)
			}
			ns = append(ns, kv{w.ids.Of("n:" + name), term})
		}
		sec := func(a, b string) string {
			if a == b {
				return "None"
			}
			return u.Opt(true, b)
		}
		errT := failed
		if cs.Kind == "commit" || cs.Kind == "discard" || cs.Kind == "checkpoint" {
			errT = false
		}
		qrawT := "None"
		if now.queuesRaw != "" {
			qrawT = u.Opt(true, now.queuesRaw)
		}
		steps = append(steps, fmt.Sprintf("(mkOS %s %s %s %s %s %s %s %s %s %s)", w.cmdTerm(*cs), u.Bool(errT), u.Nat(ret), callsT,
			amap(ns), sec(prev.pods, now.pods), sec(prev.jobs, now.jobs), sec(prev.queues, now.queues), sec(prev.claims, now.claims), qrawT))
		ds := cs.String()
		if failed {
			ds += "!err"
		}
		if dra != nil && prev.claims != now.claims {
			res.claimMoves++
		}
		if now.queuesRaw != "" {
			ds += "~queue-usage-float-drift"
		}
		if dra != nil && traceClaims && !(cs.Kind == "rollback" || cs.Kind == "discard") {
			ds += "[" + now.claimsText + "]"
		}
		if dra != nil && !failed && (cs.Kind == "rollback" || cs.Kind == "discard") {
			// the claims as the scheduler sees them after the abandoned part (readable in replays)
			ds += "[" + now.claimsText + "]"
			was, ok := cpDump[cs.Cp]
			if cs.Kind == "discard" {
				was, ok = startBefore, true
			}
			if ok {
				res.claimRestores++
				if was.claims != now.claims {
					res.claimNotRestored++
				}
			}
		}
		if len(callsD) > 0 {
			ds += "{" + strings.Join(callsD, ",") + "}"
		}
		descr = append(descr, ds)
		res.kinds[cs.Kind]++
		prev = now
		res.steps++
	}
	var fl []string
	var fli []int
	for i := range fails {
		fli = append(fli, i)
	}
	sort.Ints(fli)
	for _, i := range fli {
		fl = append(fl, u.Nat(i))
	}
	<-built2
	erT := "None"
	switch {
	case !d.wf() || er.cut == 0:
	case res.panicked != "":
		res.erasedSkip = "panic"
	case !er.ok:
		res.erasedSkip = "rollback-without-checkpoint-or-failed"
	default:
		finalP := w.finalTerm(prev)
		w2.ids = w.ids // same names, same numbers (GPU groups included)
		commitsE, pmsg := runErased(w2, er.kept)
		if pmsg != "" {
			res.panicked = "erased run: " + pmsg
			res.erasedSkip = "panic-in-erased-run"
			break
		}
		var ks []string
		for _, k := range er.kept {
			ks = append(ks, w.cmdTerm(k))
		}
		cp := make([]string, len(commitsP))
		for i, x := range commitsP {
			cp[i] = w.xcallsTerm(x)
		}
		ce := make([]string, len(commitsE))
		for i, x := range commitsE {
			ce[i] = w.xcallsTerm(x)
		}
		erT = fmt.Sprintf("(Some (mkER %s %s %s %s %s))", u.List(ks), u.List(cp), u.List(ce), finalP, w2.finalTerm(w2.dump()))
		res.erased, res.erasedDropped, res.erasedKept = true, er.drop, len(er.kept)
		for _, name := range w.pods {
			a, b := w.pod(name), w2.pod(name)
			if a != nil && b != nil && a.Status == pod_status.Releasing && !a.IsVirtualStatus && !eqGroups(a.GPUGroups, b.GPUGroups) {
				res.staleCommitted++
			}
		}
	}
	res.drift = w.drift
	res.term = fmt.Sprintf("(KProg (mkPC %s %s %s %s %s %s %s %s))", init, u.List(fl), u.Bool(d.wf()), d0, u.List(steps), erT, cinit, cd0)
	wfs := "wf"
	if !d.wf() {
		wfs = "nonwf"
	}
	res.label = fmt.Sprintf("%s fails%v %s%s :: %s", wfs, fli, cycle.Describe(c), dra.describe(), strings.Join(descr, " "))
	if dra != nil {
		res.label += " [claims at start: " + claims0 + "]"
	}
	return res
}
